/*
 * C13 / e2fsck/super.c — orphan processing and superblock "fix-ups" are skipped by a read-only e2fsck.
 *
 * release_orphan_inodes() has NO E2F_OPT_READONLY test of its own: it clears s_last_orphan, marks the superblock dirty,
 * and then truncates / frees inodes through ext2fs_write_inode, the bitmaps and io_channel_write_blk64.  The only thing
 * that keeps it out of a read-only run is its single call site in check_super_block():
 *        if (!(ctx->options & E2F_OPT_READONLY) && release_orphan_inodes(ctx)) { ... }
 * So the statement is made on check_super_block() (unit check_super_block_ro): with E2F_OPT_READONLY (and therefore
 * E2F_OPT_NO, fix_problem answering no)
 *   - release_orphan_inodes is not called (it is replaced by a contract that counts calls),
 *   - no write method of the channel is reached, e2fsck_write_inode / uuid_generate / ext2fs_update_dynamic_rev /
 *     ext2fs_group_desc_csum_set / ext2fs_init_csum_seed are not reached,
 *   - the in-memory superblock is byte-identical afterwards and EXT2_FLAG_DIRTY is not newly set (ext2fs_close2 flushes on
 *     EXT2_FLAG_DIRTY alone, unit undo/ext2fs_close2) — unless the user combined -n with -E bmap2extent
 *     (E2F_OPT_CONVERT_BMAP: check_super_block sets the extents feature in memory and marks the superblock dirty without
 *     looking at READONLY; the flush at close then fails on the O_RDONLY descriptor — observation, excluded by the CHECK).
 * check_resize_inode() (unit check_resize_inode_ro): READONLY => e2fsck_write_inode not reached, s_state/flags untouched.
 * The callees e2fsck_move_ext3_journal (unit move_ext3_journal_ro), e2fsck_hide_quota, e2fsck_fix_ext3_journal_hint,
 * e2fsck_validate_quota_inodes live in other files: counting stubs here.
 */
/* VERIF-UNIT
{
 "name": "check_super_block_ro",
 "props": ["C13"],
 "level": "P",
 "tier": "quick",
 "harness": "h_csb_ro",
 "replace": ["release_orphan_inodes"],
 "includes": ["e2fsck"],
 "sources": ["lib/ext2fs/io_manager.c", "lib/uuid/isnull.c", "lib/ext2fs/blknum.c"],
 "unwind": 17,
 "unwind_reason": "uuid_is_null: 16 bytes; the per-group loops run fs->group_desc_count == 1 times (assumption); MAXQUOTAS loops are in stubs",
 "cbmc_flags": ["--object-bits", "10"],
 "timeout": 600,
 "functions": ["e2fsck/super.c:check_super_block", "e2fsck/super.c:e2fsck_fix_dirhash_hint", "e2fsck/super.c:check_super_value"],
 "assumes": ["E2F_OPT_READONLY and E2F_OPT_NO set (PRS(): READONLY only together with NO; residual); the handle has no EXT2_FLAG_RW (main(): residual)",
	     "fix_problem answers no under E2F_OPT_NO (problem.c; -1 only for PROMPT_NONE+PR_NOCOLLATE codes, none used here)",
	     "GEOMETRY FIXED to one group of a 1 KiB-block filesystem (s_log_block_size = s_log_cluster_size = 0, 8192 blocks and clusters per group, s_inode_size 128 or 256, desc size 32, group_desc_count 1, first_data_block 1): the geometry fields only feed the sanity checks, which end in fix_problem + E2F_FLAG_ABORT; all other superblock fields (state, features except 64bit/bigalloc geometry bits are arbitrary too, counts, times, orphan and journal fields, flags, uuid, os, rev level), the group descriptor, ctx->options/flags/now, profile booleans are arbitrary",
	     "callees from other files are stubs: profile_get_boolean / fs_proc_check / check_for_modules / group-descriptor checksum functions return arbitrary values; e2fsck_validate_quota_inodes, e2fsck_move_ext3_journal, e2fsck_fix_ext3_journal_hint, e2fsck_hide_quota are counting no-ops (own units / own READONLY guards)",
	     "release_orphan_inodes is replaced by a counting contract; no frame enforcement on check_super_block"],
 "native": false
}
*/
/* VERIF-UNIT
{
 "name": "check_resize_inode_ro",
 "props": ["C13"],
 "level": "P",
 "tier": "quick",
 "harness": "h_resize_ro",
 "includes": ["e2fsck"],
 "sources": ["lib/ext2fs/io_manager.c", "lib/ext2fs/blknum.c"],
 "unwind": 3,
 "unwindset": {"check_resize_inode.0": 16, "check_resize_inode.1": 16},
 "unwind_reason": "loops .0/.1: EXT2_N_BLOCKS = 15 i_block slots; reserved-gdt loop (.4): s_reserved_gdt_blocks / 4 <= 1 iterations, group loop (.3): j = 1 .. group_desc_count - 1 <= 1 iteration (assumptions); .2 is the backward goto resize_inode_invalid, which leaves through cleanup; unwinding assertions check all of them",
 "cbmc_flags": ["--object-bits", "10"],
 "timeout": 600,
 "functions": ["e2fsck/super.c:check_resize_inode"],
 "assumes": ["E2F_OPT_READONLY and E2F_OPT_NO set; fix_problem answers no", "block size 1 KiB, s_reserved_gdt_blocks < 8, group_desc_count <= 2 (bounds the two verification loops; they only read)",
	     "ext2fs_read_inode / ext2fs_read_ind_block / ext2fs_bg_has_super are stubs with arbitrary results"],
 "native": false
}
*/
#include "verif.h"

#define RO_NCHOICE 40
struct in_sup {
	int options, ctx_flags;
	unsigned int fs_flags;
	unsigned char sb[1024];
	unsigned char gd[64];
	unsigned char big_inode;
	unsigned char rinode[128];
	unsigned int ind[512];		/* dind + ind block images for check_resize_inode */
	unsigned int group_desc_count;
	long long now;
	unsigned long long num_blocks;
	unsigned long long choice[RO_NCHOICE];
};
struct in_sup IN;
#include "verif_in.h"
#include "ro_monitor.h"

static unsigned int ro_nchoice;
static unsigned long long ro_choice(void)
{
	unsigned long long v = ro_nchoice < RO_NCHOICE ? IN.choice[ro_nchoice] : 0;
	ro_nchoice++;
	return v;
}
#define RO_ERR() ((errcode_t)(long)(ro_choice() & 0x7fffffffULL))

unsigned int g_orphan_calls, g_write_inode, g_forbidden, g_quota_validate, g_move_jnl, g_fix_hint, g_hide_quota;
unsigned long long verif_k;

#include "config.h"
#include "e2fsck.h"
static int release_orphan_inodes(e2fsck_t ctx)
	ASSIGNS(g_orphan_calls)
	ENSURES(g_orphan_calls == OLD(g_orphan_calls) + 1);

#include "e2fsck/super.c"

#define RO ((IN.options & E2F_OPT_READONLY) != 0)

static struct struct_io_manager RO_MGR;
static struct struct_io_channel FSCH;
static struct struct_ext2_filsys FS;
static struct ext2_super_block SB;
static struct e2fsck_struct CTX;
static unsigned char GD[64];

static errcode_t st_write_blk64(io_channel ch, unsigned long long block, int count, const void *buf)
{ RO_EV_WRITE(RO, (FS.flags & EXT2_FLAG_RW) != 0, "the filesystem device"); return RO_ERR(); }
static errcode_t st_write_blk(io_channel ch, unsigned long block, int count, const void *buf)
{ return st_write_blk64(ch, block, count, buf); }
static errcode_t st_write_byte(io_channel ch, unsigned long offset, int count, const void *buf)
{ RO_EV_WRITE(RO, (FS.flags & EXT2_FLAG_RW) != 0, "the filesystem device (write_byte)"); return RO_ERR(); }
static errcode_t st_read_blk64(io_channel ch, unsigned long long block, int count, void *buf)
{ return RO_ERR(); }

/* ---- callees from other translation units ---- */
void *e2fsck_allocate_memory(e2fsck_t ctx, unsigned long size, const char *description)
{
	void *p = malloc(size);
	ASSUME(p != 0);		/* the real one is fatal on failure */
	memset(p, 0, size);
	return p;
}
int fix_problem(e2fsck_t ctx, problem_t code, struct problem_context *pctx)
{
	if (ctx->options & E2F_OPT_NO)
		return 0;
	return (int)(ro_choice() & 1);
}
void clear_problem_context(struct problem_context *pctx) { memset(pctx, 0, sizeof(*pctx)); }
void com_err(const char *whoami, errcode_t code, const char *fmt, ...) { }
char *gettext(const char *msgid) { return (char *)msgid; }
errcode_t profile_get_boolean(profile_t profile, const char *name, const char *subname, const char *subsubname,
			      int def_val, int *ret_boolean)
{ *ret_boolean = (int)(ro_choice() & 1); return 0; }
int fs_proc_check(const char *fs_name) { return (int)(ro_choice() & 1); }
int check_for_modules(const char *fs_name) { return (int)(ro_choice() & 1); }
int ext2fs_group_desc_csum_verify(ext2_filsys fs, dgrp_t group) { return (int)(ro_choice() & 1); }
__u16 ext2fs_group_desc_csum(ext2_filsys fs, dgrp_t group) { return (__u16) ro_choice(); }
void ext2fs_group_desc_csum_set(ext2_filsys fs, dgrp_t group)
{ g_forbidden++; RO_EV_FORBIDDEN(RO, "ext2fs_group_desc_csum_set (group descriptor rewritten)"); }
void uuid_generate(uuid_t out) { g_forbidden++; RO_EV_FORBIDDEN(RO, "uuid_generate (new filesystem UUID)"); }
void ext2fs_init_csum_seed(ext2_filsys fs) { g_forbidden++; RO_EV_FORBIDDEN(RO, "ext2fs_init_csum_seed"); }
void ext2fs_update_dynamic_rev(ext2_filsys fs) { g_forbidden++; RO_EV_FORBIDDEN(RO, "ext2fs_update_dynamic_rev"); }
void e2fsck_write_inode(e2fsck_t ctx, unsigned long ino, struct ext2_inode *inode, const char *proc)
{ g_write_inode++; RO_EV_FORBIDDEN(RO, "e2fsck_write_inode"); }
void e2fsck_validate_quota_inodes(e2fsck_t ctx) { g_quota_validate++; }
void e2fsck_move_ext3_journal(e2fsck_t ctx) { g_move_jnl++; }
int e2fsck_fix_ext3_journal_hint(e2fsck_t ctx) { g_fix_hint++; return 0; }
void e2fsck_hide_quota(e2fsck_t ctx) { g_hide_quota++; }
errcode_t ext2fs_read_inode(ext2_filsys fs, ext2_ino_t ino, struct ext2_inode *inode)
{ memcpy(inode, IN.rinode, sizeof(*inode)); return RO_ERR(); }
errcode_t ext2fs_read_ind_block(ext2_filsys fs, blk_t blk, void *buf)
{
	if (ro_choice() & 1)		/* one of two arbitrary block images */
		memcpy(buf, &IN.ind[0], 1024);
	else
		memcpy(buf, &IN.ind[256], 1024);
	return RO_ERR();
}
int ext2fs_bg_has_super(ext2_filsys fs, dgrp_t group) { return (int)(ro_choice() & 1); }

static void build(void)
{
	RO_MON_RESET();
	ro_nchoice = 0;
	g_orphan_calls = g_write_inode = g_forbidden = g_quota_validate = g_move_jnl = g_fix_hint = g_hide_quota = 0;
	memset(&RO_MGR, 0, sizeof(RO_MGR));
	RO_MGR.magic = EXT2_ET_MAGIC_IO_MANAGER;
	RO_MGR.read_blk64 = st_read_blk64;
	RO_MGR.write_blk = st_write_blk;
	RO_MGR.write_blk64 = st_write_blk64;
	RO_MGR.write_byte = st_write_byte;
	memset(&FSCH, 0, sizeof(FSCH));
	FSCH.magic = EXT2_ET_MAGIC_IO_CHANNEL;
	FSCH.manager = &RO_MGR;
	FSCH.block_size = 1024;
	memcpy(&SB, IN.sb, sizeof(SB));
	memcpy(GD, IN.gd, sizeof(GD));
	memset(&FS, 0, sizeof(FS));
	FS.magic = EXT2_ET_MAGIC_EXT2FS_FILSYS;
	FS.io = &FSCH;
	FS.super = &SB;
	FS.group_desc = (struct opaque_ext2_group_desc *) GD;
	FS.blocksize = 1024;
	FS.flags = IN.fs_flags;
	FS.cluster_ratio_bits = 0;
	memset(&CTX, 0, sizeof(CTX));
	CTX.fs = &FS;
	CTX.options = IN.options;
	CTX.flags = IN.ctx_flags;
	CTX.now = IN.now;
	CTX.num_blocks = IN.num_blocks;
}

static void ro_common_assumptions(void)
{
	ASSUME(RO);
	ASSUME(IN.options & E2F_OPT_NO);
	ASSUME(!(IN.fs_flags & EXT2_FLAG_RW));
	ASSUME(verif_k < 1024);
}

void h_csb_ro(void)
{
	LOAD_IN();
	ro_common_assumptions();
	build();
	/* fixed geometry (see assumes) */
	SB.s_log_block_size = 0;
	SB.s_log_cluster_size = 0;
	SB.s_blocks_per_group = 8192;
	SB.s_clusters_per_group = 8192;
	SB.s_first_data_block = 1;
	SB.s_inode_size = IN.big_inode ? 256 : 128;
	SB.s_desc_size = 0;
	SB.s_feature_incompat &= ~(EXT4_FEATURE_INCOMPAT_64BIT);
	SB.s_feature_ro_compat &= ~(EXT4_FEATURE_RO_COMPAT_BIGALLOC);
	FS.group_desc_count = 1;
	FS.desc_blocks = 1;
	FS.inode_blocks_per_group = (SB.s_inodes_per_group >> (IN.big_inode ? 2 : 3));
	struct ext2_super_block sb0 = SB;

	check_super_block(&CTX);

	CHECK(g_orphan_calls == 0, "read-only: release_orphan_inodes is not called");
	CHECK(ro_mon.writes == 0 && g_write_inode == 0 && g_forbidden == 0, "read-only: no write method, no inode write, no uuid/rev/checksum rewrite reached");
	if (!(IN.options & E2F_OPT_CONVERT_BMAP)) {
		CHECK(((unsigned char *)&SB)[verif_k] == ((unsigned char *)&sb0)[verif_k], "read-only: in-memory superblock unchanged by check_super_block");
		CHECK(!(FS.flags & EXT2_FLAG_DIRTY) || (IN.fs_flags & EXT2_FLAG_DIRTY), "read-only: the handle is not marked dirty by check_super_block");
	}
	CHECK(GD[verif_k & 63] == IN.gd[verif_k & 63], "read-only: group descriptor unchanged");
	if (g_hide_quota == 1)
		REACH("ran to the end of check_super_block");
	if (g_hide_quota == 1 && SB.s_last_orphan != 0)
		REACH("orphans present and skipped");
	REACH("end");
}

void h_resize_ro(void)
{
	LOAD_IN();
	ro_common_assumptions();
	build();
	ASSUME(SB.s_reserved_gdt_blocks < 8);
	ASSUME(IN.group_desc_count >= 1 && IN.group_desc_count <= 2);
	ASSUME(SB.s_log_block_size == 0 && SB.s_log_cluster_size == 0);
	SB.s_feature_incompat &= ~(EXT4_FEATURE_INCOMPAT_64BIT);
	FS.group_desc_count = IN.group_desc_count;
	FS.desc_blocks = 1;
	struct ext2_super_block sb0 = SB;

	check_resize_inode(&CTX);

	CHECK(ro_mon.writes == 0 && g_write_inode == 0, "read-only: the resize inode is not rewritten");
	CHECK(((unsigned char *)&SB)[verif_k] == ((unsigned char *)&sb0)[verif_k], "read-only: in-memory superblock unchanged by check_resize_inode (s_state keeps EXT2_VALID_FS)");
	CHECK(FS.flags == IN.fs_flags, "read-only: the handle is not marked dirty by check_resize_inode");
	if (CTX.flags & E2F_FLAG_RESIZE_INODE)
		REACH("resize inode flagged");
	REACH("end");
}
