/*
 * C13 (library write entry points refuse without EXT2_FLAG_RW): lib/ext2fs/inode.c
 *   ext2fs_write_inode2 (and through it ext2fs_write_inode / ext2fs_write_inode_full), ext2fs_write_new_inode.
 *
 * Statement: for a handle WITHOUT EXT2_FLAG_RW the function returns an error — EXT2_ET_RO_FILSYS unless an earlier check
 * (magic, journal_dev, inode number, allocation, override hook, read of the old inode) already failed — and no write method
 * of the channel is reached; fs->flags is unchanged (EXT2_FLAG_CHANGED / DIRTY not set).
 * What the unit also shows (not hidden): the EXT2_FLAG_RW test comes AFTER the in-memory inode cache has been updated
 * (fs->icache entry for `ino` overwritten with the new contents, or a cache created), so a read-only handle's later
 * ext2fs_read_inode returns the never-written contents.  No device effect: observation only.
 * ext2fs_read_inode2 (same file) is replaced by a contract (arbitrary result into the caller's buffer, no channel write:
 * it only calls io_channel_read_blk64); ext2fs_create_inode_cache is replaced by a contract (error, or a fresh cache object).
 * In the write_new_inode unit ext2fs_write_inode2 is replaced by the contract proved in the write_inode2 unit.
 */
/* VERIF-UNIT
{
 "name": "write_inode2_ro",
 "props": ["C13"],
 "level": "P",
 "tier": "quick",
 "harness": "h_write_inode2_ro",
 "replace": ["ext2fs_read_inode2", "ext2fs_create_inode_cache"],
 "sources": ["lib/ext2fs/io_manager.c"],
 "unwind": 6,
 "unwind_reason": "harness cache_size <= 4: the cache look-up loop runs <= 4 times; the write loop `while (length)` is behind the EXT2_FLAG_RW test and unreachable here (unwinding assertions)",
 "cbmc_flags": ["--object-bits", "10"],
 "functions": ["lib/ext2fs/inode.c:ext2fs_write_inode2", "lib/ext2fs/inode.c:ext2fs_write_inode", "lib/ext2fs/inode.c:ext2fs_write_inode_full"],
 "assumes": ["EXT2_FLAG_RW is clear (the statement is about read-only handles); ENUMERATED configurations (one call site each, see comment at the harness): fs->flags in {DIRTY|CHANGED, all bits but RW}, inode size 128/256 (dynamic revision), bufsize 128/256 with a 256-byte caller buffer, ino 5 of 100 (plus ino 0 and 101 in one configuration each); block size 1024",
	     "inode cache absent (then ext2fs_create_inode_cache, replaced by a contract: error or fresh cache object), or present with cache_size <= 4 and valid entry buffers",
	     "the override hook fs->write_inode is absent or returns an arbitrary code without writing (e2fsck's pass1_write_inode only updates a stashed in-memory copy)",
	     "no frame enforcement (objects are allocated and freed inside); statements are harness CHECKs + monitor events in the manager's write methods"],
 "native": false
}
*/
/* VERIF-UNIT
{
 "name": "write_new_inode_ro",
 "props": ["C13"],
 "level": "P",
 "tier": "quick",
 "harness": "h_write_new_inode_ro",
 "replace": ["ext2fs_write_inode2", "ext2fs_read_inode2", "ext2fs_create_inode_cache"],
 "sources": ["lib/ext2fs/io_manager.c"],
 "unwind": 2,
 "unwind_reason": "ext2fs_write_new_inode is loop-free",
 "cbmc_flags": ["--object-bits", "10"],
 "functions": ["lib/ext2fs/inode.c:ext2fs_write_new_inode"],
 "assumes": ["EXT2_FLAG_RW clear; inode size 128 or 256; fs->now arbitrary non-zero or EXT2_FLAG2_USE_FAKE_TIME (time(2) not modelled)",
	     "ext2fs_write_inode2 replaced by its contract (unit write_inode2_ro): without EXT2_FLAG_RW it returns non-zero (unless the override hook fs->write_inode took the write) and reaches no write method"],
 "native": false
}
*/
#include "verif.h"

#define RO_NCHOICE 8
struct in_wi {
	int flags;
	unsigned int ino, inodes_count;
	unsigned char rev0, big_inode, journal_dev, magic_bad;
	unsigned char have_hook, have_icache;
	unsigned int cache_size, cache_ino[4];
	int bufsize_sel, wflags, flags_sel, ino_sel;
	unsigned char inode[256];
	long long now;
	long hook_ret, read_ret;
	unsigned long long choice[RO_NCHOICE];
};
struct in_wi IN;
#include "verif_in.h"
#include "ro_monitor.h"

unsigned int g_hook_calls, g_read_calls, g_wi2_calls;
long g_cic_ret;
static unsigned int ro_nchoice;
static unsigned long long ro_choice(void)
{
	unsigned long long v = ro_nchoice < RO_NCHOICE ? IN.choice[ro_nchoice] : 0;
	ro_nchoice++;
	return v;
}
#define RO_ERR() ((errcode_t)(long)(ro_choice() & 0x7fffffffULL))

#include "config.h"
#include "ext2_fs.h"
#include "ext2fs.h"

errcode_t ext2fs_read_inode2(ext2_filsys fs, ext2_ino_t ino, struct ext2_inode *inode, int bufsize, int flags)
	REQUIRES(bufsize == 128 || bufsize == 256)
	ASSIGNS(g_read_calls, __CPROVER_object_whole(inode))
	ENSURES(g_read_calls == OLD(g_read_calls) + 1);

/* (real ext2fs_create_inode_cache: its allocation-failure path frees never-initialised cache[i].inode pointers —
 * ext2fs_get_array does not zero — which is outside C13; CBMC's malloc may fail, so the callee is cut by a contract) */
#define RO_ICACHE_SZ 40	/* sizeof(struct ext2_inode_cache) (ext2fsP.h cannot be included twice): checked below */
errcode_t ext2fs_create_inode_cache(ext2_filsys fs, unsigned int cache_size)
	ASSIGNS(fs->icache, g_cic_ret)
	ENSURES(g_cic_ret == RET)
	ENSURES(RET != 0 || FRESH(fs->icache, RO_ICACHE_SZ));

#ifdef VERIF_UNIT_write_new_inode_ro
errcode_t ext2fs_write_inode2(ext2_filsys fs, ext2_ino_t ino, struct ext2_inode *inode, int bufsize, int flags)
	REQUIRES(bufsize == 128 || bufsize == 256)
	ASSIGNS(g_wi2_calls)
	ENSURES(g_wi2_calls == OLD(g_wi2_calls) + 1)
	ENSURES((fs->flags & EXT2_FLAG_RW) || RET != 0 || fs->write_inode != 0);	/* exactly what write_inode2_ro proves */
#endif

#include "lib/ext2fs/inode.c"
_Static_assert(sizeof(struct ext2_inode_cache) == RO_ICACHE_SZ, "RO_ICACHE_SZ");

static struct struct_ext2_filsys FS;
static struct ext2_super_block SB;
static struct struct_io_channel IO;
static struct struct_io_manager MGR;
static unsigned char INO[256];

static errcode_t st_write_blk64(io_channel ch, unsigned long long block, int count, const void *buf)
{ RO_EV_WRITE(1, 0, "a read-only handle's channel (write_blk64)"); return 0; }
static errcode_t st_write_blk(io_channel ch, unsigned long block, int count, const void *buf)
{ RO_EV_WRITE(1, 0, "a read-only handle's channel (write_blk)"); return 0; }
static errcode_t st_write_byte(io_channel ch, unsigned long offset, int count, const void *buf)
{ RO_EV_WRITE(1, 0, "a read-only handle's channel (write_byte)"); return 0; }
static errcode_t st_read_blk64(io_channel ch, unsigned long long block, int count, void *buf) { return RO_ERR(); }
static errcode_t st_hook(ext2_filsys fs, ext2_ino_t ino, struct ext2_inode *inode) { g_hook_calls++; return IN.hook_ret; }

/* callees from other files that sit behind the EXT2_FLAG_RW test: forbidden events */
errcode_t ext2fs_inode_csum_set(ext2_filsys fs, ext2_ino_t inum, struct ext2_inode_large *inode)
{ RO_EV_FORBIDDEN(1, "ext2fs_inode_csum_set (behind the EXT2_FLAG_RW test)"); return 0; }
blk64_t ext2fs_inode_table_loc(ext2_filsys fs, dgrp_t group)
{ RO_EV_FORBIDDEN(1, "ext2fs_inode_table_loc (behind the EXT2_FLAG_RW test)"); return ro_choice(); }
blk64_t ext2fs_blocks_count(struct ext2_super_block *super) { return ro_choice(); }

static void build(void)
{
	RO_MON_RESET();
	ro_nchoice = 0;
	g_hook_calls = g_read_calls = g_wi2_calls = 0;
	g_cic_ret = 0;
	memset(&FS, 0, sizeof(FS));
	memset(&SB, 0, sizeof(SB));
	memset(&IO, 0, sizeof(IO));
	memset(&MGR, 0, sizeof(MGR));
	MGR.magic = EXT2_ET_MAGIC_IO_MANAGER;
	MGR.write_blk = st_write_blk;
	MGR.write_blk64 = st_write_blk64;
	MGR.write_byte = st_write_byte;
	MGR.read_blk64 = st_read_blk64;
	IO.magic = EXT2_ET_MAGIC_IO_CHANNEL;
	IO.manager = &MGR;
	IO.block_size = 1024;
	FS.magic = IN.magic_bad ? 0 : EXT2_ET_MAGIC_EXT2FS_FILSYS;
	FS.super = &SB;
	FS.io = &IO;
	FS.blocksize = 1024;
	FS.flags = IN.flags & ~EXT2_FLAG_RW;
	FS.now = IN.now;
	FS.flags2 = EXT2_FLAG2_USE_FAKE_TIME;
	SB.s_rev_level = IN.rev0 ? EXT2_GOOD_OLD_REV : EXT2_DYNAMIC_REV;
	SB.s_inode_size = IN.big_inode ? 256 : 128;
	SB.s_inodes_count = IN.inodes_count;
	SB.s_inodes_per_group = 8192;
	if (IN.journal_dev)
		SB.s_feature_incompat |= EXT3_FEATURE_INCOMPAT_JOURNAL_DEV;
	if (IN.have_hook)
		FS.write_inode = st_hook;
	memcpy(INO, IN.inode, 256);
}

static struct ext2_inode_cache IC;
static struct ext2_inode_cache_ent ENT[4];
static unsigned char CI0[256], CI1[256], CI2[256], CI3[256], ICBUF[1024];
static void build_icache(void)
{
	unsigned i;
	ASSUME(IN.cache_size >= 1 && IN.cache_size <= 4);
	memset(&IC, 0, sizeof(IC));
	IC.buffer = ICBUF;
	IC.cache = ENT;
	IC.cache_size = IN.cache_size;
	IC.cache_last = -1;
	IC.refcount = 1;
	for (i = 0; i < 4; i++)
		ENT[i].ino = IN.cache_ino[i];
	ENT[0].inode = (struct ext2_inode *) CI0;
	ENT[1].inode = (struct ext2_inode *) CI1;
	ENT[2].inode = (struct ext2_inode *) CI2;
	ENT[3].inode = (struct ext2_inode *) CI3;
	FS.icache = &IC;
}

/* The configuration is ENUMERATED with one call site per combination, so that fs->flags, the inode size, bufsize and the
 * inode number are constants inside each inlined call: symbolic execution then decides the EXT2_FLAG_RW test itself and
 * drops the write loop behind it (with symbolic flags/ino that loop — memcpy into the cache buffer at a symbolic offset
 * — is encoded although infeasible, and exhausts the 10 GB memory cap).
 *   flags: DIRTY|CHANGED / every bit except RW;  inode size 128 / 256 (dynamic rev) ;  bufsize 128 / 256;
 *   ino: 5 (valid; cached or not, the cache entries' numbers are arbitrary); 0 and s_inodes_count + 1 (invalid) in one
 *   configuration each */
#define RO_FLAGS1 (EXT2_FLAG_DIRTY | EXT2_FLAG_CHANGED)
#define RO_FLAGS2 (0x7fffffff & ~EXT2_FLAG_RW)
#define CALL1(F, ISZ, BUFSZ, INO_) do { FS.flags = (F); SB.s_inode_size = (ISZ); g_f0 = (F); g_ino = (INO_); \
	r = ext2fs_write_inode2(&FS, (INO_), (struct ext2_inode *) INO, (BUFSZ), IN.wflags); } while (0)
#define CALL_BUF(F, ISZ) do { if (IN.bufsize_sel) CALL1(F, ISZ, 256, 5); else CALL1(F, ISZ, 128, 5); } while (0)
#define CALL_ISZ(F) do { if (IN.big_inode) CALL_BUF(F, 256); else CALL_BUF(F, 128); } while (0)
static int g_f0;
static unsigned int g_ino;

void h_write_inode2_ro(void)
{
	LOAD_IN();
	build();
	if (IN.have_icache)
		build_icache();
	SB.s_rev_level = EXT2_DYNAMIC_REV;
	SB.s_inodes_count = 100;
	errcode_t r;
	if (IN.ino_sel == 1)
		CALL1(RO_FLAGS1, 256, 128, 0);		/* invalid inode numbers: one configuration each */
	else if (IN.ino_sel == 2)
		CALL1(RO_FLAGS1, 256, 128, 101);
	else if (IN.flags_sel == 1)
		CALL_ISZ(RO_FLAGS1);
	else
		CALL_ISZ(RO_FLAGS2);
	CHECK(r != 0 || g_hook_calls == 1, "read-only handle: ext2fs_write_inode2 fails unless the override hook took the write");
	CHECK(ro_mon.writes == 0, "read-only handle: no channel write method reached");
	CHECK(FS.flags == g_f0, "read-only handle: flags unchanged (not CHANGED, not DIRTY)");
	if (!IN.magic_bad && !IN.journal_dev && !IN.have_hook && g_ino == 5 && r != EXT2_ET_NO_MEMORY && g_read_calls == 0) {
		CHECK(r == EXT2_ET_RO_FILSYS || (g_cic_ret != 0 && r == g_cic_ret), "read-only handle: the refusal is EXT2_ET_RO_FILSYS (or the cache could not be created)");
		REACH("ro-refusal");
	}
	if (g_hook_calls)
		REACH("hook");
	if (IN.have_icache && r == EXT2_ET_RO_FILSYS)
		REACH("with-icache");
	REACH("end");
}

void h_write_new_inode_ro(void)
{
	LOAD_IN();
	build();
	ASSUME(IN.now != 0);
	int f0 = FS.flags;
	errcode_t r = ext2fs_write_new_inode(&FS, IN.ino, (struct ext2_inode *) INO);
	CHECK(r != 0 || IN.have_hook, "read-only handle: ext2fs_write_new_inode fails unless an override hook took the write");
	CHECK(ro_mon.writes == 0, "read-only handle: no channel write method reached");
	CHECK(FS.flags == f0, "read-only handle: flags unchanged");
#ifdef VERIF_UNIT_write_new_inode_ro
	CHECK(g_wi2_calls <= 1, "at most one ext2fs_write_inode2 call");
#endif
	REACH("end");
}
