/*
 * C13 / lib/ext2fs/openfs.c:ext2fs_open2() — the open mode of the filesystem device derives from EXT2_FLAG_RW.
 *
 * Prefix unit (level P): the stub manager's open() is the monitor event; it checks
 *        (io_flags & IO_FLAG_RW)  <=>  (flags & EXT2_FLAG_RW)      (the property needs "=>", "<=" is stated too)
 *        no other io flag than RW / EXCLUSIVE / DIRECT_IO / THREADS, each iff its EXT2_FLAG_* twin
 *        the name handed to the manager is the caller's name up to a '?' (io options are split off, never a different device)
 * and returns an error, so that exactly the prefix of ext2fs_open2 up to its open call is explored; after the error the
 * function must hand back no handle (*ret_fs == NULL unless EXT2_FLAG_NOFREE_ON_ERROR) and must not have called any other
 * manager method.
 * CALL-SITE CENSUS (rg "->open\(" over lib/ e2fsck/ misc/ debugfs/ resize/, test_io/undo_io pass-through excluded; recorded
 * here because the prefix argument needs "this is the only place ext2fs_open2 opens the device"):
 *   lib/ext2fs/openfs.c:188      the ONE call in ext2fs_open2 (no other ->open, no retry loop back before line 188:
 *                                 the `retry:` label is at line 240, after the open)                       [this unit]
 *   lib/ext2fs/initialize.c:144  ext2fs_initialize: io_flags = IO_FLAG_RW unconditionally — mke2fs; NOTE mke2fs -n also
 *                                 goes through here, i.e. opens the device read-write and relies on main()'s `noaction`
 *                                 guards (discard, writes, and exit(0) before close) — inline in main(): residual
 *   e2fsck/journal.c:1127        external journal: IO_FLAG_RW unconditionally — FINDING C13_jnl_errno_readonly
 *   e2fsck/util.c:582            flags 0 (read-only size probe)
 *   debugfs/journal.c:432        fs->flags & EXT2_FLAG_RW  (EXT2_FLAG_RW == IO_FLAG_RW == 1)
 *   debugfs/debugfs.c:163        flags 0 (data file of an image)
 *   misc/e2undo.c:375, 456       undo file: IO_FLAG_EXCLUSIVE; device: IO_FLAG_EXCLUSIVE | (dry_run ? 0 : IO_FLAG_RW)
 *   misc/mke2fs.c:2815           IO_FLAG_EXCLUSIVE (read for undo set-up)
 *   misc/e2image.c:1464          IO_FLAG_RW: install_image (-I), a writing invocation
 */
/* VERIF-UNIT
{
 "name": "open2_ro",
 "props": ["C13"],
 "level": "P",
 "tier": "quick",
 "harness": "h_open2",
 "sources": ["lib/ext2fs/io_manager.c"],
 "unwind": 10,
 "unwind_reason": "device name of at most 8 characters + NUL (harness cap): strlen/strcpy/strchr loops; everything behind the open call is cut off by the stub's error return",
 "cbmc_flags": ["--object-bits", "10"],
 "functions": ["lib/ext2fs/openfs.c:ext2fs_open2"],
 "assumes": ["PREFIX: the stub manager->open always fails, so only the code up to the (single, see census) open call and the cleanup path run",
	     "device name: NUL-terminated, at most 8 characters, may contain '?'; io_options NULL or a string; flags, superblock, block_size arbitrary",
	     "ext2fs_safe_getenv returns NULL or a short string; strtoul returns an arbitrary value; ext2fs_free is a counting stub"],
 "native": false
}
*/
#include "verif.h"

struct in_op {
	int flags, superblock;
	unsigned int block_size;
	char name[9];
	unsigned char have_opts, env_sel;
	unsigned long env_val;
};
struct in_op IN;
#include "verif_in.h"
#include "ro_monitor.h"

unsigned int g_free_calls, g_other_methods;
int g_open_flags;
char g_open_name0;

#include "lib/ext2fs/openfs.c"

#define RO_OPEN_ERR ((errcode_t) 5)
static struct struct_io_manager MGR;
static char ENVBUF[4] = "12";
static char OPTS[4] = "a=b";

static errcode_t st_open(const char *name, int io_flags, io_channel *channel)
{
	int flags = IN.flags;
	ro_mon.opens++;
	g_open_flags = io_flags;
	CHECK(!(io_flags & IO_FLAG_RW) || (flags & EXT2_FLAG_RW), "the device is opened IO_FLAG_RW only if the caller asked for EXT2_FLAG_RW");
	CHECK((io_flags & IO_FLAG_RW) || !(flags & EXT2_FLAG_RW), "EXT2_FLAG_RW is honoured (converse)");
	CHECK(((io_flags & IO_FLAG_EXCLUSIVE) != 0) == ((flags & EXT2_FLAG_EXCLUSIVE) != 0), "IO_FLAG_EXCLUSIVE iff EXT2_FLAG_EXCLUSIVE");
	CHECK(((io_flags & IO_FLAG_DIRECT_IO) != 0) == ((flags & EXT2_FLAG_DIRECT_IO) != 0), "IO_FLAG_DIRECT_IO iff EXT2_FLAG_DIRECT_IO");
	CHECK(((io_flags & IO_FLAG_THREADS) != 0) == ((flags & EXT2_FLAG_THREADS) != 0), "IO_FLAG_THREADS iff EXT2_FLAG_THREADS");
	CHECK(!(io_flags & ~(IO_FLAG_RW | IO_FLAG_EXCLUSIVE | IO_FLAG_DIRECT_IO | IO_FLAG_THREADS)), "no other io flag");
	CHECK(name[0] == ((IN.name[0] == '?' && !IN.have_opts) ? 0 : IN.name[0]), "the name handed to the manager starts like the caller's name");
	return RO_OPEN_ERR;	/* a CONSTANT: symbolic execution then drops everything behind `if (retval) goto cleanup` */
}
static errcode_t st_other(io_channel ch) { g_other_methods++; return 0; }
static errcode_t st_write_blk64(io_channel ch, unsigned long long block, int count, const void *buf) { g_other_methods++; return 0; }
static errcode_t st_write_blk(io_channel ch, unsigned long block, int count, const void *buf) { g_other_methods++; return 0; }
static errcode_t st_write_byte(io_channel ch, unsigned long offset, int count, const void *buf) { g_other_methods++; return 0; }
static errcode_t st_read_blk64(io_channel ch, unsigned long long block, int count, void *buf) { g_other_methods++; return 0; }
static errcode_t st_read_blk(io_channel ch, unsigned long block, int count, void *buf) { g_other_methods++; return 0; }
static errcode_t st_set_blksize(io_channel ch, int bs) { g_other_methods++; return 0; }
static errcode_t st_set_option(io_channel ch, const char *o, const char *a) { g_other_methods++; return 0; }

char *ext2fs_safe_getenv(const char *arg)
{
	if (IN.env_sel == 0)
		return 0;
	return ENVBUF;
}
void ext2fs_free(ext2_filsys fs) { g_free_calls++; }
unsigned long strtoul(const char *nptr, char **endptr, int base) { return IN.env_val; }

void h_open2(void)
{
	LOAD_IN();
	ASSUME(IN.name[8] == 0);
	RO_MON_RESET();
	g_free_calls = g_other_methods = 0;
	ENVBUF[0] = '1'; ENVBUF[1] = '2'; ENVBUF[2] = 0;
	OPTS[0] = 'a'; OPTS[1] = '='; OPTS[2] = 'b'; OPTS[3] = 0;
	memset(&MGR, 0, sizeof(MGR));
	MGR.magic = EXT2_ET_MAGIC_IO_MANAGER;
	MGR.open = st_open;
	MGR.close = st_other;
	MGR.flush = st_other;
	MGR.set_blksize = st_set_blksize;
	MGR.read_blk = st_read_blk;
	MGR.read_blk64 = st_read_blk64;
	MGR.write_blk = st_write_blk;
	MGR.write_blk64 = st_write_blk64;
	MGR.write_byte = st_write_byte;
	MGR.set_option = st_set_option;
	ext2_filsys fs = (ext2_filsys) &MGR;	/* poison: must be overwritten */
	errcode_t r = ext2fs_open2(IN.name, IN.have_opts ? OPTS : (char *) 0, IN.flags, IN.superblock, IN.block_size, &MGR, &fs);
	CHECK(r != 0, "open error is propagated");
	if (r == RO_OPEN_ERR) {
		CHECK(ro_mon.opens == 1, "exactly one manager->open call");
		CHECK(g_other_methods == 0, "no other manager method before / after the failed open");
		CHECK((IN.flags & EXT2_FLAG_NOFREE_ON_ERROR) ? (g_free_calls == 0 && fs != 0) : (g_free_calls == 1 && fs == 0),
		      "failed open: handle freed and NULL returned unless EXT2_FLAG_NOFREE_ON_ERROR");
		if (!(IN.flags & EXT2_FLAG_RW)) {
			CHECK(!(g_open_flags & IO_FLAG_RW), "read-only open: IO_FLAG_RW not requested");
			REACH("ro-open");
		} else
			REACH("rw-open");
	} else {
		CHECK(ro_mon.opens <= 1, "at most one open");
	}
	REACH("end");
}
