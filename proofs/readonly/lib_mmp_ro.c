/*
 * C13 / lib/ext2fs/mmp.c — multi-mount protection never writes the MMP block through a handle without EXT2_FLAG_RW.
 *
 * NOTE on the plan's wording ("a read-only open never calls ext2fs_mmp_start"): that is not what the code does.
 * ext2fs_open2 calls ext2fs_mmp_start when the filesystem has the MMP feature, EXT2_FLAG_SKIP_MMP is clear and
 * `flags & (EXT2_FLAG_RW | EXT2_FLAG_EXCLUSIVE)` — so a read-only EXCLUSIVE open does call it (by reading openfs.c:523-533;
 * that part of ext2fs_open2 is behind the open call and not covered by the prefix unit open2_ro).  What holds, and is
 * stated here on the real mmp.c, for every handle WITHOUT EXT2_FLAG_RW:
 *   ext2fs_mmp_start   only READS the MMP block (through its own descriptor, opened O_RDONLY — never O_RDWR/O_WRONLY/
 *                      O_CREAT/O_TRUNC), waits, re-reads, and stops at `clean_seq: if (!(fs->flags & EXT2_FLAG_RW)) goto
 *                      mmp_error` — no ext2fs_mmp_write, no channel write/flush;
 *   ext2fs_mmp_stop    closes its descriptor, no read, no write;
 *   ext2fs_mmp_update / ext2fs_mmp_update2   return 0 at once;
 *   ext2fs_mmp_clear   returns EXT2_ET_RO_FILSYS.
 * (ext2fs_mmp_init / ext2fs_mmp_reset are the creating side — tune2fs -O mmp, mke2fs — and have no such test.)
 */
/* VERIF-UNIT
{
 "name": "mmp_ro",
 "props": ["C13"],
 "level": "P",
 "tier": "quick",
 "harness": "h_mmp_ro",
 "sources": ["lib/ext2fs/io_manager.c"],
 "unwind": 33,
 "unwind_reason": "on the tree no loop is reachable: the only loops (ext2fs_mmp_new_seq's rand() loops <= 31, strncpy of the 32-byte mmp_bdevname) are behind the EXT2_FLAG_RW test; the bound 33 only lets a mutant that removes the test run through to the write events",
 "cbmc_flags": ["--object-bits", "10"],
 "functions": ["lib/ext2fs/mmp.c:ext2fs_mmp_start", "lib/ext2fs/mmp.c:ext2fs_mmp_stop", "lib/ext2fs/mmp.c:ext2fs_mmp_update2", "lib/ext2fs/mmp.c:ext2fs_mmp_update", "lib/ext2fs/mmp.c:ext2fs_mmp_clear", "lib/ext2fs/mmp.c:ext2fs_mmp_read"],
 "assumes": ["ENUMERATED fs->flags (one call site each so that symbolic execution decides the EXT2_FLAG_RW tests): 0, EXT2_FLAG_EXCLUSIVE, EXT2_FLAG_SKIP_MMP, EXT2_FLAG_IGNORE_CSUM_ERRORS, every bit except EXT2_FLAG_RW",
	     "block size 1024; superblock (s_mmp_block, feature bits, intervals) and the MMP block read from the device arbitrary; mmp_buf / mmp_cmp present or absent",
	     "libc / other-file callees are stubs with arbitrary results: stat, open (monitor event), read (fills the buffer from IN), close, sleep, gettimeofday, gethostname, ext2fs_llseek, ext2fs_get_dio_alignment, ext2fs_get_memalign (malloc), ext2fs_mmp_csum_verify/_set, ext2fs_blocks_count"],
 "native": false
}
*/
#include "verif.h"

#define RO_NCHOICE 16
struct in_mmp {
	int which, flags_sel, immediately;
	unsigned char sb[1024];
	unsigned char mmp[1024];
	unsigned char mmp2[1024];
	unsigned char have_buf, have_cmp;
	int mmp_fd;
	unsigned long long choice[RO_NCHOICE];
};
struct in_mmp IN;
#include "verif_in.h"
#include "ro_monitor.h"

static unsigned int ro_nchoice;
static unsigned long long ro_choice(void)
{
	unsigned long long v = ro_nchoice < RO_NCHOICE ? IN.choice[ro_nchoice] : 0;
	ro_nchoice++;
	return v;
}
unsigned int g_opens, g_reads, g_closes, g_sleeps, g_csum_set;

#include "lib/ext2fs/mmp.c"

static struct struct_ext2_filsys FS;
static struct ext2_super_block SB;
static struct struct_io_channel IO;
static struct struct_io_manager MGR;
static char DEVNAME[4];
static unsigned char BUF[1024], CMP[1024];

static errcode_t st_write_blk64(io_channel ch, unsigned long long block, int count, const void *buf)
{ RO_EV_WRITE(1, 0, "a read-only handle's channel (MMP block)"); return 0; }
static errcode_t st_write_blk(io_channel ch, unsigned long block, int count, const void *buf)
{ RO_EV_WRITE(1, 0, "a read-only handle's channel (MMP block)"); return 0; }
static errcode_t st_write_byte(io_channel ch, unsigned long offset, int count, const void *buf)
{ RO_EV_WRITE(1, 0, "a read-only handle's channel (write_byte)"); return 0; }
static errcode_t st_flush(io_channel ch) { ro_mon.flushes++; return 0; }

/* libc / other files */
int open(const char *pathname, int flags, ...)
{
	g_opens++;
	CHECK((flags & O_ACCMODE) == O_RDONLY, "MMP: the private descriptor is opened O_RDONLY");
	CHECK(!(flags & (O_CREAT | O_TRUNC | O_APPEND)), "MMP: the private descriptor is opened without O_CREAT/O_TRUNC/O_APPEND");
	return (int) ro_choice();
}
int stat(const char *path, struct stat *st) { st->st_mode = (unsigned) ro_choice(); return (int)(ro_choice() & 1) ? -1 : 0; }
ssize_t read(int fd, void *buf, size_t count)
{
	g_reads++;
	if (count == 1024) {
		if (g_reads == 1)
			memcpy(buf, IN.mmp, 1024);
		else
			memcpy(buf, IN.mmp2, 1024);
	}
	return (ssize_t)(long) ro_choice();
}
int close(int fd) { g_closes++; return 0; }
unsigned int sleep(unsigned int s) { g_sleeps++; return 0; }
int gettimeofday(struct timeval *tv, void *tz) { tv->tv_sec = (long) ro_choice(); tv->tv_usec = 0; return 0; }
int gethostname(char *name, size_t len) { RO_EV_FORBIDDEN(1, "gethostname (MMP block being claimed)"); if (len) name[0] = 0; return 0; }
ext2_loff_t ext2fs_llseek(int fd, ext2_loff_t offset, int origin) { return (ext2_loff_t) ro_choice(); }
int ext2fs_get_dio_alignment(int fd) { return 0; }
errcode_t ext2fs_get_memalign(unsigned long size, unsigned long align, void *ptr)
{
	void *p = malloc(size);
	if (!p)
		return EXT2_ET_NO_MEMORY;
	memcpy(ptr, &p, sizeof(p));
	return 0;
}
int ext2fs_mmp_csum_verify(ext2_filsys fs, struct mmp_struct *mmp) { return (int)(ro_choice() & 1); }
errcode_t ext2fs_mmp_csum_set(ext2_filsys fs, struct mmp_struct *mmp) { g_csum_set++; RO_EV_FORBIDDEN(1, "ext2fs_mmp_csum_set (MMP block about to be written)"); return 0; }
blk64_t ext2fs_blocks_count(struct ext2_super_block *super) { return ro_choice(); }
/* ext2fs_mmp_new_seq()'s callees: only reached when a new sequence number is about to be WRITTEN */
long random(void) { RO_EV_FORBIDDEN(1, "random (new MMP sequence number)"); return 0; }
void srandom(unsigned int seed) { }
pid_t getpid(void) { return 1; }
uid_t getuid(void) { return 0; }

static void build(void)
{
	RO_MON_RESET();
	ro_nchoice = 0;
	g_opens = g_reads = g_closes = g_sleeps = g_csum_set = 0;
	memset(&FS, 0, sizeof(FS));
	memset(&IO, 0, sizeof(IO));
	memset(&MGR, 0, sizeof(MGR));
	memcpy(&SB, IN.sb, sizeof(SB));
	MGR.magic = EXT2_ET_MAGIC_IO_MANAGER;
	MGR.write_blk = st_write_blk;
	MGR.write_blk64 = st_write_blk64;
	MGR.write_byte = st_write_byte;
	MGR.flush = st_flush;
	IO.magic = EXT2_ET_MAGIC_IO_CHANNEL;
	IO.manager = &MGR;
	IO.block_size = 1024;
	DEVNAME[0] = 'd'; DEVNAME[1] = 0;
	FS.magic = EXT2_ET_MAGIC_EXT2FS_FILSYS;
	FS.super = &SB;
	FS.io = &IO;
	FS.blocksize = 1024;
	FS.device_name = DEVNAME;
	FS.mmp_fd = IN.mmp_fd;
	if (IN.have_buf) {
		memcpy(BUF, IN.mmp, 1024);
		FS.mmp_buf = BUF;
	}
	if (IN.have_cmp) {
		memcpy(CMP, IN.mmp2, 1024);
		FS.mmp_cmp = CMP;
	}
}

#define MMP_CALL(F) do { FS.flags = (F); \
	if (IN.which == 0) r = ext2fs_mmp_start(&FS); \
	else if (IN.which == 1) r = ext2fs_mmp_stop(&FS); \
	else if (IN.which == 2) r = ext2fs_mmp_update2(&FS, IN.immediately); \
	else if (IN.which == 3) r = ext2fs_mmp_update(&FS); \
	else r = ext2fs_mmp_clear(&FS); } while (0)

void h_mmp_ro(void)
{
	LOAD_IN();
	build();
	errcode_t r;
	ASSUME(IN.which >= 0 && IN.which <= 4);
	if (IN.flags_sel == 0)
		MMP_CALL(0);
	else if (IN.flags_sel == 1)
		MMP_CALL(EXT2_FLAG_EXCLUSIVE);
	else if (IN.flags_sel == 2)
		MMP_CALL(EXT2_FLAG_SKIP_MMP);
	else if (IN.flags_sel == 3)
		MMP_CALL(EXT2_FLAG_IGNORE_CSUM_ERRORS);
	else
		MMP_CALL(0x7fffffff & ~EXT2_FLAG_RW);
	CHECK(ro_mon.writes == 0 && ro_mon.flushes == 0 && g_csum_set == 0, "handle without EXT2_FLAG_RW: the MMP block is never written or flushed");
	CHECK(!(FS.flags & EXT2_FLAG_RW), "EXT2_FLAG_RW not set by the MMP code");
	if (IN.which == 1)
		CHECK(r == 0 && g_reads == 0 && g_opens == 0, "read-only ext2fs_mmp_stop: nothing but closing the descriptor");
	if (IN.which == 2 || IN.which == 3)
		CHECK(r == 0 && g_reads == 0 && g_opens == 0 && g_closes == 0, "read-only ext2fs_mmp_update: returns 0 at once");
	if (IN.which == 4)
		CHECK(r == EXT2_ET_RO_FILSYS && g_reads == 0, "read-only ext2fs_mmp_clear refuses with EXT2_ET_RO_FILSYS");
	if (IN.which == 0) {
		CHECK(g_opens <= 2 && g_reads <= 2, "read-only ext2fs_mmp_start: at most two reads (each through an O_RDONLY descriptor)");
		if (r == 0) {
			CHECK(g_reads >= 1, "read-only ext2fs_mmp_start succeeds only after reading the block");
			REACH("start-ok");
		}
		if (g_sleeps)
			REACH("start-waited");
	}
	REACH("end");
}
