/*
 * C13 / e2fsck/journal.c:e2fsck_run_ext3_journal() — journal replay is never performed by a read-only e2fsck.
 *
 * Prefix unit: with E2F_OPT_READONLY the function returns EXT2_ET_FILE_RO before anything else: no flush, no
 * recover_ext3_journal (whose callees in recovery.c / revoke.c have no body here: DFCC's "undefined function should be
 * unreachable" obligations prove they are not reached), no re-open, no channel method at all, ctx / fs / superblock
 * unchanged.
 * Call sites (grep, 2 hits outside journal.c's own definition): e2fsck/unix.c:1807 only, inside
 *   if (ext2fs_has_feature_journal_needs_recovery(sb)) { if (ctx->options & E2F_OPT_READONLY) {warn; io_channel_flush}
 *   else { ... e2fsck_run_ext3_journal(ctx) ... } }
 * which is inline in main() — residual of C13 (not under contract); the guard proved here is the second line of defence.
 */
/* VERIF-UNIT
{
 "name": "run_ext3_journal_ro",
 "props": ["C13"],
 "level": "P",
 "tier": "quick",
 "harness": "h_run_ro",
 "includes": ["e2fsck"],
 "sources": ["lib/ext2fs/io_manager.c"],
 "unwind": 2,
 "unwind_reason": "prefix unit: with E2F_OPT_READONLY no loop is reachable on the tree; bound 2 only lets a mutant that passes the guard run through ll_rw_block's nr == 1 loops to the monitor events",
 "functions": ["e2fsck/journal.c:e2fsck_run_ext3_journal"],
 "assumes": ["E2F_OPT_READONLY is set (the statement is only about read-only runs); everything else in ctx->options, fs->flags, the superblock arbitrary",
	     "no frame enforcement: the statement is 'returns EXT2_ET_FILE_RO, no stub / undefined callee reached, ctx/fs/superblock fields compared before/after (superblock at one arbitrary byte index)'"],
 "native": false
}
*/
/* VERIF-UNIT
{
 "name": "move_ext3_journal_ro",
 "props": ["C13"],
 "level": "P",
 "tier": "quick",
 "harness": "h_move_ro",
 "includes": ["e2fsck"],
 "sources": ["lib/ext2fs/io_manager.c"],
 "unwind": 2,
 "unwind_reason": "prefix unit: with E2F_OPT_READONLY no loop is reachable on the tree (journal_names / group loops are behind the guard)",
 "functions": ["e2fsck/journal.c:e2fsck_move_ext3_journal"],
 "assumes": ["E2F_OPT_READONLY is set; superblock, fs->flags, other options arbitrary",
	     "callees behind the guard (ext2fs_lookup, ext2fs_write_inode, ext2fs_new_inode ... in other files) have no body here: DFCC's 'undefined function should be unreachable' obligations prove they are not reached; ext2fs_read_inode is a counting stub"],
 "native": false
}
*/
#include "ro_jnl_common.h"
#include "e2fsck/journal.c"
#define RO_JNL_PART2
#include "ro_jnl_common.h"

unsigned long long verif_k;
unsigned int g_flush2;
errcode_t ext2fs_flush(ext2_filsys fs) { g_flush2++; RO_EV_FORBIDDEN(RO_M, "ext2fs_flush"); return 0; }
/* everything behind the guard: forbidden events (they keep going, so that a trace through a weakened guard is reported
 * as a violated CHECK and not as an unreachable end) */
int jbd2_journal_init_revoke_record_cache(void) { RO_EV_FORBIDDEN(RO_M, "journal recovery (revoke record cache)"); return 0; }
int jbd2_journal_init_revoke_table_cache(void) { RO_EV_FORBIDDEN(RO_M, "journal recovery (revoke table cache)"); return 0; }
int jbd2_journal_init_revoke(journal_t *j, int n) { RO_EV_FORBIDDEN(RO_M, "journal recovery (init revoke)"); return 0; }
int jbd2_journal_recover(journal_t *j) { RO_EV_FORBIDDEN(RO_M, "jbd2_journal_recover"); return (int) ro_choice(); }
void jbd2_journal_destroy_revoke(journal_t *j) { }
void jbd2_journal_destroy_revoke_record_cache(void) { }
void jbd2_journal_destroy_revoke_table_cache(void) { }
errcode_t ext2fs_mmp_stop(ext2_filsys fs) { RO_EV_FORBIDDEN(RO_M, "ext2fs_mmp_stop"); return 0; }
void ext2fs_free(ext2_filsys fs) { RO_EV_FORBIDDEN(RO_M, "ext2fs_free (re-open after replay)"); }
errcode_t ext2fs_open(const char *name, int flags, int superblock, unsigned int block_size, io_manager manager,
		      ext2_filsys *ret_fs)
{ RO_EV_FORBIDDEN(RO_M, "ext2fs_open (re-open after replay)"); return 0; }
void fatal_error(e2fsck_t ctx, const char *msg) { ASSUME(0); }

void h_run_ro(void)
{
	LOAD_IN();
	ro_build();
	ASSUME(RO);
	g_flush2 = 0;
	ASSUME(verif_k < 1024);
	char devname[] = "dev";
	CTX.device_name = devname;
	CTX.filesystem_name = devname;
	errcode_t r = e2fsck_run_ext3_journal(&CTX);
	CHECK(r == EXT2_ET_FILE_RO, "read-only: journal replay refused with EXT2_ET_FILE_RO");
	CHECK(ro_mon.writes == 0 && ro_mon.opens == 0 && ro_mon.flushes == 0 && ro_mon.closes == 0 && g_flush2 == 0,
	      "read-only: no channel method and no flush reached");
	CHECK(CTX.fs == &FS && FS.flags == IN.fs_flags && CTX.options == IN.options && FS.super == &SB && FS.io == &FSCH,
	      "read-only: context and filesystem handle unchanged");
	CHECK(((unsigned char *)&SB)[verif_k] == IN.sb[verif_k], "read-only: in-memory superblock unchanged");
	REACH("end");
}

/* e2fsck_move_ext3_journal(): "If the filesystem is opened read-only, or there is no journal, then do nothing."
 * (called from check_super_block() unconditionally: the guard proved here is the only one) */
void h_move_ro(void)
{
	LOAD_IN();
	ro_build();
	ASSUME(RO);
	ASSUME(verif_k < 1024);
	e2fsck_move_ext3_journal(&CTX);
	CHECK(g_read_inode == 0 && g_write_inode == 0 && ro_mon.writes == 0, "read-only: returns before the journal inode is even read");
	CHECK(FS.flags == IN.fs_flags && CTX.options == IN.options, "read-only: handle flags unchanged (not marked dirty)");
	CHECK(((unsigned char *)&SB)[verif_k] == IN.sb[verif_k], "read-only: in-memory superblock unchanged (no s_jnl_blocks backup)");
	REACH("end");
}
