/*
 * C13 (library write entry points refuse without EXT2_FLAG_RW): lib/ext2fs/rw_bitmaps.c public entry points
 * ext2fs_write_bitmaps (also installed as the fs->write_bitmaps hook by ext2fs_read_bitmaps / ext2fs_allocate_*_bitmap and
 * called from ext2fs_flush2 and ext2fs_close2), ext2fs_write_inode_bitmap, ext2fs_write_block_bitmap.
 * They all end in the static write_bitmaps(), whose refusal is proved in unit undo/write_bitmaps_ro; here it is replaced
 * by exactly that contract (first ENSURES of proofs/undo/c13_write_bitmaps.c, frame: no channel method) and the wrappers
 * are shown to add no path around it: for a handle without EXT2_FLAG_RW each of them either does nothing and returns 0
 * (ext2fs_write_bitmaps with no dirty bitmap) or returns what write_bitmaps returned, i.e. EXT2_ET_RO_FILSYS.
 */
/* VERIF-UNIT
{
 "name": "write_bitmaps_wrappers_ro",
 "props": ["C13"],
 "level": "P",
 "tier": "quick",
 "harness": "h_wb_wrappers_ro",
 "replace": ["write_bitmaps"],
 "sources": ["lib/ext2fs/io_manager.c"],
 "unwind": 1,
 "unwind_reason": "the three wrappers are loop-free",
 "functions": ["lib/ext2fs/rw_bitmaps.c:ext2fs_write_bitmaps", "lib/ext2fs/rw_bitmaps.c:ext2fs_write_inode_bitmap", "lib/ext2fs/rw_bitmaps.c:ext2fs_write_block_bitmap"],
 "assumes": ["EXT2_FLAG_RW clear; other flags, presence of the bitmaps arbitrary", "write_bitmaps replaced by the contract proved in undo/write_bitmaps_ro (returns EXT2_ET_RO_FILSYS for a valid handle without EXT2_FLAG_RW; assigns nothing but the call counter, hence reaches no channel method)"],
 "native": false
}
*/
#include "verif.h"

struct in_wbw { int flags, which; unsigned char have_imap, have_bmap; };
struct in_wbw IN;
#include "verif_in.h"

unsigned int g_wb_calls, g_writes;
int g_do_inode, g_do_block;

#include "config.h"
#include "ext2_fs.h"
#include "ext2fs.h"
static errcode_t write_bitmaps(ext2_filsys fs, int do_inode, int do_block)
	ASSIGNS(g_wb_calls, g_do_inode, g_do_block)
	ENSURES(g_wb_calls == OLD(g_wb_calls) + 1 && g_do_inode == do_inode && g_do_block == do_block)
	ENSURES((fs->flags & EXT2_FLAG_RW) || fs->magic != EXT2_ET_MAGIC_EXT2FS_FILSYS || RET == EXT2_ET_RO_FILSYS);

#include "lib/ext2fs/rw_bitmaps.c"

static struct struct_ext2_filsys FS;
static struct ext2_super_block SB;
static struct struct_io_channel IO;
static struct struct_io_manager MGR;
static int DUMMY_I, DUMMY_B;

static errcode_t st_write_blk64(io_channel ch, unsigned long long block, int count, const void *buf)
{ g_writes++; CHECK(0, "read-only handle: channel write_blk64 reached"); return 0; }
static errcode_t st_write_blk(io_channel ch, unsigned long block, int count, const void *buf)
{ g_writes++; CHECK(0, "read-only handle: channel write_blk reached"); return 0; }
static errcode_t st_write_byte(io_channel ch, unsigned long offset, int count, const void *buf)
{ g_writes++; CHECK(0, "read-only handle: channel write_byte reached"); return 0; }

void h_wb_wrappers_ro(void)
{
	LOAD_IN();
	memset(&FS, 0, sizeof(FS));
	memset(&SB, 0, sizeof(SB));
	memset(&IO, 0, sizeof(IO));
	memset(&MGR, 0, sizeof(MGR));
	MGR.write_blk = st_write_blk;
	MGR.write_blk64 = st_write_blk64;
	MGR.write_byte = st_write_byte;
	IO.magic = EXT2_ET_MAGIC_IO_CHANNEL;
	IO.manager = &MGR;
	FS.magic = EXT2_ET_MAGIC_EXT2FS_FILSYS;
	FS.super = &SB;
	FS.io = &IO;
	FS.blocksize = 1024;
	FS.flags = IN.flags & ~EXT2_FLAG_RW;
	FS.inode_map = IN.have_imap ? (ext2fs_inode_bitmap) &DUMMY_I : 0;
	FS.block_map = IN.have_bmap ? (ext2fs_block_bitmap) &DUMMY_B : 0;
	g_wb_calls = g_writes = 0;
	int f0 = FS.flags;
	errcode_t r;
	if (IN.which == 0) {
		r = ext2fs_write_bitmaps(&FS);
		int dirty = (IN.have_imap && (f0 & EXT2_FLAG_IB_DIRTY)) || (IN.have_bmap && (f0 & EXT2_FLAG_BB_DIRTY));
		CHECK(r == (dirty ? EXT2_ET_RO_FILSYS : 0), "read-only handle: ext2fs_write_bitmaps refuses whenever there is something to write");
		CHECK(g_wb_calls == (dirty ? 1u : 0u), "write_bitmaps is entered only for a dirty, loaded bitmap");
		if (dirty)
			REACH("dirty-refused");
	} else if (IN.which == 1) {
		r = ext2fs_write_inode_bitmap(&FS);
		CHECK(r == EXT2_ET_RO_FILSYS && g_do_inode == 1 && g_do_block == 0, "read-only handle: ext2fs_write_inode_bitmap refuses");
	} else {
		r = ext2fs_write_block_bitmap(&FS);
		CHECK(r == EXT2_ET_RO_FILSYS && g_do_inode == 0 && g_do_block == 1, "read-only handle: ext2fs_write_block_bitmap refuses");
	}
	CHECK(g_writes == 0, "read-only handle: no channel write method reached");
	CHECK(FS.flags == f0, "flags unchanged");
	REACH("end");
}
