/*
 * C13 / e2fsck/journal.c: e2fsck_check_ext3_journal() and e2fsck_get_journal() in a read-only run (e2fsck -n).
 *
 * Statement (property C13, written at the device-write level; monitor in specs/ro_monitor.h): when
 * ctx->options & E2F_OPT_READONLY,
 *   (O) no device is opened with IO_FLAG_RW                                        [unit get_journal_ro_open]
 *   (W) no write method of any channel is reached, ext2fs_write_inode is not reached, the checksum of an external
 *       journal's ext2 superblock is not rewritten                                 [units get_journal_ro, check_ext3_journal_ro*]
 * through the whole of: get the journal (inode or external device), load and validate its superblock, make the
 * has_journal / needs_recovery flags consistent, propagate the journal's s_errno, release the journal.
 *
 * RESULT ON THE TREE (genuine defect, findings/C13_jnl_errno_readonly):
 *   (O) fails: e2fsck_get_journal() opens an external journal with `int flags = IO_FLAG_RW` unconditionally.
 *   (W) fails in exactly one place: when !needs_recovery and the journal superblock's s_errno != 0,
 *       e2fsck_check_ext3_journal() clears s_errno, recomputes the checksum and calls mark_buffer_dirty() without looking
 *       at E2F_OPT_READONLY; e2fsck_journal_release() -> brelse() -> ll_rw_block(WRITE) then writes the block.  With an
 *       external journal the channel is open for writing (O), so `e2fsck -n` rewrites the journal device and the
 *       recorded error is lost (the filesystem superblock that should inherit EXT2_ERROR_FS is not written in a
 *       read-only run).  With an internal journal the write is attempted on the O_RDONLY filesystem channel and fails.
 *   Unit check_ext3_journal_ro_errno0 shows that this is the ONLY such path: with s_errno == 0 everything in (W) holds,
 *   for internal and external journals, every superblock / journal superblock / journal inode content.
 * All four units are green on the tree with findings/C13_jnl_errno_readonly/proposed-fix.patch applied.
 */
/* VERIF-UNIT
{
 "name": "check_ext3_journal_ro_errno0",
 "props": ["C13"],
 "level": "P",
 "tier": "quick",
 "harness": "h_check_ro_errno0",
 "includes": ["e2fsck"],
 "defines": ["RO_OPEN_OBSERVE_ONLY", "RO_BS=1024"],
 "sources": ["lib/ext2fs/io_manager.c", "lib/uuid/isnull.c", "lib/ext2fs/blknum.c", "lib/ext2fs/mkjournal.c"],
 "unwind": 17,
 "unwind_reason": "uuid_is_null: 16 bytes; ll_rw_block: nr == 1 at every call site; the backward goto no_has_journal / try_backup_journal can be taken at most once (tried_backup_jnl latch; fix_problem answers no): the unwinding assertions check all of that",
 "cbmc_flags": ["--object-bits", "10"],
 "timeout": 600,
 "functions": ["e2fsck/journal.c:e2fsck_check_ext3_journal", "e2fsck/journal.c:e2fsck_get_journal", "e2fsck/journal.c:e2fsck_journal_load",
	       "e2fsck/journal.c:e2fsck_journal_release", "e2fsck/journal.c:e2fsck_journal_fix_bad_inode", "e2fsck/journal.c:e2fsck_journal_fix_corrupt_super"],
 "assumes": ["PARTITION: the journal superblock read from the device has s_errno == 0 (the complementary case is unit check_ext3_journal_ro, which fails on the tree: finding C13_jnl_errno_readonly)",
	     "E2F_OPT_READONLY set, and then E2F_OPT_NO set (e2fsck/unix.c PRS(): READONLY is only ever set together with NO; inline in PRS: residual); the filesystem handle has no EXT2_FLAG_RW and its channel was opened without IO_FLAG_RW (unix.c main(): residual; unit open2_ro)",
	     "fix_problem answers no under E2F_OPT_NO (see ro_jnl_common.h); fatal problems do not exit (over-approximation)",
	     "block size 1 KiB (the 4 KiB variant of this harness exhausts the 10 GB memory cap; e2fsck_get_journal, the only block-size dependent part, has a 4 KiB unit: get_journal_ro_4k); filesystem superblock (1024 bytes), journal inode, journal superblock block (first 1 KiB arbitrary), an external journal's ext2 superblock: arbitrary; every stub I/O call may fail",
	     "the external journal's open-mode statement is NOT checked here (RO_OPEN_OBSERVE_ONLY): unit get_journal_ro_open",
	     "no frame enforcement (5 functions, objects allocated and freed inside); statements are monitor events in the stubs + harness CHECKs"],
 "native": false
}
*/
/* VERIF-UNIT
{
 "name": "check_ext3_journal_ro",
 "props": ["C13"],
 "level": "P",
 "tier": "quick",
 "harness": "h_check_ro",
 "includes": ["e2fsck"],
 "defines": ["RO_OPEN_OBSERVE_ONLY", "RO_BS=1024"],
 "sources": ["lib/ext2fs/io_manager.c", "lib/uuid/isnull.c", "lib/ext2fs/blknum.c", "lib/ext2fs/mkjournal.c"],
 "unwind": 17,
 "unwind_reason": "as check_ext3_journal_ro_errno0",
 "cbmc_flags": ["--object-bits", "10"],
 "timeout": 600,
 "functions": ["e2fsck/journal.c:e2fsck_check_ext3_journal"],
 "assumes": ["as check_ext3_journal_ro_errno0 but WITHOUT the s_errno partition: fails on the tree (st_write_blk64 monitor events) — genuine defect, findings/C13_jnl_errno_readonly; green with the proposed fix"],
 "native": false
}
*/
/* VERIF-UNIT
{
 "name": "get_journal_ro",
 "props": ["C13"],
 "level": "P",
 "tier": "quick",
 "harness": "h_get_ro",
 "includes": ["e2fsck"],
 "defines": ["RO_OPEN_OBSERVE_ONLY", "RO_BS=1024"],
 "sources": ["lib/ext2fs/io_manager.c", "lib/uuid/isnull.c", "lib/ext2fs/blknum.c", "lib/ext2fs/mkjournal.c"],
 "unwind": 17,
 "unwind_reason": "as check_ext3_journal_ro_errno0",
 "cbmc_flags": ["--object-bits", "10"],
 "timeout": 600,
 "functions": ["e2fsck/journal.c:e2fsck_get_journal"],
 "assumes": ["E2F_OPT_READONLY and E2F_OPT_NO set; everything else as check_ext3_journal_ro_errno0 (no s_errno partition needed: get_journal does not look at the journal superblock)",
	     "open mode observed only: unit get_journal_ro_open"],
 "native": false
}
*/
/* VERIF-UNIT
{
 "name": "get_journal_ro_open",
 "props": ["C13"],
 "level": "P",
 "tier": "quick",
 "harness": "h_get_ro",
 "includes": ["e2fsck"],
 "defines": ["RO_BS=1024"],
 "sources": ["lib/ext2fs/io_manager.c", "lib/uuid/isnull.c", "lib/ext2fs/blknum.c", "lib/ext2fs/mkjournal.c"],
 "unwind": 17,
 "unwind_reason": "as check_ext3_journal_ro_errno0",
 "cbmc_flags": ["--object-bits", "10"],
 "timeout": 600,
 "functions": ["e2fsck/journal.c:e2fsck_get_journal"],
 "assumes": ["as get_journal_ro, plus the open-mode monitor event: FAILS on the tree (st_open: 'read-only: the external journal device is not opened with IO_FLAG_RW') — genuine defect, findings/C13_jnl_errno_readonly; green with the proposed fix"],
 "native": false
}
*/
/* VERIF-UNIT
{
 "name": "get_journal_ro_4k",
 "props": ["C13"],
 "level": "P",
 "tier": "quick",
 "harness": "h_get_ro",
 "includes": ["e2fsck"],
 "defines": ["RO_OPEN_OBSERVE_ONLY", "RO_BS=4096"],
 "sources": ["lib/ext2fs/io_manager.c", "lib/uuid/isnull.c", "lib/ext2fs/blknum.c", "lib/ext2fs/mkjournal.c"],
 "unwind": 17,
 "unwind_reason": "as check_ext3_journal_ro_errno0",
 "cbmc_flags": ["--object-bits", "10"],
 "timeout": 600,
 "functions": ["e2fsck/journal.c:e2fsck_get_journal"],
 "assumes": ["as get_journal_ro, 4 KiB blocks"],
 "native": false
}
*/
#include "ro_jnl_common.h"
#include "e2fsck/journal.c"
#define RO_JNL_PART2
#include "ro_jnl_common.h"

unsigned long long verif_k;
#define JSB_ERRNO_OFF 0x20	/* journal.rst: __be32 s_errno at 0x20 of the journal superblock */

static void ro_jnl_env(void)
{
	LOAD_IN();
	ro_build();
	ASSUME(RO);
	ASSUME(IN.options & E2F_OPT_NO);
	/* e2fsck/unix.c main(): EXT2_FLAG_RW is requested only when !E2F_OPT_READONLY (inline in main: residual) */
	ASSUME(!(IN.fs_flags & EXT2_FLAG_RW));
	/* an external journal's ext2 superblock is in the block before the journal superblock */
	ro_esb_block = ext2fs_journal_sb_start(FS.blocksize) - 1;
}

static void ro_jnl_post(void)
{
	CHECK(ro_mon.writes == 0, "read-only: no write method reached (total)");
	CHECK(g_write_inode == 0 && g_sbcsum_set == 0 && g_uuid_gen == 0, "read-only: no inode write, no checksum rewrite, no journal reset");
	CHECK(FS.io == &FSCH && FS.super == &SB && CTX.fs == &FS, "handles unchanged");
	CHECK(!(CTX.options & E2F_OPT_FORCE) || (IN.options & E2F_OPT_FORCE), "read-only: no forced journal run is requested");
}

void h_check_ro_errno0(void)
{
	ro_jnl_env();
	ASSUME(IN.jsb[JSB_ERRNO_OFF] == 0 && IN.jsb[JSB_ERRNO_OFF + 1] == 0 && IN.jsb[JSB_ERRNO_OFF + 2] == 0 && IN.jsb[JSB_ERRNO_OFF + 3] == 0);
	errcode_t r = e2fsck_check_ext3_journal(&CTX);
	ro_jnl_post();
	if (ro_mon.opens == 1 && r == 0)
		REACH("external journal checked");
	if (ro_mon.opens == 0 && r == 0 && ro_mon.closes == 0 && SB.s_journal_inum != 0)
		REACH("internal journal checked");
	REACH("end");
}

void h_check_ro(void)
{
	ro_jnl_env();
	errcode_t r = e2fsck_check_ext3_journal(&CTX);
	ro_jnl_post();
	REACH("end");
}

void h_get_ro(void)
{
	journal_t *journal = 0;
	ro_jnl_env();
	errcode_t r = e2fsck_get_journal(&CTX, &journal);
	ro_jnl_post();
	CHECK(r != 0 || (journal && journal->j_sb_buffer && !journal->j_sb_buffer->b_dirty), "the journal superblock buffer starts clean");
	CHECK(r != 0 || ro_mon.opens_rw == 0 || ro_mon.opens == 1, "one open at most");
	if (r == 0 && ro_mon.opens == 1)
		REACH("external");
	if (r == 0 && ro_mon.opens == 0)
		REACH("internal");
	REACH("end");
}
