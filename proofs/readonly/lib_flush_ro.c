/*
 * C13 / lib/ext2fs/closefs.c:ext2fs_flush2() — the library's "write everything" entry point has NO EXT2_FLAG_RW test.
 *
 * Unit flush2_ro_attempt (tier obs: states MORE than the property and FAILS on the tree — kept as documentation):
 *   "for a handle without EXT2_FLAG_RW, ext2fs_flush2 returns before any channel write method / write_primary_superblock /
 *    the write_bitmaps hook is reached".  It does not: flush2 stamps s_wtime in memory, calls the write_bitmaps hook (which
 *    does refuse: unit undo/write_bitmaps_ro), writes the group descriptors and backup superblocks with
 *    io_channel_write_blk64 and the primary superblock with io_channel_write_byte, all without looking at EXT2_FLAG_RW.
 *   Device-level C13 is NOT violated by this alone: the channel of a handle without EXT2_FLAG_RW was opened without
 *   IO_FLAG_RW (unit open2_ro) = O_RDONLY (unit unixio/unix_open), so every one of these writes fails with EBADF.
 *   Who can reach ext2fs_flush2 with a read-only handle (grep over the tree, by reading):
 *     - ext2fs_close2 / ext2fs_close / ext2fs_close_free: flush when EXT2_FLAG_DIRTY is set, RW or not (unit undo/ext2fs_close2);
 *       EXT2_FLAG_DIRTY is set on read-only handles by
 *         e2fsck -n: e2fsck/journal.c e2fsck_check_ext3_journal (journal s_errno != 0: s_state |= EXT2_ERROR_FS;
 *                    ext2fs_mark_super_dirty, no READONLY test), e2fsck/super.c check_super_block with -E bmap2extent
 *                    (E2F_OPT_CONVERT_BMAP), every ext2fs_mark_bb_dirty/ib_dirty (they also set EXT2_FLAG_DIRTY) in passes
 *                    that "fix" bitmaps in memory;  natively visible as "Error writing block 2 (Bad file descriptor)" at the
 *                    end of an `e2fsck -fn` run (findings/C13_jnl_errno_readonly/demo_internal.sh);
 *         debugfs without -w: every command that calls ext2fs_mark_super_dirty is guarded by check_fs_read_write();
 *     - direct callers ext2fs_flush(): e2fsck main() (inside !READONLY), e2fsck_run_ext3_journal (behind its READONLY
 *       guard: unit run_ext3_journal_ro), tune2fs/resize2fs/mke2fs/debugfs -w (read-write tools).
 * Unit flush2_protocol (quick): what does hold and is used by the C13 argument:
 *   every device write of ext2fs_flush2 goes through fs->io (no other channel, nothing is opened), EXT2_FLAG_RW is never
 *   set by the flush, the in-memory s_state / s_feature_incompat are restored, and on success EXT2_FLAG_DIRTY is cleared after
 *   exactly one write_primary_superblock (so a close after a successful flush does not flush again).
 * write_primary_superblock (same file; 512-iteration compare loop) is replaced by a counting contract.
 */
/* VERIF-UNIT
{
 "name": "flush2_protocol",
 "props": ["C13"],
 "level": "P",
 "tier": "quick",
 "harness": "h_flush2",
 "replace": ["write_primary_superblock", "ext2fs_super_and_bgd_loc2"],
 "sources": ["lib/ext2fs/io_manager.c"],
 "unwind": 3,
 "unwind_reason": "group loop: fs->group_desc_count <= 2 (assumption); no other loop (write_primary_superblock replaced)",
 "cbmc_flags": ["--object-bits", "10"],
 "functions": ["lib/ext2fs/closefs.c:ext2fs_flush2", "lib/ext2fs/closefs.c:write_backup_super"],
 "assumes": ["block size 1024, group_desc_count <= 2, desc_blocks 1; superblock contents, fs->flags, flush flags arbitrary",
	     "ext2fs_super_and_bgd_loc2 (same file) is replaced by a contract (arbitrary locations), ext2fs_superblock_csum_set is a stub; write_primary_superblock replaced by a counting contract; the write_bitmaps hook is absent or a counting stub; fs->now non-zero (time(2) not modelled)",
	     "no frame enforcement; harness CHECKs and monitor events"],
 "native": false
}
*/
/* VERIF-UNIT
{
 "name": "flush2_ro_attempt",
 "props": ["C13"],
 "level": "P",
 "tier": "obs",
 "harness": "h_flush2_ro",
 "replace": ["write_primary_superblock", "ext2fs_super_and_bgd_loc2"],
 "sources": ["lib/ext2fs/io_manager.c"],
 "unwind": 3,
 "unwind_reason": "as flush2_protocol",
 "cbmc_flags": ["--object-bits", "10"],
 "functions": ["lib/ext2fs/closefs.c:ext2fs_flush2"],
 "assumes": ["OBSERVATION unit: demands that a handle without EXT2_FLAG_RW is refused before any write attempt; FAILS on the tree (ext2fs_flush2 has no such test). Device-level C13 rests on the O_RDONLY descriptor instead (units open2_ro, unixio/unix_open)"],
 "native": false
}
*/
#include "verif.h"

#define RO_NCHOICE 16
struct in_fl {
	int flags, flush_flags;
	unsigned char sb[1024];
	unsigned char have_wb, have_gd, magic_bad;
	unsigned int group_desc_count;
	long long now;
	unsigned long long choice[RO_NCHOICE];
};
struct in_fl IN;
#include "verif_in.h"
#include "ro_monitor.h"

static unsigned int ro_nchoice;
static unsigned long long ro_choice(void)
{
	unsigned long long v = ro_nchoice < RO_NCHOICE ? IN.choice[ro_nchoice] : 0;
	ro_nchoice++;
	return v;
}
#define RO_ERR() ((errcode_t)(long)(ro_choice() & 0x7fffffffULL))

unsigned int g_primary_calls, g_wb_calls, g_other_channel, g_writes_at_primary;
int g_ro_unit;		/* 1 in the observation unit: write events are CHECKed against "read-only => not reached" */

#include "config.h"
#include "ext2_fs.h"
#include "ext2fs.h"

static errcode_t write_primary_superblock(ext2_filsys fs, struct ext2_super_block *super)
	ASSIGNS(g_primary_calls, g_writes_at_primary)
	ENSURES(g_primary_calls == OLD(g_primary_calls) + 1)
	ENSURES(g_writes_at_primary == ro_mon.writes);

/* same file: geometry arithmetic (units geometry/...), here only "some locations" */
errcode_t ext2fs_super_and_bgd_loc2(ext2_filsys fs, dgrp_t group, blk64_t *ret_super_blk, blk64_t *ret_old_desc_blk,
				    blk64_t *ret_new_desc_blk, blk_t *ret_used_blks)
	REQUIRES(ret_super_blk && ret_old_desc_blk && ret_new_desc_blk && !ret_used_blks)
	ASSIGNS(*ret_super_blk, *ret_old_desc_blk, *ret_new_desc_blk);

#include "lib/ext2fs/closefs.c"

static struct struct_ext2_filsys FS;
static struct ext2_super_block SB;
static struct struct_io_channel IO;
static struct struct_io_manager MGR;
static unsigned char GD[1024];

#define RO_HANDLE (g_ro_unit && !(IN.flags & EXT2_FLAG_RW))
static errcode_t st_write_blk64(io_channel ch, unsigned long long block, int count, const void *buf)
{
	if (ch != &IO)
		g_other_channel++;
	ro_mon.writes++;
	CHECK(!RO_HANDLE, "handle without EXT2_FLAG_RW: no channel write is attempted by ext2fs_flush2");
	return RO_ERR();
}
static errcode_t st_write_blk(io_channel ch, unsigned long block, int count, const void *buf)
{ return st_write_blk64(ch, block, count, buf); }
static errcode_t st_write_byte(io_channel ch, unsigned long offset, int count, const void *buf)
{ return st_write_blk64(ch, 0, count, buf); }
static errcode_t st_flush(io_channel ch) { ro_mon.flushes++; return RO_ERR(); }
static errcode_t st_set_blksize(io_channel ch, int bs) { return 0; }
static errcode_t st_wb(ext2_filsys fs) { g_wb_calls++; return RO_ERR(); }

errcode_t ext2fs_superblock_csum_set(ext2_filsys fs, struct ext2_super_block *sb) { return RO_ERR(); }
errcode_t ext2fs_mmp_stop(ext2_filsys fs) { return 0; }
void ext2fs_free(ext2_filsys fs) { }

static void build(void)
{
	RO_MON_RESET();
	ro_nchoice = 0;
	g_primary_calls = g_wb_calls = g_other_channel = g_writes_at_primary = 0;
	memset(&FS, 0, sizeof(FS));
	memset(&IO, 0, sizeof(IO));
	memset(&MGR, 0, sizeof(MGR));
	memcpy(&SB, IN.sb, sizeof(SB));
	MGR.magic = EXT2_ET_MAGIC_IO_MANAGER;
	MGR.write_blk = st_write_blk;
	MGR.write_blk64 = st_write_blk64;
	MGR.write_byte = st_write_byte;
	MGR.flush = st_flush;
	MGR.set_blksize = st_set_blksize;
	IO.magic = EXT2_ET_MAGIC_IO_CHANNEL;
	IO.manager = &MGR;
	IO.block_size = 1024;
	FS.magic = IN.magic_bad ? 0 : EXT2_ET_MAGIC_EXT2FS_FILSYS;
	FS.super = &SB;
	FS.io = &IO;
	FS.blocksize = 1024;
	FS.flags = IN.flags;
	FS.now = IN.now;
	FS.desc_blocks = 1;
	FS.group_desc_count = IN.group_desc_count;
	FS.group_desc = IN.have_gd ? (struct opaque_ext2_group_desc *) GD : 0;
	if (IN.have_wb)
		FS.write_bitmaps = st_wb;
	SB.s_log_block_size = 0;
	SB.s_desc_size = 0;
	SB.s_feature_incompat &= ~EXT4_FEATURE_INCOMPAT_64BIT;
}

void h_flush2(void)
{
	LOAD_IN();
	g_ro_unit = 0;
	ASSUME(IN.group_desc_count >= 1 && IN.group_desc_count <= 2);
	ASSUME(IN.now != 0);
	build();
	__u16 state0 = SB.s_state;
	__u32 incompat0 = SB.s_feature_incompat;
	errcode_t r = ext2fs_flush2(&FS, IN.flush_flags);
	CHECK(g_other_channel == 0, "every write of ext2fs_flush2 goes through fs->io");
	CHECK(FS.io == &IO && IO.manager == &MGR, "the channel is not replaced or re-opened");
	CHECK((FS.flags & EXT2_FLAG_RW) == (IN.flags & EXT2_FLAG_RW), "EXT2_FLAG_RW is not changed by a flush");
	CHECK(IN.magic_bad || SB.s_state == state0, "in-memory s_state restored");
	CHECK(g_primary_calls <= 1, "the primary superblock is written at most once");
	if (r == 0) {
		CHECK(g_primary_calls == 1, "success: the primary superblock was written");
		CHECK(!(FS.flags & EXT2_FLAG_DIRTY), "success: EXT2_FLAG_DIRTY cleared (a later close does not flush again)");
		CHECK(SB.s_feature_incompat == incompat0, "success: s_feature_incompat restored");
		CHECK(g_writes_at_primary == ro_mon.writes, "success: the primary superblock is the last thing written");
		REACH("success");
	} else {
		CHECK(g_primary_calls == 1 || (FS.flags & EXT2_FLAG_DIRTY) == (IN.flags & EXT2_FLAG_DIRTY), "failure before the primary superblock: DIRTY unchanged");
	}
	if (ro_mon.writes >= 2)
		REACH("descriptors written");
	REACH("end");
}

void h_flush2_ro(void)
{
	LOAD_IN();
	g_ro_unit = 1;
	ASSUME(!(IN.flags & EXT2_FLAG_RW));
	ASSUME(IN.group_desc_count >= 1 && IN.group_desc_count <= 2);
	ASSUME(IN.now != 0);
	build();
	errcode_t r = ext2fs_flush2(&FS, IN.flush_flags);
	CHECK(ro_mon.writes == 0 && g_primary_calls == 0, "handle without EXT2_FLAG_RW: ext2fs_flush2 attempts no write");
	CHECK(r == EXT2_ET_RO_FILSYS || IN.magic_bad, "handle without EXT2_FLAG_RW: ext2fs_flush2 refuses with EXT2_ET_RO_FILSYS");
	CHECK(g_wb_calls == 0, "handle without EXT2_FLAG_RW: the write_bitmaps hook is not called");
	REACH("end");
}
