/*
 * ro_jnl_common.h — environment for the C13 units on e2fsck/journal.c (real file, included by the unit AFTER this header's
 * first part; see RO_JNL_PART2 below).
 *
 * Everything real: e2fsck/journal.c (getblk, ll_rw_block, mark_buffer_dirty, brelse, e2fsck_get_journal,
 * e2fsck_journal_load, e2fsck_journal_release, e2fsck_check_ext3_journal, ...), lib/ext2fs/io_manager.c
 * (io_channel_read_blk64 / io_channel_write_blk64 / io_channel_set_blksize dispatch), lib/uuid/isnull.c.
 * Stubs (callees from other translation units), all nondeterminism from IN:
 *   - two stub io channels with one stub manager: FSCH (the filesystem device, ghost ch_rw[0]) and JCH (an external
 *     journal device, handed out by the stub `unix_io_manager->open`, ghost ch_rw[1] = what open() was asked for).
 *     read_blk64 copies an arbitrary block image from IN; the write methods are monitor events (specs/ro_monitor.h);
 *   - fix_problem: answers "no" when E2F_OPT_NO is set (problem.c: def_yn = 0 and ask()/PROMPT_NONE return the default;
 *     none of the PR_0_* codes used by journal.c is PROMPT_NONE + PR_NOCOLLATE, the only case answering -1),
 *     otherwise an arbitrary 0/1;
 *   - ext2fs_read_inode / ext2fs_bmap2 / ext2fs_block_iterate3 (calls the real callback once with arbitrary arguments) /
 *     blkid_* / uuid_unparse / ext2fs_superblock_csum_verify / ext2fs_crc32c_le: arbitrary results from IN.choice[];
 *   - ext2fs_write_inode, ext2fs_superblock_csum_set, uuid_generate (only used by the reset path): monitor events.
 */
#ifndef RO_JNL_COMMON_H
#define RO_JNL_COMMON_H
#include "verif.h"

#define RO_NCHOICE 24
struct in_jnl {
	int options;			/* ctx->options */
	int mount_flags;
	unsigned int fs_flags;		/* fs->flags */
	unsigned char bs4k;		/* 0: 1 KiB blocks, 1: 4 KiB blocks */
	unsigned char have_jname, have_blkid_name;
	unsigned char sb[1024];		/* the filesystem superblock (in memory) */
	unsigned char jsb[1024];	/* first 1 KiB of the journal superblock block as read from the device */
	unsigned char esb[1024];	/* the ext2 superblock of an external journal device as read from the device */
	unsigned char jinode[128];	/* the journal inode as read by ext2fs_read_inode */
	unsigned long long it_blk;
	long long it_cnt;
	unsigned int group_desc_count;
	unsigned long long choice[RO_NCHOICE];
	/* release unit */
	int reset, drop;
	unsigned char buf_dirty, j_internal, same_io;
	unsigned int tail_sequence;
};
struct in_jnl IN;
#include "verif_in.h"
#include "ro_monitor.h"

static unsigned int ro_nchoice;
static unsigned long long ro_choice(void)
{
	unsigned long long v = ro_nchoice < RO_NCHOICE ? IN.choice[ro_nchoice] : 0;
	ro_nchoice++;
	return v;
}
/* error codes are errno values or com_err table codes: non-negative, below 2^31 */
#define RO_ERR() ((errcode_t)(long)(ro_choice() & 0x7fffffffULL))

#endif /* RO_JNL_COMMON_H */

#ifdef RO_JNL_PART2
/* ------------------------------------------------------------------ after #include "e2fsck/journal.c" */

#define RO (( IN.options & E2F_OPT_READONLY) != 0)
/* RO_M: what the monitor events in the stubs are checked against.  A unit on a callee that may legitimately be handed
 * a dirty buffer by its caller defines RO_EXCUSE (the write is then the caller's: checked in the caller's unit). */
#ifndef RO_EXCUSE
#define RO_EXCUSE 0
#endif
#define RO_M (RO && !(RO_EXCUSE))

static struct struct_io_manager RO_MGR;
static struct struct_io_channel FSCH, JCH;
static unsigned long long ro_esb_block;	/* block of JCH holding the external journal's ext2 superblock (harness) */
static unsigned char ch_rw[2];		/* ghost: channel was opened with IO_FLAG_RW: [0] FSCH, [1] JCH */
static struct struct_ext2_filsys FS;
static struct ext2_super_block SB;
static struct e2fsck_struct CTX;
static char ro_jname[] = "jdev";
unsigned int g_write_inode, g_sbcsum_set, g_uuid_gen, g_read_inode;
unsigned int g_jsb_writes;		/* ghost: writes of the journal-superblock block */
unsigned long long g_jsb_blocknr;

#define CH_IDX(ch) ((ch) == &JCH ? 1 : 0)

static errcode_t st_open(const char *name, int flags, io_channel *channel)
{
#ifdef RO_OPEN_OBSERVE_ONLY	/* the open-mode statement is its own unit (get_journal_ro_open); here only recorded */
	ro_mon.opens++;
	if (flags & IO_FLAG_RW)
		ro_mon.opens_rw++;
#else
	RO_EV_OPEN(RO_M, flags, "the external journal device");
#endif
	errcode_t r = RO_ERR();
	if (r)
		return r;
	memset(&JCH, 0, sizeof(JCH));
	JCH.magic = EXT2_ET_MAGIC_IO_CHANNEL;
	JCH.manager = &RO_MGR;
	JCH.block_size = 1024;
	ch_rw[1] = (flags & IO_FLAG_RW) != 0;
	*channel = &JCH;
	return 0;
}
static errcode_t st_close(io_channel ch) { ro_mon.closes++; return RO_ERR(); }
static errcode_t st_flush(io_channel ch) { ro_mon.flushes++; return RO_ERR(); }
static errcode_t st_set_blksize(io_channel ch, int bs) { ch->block_size = bs; return 0; }
static errcode_t st_read_blk64(io_channel ch, unsigned long long block, int count, void *buf)
{
	errcode_t r = RO_ERR();
	if (r)
		return r;
	/* one block; the first 1 KiB of the block is what the units look at: an external journal's ext2 superblock
	 * (block "start" of e2fsck_get_journal) or the journal superblock; the rest of a 4 KiB block stays as allocated
	 * (zero: e2fsck_allocate_memory clears) except for the ext2 superblock at byte 1024 of block 0 */
	if (ch == &JCH && block == ro_esb_block) {
		if (block == 0)
			memcpy((char *)buf + 1024, IN.esb, 1024);
		else
			memcpy(buf, IN.esb, 1024);
	} else
		memcpy(buf, IN.jsb, 1024);
	return 0;
}
static errcode_t st_read_blk(io_channel ch, unsigned long block, int count, void *buf)
{ return st_read_blk64(ch, block, count, buf); }
static errcode_t st_write_blk64(io_channel ch, unsigned long long block, int count, const void *buf)
{
	if (ch == &JCH) {
		RO_EV_WRITE(RO_M, ch_rw[1], "the external journal device");
	} else {
		RO_EV_WRITE(RO_M, ch_rw[0], "the filesystem device");
	}
	if (block == g_jsb_blocknr)
		g_jsb_writes++;
	return RO_ERR();
}
static errcode_t st_write_blk(io_channel ch, unsigned long block, int count, const void *buf)
{ return st_write_blk64(ch, block, count, buf); }
static errcode_t st_write_byte(io_channel ch, unsigned long offset, int count, const void *buf)
{
	RO_EV_WRITE(RO_M, ch_rw[CH_IDX(ch)], "a device (write_byte)");
	return RO_ERR();
}
io_manager unix_io_manager = &RO_MGR;

/* ---- callees from other translation units ---- */
void *e2fsck_allocate_memory(e2fsck_t ctx, unsigned long size, const char *description)
{
	void *p = malloc(size);
	if (p)
		memset(p, 0, size);
	return p;
}
int fix_problem(e2fsck_t ctx, problem_t code, struct problem_context *pctx)
{
	if (ctx->options & E2F_OPT_NO)
		return 0;
	return (int)(ro_choice() & 1);
}
void clear_problem_context(struct problem_context *pctx) { memset(pctx, 0, sizeof(*pctx)); }
void e2fsck_use_inode_shortcuts(e2fsck_t ctx, int use_shortcuts) { }
void com_err(const char *whoami, errcode_t code, const char *fmt, ...) { }
char *gettext(const char *msgid) { return (char *)msgid; }
errcode_t ext2fs_read_inode(ext2_filsys fs, ext2_ino_t ino, struct ext2_inode *inode)
{
	g_read_inode++;
	memcpy(inode, IN.jinode, sizeof(*inode));
	return RO_ERR();
}
errcode_t ext2fs_write_inode(ext2_filsys fs, ext2_ino_t ino, struct ext2_inode *inode)
{
	g_write_inode++;
	RO_EV_FORBIDDEN(RO_M, "ext2fs_write_inode (journal inode rewritten from the superblock backup)");
	return RO_ERR();
}
errcode_t ext2fs_bmap2(ext2_filsys fs, ext2_ino_t ino, struct ext2_inode *inode, char *block_buf, int bmap_flags,
		       blk64_t block, int *ret_flags, blk64_t *phys_blk)
{
	*phys_blk = ro_choice();
	return RO_ERR();
}
errcode_t ext2fs_block_iterate3(ext2_filsys fs, ext2_ino_t ino, int flags, char *block_buf,
				int (*func)(ext2_filsys fs, blk64_t *blocknr, e2_blkcnt_t blockcnt, blk64_t ref_blk,
					    int ref_offset, void *priv_data),
				void *priv_data)
{
	blk64_t b = IN.it_blk;
	/* logical block numbers handed to the callback are 32-bit (or -1..-3 for the mapping blocks) */
	if ((ro_choice() & 1) && IN.it_cnt >= -3 && IN.it_cnt < (1LL << 32)) {
		int r = func(fs, &b, IN.it_cnt, 0, 0, priv_data);
		/* ext2fs_block_iterate3 writes a block-map block / the inode only when the callback says BLOCK_CHANGED */
		CHECK(!(r & BLOCK_CHANGED), "journal block iteration callback never returns BLOCK_CHANGED");
		CHECK(b == IN.it_blk, "journal block iteration callback does not change a block pointer");
	}
	return RO_ERR();
}
char *blkid_get_devname(blkid_cache cache, const char *token, const char *value)
{ return IN.have_blkid_name ? ro_jname : (char *) 0; }
char *blkid_devno_to_devname(dev_t devno) { return (ro_choice() & 1) ? ro_jname : (char *) 0; }
void uuid_unparse(const uuid_t uu, char *out) { out[0] = 0; }
void uuid_generate(uuid_t out) { g_uuid_gen++; memset(out, 0, 16); out[0] = (unsigned char) ro_choice(); }
int ext2fs_superblock_csum_verify(ext2_filsys fs, struct ext2_super_block *sb) { return (int)(ro_choice() & 1); }
errcode_t ext2fs_superblock_csum_set(ext2_filsys fs, struct ext2_super_block *sb)
{
	g_sbcsum_set++;
	RO_EV_FORBIDDEN(RO_M, "rewriting the checksum of the external journal's ext2 superblock");
	return 0;
}
__u32 ext2fs_crc32c_le(__u32 crc, unsigned char const *p, size_t len) { return (__u32) ro_choice(); }

/* build ctx / fs / channels from IN */
static void ro_build(void)
{
#ifdef RO_BS
	unsigned int bs = RO_BS;
#else
	unsigned int bs = IN.bs4k ? 4096 : 1024;
#endif
	RO_MON_RESET();
	ro_nchoice = 0;
	g_write_inode = g_sbcsum_set = g_uuid_gen = g_jsb_writes = g_read_inode = 0;
	memset(&RO_MGR, 0, sizeof(RO_MGR));
	RO_MGR.magic = EXT2_ET_MAGIC_IO_MANAGER;
	RO_MGR.open = st_open;
	RO_MGR.close = st_close;
	RO_MGR.flush = st_flush;
	RO_MGR.set_blksize = st_set_blksize;
	RO_MGR.read_blk = st_read_blk;
	RO_MGR.read_blk64 = st_read_blk64;
	RO_MGR.write_blk = st_write_blk;
	RO_MGR.write_blk64 = st_write_blk64;
	RO_MGR.write_byte = st_write_byte;
	memset(&FSCH, 0, sizeof(FSCH));
	FSCH.magic = EXT2_ET_MAGIC_IO_CHANNEL;
	FSCH.manager = &RO_MGR;
	FSCH.block_size = bs;
	memset(&FS, 0, sizeof(FS));
	memcpy(&SB, IN.sb, sizeof(SB));
	FS.magic = EXT2_ET_MAGIC_EXT2FS_FILSYS;
	FS.io = &FSCH;
	FS.super = &SB;
	FS.blocksize = bs;
	FS.flags = IN.fs_flags;
	FS.group_desc_count = IN.group_desc_count;
	memset(&CTX, 0, sizeof(CTX));
	CTX.fs = &FS;
	CTX.options = IN.options;
	CTX.mount_flags = IN.mount_flags;
	CTX.journal_name = IN.have_jname ? ro_jname : (char *) 0;
	/* e2fsck/unix.c main(): EXT2_FLAG_RW is requested iff !E2F_OPT_READONLY (inline in main: residual of C13);
	 * lib/ext2fs/openfs.c: the filesystem channel is opened IO_FLAG_RW iff EXT2_FLAG_RW (unit readonly/open2_ro) */
	ch_rw[0] = (IN.fs_flags & EXT2_FLAG_RW) != 0;
	ch_rw[1] = 0;
	ro_esb_block = ~0ULL;
	unix_io_manager = &RO_MGR;	/* (DFCC havocs static-lifetime objects: set here, not by initialiser) */
}
#endif /* RO_JNL_PART2 */
