/* second half of the recovery.c unit prelude: the real file and the object builders (see jr_spec.h) */
#include "e2fsck/recovery.c"

static journal_t J;
static journal_superblock_t JSB;
static struct buffer_head *BH;
static int BS;
#ifndef VERIF_BH_SLACK
#define VERIF_BH_SLACK 0
#endif

/* journal_t as e2fsck_get_journal / e2fsck_journal_load (or the debugfs twins) leave it:
 * j_blocksize is the filesystem block size (1 KiB .. 64 KiB, power of two), the superblock was
 * accepted by the load routine, features are arbitrary bits */
static void build_journal(void)
{
	LOAD_IN();
	ASSUME(IN.bs_log <= 6);
	BS = 1024 << IN.bs_log;
	/* J and JSB are static, hence zero-filled (no memset here: some units replace the libc copy routines by contracts) */
	J.j_superblock = &JSB;
	J.j_blocksize = BS;
	J.j_format_version = IN.format_version;
	ASSUME(IN.format_version == 1 || IN.format_version == 2);
	JSB.s_feature_incompat = ext2fs_cpu_to_be32(IN.incompat);
}

/* one journal buffer exactly as getblk() allocates it: header + blocksize data bytes */
static void build_bh(void)
{
	unsigned long sz = sizeof(struct buffer_head) + BS - sizeof(BH->b_data);
	BH = malloc(sz + VERIF_BH_SLACK);
	ASSUME(BH != 0);
#ifdef VERIF_NATIVE
	for (int j = 0; j < BS; j++)
		BH->b_data[j] = IN.fill[j & 15];
#endif
	BH->b_size = BS;
}
