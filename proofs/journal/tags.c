/* VERIF-UNIT
{
 "name": "journal_tag_bytes",
 "props": ["C03"],
 "level": "U",
 "tier": "quick",
 "harness": "h_tag_bytes",
 "enforce": ["journal_tag_bytes", "read_tag_block"],
 "includes": ["e2fsck"],
 "functions": ["lib/ext2fs/kernel-jbd.h:journal_tag_bytes", "e2fsck/recovery.c:read_tag_block"],
 "assumes": ["j_format_version is 1 or 2 (the only values the journal load routines produce)"],
 "native": false
}
*/
/* VERIF-UNIT
{
 "name": "count_tags",
 "props": ["C03"],
 "level": "U",
 "tier": "quick",
 "harness": "h_count_tags",
 "enforce": ["count_tags"],
 "replace": ["memcpy"],
 "loop_contracts": true,
 "includes": ["e2fsck"],
 "functions": ["e2fsck/recovery.c:count_tags"],
 "assumes": ["j_blocksize is a power of two in 1 KiB .. 64 KiB (filesystem block size, checked against the journal superblock at load time)",
	     "the buffer holds j_blocksize data bytes of arbitrary content, followed by 32 slack bytes that may be pointed to but never read (every read is asserted to end inside the j_blocksize bytes); strict-C pointer formation beyond the buffer is the subject of unit count_tags_strict",
	     "j_format_version is 1 or 2",
	     "libc memcpy replaced by its contract (bounds asserted at the call; faithful copy stated at the one byte the walk may depend on, all other copied bytes unconstrained)"],
 "native": false
}
*/
/* VERIF-UNIT
{
 "name": "count_tags_strict",
 "props": ["C03"],
 "level": "U",
 "tier": "obs",
 "harness": "h_count_tags",
 "enforce": ["count_tags"],
 "replace": ["memcpy"],
 "loop_contracts": true,
 "includes": ["e2fsck"],
 "functions": ["e2fsck/recovery.c:count_tags"],
 "assumes": ["as count_tags, but the buffer has NO slack: the out-of-bounds pointer formation in the loop guard is reported (expected failing obligation, see the FINDING comment)"],
 "native": false
}
*/
/* VERIF-UNIT
{
 "name": "journal_tag_bytes_debugfs",
 "props": ["C03"],
 "level": "U",
 "tier": "quick",
 "harness": "h_tag_bytes",
 "enforce": ["journal_tag_bytes", "read_tag_block"],
 "includes": ["e2fsck", "debugfs"],
 "defines": ["DEBUGFS"],
 "functions": ["lib/ext2fs/kernel-jbd.h:journal_tag_bytes", "e2fsck/recovery.c:read_tag_block"],
 "assumes": ["j_format_version is 1 or 2 (the only values the journal load routines produce)"],
 "native": false
}
*/
/* VERIF-UNIT
{
 "name": "count_tags_debugfs",
 "props": ["C03"],
 "level": "U",
 "tier": "quick",
 "harness": "h_count_tags",
 "enforce": ["count_tags"],
 "replace": ["memcpy"],
 "loop_contracts": true,
 "includes": ["e2fsck", "debugfs"],
 "defines": ["DEBUGFS"],
 "functions": ["e2fsck/recovery.c:count_tags"],
 "assumes": ["j_blocksize is a power of two in 1 KiB .. 64 KiB (filesystem block size, checked against the journal superblock at load time)",
	     "the buffer holds j_blocksize data bytes of arbitrary content, followed by 32 slack bytes that may be pointed to but never read (every read is asserted to end inside the j_blocksize bytes); strict-C pointer formation beyond the buffer is the subject of unit count_tags_strict",
	     "j_format_version is 1 or 2",
	     "libc memcpy replaced by its contract (bounds asserted at the call; faithful copy stated at the one byte the walk may depend on, all other copied bytes unconstrained)"],
 "native": false
}
*/
/*
 * Descriptor-block tag geometry (C03 mechanism "count_tags()", tag format 32/64-bit, csum v1/v2/v3).
 *
 * count_tags is stated pointwise for ONE ghost tag number verif_k, using the walk record that the
 * in-place loop contract keeps (ghost registers, meaning fixed here):
 *   verif_g0 = byte offset in the block of tag number verif_k        (tag 0 is at sizeof(header) = 12)
 *   verif_g1 = byte offset of tag number verif_k + 1                 (= where the walk stands after tag k)
 * Both are "the offset of tag j" for j = k and j = k+1, so the statements for consecutive k chain up.
 * With S = blocksize - checksum tail, T = spec_tag_bytes, F(off) = big-endian flags at off+6:
 *   (fit)    k <  RET  =>  12 <= g0 and g0 + T <= S                  every counted tag lies in the usable area
 *   (stride) k <  RET  =>  g1 == g0 + T + (F(g0) & SAME_UUID ? 0 : 16)
 *   (cont)   k+1 < RET =>  !(F(g0) & LAST_TAG)                       nothing is counted after a LAST_TAG
 *   (stop)   k+1 == RET => (F(g0) & LAST_TAG) || g1 + T > S          the count stops only for these two reasons
 *   (some)   RET >= 1
 * which is exactly the walk of the replay loop in do_one_pass (same stride, same two stop conditions).
 * "Never reads outside the block" is the verifier's pointer check on a buffer of exactly blocksize bytes.
 */
/*
 * FINDING (benign, strict-C only): when the last tag slot of the block carries neither SAME_UUID nor LAST_TAG,
 * count_tags advances tagp to up to 28 bytes beyond the end of the buffer and then evaluates
 * `tagp - bh->b_data` in the loop guard.  Nothing is read there, but forming / subtracting such a pointer is
 * undefined in ISO C and CBMC's pointer check reports it ("pointer relation: pointer outside object bounds in
 * tagp", recovery.c loop guard).  Input: blocksize 1024, no csum, 32-bit tags, tag at offset 1012 with flags 0.
 * DECISION (count_tags.pointer_arithmetic.15 of count_tags_strict): this is the real code on blocks the caller can pass,
 * not an artefact of the unit.  getblk() allocates sizeof(struct buffer_head) - sizeof(b_data) + blocksize bytes, so b_data
 * ends exactly at blocksize; a descriptor block whose last tag slot ends at most 16 bytes before `size` and carries neither
 * SAME_UUID nor LAST_TAG (any stale/corrupted block does; the kernel's own writer always sets LAST_TAG) makes
 * `tagp += tag_bytes; tagp += 16` form a pointer up to 16 bytes behind the object (one-past-the-end is legal, 2..16 bytes
 * beyond is not), and the loop guard then subtracts it from bh->b_data.  The same walk is in do_one_pass's tag loop.
 * Nothing is dereferenced: no read or write leaves the block (that is what the quick units prove), so under C06 this is
 * an undefined-behaviour observation (ISO C 6.5.6p8), not a memory-safety violation; no sanitizer or native run can show
 * it (ASan/UBSan do not instrument out-of-bounds pointer formation without overflow).  Kept as a wip unit on purpose.
 *   unit count_tags_strict (tier wip): buffer allocated exactly as getblk() does -> that ONE obligation fails
 *     (and CBMC then reports the obligations behind it as UNKNOWN).
 *   unit count_tags (quick): the buffer carries VERIF_BH_SLACK unreadable bytes so that the pointer formation is
 *     defined; every read is still asserted to end inside the first blocksize bytes (memcpy contract precondition,
 *     memcpy being the only read in the loop), so "never reads outside the block" is checked exactly.
 */
#ifndef VERIF_UNIT_count_tags_strict
#define VERIF_BH_SLACK 32
#endif
#include "jr_spec.h"

size_t journal_tag_bytes(journal_t *journal)
	REQUIRES(journal->j_format_version == 1 || journal->j_format_version == 2)
	ENSURES(RET == spec_tag_bytes(journal->j_format_version, SPEC_BE32(&journal->j_superblock->s_feature_incompat)))
	ASSIGNS();

static inline unsigned long long read_tag_block(journal_t *journal, journal_block_tag_t *tag)
	REQUIRES(journal->j_format_version == 1 || journal->j_format_version == 2)
	ENSURES(RET == spec_tag_block(journal->j_format_version, SPEC_BE32(&journal->j_superblock->s_feature_incompat),
				      (const unsigned char *)tag))
	ASSIGNS();

/*
 * libc memcpy as seen by count_tags (the built-in byte-array model of memcpy costs 5 M clauses per call on a
 * block-sized object): source readable and destination writable for n bytes (asserted at the call, which is what
 * keeps "never reads outside the block" checked), and the copy is faithful at ONE ghost byte index verif_mc_k
 * (true of memcpy for every index; bytes at other indices are left unconstrained, i.e. worst case).
 */
unsigned long long verif_mc_k;
const void *verif_blk;			/* the journal buffer object and ... */
unsigned long long verif_blk_end;	/* ... the object offset at which its blocksize data bytes end */
void *memcpy(void *dst, const void *src, size_t n)
	REQUIRES(__CPROVER_r_ok(src, n) && __CPROVER_w_ok(dst, n))
	REQUIRES(!__CPROVER_same_object(src, verif_blk) || __CPROVER_POINTER_OFFSET(src) + n <= verif_blk_end)
	ASSIGNS(__CPROVER_object_upto(dst, n))
	ENSURES(RET == dst)
	ENSURES(verif_mc_k >= n || ((const unsigned char *)dst)[verif_mc_k] == ((const unsigned char *)src)[verif_mc_k]);

#define CT_S(j) ((unsigned long long)(j)->j_blocksize - spec_csum_tail((j)->j_format_version, SPEC_BE32(&(j)->j_superblock->s_feature_incompat)))
#define CT_T(j) ((unsigned long long)spec_tag_bytes((j)->j_format_version, SPEC_BE32(&(j)->j_superblock->s_feature_incompat)))

static int count_tags(journal_t *journal, struct buffer_head *bh)
	REQUIRES(journal->j_format_version == 1 || journal->j_format_version == 2)
	REQUIRES(journal->j_blocksize == 1024 || journal->j_blocksize == 2048 || journal->j_blocksize == 4096 ||
		 journal->j_blocksize == 8192 || journal->j_blocksize == 16384 || journal->j_blocksize == 32768 ||
		 journal->j_blocksize == 65536)
	REQUIRES(verif_k < 0x10000 && (verif_k != 0 || verif_g0 == 12))
	ENSURES(RET >= 1)
	ENSURES(verif_k >= (unsigned long long)RET || (verif_g0 >= 12 && verif_g0 + CT_T(journal) <= CT_S(journal)))
	ENSURES(verif_k >= (unsigned long long)RET ||
		verif_g1 == verif_g0 + CT_T(journal) + ((SPEC_TAG_FLAGS(bh->b_data, verif_g0) & SPEC_FLAG_SAME_UUID) ? 0 : 16))
	ENSURES(verif_k + 1 >= (unsigned long long)RET || !(SPEC_TAG_FLAGS(bh->b_data, verif_g0) & SPEC_FLAG_LAST_TAG))
	ENSURES(verif_k + 1 != (unsigned long long)RET || (SPEC_TAG_FLAGS(bh->b_data, verif_g0) & SPEC_FLAG_LAST_TAG) ||
		verif_g1 + CT_T(journal) > CT_S(journal))
	ASSIGNS(verif_g0, verif_g1);

#include "jr_build.h"

void h_tag_bytes(void)
{
	build_journal();
	size_t n = journal_tag_bytes(&J);
	CHECK(n == spec_tag_bytes(IN.format_version, IN.incompat), "tag size follows the on-disk format table");
	CHECK(n == 8 || n == 10 || n == 12 || n == 14 || n == 16, "tag size is one of the five legal sizes");
	journal_block_tag3_t t3;
	memcpy(&t3, IN.tag, sizeof(t3));
	unsigned long long b = read_tag_block(&J, (journal_block_tag_t *)&t3);
	CHECK(b == spec_tag_block(IN.format_version, IN.incompat, IN.tag), "block number: be32 low word, be32 high word iff 64BIT");
	CHECK(SPEC_HAS(IN.format_version, IN.incompat, SPEC_INCOMPAT_64BIT) || b <= 0xffffffffULL, "32-bit journals never yield a block above 2^32");
	REACH("end");
}

void h_count_tags(void)
{
	build_journal();
	build_bh();
	verif_k = IN.k;
	ASSUME(verif_k < 0x10000);	/* a 64 KiB block has fewer than 2^13 tags: larger k are vacuous */
	verif_g0 = (verif_k == 0) ? 12 : 0;
	verif_g1 = 0;
	verif_blk = BH;
	verif_blk_end = (unsigned long long)((char *)BH->b_data - (char *)BH) + BS;
	verif_mc_k = 7;		/* low byte of the big-endian flags word: the only byte of the tag copy count_tags may depend on */
	unsigned long long S = BS - spec_csum_tail(IN.format_version, IN.incompat);
	unsigned long long T = spec_tag_bytes(IN.format_version, IN.incompat);
	int nr = count_tags(&J, BH);
	CHECK(nr >= 1, "a descriptor block always holds at least one tag slot");
	if (verif_k < (unsigned long long)nr) {
		unsigned int fl = SPEC_TAG_FLAGS(BH->b_data, verif_g0);
		CHECK(verif_g0 >= 12 && verif_g0 + T <= S, "every counted tag lies inside the usable area of the block");
		CHECK(verif_g1 == verif_g0 + T + ((fl & SPEC_FLAG_SAME_UUID) ? 0 : 16), "stride is tag_bytes, plus a 16-byte uuid unless SAME_UUID");
		if (verif_k + 1 < (unsigned long long)nr) {
			CHECK(!(fl & SPEC_FLAG_LAST_TAG), "no tag is counted after a LAST_TAG");
			REACH("inner tag");
		} else {
			CHECK((fl & SPEC_FLAG_LAST_TAG) || verif_g1 + T > S, "counting stops only at LAST_TAG or when the next tag would not fit");
			REACH("final tag");
		}
	}
	REACH("end");
}
