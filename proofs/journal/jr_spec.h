/*
 * Shared by the recovery.c units (C03/C04): builds one journal_t + journal superblock + one journal
 * buffer from IN.  The same file serves the e2fsck environment and the debugfs one (-DDEBUGFS);
 * jfs_user.h switches struct buffer_head / kdev_s accordingly.
 *
 * Spec helpers here are written from the on-disk format (lib/ext2fs/kernel-jbd.h comments and the
 * kernel's Documentation/filesystems/ext4/journal.rst), over raw bytes, not via the code's structs.
 */
#include "verif.h"
#include "jfs_user.h"	/* types first, so that contracts can be written before the real file is included */

/* feature bits in host order (the superblock stores them big-endian) */
#define SPEC_INCOMPAT_64BIT   0x2u
#define SPEC_INCOMPAT_CSUM_V2 0x8u
#define SPEC_INCOMPAT_CSUM_V3 0x10u

/* big-endian decoding of on-disk fields from raw bytes */
#define SPEC_BE16(p) ((unsigned int)(((const unsigned char *)(p))[0]) << 8 | (unsigned int)(((const unsigned char *)(p))[1]))
#define SPEC_BE32(p) ((unsigned int)(((const unsigned char *)(p))[0]) << 24 | (unsigned int)(((const unsigned char *)(p))[1]) << 16 | \
		      (unsigned int)(((const unsigned char *)(p))[2]) << 8 | (unsigned int)(((const unsigned char *)(p))[3]))
#define SPEC_BE64(p) ((unsigned long long)SPEC_BE32(p) << 32 | (unsigned long long)SPEC_BE32(((const unsigned char *)(p)) + 4))

/* features only exist in a version-2 journal superblock */
#define SPEC_HAS(ver, incompat, bit) ((ver) >= 2 && ((incompat) & (bit)) != 0)

/*
 * On-disk size of one block tag (journal.rst "Descriptor Block"):
 *   csum v3: journal_block_tag3_t, always 16 bytes (blocknr, flags, blocknr_high, checksum);
 *   else journal_block_tag_t: 8 bytes (blocknr, checksum16, flags16), +4 (blocknr_high) with 64BIT,
 *   and csum v2 journals carry 2 extra bytes per tag (historic layout quirk of the v2 format).
 */
static unsigned int spec_tag_bytes(int ver, unsigned int incompat)
{
	if (SPEC_HAS(ver, incompat, SPEC_INCOMPAT_CSUM_V3))
		return 16;
	return 8 + (SPEC_HAS(ver, incompat, SPEC_INCOMPAT_64BIT) ? 4 : 0) +
		(SPEC_HAS(ver, incompat, SPEC_INCOMPAT_CSUM_V2) ? 2 : 0);
}

/* descriptor / revoke blocks of checksummed journals end in a 4-byte checksum tail */
static unsigned int spec_csum_tail(int ver, unsigned int incompat)
{
	return (SPEC_HAS(ver, incompat, SPEC_INCOMPAT_CSUM_V2) || SPEC_HAS(ver, incompat, SPEC_INCOMPAT_CSUM_V3)) ? 4 : 0;
}

/* target block number of a tag: bytes 0..3 big-endian, plus bytes 8..11 as the high word iff 64BIT */
static unsigned long long spec_tag_block(int ver, unsigned int incompat, const unsigned char *tag)
{
	unsigned long long b = SPEC_BE32(tag);
	if (SPEC_HAS(ver, incompat, SPEC_INCOMPAT_64BIT))
		b |= (unsigned long long)SPEC_BE32(tag + 8) << 32;
	return b;
}

/* tag flags live in bytes 6..7 (big-endian) in both tag layouts */
#define SPEC_TAG_FLAGS(blk, off) SPEC_BE16(((const unsigned char *)(blk)) + (off) + 6)
#define SPEC_FLAG_SAME_UUID 2u
#define SPEC_FLAG_LAST_TAG  8u

/* units with their own input record define JR_CUSTOM_IN and declare `IN` themselves after this header */
#ifndef JR_CUSTOM_IN
struct in_jr {
	unsigned char bs_log;		/* blocksize = 1024 << bs_log */
	int format_version;
	unsigned int incompat;		/* host-order feature word */
	unsigned long long k;		/* ghost index */
	unsigned int sequence;
	unsigned int r_count;
	unsigned char fill[16];		/* native replay: block content pattern */
	unsigned char tag[16];
	unsigned char choice[8];
	int nr_revokes;
	unsigned long long fail_at;	/* index of the stubbed callee call that reports an error */
	int fail_err;
};
struct in_jr IN;
#include "verif_in.h"
#endif

unsigned long long verif_k;
unsigned long long verif_g0, verif_g1, verif_g2, verif_g3, verif_g4, verif_g5, verif_g6, verif_g7;	/* generic ghost registers: meaning fixed per unit */

