/* VERIF-UNIT
{
 "name": "scan_revoke_records",
 "props": ["C03"],
 "level": "U",
 "tier": "quick",
 "harness": "h_scan_revoke",
 "enforce": ["scan_revoke_records"],
 "replace": ["jbd2_journal_set_revoke"],
 "loop_contracts": true,
 "includes": ["e2fsck"],
 "functions": ["e2fsck/recovery.c:scan_revoke_records"],
 "assumes": ["j_blocksize is a power of two in 1 KiB .. 64 KiB; the buffer holds exactly j_blocksize data bytes of arbitrary content (allocated as getblk() does)",
	     "j_format_version is 1 or 2",
	     "jbd2_journal_set_revoke replaced by a logging contract: records the arguments of call number verif_k, returns a non-zero error at exactly one harness-chosen call index (or never)",
	     "the statistics counter info->nr_revokes is in [0, INT_MAX - 16384] on entry (the code does not guard it: a journal with more than 2^31 revoke records would overflow this debug-only counter)"],
 "native": false
}
*/
/* VERIF-UNIT
{
 "name": "scan_revoke_records_debugfs",
 "props": ["C03"],
 "level": "U",
 "tier": "quick",
 "harness": "h_scan_revoke",
 "enforce": ["scan_revoke_records"],
 "replace": ["jbd2_journal_set_revoke"],
 "loop_contracts": true,
 "includes": ["e2fsck", "debugfs"],
 "defines": ["DEBUGFS"],
 "functions": ["e2fsck/recovery.c:scan_revoke_records"],
 "assumes": ["j_blocksize is a power of two in 1 KiB .. 64 KiB; the buffer holds exactly j_blocksize data bytes of arbitrary content (allocated as getblk() does)",
	     "j_format_version is 1 or 2",
	     "jbd2_journal_set_revoke replaced by a logging contract: records the arguments of call number verif_k, returns a non-zero error at exactly one harness-chosen call index (or never)",
	     "the statistics counter info->nr_revokes is in [0, INT_MAX - 16384] on entry (the code does not guard it: a journal with more than 2^31 revoke records would overflow this debug-only counter)"],
 "native": false
}
*/
/*
 * Revoke block decoding (C03 mechanism "scan_revoke_records()").
 *
 * On-disk format (kernel-jbd.h, journal.rst "Revocation Block"): 12-byte block header, be32 r_count = number of
 * bytes used in the block INCLUDING the 16-byte header, then an array of be32 (be64 iff INCOMPAT_64BIT) block
 * numbers; checksummed journals reserve the last 4 bytes of the block for the tail.
 * Spec, with H = 16, R = 4 or 8, U = blocksize - tail, rc = be32 at byte 12:
 *   rc > U                      => returns -EINVAL, set_revoke never called
 *   otherwise N = (rc < H + R) ? 0 : (rc - H) / R records; they are handed to jbd2_journal_set_revoke in order,
 *   record number k being the big-endian number at byte H + k*R, always with the caller's sequence;
 *   the first set_revoke error stops the scan and is returned; nr_revokes grows by the number of successful calls.
 * Ghost registers:
 *   verif_k  = ghost record index          verif_g0 = number of set_revoke calls made
 *   verif_g1 = block passed by call k      verif_g2 = sequence passed by call k
 *   verif_g3 = index of the failing call   verif_g4 = its error code (non-zero)
 *   verif_g5 = info->nr_revokes on entry   verif_g6 = big-endian record k decoded by the harness from the raw bytes
 * Reads: the loop contract's invariant keeps offset + R <= rc for every record read, and the buffer is exactly
 * blocksize bytes, so nothing beyond min(rc, U) is read (pointer checks + invariant).
 */
#include "jr_spec.h"
#include <errno.h>
#include <limits.h>

int jbd2_journal_set_revoke(journal_t *journal, unsigned long long blocknr, tid_t sequence)
	ASSIGNS(verif_g0, verif_g1, verif_g2)
	ENSURES(verif_g0 == OLD(verif_g0) + 1)
	ENSURES(OLD(verif_g0) == verif_k ? (verif_g1 == blocknr && verif_g2 == sequence)
					 : (verif_g1 == OLD(verif_g1) && verif_g2 == OLD(verif_g2)))
	ENSURES(RET == (OLD(verif_g0) == verif_g3 ? (int)verif_g4 : 0));

#define SR_INC(j)  SPEC_BE32(&(j)->j_superblock->s_feature_incompat)
#define SR_U(j)    ((unsigned int)(j)->j_blocksize - spec_csum_tail((j)->j_format_version, SR_INC(j)))
#define SR_R(j)    (SPEC_HAS((j)->j_format_version, SR_INC(j), SPEC_INCOMPAT_64BIT) ? 8u : 4u)
#define SR_RC(bh)  SPEC_BE32((bh)->b_data + 12)
/* number of whole records in [16, rc): constant divisors only */
#define SR_N(rc, R) ((rc) < 16u + (R) ? 0u : ((R) == 8u ? ((rc) - 16u) / 8u : ((rc) - 16u) / 4u))

#include "jr_build.h"

/* struct recovery_info is private to recovery.c: the contract goes on a re-declaration after the real file */
static int scan_revoke_records(journal_t *journal, struct buffer_head *bh, tid_t sequence, struct recovery_info *info)
	REQUIRES(journal->j_format_version == 1 || journal->j_format_version == 2)
	REQUIRES(journal->j_blocksize == 1024 || journal->j_blocksize == 2048 || journal->j_blocksize == 4096 ||
		 journal->j_blocksize == 8192 || journal->j_blocksize == 16384 || journal->j_blocksize == 32768 ||
		 journal->j_blocksize == 65536)
	REQUIRES(info->nr_revokes >= 0 && info->nr_revokes <= INT_MAX - 16384)
	REQUIRES(verif_g0 == 0 && verif_k < 0x10000 && verif_g4 != 0 && (int)verif_g4 != 0 && verif_g5 == (unsigned long long)info->nr_revokes)
	/* verif_g6 is record k, decoded from the raw bytes, whenever record k exists */
	REQUIRES(SR_RC(bh) > SR_U(journal) || verif_k >= SR_N(SR_RC(bh), SR_R(journal)) ||
		 verif_g6 == (SR_R(journal) == 8u ? SPEC_BE64(bh->b_data + 16 + verif_k * 8) : (unsigned long long)SPEC_BE32(bh->b_data + 16 + verif_k * 4)))
	/* oversized r_count */
	ENSURES(SR_RC(bh) <= SR_U(journal) || (RET == -EINVAL && verif_g0 == 0 && info->nr_revokes == (int)verif_g5))
	/* number of calls, result, statistics */
	ENSURES(SR_RC(bh) > SR_U(journal) || verif_g3 < SR_N(SR_RC(bh), SR_R(journal)) ||
		(RET == 0 && verif_g0 == SR_N(SR_RC(bh), SR_R(journal)) && info->nr_revokes == (int)verif_g5 + (int)verif_g0))
	ENSURES(SR_RC(bh) > SR_U(journal) || verif_g3 >= SR_N(SR_RC(bh), SR_R(journal)) ||
		(RET == (int)verif_g4 && verif_g0 == verif_g3 + 1 && info->nr_revokes == (int)verif_g5 + (int)verif_g3))
	/* what call number k received */
	ENSURES(verif_k >= verif_g0 || (verif_g1 == verif_g6 && verif_g2 == sequence))
	ASSIGNS(verif_g0, verif_g1, verif_g2, info->nr_revokes);


static struct recovery_info INFO;

void h_scan_revoke(void)
{
	build_journal();
	build_bh();
	ASSUME(IN.nr_revokes >= 0 && IN.nr_revokes <= INT_MAX - 16384);
	ASSUME(IN.fail_err != 0);
	INFO.nr_revokes = IN.nr_revokes;
	verif_k = IN.k;
	ASSUME(verif_k < 0x10000);	/* a 64 KiB block has fewer than 2^14 records: larger k are vacuous */
	verif_g0 = 0; verif_g1 = 0; verif_g2 = 0;
	verif_g3 = IN.fail_at;
	verif_g4 = (unsigned long long)IN.fail_err;
	verif_g5 = (unsigned long long)IN.nr_revokes;

	unsigned int U = BS - spec_csum_tail(IN.format_version, IN.incompat);
	unsigned int R = SPEC_HAS(IN.format_version, IN.incompat, SPEC_INCOMPAT_64BIT) ? 8 : 4;
	unsigned int rc = SPEC_BE32(BH->b_data + 12);
	unsigned int N = SR_N(rc, R);
	if (rc <= U && verif_k < N)
		verif_g6 = (R == 8) ? SPEC_BE64(BH->b_data + 16 + verif_k * 8) : (unsigned long long)SPEC_BE32(BH->b_data + 16 + verif_k * 4);
	else
		verif_g6 = 0;

	int r = scan_revoke_records(&J, BH, IN.sequence, &INFO);

	if (rc > U) {
		CHECK(r == -EINVAL && verif_g0 == 0, "r_count beyond the usable block size: -EINVAL, nothing revoked");
		REACH("einval");
	} else if (verif_g3 >= N) {
		CHECK(r == 0, "all records accepted: returns 0");
		CHECK(verif_g0 == N, "exactly the records in [16, r_count) are passed to set_revoke");
		CHECK(INFO.nr_revokes == IN.nr_revokes + (int)N, "nr_revokes counts the records");
		REACH("all records");
	} else {
		CHECK(r == IN.fail_err, "the first set_revoke error is returned");
		CHECK(verif_g0 == verif_g3 + 1, "the scan stops at the failing record");
		REACH("set_revoke error");
	}
	if (verif_k < verif_g0) {
		CHECK(rc <= U && verif_k < N, "record k lies inside [16, r_count)");
		CHECK(verif_g1 == verif_g6, "record k is decoded big-endian, 4 bytes (8 iff 64BIT) at 16 + k*R");
		CHECK(verif_g2 == IN.sequence, "every record is revoked with the sequence of the revoke block's transaction");
		REACH("record k");
	}
	REACH("end");
}
