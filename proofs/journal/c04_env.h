/*
 * Environment shared by the C04 units on the two journal front ends (e2fsck/journal.c, debugfs/journal.c).
 * PART 1 (before the real file): input record, ghost state of the device model.
 * PART 2 (#define C04_PART2, after the real file): stub io manager (the monitor), callees from other translation units.
 *
 * Device model (written from the property statement): a block written through an io channel is NOT durable until a flush
 * of that channel has completed successfully.
 *   g_unflushed_fs   = number of filesystem block writes (replayed blocks) not yet followed by a successful flush of the
 *                      filesystem channel
 *   journal superblock write with s_start == 0 ("journal is empty", be32 at byte 28 of the block)  -> monitor event:
 *                      C04 demands g_unflushed_fs == 0 at that moment.
 */
#ifndef C04_ENV_H
#define C04_ENV_H
#include "verif.h"

struct in_c04 {
	unsigned char bs4k;
	int options;			/* ctx->options (e2fsck) */
	unsigned int fs_flags;		/* fs->flags (debugfs) */
	unsigned char same_io;		/* journal on the filesystem's own channel (internal journal) */
	int kdev_is_fs;
	long flush_ret[2], write_ret[4], read_ret[2], close_ret;
	int rc_cache1, rc_cache2, rc_revoke;
	long rc_get, rc_load;
	int recover_ret;
	unsigned int unflushed_after_failure;
	unsigned int tseq, failed_commit, tail_sequence;
	unsigned char jsb[64];		/* start of the journal superblock */
	int rw, nr;
	unsigned char dirty, uptodate;
	unsigned long long blocknr;
	int reset, drop;
	unsigned int incompat;
	int format_version;
};
struct in_c04 IN;
#include "verif_in.h"
unsigned long long verif_k;

/* ghost device model / call log */
unsigned int g_unflushed_fs;		/* see above */
unsigned int g_unflushed_j;		/* same for the journal channel when it is a separate one */
unsigned int g_flushes, g_writes, g_reads, g_closes;
void *g_flush_ch, *g_write_ch, *g_read_ch;
unsigned long long g_write_blk, g_read_blk;
const void *g_write_buf, *g_read_buf;
int g_write_count;
unsigned int g_jsb_writes;		/* writes of the journal superblock block */
unsigned int g_jsb_empty_writes;	/* ... with s_start == 0 */
unsigned int g_empty_while_unflushed;	/* ... issued while replayed blocks were not known durable (the C04 violation) */
const void *g_jsb_data;			/* where the journal superblock lives (harness) */
unsigned int g_jsb_seq, g_jsb_start;	/* s_sequence / s_start of the latest journal superblock write */
void *g_jsb_ch;
int g_recover_calls;
int g_recover_ret;

#define SPEC_BE32(p) ((unsigned int)(((const unsigned char *)(p))[0]) << 24 | (unsigned int)(((const unsigned char *)(p))[1]) << 16 | \
		      (unsigned int)(((const unsigned char *)(p))[2]) << 8 | (unsigned int)(((const unsigned char *)(p))[3]))
#define SPEC_JSB_START_OFF 28		/* journal.rst: s_start, "block number of the start of log; zero: journal is empty" */
#define SPEC_JSB_SEQUENCE_OFF 24
#endif

#ifdef C04_PART2
static struct struct_io_manager MGR;
static struct struct_io_channel FSCH, JCH;
static unsigned int n_flush, n_write, n_read;

static errcode_t st_flush(io_channel ch)
{
	errcode_t r = IN.flush_ret[n_flush < 2 ? n_flush : 1];
	n_flush++;
	g_flushes++;
	g_flush_ch = ch;
	if (r == 0) {
		if (ch == &FSCH) g_unflushed_fs = 0;
		if (ch == &JCH || (IN.same_io & 1)) g_unflushed_j = 0;
	}
	return r;
}
static errcode_t st_close(io_channel ch) { g_closes++; return IN.close_ret; }
errcode_t io_channel_write_blk64(io_channel ch, unsigned long long block, int count, const void *buf)
{
	errcode_t r = IN.write_ret[n_write < 4 ? n_write : 3];
	n_write++;
	g_writes++;
	g_write_ch = ch; g_write_blk = block; g_write_count = count; g_write_buf = buf;
	if (buf == g_jsb_data) {
		g_jsb_writes++;
		g_jsb_ch = ch;
		g_jsb_seq = SPEC_BE32((const unsigned char *)buf + SPEC_JSB_SEQUENCE_OFF);
		g_jsb_start = SPEC_BE32((const unsigned char *)buf + SPEC_JSB_START_OFF);
		if (SPEC_BE32((const unsigned char *)buf + SPEC_JSB_START_OFF) == 0) {
			g_jsb_empty_writes++;
			if (g_unflushed_fs != 0)
				g_empty_while_unflushed++;
#ifndef C04_OBSERVE_ONLY
			CHECK(g_unflushed_fs == 0, "C04: the journal superblock goes out with s_start == 0 only when every replayed block is known durable");
#endif
		}
	}
	return r;
}
errcode_t io_channel_read_blk64(io_channel ch, unsigned long long block, int count, void *buf)
{
	errcode_t r = IN.read_ret[n_read < 2 ? n_read : 1];
	n_read++;
	g_reads++;
	g_read_ch = ch; g_read_blk = block; g_read_buf = buf;
	return r;
}
void com_err(const char *whoami, errcode_t code, const char *fmt, ...) { }
char *gettext(const char *msgid) { return (char *)msgid; }
__u32 ext2fs_crc32c_le(__u32 crc, unsigned char const *p, size_t len) { __u32 out; return out; }
int printf(const char *fmt, ...) { return 0; }

static void env_init(void)
{
	/* (the contract instrumentation starts every static object with an arbitrary value: initialise explicitly) */
	n_flush = n_write = n_read = 0;
	g_unflushed_fs = g_unflushed_j = 0;
	g_flushes = g_writes = g_reads = g_closes = 0;
	g_flush_ch = g_write_ch = g_read_ch = 0;
	g_write_buf = g_read_buf = 0; g_write_blk = g_read_blk = 0; g_write_count = 0;
	g_jsb_writes = g_jsb_empty_writes = g_empty_while_unflushed = 0;
	g_jsb_data = 0; g_jsb_seq = g_jsb_start = 0; g_jsb_ch = 0;
	g_recover_calls = 0; g_recover_ret = 0;
	MGR.flush = st_flush;
	MGR.close = st_close;
	FSCH.manager = &MGR; JCH.manager = &MGR;
	FSCH.magic = JCH.magic = EXT2_ET_MAGIC_IO_CHANNEL;
	FSCH.block_size = JCH.block_size = (IN.bs4k & 1) ? 4096 : 1024;
}
#endif
