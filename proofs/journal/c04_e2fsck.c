/* VERIF-UNIT
{
 "name": "fe_sync_blockdev",
 "props": ["C04"],
 "level": "U",
 "tier": "quick",
 "harness": "h_sync",
 "includes": ["e2fsck"],
 "functions": ["e2fsck/journal.c:sync_blockdev"],
 "assumes": ["no frame enforcement (the flush goes through the manager's function pointer): statements are harness checks", "stub io manager: flush returns a harness-chosen code and, when that is 0, resets the ghost count of unflushed writes of its channel (meaning of a successful io_channel_flush: unix_flush, C17)"],
 "native": false
}
*/
/* VERIF-UNIT
{
 "name": "fe_ll_rw_block",
 "props": ["C04"],
 "level": "U/k",
 "tier": "quick",
 "harness": "h_llrw",
 "includes": ["e2fsck"],
 "unwind": 2,
 "unwind_reason": "ll_rw_block is only ever called with nr == 1 (brelse, wait_on_buffer, e2fsck_journal_load, e2fsck_journal_reset_super): one iteration",
 "functions": ["e2fsck/journal.c:ll_rw_block", "e2fsck/journal.c:mark_buffer_dirty"],
 "assumes": ["nr == 1 (all call sites); io_channel_read_blk64 / io_channel_write_blk64 are stubs returning harness-chosen codes and logging their arguments; no frame enforcement (bit-field flags), statements are harness checks"],
 "native": false
}
*/
/* VERIF-UNIT
{
 "name": "fe_brelse",
 "props": ["C04"],
 "level": "U/k",
 "tier": "quick",
 "harness": "h_brelse",
 "includes": ["e2fsck"],
 "unwind": 2,
 "unwind_reason": "brelse calls ll_rw_block with nr == 1",
 "functions": ["e2fsck/journal.c:brelse", "e2fsck/journal.c:ll_rw_block", "e2fsck/journal.c:mark_buffer_dirty"],
 "assumes": ["same stubs as fe_ll_rw_block; the buffer is freed by brelse (ext2fs_free_mem), so the statements are about the write log"],
 "native": false
}
*/
/* VERIF-UNIT
{
 "name": "fe_recover_ext3_journal_ok",
 "props": ["C04"],
 "level": "P",
 "tier": "quick",
 "harness": "h_recover_order",
 "replace": ["e2fsck_get_journal", "e2fsck_journal_load"],
 "includes": ["e2fsck"],
 "defines": ["C04_OBSERVE_ONLY"],
 "unwind": 2,
 "unwind_reason": "brelse calls ll_rw_block with nr == 1",
 "functions": ["e2fsck/journal.c:recover_ext3_journal", "e2fsck/journal.c:e2fsck_journal_release", "e2fsck/journal.c:brelse", "e2fsck/journal.c:ll_rw_block"],
 "assumes": ["e2fsck_get_journal replaced by a contract (error, or the journal object prepared by the harness: superblock buffer on the journal channel, two kdevs); e2fsck_journal_load replaced by a contract (arbitrary result, arbitrary superblock contents and sequence fields)",
	     "jbd2_journal_recover is a stub obeying the contract proved in unit jbd2_journal_recover: result 0 => no unflushed filesystem write left (P6); a non-zero result leaves an arbitrary number of them",
	     "revoke-table set-up/tear-down, fix_problem, the io manager are stubs; the write stub is the monitor", "E2F_OPT_READONLY is clear (e2fsck_run_ext3_journal returns EXT2_ET_FILE_RO before calling recover_ext3_journal otherwise: unit readonly/run_ext3_journal_ro); jbd2_journal_recover never returns INT_MIN (it returns 0 or a negated errno / com_err code)",
	     "this unit states the success path only: when jbd2_journal_recover returned 0 the journal superblock is written exactly once, with s_start == 0 and s_sequence == the id the recovery restarted the log at, while no replayed block is unflushed; the error path is unit fe_recover_ext3_journal_strict (FINDING release_after_failed_recover)"],
 "native": false
}
*/
/* VERIF-UNIT
{
 "name": "fe_recover_ext3_journal_strict",
 "props": ["C04"],
 "level": "P",
 "tier": "quick",
 "harness": "h_recover_order",
 "replace": ["e2fsck_get_journal", "e2fsck_journal_load"],
 "includes": ["e2fsck"],
 "unwind": 2,
 "unwind_reason": "brelse calls ll_rw_block with nr == 1",
 "functions": ["e2fsck/journal.c:recover_ext3_journal", "e2fsck/journal.c:e2fsck_journal_release"],
 "assumes": ["same as fe_recover_ext3_journal_ok, but the monitor in the write stub is active on every path: expected failing obligation (FINDING release_after_failed_recover, findings/C04_release_after_failed_recover)"],
 "native": false
}
*/
/* VERIF-UNIT
{
 "name": "fe_run_ext3_journal",
 "props": ["C04"],
 "level": "P",
 "tier": "quick",
 "harness": "h_run",
 "replace": ["recover_ext3_journal", "e2fsck_check_ext3_journal"],
 "includes": ["e2fsck"],
 "functions": ["e2fsck/journal.c:e2fsck_run_ext3_journal", "e2fsck/journal.c:e2fsck_clear_recover"],
 "assumes": ["recover_ext3_journal and e2fsck_check_ext3_journal replaced by contracts (arbitrary results; recover's PRECONDITION is the protocol: the filesystem still requests recovery and has not been re-opened yet); ext2fs_flush / ext2fs_mmp_stop / ext2fs_free / ext2fs_open are stubs (open hands out a second, harness-built ext2_filsys with an arbitrary superblock, or fails: then fatal_error ends the run); the manager has no get_stats method",
	     "E2F_OPT_READONLY clear (otherwise the function returns EXT2_ET_FILE_RO at once: unit readonly/run_ext3_journal_ro)"],
 "native": false
}
*/
/*
 * e2fsck front end, C04 "the journal is never marked empty on stable storage before every replayed block is durable".
 *
 * FINDING release_after_failed_recover: recover_ext3_journal() reaches `errout:` also when e2fsck_journal_load,
 * jbd2_journal_init_revoke or jbd2_journal_recover FAILED (including: replay done but sync_blockdev failed) and there calls
 * e2fsck_journal_release(ctx, journal, reset = 1, drop = 0), which sets s_start = 0 and writes the journal superblock.
 * The journal is thus marked empty although replayed blocks are not known durable (or were not replayed at all);
 * e2fsck_run_ext3_journal then also clears needs_recovery.  A second run cannot replay any more.
 * Confirmed natively: findings/C04_release_after_failed_recover/demo.sh (LD_PRELOAD device model, the flush of
 * jbd2_journal_recover fails once); proposed-fix.patch there releases with (reset = !retval, drop = !!retval).
 * Same code in debugfs/journal.c (recover_ext3_journal and the errout of ext2fs_open_journal): units fed_*.
 */
#include "c04_env.h"
#include "e2fsck/journal.c"
#define C04_PART2
#include "c04_env.h"

static struct struct_ext2_filsys FS;
static struct ext2_super_block SB;
static struct e2fsck_struct CTX;
static journal_t *PJ;			/* the journal e2fsck_get_journal hands out */
static struct buffer_head *PBH;		/* its superblock buffer */

/* ---- callees from other translation units ---- */
e2fsck_t e2fsck_global_ctx;
void *e2fsck_allocate_memory(e2fsck_t ctx, unsigned long size, const char *description)
{
	void *p = malloc(size);
	if (p)
		memset(p, 0, size);
	return p;
}
int fix_problem(e2fsck_t ctx, problem_t code, struct problem_context *pctx) { int r; return r != 0; }
void clear_problem_context(struct problem_context *pctx) { memset(pctx, 0, sizeof(*pctx)); }
void fatal_error(e2fsck_t ctx, const char *msg) { ASSUME(0); }
int jbd2_journal_init_revoke_record_cache(void) { return (int)IN.rc_cache1; }
int jbd2_journal_init_revoke_table_cache(void) { return (int)IN.rc_cache2; }
int jbd2_journal_init_revoke(journal_t *journal, int hash_size) { return (int)IN.rc_revoke; }
void jbd2_journal_destroy_revoke(journal_t *journal) { }
void jbd2_journal_destroy_revoke_record_cache(void) { }
void jbd2_journal_destroy_revoke_table_cache(void) { }
/* contract proved in unit jbd2_journal_recover (P6): 0 => every replayed block flushed */
int jbd2_journal_recover(journal_t *journal)
{
	g_recover_calls++;
	g_recover_ret = IN.recover_ret;
	journal->j_transaction_sequence = IN.tseq;
	journal->j_failed_commit = IN.failed_commit;
	g_unflushed_fs = IN.recover_ret == 0 ? 0 : IN.unflushed_after_failure;
	return IN.recover_ret;
}

/* ---- contracts of same-file callees that are replaced ---- */
static errcode_t e2fsck_get_journal(e2fsck_t ctx, journal_t **ret_journal)
	ASSIGNS(*ret_journal)
	ENSURES(RET == IN.rc_get && (RET != 0 || __CPROVER_pointer_equals(*ret_journal, PJ)));

static errcode_t e2fsck_journal_load(journal_t *journal)
	ASSIGNS(journal->j_format_version, journal->j_tail_sequence, journal->j_transaction_sequence, journal->j_tail,
		journal->j_first, journal->j_last, journal->j_total_len, journal->j_csum_seed,
		__CPROVER_object_from(journal->j_sb_buffer->b_data))
	ENSURES(RET == IN.rc_load && (journal->j_format_version == 1 || journal->j_format_version == 2));

static unsigned int BS;
static void build_ctx(void)
{
	LOAD_IN();
	env_init();
	BS = (IN.bs4k & 1) ? 4096 : 1024;
	FS.io = &FSCH;
	FS.super = &SB;
	FS.blocksize = BS;
	CTX.fs = &FS;
	CTX.options = IN.options;
	CTX.journal_io = (IN.same_io & 1) ? &FSCH : &JCH;
	CTX.device_name = "dev";
}
static struct buffer_head *build_bh(io_channel io)
{
	/* a whole struct buffer_head (4 KiB of data) also for 1 KiB blocks: none of the functions under test indexes b_data,
	 * and bit-field updates inside an object smaller than its struct type are very costly to encode */
	struct buffer_head *bh = malloc(sizeof(*bh));
	ASSUME(bh != 0);
	bh->b_ctx = &CTX;
	bh->b_io = io;
	bh->b_size = BS;
	bh->b_err = 0;
	bh->b_dirty = IN.dirty & 1;
	bh->b_uptodate = IN.uptodate & 1;
	bh->b_blocknr = IN.blocknr;
	return bh;
}

void h_sync(void)
{
	build_ctx();
	struct kdev_s dev;
	dev.k_ctx = &CTX;
	ASSUME(IN.kdev_is_fs == 0 || IN.kdev_is_fs == 1);
	dev.k_dev = IN.kdev_is_fs ? K_DEV_FS : K_DEV_JOURNAL;
	g_unflushed_fs = IN.unflushed_after_failure;
	unsigned int u0 = g_unflushed_fs;
	int r = sync_blockdev(&dev);
	CHECK(g_flushes == 1 && g_flush_ch == (IN.kdev_is_fs ? (void *)&FSCH : (void *)CTX.journal_io), "exactly one flush, of the device's channel");
	CHECK(r == (IN.flush_ret[0] ? -EIO : 0), "a flush error is reported as -EIO, success as 0");
	if (r == 0 && (IN.kdev_is_fs || (IN.same_io & 1))) {
		CHECK(g_unflushed_fs == 0, "sync_blockdev(fs) == 0 => no filesystem write is unflushed any more");
		REACH("flushed");
	}
	if (r != 0) {
		CHECK(g_unflushed_fs == u0, "a failed flush makes nothing durable");
		REACH("flush failed");
	}
	REACH("end");
}

void h_llrw(void)
{
	build_ctx();
	struct buffer_head *bh = build_bh((IN.same_io & 1) ? &FSCH : &JCH);
	ASSUME(IN.rw == REQ_OP_READ || IN.rw == REQ_OP_WRITE);
	if (IN.rw == REQ_OP_WRITE && (IN.uptodate & 2))	/* the way buffers get dirty */
		mark_buffer_dirty(bh);
	int dirty0 = bh->b_dirty, upd0 = bh->b_uptodate;
	CHECK(!(IN.rw == REQ_OP_WRITE && (IN.uptodate & 2)) || dirty0 == 1, "mark_buffer_dirty sets b_dirty");
	ll_rw_block(IN.rw, 0, 1, &bh);
	if (IN.rw == REQ_OP_WRITE && dirty0) {
		CHECK(g_writes == 1 && g_reads == 0 && g_write_ch == (void *)bh->b_io && g_write_blk == IN.blocknr && g_write_count == 1 &&
		      g_write_buf == (const void *)bh->b_data, "WRITE of a dirty buffer: exactly one write of (b_io, b_blocknr, 1 block, b_data)");
		if (IN.write_ret[0] == 0) {
			CHECK(bh->b_dirty == 0 && bh->b_uptodate == 1 && bh->b_err == 0, "written: clean and uptodate");
			REACH("written");
		} else {
			CHECK(bh->b_dirty == 1 && bh->b_err == (int)IN.write_ret[0], "write error: recorded in b_err, buffer stays dirty");
			REACH("write error");
		}
	} else if (IN.rw == REQ_OP_READ && !upd0) {
		CHECK(g_reads == 1 && g_writes == 0 && g_read_ch == (void *)bh->b_io && g_read_blk == IN.blocknr && g_read_buf == (void *)bh->b_data,
		      "READ of a stale buffer: exactly one read of (b_io, b_blocknr) into b_data");
		CHECK(bh->b_uptodate == (IN.read_ret[0] == 0) && bh->b_dirty == dirty0, "uptodate iff the read succeeded");
		REACH("read");
	} else {
		CHECK(g_reads == 0 && g_writes == 0 && bh->b_dirty == dirty0 && bh->b_uptodate == upd0, "nothing to do: no I/O, flags unchanged");
		REACH("no-op");
	}
	REACH("end");
}

void h_brelse(void)
{
	build_ctx();
	struct buffer_head *bh = build_bh((IN.same_io & 1) ? &FSCH : &JCH);
	int dirty0 = bh->b_dirty;
	io_channel io = bh->b_io;
	const void *data = bh->b_data;
	brelse(bh);
	if (dirty0) {
		CHECK(g_writes == 1 && g_write_ch == (void *)io && g_write_blk == IN.blocknr && g_write_buf == data, "brelse of a dirty buffer writes it (once)");
		REACH("dirty written");
	} else {
		CHECK(g_writes == 0, "brelse of a clean buffer writes nothing");
		REACH("clean");
	}
	CHECK(g_reads == 0 && g_flushes == 0, "brelse neither reads nor flushes");
	REACH("end");
}

void h_recover_order(void)
{
	build_ctx();
	/* the journal object as e2fsck_get_journal builds it */
	PJ = malloc(sizeof(journal_t));
	struct kdev_s *dev = malloc(2 * sizeof(struct kdev_s));
	ASSUME(PJ && dev);
	memset(PJ, 0, sizeof(*PJ));
	dev[0].k_ctx = dev[1].k_ctx = &CTX;
	dev[0].k_dev = K_DEV_FS; dev[1].k_dev = K_DEV_JOURNAL;
	PJ->j_fs_dev = &dev[0]; PJ->j_dev = &dev[1];
	PJ->j_blocksize = BS;
	IN.dirty = 0;
	PBH = build_bh(CTX.journal_io);
	PJ->j_sb_buffer = PBH;
	PJ->j_superblock = (journal_superblock_t *)PBH->b_data;
	g_jsb_data = PBH->b_data;
	g_unflushed_fs = 0;
	io_channel jio = CTX.journal_io;
	/* call sites: e2fsck_run_ext3_journal returns EXT2_ET_FILE_RO before getting here when E2F_OPT_READONLY is set
	 * (unit readonly/run_ext3_journal_ro); jbd2_journal_recover returns 0 or the negative of an errno / com_err code */
	ASSUME(!(IN.options & E2F_OPT_READONLY));
	ASSUME(IN.recover_ret > -0x7fffffff - 1);

	errcode_t r = recover_ext3_journal(&CTX);

	int released = (IN.rc_cache1 == 0 && IN.rc_cache2 == 0 && IN.rc_get == 0);
	int recovered = released && IN.rc_load == 0 && IN.rc_revoke == 0;
	CHECK(g_recover_calls == (recovered ? 1 : 0), "the journal is replayed iff it could be opened, loaded and the revoke table set up");
	if (recovered && IN.recover_ret == 0) {
		CHECK(r == 0, "success is reported");
		CHECK(g_jsb_writes == 1 && g_jsb_empty_writes == 1, "after a successful replay the journal superblock is written once, marked empty");
		CHECK(g_empty_while_unflushed == 0, "C04: ... and at that moment no replayed block is unflushed");
		CHECK(g_jsb_ch == (void *)jio && g_jsb_seq == IN.tseq, "... on the journal's channel, with s_sequence == the id the recovery restarted the log at");
		REACH("replayed and released");
	}
	if (recovered && IN.recover_ret != 0) {
		CHECK(r != 0, "a failed replay is reported");
		REACH("replay failed");
	}
#ifndef C04_OBSERVE_ONLY
	CHECK(g_jsb_empty_writes == 0 || (g_recover_calls == 1 && g_recover_ret == 0),
	      "C04: the journal is marked empty only after a replay that reported success");
#endif
	REACH("end");
}

/* ================= e2fsck_run_ext3_journal: needs_recovery is cleared only after the replay returned and the filesystem
 * was re-opened; a failed replay costs the filesystem its VALID flag (=> full check) ================= */
static struct struct_ext2_filsys FS2;
static struct ext2_super_block SB2;
int g_run_recover_calls, g_run_opens, g_run_checks, g_run_frees, g_run_order_ok;
long g_run_recover_ret, g_run_check_ret;

static errcode_t recover_ext3_journal(e2fsck_t ctx)
	REQUIRES(g_run_recover_calls == 0 && g_run_opens == 0 && ctx->fs == &FS)
	REQUIRES((ctx->fs->super->s_feature_incompat & EXT3_FEATURE_INCOMPAT_RECOVER) != 0)	/* still requesting recovery */
	ASSIGNS(g_run_recover_calls)
	ENSURES(g_run_recover_calls == 1 && RET == g_run_recover_ret);

errcode_t e2fsck_check_ext3_journal(e2fsck_t ctx)
	REQUIRES(g_run_recover_calls == 1 && g_run_opens == 1 && ctx->fs == &FS2)
	REQUIRES((ctx->fs->super->s_feature_incompat & EXT3_FEATURE_INCOMPAT_RECOVER) == 0)
	ASSIGNS(g_run_checks)
	ENSURES(g_run_checks == OLD(g_run_checks) + 1 && RET == g_run_check_ret);

errcode_t ext2fs_flush(ext2_filsys fs) { return 0; }
errcode_t ext2fs_mmp_stop(ext2_filsys fs) { return 0; }
void ext2fs_free(ext2_filsys fs)
{
	CHECK(g_run_recover_calls == 1 && fs == &FS, "the old filesystem handle is dropped only after the replay returned");
	g_run_frees++;
}
errcode_t ext2fs_open(const char *name, int flags, int superblock, unsigned int block_size, io_manager manager, ext2_filsys *ret_fs)
{
	CHECK(g_run_recover_calls == 1 && g_run_frees == 1, "re-open comes after the replay and after the old handle was dropped");
	g_run_opens++;
	if (IN.rc_get)
		return IN.rc_get;
	*ret_fs = &FS2;
	return 0;
}

void h_run(void)
{
	build_ctx();
	ASSUME(!(IN.options & E2F_OPT_READONLY));
	ASSUME(IN.rc_load >= 0 && IN.rc_load < 0x7fffffffL && IN.close_ret >= 0 && IN.close_ret < 0x7fffffffL);	/* errcode_t values */
	g_run_recover_calls = g_run_opens = g_run_checks = g_run_frees = 0;
	g_run_recover_ret = IN.rc_load;
	g_run_check_ret = IN.close_ret;
	MGR.get_stats = 0;
	memset(&SB, 0, sizeof(SB));
	SB.s_feature_incompat = IN.incompat | EXT3_FEATURE_INCOMPAT_RECOVER;	/* the caller's reason to run the journal */
	SB.s_state = (__u16)IN.tseq;
	FS.flags = IN.fs_flags & ~EXT2_FLAG_DIRTY;
	CTX.filesystem_name = "dev";
	CTX.program_name = "e2fsck";
	/* what ext2fs_open finds on disk afterwards: an arbitrary superblock (normally still flagged needs_recovery) */
	FS2.io = &FSCH; FS2.super = &SB2; FS2.blocksize = BS; FS2.flags = IN.fs_flags;
	memset(&SB2, 0, sizeof(SB2));
	SB2.s_feature_incompat = IN.failed_commit;
	SB2.s_state = (__u16)IN.tail_sequence;
	unsigned int old_incompat = SB.s_feature_incompat;

	errcode_t r = e2fsck_run_ext3_journal(&CTX);

	CHECK(g_run_recover_calls == 1 && g_run_opens == 1 && g_run_checks == 1, "replay once, re-open once, final journal check once");
	CHECK(SB.s_feature_incompat == old_incompat, "the superblock image the replay ran under is never edited (needs_recovery stays set in it)");
	CHECK(CTX.fs == &FS2, "the context continues on the re-opened filesystem");
	CHECK(!(SB2.s_feature_incompat & EXT3_FEATURE_INCOMPAT_RECOVER), "needs_recovery is cleared in the re-opened superblock");
	CHECK((FS2.flags & EXT2_FLAG_DIRTY) && (FS2.flags & EXT2_FLAG_MASTER_SB_ONLY), "... which is marked dirty (primary superblock only)");
	if (IN.rc_load != 0) {
		CHECK(!(SB2.s_state & EXT2_VALID_FS), "a failed replay takes EXT2_VALID_FS away: a full check is forced");
		CHECK(r != 0, "and the error is reported");
		REACH("replay failed");
	} else {
		CHECK((SB2.s_state & EXT2_VALID_FS) == ((__u16)IN.tail_sequence & EXT2_VALID_FS), "a successful replay leaves EXT2_VALID_FS as found on disk");
		CHECK(r == IN.close_ret, "result: that of the final journal check");
		REACH("replay ok");
	}
	REACH("end");
}
