/* VERIF-UNIT
{
 "name": "revoke_set_test",
 "props": ["C03"],
 "level": "U",
 "tier": "quick",
 "harness": "h_revoke_single",
 "enforce": ["jbd2_journal_set_revoke", "jbd2_journal_test_revoke"],
 "replace": ["find_revoke_record", "insert_revoke_hash"],
 "includes": ["e2fsck"],
 "functions": ["e2fsck/revoke.c:jbd2_journal_set_revoke", "e2fsck/revoke.c:jbd2_journal_test_revoke", "lib/ext2fs/kernel-jbd.h:tid_gt"],
 "assumes": ["the hash table is seen through the single-block view (present, seq) of one arbitrary ghost block number; find_revoke_record / insert_revoke_hash are replaced by contracts over that view (their own behaviour on real chains: units revoke_find_B4 / revoke_insert_B4, bounded)",
	     "at most one record per block number exists in the table (established by set_revoke itself: it only inserts after a failed lookup)"],
 "native": false
}
*/
/* VERIF-UNIT
{
 "name": "revoke_history",
 "props": ["C03"],
 "level": "P",
 "tier": "quick",
 "harness": "h_revoke_history",
 "replace": ["jbd2_journal_set_revoke", "jbd2_journal_test_revoke"],
 "includes": ["e2fsck"],
 "functions": ["e2fsck/revoke.c:jbd2_journal_set_revoke", "e2fsck/revoke.c:jbd2_journal_test_revoke"],
 "assumes": ["same single-block view as revoke_set_test; the history is three set_revoke calls with arbitrary block numbers and sequences on an arbitrary initial view, followed by one test_revoke (longer histories follow by induction from revoke_set_test)"],
 "native": false
}
*/
/* VERIF-UNIT
{
 "name": "revoke_find_insert_B4",
 "props": ["C03"],
 "level": "B(4)",
 "tier": "quick",
 "harness": "h_revoke_chain",
 "unwind": 6,
 "unwind_reason": "BOUNDED stand-in: hash chains of at most 4 records (chain length is unbounded in reality); 6 covers the 4+1 records walked after an insert and the harness loops",
 "includes": ["e2fsck"],
 "defines": ["RV_CHAIN_MAX=4"],
 "functions": ["e2fsck/revoke.c:find_revoke_record", "e2fsck/revoke.c:insert_revoke_hash", "e2fsck/revoke.c:hash"],
 "assumes": ["bounded: one hash bucket with a chain of at most 4 records; table shrunk to 4 buckets (hash_shift 2; the front ends use 1024) to keep the query small; other buckets are never touched (left uninitialised)",
	     "bounded: the block number looked up / inserted is below 16 (the records already in the chain carry arbitrary 64-bit numbers)"],
 "native": false
}
*/
/* VERIF-UNIT
{
 "name": "revoke_set_test_debugfs",
 "props": ["C03"],
 "level": "U",
 "tier": "quick",
 "harness": "h_revoke_single",
 "enforce": ["jbd2_journal_set_revoke", "jbd2_journal_test_revoke"],
 "replace": ["find_revoke_record", "insert_revoke_hash"],
 "includes": ["e2fsck", "debugfs"],
 "defines": ["DEBUGFS"],
 "functions": ["e2fsck/revoke.c:jbd2_journal_set_revoke", "e2fsck/revoke.c:jbd2_journal_test_revoke", "lib/ext2fs/kernel-jbd.h:tid_gt"],
 "assumes": ["same as revoke_set_test, debugfs include environment"],
 "native": false
}
*/
/* VERIF-UNIT
{
 "name": "revoke_history_debugfs",
 "props": ["C03"],
 "level": "P",
 "tier": "quick",
 "harness": "h_revoke_history",
 "replace": ["jbd2_journal_set_revoke", "jbd2_journal_test_revoke"],
 "includes": ["e2fsck", "debugfs"],
 "defines": ["DEBUGFS"],
 "functions": ["e2fsck/revoke.c:jbd2_journal_set_revoke", "e2fsck/revoke.c:jbd2_journal_test_revoke"],
 "assumes": ["same as revoke_history, debugfs include environment"],
 "native": false
}
*/
/*
 * Revoke table during recovery (C03 mechanism: "a block is skipped when a revoke record with sequence >= the
 * transaction being replayed exists").
 *
 * Abstract view for ONE ghost block number g_bstar: (present, seq), represented concretely by the ghost pointer
 * g_rec to "the" record of g_bstar (NULL = absent; seq = g_rec->sequence).
 * Property text -> contracts:
 *   set_revoke(b, s): other blocks' view untouched; for b == b*: afterwards present, and the stored sequence is the
 *     tid-maximum of the old stored sequence (if any) and s  => by induction the maximum of all sequences set for b;
 *   test_revoke(b, s) for b == b*: true iff present and NOT tid_gt(s, seq): a revoke in that or a LATER transaction
 *     cancels the block; a block of a transaction AFTER the last revoke is replayed.
 * tid order (kernel definition, wrap-around): x is after y iff the forward distance (x - y) mod 2^32 lies in
 * [1, 2^31 - 1]  (written here without the code's int cast).
 */
#include "verif.h"

struct in_rv {
	unsigned long long bstar;
	unsigned char present;
	unsigned int seq;
	unsigned long long blk[3];
	unsigned int s[3];
	unsigned int which;
	unsigned long long tblk;
	unsigned int ts;
	/* chain unit */
	unsigned char n;
	unsigned long long rec_blk[4];
	unsigned int rec_seq[4];
};
struct in_rv IN;
#include "verif_in.h"

#include "e2fsck/revoke.c"

unsigned long long g_bstar;			/* the ghost block number */
int g_present;					/* view: a record for g_bstar exists ... */
struct jbd2_revoke_record_s *g_rec;		/* ... and this is where it lives (a fixed, always valid slot: the
						 * lookup returns it iff g_present; "inserting" g_bstar fills it) */

static int spec_tid_gt(unsigned int x, unsigned int y)
{
	unsigned int d = x - y;		/* forward distance modulo 2^32 */
	return d >= 1u && d <= 0x7fffffffu;
}
static unsigned int spec_tid_max(unsigned int stored, unsigned int s)
{
	return spec_tid_gt(s, stored) ? s : stored;
}

#define VIEW_PRESENT (g_present != 0)
#define VIEW_SEQ (g_rec->sequence)
#define VIEW_UNCHANGED (g_present == OLD(g_present) && (!g_present || g_rec->sequence == OLD(g_rec->sequence)))

/* ---- callee contracts over the view (replace) ---- */
static struct jbd2_revoke_record_s *find_revoke_record(journal_t *journal, unsigned long long blocknr)
	ASSIGNS()
	ENSURES(blocknr == g_bstar ? RET == (g_present ? g_rec : (struct jbd2_revoke_record_s *)0)
				   : (RET == 0 || (FRESH(RET, sizeof(struct jbd2_revoke_record_s)) && RET->blocknr == blocknr)));

static int insert_revoke_hash(journal_t *journal, unsigned long long blocknr, tid_t seq)
	REQUIRES(blocknr != g_bstar || !g_present)	/* call site: only after a failed lookup */
	ASSIGNS(g_present, g_rec->sequence, g_rec->blocknr)
	ENSURES(RET == 0 || RET == -ENOMEM)
	ENSURES((blocknr == g_bstar && RET == 0)
		? (g_present == 1 && g_rec->blocknr == blocknr && g_rec->sequence == seq)
		: (g_present == OLD(g_present) && g_rec->sequence == OLD(g_rec->sequence) && g_rec->blocknr == OLD(g_rec->blocknr)));

/* ---- the functions under contract ---- */
int jbd2_journal_set_revoke(journal_t *journal, unsigned long long blocknr, tid_t sequence)
	REQUIRES(g_present == 0 || g_present == 1)
	ASSIGNS(g_present, g_rec->sequence, g_rec->blocknr)
	ENSURES(RET == 0 || RET == -ENOMEM)
	ENSURES(g_present == 0 || g_present == 1)
	ENSURES(blocknr == g_bstar || VIEW_UNCHANGED)
	ENSURES(!(blocknr == g_bstar && RET == 0) ||
		(VIEW_PRESENT && VIEW_SEQ == (OLD(g_present) ? spec_tid_max(OLD(g_rec->sequence), sequence) : sequence)))
	ENSURES(RET == 0 || (VIEW_UNCHANGED && !(blocknr == g_bstar && OLD(g_present))));

int jbd2_journal_test_revoke(journal_t *journal, unsigned long long blocknr, tid_t sequence)
	ASSIGNS()
	ENSURES(RET == 0 || RET == 1)
	ENSURES(blocknr != g_bstar || (RET != 0) == (VIEW_PRESENT && !spec_tid_gt(sequence, VIEW_SEQ)));

static journal_t J;

static int old_present;		/* harness-side copy of the view before a call */
static unsigned int old_seq;

static void build_view(void)
{
	LOAD_IN();
	g_bstar = IN.bstar;
	g_rec = malloc(sizeof(*g_rec));
	ASSUME(g_rec != 0);
	g_present = IN.present & 1;
	if (g_present) {
		g_rec->blocknr = g_bstar;
		g_rec->sequence = IN.seq;
	}
}
static void snapshot(void)
{
	old_present = g_present;
	old_seq = g_rec->sequence;
}
#define H_UNCHANGED (g_present == old_present && (!g_present || g_rec->sequence == old_seq))

void h_revoke_single(void)
{
	build_view();
	snapshot();
	if (IN.which & 1) {
		int r = jbd2_journal_set_revoke(&J, IN.blk[0], IN.s[0]);
		if (IN.blk[0] != g_bstar) {
			CHECK(H_UNCHANGED, "set_revoke of another block leaves this block's revoke state alone");
			REACH("set other");
		} else if (r == 0) {
			CHECK(VIEW_PRESENT, "after set_revoke(b, s) a record for b exists");
			CHECK(g_rec->sequence == (old_present ? spec_tid_max(old_seq, IN.s[0]) : IN.s[0]),
			      "the stored sequence is the tid-maximum of the previous one and s");
			CHECK(!spec_tid_gt(IN.s[0], g_rec->sequence), "the stored sequence is never before the one just set");
			REACH("set same");
		} else {
			CHECK(r == -ENOMEM && H_UNCHANGED && !old_present, "set_revoke fails only for lack of memory, changing nothing");
			REACH("set enomem");
		}
	} else {
		int r = jbd2_journal_test_revoke(&J, IN.tblk, IN.ts);
		CHECK(H_UNCHANGED, "test_revoke changes nothing");
		if (IN.tblk == g_bstar) {
			CHECK((r != 0) == (VIEW_PRESENT && !spec_tid_gt(IN.ts, g_rec->sequence)),
			      "revoked iff a revoke record of that or a later transaction exists");
			if (r) REACH("test hit");
			else if (VIEW_PRESENT) REACH("test later transaction");
			else REACH("test absent");
		}
	}
	REACH("end");
}

/* three arbitrary set_revoke calls, then the question the replay pass asks */
void h_revoke_history(void)
{
	build_view();
	int have = VIEW_PRESENT;
	unsigned int max = have ? g_rec->sequence : 0;	/* spec-side fold over the calls for b* */
#define HSTEP(i) do { snapshot(); \
		int r = jbd2_journal_set_revoke(&J, IN.blk[i], IN.s[i]); \
		if (IN.blk[i] == g_bstar && r == 0) { \
			max = have ? spec_tid_max(max, IN.s[i]) : IN.s[i]; \
			have = 1; \
		} } while (0)
	HSTEP(0);
	HSTEP(1);
	HSTEP(2);
	CHECK(VIEW_PRESENT == have, "a record exists iff some set_revoke for the block succeeded (or one existed before)");
	CHECK(!have || g_rec->sequence == max, "stored sequence = tid-maximum over all sequences set for the block");
	int t = jbd2_journal_test_revoke(&J, g_bstar, IN.ts);
	CHECK((t != 0) == (have && !spec_tid_gt(IN.ts, max)), "replay of (block, transaction ts) is cancelled iff a revoke in ts or a later transaction was recorded");
	if (t) REACH("cancelled");
	else if (have) REACH("replayed: logged after the last revoke");
	REACH("end");
}

/* ---- bounded: the real chain walkers on a real bucket ---- */
#ifndef RV_CHAIN_MAX
#define RV_CHAIN_MAX 4
#endif
static struct jbd2_revoke_table_s TBL;
static struct kmem_cache RCACHE;
static struct jbd2_revoke_record_s *REC[4];

void h_revoke_chain(void)
{
	LOAD_IN();
	ASSUME(IN.n <= RV_CHAIN_MAX);
	TBL.hash_size = 4;
	TBL.hash_shift = 2;
	TBL.hash_table = malloc(4 * sizeof(struct list_head));
	ASSUME(TBL.hash_table != 0);
	J.j_revoke = &TBL;
	RCACHE.object_size = sizeof(struct jbd2_revoke_record_s);
	jbd2_revoke_record_cache = &RCACHE;
	unsigned long long b = IN.tblk;
	ASSUME(b < 16);		/* bounded: keeps the 64-bit golden-ratio product inside hash() a small circuit */
	/* the bucket is the one the real hash() names (re-computing the golden-ratio product here would leave the solver
	 * with an equivalence proof of two 64-bit multipliers); what is checked about hash() itself is its range */
	unsigned int h = (unsigned int)hash(&J, b);
	CHECK(h < 4, "hash() names a bucket inside the table");
	struct list_head *head = &TBL.hash_table[h];
	head->next = head; head->prev = head;
	/* chain of n records with arbitrary contents, linked as list_add would (newest first) */
	for (int i = 0; i < RV_CHAIN_MAX; i++) {
		if (i >= IN.n) break;
		REC[i] = malloc(sizeof(struct jbd2_revoke_record_s));
		ASSUME(REC[i] != 0);
		REC[i]->blocknr = IN.rec_blk[i];
		REC[i]->sequence = IN.rec_seq[i];
		REC[i]->hash.next = head->next; REC[i]->hash.prev = head;
		head->next->prev = &REC[i]->hash; head->next = &REC[i]->hash;
	}
	/* spec: the first record in chain order (REC[n-1], ..., REC[0]) whose block number matches */
	struct jbd2_revoke_record_s *want = 0;
	for (int i = 0; i < RV_CHAIN_MAX; i++)
		if (i < IN.n && REC[i]->blocknr == b)
			want = REC[i];
	struct jbd2_revoke_record_s *got = find_revoke_record(&J, b);
	CHECK(got == want, "find returns the newest record of that block in its bucket, or NULL");
	if (IN.which & 1) {
		int r = insert_revoke_hash(&J, b, IN.ts);
		struct jbd2_revoke_record_s *got2 = find_revoke_record(&J, b);
		if (r != 0) {
			/* the allocator may fail (CBMC's malloc can return NULL) */
			CHECK(r == -ENOMEM && got2 == want, "insert fails only for lack of memory, and then leaves the chain alone");
			REACH("insert: out of memory");
		} else {
			CHECK(got2 != 0 && got2 != want && got2->blocknr == b && got2->sequence == IN.ts, "a lookup after insert finds the new record");
			CHECK(got2 != 0 && got2->hash.next == (IN.n ? &REC[IN.n - 1]->hash : head), "the old chain follows the new record unchanged");
		}
		REACH("insert");
	}
	if (want) REACH("found"); else REACH("not found");
	REACH("end");
}
