/* VERIF-UNIT
{
 "name": "do_one_pass_replay",
 "props": [
  "C03"
 ],
 "level": "U/iter",
 "tier": "thorough",
 "harness": "h_one_pass",
 "enforce": [
  "do_one_pass"
 ],
 "replace": [
  "count_tags",
  "scan_revoke_records",
  "calc_chksums",
  "fc_do_one_pass"
 ],
 "loop_contracts": true,
 "includes": [
  "e2fsck"
 ],
 "defines": [
  "VERIF_PASS_REPLAY",
  "VERIF_MAX_BS_LOG=6"
 ],
 "unwindset": {
  "do_one_pass.0": 2,
  "do_one_pass.1": 2
 },
 "unwind_reason": "do_one_pass.0 / .1 are the two loops AFTER the loop-contract transformation: each is executed exactly twice by construction (base case, then one arbitrary step from the havocked state, which ends in assume(false)); no real loop is unwound",
 "cbmc_flags": [
  "--no-signed-overflow-check",
  "--object-bits",
  "8"
 ],
 "timeout": 900,
 "functions": [
  "e2fsck/recovery.c:do_one_pass",
  "e2fsck/recovery.c:jread",
  "e2fsck/recovery.c:read_tag_block"
 ],
 "assumes": [
  "U/iter: the block loop `while (1)` and the tag loop are cut by safety/typing invariants (in-place named anchors VERIF_INV_DO_ONE_PASS_OUTER / _TAGS in e2fsck/recovery.c, text in this unit); every statement of the monitor holds for an ARBITRARY iteration started in ANY state satisfying the invariants; nothing is claimed about the accumulated effect of all iterations (which transactions are reached)",
  "one unit per pass (the pass argument is a constant, so that the other passes' branches drop out); j_blocksize is any power of two in 1 KiB .. 64 KiB (= fs block size); j_format_version is 1 or 2; all feature bits, superblock fields, recovery_info and all journal block contents are arbitrary; j_first / j_last / j_fc_first / j_fc_last fit in 32 bits (they are loaded from be32 superblock fields)",
  "callees inside recovery.c are REAL (jread, read_tag_block, the three jbd2 checksum verifiers, journal_tag_bytes, feature tests) except: count_tags (contract: >= 1, frame empty; unit count_tags), calc_chksums and scan_revoke_records (arbitrary result, frame only; scan_revoke_records: unit scan_revoke_records), fc_do_one_pass (fast-commit replay is outside this unit: arbitrary result, its own filesystem updates are not modelled)",
  "everything outside recovery.c is a stub: the front end's buffer layer (jbd2_journal_bmap, getblk, buffer_uptodate, wait_on_buffer, mark_buffer_dirty, mark_buffer_uptodate, brelse) hands out three pre-allocated buffers with arbitrary contents (CBMC 6.11 forbids malloc/free inside a loop with a contract), may fail at any call, and keeps the dirty/uptodate flags in ghost state (recovery.c never touches them directly); jbd2_journal_test_revoke answers arbitrarily and logs the question; the CRC primitives return arbitrary values and log their arguments (little-endian host); memcpy is exact for the 12-byte tag copy, otherwise the destination is havocked and faithful at one ghost byte index",
  "printk prints nothing, J_ASSERT is a proof obligation (macros re-defined in the unit before the real file is included)",
  "journal buffers carry 32 slack bytes behind the j_blocksize data bytes that may be pointed to but are never accessed (every tag read is asserted to end inside the block); see FINDING in tags.c about forming a pointer up to 16 bytes behind the buffer",
  "ghost statement in the anchor at the top of the tag loop body: tagp = bh->b_data + (tagp - bh->b_data), asserted to be the identity (tells the verifier which object tagp points into after the loop cut)",
  "signed-overflow checking is off: the statistics counters info->nr_replays / nr_revoke_hits (printed by jbd_debug only) are incremented without a guard and would overflow after 2^31 replayed blocks",
  "the range statement for next_log_block is conditional on a sane geometry j_first <= s_start < j_last (e2fsck_journal_load checks neither s_first nor s_start) and on the journal not having the FAST_COMMIT feature (see FINDING wrap/fast_commit below)"
 ],
 "native": false
}
*/
/* VERIF-UNIT
{
 "name": "do_one_pass_scan",
 "props": [
  "C03"
 ],
 "level": "U/iter",
 "tier": "quick",
 "harness": "h_one_pass",
 "enforce": [
  "do_one_pass"
 ],
 "replace": [
  "count_tags",
  "scan_revoke_records",
  "calc_chksums",
  "fc_do_one_pass"
 ],
 "loop_contracts": true,
 "includes": [
  "e2fsck"
 ],
 "defines": [
  "VERIF_PASS_SCAN",
  "VERIF_MAX_BS_LOG=6"
 ],
 "unwindset": {
  "do_one_pass.0": 2,
  "do_one_pass.1": 2
 },
 "unwind_reason": "do_one_pass.0 / .1 are the two loops AFTER the loop-contract transformation: each is executed exactly twice by construction (base case, then one arbitrary step from the havocked state, which ends in assume(false)); no real loop is unwound",
 "cbmc_flags": [
  "--no-signed-overflow-check",
  "--object-bits",
  "8"
 ],
 "timeout": 900,
 "functions": [
  "e2fsck/recovery.c:do_one_pass",
  "e2fsck/recovery.c:jread",
  "e2fsck/recovery.c:read_tag_block"
 ],
 "assumes": [
  "same as do_one_pass_replay; pass = PASS_SCAN",
  "excluded: a commit block of transaction id 0 in an ASYNC_COMMIT journal (FINDING tid0 in this file; unit do_one_pass_scan_tid0 shows it)"
 ],
 "native": false
}
*/
/* VERIF-UNIT
{
 "name": "do_one_pass_revoke",
 "props": [
  "C03"
 ],
 "level": "U/iter",
 "tier": "quick",
 "harness": "h_one_pass",
 "enforce": [
  "do_one_pass"
 ],
 "replace": [
  "count_tags",
  "scan_revoke_records",
  "calc_chksums",
  "fc_do_one_pass"
 ],
 "loop_contracts": true,
 "includes": [
  "e2fsck"
 ],
 "defines": [
  "VERIF_PASS_REVOKE",
  "VERIF_MAX_BS_LOG=6"
 ],
 "unwindset": {
  "do_one_pass.0": 2,
  "do_one_pass.1": 2
 },
 "unwind_reason": "do_one_pass.0 / .1 are the two loops AFTER the loop-contract transformation: each is executed exactly twice by construction (base case, then one arbitrary step from the havocked state, which ends in assume(false)); no real loop is unwound",
 "cbmc_flags": [
  "--no-signed-overflow-check",
  "--object-bits",
  "8"
 ],
 "timeout": 900,
 "functions": [
  "e2fsck/recovery.c:do_one_pass",
  "e2fsck/recovery.c:jread",
  "e2fsck/recovery.c:read_tag_block"
 ],
 "assumes": [
  "same as do_one_pass_replay; pass = PASS_REVOKE"
 ],
 "native": false
}
*/
/* VERIF-UNIT
{
 "name": "do_one_pass_replay_debugfs",
 "props": [
  "C03"
 ],
 "level": "U/iter",
 "tier": "thorough",
 "harness": "h_one_pass",
 "enforce": [
  "do_one_pass"
 ],
 "replace": [
  "count_tags",
  "scan_revoke_records",
  "calc_chksums",
  "fc_do_one_pass"
 ],
 "loop_contracts": true,
 "includes": [
  "e2fsck",
  "debugfs"
 ],
 "defines": [
  "DEBUGFS",
  "VERIF_PASS_REPLAY",
  "VERIF_MAX_BS_LOG=6"
 ],
 "unwindset": {
  "do_one_pass.0": 2,
  "do_one_pass.1": 2
 },
 "unwind_reason": "do_one_pass.0 / .1 are the two loops AFTER the loop-contract transformation: each is executed exactly twice by construction (base case, then one arbitrary step from the havocked state, which ends in assume(false)); no real loop is unwound",
 "cbmc_flags": [
  "--no-signed-overflow-check",
  "--object-bits",
  "8"
 ],
 "timeout": 900,
 "functions": [
  "e2fsck/recovery.c:do_one_pass",
  "e2fsck/recovery.c:jread",
  "e2fsck/recovery.c:read_tag_block"
 ],
 "assumes": [
  "same as do_one_pass_replay; pass = PASS_REPLAY, debugfs include environment (struct buffer_head / kdev_s carry an ext2_filsys instead of an e2fsck_t)"
 ],
 "native": false
}
*/
/* VERIF-UNIT
{
 "name": "do_one_pass_scan_debugfs",
 "props": [
  "C03"
 ],
 "level": "U/iter",
 "tier": "quick",
 "harness": "h_one_pass",
 "enforce": [
  "do_one_pass"
 ],
 "replace": [
  "count_tags",
  "scan_revoke_records",
  "calc_chksums",
  "fc_do_one_pass"
 ],
 "loop_contracts": true,
 "includes": [
  "e2fsck",
  "debugfs"
 ],
 "defines": [
  "DEBUGFS",
  "VERIF_PASS_SCAN",
  "VERIF_MAX_BS_LOG=6"
 ],
 "unwindset": {
  "do_one_pass.0": 2,
  "do_one_pass.1": 2
 },
 "unwind_reason": "do_one_pass.0 / .1 are the two loops AFTER the loop-contract transformation: each is executed exactly twice by construction (base case, then one arbitrary step from the havocked state, which ends in assume(false)); no real loop is unwound",
 "cbmc_flags": [
  "--no-signed-overflow-check",
  "--object-bits",
  "8"
 ],
 "timeout": 900,
 "functions": [
  "e2fsck/recovery.c:do_one_pass",
  "e2fsck/recovery.c:jread",
  "e2fsck/recovery.c:read_tag_block"
 ],
 "assumes": [
  "same as do_one_pass_replay; pass = PASS_SCAN, debugfs include environment (struct buffer_head / kdev_s carry an ext2_filsys instead of an e2fsck_t)",
  "excluded: a commit block of transaction id 0 in an ASYNC_COMMIT journal (FINDING tid0 in this file; unit do_one_pass_scan_tid0 shows it)"
 ],
 "native": false
}
*/
/* VERIF-UNIT
{
 "name": "do_one_pass_revoke_debugfs",
 "props": [
  "C03"
 ],
 "level": "U/iter",
 "tier": "quick",
 "harness": "h_one_pass",
 "enforce": [
  "do_one_pass"
 ],
 "replace": [
  "count_tags",
  "scan_revoke_records",
  "calc_chksums",
  "fc_do_one_pass"
 ],
 "loop_contracts": true,
 "includes": [
  "e2fsck",
  "debugfs"
 ],
 "defines": [
  "DEBUGFS",
  "VERIF_PASS_REVOKE",
  "VERIF_MAX_BS_LOG=6"
 ],
 "unwindset": {
  "do_one_pass.0": 2,
  "do_one_pass.1": 2
 },
 "unwind_reason": "do_one_pass.0 / .1 are the two loops AFTER the loop-contract transformation: each is executed exactly twice by construction (base case, then one arbitrary step from the havocked state, which ends in assume(false)); no real loop is unwound",
 "cbmc_flags": [
  "--no-signed-overflow-check",
  "--object-bits",
  "8"
 ],
 "timeout": 900,
 "functions": [
  "e2fsck/recovery.c:do_one_pass",
  "e2fsck/recovery.c:jread",
  "e2fsck/recovery.c:read_tag_block"
 ],
 "assumes": [
  "same as do_one_pass_replay; pass = PASS_REVOKE, debugfs include environment (struct buffer_head / kdev_s carry an ext2_filsys instead of an e2fsck_t)"
 ],
 "native": false
}
*/
/* VERIF-UNIT
{
 "name": "do_one_pass_scan_tid0",
 "props": [
  "C03"
 ],
 "level": "U/iter",
 "tier": "obs",
 "harness": "h_one_pass",
 "enforce": [
  "do_one_pass"
 ],
 "replace": [
  "count_tags",
  "scan_revoke_records",
  "calc_chksums",
  "fc_do_one_pass"
 ],
 "loop_contracts": true,
 "includes": [
  "e2fsck"
 ],
 "defines": [
  "VERIF_PASS_SCAN",
  "VERIF_MAX_BS_LOG=6",
  "VERIF_STRICT_TID0"
 ],
 "unwindset": {
  "do_one_pass.0": 2,
  "do_one_pass.1": 2
 },
 "unwind_reason": "do_one_pass.0 / .1 are the two loops AFTER the loop-contract transformation: each is executed exactly twice by construction (base case, then one arbitrary step from the havocked state, which ends in assume(false)); no real loop is unwound",
 "cbmc_flags": [
  "--no-signed-overflow-check",
  "--object-bits",
  "8"
 ],
 "timeout": 900,
 "functions": [
  "e2fsck/recovery.c:do_one_pass",
  "e2fsck/recovery.c:jread",
  "e2fsck/recovery.c:read_tag_block"
 ],
 "assumes": [
  "same as do_one_pass_scan but WITHOUT the exclusion of transaction id 0 in ASYNC_COMMIT journals: expected failing obligation (FINDING tid0 in this file)"
 ],
 "native": false
}
*/
/* VERIF-UNIT
{
 "name": "do_one_pass_replay_fc",
 "props": [
  "C03"
 ],
 "level": "U/iter",
 "tier": "thorough",
 "harness": "h_one_pass",
 "enforce": [
  "do_one_pass"
 ],
 "replace": [
  "count_tags",
  "scan_revoke_records",
  "calc_chksums",
  "fc_do_one_pass"
 ],
 "loop_contracts": true,
 "includes": [
  "e2fsck"
 ],
 "defines": [
  "VERIF_PASS_REPLAY",
  "VERIF_MAX_BS_LOG=6",
  "VERIF_STRICT_FC"
 ],
 "unwindset": {
  "do_one_pass.0": 2,
  "do_one_pass.1": 2
 },
 "unwind_reason": "do_one_pass.0 / .1 are the two loops AFTER the loop-contract transformation: each is executed exactly twice by construction (base case, then one arbitrary step from the havocked state, which ends in assume(false)); no real loop is unwound",
 "cbmc_flags": [
  "--no-signed-overflow-check",
  "--object-bits",
  "8"
 ],
 "timeout": 900,
 "functions": [
  "e2fsck/recovery.c:do_one_pass",
  "e2fsck/recovery.c:jread",
  "e2fsck/recovery.c:read_tag_block"
 ],
 "assumes": [
  "same as do_one_pass_replay but the range / wrap statements are NOT restricted to journals without FAST_COMMIT: expected failing obligations (FINDING wrap/fast_commit in this file)"
 ],
 "native": false
}
*/
/* VERIF-UNIT
{
 "name": "calc_chksums",
 "props": [
  "C03"
 ],
 "level": "U",
 "tier": "quick",
 "harness": "h_calc_chksums",
 "enforce": [
  "calc_chksums"
 ],
 "replace": [
  "count_tags"
 ],
 "loop_contracts": true,
 "includes": [
  "e2fsck"
 ],
 "defines": [
  "VERIF_PASS_SCAN",
  "VERIF_MAX_BS_LOG=6"
 ],
 "unwindset": {
  "calc_chksums.0": 2
 },
 "unwind_reason": "calc_chksums.0 is the loop after the loop-contract transformation (base case + one arbitrary step)",
 "cbmc_flags": [
  "--no-signed-overflow-check",
  "--object-bits",
  "8"
 ],
 "timeout": 900,
 "functions": [
  "e2fsck/recovery.c:calc_chksums"
 ],
 "assumes": [
  "same stubs as do_one_pass_replay; count_tags replaced by its contract (>= 1); the loop over the described blocks is cut by an in-place loop contract (named anchor VERIF_INV_CALC_CHKSUMS): frame, 0 <= i <= num_blks, buffer discipline; level U for the statement made (frame, result range, every buffer released)"
 ],
 "native": false
}
*/
/*
 * do_one_pass() of the JBD2 recovery core (C03), level U/iter.
 *
 * What is stated (property text -> monitor), for one arbitrary iteration of the block loop / the tag loop:
 *  W  the ONLY buffer ever dirtied is the `nbh` of the replay branch (mark_buffer_dirty stub + brelse contract refuse
 *     any other dirty buffer), and at that point
 *     W1 pass == PASS_REPLAY
 *     W2 the tags are read from a block with the JBD2 magic, block type DESCRIPTOR, h_sequence == next_commit_ID,
 *        and next_commit_ID is BEFORE info->end_transaction in tid order (only transactions found complete by SCAN)
 *     W3 the buffer was obtained for (j_fs_dev, block number = big-endian t_blocknr [| t_blocknr_high << 32 iff 64BIT]
 *        decoded from the RAW tag bytes in the descriptor block)
 *     W4 jbd2_journal_test_revoke(that block, next_commit_ID) was asked and said "not revoked"
 *     W5 the tag checksum verifier was asked about (this tag, the log block's bytes, next_commit_ID) and accepted
 *     W6 the log block is the one read from log offset io_block
 *     W7 byte k of the new buffer == byte k of the log block, except bytes 0..3 == c0 3b 39 98 iff the raw tag has
 *        JBD2_FLAG_ESCAPE; the log block's byte k is still what jread delivered       (k = ghost index, arbitrary)
 *  T  tag walk: the tag of an iteration lies inside the usable area, the stride is tag_bytes (+16 unless SAME_UUID),
 *     exactly one log block is consumed per tag whatever happens to it (I/O error, revoked, bad checksum, replayed),
 *     and no tag is looked at after one with LAST_TAG  -- the walk count_tags() is proved to count (unit count_tags).
 *  R  in PASS_REPLAY next_log_block stays in [j_first, j_last) (sane geometry, no fast commit).
 *  V  revoke records are only collected in PASS_REVOKE, from a block of type REVOKE whose h_sequence == next_commit_ID,
 *     and registered under that sequence (precondition of the scan_revoke_records contract).
 *  B  buffer discipline: every buffer obtained is released exactly once on every path (ghost count), none is used after.
 *  E  PASS_REVOKE / PASS_REPLAY never change info->end_transaction; PASS_SCAN sets start_transaction = s_sequence.
 */
#ifndef VERIF_MAX_BS_LOG
#define VERIF_MAX_BS_LOG 0
#endif
#define JR_CUSTOM_IN
#define VERIF_BH_SLACK 32
#include "jr_spec.h"
#include <errno.h>
#include <limits.h>
#include <stddef.h>

struct in_op {
	unsigned char bs_log;
	int format_version;
	unsigned int incompat, compat;
	unsigned int s_sequence, s_start;
	unsigned long j_first, j_last, j_fc_first, j_fc_last;
	unsigned int j_total_len;
	int pass;
	unsigned int start_transaction, end_transaction;
	int nr_replays, nr_revokes, nr_revoke_hits;
	unsigned long long k;
	unsigned int csum_seed;
};
struct in_op IN;
#include "verif_in.h"

/* ---- ghost state ---- */
unsigned long long verif_mc_k;		/* ghost byte index inside a block (pointwise statements about block contents) */
int g_pass;				/* the pass do_one_pass was called with */
unsigned int g_end0;			/* info->end_transaction on entry */
unsigned int g_start1;			/* info->start_transaction when the block loop starts */
int g_geom_ok;				/* sane geometry and no fast commit: the range statement R applies */
/* ghost state written inside the loops: ONE object, so that the loop frames stay small (every write in a cut loop is
 * compared with every target of its assigns clause) */
struct op_ghost {
	int live;				/* buffers obtained and not yet released */
	int used;				/* bit i: pool buffer i is handed out */
	unsigned long bm_block;		/* last jbd2_journal_bmap: log offset asked, physical block answered */
	unsigned long long bm_phys;
	struct buffer_head *gbj_bh;		/* last getblk on the journal device: buffer, block number */
	unsigned long long gbj_blocknr;
	struct buffer_head *gbf_bh;		/* last getblk on the filesystem device: buffer, block number */
	unsigned long long gbf_blocknr;
	struct buffer_head *upd_bh;		/* buffer last marked uptodate by mark_buffer_uptodate */
	struct buffer_head *rd_bh;		/* last buffer read from the device, and byte verif_mc_k of what was read */
	unsigned char rd_byte;
	unsigned long long tr_blocknr;	/* last test_revoke: arguments, answer */
	unsigned int tr_seq;
	int tr_ret;
	const void *cs_buf;			/* last crc32c call over a whole block: buffer, seed */
	unsigned int cs_seed;
	unsigned int cs_out;			/* ... and its result */
	unsigned int cq_seed, cq_word, cq_out;	/* last crc32c call over 4 bytes (the sequence number): seed, the 4 bytes (raw), result */
	unsigned long long tag_off0;		/* offset of the tag of the current tag-loop iteration */
	int prev_last;			/* the tag of the previous iteration carried LAST_TAG */
	struct buffer_head *armed;		/* buffer the write monitor has just approved */
	struct buffer_head *dirtied;		/* buffer mark_buffer_dirty was called on */
};
struct op_ghost G;
#define g_live G.live
#define g_used G.used
#define g_bm_block G.bm_block
#define g_bm_phys G.bm_phys
#define g_gbj_bh G.gbj_bh
#define g_gbj_blocknr G.gbj_blocknr
#define g_gbf_bh G.gbf_bh
#define g_gbf_blocknr G.gbf_blocknr
#define g_rd_bh G.rd_bh
#define g_upd_bh G.upd_bh
#define g_rd_byte G.rd_byte
#define g_tr_blocknr G.tr_blocknr
#define g_tr_seq G.tr_seq
#define g_tr_ret G.tr_ret
#define g_cs_buf G.cs_buf
#define g_cs_seed G.cs_seed
#define g_cs_out G.cs_out
#define g_cq_seed G.cq_seed
#define g_cq_word G.cq_word
#define g_cq_out G.cq_out
#define g_tag_off0 G.tag_off0
#define g_prev_last G.prev_last
#define g_armed G.armed
#define g_dirtied G.dirtied
#define GHOSTS G, POOL_FRAME
#define GHOSTS_INNER G, __CPROVER_object_whole(POOL1), __CPROVER_object_whole(POOL2)	/* the tag loop does not touch the descriptor buffer */

static journal_t J;			/* the journal of the harness */

/*
 * Buffer pool.  CBMC 6.11 does not allow malloc/free inside a loop that carries a loop contract, so the buffer layer of
 * this unit hands out three buffers allocated by the harness (do_one_pass holds at most three at a time: descriptor, log
 * block, target block), each exactly as big as getblk() makes them (+ slack, see above), holding arbitrary bytes (what
 * the device holds / stale memory); brelse scrambles the byte the content statements look at, so that a use after
 * release cannot go unnoticed by them.
 */
struct buffer_head *POOL0, *POOL1, *POOL2;
#define POOL_FRAME __CPROVER_object_whole(POOL0), __CPROVER_object_whole(POOL1), __CPROVER_object_whole(POOL2)

#define UB(p) ((const unsigned char *)(p))
#define J_INC(j) SPEC_BE32(&(j)->j_superblock->s_feature_incompat)
#define J_CSUM23(j) (SPEC_HAS((j)->j_format_version, J_INC(j), SPEC_INCOMPAT_CSUM_V2) || SPEC_HAS((j)->j_format_version, J_INC(j), SPEC_INCOMPAT_CSUM_V3))
#ifdef VERIF_FIXED_BS
#define J_BS(j) ((unsigned long)VERIF_FIXED_BS)
#else
#define J_BS(j) ((unsigned long)(j)->j_blocksize)
#endif
#define BH_HDR (sizeof(struct buffer_head) - sizeof(((struct buffer_head *)0)->b_data))
#define BH_SIZE(j) (BH_HDR + J_BS(j) + VERIF_BH_SLACK)
#define SPEC_MAGIC 0xc03b3998u
#define SPEC_BT_DESCRIPTOR 1u
#define SPEC_BT_REVOKE 5u
#define SPEC_FLAG_ESCAPE 1u
#define SPEC_INCOMPAT_FAST_COMMIT 0x20u
/*
 * FINDING wrap/fast_commit (unit do_one_pass_replay_fc, tier wip): the log is the circular area [j_first, j_last) -- that
 * is where the writers wrap (kernel jbd2_journal_next_log_block: j_head == j_last -> j_first; debugfs journal writer
 * likewise).  recovery.c's wrap() macro however wraps at j_fc_last when the journal has the FAST_COMMIT feature, so for a
 * fast-commit journal whose valid log crosses the end of the main area the replay walks on into the fast-commit blocks
 * [j_last, j_fc_last) instead of continuing at j_first.  (Later kernels changed wrap() to use j_last only.)
 * The quick units state the range / wrap position only for journals without FAST_COMMIT; the _fc unit states it for all
 * and fails "T: exactly one log block is consumed per tag, with wrap at j_last", W6 and the range invariants.
 * Confirmed natively: findings/C03_fast_commit_wrap/demo.sh (a committed transaction crossing j_last is dropped by e2fsck
 * and debugfs; debugfs, whose load routine never sets j_fc_last, drops every transaction of such a journal);
 * proposed-fix.patch there restores wrap at j_last and makes both demos' layouts replay.
 */
#ifdef VERIF_STRICT_FC
#define OP_NO_FC(ver, inc) 1
#else
#define OP_NO_FC(ver, inc) (!SPEC_HAS(ver, inc, SPEC_INCOMPAT_FAST_COMMIT))
#endif

/* kernel definition of the transaction-id order (wrap-around): x is at or after y iff the forward distance from y to x,
 * (x - y) mod 2^32, is below 2^31; "x before y" is its negation */
static int spec_tid_geq(unsigned int x, unsigned int y)
{
	unsigned int d = x - y;
	return d <= 0x7fffffffu;
}
/* the log is the circular area [j_first, j_last) of the journal */
#define SPEC_WRAP(j, x) ((x) >= (j)->j_last ? (x) - ((j)->j_last - (j)->j_first) : (x))
static unsigned char spec_magic_byte(unsigned long long k)
{
	return k == 0 ? 0xc0 : k == 1 ? 0x3b : k == 2 ? 0x39 : 0x98;
}

/* ---- contracts of same-file callees that are replaced (only those with loops / outside the statement) ---- */
static int count_tags(journal_t *journal, struct buffer_head *bh)
	ASSIGNS()
	ENSURES(RET >= 1);

/* proved by unit calc_chksums (this file): frame, result range, buffer discipline */
static int calc_chksums(journal_t *journal, struct buffer_head *bh, unsigned long *next_log_block, __u32 *crc32_sum)
	REQUIRES(g_pass == PASS_SCAN)
	REQUIRES(g_live == 1 && g_used == 1 && bh == POOL0 && g_armed == 0)
	ASSIGNS(*next_log_block, *crc32_sum, GHOSTS_INNER)
	ENSURES(RET == 0 || RET == 1)
	ENSURES(g_live == 1 && g_used == 1 && g_armed == 0);

/* the block loop of calc_chksums (named anchor VERIF_INV_CALC_CHKSUMS in recovery.c) */
#define VERIF_INV_CALC_CHKSUMS \
	__CPROVER_assigns(i, io_block, obh, err, *next_log_block, *crc32_sum, GHOSTS_INNER) \
	__CPROVER_loop_invariant(0 <= i && i <= num_blks) \
	__CPROVER_loop_invariant(g_live == 1 && g_used == 1 && g_armed == 0) \
	__CPROVER_decreases(num_blks - i)

/* ---- loop contracts and monitors, expanded inside do_one_pass (named anchors in recovery.c) ---- */
#define OP_OFF ((long)(__CPROVER_POINTER_OFFSET(tagp) - __CPROVER_POINTER_OFFSET(bh->b_data)))
#define OP_INRANGE (journal->j_first <= next_log_block && next_log_block < journal->j_last)

/* the frame of the block loop, per pass (writes of the other passes are unreachable once `pass` is a constant; a smaller
 * frame is cheaper: every write in a cut loop is compared with every target); *info as a whole object, with the
 * invariants below pinning down the fields a pass must not change */
#if defined(VERIF_PASS_REPLAY)
#define OP_OUTER_FRAME next_commit_ID, next_log_block, err, success, tmp, bh, sequence, blocktype, descr_csum_size, block_error, \
	commit_time, __CPROVER_object_whole(info), GHOSTS
#elif defined(VERIF_PASS_REVOKE)
#define OP_OUTER_FRAME next_commit_ID, next_log_block, err, tmp, bh, sequence, blocktype, descr_csum_size, \
	commit_time, __CPROVER_object_whole(info), GHOSTS
#else
#define OP_OUTER_FRAME next_commit_ID, next_log_block, err, success, tmp, bh, sequence, blocktype, crc32_sum, \
	descr_csum_size, block_error, need_check_commit_time, last_trans_commit_time, commit_time, \
	__CPROVER_object_whole(info), journal->j_failed_commit, GHOSTS
#endif

#define VERIF_INV_DO_ONE_PASS_OUTER \
	__CPROVER_assigns(OP_OUTER_FRAME) \
	__CPROVER_loop_invariant(descr_csum_size == 0 || descr_csum_size == 4) \
	__CPROVER_loop_invariant(pass == PASS_SCAN || info->end_transaction == g_end0) \
	__CPROVER_loop_invariant(info->start_transaction == g_start1) \
	__CPROVER_loop_invariant(pass != PASS_REPLAY || !g_geom_ok || OP_INRANGE) \
	__CPROVER_loop_invariant(g_live == 0 && g_used == 0 && g_armed == 0)

#define VERIF_INV_DO_ONE_PASS_TAGS \
	__CPROVER_assigns(flags, tagp, __CPROVER_object_whole(&tag), obh, nbh, next_log_block, err, success, block_error, \
			  __CPROVER_object_whole(info), GHOSTS_INNER) \
	__CPROVER_loop_invariant(info->end_transaction == g_end0 && info->start_transaction == g_start1) \
	__CPROVER_loop_invariant(__CPROVER_same_object(tagp, bh->b_data)) \
	__CPROVER_loop_invariant(OP_OFF >= 12 && OP_OFF <= (long)journal->j_blocksize - descr_csum_size + 16) \
	__CPROVER_loop_invariant(tag_bytes != 8 || (OP_OFF & 7) == 4) \
	__CPROVER_loop_invariant(!g_geom_ok || OP_INRANGE) \
	__CPROVER_loop_invariant(OP_OFF == 12 || g_prev_last == 0) \
	__CPROVER_loop_invariant(g_live == 1 && g_used == 1 && bh == POOL0 && g_armed == 0) \
	__CPROVER_decreases((long)journal->j_blocksize + 32 - OP_OFF)

#ifdef VERIF_PASS_REPLAY
#define OP_REACH_REPLAY(n) REACH(n)
#else
#define OP_REACH_REPLAY(n) ((void)0)	/* the tag loop is not reachable in the other passes */
#endif
#define OP_T ((unsigned long long)spec_tag_bytes(journal->j_format_version, J_INC(journal)))
#define OP_RAWFLAGS SPEC_TAG_FLAGS(bh->b_data, g_tag_off0)
#define OP_RAWTAG (UB(bh->b_data) + g_tag_off0)
#define SPEC_BSWAP32(v) ((((v) & 0xFFu) << 24) | (((v) & 0xFF00u) << 8) | (((v) >> 8) & 0xFF00u) | (((v) >> 24) & 0xFFu))

/* tagp is re-based on bh->b_data (asserted to be the identity): after the loop cut the verifier knows only through the
 * invariant which object tagp points into, and would otherwise split every access through it over all objects */
#define VERIF_MON_DO_ONE_PASS_TAG_BEGIN { \
	g_tag_off0 = (unsigned long long)OP_OFF; \
	CHECK(tagp == bh->b_data + g_tag_off0, "ghost re-basing of tagp is the identity"); \
	tagp = bh->b_data + g_tag_off0; \
	CHECK(g_tag_off0 >= 12 && g_tag_off0 + OP_T <= J_BS(journal) - spec_csum_tail(journal->j_format_version, J_INC(journal)), \
	      "T: the tag lies inside the usable area of the descriptor block"); \
	CHECK(g_tag_off0 + 12 <= J_BS(journal), "T: the 12-byte tag copy ends inside the block"); \
	}

/* W5: journal.rst: tag checksum = crc32c(crc32c(journal seed, be32 sequence), the logged block); v3 stores all 32 bits
 * big-endian at tag+12, v2 the low 16 bits big-endian at tag+4 */
#define OP_TAGCSUM_OK \
	(g_cq_seed == journal->j_csum_seed && g_cq_word == SPEC_BSWAP32(next_commit_ID) && \
	 g_cs_seed == g_cq_out && g_cs_buf == (const void *)obh->b_data && \
	 (SPEC_HAS(journal->j_format_version, J_INC(journal), SPEC_INCOMPAT_CSUM_V3) \
		? SPEC_BE32(OP_RAWTAG + 12) == g_cs_out : SPEC_BE16(OP_RAWTAG + 4) == (g_cs_out & 0xFFFFu)))

#define VERIF_MON_DO_ONE_PASS_WRITE { \
	CHECK(pass == PASS_REPLAY && g_pass == PASS_REPLAY, "W1: a filesystem buffer is written only in PASS_REPLAY"); \
	CHECK(SPEC_BE32(bh->b_data) == SPEC_MAGIC && SPEC_BE32(bh->b_data + 4) == SPEC_BT_DESCRIPTOR, "W2: the tag comes from a descriptor block"); \
	CHECK(SPEC_BE32(bh->b_data + 8) == next_commit_ID, "W2: of the transaction being replayed (h_sequence == next_commit_ID)"); \
	CHECK(!spec_tid_geq(next_commit_ID, info->end_transaction), "W2: which lies before end_transaction"); \
	CHECK(g_gbf_bh == nbh && nbh == POOL2 && obh == POOL1 && bh == POOL0, "W3: the buffer was obtained from the filesystem device"); \
	CHECK(g_gbf_blocknr == spec_tag_block(journal->j_format_version, J_INC(journal), OP_RAWTAG), \
	      "W3: target block number == big-endian block number of the raw tag (high word iff 64BIT)"); \
	CHECK(g_tr_blocknr == g_gbf_blocknr && g_tr_seq == next_commit_ID && g_tr_ret == 0, "W4: test_revoke(block, next_commit_ID) said not revoked"); \
	CHECK(!J_CSUM23(journal) || OP_TAGCSUM_OK, "W5: the tag checksum over (next_commit_ID, this log block) equals the one stored in the raw tag"); \
	CHECK(g_gbj_bh == obh && g_rd_bh == obh && g_gbj_blocknr == g_bm_phys && g_bm_block == (unsigned int)io_block && (!g_geom_ok || g_bm_block == io_block), \
	      "W6: the log block was read from log offset io_block (jread takes a 32-bit offset)"); \
	CHECK(UB(nbh->b_data)[verif_mc_k] == (((OP_RAWFLAGS & SPEC_FLAG_ESCAPE) && verif_mc_k < 4) ? spec_magic_byte(verif_mc_k) : UB(obh->b_data)[verif_mc_k]), \
	      "W7: written bytes == logged bytes, first four bytes == JBD2 magic iff ESCAPE"); \
	CHECK(UB(obh->b_data)[verif_mc_k] == g_rd_byte, "W7: the log block itself is not modified"); \
	CHECK(g_dirtied != nbh, "W: not dirty before the monitor"); \
	g_armed = nbh; \
	OP_REACH_REPLAY("replay write (in each of the base/step instances of the two cut loops)"); \
	}

/* C: the transaction counter advances only over a commit block of the expected transaction; PASS_SCAN accepts it (leaves
 * end_transaction unset) only if, for a v2/v3 journal, h_chksum[0] (be32 at 0x10) equals the crc32c computed over the
 * block with the journal's seed (that the field is taken as zero during the computation: unit jbd2_commit_block_csum_verify) */
/*
 * FINDING tid0 (unit do_one_pass_scan_tid0, tier wip): the scan pass uses info->end_transaction == 0 as "end of log not yet
 * known".  With ASYNC_COMMIT, a commit block of transaction id 0 whose v2/v3 checksum does NOT match executes
 * `info->end_transaction = next_commit_ID` (= 0), which leaves the marker unset: the scan carries on as if the transaction
 * were good, and REVOKE/REPLAY then apply a checksum-invalid transaction.  Ids are 32-bit and wrap (tid_gt exists for that),
 * and s_sequence == 0 can simply be written into a crafted journal superblock.  Same code in the kernel this file is taken from.
 * The quick units exclude exactly this case (transaction id 0 in an ASYNC_COMMIT journal); the _tid0 unit does not and fails
 * obligation "C: SCAN keeps the end of the log open only past commit blocks whose v2/v3 checksum matches".
 */
#ifdef VERIF_STRICT_TID0
#define OP_TID0_EXCEPTION 0
#else
#define OP_TID0_EXCEPTION (next_commit_ID == 0 && SPEC_HAS(journal->j_format_version, J_INC(journal), 0x4u /* ASYNC_COMMIT */))
#endif
#define SPEC_BT_COMMIT 2u
#define VERIF_MON_DO_ONE_PASS_COMMIT { \
	CHECK(SPEC_BE32(bh->b_data) == SPEC_MAGIC && SPEC_BE32(bh->b_data + 4) == SPEC_BT_COMMIT && SPEC_BE32(bh->b_data + 8) == next_commit_ID, \
	      "C: next_commit_ID advances only at a commit block with h_sequence == next_commit_ID"); \
	CHECK(pass != PASS_SCAN || info->end_transaction != 0 || !J_CSUM23(journal) || OP_TID0_EXCEPTION || \
	      (g_cs_buf == (const void *)bh->b_data && g_cs_seed == journal->j_csum_seed && SPEC_BE32(bh->b_data + 0x10) == g_cs_out), \
	      "C: SCAN keeps the end of the log open only past commit blocks whose v2/v3 checksum matches"); \
	CHECK(pass == PASS_SCAN || !spec_tid_geq(next_commit_ID, info->end_transaction), "C: REVOKE / REPLAY never step over end_transaction"); \
	REACH("commit block accepted"); \
	}

#define VERIF_MON_DO_ONE_PASS_TAG_NEXT { \
	CHECK((unsigned long long)OP_OFF == g_tag_off0 + OP_T + ((OP_RAWFLAGS & SPEC_FLAG_SAME_UUID) ? 0 : 16), \
	      "T: stride is tag_bytes, plus a 16-byte uuid unless SAME_UUID"); \
	CHECK(g_geom_ok ? next_log_block == SPEC_WRAP(journal, io_block + 1) : 1, "T: exactly one log block is consumed per tag, with wrap at j_last"); \
	CHECK(flags == (int)OP_RAWFLAGS, "T: flags are the big-endian flags of the raw tag"); \
	CHECK(g_live == 1 && g_used == 1 && g_armed == 0, "B: data and target buffers released, descriptor still held"); \
	g_prev_last = (OP_RAWFLAGS & SPEC_FLAG_LAST_TAG) != 0; \
	OP_REACH_REPLAY("end of a tag iteration"); \
	}

/* messages and assertions of the kernel code: printk prints nothing here (CBMC's variadic printf model explodes under
 * contract instrumentation), J_ASSERT (print + fatal_error in e2fsck, assert in debugfs) becomes a proof obligation */
#undef printk
#define printk(...) ((void)0)
#undef J_ASSERT
#define J_ASSERT(x) CHECK(x, "J_ASSERT: " #x)

#ifdef X_NOMON
#undef VERIF_MON_DO_ONE_PASS_WRITE
#undef VERIF_MON_DO_ONE_PASS_TAG_BEGIN
#undef VERIF_MON_DO_ONE_PASS_TAG_NEXT
#endif
#include "e2fsck/recovery.c"

/* ================= stubs for everything outside recovery.c ================= */

/* libc memcpy, over-approximated: bounds asserted; a 12-byte (tag) copy is exact; any other copy leaves arbitrary bytes in
 * the destination except at the ghost index verif_mc_k, where it is faithful (true of memcpy at every index) */
struct verif_b12 { unsigned char b[12]; };
void *memcpy(void *dst, const void *src, size_t n)
{
	CHECK(__CPROVER_r_ok(src, n) && __CPROVER_w_ok(dst, n), "memcpy: source readable and destination writable for n bytes");
	if (n == 12) {
		*(struct verif_b12 *)dst = *(const struct verif_b12 *)src;
	} else {
#ifndef X_NOHAVOC
		__CPROVER_havoc_slice(dst, n);
#endif
		if (verif_mc_k < n)
			((unsigned char *)dst)[verif_mc_k] = UB(src)[verif_mc_k];
	}
	return dst;
}

/* checksum primitives: arbitrary results, arguments logged (the CRC functions themselves: group csum) */
__u32 ext2fs_crc32c_le(__u32 crc, unsigned char const *p, size_t len)
{
	__u32 out;	/* arbitrary */
	if (len == 4) {
		g_cq_seed = crc; g_cq_word = *(const unsigned int *)p; g_cq_out = out;
	} else {
		CHECK(len == J_BS(&J), "crc32c over a whole journal block");
		g_cs_seed = crc; g_cs_buf = p; g_cs_out = out;
	}
	return out;
}
__u32 ext2fs_crc32_be(__u32 crc, unsigned char const *p, size_t len)
{
	__u32 out;	/* arbitrary */
	return out;
}

/* front-end buffer layer (e2fsck/journal.c, debugfs/journal.c): the C04 units are about these; here they are devices
 * that can fail at any call and deliver arbitrary block contents */
int jbd2_journal_bmap(journal_t *journal, unsigned long block, unsigned long long *phys)
{
	int err;		/* arbitrary */
	unsigned long long p;	/* arbitrary */
	*phys = p;
	g_bm_block = block; g_bm_phys = p;
	return err;
}
struct buffer_head *getblk(kdev_t kdev, unsigned long long blocknr, int blocksize)
{
	int fail;		/* arbitrary */
	struct buffer_head *bh;
	CHECK(kdev == J.j_dev || kdev == J.j_fs_dev, "getblk on one of the journal's two devices");
	CHECK(kdev != J.j_fs_dev || g_pass == PASS_REPLAY, "W1: filesystem buffers are only obtained in PASS_REPLAY");
	CHECK((unsigned long)blocksize == J_BS(&J), "buffers are j_blocksize big");
	if (fail)
		return 0;	/* out of memory */
	/* journal device: POOL0, else POOL1; filesystem device: POOL2 */
	if (kdev == J.j_dev) {
		CHECK((g_used & 3) != 3, "B: at most two journal buffers are held at a time");
		if (!(g_used & 1)) { bh = POOL0; g_used |= 1; }
		else if (!(g_used & 2)) { bh = POOL1; g_used |= 2; }
		else return 0;
	} else {
		CHECK(!(g_used & 4), "B: at most one filesystem buffer is held at a time");
		if (g_used & 4) return 0;
		bh = POOL2; g_used |= 4;
	}
	/* contents: arbitrary.  The pool buffers hold arbitrary bytes from the start, every loop cut makes them arbitrary
	 * again, brelse scrambles the byte the content statements look at, and a buffer is handed out at most once per
	 * iteration of the loop it lives in -- so nothing needs to be written here */
	/* the flag / bookkeeping fields of struct buffer_head are never touched by recovery.c itself (only b_data is, and
	 * b_size in calc_chksums, replaced): this buffer layer keeps them in ghost state (dirty: g_dirtied, uptodate: g_rd_bh /
	 * g_upd_bh, block number: g_gb?_blocknr) -- bit-field updates inside a byte-array object are very costly to encode.
	 * A buffer fresh from getblk is neither uptodate nor dirty (both front ends allocate it zero-filled) */
	if (g_rd_bh == bh) g_rd_bh = 0;
	if (g_upd_bh == bh) g_upd_bh = 0;
	if (g_dirtied == bh) g_dirtied = 0;
	g_live++;
	if (kdev == J.j_dev) {
		g_gbj_bh = bh; g_gbj_blocknr = blocknr;
	} else {
		g_gbf_bh = bh; g_gbf_blocknr = blocknr;
	}
	return bh;
}
int buffer_uptodate(struct buffer_head *bh)
{
	return bh == g_rd_bh || bh == g_upd_bh;
}
void wait_on_buffer(struct buffer_head *bh)
{
	int ok;			/* arbitrary: the read may fail */
	if (bh != g_rd_bh && bh != g_upd_bh && ok) {
		g_rd_bh = bh; g_rd_byte = UB(bh->b_data)[verif_mc_k];
	}
}
void mark_buffer_dirty(struct buffer_head *bh)
{
	CHECK(bh != 0 && bh == g_armed, "W: only the buffer just approved by the replay monitor is ever dirtied");
	g_armed = 0;
	g_dirtied = bh;
}
void mark_buffer_uptodate(struct buffer_head *bh, int val)
{
	g_upd_bh = val ? bh : 0;
}
void brelse(struct buffer_head *bh)
{
	CHECK(bh != 0 && g_live >= 1, "B: brelse of a live buffer");
	CHECK((bh == POOL0 && (g_used & 1)) || (bh == POOL1 && (g_used & 2)) || (bh == POOL2 && (g_used & 4)), "B: brelse of a buffer that is held (no double release)");
	/* a dirty buffer is written out by brelse; the only way to dirty one is mark_buffer_dirty above */
	if (bh == POOL0) g_used &= ~1; else if (bh == POOL1) g_used &= ~2; else g_used &= ~4;
	g_live--;
	{ unsigned char junk; ((unsigned char *)bh->b_data)[verif_mc_k] = junk; }	/* released: contents gone (at the byte the content statements look at) */
}
int jbd2_journal_test_revoke(journal_t *journal, unsigned long long blocknr, tid_t sequence)
{
	int r;			/* arbitrary */
	CHECK(g_pass == PASS_REPLAY, "test_revoke is asked in PASS_REPLAY only");
	g_tr_blocknr = blocknr; g_tr_seq = sequence; g_tr_ret = (r != 0);
	return r != 0;
}

/* struct recovery_info is private to recovery.c: these contracts go on re-declarations after the real file */
static int scan_revoke_records(journal_t *journal, struct buffer_head *bh, tid_t sequence, struct recovery_info *info)
	REQUIRES(g_pass == PASS_REVOKE)
	REQUIRES(SPEC_BE32(bh->b_data) == SPEC_MAGIC && SPEC_BE32(bh->b_data + 4) == SPEC_BT_REVOKE && SPEC_BE32(bh->b_data + 8) == sequence)
	ASSIGNS(info->nr_revokes);

static int fc_do_one_pass(journal_t *journal, struct recovery_info *info, enum passtype pass)
	REQUIRES(g_pass != PASS_REVOKE && pass == g_pass && g_live == 0)
	ASSIGNS();

static int do_one_pass(journal_t *journal, struct recovery_info *info, enum passtype pass)
	REQUIRES(journal->j_format_version == 1 || journal->j_format_version == 2)
	REQUIRES(journal->j_blocksize == 1024 || journal->j_blocksize == 2048 || journal->j_blocksize == 4096 ||
		 journal->j_blocksize == 8192 || journal->j_blocksize == 16384 || journal->j_blocksize == 32768 ||
		 journal->j_blocksize == 65536)
	REQUIRES(pass == PASS_SCAN || pass == PASS_REVOKE || pass == PASS_REPLAY)
	REQUIRES(g_pass == pass && g_end0 == info->end_transaction && g_live == 0 && g_used == 0 && g_armed == 0 && verif_mc_k < J_BS(journal))
	REQUIRES(g_start1 == (pass == PASS_SCAN ? SPEC_BE32(&journal->j_superblock->s_sequence) : info->start_transaction))
	REQUIRES(g_geom_ok == (OP_NO_FC(journal->j_format_version, J_INC(journal)) &&
			       journal->j_first <= SPEC_BE32(&journal->j_superblock->s_start) &&
			       SPEC_BE32(&journal->j_superblock->s_start) < journal->j_last))
	ASSIGNS(__CPROVER_object_whole(info), journal->j_failed_commit, GHOSTS)
	ENSURES(pass == PASS_SCAN || (info->end_transaction == OLD(info->end_transaction) && info->start_transaction == OLD(info->start_transaction)))
	ENSURES(pass != PASS_SCAN || info->start_transaction == SPEC_BE32(&journal->j_superblock->s_sequence))
	ENSURES(g_live == 0 && g_used == 0 && g_armed == 0);

static journal_superblock_t JSB;
static struct kdev_s DEV_J, DEV_FS;
static struct recovery_info INFO;

void h_one_pass(void)
{
	LOAD_IN();
	ASSUME(IN.bs_log <= VERIF_MAX_BS_LOG);
	ASSUME(IN.format_version == 1 || IN.format_version == 2);
	ASSUME(IN.pass == PASS_SCAN || IN.pass == PASS_REVOKE || IN.pass == PASS_REPLAY);
#if defined(VERIF_PASS_REPLAY)
	IN.pass = PASS_REPLAY;
#elif defined(VERIF_PASS_REVOKE)
	IN.pass = PASS_REVOKE;
#elif defined(VERIF_PASS_SCAN)
	IN.pass = PASS_SCAN;
#endif
	/* one unit per pass: a constant pass lets the verifier drop the other passes' branches */
	J.j_superblock = &JSB;
#ifdef VERIF_FIXED_BS
	J.j_blocksize = VERIF_FIXED_BS;
#else
	J.j_blocksize = 1024 << IN.bs_log;
#endif
	J.j_format_version = IN.format_version;
	J.j_csum_seed = IN.csum_seed;
	JSB.s_feature_incompat = ext2fs_cpu_to_be32(IN.incompat);
	JSB.s_feature_compat = ext2fs_cpu_to_be32(IN.compat);
	JSB.s_sequence = ext2fs_cpu_to_be32(IN.s_sequence);
	JSB.s_start = ext2fs_cpu_to_be32(IN.s_start);
	J.j_first = IN.j_first; J.j_last = IN.j_last; J.j_fc_first = IN.j_fc_first; J.j_fc_last = IN.j_fc_last;
	/* loaded from big-endian 32-bit superblock fields by the journal load routines */
	ASSUME(IN.j_first <= 0xffffffffUL && IN.j_last <= 0xffffffffUL && IN.j_fc_first <= 0x100000000UL && IN.j_fc_last <= 0xffffffffUL);
	J.j_total_len = IN.j_total_len;
	J.j_dev = &DEV_J; J.j_fs_dev = &DEV_FS;
	DEV_J.k_dev = K_DEV_JOURNAL; DEV_FS.k_dev = K_DEV_FS;
	INFO.start_transaction = IN.start_transaction;
	INFO.end_transaction = IN.end_transaction;
	INFO.nr_replays = IN.nr_replays; INFO.nr_revokes = IN.nr_revokes; INFO.nr_revoke_hits = IN.nr_revoke_hits;

	verif_mc_k = IN.k;
	ASSUME(verif_mc_k < (unsigned long long)J.j_blocksize);
	g_pass = IN.pass;
	g_end0 = IN.end_transaction;
	g_start1 = (IN.pass == PASS_SCAN) ? IN.s_sequence : IN.start_transaction;
	g_live = 0; g_used = 0; g_armed = 0; g_dirtied = 0; g_prev_last = 0;
	POOL0 = malloc(BH_SIZE(&J)); POOL1 = malloc(BH_SIZE(&J)); POOL2 = malloc(BH_SIZE(&J));
	ASSUME(POOL0 && POOL1 && POOL2);
	g_geom_ok = OP_NO_FC(IN.format_version, IN.incompat) && IN.j_first <= IN.s_start && IN.s_start < IN.j_last;

	int r = do_one_pass(&J, &INFO, IN.pass);

	CHECK(g_live == 0 && g_used == 0, "B: every buffer obtained by the pass was released");
#if defined(VERIF_PASS_SCAN)
	CHECK(INFO.start_transaction == IN.s_sequence, "E: SCAN starts at the superblock's s_sequence");
	REACH("scan");
#else
	CHECK(INFO.end_transaction == IN.end_transaction && INFO.start_transaction == IN.start_transaction,
	      "E: REVOKE and REPLAY leave the transaction window found by SCAN alone");
#if defined(VERIF_PASS_REPLAY)
	REACH("replay");
#else
	REACH("revoke");
#endif
#endif
	if (r) REACH("error return");
	REACH("end");
}

/* calc_chksums(): v1 (COMPAT_CHECKSUM) transaction checksum over a descriptor block and the blocks it describes */
void h_calc_chksums(void)
{
	LOAD_IN();
	ASSUME(IN.bs_log <= VERIF_MAX_BS_LOG);
	ASSUME(IN.format_version == 1 || IN.format_version == 2);
	J.j_superblock = &JSB;
	J.j_blocksize = 1024 << IN.bs_log;
	J.j_format_version = IN.format_version;
	JSB.s_feature_incompat = ext2fs_cpu_to_be32(IN.incompat);
	JSB.s_feature_compat = ext2fs_cpu_to_be32(IN.compat);
	ASSUME(IN.j_first <= 0xffffffffUL && IN.j_last <= 0xffffffffUL && IN.j_fc_first <= 0x100000000UL && IN.j_fc_last <= 0xffffffffUL);
	J.j_first = IN.j_first; J.j_last = IN.j_last; J.j_fc_first = IN.j_fc_first; J.j_fc_last = IN.j_fc_last;
	J.j_total_len = IN.j_total_len;
	J.j_dev = &DEV_J; J.j_fs_dev = &DEV_FS;
	DEV_J.k_dev = K_DEV_JOURNAL; DEV_FS.k_dev = K_DEV_FS;
	verif_mc_k = IN.k;
	ASSUME(verif_mc_k < (unsigned long long)J.j_blocksize);
	g_pass = PASS_SCAN;
	POOL0 = malloc(BH_SIZE(&J)); POOL1 = malloc(BH_SIZE(&J)); POOL2 = malloc(BH_SIZE(&J));
	ASSUME(POOL0 && POOL1 && POOL2);
	g_live = 1; g_used = 1; g_armed = 0; g_dirtied = 0;	/* the caller holds the descriptor block */
	unsigned long nlb = IN.s_start;
	__u32 crc = IN.csum_seed;
	int r = calc_chksums(&J, POOL0, &nlb, &crc);
	CHECK(r == 0 || r == 1, "calc_chksums returns 0 or 1");
	CHECK(g_live == 1 && g_used == 1, "B: every log block read for the checksum was released, the descriptor is still the caller's");
	if (r) REACH("read error"); else REACH("summed");
	REACH("end");
}
