/* VERIF-UNIT
{
 "name": "jbd2_journal_recover",
 "props": ["C03", "C04"],
 "level": "P",
 "tier": "quick",
 "harness": "h_recover",
 "enforce": ["jbd2_journal_recover"],
 "replace": ["do_one_pass"],
 "includes": ["e2fsck"],
 "functions": ["e2fsck/recovery.c:jbd2_journal_recover"],
 "assumes": ["do_one_pass replaced by a contract with a ghost log: it may return any value, sets info->start_transaction / end_transaction arbitrarily in PASS_SCAN and leaves them alone in the other passes (proved by units do_one_pass_*: statement E), and in PASS_REPLAY leaves an arbitrary number of unflushed filesystem block writes behind; its PRECONDITION is the ordering protocol (pass k is called as call number k, and only if the previous call returned 0)",
	     "sync_blockdev / jbd2_journal_clear_revoke are stubs: sync_blockdev returns a harness-chosen value and, when that is 0, resets the ghost count of unflushed filesystem writes (what a successful io_channel_flush means: C04 units sync_blockdev, C17 unix_flush); both log the order in which they are called",
	     "JBD2_BARRIER is 0 in user space (jfs_compat.h): the blkdev_issue_flush branch is dead code"],
 "native": false
}
*/
/* VERIF-UNIT
{
 "name": "jbd2_journal_recover_debugfs",
 "props": ["C03", "C04"],
 "level": "P",
 "tier": "quick",
 "harness": "h_recover",
 "enforce": ["jbd2_journal_recover"],
 "replace": ["do_one_pass"],
 "includes": ["e2fsck", "debugfs"],
 "defines": ["DEBUGFS"],
 "functions": ["e2fsck/recovery.c:jbd2_journal_recover"],
 "assumes": ["same as jbd2_journal_recover, debugfs include environment"],
 "native": false
}
*/
/* VERIF-UNIT
{
 "name": "jbd2_journal_skip_recovery",
 "props": ["C03"],
 "level": "P",
 "tier": "quick",
 "harness": "h_skip",
 "enforce": ["jbd2_journal_skip_recovery"],
 "replace": ["do_one_pass"],
 "includes": ["e2fsck"],
 "functions": ["e2fsck/recovery.c:jbd2_journal_skip_recovery"],
 "assumes": ["do_one_pass replaced by the same contract as in jbd2_journal_recover"],
 "native": false
}
*/
/*
 * jbd2_journal_recover(): the three-pass protocol (C03) and "replayed blocks are flushed before recovery reports success" (C04).
 *
 * Property text -> contract (written from the statement, not from the code):
 *   clean journal (s_start == 0): nothing is read or written, returns 0, the next transaction id is s_sequence + 1;
 *   otherwise
 *    P1 the passes run in the order SCAN, REVOKE, REPLAY, each exactly once and only if every earlier pass returned 0
 *       (this is the PRECONDITION of the do_one_pass contract, asserted at every call);
 *    P2 whatever happened, the log is restarted behind the end found by the scan: j_transaction_sequence ==
 *       end_transaction + 1 (so that stale commit records can never be taken for new ones);
 *    P3 the revoke table is cleared exactly once, after the last pass;
 *    P4 the filesystem device is synced exactly once, after the last pass, and
 *    P5 the result is the first error: a failing pass wins, otherwise the sync error is reported;
 *    P6 (C04) result 0  ==>  no filesystem block written by the replay is still unflushed.
 */
#include "verif.h"
#include "jfs_user.h"
#include <errno.h>

struct in_rc {
	unsigned int s_start, s_sequence;
	int sync_ret;			/* what sync_blockdev answers */
	unsigned int tseq0;		/* j_transaction_sequence before the call */
};
struct in_rc IN;
#include "verif_in.h"

unsigned long long verif_k;

/* ghost log */
int g_calls;			/* do_one_pass calls so far */
int g_last_ret;			/* result of the latest do_one_pass call */
int g_first_err;		/* first non-zero result of a pass (0: none) */
unsigned int g_end;		/* info->end_transaction as the latest pass left it */
unsigned int g_unflushed;	/* filesystem block writes issued by PASS_REPLAY and not yet followed by a successful flush */
int g_events;			/* clock for ordering */
int g_clear_at, g_clears;	/* when / how often jbd2_journal_clear_revoke ran */
int g_sync_at, g_syncs;		/* when / how often sync_blockdev ran */
int g_lastpass_at;		/* when the latest pass ran */
int g_sync_ret;			/* answer of sync_blockdev (harness input) */
kdev_t g_sync_dev;

#define SPEC_BE32(p) ((unsigned int)(((const unsigned char *)(p))[0]) << 24 | (unsigned int)(((const unsigned char *)(p))[1]) << 16 | \
		      (unsigned int)(((const unsigned char *)(p))[2]) << 8 | (unsigned int)(((const unsigned char *)(p))[3]))

#include "e2fsck/recovery.c"

/* struct recovery_info is private to recovery.c: the contract goes on a re-declaration after the real file */
static int do_one_pass(journal_t *journal, struct recovery_info *info, enum passtype pass)
	/* P1: the ordering protocol */
	REQUIRES((int)pass == g_calls && g_calls <= 2)
	REQUIRES(g_calls == 0 || g_last_ret == 0)
	REQUIRES(g_clears == 0 && g_syncs == 0)
	REQUIRES(g_calls != 0 || (info->start_transaction == 0 && info->end_transaction == 0 && info->nr_replays == 0 &&
				  info->nr_revokes == 0 && info->nr_revoke_hits == 0))	/* the scan starts from a zeroed record */
	ASSIGNS(__CPROVER_object_whole(info), journal->j_failed_commit, g_calls, g_last_ret, g_first_err, g_end, g_unflushed, g_events, g_lastpass_at)
	ENSURES(g_calls == OLD(g_calls) + 1 && g_last_ret == RET && g_events == OLD(g_events) + 1 && g_lastpass_at == g_events)
	ENSURES(g_first_err == (OLD(g_first_err) != 0 ? OLD(g_first_err) : RET))
	ENSURES(pass == PASS_SCAN || (info->end_transaction == OLD(info->end_transaction) && info->start_transaction == OLD(info->start_transaction)))
	ENSURES(g_end == info->end_transaction)
	ENSURES(pass == PASS_REPLAY ? g_unflushed >= OLD(g_unflushed) : g_unflushed == OLD(g_unflushed));

int jbd2_journal_recover(journal_t *journal)
	REQUIRES(g_calls == 0 && g_first_err == 0 && g_clears == 0 && g_syncs == 0 && g_events == 0 && g_unflushed == 0)
	ASSIGNS(journal->j_transaction_sequence, journal->j_failed_commit, g_calls, g_last_ret, g_first_err, g_end, g_unflushed, g_events,
		g_lastpass_at, g_clear_at, g_clears, g_sync_at, g_syncs, g_sync_dev)
	/* clean journal */
	ENSURES(SPEC_BE32(&journal->j_superblock->s_start) != 0 ||
		(RET == 0 && g_calls == 0 && g_clears == 0 && g_syncs == 0 &&
		 journal->j_transaction_sequence == SPEC_BE32(&journal->j_superblock->s_sequence) + 1u))
	/* P1 (the rest is the callee precondition): at least the scan ran; a later pass ran only after successes */
	ENSURES(SPEC_BE32(&journal->j_superblock->s_start) == 0 || (g_calls >= 1 && g_calls <= 3 && (g_calls == 3 || g_last_ret != 0)))
	/* P2 */
	ENSURES(SPEC_BE32(&journal->j_superblock->s_start) == 0 || journal->j_transaction_sequence == g_end + 1u)
	/* P3, P4 */
	ENSURES(SPEC_BE32(&journal->j_superblock->s_start) == 0 ||
		(g_clears == 1 && g_syncs == 1 && g_clear_at > g_lastpass_at && g_sync_at > g_lastpass_at && g_sync_dev == journal->j_fs_dev))
	/* P5 */
	ENSURES(SPEC_BE32(&journal->j_superblock->s_start) == 0 || RET == (g_first_err != 0 ? g_first_err : g_sync_ret))
	/* P6 */
	ENSURES(RET != 0 || g_unflushed == 0);

int jbd2_journal_skip_recovery(journal_t *journal)
	REQUIRES(g_calls == 0 && g_first_err == 0 && g_clears == 0 && g_syncs == 0 && g_events == 0 && g_unflushed == 0)
	ASSIGNS(journal->j_transaction_sequence, journal->j_tail, journal->j_failed_commit, g_calls, g_last_ret, g_first_err, g_end, g_unflushed, g_events, g_lastpass_at)
	/* one scan, nothing replayed, nothing flushed; the log is restarted behind what the scan found (or, if the scan
	 * failed, one id further than before); the journal is marked empty in memory */
	ENSURES(g_calls == 1 && g_unflushed == 0 && RET == g_last_ret && journal->j_tail == 0)
	ENSURES(RET != 0 || journal->j_transaction_sequence == g_end + 1u)
	ENSURES(RET == 0 || journal->j_transaction_sequence == OLD(journal->j_transaction_sequence) + 1u);

/* ---- stubs of the front end ---- */
void jbd2_journal_clear_revoke(journal_t *journal)
{
	g_events++;
	g_clears++;
	g_clear_at = g_events;
}
int sync_blockdev(kdev_t kdev)
{
	g_events++;
	g_syncs++;
	g_sync_at = g_events;
	g_sync_dev = kdev;
	if (g_sync_ret == 0)
		g_unflushed = 0;	/* a successful flush makes every earlier write durable */
	return g_sync_ret;
}

static journal_t J;
static journal_superblock_t JSB;
static struct kdev_s DEV_J, DEV_FS;

static void build(void)
{
	LOAD_IN();
	J.j_superblock = &JSB;
	J.j_format_version = 2;
	J.j_dev = &DEV_J; J.j_fs_dev = &DEV_FS;
	J.j_transaction_sequence = IN.tseq0;
	JSB.s_start = ext2fs_cpu_to_be32(IN.s_start);
	JSB.s_sequence = ext2fs_cpu_to_be32(IN.s_sequence);
	g_calls = 0; g_last_ret = 0; g_first_err = 0; g_end = 0; g_unflushed = 0; g_events = 0;
	g_clears = 0; g_syncs = 0; g_clear_at = 0; g_sync_at = 0; g_lastpass_at = 0; g_sync_dev = 0;
	g_sync_ret = IN.sync_ret;
}

void h_recover(void)
{
	build();
	int r = jbd2_journal_recover(&J);
	if (IN.s_start == 0) {
		CHECK(r == 0 && g_calls == 0 && g_syncs == 0 && g_clears == 0, "clean journal: nothing to do, success");
		CHECK(J.j_transaction_sequence == IN.s_sequence + 1u, "clean journal: next transaction id is s_sequence + 1");
		REACH("clean");
	} else {
		CHECK(g_calls >= 1 && (g_calls == 3 || g_last_ret != 0), "P1: all three passes ran unless one failed");
		CHECK(J.j_transaction_sequence == g_end + 1u, "P2: the log restarts behind the end found by the scan");
		CHECK(g_clears == 1 && g_clear_at > g_lastpass_at, "P3: revoke table cleared once, after the last pass");
		CHECK(g_syncs == 1 && g_sync_at > g_lastpass_at && g_sync_dev == &DEV_FS, "P4: filesystem device synced once, after the last pass");
		CHECK(r == (g_first_err ? g_first_err : IN.sync_ret), "P5: first error wins, then the sync error");
		if (g_calls == 3 && g_first_err == 0 && IN.sync_ret != 0) REACH("replayed but flush failed: error returned");
		if (g_calls == 3 && r == 0) REACH("full success");
		if (g_calls == 1) REACH("scan failed");
		if (g_calls == 2) REACH("revoke pass failed");
	}
	CHECK(r != 0 || g_unflushed == 0, "P6 (C04): success means no replayed block is still unflushed");
	REACH("end");
}

void h_skip(void)
{
	build();
	int r = jbd2_journal_skip_recovery(&J);
	CHECK(g_calls == 1 && g_syncs == 0 && g_unflushed == 0, "skip: exactly one scan, no replay");
	CHECK(J.j_tail == 0, "skip: journal marked empty in memory");
	if (r == 0) {
		CHECK(J.j_transaction_sequence == g_end + 1u, "skip: the log restarts behind what the scan found");
		REACH("skip ok");
	} else {
		CHECK(J.j_transaction_sequence == IN.tseq0 + 1u, "skip: after a failed scan the id still moves on");
		REACH("skip failed");
	}
	REACH("end");
}
