/* VERIF-UNIT
{
 "name": "ext2_file_type",
 "props": ["C18"],
 "level": "U",
 "tier": "quick",
 "harness": "h_ext2_file_type",
 "enforce": ["ext2_file_type"],
 "includes": ["misc"],
 "functions": ["misc/create_inode.c:ext2_file_type"],
 "assumes": [],
 "native": false
}
*/
/* VERIF-UNIT
{
 "name": "set_inode_extra",
 "props": ["C18"],
 "level": "U",
 "tier": "quick",
 "harness": "h_set_inode_extra",
 "enforce": ["set_inode_extra"],
 "backend": "cadical",
 "includes": ["misc"],
 "unwind": 6,
 "unwind_reason": "loop-free; the bound serves the DFCC library's write-set loops",
 "functions": ["misc/create_inode.c:set_inode_extra", "misc/create_inode.c:clamped_time"],
 "assumes": ["ext2fs_read_inode / ext2fs_write_inode are stubs over one ghost inode (128-byte struct ext2_inode, so no extra-time fields) that may fail with a code chosen by the harness",
             "com_err is a no-op stub, gettext the identity"],
 "native": false
}
*/
/* VERIF-UNIT
{
 "name": "is_hardlink",
 "props": ["C18"],
 "level": "U",
 "tier": "quick",
 "harness": "h_is_hardlink",
 "enforce": ["is_hardlink"],
 "loop_contracts": true,
 "includes": ["misc"],
 "unwind": 6,
 "unwind_reason": "the loop is closed by its in-place loop contract; the bound serves the DFCC library's write-set loops",
 "functions": ["misc/create_inode.c:is_hardlink"],
 "assumes": ["0 <= count <= 2^20 recorded pairs (object-size cap), array of exactly count elements",
             "needs the VERIF_LOOP hook in misc/create_inode.c (hooks-pending/b8.diff)"],
 "native": false
}
*/
#include "verif.h"

/* ghost registers */
unsigned long long verif_k;	/* is_hardlink: an arbitrary table index */
int verif_old_bit;
unsigned long long verif_g0, verif_g1, verif_g2, verif_g3, verif_g4, verif_g5, verif_g6, verif_g7;
const unsigned char *verif_p0, *verif_p1, *verif_p2, *verif_p3;

#define _LARGEFILE64_SOURCE 1
#define _GNU_SOURCE 1
#include "config.h"
#include <sys/stat.h>
#include <sys/types.h>
#include <ext2fs/ext2fs.h>
#include "create_inode.h"

struct in_s {
	unsigned int mode;
	struct ext2_inode inode;	/* ghost inode as stored before the call */
	unsigned int uid, gid, st_mode;
	long atime, ctime, mtime, now;
	int fake_time;
	long read_ret, write_ret;
	int count, k;
	unsigned long dev, ino;
};
struct in_s IN;
#include "verif_in.h"

/* ---- independent statements (POSIX <-> ext4 on-disk encodings; Documentation/filesystems/ext4 "Directory Entries", "Index Nodes") ---- */
static int spec_file_type(unsigned int mode)
{
	switch (mode & 0170000) {
	case 0100000: return 1;	/* regular  -> EXT4_FT_REG_FILE */
	case 0040000: return 2;	/* dir      -> EXT4_FT_DIR */
	case 0020000: return 3;	/* chrdev   -> EXT4_FT_CHRDEV */
	case 0060000: return 4;	/* blkdev   -> EXT4_FT_BLKDEV */
	case 0010000: return 5;	/* fifo     -> EXT4_FT_FIFO */
	case 0140000: return 6;	/* socket   -> EXT4_FT_SOCK */
	case 0120000: return 7;	/* symlink  -> EXT4_FT_SYMLINK */
	}
	return 0;
}

static struct ext2_inode G_INODE;	/* the ghost inode */
static int g_reads, g_writes;
static ext2_ino_t g_ino_read, g_ino_written;

static int ext2_file_type(unsigned int mode)
	ENSURES(RET == spec_file_type(mode))
	ASSIGNS();

errcode_t set_inode_extra(ext2_filsys fs, ext2_ino_t ino, const struct stat *st)
	REQUIRES(g_reads == 0 && g_writes == 0)
	ENSURES(g_reads == 1 && g_ino_read == ino && g_writes <= 1)
	ENSURES(RET != 0 || (g_writes == 1 && g_ino_written == ino))
	/* ownership: the full 32-bit ids, split into the low and high on-disk halves; permissions: st_mode & 07777 */
	ENSURES(RET != 0 || (G_INODE.i_uid == (st->st_uid & 0xFFFF) && G_INODE.osd2.linux2.l_i_uid_high == (st->st_uid >> 16)))
	ENSURES(RET != 0 || (G_INODE.i_gid == (st->st_gid & 0xFFFF) && G_INODE.osd2.linux2.l_i_gid_high == (st->st_gid >> 16)))
	ENSURES(RET != 0 || (G_INODE.i_mode & 07777) == (st->st_mode & 07777))
	ASSIGNS(G_INODE, g_reads, g_writes, g_ino_read, g_ino_written);

static int is_hardlink(struct hdlinks_s *hdlinks, dev_t dev, ino_t ino)
	REQUIRES(hdlinks->count >= 0)
	ENSURES(RET >= -1 && RET < hdlinks->count)
	/* found: the pair at RET is the one asked for, and it is the first such pair */
	ENSURES(RET < 0 || (hdlinks->hdl[RET].src_dev == dev && hdlinks->hdl[RET].src_ino == ino))
	/* for the arbitrary index verif_k below the result (or below count when nothing was found): no match */
	ENSURES(!(verif_k < (unsigned long long)(RET < 0 ? hdlinks->count : RET)) ||
		!(hdlinks->hdl[verif_k].src_dev == dev && hdlinks->hdl[verif_k].src_ino == ino))
	ASSIGNS();

/* stubs for the library calls of set_inode_extra */
errcode_t ext2fs_read_inode(ext2_filsys fs, ext2_ino_t ino, struct ext2_inode *inode)
{
	g_reads++;
	g_ino_read = ino;
	if (IN.read_ret)
		return IN.read_ret;
	*inode = G_INODE;
	return 0;
}
errcode_t ext2fs_write_inode(ext2_filsys fs, ext2_ino_t ino, struct ext2_inode *inode)
{
	g_writes++;
	g_ino_written = ino;
	if (IN.write_ret)
		return IN.write_ret;
	G_INODE = *inode;
	return 0;
}
void com_err(const char *whoami, long code, const char *fmt, ...) { }
char *gettext(const char *msgid) { return (char *)msgid; }	/* NLS: identity */

#include "misc/create_inode.c"

void h_ext2_file_type(void)
{
	LOAD_IN();
	int r = ext2_file_type(IN.mode);
	CHECK(r == spec_file_type(IN.mode), "POSIX type bits map to the EXT2_FT_* code of the format, 0 otherwise");
	CHECK((r == 0) == !((IN.mode & 0170000) == 0100000 || (IN.mode & 0170000) == 0040000 || (IN.mode & 0170000) == 0020000 ||
			    (IN.mode & 0170000) == 0060000 || (IN.mode & 0170000) == 0010000 || (IN.mode & 0170000) == 0140000 ||
			    (IN.mode & 0170000) == 0120000), "total: exactly the seven POSIX types get a non-zero code");
	if (r == 6) REACH("sock");
	if (r == 0) REACH("unknown");
	REACH("end");
}

void h_set_inode_extra(void)
{
	LOAD_IN();
	struct struct_ext2_filsys *fs = malloc(sizeof(*fs));
	struct stat *st = malloc(sizeof(*st));
	ASSUME(fs && st);
	memset(fs, 0, sizeof(*fs));
	memset(st, 0, sizeof(*st));
	fs->now = IN.now;
	fs->flags2 = IN.fake_time ? EXT2_FLAG2_USE_FAKE_TIME : 0;
	st->st_uid = IN.uid; st->st_gid = IN.gid; st->st_mode = IN.st_mode;
	st->st_atime = IN.atime; st->st_ctime = IN.ctime; st->st_mtime = IN.mtime;
	/* the host times of the statement: whole seconds between 1970 and 2038 */
	ASSUME(IN.atime >= 0 && IN.atime < 0x80000000L && IN.ctime >= 0 && IN.ctime < 0x80000000L && IN.mtime >= 0 && IN.mtime < 0x80000000L);
	ASSUME(IN.now >= 0 && IN.now < 0x80000000L);
	G_INODE = IN.inode;
	g_reads = g_writes = 0;
	errcode_t r = set_inode_extra(fs, 12345, st);
	CHECK(g_reads == 1 && g_ino_read == 12345, "reads the inode once");
	if (IN.read_ret) {
		CHECK(r == IN.read_ret && g_writes == 0, "read error: passed on, nothing written");
		CHECK(((unsigned char *)&G_INODE)[IN.k & 127] == ((unsigned char *)&IN.inode)[IN.k & 127], "read error: stored inode untouched (arbitrary byte k)");
		REACH("read-error");
		return;
	}
	CHECK(g_writes == 1 && g_ino_written == 12345, "writes the same inode once");
	CHECK(r == IN.write_ret, "result is the result of the write");
	if (r == 0) {
		struct ext2_inode *i = &G_INODE;
		CHECK(i->i_uid == (IN.uid & 0xFFFF) && i->osd2.linux2.l_i_uid_high == (IN.uid >> 16), "uid: all 32 bits, split low/high");
		CHECK(i->i_gid == (IN.gid & 0xFFFF) && i->osd2.linux2.l_i_gid_high == (IN.gid >> 16), "gid: all 32 bits, split low/high");
		CHECK((i->i_mode & 07777) == (IN.st_mode & 07777), "permission bits incl. suid/sgid/sticky are the host's");
		CHECK((i->i_mode & 0170000) == (IN.inode.i_mode & 0170000), "type bits keep what the creator set");
		long ea = (IN.fake_time && IN.atime > IN.now) ? IN.now : IN.atime;
		long ec = (IN.fake_time && IN.ctime > IN.now) ? IN.now : IN.ctime;
		long em = (IN.fake_time && IN.mtime > IN.now) ? IN.now : IN.mtime;
		CHECK(i->i_atime == (__u32)ea && i->i_ctime == (__u32)ec && i->i_mtime == (__u32)em, "a/c/mtime seconds are the host's (clamped to fs->now only under the fake-time flag)");
		/* nothing else changes: arbitrary byte k of the 128-byte on-disk inode outside the fields named above */
		unsigned int k = IN.k & 127;
		int touched = (k < 4) /* i_mode, i_uid */ || (k >= 8 && k < 20) /* a/c/mtime */ || (k >= 24 && k < 26) /* i_gid */ ||
			      (k >= 120 && k < 124) /* uid_high, gid_high */;
		CHECK(touched || ((unsigned char *)i)[k] == ((unsigned char *)&IN.inode)[k], "no other inode byte changes (size, links, blocks, flags, dtime, i_block ...)");
		REACH("written");
	}
	REACH("end");
}

void h_is_hardlink(void)
{
	LOAD_IN();
	ASSUME(IN.count >= 0 && IN.count <= (1 << 20));
	struct hdlinks_s *h = malloc(sizeof(*h));
	ASSUME(h != 0);
	h->count = IN.count;
	h->size = IN.count;
	h->hdl = malloc((size_t)IN.count * sizeof(struct hdlink_s));	/* contents arbitrary */
	ASSUME(h->hdl != 0);
	verif_k = (unsigned int)IN.k;
	int r = is_hardlink(h, IN.dev, IN.ino);
	CHECK(r >= -1 && r < IN.count, "result is -1 or a table index");
	if (r >= 0) {
		CHECK(h->hdl[r].src_dev == IN.dev && h->hdl[r].src_ino == IN.ino, "found: the recorded (dev, ino) pair is the one asked for");
		CHECK(!(verif_k < (unsigned long long)r) || !(h->hdl[verif_k].src_dev == IN.dev && h->hdl[verif_k].src_ino == IN.ino), "found: it is the first such pair");
		REACH("found");
	} else {
		CHECK(!(verif_k < (unsigned long long)IN.count) || !(h->hdl[verif_k].src_dev == IN.dev && h->hdl[verif_k].src_ino == IN.ino), "-1 only if no recorded pair matches");
		if (IN.count > 0) REACH("not-found-nonempty");
	}
	REACH("end");
}
