/* VERIF-UNIT
{
 "name": "xattr_hash_entry",
 "props": ["C15"],
 "level": "U",
 "tier": "quick",
 "harness": "h_hash_entry",
 "enforce": ["ext2fs_ext_attr_hash_entry"],
 "loop_contracts": true,
 "unwind": 6,
 "unwind_reason": "both loops are closed by in-place loop contracts; the bound serves the DFCC library's write-set loops (unwinding assertions on)",
 "functions": ["lib/ext2fs/ext_attr.c:ext2fs_ext_attr_hash_entry"],
 "assumes": ["entry header + name_len name bytes readable; data readable for the value rounded up to 4 bytes; e_value_size <= 2^24 (EXT2_XATTR_SIZE_MAX)",
             "the specification (kernel step macros, specs/parsers_spec_xattr.h) runs as a ghost fold in lockstep inside the loop contract; unit xattr_hash_entry_small cross-checks that fold against a transcription of the kernel function for small sizes",
             "needs the VERIF_LOOP hook in lib/ext2fs/ext_attr.c (hooks-pending/b8.diff)"],
 "native": false
}
*/
/* VERIF-UNIT
{
 "name": "xattr_hash_entry_signed",
 "props": ["C15"],
 "level": "U",
 "tier": "quick",
 "harness": "h_hash_entry_signed",
 "enforce": ["ext2fs_ext_attr_hash_entry_signed"],
 "loop_contracts": true,
 "unwind": 6,
 "unwind_reason": "both loops are closed by in-place loop contracts; the bound serves the DFCC library's write-set loops (unwinding assertions on)",
 "functions": ["lib/ext2fs/ext_attr.c:ext2fs_ext_attr_hash_entry_signed"],
 "assumes": ["as xattr_hash_entry"],
 "native": false
}
*/
/* VERIF-UNIT
{
 "name": "xattr_hash_entry_small",
 "props": ["C15"],
 "level": "B(4,8)",
 "tier": "quick",
 "harness": "h_hash_entry_small",
 "unwind": 10,
 "unwind_reason": "bounded cross-check: name_len <= 4, value <= 8 bytes (2 words; the harness copies up to 8 bytes); loops unwound, unwinding assertions on",
 "functions": ["lib/ext2fs/ext_attr.c:ext2fs_ext_attr_hash_entry", "lib/ext2fs/ext_attr.c:ext2fs_ext_attr_hash_entry_signed"],
 "assumes": ["BOUNDED: name_len <= 4 and e_value_size <= 8; compares both real functions AND the lockstep ghost fold with a transcription of the kernel's ext4_xattr_hash_entry{,_signed}"],
 "native": true
}
*/
/* VERIF-UNIT
{
 "name": "xattr_hash_entry3",
 "props": ["C15"],
 "level": "U",
 "tier": "quick",
 "harness": "h_hash_entry3",
 "enforce": ["ext2fs_ext_attr_hash_entry3"],
 "replace": ["ext2fs_ext_attr_hash_entry", "ext2fs_ext_attr_hash_entry_signed", "read_ea_inode_hash"],
 "unwind": 6,
 "unwind_reason": "loop-free after the callees are replaced by contract; the bound serves the DFCC library's write-set loops",
 "functions": ["lib/ext2fs/ext_attr.c:ext2fs_ext_attr_hash_entry3"],
 "assumes": ["read_ea_inode_hash replaced by the contract 'returns an error, or 0 and the EA inode's stored hash' (ASSUMED: it is ext2fs_read_inode + ext2fs_get_ea_inode_hash, the latter proved in ea_inode_ref_hash)"],
 "native": false
}
*/
/* VERIF-UNIT
{
 "name": "ea_inode_ref_hash",
 "props": ["C15"],
 "level": "U",
 "tier": "quick",
 "harness": "h_ea_inode_ref_hash",
 "functions": ["lib/ext2fs/ext_attr.c:ext2fs_get_ea_inode_ref", "lib/ext2fs/ext_attr.c:ext2fs_set_ea_inode_ref", "lib/ext2fs/ext_attr.c:ext2fs_get_ea_inode_hash", "lib/ext2fs/ext_attr.c:ext2fs_set_ea_inode_hash"],
 "assumes": [],
 "native": true
}
*/
#include "xattr_common.h"

#define MAXNAME 255
struct in_s {
	struct ext2_ext_attr_entry e;
	unsigned char name[8];		/* used by the bounded unit and by native replay */
	unsigned char value[16];
	unsigned int ea_hash;
	long ea_ret;
	unsigned char want_signed;
	struct ext2_inode inode;
	unsigned long long ref;
	unsigned int hash;
	unsigned int which;
};
struct in_s IN;
#include "verif_in.h"

#define NO_VALUE_PHASE(e) ((e)->e_value_inum != 0 || (e)->e_value_size == 0)

__u32 ext2fs_ext_attr_hash_entry(struct ext2_ext_attr_entry *entry, void *data)
	REQUIRES(verif_g0 == 0)
	REQUIRES(entry->e_value_size <= (1u << 24))
	ENSURES(RET == (__u32)verif_g0)		/* = the kernel's fold over name bytes, then value words (ghost, see hook) */
	ENSURES(!(entry->e_name_len == 0 && NO_VALUE_PHASE(entry)) || RET == 0)
	ASSIGNS(verif_g0);

__u32 ext2fs_ext_attr_hash_entry_signed(struct ext2_ext_attr_entry *entry, void *data)
	REQUIRES(verif_g1 == 0)
	REQUIRES(entry->e_value_size <= (1u << 24))
	ENSURES(RET == (__u32)verif_g1)
	ENSURES(!(entry->e_name_len == 0 && NO_VALUE_PHASE(entry)) || RET == 0)
	ASSIGNS(verif_g1);

static errcode_t read_ea_inode_hash(ext2_filsys fs, ext2_ino_t ino, __u32 *hash)
	ENSURES(RET == (errcode_t)verif_g2)
	ENSURES(RET != 0 || *hash == (__u32)verif_g3)
	ASSIGNS(*hash);

/* kernel: an entry whose value lives in an EA inode hashes the name, then ONE value step with the EA inode's hash */
errcode_t ext2fs_ext_attr_hash_entry3(ext2_filsys fs, struct ext2_ext_attr_entry *entry, void *data,
				      __u32 *hash, __u32 *signed_hash)
	REQUIRES(verif_g0 == 0 && verif_g1 == 0 && entry->e_value_size <= (1u << 24))
	ENSURES(RET == (entry->e_value_inum ? (errcode_t)verif_g2 : 0))
	ENSURES(RET != 0 || *hash == (entry->e_value_inum ? PSPEC_XATTR_VALUE_STEP((__u32)verif_g0, (__u32)verif_g3) : (__u32)verif_g0))
	ENSURES(RET != 0 || signed_hash == 0 ||
		*signed_hash == (entry->e_value_inum ? PSPEC_XATTR_VALUE_STEP((__u32)verif_g1, (__u32)verif_g3) : (__u32)verif_g1))
	ASSIGNS(*hash, *signed_hash, verif_g0, verif_g1);

#include "lib/ext2fs/ext_attr.c"

/* transcription of fs/ext4/xattr.c:ext4_xattr_hash_entry / _signed (the oracle of the bounded unit) */
static unsigned int spec_kernel_hash(const unsigned char *name, unsigned int name_len,
				     const unsigned char *value, unsigned int value_count, int is_signed)
{
	unsigned int hash = 0, i = 0;
	while (name_len--) {
		unsigned int c = is_signed ? (unsigned int)(int)(signed char)name[i] : (unsigned int)name[i];
		hash = (hash << 5) ^ (hash >> 27) ^ c;
		i++;
	}
	i = 0;
	while (value_count--) {
		hash = (hash << 16) ^ (hash >> 16) ^ PSPEC_XATTR_LE32_AT(value, 4 * i);
		i++;
	}
	return hash;
}

static struct ext2_ext_attr_entry *E;
static unsigned char *DATA;
static void build(unsigned int max_name, unsigned int max_value)
{
	LOAD_IN();
	ASSUME(IN.e.e_name_len <= max_name);
	ASSUME(IN.e.e_value_size <= max_value);
	/* entry: exactly header + name bytes; value: exactly the rounded-up size (only if it will be read) */
	unsigned char *raw = malloc(sizeof(struct ext2_ext_attr_entry) + IN.e.e_name_len);
	ASSUME(raw != 0);
	E = (struct ext2_ext_attr_entry *)raw;
	*E = IN.e;
	unsigned int vbytes = 4 * PSPEC_XATTR_NWORDS(IN.e.e_value_size);
	DATA = (IN.e.e_value_inum == 0 && IN.e.e_value_size != 0) ? malloc(vbytes) : 0;
	ASSUME(DATA != 0 || IN.e.e_value_inum != 0 || IN.e.e_value_size == 0);
	if (max_name <= 8) {
		for (unsigned int i = 0; i < IN.e.e_name_len; i++)
			raw[sizeof(struct ext2_ext_attr_entry) + i] = IN.name[i];
		if (DATA)
			for (unsigned int i = 0; i < vbytes; i++)
				DATA[i] = IN.value[i];
	}
	verif_g0 = 0;
	verif_g1 = 0;
}

void h_hash_entry(void)
{
	build(255, 1u << 24);
	__u32 h = ext2fs_ext_attr_hash_entry(E, DATA);
	CHECK(h == (__u32)verif_g0, "unsigned entry hash equals the kernel fold (ghost)");
	if (IN.e.e_name_len == 0 && NO_VALUE_PHASE(&IN.e))
		CHECK(h == 0, "nothing to hash gives 0");
	if (DATA) REACH("with-value");
	if (IN.e.e_value_inum) REACH("ea-inode");
	REACH("end");
}

void h_hash_entry_signed(void)
{
	build(255, 1u << 24);
	__u32 h = ext2fs_ext_attr_hash_entry_signed(E, DATA);
	CHECK(h == (__u32)verif_g1, "signed entry hash equals the kernel fold (ghost)");
	if (IN.e.e_name_len == 0 && NO_VALUE_PHASE(&IN.e))
		CHECK(h == 0, "nothing to hash gives 0");
	if (DATA) REACH("with-value");
	REACH("end");
}

void h_hash_entry_small(void)
{
	build(4, 8);
	unsigned int nw = DATA ? PSPEC_XATTR_NWORDS(IN.e.e_value_size) : 0;
	__u32 hu = ext2fs_ext_attr_hash_entry(E, DATA);
	__u32 hs = ext2fs_ext_attr_hash_entry_signed(E, DATA);
	CHECK(hu == spec_kernel_hash(IN.name, IN.e.e_name_len, IN.value, nw, 0), "unsigned hash == kernel ext4_xattr_hash_entry");
	CHECK(hs == spec_kernel_hash(IN.name, IN.e.e_name_len, IN.value, nw, 1), "signed hash == kernel ext4_xattr_hash_entry_signed");
#ifndef VERIF_NATIVE
	CHECK((__u32)verif_g0 == hu && (__u32)verif_g1 == hs, "lockstep ghost folds agree with the kernel transcription");
#endif
	if (hu != hs) REACH("variants-differ");
	if (nw == 2 && IN.e.e_name_len == 4) REACH("max");
	REACH("end");
}

void h_hash_entry3(void)
{
	LOAD_IN();
	struct ext2_ext_attr_entry *e = malloc(sizeof(*e));
	ASSUME(e != 0);
	*e = IN.e;
	ASSUME(e->e_value_size <= (1u << 24));
	verif_g0 = 0; verif_g1 = 0;
	verif_g2 = (unsigned long long)IN.ea_ret;
	verif_g3 = IN.ea_hash;
	__u32 hu = 0x11111111, hs = 0x22222222;
	errcode_t r = ext2fs_ext_attr_hash_entry3(0, e, 0, &hu, IN.want_signed ? &hs : 0);
	__u32 Hu = (__u32)verif_g0, Hs = (__u32)verif_g1;	/* results of the two plain hash functions (by contract) */
	if (IN.e.e_value_inum == 0) {
		CHECK(r == 0, "no EA inode: cannot fail");
		CHECK(hu == Hu, "no EA inode: hash is the plain entry hash");
		CHECK(!IN.want_signed || hs == Hs, "no EA inode: signed hash is the plain signed entry hash");
		REACH("plain");
	} else {
		CHECK(r == (errcode_t)IN.ea_ret, "EA inode: error of reading it is passed on");
		if (r == 0) {
			CHECK(hu == (PSPEC_ROL32(Hu, 16) ^ IN.ea_hash), "EA inode hash folded in exactly once (unsigned)");
			CHECK(!IN.want_signed || hs == (PSPEC_ROL32(Hs, 16) ^ IN.ea_hash), "EA inode hash folded in exactly once (signed)");
			REACH("ea-inode");
		}
	}
	CHECK(IN.want_signed || hs == 0x22222222, "no signed out pointer: nothing written");
	REACH("end");
}

void h_ea_inode_ref_hash(void)
{
	LOAD_IN();
	struct ext2_inode *ino = malloc(sizeof(*ino));
	ASSUME(ino != 0);
	*ino = IN.inode;
	struct ext2_inode before = *ino;
	if (IN.which & 1) {
		ext2fs_set_ea_inode_ref(ino, IN.ref);
		CHECK(ext2fs_get_ea_inode_ref(ino) == IN.ref, "get_ref(set_ref(r)) == r for every 64-bit r");
		/* on-disk placement (kernel: ref count lives in i_ctime (high) and i_version (low)) */
		CHECK(ino->i_ctime == (__u32)(IN.ref >> 32) && ino->osd1.linux1.l_i_version == (__u32)IN.ref, "ref: high half in i_ctime, low half in l_i_version");
		before.i_ctime = ino->i_ctime;
		before.osd1.linux1.l_i_version = ino->osd1.linux1.l_i_version;
		CHECK(memcmp(&before, ino, sizeof(before)) == 0, "set_ref touches no other inode field");
		REACH("ref");
	} else {
		ext2fs_set_ea_inode_hash(ino, IN.hash);
		CHECK(ext2fs_get_ea_inode_hash(ino) == IN.hash, "get_hash(set_hash(h)) == h");
		CHECK(ino->i_atime == IN.hash, "hash lives in i_atime (kernel: ext4_xattr_inode_set_hash)");
		before.i_atime = ino->i_atime;
		CHECK(memcmp(&before, ino, sizeof(before)) == 0, "set_hash touches no other inode field");
		REACH("hash");
	}
	/* the two fields do not overlap: a ref update keeps the hash and vice versa is covered by 'no other field' */
	REACH("end");
}
