/* VERIF-UNIT
{
 "name": "get_dirent_tail",
 "props": ["C06"],
 "level": "U",
 "tier": "quick",
 "harness": "h_get_dirent_tail",
 "enforce": ["__get_dirent_tail"],
 "loop_contracts": true,
 "unwind": 6,
 "unwind_reason": "the only loop of the function is closed by its in-place loop contract; the bound serves the DFCC library's write-set loops (unwinding assertions on)",
 "functions": ["lib/ext2fs/csum.c:__get_dirent_tail"],
 "assumes": ["the directory block has exactly fs->blocksize bytes, 16 <= blocksize <= 65536, contents arbitrary (block sizes below 1024 must be refused)",
             "little-endian host: need_swab (either value) does not change the reading",
             "needs the VERIF_LOOP hook in lib/ext2fs/csum.c (hooks-pending/b8.diff)"],
 "exclude": [{"match": "pointer relation: pointer outside object bounds", "reason": "the loop advances d by an unvalidated rec_len and then only COMPARES it (d < top, d > dirent+blocksize); forming/comparing a pointer past the object is undefined by the letter of C but no memory is accessed, so it is outside the statement of C06 (out-of-bounds ACCESS); every dereference obligation stays checked"}],
 "native": false
}
*/
/* VERIF-UNIT
{
 "name": "get_dx_countlimit",
 "props": ["C06"],
 "level": "U",
 "tier": "quick",
 "harness": "h_get_dx_countlimit",
 "enforce": ["__get_dx_countlimit"],
 "unwind": 6,
 "unwind_reason": "loop-free function; the bound serves the DFCC library's write-set loops (unwinding assertions on)",
 "functions": ["lib/ext2fs/csum.c:__get_dx_countlimit"],
 "assumes": ["the directory block has exactly fs->blocksize bytes, 1024 <= blocksize <= 65536 (ext2fs_open2 limits), contents arbitrary",
             "little-endian host: need_swab (either value) does not change the reading"],
 "native": false
}
*/
/*
 * get_dirent_tail: on the unchanged tree two pointer-COMPARISON obligations of the real code fail and are excluded
 * (see "exclude" above; they are listed in the evidence):
 *   __get_dirent_tail.pointer_arithmetic "pointer relation: pointer outside object bounds in (void *)d"  (csum.c `while ((void *) d < top)`)
 *   __get_dirent_tail.pointer_arithmetic "pointer relation: pointer outside object bounds in (char *)d"  (csum.c `if ((char *)d > ((char *)dirent + fs->blocksize))`)
 * e.g. blocksize 1024, first rec_len = 65532: d is advanced 64 KiB past the end of the block buffer and then
 * compared.  Forming/comparing such a pointer is undefined by the letter of C (6.5.6p8, 6.5.8p5) but it is
 * never dereferenced: every dereference obligation (d->rec_len, the tail fields) is discharged for arbitrary
 * block bytes, as are the loop contract, the frame and all postconditions.  Not observable at C06's observation
 * points (ASan/UBSan/signal), so it is reported as an observation, not as a C06 defect.
 */
#include "verif.h"
#include "config.h"
#include <stdio.h>
#include <string.h>
#include <stdlib.h>
#include "ext2_fs.h"
#include "ext2fs.h"
#include "parsers_spec_le.h"

struct in_s {
	unsigned int blocksize;
	int need_swab;
	unsigned char want_tt, want_cc, want_off;
};
struct in_s IN;
#include "verif_in.h"

void *verif_old_out;	/* ghost: *tt / *cc on entry */
int verif_old_off;	/* ghost: *offset on entry */

/*
 * Format (Documentation/filesystems/ext4, "Directory Entries" / "Hash Tree Directories"):
 *  - leaf block with metadata_csum: the last 12 bytes are struct ext4_dir_entry_tail
 *      { le32 det_reserved_zero1 = 0; le16 det_rec_len = 12; u8 det_reserved_zero2 = 0;
 *        u8 det_reserved_ft = 0xDE; le32 det_checksum; }            (name_len/file_type as le16: 0xDE00)
 *  - dx node: fake dirent {inode 0, rec_len = blocksize, name_len 0} then dx_countlimit at byte 8;
 *    dx root: "." (rec_len 12), ".." (rec_len blocksize-12), dx_root_info at 24
 *      { le32 reserved_zero = 0; u8 hash_version; u8 info_length = 8; u8 indirect_levels; u8 unused_flags }
 *    then dx_countlimit { le16 limit; le16 count } at byte 32, followed by `limit` 8-byte dx_entry slots
 *    (the countlimit occupies the first slot), all inside the block.
 */
#define SPEC_TAIL_SHAPE_AT(b, off) (PSPEC_LE32(b, off) == 0 && PSPEC_LE16(b, (off) + 4) == 12 && PSPEC_LE16(b, (off) + 6) == 0xDE00u)
#define SPEC_DX_NODE_HDR(b, bs) (PSPEC_LE16(b, 4) == (bs) && PSPEC_LE16(b, 6) == 0)
#define SPEC_DX_ROOT_HDR(b, bs) (PSPEC_LE16(b, 4) == 12 && PSPEC_LE16(b, 12 + 4) == (bs) - 12 && \
				 PSPEC_LE32(b, 24) == 0 && ((const unsigned char *)(b))[24 + 5] == 8)
#define SPEC_CL_FITS(b, off, bs) ((unsigned long)(off) + 8ul * PSPEC_LE16(b, off) <= (bs) && \
				  (unsigned long)(off) + 8ul * PSPEC_LE16(b, (off) + 2) <= (bs))

static errcode_t __get_dirent_tail(ext2_filsys fs, struct ext2_dir_entry *dirent,
				   struct ext2_dir_entry_tail **tt, int need_swab)
	REQUIRES(fs->blocksize >= 16 && fs->blocksize <= 65536)
	REQUIRES(tt == 0 || verif_old_out == *tt)
	ENSURES(RET == 0 || RET == EXT2_FILSYS_CORRUPTED || RET == EXT2_ET_DIR_CORRUPTED || RET == EXT2_ET_DIR_NO_SPACE_FOR_CSUM)
	ENSURES((fs->blocksize < 1024) == (RET == EXT2_FILSYS_CORRUPTED))
	/* accepted => the last 12 bytes of the block are a checksum tail of the required shape, and that is what is returned */
	ENSURES(RET != 0 || SPEC_TAIL_SHAPE_AT(dirent, fs->blocksize - 12))
	ENSURES(RET != 0 || tt == 0 || (char *)*tt == (char *)dirent + (fs->blocksize - 12))
	ENSURES(RET == 0 || tt == 0 || *tt == verif_old_out)
	/* converses the code promises: a block whose last 12 bytes are not a tail, or whose first record is malformed, is refused */
	ENSURES(fs->blocksize < 1024 || SPEC_TAIL_SHAPE_AT(dirent, fs->blocksize - 12) || RET != 0)
	ENSURES(fs->blocksize < 1024 || (PSPEC_LE16(dirent, 4) >= 8 && (PSPEC_LE16(dirent, 4) & 3) == 0) || RET == EXT2_ET_DIR_CORRUPTED)
	ASSIGNS(*tt);

static errcode_t __get_dx_countlimit(ext2_filsys fs, struct ext2_dir_entry *dirent,
				     struct ext2_dx_countlimit **cc, int *offset, int need_swab)
	REQUIRES(fs->blocksize >= 1024 && fs->blocksize <= 65536)
	REQUIRES((cc == 0 || verif_old_out == *cc) && (offset == 0 || verif_old_off == *offset))
	ENSURES(RET == 0 || RET == EXT2_ET_DB_NOT_FOUND || RET == EXT2_ET_DIR_NO_SPACE_FOR_CSUM)
	/* not a dx block at all <=> DB_NOT_FOUND (blocksize 65536 cannot be written in 16 bits: never a dx node) */
	ENSURES((RET == EXT2_ET_DB_NOT_FOUND) == !(SPEC_DX_NODE_HDR(dirent, fs->blocksize) || SPEC_DX_ROOT_HDR(dirent, fs->blocksize)))
	/* accepted => count/limit sit at byte 8 (node) or 32 (root) and both describe arrays that end inside the block */
	ENSURES(RET != 0 || (SPEC_DX_NODE_HDR(dirent, fs->blocksize) ? SPEC_CL_FITS(dirent, 8, fs->blocksize)
								      : SPEC_CL_FITS(dirent, 32, fs->blocksize)))
	ENSURES(RET != EXT2_ET_DIR_NO_SPACE_FOR_CSUM || !(SPEC_DX_NODE_HDR(dirent, fs->blocksize) ? SPEC_CL_FITS(dirent, 8, fs->blocksize)
								      : SPEC_CL_FITS(dirent, 32, fs->blocksize)))
	ENSURES(RET != 0 || offset == 0 || *offset == (SPEC_DX_NODE_HDR(dirent, fs->blocksize) ? 8 : 32))
	ENSURES(RET != 0 || cc == 0 || (char *)*cc == (char *)dirent + (SPEC_DX_NODE_HDR(dirent, fs->blocksize) ? 8 : 32))
	ENSURES(RET == 0 || ((cc == 0 || *cc == verif_old_out) && (offset == 0 || *offset == verif_old_off)))
	ASSIGNS(*cc, *offset);

#include "lib/ext2fs/csum.c"

static struct struct_ext2_filsys *fs;
static unsigned char *blk;
static void build(void)
{
	LOAD_IN();
	fs = malloc(sizeof(*fs));
	ASSUME(fs != 0);
	memset(fs, 0, sizeof(*fs));
	fs->blocksize = IN.blocksize;
	blk = malloc(IN.blocksize);	/* exactly one block; contents arbitrary */
	ASSUME(blk != 0);
}

void h_get_dirent_tail(void)
{
	build();
	ASSUME(IN.blocksize >= 16 && IN.blocksize <= 65536);
	struct ext2_dir_entry_tail *t = (void *)&IN;	/* sentinel */
	verif_old_out = t;
	errcode_t r = __get_dirent_tail(fs, (struct ext2_dir_entry *)blk, IN.want_tt ? &t : 0, IN.need_swab);
	if (r == 0) {
		CHECK(IN.blocksize >= 1024, "accepted only for real block sizes");
		CHECK(SPEC_TAIL_SHAPE_AT(blk, IN.blocksize - 12), "accepted: the last 12 bytes are a well-shaped checksum tail");
		CHECK(!IN.want_tt || (unsigned char *)t == blk + IN.blocksize - 12, "accepted: the returned tail is the last 12 bytes of the block");
		CHECK(IN.want_tt || (void *)t == (void *)&IN, "no out pointer: nothing written");
		REACH("accepted");
	} else {
		CHECK((void *)t == (void *)&IN, "refused: *tt untouched");
		CHECK(r == EXT2_FILSYS_CORRUPTED || r == EXT2_ET_DIR_CORRUPTED || r == EXT2_ET_DIR_NO_SPACE_FOR_CSUM, "documented errors only");
		if (r == EXT2_ET_DIR_NO_SPACE_FOR_CSUM) REACH("no-space");
		if (r == EXT2_ET_DIR_CORRUPTED) REACH("corrupted");
	}
	REACH("end");
}

void h_get_dx_countlimit(void)
{
	build();
	ASSUME(IN.blocksize >= 1024 && IN.blocksize <= 65536);
	struct ext2_dx_countlimit *c = (void *)&IN;
	int off = -7;
	verif_old_out = c;
	verif_old_off = off;
	errcode_t r = __get_dx_countlimit(fs, (struct ext2_dir_entry *)blk, IN.want_cc ? &c : 0, IN.want_off ? &off : 0, IN.need_swab);
	int node = SPEC_DX_NODE_HDR(blk, IN.blocksize), root = SPEC_DX_ROOT_HDR(blk, IN.blocksize);
	CHECK((r == EXT2_ET_DB_NOT_FOUND) == !(node || root), "DB_NOT_FOUND exactly for blocks that carry neither a dx-node nor a dx-root header");
	if (r == 0) {
		unsigned int o = node ? 8 : 32;
		unsigned int limit = PSPEC_LE16(blk, o), count = PSPEC_LE16(blk, o + 2);
		CHECK(o + 8ul * limit <= IN.blocksize, "accepted: the limit slots end inside the block");
		CHECK(o + 8ul * count <= IN.blocksize, "accepted: the count entries end inside the block");
		CHECK(!IN.want_off || off == (int)o, "accepted: offset is 8 (node) / 32 (root)");
		CHECK(!IN.want_cc || (unsigned char *)c == blk + o, "accepted: countlimit pointer is block + offset");
		if (node) REACH("node"); else REACH("root");
	} else {
		CHECK((void *)c == (void *)&IN && off == -7, "refused: outputs untouched");
		if (r == EXT2_ET_DIR_NO_SPACE_FOR_CSUM) REACH("no-space");
	}
	REACH("end");
}
