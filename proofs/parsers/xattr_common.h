/* shared by the ext_attr.c units of group "parsers" */
#include "verif.h"
#include "config.h"
#include <stdio.h>
#include <string.h>
#include <stdlib.h>
#include "ext2_fs.h"
#include "ext2_ext_attr.h"
#include "ext2fs.h"
#include "parsers_spec_xattr.h"

/* ghost registers (declared in e2fsprogs_verif.h, defined here) */
unsigned long long verif_k;
int verif_old_bit;
unsigned long long verif_g0;	/* ghost fold of the kernel's UNSIGNED entry hash (lockstep in the loop contracts) */
unsigned long long verif_g1;	/* ghost fold of the kernel's SIGNED entry hash */
unsigned long long verif_g2;	/* read_ea_inode_hash: return code chosen by the harness */
unsigned long long verif_g3;	/* read_ea_inode_hash: the EA inode's stored hash */
unsigned long long verif_g4, verif_g5, verif_g6, verif_g7;
const unsigned char *verif_p0, *verif_p1, *verif_p2, *verif_p3;
