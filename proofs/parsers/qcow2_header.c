/* VERIF-UNIT
{
 "name": "qcow2_read_header",
 "props": ["C06", "C19"],
 "level": "U",
 "tier": "quick",
 "harness": "h_qcow2_read_header",
 "enforce": ["qcow2_read_header"],
 "unwind": 6,
 "unwind_reason": "loop-free; the bound serves the DFCC library's write-set loops",
 "functions": ["lib/ext2fs/qcow2.c:qcow2_read_header"],
 "assumes": ["ext2fs_llseek and read(2) are stubs: seek returns a harness-chosen offset/-1; read delivers a harness-chosen number (<= requested, or -1) of ARBITRARY bytes",
             "malloc may fail (then NULL is returned before the file is touched); sizeof(struct ext2_qcow2_hdr) is this build's 72 bytes"],
 "native": false
}
*/
#include "verif.h"
#include "config.h"
#include <stdio.h>
#include <string.h>
#include <stdlib.h>
#include <unistd.h>
#include "ext2_fs.h"
#include "ext2fs.h"
#include "parsers_spec_le.h"

struct in_s {
	long long seek_ret;
	long nread;
	unsigned char bytes[104];	/* what the file holds at offset 0 (the qcow2 v2 header is 72 bytes) */
	unsigned int k;
};
struct in_s IN;
#include "verif_in.h"

static int g_seeks, g_reads;
static unsigned long g_read_count;
static long long g_seek_off;
static int g_seek_whence;

/*
 * qcow2 format (QEMU docs/interop/qcow2.txt): all header fields big-endian;
 * bytes 0-3 magic "QFI\xfb", bytes 4-7 version (this reader supports exactly version 2).
 */
#define SPEC_QCOW2_HDR_OK(b) (((const unsigned char *)(b))[0] == 'Q' && ((const unsigned char *)(b))[1] == 'F' && \
			      ((const unsigned char *)(b))[2] == 'I' && ((const unsigned char *)(b))[3] == 0xfb && \
			      PSPEC_BE32(b, 4) == 2)

struct ext2_qcow2_hdr;
struct ext2_qcow2_hdr *qcow2_read_header(int fd)
	REQUIRES(g_seeks == 0 && g_reads == 0)
	ENSURES(g_seeks <= 1 && g_reads <= g_seeks)	/* g_seeks == 0: the 72-byte allocation failed */
	/* a header is returned only if the whole header was read from offset 0 and carries magic + version 2 */
	ENSURES(RET == 0 || (IN.seek_ret == 0 && IN.nread == 72 && SPEC_QCOW2_HDR_OK(IN.bytes)))
	/* and conversely (the code promises to accept every such file) */
	ENSURES(!(g_seeks == 1 && IN.seek_ret == 0 && IN.nread == 72 && SPEC_QCOW2_HDR_OK(IN.bytes)) || RET != 0)
	/* the returned header is the raw on-disk bytes (fields stay big-endian; callers convert) */
	ENSURES(RET == 0 || ((const unsigned char *)RET)[verif_k] == IN.bytes[verif_k])
	ASSIGNS(g_seeks, g_reads, g_read_count, g_seek_off, g_seek_whence);

unsigned long long verif_k;

ext2_loff_t ext2fs_llseek(int fd, ext2_loff_t offset, int whence)
{
	g_seeks++;
	g_seek_off = offset;
	g_seek_whence = whence;
	return IN.seek_ret;
}
ssize_t read(int fd, void *buf, size_t count)
{
	g_reads++;
	g_read_count = count;
	if (IN.nread < 0)
		return -1;
	ASSUME((unsigned long)IN.nread <= count && count <= sizeof(IN.bytes));
	memcpy(buf, IN.bytes, IN.nread);
	return IN.nread;
}

#include "lib/ext2fs/qcow2.c"

void h_qcow2_read_header(void)
{
	LOAD_IN();
	ASSUME(IN.seek_ret == 0 || IN.seek_ret == -1);	/* lseek(fd, 0, SEEK_SET) yields 0 or -1 */
	ASSUME(IN.nread >= -1);
	verif_k = IN.k;
	ASSUME(verif_k < 72);
	g_seeks = g_reads = 0;
	struct ext2_qcow2_hdr *h = qcow2_read_header(3);
	if (g_seeks == 0) {
		CHECK(h == 0 && g_reads == 0, "allocation failure: NULL, file not touched");
		REACH("enomem");
		return;
	}
	CHECK(g_seeks == 1 && g_seek_off == 0 && g_seek_whence == SEEK_SET, "seeks to the start of the file");
	CHECK(g_reads == 0 || g_read_count == 72, "asks for exactly the 72 header bytes");
	int good = IN.seek_ret == 0 && IN.nread == 72 && SPEC_QCOW2_HDR_OK(IN.bytes);
	CHECK((h != 0) == good, "a header comes back exactly for a fully read header with magic QFI\\xfb and version 2");
	if (h) {
		CHECK(PSPEC_BE32(h, 0) == 0x514649fbu && PSPEC_BE32(h, 4) == 2, "accepted: magic and version, big-endian");
		CHECK(((unsigned char *)h)[verif_k] == IN.bytes[verif_k], "accepted: header bytes are the file's bytes");
		/* big-endian field reading used by the callers, e.g. cluster_bits at byte 20, size at byte 24 */
		CHECK(ext2fs_be32_to_cpu(h->cluster_bits) == PSPEC_BE32(IN.bytes, 20), "cluster_bits is the big-endian word at byte 20");
		CHECK(ext2fs_be64_to_cpu(h->size) == PSPEC_BE64(IN.bytes, 24), "size is the big-endian quad at byte 24");
		CHECK(ext2fs_be64_to_cpu(h->l1_table_offset) == PSPEC_BE64(IN.bytes, 40) && ext2fs_be32_to_cpu(h->l1_size) == PSPEC_BE32(IN.bytes, 36), "l1_size / l1_table_offset at bytes 36 / 40");
		REACH("accepted");
	} else {
		if (IN.nread == 72 && IN.seek_ret == 0) REACH("bad-magic-or-version");
	}
	REACH("end");
}
