/* VERIF-UNIT
{
 "name": "validate_entry_block",
 "props": ["C06"],
 "level": "U",
 "tier": "quick",
 "harness": "h_validate_entry_block",
 "enforce": ["ext2fs_validate_entry"],
 "loop_contracts": true,
 "unwind": 6,
 "unwind_reason": "the only loop of the function is closed by its in-place loop contract; the bound serves the DFCC library's write-set loops (unwinding assertions on)",
 "functions": ["lib/ext2fs/dir_iterate.c:ext2fs_validate_entry"],
 "assumes": ["regular directory block: the buffer has exactly fs->blocksize bytes (ext2fs_process_dir_block, !inline_data), 12 <= blocksize <= 65536, contents arbitrary",
             "offset < final_offset <= blocksize as at the call site (final_offset = offset' + rec_len <= buflen was checked by the caller)",
             "needs the VERIF_LOOP hook in lib/ext2fs/dir_iterate.c (hooks-pending/b8.diff)"],
 "native": false
}
*/
/* VERIF-UNIT
{
 "name": "validate_entry_inline",
 "props": ["C06"],
 "level": "B(64)",
 "tier": "quick",
 "harness": "h_validate_entry_inline",
 "enforce": ["ext2fs_validate_entry"],
 "unwind": 10,
 "unwind_reason": "counterexample finder for the inline-data call shape: buflen <= 64 and every accepted step advances by >= 8 bytes, so at most 8 iterations (+1); unwinding assertions on",
 "functions": ["lib/ext2fs/dir_iterate.c:ext2fs_validate_entry"],
 "assumes": ["inline-data directory: the buffer has exactly ctx->buflen bytes with 8 <= buflen <= 64 < blocksize (ext2fs_inline_data_dir_iterate passes i_block+4 with buflen 56, or the system.data value allocated with its exact size)",
             "offset < final_offset <= buflen, both multiples of 4, as at the call site",
             "EXPECTED TO FAIL on the pinned tree: the walk is bounded by fs->blocksize, not by buflen (see findings/C06_validate_entry_inline)"],
 "native": false
}
*/
#include "verif.h"
#include "config.h"
#include <stdio.h>
#include <string.h>
#include <stdlib.h>
#include "ext2_fs.h"
#include "ext2fs.h"
#include "parsers_spec_dirent.h"

struct in_s {
	unsigned int blocksize, buflen;
	unsigned int offset, final_offset;
	unsigned int k;
};
struct in_s IN;
#include "verif_in.h"

/* ghost registers of the loop contract in dir_iterate.c (meaning documented there) */
unsigned long long verif_k;	/* an arbitrary byte offset k */
unsigned long long verif_g0;	/* `offset` on entry */
unsigned long long verif_g1;	/* k was visited: the walk stood at offset == k */
unsigned long long verif_g2;	/* the successor k + rec_len(k) was visited as well */
unsigned long long verif_g3, verif_g4, verif_g5, verif_g6, verif_g7;
int verif_old_bit;
const unsigned char *verif_p0, *verif_p1, *verif_p2, *verif_p3;

/*
 * Statement (DESIGN C06): the function returns 1 only if final_offset is reachable from `offset` by
 * following rec_len over well-shaped entries.  Reachability is an inductive notion; it is stated
 * pointwise through the witness set V = {positions the walk stood at} kept by the ghost flags:
 *    (a) offset in V (if offset < final_offset),
 *    (b) every k in V: offset <= k < final_offset, the 8-byte header at k is inside the block,
 *        the entry at k has the shape the format demands (rec_len >= 8, multiple of 4, name fits),
 *        and its end k + rec_len(k) is final_offset itself or again in V.
 * Any set with (a),(b) contains a strictly increasing chain offset = k0 < k1 < ... < final_offset with
 * k(i+1) = k(i) + rec_len(k(i)).  rec_len and name_len are read from the bytes by the independent
 * decoder in parsers_spec_dirent.h.
 */
static int ext2fs_validate_entry(ext2_filsys fs, char *buf, unsigned int offset, unsigned int final_offset)
	REQUIRES(fs->blocksize >= 12 && fs->blocksize <= 65536)
	REQUIRES(offset < final_offset && final_offset <= fs->blocksize)
	REQUIRES(verif_g0 == offset && verif_g1 == 0 && verif_g2 == 0)
	ENSURES(RET == 0 || RET == 1)
	ENSURES(RET == 0 || verif_k != offset || verif_g1 == 1)
	ENSURES(RET == 0 || verif_g1 == 0 ||
		(verif_k >= offset && verif_k < final_offset && verif_k + 8 <= fs->blocksize &&
		 PSPEC_DE_SHAPE_OK(buf, verif_k, fs->blocksize) &&
		 verif_k + PSPEC_DE_RECLEN(buf, verif_k, fs->blocksize) <= final_offset &&
		 (verif_k + PSPEC_DE_RECLEN(buf, verif_k, fs->blocksize) == final_offset || verif_g2 == 1)))
	ASSIGNS(verif_g1, verif_g2);

#include "lib/ext2fs/dir_iterate.c"

static void run(unsigned int buflen)
{
	struct struct_ext2_filsys *fs = malloc(sizeof(*fs));
	ASSUME(fs != 0);
	memset(fs, 0, sizeof(*fs));
	fs->blocksize = IN.blocksize;
	char *buf = malloc(buflen);		/* exactly the bytes the caller owns; contents arbitrary */
	ASSUME(buf != 0);
	ASSUME(IN.offset < IN.final_offset && IN.final_offset <= buflen);
	verif_k = IN.k;
	verif_g0 = IN.offset;
	verif_g1 = 0;
	verif_g2 = 0;
	int r = ext2fs_validate_entry(fs, buf, IN.offset, IN.final_offset);
	CHECK(r == 0 || r == 1, "boolean result");
	if (r == 1) {
		CHECK(IN.k != IN.offset || verif_g1 == 1, "accepted: the start offset is a link of the chain");
		if (verif_g1) {
			unsigned int rl = PSPEC_DE_RECLEN(buf, IN.k, IN.blocksize);
			CHECK(IN.k >= IN.offset && IN.k < IN.final_offset && IN.k + 8 <= buflen, "accepted: every link lies inside [offset, final_offset) with its header inside the buffer");
			CHECK(PSPEC_DE_SHAPE_OK(buf, IN.k, IN.blocksize), "accepted: every link has a well-shaped entry");
			CHECK(IN.k + rl == IN.final_offset || (IN.k + rl < IN.final_offset && verif_g2 == 1), "accepted: every link ends at final_offset or at the next link");
			REACH("accepted-link");
		}
		REACH("accepted");
	} else {
		REACH("rejected");
	}
	REACH("end");
}

void h_validate_entry_block(void)
{
	LOAD_IN();
	ASSUME(IN.blocksize >= 12 && IN.blocksize <= 65536);
	run(IN.blocksize);
}

void h_validate_entry_inline(void)
{
	LOAD_IN();
	ASSUME(IN.blocksize >= 1024 && IN.blocksize <= 65536);
	ASSUME(IN.buflen >= 8 && IN.buflen <= 64);
	ASSUME((IN.offset & 3) == 0 && (IN.final_offset & 3) == 0);
	run(IN.buflen);
}
