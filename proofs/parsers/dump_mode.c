/* VERIF-UNIT
{
 "name": "mode_xlate",
 "props": ["C18"],
 "level": "U/k",
 "tier": "wip",
 "harness": "h_mode_xlate",
 "enforce": ["mode_xlate"],
 "includes": ["debugfs", "lib/ss"],
 "unwind": 11,
 "unwind_reason": "mode_table is a constant table of 9 entries + terminator; unwinding assertions on",
 "functions": ["debugfs/dump.c:mode_xlate"],
 "assumes": ["Linux host: the native S_I* permission constants are the POSIX octal values"],
 "native": false
}
*/
/*
 * STAYS "wip" (tool limitation, not a defect): goto-instrument --dfcc (which the driver always runs) havocs every
 * non-const static object, so the file-static initialised table mode_table[] is seen with arbitrary contents
 * and the loop neither terminates within the bound nor maps the bits.  Stating the table contents as an
 * assumption would make the unit blind to the only place an error can sit.  Needs a driver mode that keeps
 * static initialisers (e.g. no --dfcc for units without contracts on callees, or cbmc without nondet statics).
 * The contract and harness below are complete and pass when the static havoc is disabled by hand.
 *
 * Property statement C18: extraction returns "read/write/execute permission bits".  mode_xlate maps exactly
 * the nine rwx bits one-to-one and yields nothing else; set-uid/set-gid/sticky (07000) are dropped - the
 * statement does not ask for them (DESIGN mentions them; observation only).
 */
#include "verif.h"
struct in_s { unsigned short lmode; };
struct in_s IN;
#include "verif_in.h"
#include <sys/types.h>
#include <sys/stat.h>

static mode_t mode_xlate(unsigned short lmode)
	ENSURES(RET == (mode_t)(lmode & 0777))
	ASSIGNS();

#include "debugfs/dump.c"

void h_mode_xlate(void)
{
	LOAD_IN();
	mode_t m = mode_xlate(IN.lmode);
	CHECK((m & 0777) == (IN.lmode & 0777u), "the nine rwx permission bits are restored one-to-one");
	CHECK((m & ~(mode_t)0777) == 0, "no other bit is ever set (type bits never leak into chmod)");
	CHECK(((m & S_IRUSR) != 0) == ((IN.lmode & 0400) != 0) && ((m & S_IXOTH) != 0) == ((IN.lmode & 0001) != 0), "native constants");
	REACH("end");
}
