/* VERIF-UNIT
{
 "name": "mode_xlate",
 "props": ["C18"],
 "level": "U/k",
 "tier": "quick",
 "harness": "h_mode_xlate",
 "enforce": ["mode_xlate"],
 "includes": ["debugfs", "lib/ss"],
 "unwind": 11,
 "static_keep": ["mode_table"],
 "unwind_reason": "mode_table is a constant table of 9 entries + terminator; unwinding assertions on",
 "functions": ["debugfs/dump.c:mode_xlate"],
 "assumes": ["mode_table keeps its initialiser (static_keep): no code in debugfs/dump.c writes it", "Linux host: the native S_I* permission constants are the POSIX octal values"],
 "native": false
}
*/
/*
 * mode_table[] is a file-static initialised table that dump.c only reads (it is referenced in mode_xlate alone);
 * DFCC would havoc it like every static object, so the unit keeps its initialiser ("static_keep" →
 * goto-instrument --nondet-static-exclude mode_table).  A change to the table contents is therefore seen.
 *
 * Property statement C18: extraction returns "read/write/execute permission bits".  mode_xlate maps exactly
 * the nine rwx bits one-to-one and yields nothing else; set-uid/set-gid/sticky (07000) are dropped - the
 * statement does not ask for them (DESIGN mentions them; observation only).
 */
#include "verif.h"
struct in_s { unsigned short lmode; };
struct in_s IN;
#include "verif_in.h"
#include <sys/types.h>
#include <sys/stat.h>

static mode_t mode_xlate(unsigned short lmode)
	ENSURES(RET == (mode_t)(lmode & 0777))
	ASSIGNS();

#include "debugfs/dump.c"

void h_mode_xlate(void)
{
	LOAD_IN();
	mode_t m = mode_xlate(IN.lmode);
	CHECK((m & 0777) == (IN.lmode & 0777u), "the nine rwx permission bits are restored one-to-one");
	CHECK((m & ~(mode_t)0777) == 0, "no other bit is ever set (type bits never leak into chmod)");
	CHECK(((m & S_IRUSR) != 0) == ((IN.lmode & 0400) != 0) && ((m & S_IXOTH) != 0) == ((IN.lmode & 0001) != 0), "native constants");
	REACH("end");
}
