/* VERIF-UNIT
{
 "name": "extent_header_verify",
 "props": ["C06"],
 "level": "U",
 "tier": "quick",
 "harness": "h_extent_header_verify",
 "enforce": ["ext2fs_extent_header_verify"],
 "functions": ["lib/ext2fs/extent.c:ext2fs_extent_header_verify"],
 "assumes": ["size is one of the values the call sites pass: 12 <= size <= 65536 (sizeof i_block = 60, sizeof s_jnl_blocks = 68, fs->blocksize 1024..65536); the buffer has exactly size bytes, contents arbitrary",
             "the function does not bound eh_depth (the kernel rejects depth > 5); callers (extent_open2 / e2fsck pass1) deal with depth themselves - not part of this contract"],
 "native": true
}
*/
#include "verif.h"
#include "config.h"
#include <stdio.h>
#include <string.h>
#include <stdlib.h>
#include "ext2_fs.h"
#include "ext2fs.h"
#include "parsers_spec_le.h"

struct in_s {
	int size;
	unsigned char hdr[12];
};
struct in_s IN;
#include "verif_in.h"

/*
 * Format (Documentation/filesystems/ext4, "Extent Tree"): every extent node starts with a 12-byte
 * header {le16 magic=0xF30A, le16 entries, le16 max, le16 depth, le32 generation} followed by
 * max 12-byte entries (struct ext4_extent for depth 0, struct ext4_extent_idx otherwise — both 12 bytes).
 * A header is acceptable for a node stored in `size` bytes iff
 *   magic is right, entries <= max, the max entries fit into the node (12 + 12*max <= size), and the
 *   slack left after them is less than three entries (room for an ext4_extent_tail, "two extent-sized
 *   items") — written without division.
 */
static int spec_extent_header_ok(const unsigned char *b, int size)
{
	unsigned int magic = PSPEC_LE16(b, 0), entries = PSPEC_LE16(b, 2), max = PSPEC_LE16(b, 4);
	return magic == 0xF30Au && entries <= max &&
	       12L + 12L * max <= (long)size && (long)size < 12L + 12L * (max + 3);
}

errcode_t ext2fs_extent_header_verify(void *ptr, int size)
	REQUIRES(size >= 12 && size <= 65536)
	ENSURES((RET == 0) == (spec_extent_header_ok(ptr, size) != 0))
	ENSURES(RET == 0 || RET == EXT2_ET_EXTENT_HEADER_BAD)
	/* consequences the consumers rely on: every one of the eh_entries entries lies inside the node */
	ENSURES(RET != 0 || 12L + 12L * PSPEC_LE16(ptr, 2) <= (long)size)
	ASSIGNS();

#include "lib/ext2fs/extent.c"

void h_extent_header_verify(void)
{
	LOAD_IN();
	ASSUME(IN.size >= 12 && IN.size <= 65536);
	unsigned char *buf = malloc(IN.size);	/* exactly size bytes: any read past the node is a bounds violation */
	ASSUME(buf != 0);
	memcpy(buf, IN.hdr, 12);		/* the rest of the node stays unconstrained */
	errcode_t r = ext2fs_extent_header_verify(buf, IN.size);
	CHECK((r == 0) == (spec_extent_header_ok(IN.hdr, IN.size) != 0), "verify accepts exactly the well-formed headers for this node size");
	CHECK(r == 0 || r == EXT2_ET_EXTENT_HEADER_BAD, "the only error is EXTENT_HEADER_BAD");
	if (r == 0) {
		unsigned int entries = PSPEC_LE16(IN.hdr, 2), max = PSPEC_LE16(IN.hdr, 4);
		CHECK(12L + 12L * entries <= IN.size, "accepted: the last valid entry ends inside the node");
		CHECK(max >= 1 || IN.size < 48, "accepted: capacity is non-zero for every real node size");
		REACH("accepted");
	} else {
		REACH("rejected");
	}
	CHECK(memcmp(buf, IN.hdr, 12) == 0, "header bytes untouched");
	REACH("end");
}
