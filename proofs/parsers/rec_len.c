/* VERIF-UNIT
{
 "name": "rec_len_get",
 "props": ["C06"],
 "level": "U",
 "tier": "quick",
 "harness": "h_rec_len_get",
 "enforce": ["ext2fs_get_rec_len"],
 "unwind": 6,
 "unwind_reason": "the functions are loop-free; the bound only serves the DFCC library's write-set loops (unwinding assertions on)",
 "functions": ["lib/ext2fs/dir_iterate.c:ext2fs_get_rec_len"],
 "assumes": ["fs->blocksize is any value 1..2^31; the entry has only its 8-byte header and 4 name bytes allocated"],
 "native": true
}
*/
/* VERIF-UNIT
{
 "name": "rec_len_set_get_inverse",
 "props": ["C06"],
 "level": "U",
 "tier": "quick",
 "harness": "h_rec_len_set",
 "enforce": ["ext2fs_set_rec_len"],
 "unwind": 6,
 "unwind_reason": "the functions are loop-free; the bound only serves the DFCC library's write-set loops (unwinding assertions on)",
 "functions": ["lib/ext2fs/dir_iterate.c:ext2fs_set_rec_len", "lib/ext2fs/dir_iterate.c:ext2fs_get_rec_len"],
 "assumes": ["fs->blocksize is any value 1..2^31 for get/set themselves; the inverse-pair lemma is stated for block sizes up to the format maximum 65536 (EXT2_MAX_BLOCK_SIZE, enforced by ext2fs_open2) and additionally for every block size up to 2^18 except the one colliding length 262140 (see comment)"],
 "native": true
}
*/
/*
 * Observation (not a defect on supported configurations): ext2fs_set_rec_len accepts block sizes up to
 * 2^18, but for blocksize 262144 the legal length 262140 encodes to 65535, which decodes to "whole
 * block" (262144).  The kernel's encoding has the same collision; e2fsprogs never opens a filesystem
 * with blocks above 64 KiB, so the lemma below is stated with that exception spelled out.
 */
#include "verif.h"
#include "config.h"
#include <stdio.h>
#include <string.h>
#include <stdlib.h>
#include <errno.h>
#include "ext2_fs.h"
#include "ext2fs.h"
#include "parsers_spec_dirent.h"

struct in_s {
	unsigned int blocksize;
	unsigned int len;
	unsigned short disk;		/* arbitrary on-disk rec_len */
	unsigned int inode;
	unsigned short name_len;
	unsigned char name0;
	unsigned char which;
};
struct in_s IN;
#include "verif_in.h"

unsigned short verif_old_reclen;	/* ghost: on-disk rec_len on entry (OLD() of a 16-bit member misbehaves in CBMC 6.11) */

errcode_t ext2fs_get_rec_len(ext2_filsys fs, struct ext2_dir_entry *dirent, unsigned int *rec_len)
	REQUIRES(fs->blocksize >= 1)
	ENSURES(RET == 0)
	ENSURES(*rec_len == PSPEC_RECLEN_DECODE(dirent->rec_len, fs->blocksize))
	ASSIGNS(*rec_len);

errcode_t ext2fs_set_rec_len(ext2_filsys fs, unsigned int len, struct ext2_dir_entry *dirent)
	REQUIRES(fs->blocksize >= 1 && verif_old_reclen == dirent->rec_len)
	ENSURES((RET != 0) == (!PSPEC_RECLEN_LEGAL(len, fs->blocksize) || fs->blocksize > (1u << 18)))
	ENSURES(RET == 0 || RET == EINVAL)
	ENSURES(RET != 0 || dirent->rec_len == PSPEC_RECLEN_ENCODE(len, fs->blocksize))
	ENSURES(RET == 0 || dirent->rec_len == verif_old_reclen)
	ASSIGNS(dirent->rec_len);

#include "lib/ext2fs/dir_iterate.c"

static struct struct_ext2_filsys *fs;
static struct ext2_dir_entry *de;
static void build(void)
{
	LOAD_IN();
	fs = malloc(sizeof(*fs));
	ASSUME(fs != 0);
	memset(fs, 0, sizeof(*fs));
	ASSUME(IN.blocksize >= 1 && IN.blocksize <= 0x80000000u);
	fs->blocksize = IN.blocksize;
	/* an entry with only its fixed 8-byte header + 4 name bytes allocated: nothing beyond may be touched */
	de = malloc(12);
	ASSUME(de != 0);
	de->inode = IN.inode;
	de->rec_len = IN.disk;
	de->name_len = IN.name_len;
	((unsigned char *)de)[8] = IN.name0;
}

void h_rec_len_get(void)
{
	unsigned int out = 0;
	errcode_t r;
	build();
	{
		/* decoding of an arbitrary on-disk value */
		r = ext2fs_get_rec_len(fs, de, &out);
		CHECK(r == 0, "get never fails");
		CHECK(out == PSPEC_RECLEN_DECODE(IN.disk, IN.blocksize), "get decodes per the kernel definition");
		CHECK(de->rec_len == IN.disk && de->inode == IN.inode && de->name_len == IN.name_len && ((unsigned char *)de)[8] == IN.name0,
		      "get leaves the entry alone");
		if (IN.blocksize <= 65536 && (IN.blocksize < 65536 || (IN.disk & 3) == 0))
			CHECK(out <= 65536 && (out <= 65535 || out == IN.blocksize), "decoded length is at most 64 KiB for supported block sizes");
		REACH("end");
	}
}

void h_rec_len_set(void)
{
	unsigned int out = 0;
	errcode_t r;
	build();
	verif_old_reclen = IN.disk;
	r = ext2fs_set_rec_len(fs, IN.len, de);
	CHECK(de->inode == IN.inode && de->name_len == IN.name_len && ((unsigned char *)de)[8] == IN.name0, "set touches rec_len only");
	if (!PSPEC_RECLEN_LEGAL(IN.len, IN.blocksize) || IN.blocksize > (1u << 18)) {
		CHECK(r == EINVAL, "illegal length or unsupported block size is refused");
		CHECK(de->rec_len == IN.disk, "refused: entry unchanged");
		REACH("set-refused");
		return;
	}
	CHECK(r == 0, "every legal length is accepted");
	errcode_t r2 = ext2fs_get_rec_len(fs, de, &out);
	CHECK(r2 == 0, "get never fails (2)");
	/* inverse pair: every legal non-zero length round-trips, incl. len == blocksize == 65536 (stored 65535) */
	if (IN.len != 0 && IN.blocksize <= 65536) {
		CHECK(out == IN.len, "get(set(len)) == len for every legal length, block sizes up to 64 KiB");
		if (IN.len == 65536)
			REACH("64KiB-whole-block");
	}
	if (IN.len != 0 && IN.len != 262140u)
		CHECK(out == IN.len, "get(set(len)) == len for block sizes up to 256 KiB except the 262140 collision");
	if (IN.len == 0 && IN.blocksize < 65536)
		CHECK(out == 0, "zero stays zero below 64 KiB");
	REACH("end");
}
