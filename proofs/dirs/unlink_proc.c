/*
 * C10 — lib/ext2fs/unlink.c:unlink_proc, the per-entry callback of ext2fs_unlink (static; reached through the
 * include of the real file).
 *
 * Spec (from the property statement and the on-disk format in specs/dirs_dirent.h, not from the code).
 * ext2fs_unlink iterates with DIRENT_FLAG_INCLUDE_EMPTY, so the callback sees EVERY entry of the chain of a block in
 * order (except the checksum tail).  At a call it is given the entry E = [o, o+r) and remembers in ls->prev the entry
 * it was given before; when o != 0 that is the chain predecessor P = [q, o) in the same buffer.
 *
 *   MATCH    E is "the entry to remove" iff  (no name requested, or name_len(E) == namelen and the name bytes are
 *            equal)  and  E is in use (inode != 0)  and  (FORCE flag, or no inode requested, or inode(E) == requested).
 *            Name equality is decided by libc strncmp (trusted, stubbed — see below); the unit checks that it is
 *            called on (requested name, E's name field, name_len(E)) and states MATCH relative to its verdict.
 *   REMOVE   on a match: o == 0  → inode(E) becomes 0 and nothing else changes (E stays in the chain as an unused
 *                                   entry with the same rec_len);
 *                        o != 0  → rec_len(P) becomes rec_len(P) + rec_len(E), i.e. P now ends where E ended: the
 *                                   chain steps from P directly to E's successor, E is no longer in the chain;
 *                                   P is still a valid entry (tiling of the block preserved), nothing else changes;
 *            return DIRENT_ABORT|DIRENT_CHANGED, ls->done incremented.
 *   KEEP     every other entry keeps inode / name_len / type / name and its rec_len: stated as a FRAME at a ghost
 *            byte index k: the only bytes that may differ are the 4 inode bytes of E (o == 0) or the 2 rec_len bytes
 *            of P (o != 0), and only on a match.
 *   NOMATCH  otherwise the block is unchanged (ghost byte k), return 0, ls->done unchanged.
 *   PREV     ls->prev == E afterwards in every case (the protocol that makes P the predecessor at the next call).
 */
/* VERIF-UNIT
{
 "name": "unlink_proc_64",
 "props": ["C10"],
 "level": "U",
 "tier": "quick",
 "harness": "h_unlink_proc",
 "enforce": ["unlink_proc"],
 "defines": ["UL_BS=64"],
 "unwind": 6,
 "unwind_reason": "unlink_proc and the harness are loop-free (strncmp is a loop-free stub); the bound only serves the DFCC library loops; unwinding assertions on",
 "timeout": 300,
 "functions": ["lib/ext2fs/unlink.c:unlink_proc"],
 "assumes": ["SYMBOLIC BLOCK OF 64 BYTES (see unlink_proc_256 / unlink_proc_1k for larger ones); unlink_proc does not look at the block size at all", "iterator guarantees at the call (ext2fs_process_dir_block with DIRENT_FLAG_INCLUDE_EMPTY): E at a 4-aligned offset o < blocksize-8 with rec_len >= 8, multiple of 4, o+rec_len <= blocksize, name_len+8 <= rec_len; when o != 0, ls->prev points to a valid entry P of the same buffer with q + rec_len(P) == o (every chain entry is passed to the callback, the previous call stored its dirent in ls->prev); when o == 0, ls->prev is NULL or any stale pointer into the buffer", "ls->name is NULL or a C string with ls->namelen == strlen(ls->name) <= 255 (set by ext2fs_unlink); ls->done < INT_MAX", "libc strncmp is a stub: asserts its arguments are (ls->name, E's name field, name_len(E)), then returns 0 or non-zero nondeterministically; 0 constrains name[j] == E.name[j] at the ghost name index j, non-zero constrains a witness index w < n with name[w] != E.name[w] (exact for a first argument without NUL in [0,n), which the harness assumes)", "rec_len is read as the plain 16-bit field (block sizes < 64 KiB; unlink_proc itself does the same, it does not go through ext2fs_get_rec_len)"],
 "native": false
}
*/
/* VERIF-UNIT
{
 "name": "unlink_proc_256",
 "props": ["C10"],
 "level": "U",
 "tier": "quick",
 "harness": "h_unlink_proc",
 "enforce": ["unlink_proc"],
 "defines": ["UL_BS=256"],
 "unwind": 6,
 "unwind_reason": "see unlink_proc_64",
 "timeout": 300,
 "functions": ["lib/ext2fs/unlink.c:unlink_proc"],
 "assumes": ["SYMBOLIC BLOCK OF 256 BYTES", "as unlink_proc_64"],
 "native": false
}
*/
/* VERIF-UNIT
{
 "name": "unlink_proc_1k",
 "backend": "kissat",
 "props": ["C10"],
 "level": "U",
 "tier": "thorough",
 "harness": "h_unlink_proc",
 "enforce": ["unlink_proc"],
 "defines": ["UL_BS=1024"],
 "unwind": 6,
 "unwind_reason": "see unlink_proc_64",
 "timeout": 900,
 "functions": ["lib/ext2fs/unlink.c:unlink_proc"],
 "assumes": ["block size 1024", "as unlink_proc_64"],
 "native": false
}
*/
/* VERIF-UNIT
{
 "name": "unlink_proc_4k",
 "backend": "kissat",
 "props": ["C10"],
 "level": "U",
 "tier": "thorough",
 "harness": "h_unlink_proc",
 "enforce": ["unlink_proc"],
 "defines": ["UL_BS=4096"],
 "unwind": 6,
 "unwind_reason": "see unlink_proc_64",
 "timeout": 1800,
 "functions": ["lib/ext2fs/unlink.c:unlink_proc"],
 "assumes": ["block size 4096", "as unlink_proc_64"],
 "native": false
}
*/
#include "verif.h"
#include "dirs_dirent.h"

#ifndef UL_BS
#define UL_BS 64
#endif

struct in_unlink {
	unsigned int o;			/* offset of E */
	unsigned int q;			/* offset of P (o != 0), or of a stale prev (o == 0) */
	unsigned char prev_null;	/* o == 0 only: ls->prev is NULL */
	unsigned char has_name;		/* ls->name != NULL */
	unsigned char name[256];	/* requested name, NUL-terminated */
	unsigned int namelen;
	unsigned int ino;
	int flags;
	int done;
	unsigned char cmp_equal;	/* verdict of the strncmp stub */
	unsigned int w;			/* its witness index when it says "different" */
	unsigned int k;			/* ghost byte index into the block */
	unsigned int j;			/* ghost index into the name */
};
struct in_unlink IN;
#include "verif_in.h"

#include "lib/ext2fs/unlink.c"

static unsigned char BLKB[UL_BS] __attribute__((aligned(8)));	/* the buffer the iterator works on */
static struct link_struct LS;
#define BS ((unsigned)UL_BS)
#define O (IN.o)
#define Q (IN.q)

struct de { unsigned ino, rec, nl, ft; };
#define RD(d, b, o) do { (d).ino = DE_INO(b, o); (d).rec = DE_REC(b, o); (d).nl = DE_NL(b, o); (d).ft = DE_FT(b, o); } while (0)
#define V(d, o) ((((o) & 3) == 0) && (o) + DE_HDR <= BS && (d).rec >= DE_HDR && ((d).rec & 3) == 0 && (o) + (d).rec <= BS && (d).nl + DE_HDR <= (d).rec)

/* pre-state snapshot (ghost), taken by the harness */
static struct de oE, oP;
static unsigned char g_old_k;
static int g_cmp_called;		/* set by the strncmp stub */

static int ul_pre(void)
{
	struct de e, p;
	if (!(O < BS && (O & 3) == 0 && O + DE_HDR < BS && Q < BS && (Q & 3) == 0 && Q + DE_HDR <= BS))
		return 0;
	RD(e, BLKB, O);
	RD(p, BLKB, Q);
	return V(e, O) && (O == 0 || (Q < O && V(p, Q) && Q + p.rec == O)) &&
	       IN.namelen <= 255 && IN.name[IN.namelen] == 0 && IN.done >= 0 && IN.done < 0x7fffffff &&
	       IN.k < BS && IN.j < 255 && IN.w < 255 && IN.cmp_equal <= 1;
}

#define V_MATCH  1u
#define V_REMOVE 2u
#define V_FRAME  4u
#define V_TILE   8u
#define V_PREV   16u
#define V_FLAGS  32u

/* the entry-to-remove predicate of the spec, relative to the strncmp verdict */
/* (a macro: DFCC cannot instrument nested calls inside contract clauses) */
#define UL_MATCH() ((!IN.has_name || (oE.nl == IN.namelen && IN.cmp_equal)) && \
		    oE.ino != 0 && ((IN.flags & EXT2FS_UNLINK_FORCE) || IN.ino == 0 || oE.ino == IN.ino))

static unsigned ul_post(int ret)
{
	unsigned bad = 0;
	struct de nE, nP;
	int m = UL_MATCH();
	int changed_k = BLKB[IN.k] != g_old_k;

	RD(nE, BLKB, O);
	RD(nP, BLKB, Q);
	/* MATCH / FLAGS: removed iff it is the entry to remove */
	if (m) {
		if (!(ret == (DIRENT_ABORT | DIRENT_CHANGED) && LS.done == IN.done + 1))
			bad |= V_MATCH;
	} else {
		if (!(ret == 0 && LS.done == IN.done))
			bad |= V_FLAGS;
		if (changed_k)
			bad |= V_FRAME;
	}
	/* REMOVE */
	if (m) {
		if (O == 0) {
			if (!(nE.ino == 0 && nE.rec == oE.rec && nE.nl == oE.nl && nE.ft == oE.ft))
				bad |= V_REMOVE;
			if (changed_k && !(IN.k < 4))
				bad |= V_FRAME;
		} else {
			/* P ends where E ended; P keeps everything else; E's bytes are untouched (they are now slack inside P) */
			if (!(nP.rec == oP.rec + oE.rec && Q + nP.rec == O + oE.rec && nP.ino == oP.ino && nP.nl == oP.nl && nP.ft == oP.ft))
				bad |= V_REMOVE;
			if (!V(nP, Q))
				bad |= V_TILE;
			if (changed_k && !(IN.k == Q + 4 || IN.k == Q + 5))
				bad |= V_FRAME;
		}
	}
	/* name comparison really consulted when a name was requested and the lengths agree */
	if (IN.has_name && oE.nl == IN.namelen && !g_cmp_called)
		bad |= V_MATCH;
	if (LS.prev != (struct ext2_dir_entry *)(BLKB + O))
		bad |= V_PREV;
	return bad;
}

static int unlink_proc(struct ext2_dir_entry *dirent, int offset, int blocksize, char *buf, void *priv_data)
	REQUIRES(buf == (char *)BLKB && priv_data == (void *)&LS && dirent == (struct ext2_dir_entry *)(BLKB + IN.o))
	REQUIRES(offset == (int)IN.o && blocksize == UL_BS)
	REQUIRES(LS.name == (IN.has_name ? (const char *)IN.name : (const char *)0) && LS.namelen == (int)IN.namelen)
	REQUIRES(LS.inode == IN.ino && LS.flags == IN.flags && LS.done == IN.done)
	REQUIRES(IN.o != 0 ? LS.prev == (struct ext2_dir_entry *)(BLKB + IN.q)
			   : LS.prev == (IN.prev_null ? (struct ext2_dir_entry *)0 : (struct ext2_dir_entry *)(BLKB + IN.q)))
	REQUIRES(ul_pre())
	ENSURES(ul_post(RET) == 0)
	ASSIGNS(__CPROVER_object_whole(BLKB), LS.prev, LS.done, g_cmp_called);

/*
 * libc strncmp (trusted): loop-free stub.  The harness guarantees that the first argument (the requested name) has no
 * NUL in [0, n); then ISO C strncmp returns 0 iff s1[i] == s2[i] for all i < n.  The verdict is a nondeterministic
 * input; "equal" is tied to the bytes at the ghost index j, "different" to a witness index w.
 */
#ifndef VERIF_NATIVE
int strncmp(const char *s1, const char *s2, size_t n)
{
	__CPROVER_assert(s1 == (const char *)IN.name, "CHECK:strncmp first argument is the requested name");
	__CPROVER_assert(s2 == (const char *)(BLKB + O + DE_HDR) && n == oE.nl && n == IN.namelen,
			 "CHECK:strncmp second argument is E's name field, length name_len(E) == namelen");
	__CPROVER_assert(__CPROVER_r_ok(s2, n), "CHECK:strncmp range inside the block");
	g_cmp_called = 1;
	if (IN.cmp_equal) {
		if (IN.j < n)
			__CPROVER_assume(s1[IN.j] == s2[IN.j]);
		return 0;
	}
	__CPROVER_assume(IN.w < n && s1[IN.w] != s2[IN.w]);
	return (unsigned char)s1[IN.w] < (unsigned char)s2[IN.w] ? -1 : 1;
}
#endif

void h_unlink_proc(void)
{
	LOAD_IN();
	{ unsigned char nd[UL_BS]; __CPROVER_array_replace(BLKB, nd); }	/* the block as read from disk: arbitrary bytes */
	ASSUME(ul_pre());
	/* ls->namelen = strlen(ls->name): no NUL inside the name, stated where the stub looks */
	ASSUME(!(IN.j < IN.namelen) || IN.name[IN.j] != 0);
	ASSUME(!(IN.w < IN.namelen) || IN.name[IN.w] != 0);
	LS.name = IN.has_name ? (const char *)IN.name : (const char *)0;
	LS.namelen = IN.namelen;
	LS.inode = IN.ino;
	LS.flags = IN.flags;
	LS.done = IN.done;
	if (O != 0)
		LS.prev = (struct ext2_dir_entry *)(BLKB + Q);
	else
		LS.prev = IN.prev_null ? (struct ext2_dir_entry *)0 : (struct ext2_dir_entry *)(BLKB + Q);
	RD(oE, BLKB, O);
	RD(oP, BLKB, Q);
	g_old_k = BLKB[IN.k];
	g_cmp_called = 0;

	int ret = unlink_proc((struct ext2_dir_entry *)(BLKB + O), (int)O, UL_BS, (char *)BLKB, &LS);

	unsigned bad = ul_post(ret);
	CHECK(!(bad & V_MATCH), "MATCH: the entry to remove is removed: ABORT|CHANGED, done+1; strncmp consulted");
	CHECK(!(bad & V_REMOVE), "REMOVE: first entry -> inode 0, rest kept; other entry -> predecessor ends where it ended, keeps inode/name_len/type");
	CHECK(!(bad & V_TILE), "TILE: the enlarged predecessor is a valid entry");
	CHECK(!(bad & V_FRAME), "FRAME: only inode(E) or rec_len(P) bytes change, and only on a match");
	CHECK(!(bad & V_FLAGS), "NOMATCH: return 0, done unchanged");
	CHECK(!(bad & V_PREV), "PREV: ls->prev is E afterwards");
	if (ret && O == 0) REACH("removed first");
	if (ret && O != 0) REACH("merged into predecessor");
	if (!ret && IN.has_name && g_cmp_called) REACH("name differs");
	if (ret && IN.has_name) REACH("name equal");
	if (!ret && oE.ino == 0) REACH("unused entry skipped");
	REACH("end");
}
