/*
 * C05 / C10 — e2fsck/rehash.c sort comparators ino_cmp, name_cmp, hash_cmp (all static; reached through the include
 * of the real file).  `e2fsck -D` qsort()s the collected entries with them; qsort only returns a permutation ordered
 * by the key when the comparator is a consistent total preorder (C11 7.22.5 p4), so this is what keeps the rebuilt
 * directory's entry set exact and its order the documented one.
 *
 * Spec (written from the documented sort keys, not from the code):
 *   ino_cmp   orders by inode number (unsigned 32-bit), ascending.
 *   name_cmp  orders by name as a byte string (unsigned bytes, a proper prefix sorts first), ties broken by inode
 *             number DESCENDING (the comment-less `he_b - he_a`; any fixed direction is fine, it must only be an order).
 *   hash_cmp  orders by (hash, minor_hash) ascending, ties by name_cmp (no casefold) .
 * For each comparator:
 *   ORDER     sign(cmp(a,b)) == sign of the spec order on the two keys      (unit *_order, contract enforced)
 *   ANTISYM   sign(cmp(a,b)) == -sign(cmp(b,a))                              (unit *_lemmas, real code called 6 times)
 *   TRANS     cmp(a,b) <= 0 && cmp(b,c) <= 0  ==>  cmp(a,c) <= 0;   == 0 twice ==> == 0
 *   TIES      cmp(a,b) == 0  ==>  the keys are equal (deterministic tie-break)
 *
 * FINDING (genuine, see findings/C10_rehash_cmp_overflow): ino_cmp returns `he_a->ino - he_b->ino` and name_cmp breaks
 * ties with `he_b->dir->inode - he_a->dir->inode`: unsigned 32-bit differences converted to int.  For inode numbers
 * that differ by 2^31 or more the sign is wrong, and for a difference of exactly 2^31 BOTH cmp(a,b) and cmp(b,a) are
 * negative: not an order.  The *_full units state the property for all 32-bit inode numbers and fail (tier wip);
 * the units without _full state it for inode numbers below 2^31 (every filesystem with fewer than 2^31 inodes),
 * where it holds.
 */
/* VERIF-UNIT
{
 "name": "ino_cmp_order",
 "props": ["C05", "C10"],
 "level": "U",
 "tier": "quick",
 "harness": "h_ino_order",
 "enforce": ["ino_cmp"],
 "includes": ["e2fsck", "lib/support"],
 "defines": ["RC_INO31"],
 "unwind": 10,
 "unwind_reason": "ino_cmp is loop-free; the harness fills RC_CAP = 8 name bytes of three entries in a loop; unwinding assertions on",
 "timeout": 300,
 "functions": ["e2fsck/rehash.c:ino_cmp"],
 "assumes": ["both inode numbers are below 2^31 (filesystems with fewer than 2^31 inodes); the statement for all 32-bit inode numbers is unit ino_cmp_order_full, which fails: genuine defect findings/C10_rehash_cmp_overflow"],
 "native": false
}
*/
/* VERIF-UNIT
{
 "name": "ino_cmp_order_full",
 "props": ["C05", "C10"],
 "level": "U",
 "tier": "quick",
 "harness": "h_ino_order",
 "enforce": ["ino_cmp"],
 "includes": ["e2fsck", "lib/support"],
 "unwind": 10,
 "unwind_reason": "ino_cmp is loop-free; the harness fills RC_CAP = 8 name bytes of three entries in a loop; unwinding assertions on",
 "timeout": 300,
 "functions": ["e2fsck/rehash.c:ino_cmp"],
 "assumes": ["none: all 32-bit inode numbers. EXPECTED TO FAIL on the unchanged tree (findings/C10_rehash_cmp_overflow); green with proposed-fix.patch"],
 "native": false
}
*/
/* VERIF-UNIT
{
 "name": "ino_cmp_lemmas",
 "props": ["C05", "C10"],
 "level": "U",
 "tier": "quick",
 "harness": "h_ino_lemmas",
 "includes": ["e2fsck", "lib/support"],
 "defines": ["RC_INO31"],
 "unwind": 10,
 "unwind_reason": "ino_cmp is loop-free; the harness fills RC_CAP = 8 name bytes of three entries in a loop; unwinding assertions on",
 "timeout": 300,
 "functions": ["e2fsck/rehash.c:ino_cmp"],
 "assumes": ["the three inode numbers are below 2^31 (see ino_cmp_order)", "lemma unit: the real ino_cmp is called on three symbolic entries, no contract involved"],
 "native": false
}
*/
/* VERIF-UNIT
{
 "name": "ino_cmp_lemmas_full",
 "props": ["C05", "C10"],
 "level": "U",
 "tier": "quick",
 "harness": "h_ino_lemmas",
 "includes": ["e2fsck", "lib/support"],
 "unwind": 10,
 "unwind_reason": "ino_cmp is loop-free; the harness fills RC_CAP = 8 name bytes of three entries in a loop; unwinding assertions on",
 "timeout": 300,
 "functions": ["e2fsck/rehash.c:ino_cmp"],
 "assumes": ["none. EXPECTED TO FAIL on the unchanged tree (antisymmetry and transitivity; findings/C10_rehash_cmp_overflow)"],
 "native": false
}
*/
/* VERIF-UNIT
{
 "name": "name_cmp_order",
 "props": ["C05", "C10"],
 "level": "U/k",
 "tier": "quick",
 "harness": "h_name_order",
 "enforce": ["name_cmp"],
 "includes": ["e2fsck", "lib/support"],
 "defines": ["RC_INO31"],
 "unwind": 10,
 "unwind_reason": "memcmp (CBMC's byte loop) and the spec's byte loop run over at most RC_CAP = 8 name bytes (cap stated in assumes); unwinding assertions on",
 "timeout": 300,
 "functions": ["e2fsck/rehash.c:name_cmp"],
 "assumes": ["name lengths capped at 8 bytes (the on-disk field allows 255; the comparator's loop structure does not depend on the length)", "inode numbers below 2^31 (tie-break; see ino_cmp_order); full statement: name_cmp_order_full", "libc memcmp is CBMC's built-in model (bytes compared as unsigned char, sign of the first difference)"],
 "native": false
}
*/
/* VERIF-UNIT
{
 "name": "name_cmp_order_full",
 "props": ["C05", "C10"],
 "level": "U/k",
 "tier": "quick",
 "harness": "h_name_order",
 "enforce": ["name_cmp"],
 "includes": ["e2fsck", "lib/support"],
 "unwind": 10,
 "unwind_reason": "see name_cmp_order",
 "timeout": 300,
 "functions": ["e2fsck/rehash.c:name_cmp"],
 "assumes": ["name lengths capped at 8 bytes", "all 32-bit inode numbers. EXPECTED TO FAIL on the unchanged tree (tie-break of equal names; findings/C10_rehash_cmp_overflow)"],
 "native": false
}
*/
/* VERIF-UNIT
{
 "name": "name_cmp_lemmas",
 "props": ["C05", "C10"],
 "level": "U/k",
 "tier": "quick",
 "harness": "h_name_lemmas",
 "includes": ["e2fsck", "lib/support"],
 "defines": ["RC_INO31", "RC_CAP=4"],
 "unwind": 6,
 "unwind_reason": "memcmp's byte loop runs over at most RC_CAP = 4 name bytes; unwinding assertions on",
 "timeout": 300,
 "functions": ["e2fsck/rehash.c:name_cmp"],
 "assumes": ["name lengths capped at 4 bytes", "inode numbers below 2^31", "lemma unit: the real name_cmp is called on three symbolic entries (6 calls), libc memcmp is CBMC's built-in model"],
 "native": false
}
*/
/* VERIF-UNIT
{
 "name": "hash_cmp_order",
 "props": ["C05", "C10"],
 "level": "U/k",
 "tier": "quick",
 "harness": "h_hash_order",
 "enforce": ["hash_cmp"],
 "includes": ["e2fsck", "lib/support"],
 "defines": ["RC_INO31"],
 "unwind": 10,
 "unwind_reason": "see name_cmp_order",
 "timeout": 300,
 "functions": ["e2fsck/rehash.c:hash_cmp", "e2fsck/rehash.c:name_cmp"],
 "assumes": ["no casefolding (ctx->casefold == 0; the casefold branch calls name_cf_cmp / the NLS tables, not covered)", "name lengths capped at 8 bytes; inode numbers below 2^31", "libc memcmp is CBMC's built-in model"],
 "native": false
}
*/
/* VERIF-UNIT
{
 "name": "hash_cmp_lemmas",
 "props": ["C05", "C10"],
 "level": "U/k",
 "tier": "quick",
 "harness": "h_hash_lemmas",
 "includes": ["e2fsck", "lib/support"],
 "defines": ["RC_INO31", "RC_CAP=4"],
 "unwind": 6,
 "unwind_reason": "see name_cmp_lemmas",
 "timeout": 300,
 "functions": ["e2fsck/rehash.c:hash_cmp", "e2fsck/rehash.c:name_cmp"],
 "assumes": ["no casefolding", "name lengths capped at 4 bytes; inode numbers below 2^31", "lemma unit: real hash_cmp called 6 times on three symbolic entries"],
 "native": false
}
*/
#include "verif.h"

#ifndef RC_CAP
#define RC_CAP 8
#endif

struct in_cmp {
	struct {
		unsigned int hash, minor_hash, ino;	/* hash_entry fields */
		unsigned int d_ino;			/* dirent->inode (fill_dir_block sets ino == d_ino; the comparators must not rely on it) */
		unsigned char nl;			/* dirent name_len */
		unsigned char ft;			/* dirent file type (high byte of the 16-bit name_len field) */
		unsigned char name[RC_CAP];
	} e[3];
};
struct in_cmp IN;
#include "verif_in.h"

#include "e2fsck/rehash.c"

static struct hash_entry HE[3];
static struct ext2_dir_entry D[3];
static struct name_cmp_ctx CTX;

#define SGN(x) (((x) > 0) - ((x) < 0))

/* ---- spec orders (independent of the code) ---- */
static int spec_ino(unsigned a, unsigned b)
{
	return a < b ? -1 : a > b ? 1 : 0;
}

/* byte-string order of the names of entries x and y, then inode descending */
static int spec_name(int x, int y)
{
	unsigned lx = IN.e[x].nl, ly = IN.e[y].nl;
	for (unsigned i = 0; i < RC_CAP; i++) {
		if (i >= lx || i >= ly)
			break;
		if (IN.e[x].name[i] != IN.e[y].name[i])
			return IN.e[x].name[i] < IN.e[y].name[i] ? -1 : 1;
	}
	if (lx != ly)
		return lx < ly ? -1 : 1;
	return -spec_ino(IN.e[x].d_ino, IN.e[y].d_ino);
}

static int spec_hash(int x, int y)
{
	if (IN.e[x].hash != IN.e[y].hash)
		return IN.e[x].hash < IN.e[y].hash ? -1 : 1;
	if (IN.e[x].minor_hash != IN.e[y].minor_hash)
		return IN.e[x].minor_hash < IN.e[y].minor_hash ? -1 : 1;
	return spec_name(x, y);
}

static int names_equal(int x, int y)
{
	if (IN.e[x].nl != IN.e[y].nl)
		return 0;
	for (unsigned i = 0; i < RC_CAP; i++)
		if (i < IN.e[x].nl && IN.e[x].name[i] != IN.e[y].name[i])
			return 0;
	return 1;
}

static void build(void)
{
	for (int i = 0; i < 3; i++) {
		ASSUME(IN.e[i].nl <= RC_CAP);
#ifdef RC_INO31
		ASSUME(IN.e[i].ino < 0x80000000u && IN.e[i].d_ino < 0x80000000u);
#endif
		HE[i].hash = IN.e[i].hash;
		HE[i].minor_hash = IN.e[i].minor_hash;
		HE[i].ino = IN.e[i].ino;
		HE[i].dir = &D[i];
		D[i].inode = IN.e[i].d_ino;
		D[i].rec_len = 264;
		D[i].name_len = (unsigned short)(IN.e[i].nl | (IN.e[i].ft << 8));
		for (unsigned j = 0; j < RC_CAP; j++)
			D[i].name[j] = (char)IN.e[i].name[j];
	}
	CTX.casefold = 0;
	CTX.tbl = 0;
}

/* ---- contracts ---- */
static EXT2_QSORT_TYPE ino_cmp(const void *a, const void *b)
	REQUIRES(a == (const void *)&HE[0] && b == (const void *)&HE[1])
	ENSURES(SGN(RET) == spec_ino(IN.e[0].ino, IN.e[1].ino))
	ASSIGNS();

static EXT2_QSORT_TYPE name_cmp(const void *a, const void *b)
	REQUIRES(a == (const void *)&HE[0] && b == (const void *)&HE[1] && HE[0].dir == &D[0] && HE[1].dir == &D[1])
	ENSURES(SGN(RET) == spec_name(0, 1))
	ASSIGNS();

static EXT2_QSORT_TYPE hash_cmp(const void *a, const void *b, void *arg)
	REQUIRES(a == (const void *)&HE[0] && b == (const void *)&HE[1] && arg == (void *)&CTX && CTX.casefold == 0)
	REQUIRES(HE[0].dir == &D[0] && HE[1].dir == &D[1])
	ENSURES(SGN(RET) == spec_hash(0, 1))
	ASSIGNS();

/* ---- harnesses ---- */
void h_ino_order(void)
{
	LOAD_IN();
	build();
	int r = ino_cmp(&HE[0], &HE[1]);
	CHECK(SGN(r) == spec_ino(IN.e[0].ino, IN.e[1].ino), "ORDER: ino_cmp orders by inode number");
	if (r < 0) REACH("less");
	if (r == 0) REACH("equal");
	REACH("end");
}

#define LEMMAS(CMP3, KEYEQ01) do { \
	int ab = CMP3(0, 1), ba = CMP3(1, 0), bc = CMP3(1, 2), ac = CMP3(0, 2); \
	CHECK(SGN(ab) == -SGN(ba), "ANTISYM: sign(cmp(a,b)) == -sign(cmp(b,a))"); \
	CHECK(!(ab <= 0 && bc <= 0) || ac <= 0, "TRANS: a<=b and b<=c imply a<=c"); \
	CHECK(!(ab == 0 && bc == 0) || ac == 0, "TRANS0: equivalence is transitive"); \
	CHECK(ab != 0 || (KEYEQ01), "TIES: cmp == 0 only for equal keys"); \
	if (ab < 0 && bc < 0) REACH("chain"); \
	if (ab == 0) REACH("tie"); \
	REACH("end"); } while (0)

#define INO3(x, y) ino_cmp(&HE[x], &HE[y])
void h_ino_lemmas(void)
{
	LOAD_IN();
	build();
	LEMMAS(INO3, IN.e[0].ino == IN.e[1].ino);
}

void h_name_order(void)
{
	LOAD_IN();
	build();
	int r = name_cmp(&HE[0], &HE[1]);
	CHECK(SGN(r) == spec_name(0, 1), "ORDER: name_cmp orders by name bytes, prefix first, then inode descending");
	if (r < 0) REACH("less");
	if (r == 0) REACH("equal");
	if (IN.e[0].nl == RC_CAP && IN.e[1].nl == RC_CAP && r != 0 && IN.e[0].name[RC_CAP - 2] == IN.e[1].name[RC_CAP - 2]) REACH("last byte decides");
	REACH("end");
}

#define NAME3(x, y) name_cmp(&HE[x], &HE[y])
void h_name_lemmas(void)
{
	LOAD_IN();
	build();
	LEMMAS(NAME3, names_equal(0, 1) && IN.e[0].d_ino == IN.e[1].d_ino);
}

void h_hash_order(void)
{
	LOAD_IN();
	build();
	int r = hash_cmp(&HE[0], &HE[1], &CTX);
	CHECK(SGN(r) == spec_hash(0, 1), "ORDER: hash_cmp orders by hash, minor hash, then name_cmp");
	if (r < 0 && IN.e[0].hash == IN.e[1].hash && IN.e[0].minor_hash == IN.e[1].minor_hash) REACH("name decides");
	if (r > 0 && IN.e[0].hash == IN.e[1].hash && IN.e[0].minor_hash != IN.e[1].minor_hash) REACH("minor hash decides");
	if (r == 0) REACH("equal");
	REACH("end");
}

#define HASH3(x, y) hash_cmp(&HE[x], &HE[y], &CTX)
void h_hash_lemmas(void)
{
	LOAD_IN();
	build();
	LEMMAS(HASH3, IN.e[0].hash == IN.e[1].hash && IN.e[0].minor_hash == IN.e[1].minor_hash && names_equal(0, 1) && IN.e[0].d_ino == IN.e[1].d_ino);
}
