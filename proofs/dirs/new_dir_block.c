/*
 * C10 — lib/ext2fs/newdir.c:ext2fs_new_dir_block: the first block of a new directory.
 *
 * Spec (from the on-disk format, specs/dirs_dirent.h; written independently of the code):
 * for a filesystem with block size bs, features metadata_csum (c) and filetype (f), and arguments dir_ino d,
 * parent_ino p, on success *block is a fresh bs-byte buffer with, csz = c ? 12 : 0,
 *   d != 0:  entry at 0:   inode d, rec_len 12,            name_len 1, type f ? EXT2_FT_DIR(2) : 0, name "."
 *            entry at 12:  inode p, rec_len bs - csz - 12, name_len 2, type f ? 2 : 0,               name ".."
 *            the two rec_lens tile [0, bs - csz) exactly;
 *   d == 0:  one unused entry at 0: inode 0, rec_len bs - csz, name_len 0, type 0;
 *   c:       the last 12 bytes are the checksum tail: inode 0, rec_len 12, name_len 0, type 0xDE, checksum field 0
 *            (it is filled in when the block is written);
 *   !c:      no tail: the last 12 bytes are zero (slack of the last entry);
 *   every byte that is not named above is 0 (ghost byte index k).
 * rec_len is stored in the ext4 on-disk encoding (kernel ext4_rec_len_to_disk): the plain value for values < 65536,
 * and for a 64 KiB block a rec_len equal to the block size is stored as 65535 (EXT4_MAX_REC_LEN).
 * On failure (allocation) the error is EXT2_ET_NO_MEMORY and *block is not touched.
 */
/* VERIF-UNIT
{
 "name": "new_dir_block_1k",
 "props": ["C10"],
 "level": "U",
 "tier": "quick",
 "harness": "h_new_dir_block",
 "enforce": ["ext2fs_new_dir_block"],
 "defines": ["ND_BS=1024"],
 "sources": ["lib/ext2fs/dir_iterate.c", "lib/ext2fs/csum.c"],
 "unwind": 6,
 "unwind_reason": "ext2fs_new_dir_block is loop-free; libc memset is CBMC's built-in model on a constant size; the bound only serves DFCC library loops; unwinding assertions on",
 "timeout": 300,
 "functions": ["lib/ext2fs/newdir.c:ext2fs_new_dir_block", "lib/ext2fs/csum.c:ext2fs_initialize_dirent_tail", "lib/ext2fs/dir_iterate.c:ext2fs_set_rec_len"],
 "assumes": ["block size 1024 (other units: 4096, 65536); fs->magic valid, fs->super points to a superblock whose feature words are arbitrary", "malloc / memset are CBMC's built-in models (malloc never fails under the default model, so the EXT2_ET_NO_MEMORY path is stated in the contract but not exercised)", "little-endian host"],
 "native": false
}
*/
/* VERIF-UNIT
{
 "name": "new_dir_block_4k",
 "props": ["C10"],
 "level": "U",
 "tier": "thorough",
 "harness": "h_new_dir_block",
 "enforce": ["ext2fs_new_dir_block"],
 "defines": ["ND_BS=4096"],
 "sources": ["lib/ext2fs/dir_iterate.c", "lib/ext2fs/csum.c"],
 "unwind": 6,
 "unwind_reason": "see new_dir_block_1k",
 "timeout": 300,
 "functions": ["lib/ext2fs/newdir.c:ext2fs_new_dir_block", "lib/ext2fs/csum.c:ext2fs_initialize_dirent_tail", "lib/ext2fs/dir_iterate.c:ext2fs_set_rec_len"],
 "assumes": ["block size 4096", "as new_dir_block_1k"],
 "native": false
}
*/
/* VERIF-UNIT
{
 "name": "new_dir_block_64k",
 "backend": "kissat",
 "props": ["C10"],
 "level": "U",
 "tier": "wip",
 "harness": "h_new_dir_block",
 "enforce": ["ext2fs_new_dir_block"],
 "defines": ["ND_BS=65536"],
 "sources": ["lib/ext2fs/dir_iterate.c", "lib/ext2fs/csum.c"],
 "unwind": 6,
 "unwind_reason": "see new_dir_block_1k",
 "timeout": 300,
 "functions": ["lib/ext2fs/newdir.c:ext2fs_new_dir_block", "lib/ext2fs/csum.c:ext2fs_initialize_dirent_tail", "lib/ext2fs/dir_iterate.c:ext2fs_set_rec_len"],
 "assumes": ["block size 65536 (the largest one, where rec_len == block size needs the special on-disk encoding)", "DOES NOT FINISH (> 40 min with minisat and kissat, also without the ghost-index ZERO clause: define ND_NO_ZERO): kept wip for the record", "as new_dir_block_1k"],
 "native": false
}
*/
#include "verif.h"
#include "dirs_dirent.h"

#ifndef ND_BS
#define ND_BS 1024
#endif

struct in_newdir {
	unsigned int ro_compat, incompat, compat;	/* superblock feature words */
	unsigned int dir_ino, parent_ino;
	unsigned int k;					/* ghost byte index into the new block */
};
struct in_newdir IN;
#include "verif_in.h"

#include "lib/ext2fs/newdir.c"

static struct struct_ext2_filsys FS;
static struct ext2_super_block SB;
static char *BLOCK;			/* the caller's result slot */
static char *g_block0;			/* its value before the call (ghost) */

#define BS ((unsigned)ND_BS)
#define CSUM (!!(IN.ro_compat & EXT4_FEATURE_RO_COMPAT_METADATA_CSUM))
#define FTYPE (!!(IN.incompat & EXT2_FEATURE_INCOMPAT_FILETYPE))
/* kernel ext4_rec_len_to_disk(len, blocksize) for len a multiple of 4, len <= blocksize <= 65536 */
#define REC_TO_DISK(len) ((len) < 65536u ? (len) : 65535u)

#define V_DOT    1u
#define V_DOTDOT 2u
#define V_EMPTY  4u
#define V_TAIL   8u
#define V_ZERO   16u
#define V_TILE   32u

/* returns the set of violated clauses; b is the new block */
static unsigned nd_post(const unsigned char *b)
{
	unsigned bad = 0;
	unsigned csz = CSUM ? DE_TAIL : 0u;
	unsigned ft = FTYPE ? 2u : 0u;
	unsigned k = IN.k;
	int named = 0;		/* is byte k one of the bytes the spec gives a value to (other than 0)? */

	if (IN.dir_ino != 0) {
		if (!(DE_INO(b, 0) == IN.dir_ino && DE_REC(b, 0) == 12 && DE_NL(b, 0) == 1 && DE_FT(b, 0) == ft && b[8] == '.'))
			bad |= V_DOT;
		if (!(DE_INO(b, 12) == IN.parent_ino && DE_REC(b, 12) == REC_TO_DISK(BS - csz - 12) && DE_NL(b, 12) == 2 &&
		      DE_FT(b, 12) == ft && b[20] == '.' && b[21] == '.'))
			bad |= V_DOTDOT;
		/* the chain 0 -> 12 -> bs - csz */
		if (!(12u + (BS - csz - 12u) == BS - csz && ((BS - csz - 12u) & 3) == 0 && BS - csz - 12u >= DE_NEED(2)))
			bad |= V_TILE;
		named = k < 9 || (k >= 12 && k < 22);
	} else {
		if (!(DE_INO(b, 0) == 0 && DE_REC(b, 0) == REC_TO_DISK(BS - csz) && DE_NL(b, 0) == 0 && DE_FT(b, 0) == 0))
			bad |= V_EMPTY;
		named = k < 8;
	}
	if (CSUM) {
		if (!(DE_INO(b, BS - 12) == 0 && DE_REC(b, BS - 12) == 12 && DE_NL(b, BS - 12) == 0 && DE_FT(b, BS - 12) == 0xDE &&
		      b[BS - 4] == 0 && b[BS - 3] == 0 && b[BS - 2] == 0 && b[BS - 1] == 0))
			bad |= V_TAIL;
		named = named || (k >= BS - 12 && k < BS - 4);
	}
#ifndef ND_NO_ZERO
	if (!named && b[k] != 0)
		bad |= V_ZERO;
#endif
	return bad;
}

errcode_t ext2fs_new_dir_block(ext2_filsys fs, ext2_ino_t dir_ino, ext2_ino_t parent_ino, char **block)
	REQUIRES(fs == &FS && FS.magic == EXT2_ET_MAGIC_EXT2FS_FILSYS && FS.blocksize == ND_BS && FS.super == &SB)
	REQUIRES(SB.s_feature_ro_compat == IN.ro_compat && SB.s_feature_incompat == IN.incompat)
	REQUIRES(dir_ino == IN.dir_ino && parent_ino == IN.parent_ino && block == &BLOCK && BLOCK == g_block0 && IN.k < ND_BS)
	ENSURES(RET == 0 || RET == EXT2_ET_NO_MEMORY)
	ENSURES(RET == 0 || BLOCK == g_block0)
	ENSURES(RET != 0 || (__CPROVER_r_ok(BLOCK, ND_BS) && nd_post((const unsigned char *)BLOCK) == 0))
	ASSIGNS(BLOCK);

void h_new_dir_block(void)
{
	LOAD_IN();
	ASSUME(IN.k < BS);
	FS.magic = EXT2_ET_MAGIC_EXT2FS_FILSYS;
	FS.blocksize = ND_BS;
	FS.super = &SB;
	SB.s_feature_ro_compat = IN.ro_compat;
	SB.s_feature_incompat = IN.incompat;
	SB.s_feature_compat = IN.compat;
	BLOCK = (char *)0;
	g_block0 = BLOCK;

	errcode_t ret = ext2fs_new_dir_block(&FS, IN.dir_ino, IN.parent_ino, &BLOCK);

	CHECK(ret == 0 || ret == EXT2_ET_NO_MEMORY, "only allocation can fail");
	if (ret == 0) {
		unsigned bad = nd_post((const unsigned char *)BLOCK);
		CHECK(!(bad & V_DOT), "DOT: entry 0 is '.', inode dir_ino, rec_len 12, type iff filetype");
		CHECK(!(bad & V_DOTDOT), "DOTDOT: entry at 12 is '..', inode parent_ino, rec_len to the end of the entry area, type iff filetype");
		CHECK(!(bad & V_TILE), "TILE: the two rec_lens tile the block minus the checksum tail");
		CHECK(!(bad & V_EMPTY), "EMPTY: dir_ino 0 gives one unused entry spanning the entry area");
		CHECK(!(bad & V_TAIL), "TAIL: checksum tail initialised when metadata_csum");
		CHECK(!(bad & V_ZERO), "ZERO: every other byte is 0 (in particular no tail without metadata_csum)");
		if (IN.dir_ino && CSUM && FTYPE) REACH("dot entries, tail, filetype");
		if (IN.dir_ino && !CSUM && !FTYPE) REACH("dot entries, no tail, no filetype");
		if (!IN.dir_ino) REACH("empty block");
	}
	REACH("end");
}
