/*
 * C05 / C10 — e2fsck/rehash.c:fill_dir_block, the block-iterate callback with which `e2fsck -D` collects the entries
 * of a directory before rebuilding it (static; reached through the include of the real file).
 *
 * Spec (from the on-disk format, specs/dirs_dirent.h; the walk below is written in the unit, independently of the code).
 * The callback reads logical block `blockcnt` into fd->buf + blockcnt*blocksize and walks the entry chain of that block
 * from offset 0.  With X := "hash stored in the entry" (directory is encrypted AND casefolded, and the entry is neither
 * the '.'/'..' slot at offset 0/12 of block 0 nor the checksum-tail slot), an entry is well-formed iff
 *      rec_len >= 8 (+8 if X), rec_len % 4 == 0, pos + rec_len <= blocksize, name_len + 8 (+8 if X) <= rec_len.
 *   COLLECT  every LIVE entry (inode != 0) of the chain is appended to fd->harray, in chain order, as
 *            { dir = pointer to the entry in fd->buf, ino = its inode, (hash, minor_hash) = the pair stored behind the name
 *            if X, else (0,0) in compress mode, else ext2fs_dirhash2(hash version of the superblock incl. the
 *            unsigned-char flag, name pointer, name_len, fs->encoding, casefold flag, s_hash_seed) },
 *            stated for ONE ghost rank g among the collected entries;  fd->num_array grows by exactly their number.
 *   SKIP     the ONLY live entries not collected are "."  (name_len == 1, name[0] == '.') and
 *            ".." (name_len == 2, name[0] == name[1] == '.'), and only when not in compress mode; ".." sets fd->parent.
 *            Unused entries (inode 0, which includes the checksum tail) are skipped.  An entry named ".x", "..."
 *            or a 1-byte name other than "." IS collected (REACH canaries make sure such inputs exist).
 *   SIZE     fd->dir_size grows by the sum over collected entries of roundup4(8 + name_len) (+8 if X).
 *   KEEP     the block bytes are not modified (ghost byte k): inode / name_len / name of every entry stay as read
 *            (a hole, *block_nr == 0, is materialised as one unused entry spanning the zeroed block).
 *   ERR      a malformed entry, or a live entry with name_len 0, gives EXT2_ET_DIR_CORRUPTED + BLOCK_ABORT; a block
 *            beyond i_size likewise; read / hash errors are passed on in fd->err with BLOCK_ABORT.
 *   FLAGS    fs->flags is the same after the call as before (EXT2_FLAG_IGNORE_CSUM_ERRORS is set only around the read).
 */
/* VERIF-UNIT
{
 "name": "fill_dir_block_32",
 "props": ["C05", "C10"],
 "level": "U/k",
 "tier": "quick",
 "harness": "h_fill_dir_block",
 "enforce": ["fill_dir_block"],
 "replace": ["ext2fs_resize_array"],
 "includes": ["e2fsck", "lib/support"],
 "defines": ["FD_BS=32"],
 "sources": ["lib/ext2fs/dir_iterate.c"],
 "unwind": 10,
 "unwindset": {"fill_dir_block.0": 5, "fd_post.0": 6, "h_fill_dir_block.0": 6},
 "unwind_reason": "the entry loop of fill_dir_block advances by rec_len >= 8 per iteration, so a 32-byte block has at most 4 entries (5th test exits); the spec walk in the unit likewise; unwinding assertions on",
 "timeout": 600,
 "functions": ["e2fsck/rehash.c:fill_dir_block", "e2fsck/rehash.c:is_fake_entry", "lib/ext2fs/dir_iterate.c:ext2fs_get_rec_len"],
 "assumes": ["SYMBOLIC BLOCK OF 32 BYTES (fs->blocksize 32, at most 4 entries, smaller than any legal ext2 block; the function is parametric in the block size; larger blocks are out of CBMC's reach, see link_proc_64)", "blockcnt in {-1, 0, 1}; fd->buf holds 2 blocks of arbitrary bytes FOLLOWED BY 264 READABLE SLACK BYTES: CBMC checks every `dirent->name[..]` access as an access to the whole 263-byte struct ext2_dir_entry, which only fits with that slack; the slack hides over-reads behind the last block, which are checked (and found: findings/C10_fill_dir_block_overread) by unit fill_dir_block_32_tight", "ext2fs_read_dir_block4 is a stub: checks its arguments and that EXT2_FLAG_IGNORE_CSUM_ERRORS is set during the call, may fail, leaves the (already arbitrary) buffer bytes as the block content", "ext2fs_dirhash2 is a stub: checks its arguments (version, name pointer/length consistent with the entry, encoding, flags, seed), may fail, returns a fixed injective function of the name position", "fd->num_array + 4 <= fd->max_array (num_array <= 3, max_array 12): the array-growth path is not exercised; ext2fs_resize_array is replaced by a contract with precondition FALSE, so DFCC proves it is never called under this assumption", "fd->num_array <= 3 on entry, fd->err == 0"],
 "native": false
}
*/
/* VERIF-UNIT
{
 "name": "fill_dir_block_32_tight",
 "props": ["C05", "C10"],
 "level": "U/k",
 "tier": "quick",
 "harness": "h_fill_dir_block",
 "enforce": ["fill_dir_block"],
 "replace": ["ext2fs_resize_array"],
 "includes": ["e2fsck", "lib/support"],
 "defines": ["FD_BS=32", "FD_SLACK=0", "FD_TIGHT"],
 "sources": ["lib/ext2fs/dir_iterate.c"],
 "unwind": 10,
 "unwindset": {"fill_dir_block.0": 5, "fd_post.0": 6, "h_fill_dir_block.0": 6},
 "unwind_reason": "the entry loop of fill_dir_block advances by rec_len >= 8 per iteration, so a 32-byte block has at most 4 entries (5th test exits); the spec walk in the unit likewise; unwinding assertions on",
 "timeout": 600,
 "functions": ["e2fsck/rehash.c:fill_dir_block", "e2fsck/rehash.c:is_fake_entry", "lib/ext2fs/dir_iterate.c:ext2fs_get_rec_len"],
 "assumes": ["SYMBOLIC BLOCK OF 32 BYTES (fs->blocksize 32, at most 4 entries, smaller than any legal ext2 block; the function is parametric in the block size; larger blocks are out of CBMC's reach, see link_proc_64)", "blockcnt in {-1, 0, 1}; fd->buf holds 2 blocks of arbitrary bytes and NOTHING behind them (as e2fsck_rehash_dir allocates exactly i_size bytes); every entry the walk visits is unused (inode 0), so only the chain walk itself is exercised. EXPECTED TO FAIL on the unchanged tree: header read 4 bytes past the buffer (findings/C10_fill_dir_block_overread); green with proposed-fix.patch", "ext2fs_read_dir_block4 is a stub: checks its arguments and that EXT2_FLAG_IGNORE_CSUM_ERRORS is set during the call, may fail, leaves the (already arbitrary) buffer bytes as the block content", "ext2fs_dirhash2 is a stub: checks its arguments (version, name pointer/length consistent with the entry, encoding, flags, seed), may fail, returns a fixed injective function of the name position", "fd->num_array + 4 <= fd->max_array (num_array <= 3, max_array 12): the array-growth path is not exercised; ext2fs_resize_array is replaced by a contract with precondition FALSE, so DFCC proves it is never called under this assumption", "fd->num_array <= 3 on entry, fd->err == 0"],
 "native": false
}
*/
#include "verif.h"
#include "dirs_dirent.h"

#ifndef FD_BS
#define FD_BS 64
#endif
#define BS ((unsigned)FD_BS)
#define HCAP 12

struct in_fill {
	int blockcnt;
	unsigned long long blk;		/* *block_nr */
	unsigned int i_size, i_flags;
	unsigned int fsflags;
	unsigned int sb_flags, sb_ro_compat;
	unsigned char hash_version;
	unsigned int seed[4];
	unsigned char compress;
	unsigned int num0, parent0, dirino;
	unsigned long long dir_size0;
	long read_err;			/* result of the read stub */
	unsigned int hash_fail_at;	/* index of the dirhash call that fails (>= 8: none) */
	unsigned char enc_null;
	unsigned int g;			/* ghost rank among the collected entries */
	unsigned int k;			/* ghost byte index into fd->buf */
};
struct in_fill IN;
#include "verif_in.h"

/*
 * The array-growth path is excluded by the harness assumption fd->num_array + (entries of one block) <= fd->max_array.
 * The contract below (precondition false) makes DFCC PROVE that ext2fs_resize_array is never called under that
 * assumption, and keeps its realloc/memcpy body (500 * 24 bytes per loop iteration) out of the formula.
 */
#include "et/com_err.h"
errcode_t ext2fs_resize_array(unsigned long old_count, unsigned long count, unsigned long size, void *ptr)
	REQUIRES(0)
	ENSURES(1)
	ASSIGNS();

#include "e2fsck/rehash.c"

#ifndef FD_SLACK
#define FD_SLACK 264	/* sizeof(struct ext2_dir_entry): see "assumes" */
#endif
#define BUFSZ (2 * FD_BS + FD_SLACK)
static unsigned char BUF[BUFSZ] __attribute__((aligned(8)));
static struct struct_ext2_filsys FS;
static struct ext2_super_block SB;
static struct ext2_inode INODE;
static struct fill_dir_struct FD;
static struct hash_entry HARR[HCAP];
static struct ext2fs_nls_table *NLS_DUMMY = (struct ext2fs_nls_table *)0;
static blk64_t BLKNR;
static int NLS_OBJ;

/* ghost */
static unsigned g_off;			/* byte offset of the block inside BUF */
static unsigned char g_old_k;
static int g_read_called, g_read_flag_ok, g_hash_calls, g_hash_failed;

#define HASHF(p) (0xA0000000u + (unsigned)(p))
#define MINORF(p) (0x50000000u + 3u * (unsigned)(p))
#define HASH_IN_DIRENT ((IN.i_flags & EXT4_ENCRYPT_FL) && (IN.i_flags & EXT4_CASEFOLD_FL))
#define CSUM (!!(IN.sb_ro_compat & EXT4_FEATURE_RO_COMPAT_METADATA_CSUM))
/* hash version the format prescribes: s_def_hash_version, unsigned variants (+3) for legacy/half-md4/tea when the
 * superblock says chars are unsigned */
#define EXP_ALG ((IN.hash_version <= 2 && (IN.sb_flags & EXT2_FLAGS_UNSIGNED_HASH)) ? IN.hash_version + 3 : IN.hash_version)

/* ---- stubs (take their results from IN) ---- */
errcode_t ext2fs_read_dir_block4(ext2_filsys fs, blk64_t block, void *buf, int flags, ext2_ino_t ino)
{
#ifndef VERIF_NATIVE
	__CPROVER_assert(fs == &FS && block == IN.blk && buf == (void *)(BUF + g_off) && flags == 0 && ino == IN.dirino,
			 "CHECK:read_dir_block4 called on (fs, *block_nr, fd->buf + blockcnt*blocksize, 0, fd->dir)");
#endif
	g_read_called++;
	g_read_flag_ok = (FS.flags & EXT2_FLAG_IGNORE_CSUM_ERRORS) != 0;
	return IN.read_err;
}

errcode_t ext2fs_dirhash2(int version, const char *name, int len, const struct ext2fs_nls_table *charset,
			  int hash_flags, const __u32 *seed, ext2_dirhash_t *ret_hash, ext2_dirhash_t *ret_minor_hash)
{
	unsigned p = (unsigned)((const unsigned char *)name - BUF);
#ifndef VERIF_NATIVE
	__CPROVER_assert(__CPROVER_same_object(name, BUF) && p >= g_off + DE_HDR && p < g_off + BS, "CHECK:dirhash name pointer inside the block");
	__CPROVER_assert(len == (int)DE_NL(BUF, p - DE_HDR), "CHECK:dirhash length is the entry's name_len");
	__CPROVER_assert(version == (int)EXP_ALG, "CHECK:dirhash version is the superblock's default version (unsigned variant iff flagged)");
	__CPROVER_assert(charset == FS.encoding && hash_flags == (int)(IN.i_flags & EXT4_CASEFOLD_FL) && seed == SB.s_hash_seed,
			 "CHECK:dirhash encoding, casefold flag and seed come from the filesystem / inode");
#endif
	if ((unsigned)g_hash_calls++ == IN.hash_fail_at) {
		g_hash_failed = 1;
		return EXT2_ET_DIRHASH_UNSUPP;
	}
	*ret_hash = HASHF(p);
	*ret_minor_hash = MINORF(p);
	return 0;
}

/* ---- the spec walk over the block (post-state bytes), independent of the code ---- */
struct walk {
	int corrupted;			/* a malformed entry / live entry without name was met */
	unsigned cnt;			/* number of collected entries */
	unsigned long long size;	/* sum of their minimal record lengths */
	int has_dotdot; unsigned dotdot_ino;
	/* the collected entry of rank IN.g */
	int g_found; unsigned g_pos, g_ino, g_nl; int g_x;
	int any_live;			/* some visited entry is in use */
	int saw_dot_like;		/* a collected entry whose name starts with '.' (".x", "...", ".." with other length) */
};

#define SLOT_IS_FAKE(pos) ((IN.blockcnt == 0 && (pos) <= 12) || (CSUM && (pos) == BS - DE_TAIL))

/* a macro, expanded in the postcondition function and in the harness (DFCC cannot instrument nested calls inside
 * contract clauses, and a contract clause must not have side effects on globals) */
#define FD_WALK(W) do { \
	unsigned pos = 0; \
	(W).corrupted = 0; (W).cnt = 0; (W).size = 0; (W).has_dotdot = 0; (W).dotdot_ino = 0; (W).g_found = 0; (W).saw_dot_like = 0; (W).any_live = 0; \
	(W).g_pos = (W).g_ino = (W).g_nl = 0; (W).g_x = 0; \
	for (unsigned it = 0; it < BS / 8 + 1; it++) { \
		if (pos >= BS) \
			break; \
		unsigned o = g_off + pos; \
		if (pos + DE_HDR > BS) {	/* not even a header fits: the chain does not end at the block end */ \
			(W).corrupted = 1; \
			break; \
		} \
		unsigned ino = DE_INO(BUF, o), rec = DE_REC(BUF, o), nl = DE_NL(BUF, o); \
		int x = HASH_IN_DIRENT && !SLOT_IS_FAKE(pos); \
		unsigned min_rec = DE_HDR + (x ? 8u : 0u); \
		if (rec < min_rec || (rec & 3) != 0 || pos + rec > BS || nl + min_rec > rec) { \
			(W).corrupted = 1; \
			break; \
		} \
		if (ino != 0) { \
			(W).any_live = 1; \
			if (nl == 0) { \
				(W).corrupted = 1; \
				break; \
			} \
			int is_dot = nl == 1 && BUF[o + 8] == '.'; \
			int is_dotdot = nl == 2 && BUF[o + 8] == '.' && BUF[o + 9] == '.'; \
			if (!IN.compress && is_dot) { \
				; \
			} else if (!IN.compress && is_dotdot) { \
				(W).has_dotdot = 1; \
				(W).dotdot_ino = ino; \
			} else { \
				if ((W).cnt == IN.g) { \
					(W).g_found = 1; (W).g_pos = pos; (W).g_ino = ino; (W).g_nl = nl; (W).g_x = x; \
				} \
				if (BUF[o + 8] == '.' && !is_dot && !is_dotdot) \
					(W).saw_dot_like = 1; \
				(W).cnt++; \
				(W).size += DE_NEED(nl) + (x ? 8u : 0u); \
			} \
		} \
		pos += rec; \
	} } while (0)

#define V_NOP    1u
#define V_ERR    2u
#define V_COUNT  4u
#define V_ENTRY  8u
#define V_HASH   16u
#define V_PARENT 32u
#define V_SIZE   64u
#define V_KEEP   128u
#define V_FLAGS  256u
#define V_HOLE   512u

static unsigned fd_post(int ret)
{
	unsigned bad = 0;
	int changed_k = BUF[IN.k] != g_old_k;
	struct walk W;

	if (FS.flags != IN.fsflags)
		bad |= V_FLAGS;
	if (IN.blockcnt < 0) {
		if (!(ret == 0 && FD.err == 0 && FD.num_array == IN.num0 && !changed_k && !g_read_called && FD.parent == IN.parent0 && FD.dir_size == IN.dir_size0))
			bad |= V_NOP;
		return bad;
	}
	if (g_off + BS > IN.i_size) {
		if (!(ret == BLOCK_ABORT && FD.err == EXT2_ET_DIR_CORRUPTED && FD.num_array == IN.num0 && !changed_k && !g_read_called))
			bad |= V_ERR;
		return bad;
	}
	if (IN.blk != 0) {
		if (!(g_read_called == 1 && g_read_flag_ok))
			bad |= V_FLAGS;
		if (changed_k)
			bad |= V_KEEP;
		if (IN.read_err) {
			if (!(ret == BLOCK_ABORT && FD.err == IN.read_err && FD.num_array == IN.num0))
				bad |= V_ERR;
			return bad;
		}
	} else {
		/* hole: one unused entry spanning a zeroed block */
		unsigned k = IN.k;
		if (g_read_called)
			bad |= V_HOLE;
		if (!(DE_INO(BUF, g_off) == 0 && DE_REC(BUF, g_off) == BS && DE_NL(BUF, g_off) == 0))
			bad |= V_HOLE;
		if (k >= g_off && k < g_off + BS) {
			if (!(k == g_off + 4 || k == g_off + 5) && BUF[k] != 0)
				bad |= V_HOLE;
		} else if (changed_k)
			bad |= V_KEEP;
	}
	FD_WALK(W);
	if (g_hash_failed) {
		if (!(ret == BLOCK_ABORT && FD.err == EXT2_ET_DIRHASH_UNSUPP))
			bad |= V_ERR;
		return bad;
	}
	if (W.corrupted) {
		if (!(ret == BLOCK_ABORT && FD.err == EXT2_ET_DIR_CORRUPTED))
			bad |= V_ERR;
		return bad;
	}
	if (!(ret == 0 && FD.err == 0))
		bad |= V_ERR;
	if (FD.num_array != IN.num0 + W.cnt || FD.max_array != HCAP || FD.harray != HARR)
		bad |= V_COUNT;
	if (W.g_found && IN.num0 + IN.g < HCAP) {
		struct hash_entry *e = &HARR[IN.num0 + IN.g];
		unsigned o = g_off + W.g_pos;
		if (!(e->dir == (struct ext2_dir_entry *)(BUF + o) && e->ino == W.g_ino))
			bad |= V_ENTRY;
		if (W.g_x) {
			unsigned h = o + DE_HDR + ((W.g_nl + 3u) & ~3u);	/* hash pair stored behind the padded name */
			if (!(h + 8 <= g_off + BS && e->hash == DE_INO(BUF, h) && e->minor_hash == DE_INO(BUF, h + 4)))
				bad |= V_HASH;
		} else if (IN.compress) {
			if (!(e->hash == 0 && e->minor_hash == 0))
				bad |= V_HASH;
		} else {
			if (!(e->hash == HASHF(o + DE_HDR) && e->minor_hash == MINORF(o + DE_HDR)))
				bad |= V_HASH;
		}
	}
	if (FD.parent != (W.has_dotdot ? W.dotdot_ino : IN.parent0))
		bad |= V_PARENT;
	if (FD.dir_size != IN.dir_size0 + W.size)
		bad |= V_SIZE;
	return bad;
}

static int fill_dir_block(ext2_filsys fs, blk64_t *block_nr, e2_blkcnt_t blockcnt, blk64_t ref_block, int ref_offset, void *priv_data)
	REQUIRES(fs == &FS && block_nr == &BLKNR && BLKNR == IN.blk && blockcnt == IN.blockcnt && priv_data == (void *)&FD)
	REQUIRES(FS.blocksize == FD_BS && FS.super == &SB && FS.flags == (int)IN.fsflags)
	REQUIRES(FD.buf == (char *)BUF && FD.inode == &INODE && INODE.i_size == IN.i_size && INODE.i_flags == IN.i_flags)
	REQUIRES(FD.err == 0 && FD.harray == HARR && FD.max_array == HCAP && FD.num_array == IN.num0 && IN.num0 <= 3)
	REQUIRES(FD.dir_size == (ext2_off64_t)IN.dir_size0 && FD.compress == IN.compress && IN.compress <= 1 && FD.parent == IN.parent0 && FD.dir == IN.dirino)
	REQUIRES(SB.s_def_hash_version == IN.hash_version && SB.s_flags == IN.sb_flags && SB.s_feature_ro_compat == IN.sb_ro_compat)
	REQUIRES(IN.blockcnt >= -1 && IN.blockcnt <= 1 && IN.k < BUFSZ && IN.g < FD_BS / 8 && g_off == (IN.blockcnt > 0 ? FD_BS : 0))
	REQUIRES(IN.dir_size0 < 0x100000000ull && g_read_called == 0 && g_hash_calls == 0 && g_hash_failed == 0 && g_old_k == BUF[IN.k])
	ENSURES(fd_post(RET) == 0)
	ASSIGNS(__CPROVER_object_whole(BUF), __CPROVER_object_whole(HARR), FS.flags, FD.err, FD.num_array, FD.max_array, FD.harray, FD.dir_size, FD.parent,
		g_read_called, g_read_flag_ok, g_hash_calls, g_hash_failed);

void h_fill_dir_block(void)
{
	LOAD_IN();
	{ unsigned char nd[BUFSZ]; __CPROVER_array_replace(BUF, nd); }	/* arbitrary bytes: what the read stub "returns" */
	ASSUME(IN.blockcnt >= -1 && IN.blockcnt <= 1 && IN.k < BUFSZ && IN.g < FD_BS / 8 && IN.num0 <= 3 && IN.compress <= 1);
	ASSUME(IN.dir_size0 < 0x100000000ull);
	FS.blocksize = FD_BS;
	FS.super = &SB;
	FS.flags = IN.fsflags;
	FS.encoding = IN.enc_null ? (const struct ext2fs_nls_table *)0 : (const struct ext2fs_nls_table *)&NLS_OBJ;
	SB.s_def_hash_version = IN.hash_version;
	SB.s_flags = IN.sb_flags;
	SB.s_feature_ro_compat = IN.sb_ro_compat;
	SB.s_hash_seed[0] = IN.seed[0]; SB.s_hash_seed[1] = IN.seed[1]; SB.s_hash_seed[2] = IN.seed[2]; SB.s_hash_seed[3] = IN.seed[3];
	INODE.i_size = IN.i_size;
	INODE.i_flags = IN.i_flags;
	FD.buf = (char *)BUF;
	FD.inode = &INODE;
	FD.ino = IN.dirino;
	FD.err = 0;
	FD.ctx = 0;
	FD.harray = HARR;
	FD.max_array = HCAP;
	FD.num_array = IN.num0;
	FD.dir_size = IN.dir_size0;
	FD.compress = IN.compress;
	FD.parent = IN.parent0;
	FD.dir = IN.dirino;
	BLKNR = IN.blk;
	g_off = IN.blockcnt > 0 ? BS : 0;
	g_old_k = BUF[IN.k];
	g_read_called = g_hash_calls = g_hash_failed = 0;
	g_read_flag_ok = 0;

#ifdef FD_TIGHT
	/* chain-walk memory safety only: no visited entry is in use (so no `dirent->name` lvalue is formed) */
	{ struct walk W0; FD_WALK(W0); ASSUME(!W0.any_live); }
#endif

	int ret = fill_dir_block(&FS, &BLKNR, IN.blockcnt, 0, 0, &FD);

	unsigned bad = fd_post(ret);
	struct walk W;
	FD_WALK(W);
	CHECK(!(bad & V_NOP), "NOP: negative blockcnt (metadata block) changes nothing");
	CHECK(!(bad & V_ERR), "ERR: beyond i_size / malformed entry / live entry without name -> DIR_CORRUPTED + ABORT; read and hash errors passed on; success otherwise");
	CHECK(!(bad & V_COUNT), "COUNT: num_array grows by exactly the number of live entries other than . and ..");
	CHECK(!(bad & V_ENTRY), "ENTRY: the g-th collected entry points at the g-th such dirent and carries its inode");
	CHECK(!(bad & V_HASH), "HASH: stored pair if hash-in-dirent, (0,0) in compress mode, else dirhash of exactly this name");
	CHECK(!(bad & V_PARENT), "PARENT: fd->parent is the inode of .. when the block has one");
	CHECK(!(bad & V_SIZE), "SIZE: dir_size grows by the minimal record lengths of the collected entries");
	CHECK(!(bad & V_KEEP), "KEEP: block bytes unchanged");
	CHECK(!(bad & V_HOLE), "HOLE: a hole becomes one unused entry spanning a zeroed block, nothing read");
	CHECK(!(bad & V_FLAGS), "FLAGS: fs->flags restored; IGNORE_CSUM_ERRORS set during the read");
#ifndef FD_TIGHT
	if (ret == 0 && IN.blockcnt >= 0 && W.cnt >= 2 && W.g_found && IN.g == 1) REACH("two entries collected");
	if (ret == 0 && IN.blockcnt >= 0 && W.saw_dot_like) REACH("dot-like name collected");
	if (ret == 0 && IN.blockcnt >= 0 && W.has_dotdot) REACH("dotdot skipped");
	if (ret == 0 && IN.blockcnt >= 0 && W.g_found && W.g_x) REACH("hash in dirent");
	if (ret == BLOCK_ABORT && FD.err == EXT2_ET_DIR_CORRUPTED && FD.num_array > IN.num0) REACH("corrupted after some entries");
	if (g_hash_failed) REACH("hash error");
#else
	if (ret == BLOCK_ABORT && IN.blockcnt == 1 && IN.blk != 0 && !IN.read_err && DE_REC(BUF, g_off) == BS - 4) REACH("chain stops 4 bytes short of the last block's end");
#endif
	if (ret == 0 && IN.blk == 0 && IN.blockcnt >= 0) REACH("hole");
	REACH("end");
}
