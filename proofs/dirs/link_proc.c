/*
 * C10 — lib/ext2fs/link.c:link_proc, the per-entry callback of the linear-directory insert.
 *
 * Spec (written from the property statement + the on-disk format in specs/dirs_dirent.h, not from the code):
 * the callback sees ONE entry E = [o, o+r) that the iterator has validated, and it may use E and — if the
 * entry directly behind E is an unused entry N lying completely inside the block and not being the checksum
 * tail — also N.  Call e_max the end of that region.  Afterwards
 *   TILE   [o, o+r) (and N untouched) or [o, e_max) is exactly covered by one or two valid entries;
 *   FRAME  no byte outside [o, e_max) changes (ghost byte index k);
 *   KEEP   a live E keeps inode, name_len, file type and every name byte (ghost name index j);
 *   NEW    when the callback reports done, one of the entries of the region carries the requested inode,
 *          name_len, name bytes and (filetype feature) type;
 *   ROOM   a free E with r >= need is used; a live E with r >= need(E) + need is split so that the entry the
 *          iterator visits next is a free entry with room for the name (linked by the next callback, see
 *          unit link_proc_two_step);  done only if the region really has room;
 *   TAIL   a well-placed checksum tail is still there afterwards;
 *   FLAGS  linked => DIRENT_CHANGED|DIRENT_ABORT; any byte changed => DIRENT_CHANGED; error => DIRENT_ABORT
 *          and nothing changed; already done on entry => DIRENT_ABORT and nothing changed.
 */
/* VERIF-UNIT
{
 "name": "link_proc_1k",
 "props": ["C10"],
 "level": "U",
 "tier": "wip",
 "harness": "h_link_proc",
 "enforce": ["link_proc"],
 "replace": ["strncpy"],
 "defines": ["LP_BS=1024"],
 "sources": ["lib/ext2fs/dir_iterate.c"],
 "unwind": 257,
 "unwind_reason": "link_proc is loop-free; only the two harness/spec loops over the 255 possible name bytes (name_len is an 8-bit on-disk field) are unwound, with unwinding assertions",
 "functions": ["lib/ext2fs/link.c:link_proc", "lib/ext2fs/dir_iterate.c:ext2fs_get_rec_len", "lib/ext2fs/dir_iterate.c:ext2fs_set_rec_len"],
 "assumes": ["block size 1024 (unit link_proc_4k: 4096)", "the entry handed to the callback satisfies what ext2fs_process_dir_block checks before calling: 4-aligned offset < blocksize-8, rec_len >= 8, multiple of 4, offset+rec_len <= blocksize, name_len+8 <= rec_len, and it is not the checksum tail (the caller does not pass DIRENT_FLAG_INCLUDE_CSUM)", "ls->namelen == strlen(ls->name) <= 255, ls->err == 0, ls->sb == fs->super, callback blocksize == fs->blocksize (block directories; inline-data directories are not covered)", "libc strncpy is replaced by a contract stating its ISO C semantics at the ghost name index", "without the filetype feature the type byte of the new entry is only claimed to be 0 when the reused slot's stale type byte was 0 (always the case on a filesystem that never had the feature)"],
 "native": false
}
*/
/* VERIF-UNIT
{
 "name": "link_proc_4k",
 "props": ["C10"],
 "level": "U",
 "tier": "wip",
 "harness": "h_link_proc",
 "enforce": ["link_proc"],
 "replace": ["strncpy"],
 "defines": ["LP_BS=4096"],
 "sources": ["lib/ext2fs/dir_iterate.c"],
 "unwind": 257,
 "unwind_reason": "see link_proc_1k",
 "functions": ["lib/ext2fs/link.c:link_proc"],
 "assumes": ["block size 4096", "as link_proc_1k"],
 "native": false
}
*/
#include "verif.h"
#include "dirs_dirent.h"

#ifndef LP_BS
#define LP_BS 1024
#endif

struct in_link {
	unsigned char blk[LP_BS];	/* the directory block as read from disk: arbitrary bytes */
	unsigned int offset;		/* where the iterator stands */
	unsigned char name[256];	/* requested name (NUL-terminated C string) */
	unsigned int namelen;
	unsigned int ino;
	int flags;			/* low 3 bits: file type */
	unsigned char done;		/* ls->done on entry */
	unsigned char csum, filetype;	/* features */
	unsigned int k;			/* ghost byte index into the block */
	unsigned int j;			/* ghost index into a name */
	unsigned int dir;
	int entry;
};
struct in_link IN;
#include "verif_in.h"

#include "lib/ext2fs/link.c"

static union { unsigned char b[LP_BS]; unsigned int align; } BLK;	/* the buffer the callback works on */
static struct struct_ext2_filsys FS;
static struct ext2_super_block SB;
static struct link_struct LS;

#define OLDB (IN.blk)
#define NEWB (BLK.b)
#define BS ((unsigned)LP_BS)
#define CSZ (IN.csum ? DE_TAIL : 0u)
#define O (IN.offset)
#define R (DE_REC(OLDB, O))
#define N0 (O + R)
#define NEED (DE_NEED(IN.namelen))

/* end of the region the callback may use: E, plus a directly following unused entry inside the block (never the tail) */
#define EMAX ((N0 + DE_HDR <= BS - CSZ && DE_INO(OLDB, N0) == 0 && N0 + DE_REC(OLDB, N0) <= BS) ? N0 + DE_REC(OLDB, N0) : N0)

/* (spec functions are single-level — macros inside — because DFCC cannot instrument nested calls in contract clauses) */
static int lp_pre(void)
{
	return O < BS && (O & 3) == 0 && O + DE_HDR < BS && DE_VALID(OLDB, O, BS) &&
	       !(IN.csum && DE_INO(OLDB, O) == 0 && O == BS - DE_TAIL && DE_REC(OLDB, O) == DE_TAIL && DE_NL(OLDB, O) == 0 && DE_FT(OLDB, O) == 0xDE) &&
	       IN.namelen <= 255 && IN.name[IN.namelen] == 0 && IN.done <= 1 && IN.k < BS && IN.j < 255;
}

/* entry at p of the new block is the requested one (name compared at the ghost index j) */
#define MATCH(p) ((p) + DE_HDR + IN.namelen <= BS && DE_INO(NEWB, p) == IN.ino && DE_NL(NEWB, p) == IN.namelen && \
	(IN.j >= IN.namelen || NEWB[(p) + DE_HDR + IN.j] == IN.name[IN.j]) && \
	(IN.filetype ? DE_FT(NEWB, p) == (unsigned)(IN.flags & 7) : (DE_FT(OLDB, p) != 0 || DE_FT(NEWB, p) == 0)))

#define CHANGED_K (NEWB[IN.k] != OLDB[IN.k])
#define K_IN(lo, hi) (IN.k >= (lo) && IN.k < (hi))
#define P2 (O + DE_REC(NEWB, O))

static int lp_tile(void)
{
	unsigned emax = EMAX;
	int a = DE_TILED2(NEWB, O, N0, BS) && !(K_IN(N0, emax) && CHANGED_K);
	int b = emax > N0 && DE_TILED2(NEWB, O, emax, BS);
	return a || b;
}
static int lp_frame(void) { return K_IN(O, EMAX) || !CHANGED_K; }
static int lp_keep(void)
{
	if (DE_INO(OLDB, O) == 0)
		return 1;
	return DE_INO(NEWB, O) == DE_INO(OLDB, O) && DE_NL(NEWB, O) == DE_NL(OLDB, O) && DE_FT(NEWB, O) == DE_FT(OLDB, O) &&
	       (IN.j >= DE_NL(OLDB, O) || NEWB[O + DE_HDR + IN.j] == OLDB[O + DE_HDR + IN.j]);
}
static int lp_new(void)
{
	unsigned p2 = P2;
	if (!(LS.done > IN.done))
		return 1;
	return MATCH(O) || (p2 + DE_HDR <= EMAX && MATCH(p2));
}
static int lp_room(int ret)
{
	unsigned p2 = P2;
	if (IN.done)
		return 1;
	if (LS.done && EMAX - O < NEED)
		return 0;			/* linked although the region has no room */
	if (LS.err)
		return 1;
	if (DE_INO(OLDB, O) == 0)
		return R < NEED || LS.done == 1;
	if (R >= DE_NEED(DE_NL(OLDB, O)) + NEED)	/* live entry with enough slack: split, iterator continues on a free slot */
		return ret == DIRENT_CHANGED && p2 + DE_HDR < BS && DE_VALID(NEWB, p2, BS) &&
		       DE_INO(NEWB, p2) == 0 && DE_REC(NEWB, p2) >= NEED && !DE_IS_TAIL(NEWB, p2, BS);
	return 1;
}
static int lp_tail(void)
{
	unsigned t = BS - DE_TAIL;
	if (!IN.csum || !DE_IS_TAIL(OLDB, t, BS))
		return 1;
	/* the tail is well placed w.r.t. what the callback can see: E ends at it, or N is a valid entry ending before it */
	if (!(N0 == t || (N0 + DE_HDR <= t && DE_VALID(OLDB, N0, BS) && N0 + DE_REC(OLDB, N0) <= t)))
		return 1;
	return DE_IS_TAIL(NEWB, t, BS) && !(K_IN(t, BS) && CHANGED_K);
}
static int lp_flags(int ret)
{
	if ((ret & ~(DIRENT_CHANGED | DIRENT_ABORT)) != 0)
		return 0;
	if (IN.done)
		return ret == DIRENT_ABORT && !CHANGED_K && LS.done == IN.done;
	if (LS.done != 0 && LS.done != 1)
		return 0;
	if (LS.done == 1 && ret != (DIRENT_CHANGED | DIRENT_ABORT))
		return 0;
	if (CHANGED_K && !(ret & DIRENT_CHANGED))
		return 0;
	if (LS.err && (!(ret & DIRENT_ABORT) || CHANGED_K || LS.done))
		return 0;
	return 1;
}

static int link_proc(ext2_ino_t dir, int entru, struct ext2_dir_entry *dirent, int offset, int blocksize,
		     char *buf, void *priv_data)
	REQUIRES(buf == (char *)BLK.b && priv_data == (void *)&LS && dirent == (struct ext2_dir_entry *)(BLK.b + IN.offset))
	REQUIRES(offset == (int)IN.offset && blocksize == LP_BS && LS.fs == &FS && FS.blocksize == LP_BS && FS.super == &SB && LS.sb == &SB)
	REQUIRES(LS.err == 0 && LS.namelen == (int)IN.namelen && LS.name == (const char *)IN.name && LS.done == IN.done)
	REQUIRES(LS.inode == IN.ino && LS.flags == IN.flags)
	REQUIRES(lp_pre())
	ENSURES(lp_tile())
	ENSURES(lp_frame())
	ENSURES(lp_keep())
	ENSURES(lp_new())
	ENSURES(lp_room(RET))
	ENSURES(lp_tail())
	ENSURES(lp_flags(RET))
	ASSIGNS(__CPROVER_object_whole(BLK.b), LS.err, LS.done);

/*
 * libc strncpy replaced by its exact ISO C semantics at the ghost index IN.j (AUTHORING: byte-wise libc models
 * over a symbolic length do not scale): dst[j] = src[j] if there is no NUL in src[0..j), else 0; only dst[0..n)
 * is written.
 */
static int lp_nul_before_j(const char *src)
{
	int seen = 0;
	for (unsigned i = 0; i < 255; i++)
		if (i < IN.j && src[i] == 0)
			seen = 1;
	return seen;
}
char *strncpy(char *dst, const char *src, size_t n)
	REQUIRES(n <= 255 && src == (const char *)IN.name && __CPROVER_w_ok(dst, n))
	ASSIGNS(__CPROVER_object_upto(dst, n))
	ENSURES(RET == dst)
	ENSURES(IN.j >= n || dst[IN.j] == (lp_nul_before_j(src) ? 0 : src[IN.j]));

void h_link_proc(void)
{
	LOAD_IN();
	ASSUME(lp_pre());
	/* ls->namelen = strlen(name): no NUL inside the name */
	for (unsigned i = 0; i < 255; i++)
		if (i < IN.namelen)
			ASSUME(IN.name[i] != 0);
	memset(&FS, 0, sizeof(FS));
	memset(&SB, 0, sizeof(SB));
	FS.blocksize = LP_BS;
	FS.super = &SB;
	if (IN.csum)
		SB.s_feature_ro_compat |= EXT4_FEATURE_RO_COMPAT_METADATA_CSUM;
	if (IN.filetype)
		SB.s_feature_incompat |= EXT2_FEATURE_INCOMPAT_FILETYPE;
	memcpy(BLK.b, IN.blk, LP_BS);
	LS.fs = &FS;
	LS.name = (const char *)IN.name;
	LS.namelen = IN.namelen;
	LS.inode = IN.ino;
	LS.flags = IN.flags;
	LS.done = IN.done;
	LS.sb = &SB;
	LS.blocksize = LP_BS;
	LS.err = 0;

	int ret = link_proc(IN.dir, IN.entry, (struct ext2_dir_entry *)(BLK.b + IN.offset), IN.offset, LP_BS,
			    (char *)BLK.b, &LS);

	CHECK(lp_tile(), "TILE: the region is exactly covered by one or two valid entries");
	CHECK(lp_frame(), "FRAME: no byte outside the entry and its absorbable free follower changes");
	CHECK(lp_keep(), "KEEP: a live entry keeps inode, name_len, type and name");
	CHECK(lp_new(), "NEW: when linked, an entry of the region carries the requested inode, name_len, name and type");
	CHECK(lp_room(ret), "ROOM: free slot with room is used, live entry with slack is split for the next callback, never linked without room");
	CHECK(lp_tail(), "TAIL: a well-placed checksum tail is never absorbed or overwritten");
	CHECK(lp_flags(ret), "FLAGS: linked => CHANGED|ABORT, changed => CHANGED, error => ABORT and unchanged");
	if (LS.done > IN.done) REACH("linked");
	if (!IN.done && !LS.done && ret == DIRENT_CHANGED && DE_INO(OLDB, O) != 0 && DE_REC(NEWB, O) < R) REACH("split");
	if (DE_REC(NEWB, O) > R) REACH("absorbed");
	if (LS.err) REACH("error");
	REACH("end");
}
