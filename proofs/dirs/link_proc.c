/*
 * C10 — lib/ext2fs/link.c:link_proc, the per-entry callback of the linear-directory insert.
 *
 * Spec (written from the property statement + the on-disk format in specs/dirs_dirent.h, not from the code):
 * the callback sees ONE entry E = [o, o+r) that the iterator has validated, and it may use E and — if the
 * entry directly behind E is an unused entry N lying completely inside the block and not being the checksum
 * tail — also N.  Call e_max the end of that region.  Afterwards
 *   TILE   [o, o+r) (and N untouched) or [o, e_max) is exactly covered by one or two valid entries;
 *   FRAME  no byte outside [o, e_max) changes (ghost byte index k);
 *   KEEP   a live E keeps inode, name_len, file type and every name byte (ghost name index j);
 *   NEW    when the callback reports done, one of the entries of the region carries the requested inode,
 *          name_len, name bytes and (filetype feature) type;
 *   ROOM   a free E with r >= need is used; a live E with r >= need(E) + need is split so that the entry the
 *          iterator visits next is a free entry with room for the name (which the next callback then uses, by
 *          the first half of this clause);  done only if the region really has room;
 *   TAIL   a well-placed checksum tail is still there afterwards;
 *   FLAGS  linked => DIRENT_CHANGED|DIRENT_ABORT; any byte changed => DIRENT_CHANGED; error => DIRENT_ABORT
 *          and nothing changed; already done on entry => DIRENT_ABORT and nothing changed.
 *
 * Block size.  CBMC lowers every typed access (`dirent->rec_len`, `next->inode`, ...) at a SYMBOLIC offset into a byte
 * array to an expression over ALL elements of the array, and the resulting SAT problems grow about 5x per doubling of
 * the block (minisat: 64 B 15 s, 128 B 70 s, 256 B > 250 s; kissat per pre-state case: 256 B 50..130 s, 1 KiB 320..800 s,
 * 4 KiB 33 min .. > 60 min; SMT back ends (z3, cvc5) do not finish either).  link_proc depends on the block size only through comparisons with its `blocksize`
 * argument / fs->blocksize, so the quick units use SMALL SYMBOLIC BLOCKS (64, 128 B, all pre-states in one run) and the thorough units 256 B
 * and 1 KiB — the smallest legal ext2 block — split into the four exhaustive pre-state cases "E unused/live x
 * follower absorbable/not"; always a symbolic offset, arbitrary content and all safety checks on.  The block size is
 * stated in every unit's `assumes`; 4 KiB is not covered.  (Also noted: static objects are NOT zero under DFCC — nondet-static —
 * so the harness assigns every superblock field the code reads.)
 */
/* VERIF-UNIT
{
 "name": "link_proc_64",
 "props": ["C10"],
 "level": "U",
 "tier": "quick",
 "harness": "h_link_proc",
 "enforce": ["link_proc"],
 "defines": ["LP_BS=64"],
 "sources": ["lib/ext2fs/dir_iterate.c"],
 "unwind": 6,
 "unwindset": {"h_link_proc.0": 257, "strncpy.0": 257},
 "unwind_reason": "link_proc is loop-free; only harness/stub loops are unwound: over the 255 possible name bytes (name_len is an 8-bit on-disk field); unwinding assertions on",
 "timeout": 300,
 "functions": ["lib/ext2fs/link.c:link_proc", "lib/ext2fs/dir_iterate.c:ext2fs_get_rec_len", "lib/ext2fs/dir_iterate.c:ext2fs_set_rec_len"],
 "assumes": ["SYMBOLIC BLOCK OF 64 BYTES (blocksize argument and fs->blocksize are 64): smaller than any legal ext2 block size, i.e. evidence parametric in the block size (see link_proc_1k_c* for a real block size); link_proc and the rec_len helpers depend on the block size only through comparisons with it (and the < 65536 branch); units exist for 64 and 128 B (all pre-states in one run), 256 B and 1 KiB (the smallest legal ext2 block; four exhaustive pre-state cases, kissat); 4 KiB is beyond the time budget (case c0 is green after 33 min, case c2 does not finish in 60 min: every typed access at a symbolic offset costs O(block size))", "requested names are therefore limited to what fits (name_len <= 56); IN.namelen itself ranges over 1..255", "the entry handed to the callback satisfies what ext2fs_process_dir_block checks before calling: 4-aligned offset < blocksize-8, rec_len >= 8, multiple of 4, offset+rec_len <= blocksize, name_len+8 <= rec_len, and it is not the checksum tail (the caller does not pass DIRENT_FLAG_INCLUDE_CSUM)", "ls->namelen == strlen(ls->name) <= 255, ls->err == 0, ls->sb == fs->super, callback blocksize == fs->blocksize (block directories; inline-data directories are not covered)", "libc strncpy is an over-approximating stub in the unit: the whole block becomes arbitrary except that, at every byte position the code or the specification later reads (headers of E, of the entry behind E, of the tail slot, the frame byte k, name byte j of both entries), bytes outside dst[0..n) are unchanged and dst[j] has the ISO C value; destination range asserted to be inside the block", "without the filetype feature the type byte of the new entry is only claimed to be 0 when the reused slot's stale type byte was 0 (always the case on a filesystem that never had the feature)", "superblock feature words other than metadata_csum / filetype bits arbitrary"],
 "native": false
}
*/
/* VERIF-UNIT
{
 "name": "link_proc_128",
 "backend": "kissat",
 "props": ["C10"],
 "level": "U",
 "tier": "quick",
 "harness": "h_link_proc",
 "enforce": ["link_proc"],
 "defines": ["LP_BS=128"],
 "sources": ["lib/ext2fs/dir_iterate.c"],
 "unwind": 6,
 "unwindset": {"h_link_proc.0": 257, "strncpy.0": 257},
 "unwind_reason": "link_proc is loop-free; only harness/stub loops are unwound: over the 255 possible name bytes (name_len is an 8-bit on-disk field); unwinding assertions on",
 "timeout": 400,
 "functions": ["lib/ext2fs/link.c:link_proc", "lib/ext2fs/dir_iterate.c:ext2fs_get_rec_len", "lib/ext2fs/dir_iterate.c:ext2fs_set_rec_len"],
 "assumes": ["SYMBOLIC BLOCK OF 128 BYTES (blocksize argument and fs->blocksize are 128): smaller than any legal ext2 block size, i.e. evidence parametric in the block size (see link_proc_1k_c* for a real block size); link_proc and the rec_len helpers depend on the block size only through comparisons with it (and the < 65536 branch); units exist for 64 and 128 B (all pre-states in one run), 256 B and 1 KiB (the smallest legal ext2 block; four exhaustive pre-state cases, kissat); 4 KiB is beyond the time budget (case c0 is green after 33 min, case c2 does not finish in 60 min: every typed access at a symbolic offset costs O(block size))", "requested names are therefore limited to what fits (name_len <= 120); IN.namelen itself ranges over 1..255", "the entry handed to the callback satisfies what ext2fs_process_dir_block checks before calling: 4-aligned offset < blocksize-8, rec_len >= 8, multiple of 4, offset+rec_len <= blocksize, name_len+8 <= rec_len, and it is not the checksum tail (the caller does not pass DIRENT_FLAG_INCLUDE_CSUM)", "ls->namelen == strlen(ls->name) <= 255, ls->err == 0, ls->sb == fs->super, callback blocksize == fs->blocksize (block directories; inline-data directories are not covered)", "libc strncpy is an over-approximating stub in the unit: the whole block becomes arbitrary except that, at every byte position the code or the specification later reads (headers of E, of the entry behind E, of the tail slot, the frame byte k, name byte j of both entries), bytes outside dst[0..n) are unchanged and dst[j] has the ISO C value; destination range asserted to be inside the block", "without the filetype feature the type byte of the new entry is only claimed to be 0 when the reused slot's stale type byte was 0 (always the case on a filesystem that never had the feature)", "superblock feature words other than metadata_csum / filetype bits arbitrary"],
 "native": false
}
*/
/* VERIF-UNIT
{
 "name": "link_proc_256_c0",
 "props": ["C10"],
 "level": "U",
 "tier": "thorough",
 "harness": "h_link_proc",
 "enforce": ["link_proc"],
 "defines": ["LP_BS=256", "LP_CASE=0"],
 "sources": ["lib/ext2fs/dir_iterate.c"],
 "unwind": 6,
 "unwindset": {"h_link_proc.0": 257, "strncpy.0": 257},
 "unwind_reason": "link_proc is loop-free; only harness/stub loops are unwound: over the 255 possible name bytes (name_len is an 8-bit on-disk field); unwinding assertions on",
 "timeout": 900,
 "functions": ["lib/ext2fs/link.c:link_proc", "lib/ext2fs/dir_iterate.c:ext2fs_get_rec_len", "lib/ext2fs/dir_iterate.c:ext2fs_set_rec_len"],
 "assumes": ["SYMBOLIC BLOCK OF 256 BYTES (blocksize argument and fs->blocksize are 256): smaller than any legal ext2 block size, i.e. evidence parametric in the block size (see link_proc_1k_c* for a real block size); link_proc and the rec_len helpers depend on the block size only through comparisons with it (and the < 65536 branch); units exist for 64 and 128 B (all pre-states in one run), 256 B and 1 KiB (the smallest legal ext2 block; four exhaustive pre-state cases, kissat); 4 KiB is beyond the time budget (case c0 is green after 33 min, case c2 does not finish in 60 min: every typed access at a symbolic offset costs O(block size)); pre-state case: E unused, follower not absorbable", "requested names are therefore limited to what fits (name_len <= 248); IN.namelen itself ranges over 1..255", "the entry handed to the callback satisfies what ext2fs_process_dir_block checks before calling: 4-aligned offset < blocksize-8, rec_len >= 8, multiple of 4, offset+rec_len <= blocksize, name_len+8 <= rec_len, and it is not the checksum tail (the caller does not pass DIRENT_FLAG_INCLUDE_CSUM)", "ls->namelen == strlen(ls->name) <= 255, ls->err == 0, ls->sb == fs->super, callback blocksize == fs->blocksize (block directories; inline-data directories are not covered)", "libc strncpy is an over-approximating stub in the unit: the whole block becomes arbitrary except that, at every byte position the code or the specification later reads (headers of E, of the entry behind E, of the tail slot, the frame byte k, name byte j of both entries), bytes outside dst[0..n) are unchanged and dst[j] has the ISO C value; destination range asserted to be inside the block", "without the filetype feature the type byte of the new entry is only claimed to be 0 when the reused slot's stale type byte was 0 (always the case on a filesystem that never had the feature)", "superblock feature words other than metadata_csum / filetype bits arbitrary"],
 "backend": "kissat",
 "native": false
}
*/
/* VERIF-UNIT
{
 "name": "link_proc_256_c1",
 "props": ["C10"],
 "level": "U",
 "tier": "thorough",
 "harness": "h_link_proc",
 "enforce": ["link_proc"],
 "defines": ["LP_BS=256", "LP_CASE=1"],
 "sources": ["lib/ext2fs/dir_iterate.c"],
 "unwind": 6,
 "unwindset": {"h_link_proc.0": 257, "strncpy.0": 257},
 "unwind_reason": "link_proc is loop-free; only harness/stub loops are unwound: over the 255 possible name bytes (name_len is an 8-bit on-disk field); unwinding assertions on",
 "timeout": 900,
 "functions": ["lib/ext2fs/link.c:link_proc", "lib/ext2fs/dir_iterate.c:ext2fs_get_rec_len", "lib/ext2fs/dir_iterate.c:ext2fs_set_rec_len"],
 "assumes": ["SYMBOLIC BLOCK OF 256 BYTES (blocksize argument and fs->blocksize are 256): smaller than any legal ext2 block size, i.e. evidence parametric in the block size (see link_proc_1k_c* for a real block size); link_proc and the rec_len helpers depend on the block size only through comparisons with it (and the < 65536 branch); units exist for 64 and 128 B (all pre-states in one run), 256 B and 1 KiB (the smallest legal ext2 block; four exhaustive pre-state cases, kissat); 4 KiB is beyond the time budget (case c0 is green after 33 min, case c2 does not finish in 60 min: every typed access at a symbolic offset costs O(block size)); pre-state case: E unused, follower absorbable", "requested names are therefore limited to what fits (name_len <= 248); IN.namelen itself ranges over 1..255", "the entry handed to the callback satisfies what ext2fs_process_dir_block checks before calling: 4-aligned offset < blocksize-8, rec_len >= 8, multiple of 4, offset+rec_len <= blocksize, name_len+8 <= rec_len, and it is not the checksum tail (the caller does not pass DIRENT_FLAG_INCLUDE_CSUM)", "ls->namelen == strlen(ls->name) <= 255, ls->err == 0, ls->sb == fs->super, callback blocksize == fs->blocksize (block directories; inline-data directories are not covered)", "libc strncpy is an over-approximating stub in the unit: the whole block becomes arbitrary except that, at every byte position the code or the specification later reads (headers of E, of the entry behind E, of the tail slot, the frame byte k, name byte j of both entries), bytes outside dst[0..n) are unchanged and dst[j] has the ISO C value; destination range asserted to be inside the block", "without the filetype feature the type byte of the new entry is only claimed to be 0 when the reused slot's stale type byte was 0 (always the case on a filesystem that never had the feature)", "superblock feature words other than metadata_csum / filetype bits arbitrary"],
 "backend": "kissat",
 "native": false
}
*/
/* VERIF-UNIT
{
 "name": "link_proc_256_c2",
 "props": ["C10"],
 "level": "U",
 "tier": "thorough",
 "harness": "h_link_proc",
 "enforce": ["link_proc"],
 "defines": ["LP_BS=256", "LP_CASE=2"],
 "sources": ["lib/ext2fs/dir_iterate.c"],
 "unwind": 6,
 "unwindset": {"h_link_proc.0": 257, "strncpy.0": 257},
 "unwind_reason": "link_proc is loop-free; only harness/stub loops are unwound: over the 255 possible name bytes (name_len is an 8-bit on-disk field); unwinding assertions on",
 "timeout": 900,
 "functions": ["lib/ext2fs/link.c:link_proc", "lib/ext2fs/dir_iterate.c:ext2fs_get_rec_len", "lib/ext2fs/dir_iterate.c:ext2fs_set_rec_len"],
 "assumes": ["SYMBOLIC BLOCK OF 256 BYTES (blocksize argument and fs->blocksize are 256): smaller than any legal ext2 block size, i.e. evidence parametric in the block size (see link_proc_1k_c* for a real block size); link_proc and the rec_len helpers depend on the block size only through comparisons with it (and the < 65536 branch); units exist for 64 and 128 B (all pre-states in one run), 256 B and 1 KiB (the smallest legal ext2 block; four exhaustive pre-state cases, kissat); 4 KiB is beyond the time budget (case c0 is green after 33 min, case c2 does not finish in 60 min: every typed access at a symbolic offset costs O(block size)); pre-state case: E live, follower not absorbable", "requested names are therefore limited to what fits (name_len <= 248); IN.namelen itself ranges over 1..255", "the entry handed to the callback satisfies what ext2fs_process_dir_block checks before calling: 4-aligned offset < blocksize-8, rec_len >= 8, multiple of 4, offset+rec_len <= blocksize, name_len+8 <= rec_len, and it is not the checksum tail (the caller does not pass DIRENT_FLAG_INCLUDE_CSUM)", "ls->namelen == strlen(ls->name) <= 255, ls->err == 0, ls->sb == fs->super, callback blocksize == fs->blocksize (block directories; inline-data directories are not covered)", "libc strncpy is an over-approximating stub in the unit: the whole block becomes arbitrary except that, at every byte position the code or the specification later reads (headers of E, of the entry behind E, of the tail slot, the frame byte k, name byte j of both entries), bytes outside dst[0..n) are unchanged and dst[j] has the ISO C value; destination range asserted to be inside the block", "without the filetype feature the type byte of the new entry is only claimed to be 0 when the reused slot's stale type byte was 0 (always the case on a filesystem that never had the feature)", "superblock feature words other than metadata_csum / filetype bits arbitrary"],
 "backend": "kissat",
 "native": false
}
*/
/* VERIF-UNIT
{
 "name": "link_proc_256_c3",
 "props": ["C10"],
 "level": "U",
 "tier": "thorough",
 "harness": "h_link_proc",
 "enforce": ["link_proc"],
 "defines": ["LP_BS=256", "LP_CASE=3"],
 "sources": ["lib/ext2fs/dir_iterate.c"],
 "unwind": 6,
 "unwindset": {"h_link_proc.0": 257, "strncpy.0": 257},
 "unwind_reason": "link_proc is loop-free; only harness/stub loops are unwound: over the 255 possible name bytes (name_len is an 8-bit on-disk field); unwinding assertions on",
 "timeout": 900,
 "functions": ["lib/ext2fs/link.c:link_proc", "lib/ext2fs/dir_iterate.c:ext2fs_get_rec_len", "lib/ext2fs/dir_iterate.c:ext2fs_set_rec_len"],
 "assumes": ["SYMBOLIC BLOCK OF 256 BYTES (blocksize argument and fs->blocksize are 256): smaller than any legal ext2 block size, i.e. evidence parametric in the block size (see link_proc_1k_c* for a real block size); link_proc and the rec_len helpers depend on the block size only through comparisons with it (and the < 65536 branch); units exist for 64 and 128 B (all pre-states in one run), 256 B and 1 KiB (the smallest legal ext2 block; four exhaustive pre-state cases, kissat); 4 KiB is beyond the time budget (case c0 is green after 33 min, case c2 does not finish in 60 min: every typed access at a symbolic offset costs O(block size)); pre-state case: E live, follower absorbable", "requested names are therefore limited to what fits (name_len <= 248); IN.namelen itself ranges over 1..255", "the entry handed to the callback satisfies what ext2fs_process_dir_block checks before calling: 4-aligned offset < blocksize-8, rec_len >= 8, multiple of 4, offset+rec_len <= blocksize, name_len+8 <= rec_len, and it is not the checksum tail (the caller does not pass DIRENT_FLAG_INCLUDE_CSUM)", "ls->namelen == strlen(ls->name) <= 255, ls->err == 0, ls->sb == fs->super, callback blocksize == fs->blocksize (block directories; inline-data directories are not covered)", "libc strncpy is an over-approximating stub in the unit: the whole block becomes arbitrary except that, at every byte position the code or the specification later reads (headers of E, of the entry behind E, of the tail slot, the frame byte k, name byte j of both entries), bytes outside dst[0..n) are unchanged and dst[j] has the ISO C value; destination range asserted to be inside the block", "without the filetype feature the type byte of the new entry is only claimed to be 0 when the reused slot's stale type byte was 0 (always the case on a filesystem that never had the feature)", "superblock feature words other than metadata_csum / filetype bits arbitrary"],
 "backend": "kissat",
 "native": false
}
*/
/* VERIF-UNIT
{
 "name": "link_proc_1k_c0",
 "props": ["C10"],
 "level": "U",
 "tier": "thorough",
 "harness": "h_link_proc",
 "enforce": ["link_proc"],
 "defines": ["LP_BS=1024", "LP_CASE=0"],
 "sources": ["lib/ext2fs/dir_iterate.c"],
 "unwind": 6,
 "unwindset": {"h_link_proc.0": 257, "strncpy.0": 257},
 "unwind_reason": "link_proc is loop-free; only harness/stub loops are unwound: over the 255 possible name bytes (name_len is an 8-bit on-disk field); unwinding assertions on",
 "timeout": 1800,
 "functions": ["lib/ext2fs/link.c:link_proc", "lib/ext2fs/dir_iterate.c:ext2fs_get_rec_len", "lib/ext2fs/dir_iterate.c:ext2fs_set_rec_len"],
 "assumes": ["SYMBOLIC BLOCK OF 1024 BYTES (blocksize argument and fs->blocksize are 1024): link_proc and the rec_len helpers depend on the block size only through comparisons with it (and the < 65536 branch); units exist for 64 and 128 B (all pre-states in one run), 256 B and 1 KiB (the smallest legal ext2 block; four exhaustive pre-state cases, kissat); 4 KiB is beyond the time budget (case c0 is green after 33 min, case c2 does not finish in 60 min: every typed access at a symbolic offset costs O(block size)); pre-state case: E unused, follower not absorbable", "requested names are therefore limited to what fits (name_len <= 255); IN.namelen itself ranges over 1..255", "the entry handed to the callback satisfies what ext2fs_process_dir_block checks before calling: 4-aligned offset < blocksize-8, rec_len >= 8, multiple of 4, offset+rec_len <= blocksize, name_len+8 <= rec_len, and it is not the checksum tail (the caller does not pass DIRENT_FLAG_INCLUDE_CSUM)", "ls->namelen == strlen(ls->name) <= 255, ls->err == 0, ls->sb == fs->super, callback blocksize == fs->blocksize (block directories; inline-data directories are not covered)", "libc strncpy is an over-approximating stub in the unit: the whole block becomes arbitrary except that, at every byte position the code or the specification later reads (headers of E, of the entry behind E, of the tail slot, the frame byte k, name byte j of both entries), bytes outside dst[0..n) are unchanged and dst[j] has the ISO C value; destination range asserted to be inside the block", "without the filetype feature the type byte of the new entry is only claimed to be 0 when the reused slot's stale type byte was 0 (always the case on a filesystem that never had the feature)", "superblock feature words other than metadata_csum / filetype bits arbitrary"],
 "backend": "kissat",
 "native": false
}
*/
/* VERIF-UNIT
{
 "name": "link_proc_1k_c1",
 "props": ["C10"],
 "level": "U",
 "tier": "thorough",
 "harness": "h_link_proc",
 "enforce": ["link_proc"],
 "defines": ["LP_BS=1024", "LP_CASE=1"],
 "sources": ["lib/ext2fs/dir_iterate.c"],
 "unwind": 6,
 "unwindset": {"h_link_proc.0": 257, "strncpy.0": 257},
 "unwind_reason": "link_proc is loop-free; only harness/stub loops are unwound: over the 255 possible name bytes (name_len is an 8-bit on-disk field); unwinding assertions on",
 "timeout": 1800,
 "functions": ["lib/ext2fs/link.c:link_proc", "lib/ext2fs/dir_iterate.c:ext2fs_get_rec_len", "lib/ext2fs/dir_iterate.c:ext2fs_set_rec_len"],
 "assumes": ["SYMBOLIC BLOCK OF 1024 BYTES (blocksize argument and fs->blocksize are 1024): link_proc and the rec_len helpers depend on the block size only through comparisons with it (and the < 65536 branch); units exist for 64 and 128 B (all pre-states in one run), 256 B and 1 KiB (the smallest legal ext2 block; four exhaustive pre-state cases, kissat); 4 KiB is beyond the time budget (case c0 is green after 33 min, case c2 does not finish in 60 min: every typed access at a symbolic offset costs O(block size)); pre-state case: E unused, follower absorbable", "requested names are therefore limited to what fits (name_len <= 255); IN.namelen itself ranges over 1..255", "the entry handed to the callback satisfies what ext2fs_process_dir_block checks before calling: 4-aligned offset < blocksize-8, rec_len >= 8, multiple of 4, offset+rec_len <= blocksize, name_len+8 <= rec_len, and it is not the checksum tail (the caller does not pass DIRENT_FLAG_INCLUDE_CSUM)", "ls->namelen == strlen(ls->name) <= 255, ls->err == 0, ls->sb == fs->super, callback blocksize == fs->blocksize (block directories; inline-data directories are not covered)", "libc strncpy is an over-approximating stub in the unit: the whole block becomes arbitrary except that, at every byte position the code or the specification later reads (headers of E, of the entry behind E, of the tail slot, the frame byte k, name byte j of both entries), bytes outside dst[0..n) are unchanged and dst[j] has the ISO C value; destination range asserted to be inside the block", "without the filetype feature the type byte of the new entry is only claimed to be 0 when the reused slot's stale type byte was 0 (always the case on a filesystem that never had the feature)", "superblock feature words other than metadata_csum / filetype bits arbitrary"],
 "backend": "kissat",
 "native": false
}
*/
/* VERIF-UNIT
{
 "name": "link_proc_1k_c2",
 "props": ["C10"],
 "level": "U",
 "tier": "thorough",
 "harness": "h_link_proc",
 "enforce": ["link_proc"],
 "defines": ["LP_BS=1024", "LP_CASE=2"],
 "sources": ["lib/ext2fs/dir_iterate.c"],
 "unwind": 6,
 "unwindset": {"h_link_proc.0": 257, "strncpy.0": 257},
 "unwind_reason": "link_proc is loop-free; only harness/stub loops are unwound: over the 255 possible name bytes (name_len is an 8-bit on-disk field); unwinding assertions on",
 "timeout": 1800,
 "functions": ["lib/ext2fs/link.c:link_proc", "lib/ext2fs/dir_iterate.c:ext2fs_get_rec_len", "lib/ext2fs/dir_iterate.c:ext2fs_set_rec_len"],
 "assumes": ["SYMBOLIC BLOCK OF 1024 BYTES (blocksize argument and fs->blocksize are 1024): link_proc and the rec_len helpers depend on the block size only through comparisons with it (and the < 65536 branch); units exist for 64 and 128 B (all pre-states in one run), 256 B and 1 KiB (the smallest legal ext2 block; four exhaustive pre-state cases, kissat); 4 KiB is beyond the time budget (case c0 is green after 33 min, case c2 does not finish in 60 min: every typed access at a symbolic offset costs O(block size)); pre-state case: E live, follower not absorbable", "requested names are therefore limited to what fits (name_len <= 255); IN.namelen itself ranges over 1..255", "the entry handed to the callback satisfies what ext2fs_process_dir_block checks before calling: 4-aligned offset < blocksize-8, rec_len >= 8, multiple of 4, offset+rec_len <= blocksize, name_len+8 <= rec_len, and it is not the checksum tail (the caller does not pass DIRENT_FLAG_INCLUDE_CSUM)", "ls->namelen == strlen(ls->name) <= 255, ls->err == 0, ls->sb == fs->super, callback blocksize == fs->blocksize (block directories; inline-data directories are not covered)", "libc strncpy is an over-approximating stub in the unit: the whole block becomes arbitrary except that, at every byte position the code or the specification later reads (headers of E, of the entry behind E, of the tail slot, the frame byte k, name byte j of both entries), bytes outside dst[0..n) are unchanged and dst[j] has the ISO C value; destination range asserted to be inside the block", "without the filetype feature the type byte of the new entry is only claimed to be 0 when the reused slot's stale type byte was 0 (always the case on a filesystem that never had the feature)", "superblock feature words other than metadata_csum / filetype bits arbitrary"],
 "backend": "kissat",
 "native": false
}
*/
/* VERIF-UNIT
{
 "name": "link_proc_1k_c3",
 "props": ["C10"],
 "level": "U",
 "tier": "thorough",
 "harness": "h_link_proc",
 "enforce": ["link_proc"],
 "defines": ["LP_BS=1024", "LP_CASE=3"],
 "sources": ["lib/ext2fs/dir_iterate.c"],
 "unwind": 6,
 "unwindset": {"h_link_proc.0": 257, "strncpy.0": 257},
 "unwind_reason": "link_proc is loop-free; only harness/stub loops are unwound: over the 255 possible name bytes (name_len is an 8-bit on-disk field); unwinding assertions on",
 "timeout": 1800,
 "functions": ["lib/ext2fs/link.c:link_proc", "lib/ext2fs/dir_iterate.c:ext2fs_get_rec_len", "lib/ext2fs/dir_iterate.c:ext2fs_set_rec_len"],
 "assumes": ["SYMBOLIC BLOCK OF 1024 BYTES (blocksize argument and fs->blocksize are 1024): link_proc and the rec_len helpers depend on the block size only through comparisons with it (and the < 65536 branch); units exist for 64 and 128 B (all pre-states in one run), 256 B and 1 KiB (the smallest legal ext2 block; four exhaustive pre-state cases, kissat); 4 KiB is beyond the time budget (case c0 is green after 33 min, case c2 does not finish in 60 min: every typed access at a symbolic offset costs O(block size)); pre-state case: E live, follower absorbable", "requested names are therefore limited to what fits (name_len <= 255); IN.namelen itself ranges over 1..255", "the entry handed to the callback satisfies what ext2fs_process_dir_block checks before calling: 4-aligned offset < blocksize-8, rec_len >= 8, multiple of 4, offset+rec_len <= blocksize, name_len+8 <= rec_len, and it is not the checksum tail (the caller does not pass DIRENT_FLAG_INCLUDE_CSUM)", "ls->namelen == strlen(ls->name) <= 255, ls->err == 0, ls->sb == fs->super, callback blocksize == fs->blocksize (block directories; inline-data directories are not covered)", "libc strncpy is an over-approximating stub in the unit: the whole block becomes arbitrary except that, at every byte position the code or the specification later reads (headers of E, of the entry behind E, of the tail slot, the frame byte k, name byte j of both entries), bytes outside dst[0..n) are unchanged and dst[j] has the ISO C value; destination range asserted to be inside the block", "without the filetype feature the type byte of the new entry is only claimed to be 0 when the reused slot's stale type byte was 0 (always the case on a filesystem that never had the feature)", "superblock feature words other than metadata_csum / filetype bits arbitrary"],
 "backend": "kissat",
 "native": false
}
*/
#include "verif.h"
#include "dirs_dirent.h"

#ifndef LP_BS
#define LP_BS 64
#endif

struct in_link {
	unsigned int offset;		/* where the iterator stands */
	unsigned char name[256];	/* requested name (NUL-terminated C string) */
	unsigned int namelen;
	unsigned int ino;
	int flags;			/* low 3 bits: file type */
	unsigned char done;		/* ls->done on entry */
	unsigned char csum, filetype;	/* features (derived from the two words below) */
	unsigned int sb_ro_compat, sb_incompat;
	unsigned int k;			/* ghost byte index into the block */
	unsigned int j;			/* ghost index into a name */
	unsigned int dir;
	int entry;
};
struct in_link IN;
#include "verif_in.h"

#include "lib/ext2fs/link.c"

static unsigned char BLKB[LP_BS] __attribute__((aligned(8)));	/* the buffer the callback works on */
static struct struct_ext2_filsys FS;
static struct ext2_super_block SB;
static struct link_struct LS;

#define OLDB (BLKB)
#define NEWB (BLKB)
#define BS ((unsigned)LP_BS)
#define O (IN.offset)
#define NEED (DE_NEED(IN.namelen))

/*
 * The spec reads every header byte ONCE into scalars (struct de) — array reads at symbolic indices are what
 * the back end pays for — and is evaluated by single-level functions (DFCC cannot instrument nested calls in
 * contract clauses).
 */
struct de { unsigned ino, rec, nl, ft; };
#define RD(d, b, o) do { (d).ino = DE_INO(b, o); (d).rec = DE_REC(b, o); (d).nl = DE_NL(b, o); (d).ft = DE_FT(b, o); } while (0)
#define ZERO(d) do { (d).ino = (d).rec = (d).nl = (d).ft = 0; } while (0)
/* iterator-level validity of an entry whose header is d and which starts at o */
#define V(d, o) ((((o) & 3) == 0) && (o) + DE_HDR <= BS && (d).rec >= DE_HDR && ((d).rec & 3) == 0 && (o) + (d).rec <= BS && (d).nl + DE_HDR <= (d).rec)
#define ISTAIL(d, o) ((o) + DE_TAIL == BS && (d).ino == 0 && (d).rec == DE_TAIL && (d).nl == 0 && (d).ft == 0xDE)

/* pre-state snapshot, taken by the harness before the call (ghost) */
static struct de oE, oN, oT;		/* E, its follower N (if its header is inside the block), the tail slot */
static unsigned g_n0, g_emax;		/* end of E; end of the region the callback may use */
static unsigned char g_old_k, g_old_name_j;
static int g_has_n;

static int lp_pre(void)
{
	struct de e;
	if (!(O < BS && (O & 3) == 0 && O + DE_HDR < BS))
		return 0;
	RD(e, OLDB, O);
	return V(e, O) && !(IN.csum && ISTAIL(e, O)) &&
	       IN.namelen >= 1 && IN.namelen <= 255 && IN.name[IN.namelen] == 0 && IN.done <= 1 && IN.k < BS && IN.j < 255;
}

static void lp_snapshot(void)
{
	unsigned csz = IN.csum ? DE_TAIL : 0u;
	RD(oE, OLDB, O);
	g_n0 = O + oE.rec;
	g_has_n = g_n0 + DE_HDR <= BS;
	if (g_has_n)
		RD(oN, OLDB, g_n0);
	else
		ZERO(oN);
	RD(oT, OLDB, BS - DE_TAIL);
	/* region end: E, plus a directly following unused entry lying inside the block whose header is not in the tail area */
	g_emax = (g_n0 + DE_HDR <= BS - csz && oN.ino == 0 && g_n0 + oN.rec <= BS) ? g_n0 + oN.rec : g_n0;
	g_old_k = OLDB[IN.k];
	g_old_name_j = (O + DE_HDR + IN.j < BS) ? OLDB[O + DE_HDR + IN.j] : 0;
}

#define V_TILE  1u
#define V_FRAME 2u
#define V_KEEP  4u
#define V_NEW   8u
#define V_ROOM  16u
#define V_TAIL  32u
#define V_FLAGS 64u

/* returns the set of violated clauses (0 = the postcondition holds) */
static unsigned lp_post(int ret)
{
	unsigned bad = 0;
	struct de e1, e2, nT;
	unsigned p2, has2;
	int changed_k = NEWB[IN.k] != g_old_k;
	int linked = LS.done > (int)IN.done;
	unsigned char name1_j, name2_j;

	RD(e1, NEWB, O);
	p2 = O + e1.rec;
	has2 = p2 + DE_HDR <= BS;
	if (has2)
		RD(e2, NEWB, p2);
	else
		ZERO(e2);
	RD(nT, NEWB, BS - DE_TAIL);
	name1_j = (O + DE_HDR + IN.j < BS) ? NEWB[O + DE_HDR + IN.j] : 0;
	name2_j = (p2 + DE_HDR + IN.j < BS) ? NEWB[p2 + DE_HDR + IN.j] : 0;

	/* TILE: [O, n0) with N untouched, or [O, emax), is exactly covered by one or two valid entries */
	{
		int one_a = V(e1, O) && p2 == g_n0;
		int two_a = V(e1, O) && p2 < g_n0 && has2 && V(e2, p2) && p2 + e2.rec == g_n0;
		int n_untouched = !(IN.k >= g_n0 && IN.k < g_emax && changed_k);
		int one_b = V(e1, O) && p2 == g_emax;
		int two_b = V(e1, O) && p2 < g_emax && has2 && V(e2, p2) && p2 + e2.rec == g_emax;
		if (!(((one_a || two_a) && n_untouched) || (g_emax > g_n0 && (one_b || two_b))))
			bad |= V_TILE;
	}
	/* FRAME */
	if (changed_k && !(IN.k >= O && IN.k < g_emax))
		bad |= V_FRAME;
	/* KEEP */
	if (oE.ino != 0 &&
	    !(e1.ino == oE.ino && e1.nl == oE.nl && e1.ft == oE.ft && (IN.j >= oE.nl || name1_j == g_old_name_j)))
		bad |= V_KEEP;
	/* NEW: entry 1 or entry 2 of the region is the requested one */
	{
		int m1 = O + DE_HDR + IN.namelen <= g_emax && e1.ino == IN.ino && e1.nl == IN.namelen &&
			 (IN.j >= IN.namelen || name1_j == IN.name[IN.j]) &&
			 (IN.filetype ? e1.ft == (unsigned)(IN.flags & 7) : (oE.ft != 0 || e1.ft == 0));
		int m2 = has2 && p2 + DE_HDR + IN.namelen <= g_emax && e2.ino == IN.ino && e2.nl == IN.namelen &&
			 (IN.j >= IN.namelen || name2_j == IN.name[IN.j]) &&
			 (IN.filetype ? e2.ft == (unsigned)(IN.flags & 7) : e2.ft == 0);
		if (linked && !(m1 || m2))
			bad |= V_NEW;
	}
	/* ROOM */
	if (!IN.done) {
		if (LS.done && g_emax - O < NEED)
			bad |= V_ROOM;			/* linked although the region has no room */
		else if (LS.err)
			;
		else if (oE.ino == 0) {
			if (oE.rec >= NEED && LS.done != 1)
				bad |= V_ROOM;		/* free slot with room not used */
		} else if (oE.rec >= DE_NEED(oE.nl) + NEED) {
			/* live entry with slack: split; the entry the iterator visits next is a free slot with room */
			if (!(ret == DIRENT_CHANGED && p2 + DE_HDR < BS && V(e2, p2) && e2.ino == 0 && e2.rec >= NEED &&
			      !(IN.csum && ISTAIL(e2, p2))))
				bad |= V_ROOM;
		}
	}
	/* TAIL: a tail that is well placed w.r.t. what the callback can see (E ends at it, or N is a valid entry ending at or before it) survives */
	if (IN.csum && ISTAIL(oT, BS - DE_TAIL) &&
	    (g_n0 == BS - DE_TAIL || (g_n0 + DE_HDR <= BS - DE_TAIL && V(oN, g_n0) && g_n0 + oN.rec <= BS - DE_TAIL))) {
		if (!ISTAIL(nT, BS - DE_TAIL) || (IN.k >= BS - DE_TAIL && changed_k))
			bad |= V_TAIL;
	}
	/* FLAGS */
	if ((ret & ~(DIRENT_CHANGED | DIRENT_ABORT)) != 0)
		bad |= V_FLAGS;
	if (IN.done) {
		if (!(ret == DIRENT_ABORT && !changed_k && LS.done == IN.done))
			bad |= V_FLAGS;
	} else {
		if (LS.done != 0 && LS.done != 1)
			bad |= V_FLAGS;
		if (LS.done == 1 && ret != (DIRENT_CHANGED | DIRENT_ABORT))
			bad |= V_FLAGS;
		if (changed_k && !(ret & DIRENT_CHANGED))
			bad |= V_FLAGS;
		if (LS.err && (!(ret & DIRENT_ABORT) || changed_k || LS.done))
			bad |= V_FLAGS;
	}
	return bad;
}

static int link_proc(ext2_ino_t dir, int entru, struct ext2_dir_entry *dirent, int offset, int blocksize,
		     char *buf, void *priv_data)
	REQUIRES(buf == (char *)BLKB && priv_data == (void *)&LS && dirent == (struct ext2_dir_entry *)(BLKB + IN.offset))
	REQUIRES(offset == (int)IN.offset && blocksize == LP_BS && LS.fs == &FS && FS.blocksize == LP_BS && FS.super == &SB && LS.sb == &SB)
	REQUIRES(LS.err == 0 && LS.namelen == (int)IN.namelen && LS.name == (const char *)IN.name && LS.done == IN.done)
	REQUIRES(LS.inode == IN.ino && LS.flags == IN.flags)
	REQUIRES(lp_pre())
	ENSURES(lp_post(RET) == 0)
	ASSIGNS(__CPROVER_object_whole(BLKB), LS.err, LS.done);

/*
 * libc strncpy.  CBMC's byte-wise model (255 symbolic-index writes), a DFCC havoc of a symbolic-length slice
 * and a loop over the whole block all blow up on a block-sized array, so under the verifier strncpy is this
 * over-approximating stub: the WHOLE destination object (the block) becomes arbitrary (one assignment from a
 * nondeterministic block T), and T is then tied to ISO C strncpy ONLY at the byte positions the rest of the
 * program and the specification ever look at (OBS list below):
 *      q outside dst[0..n)              T[q] == old block[q]          (strncpy writes nothing else)
 *      q == dst + IN.j, IN.j < n        T[q] == src[j] if src[0..j) has no NUL, else 0   (ISO C 7.24.2.4)
 *      other q inside dst[0..n)         unconstrained (worst case)
 * Every real post-state satisfies these constraints, so the stub has at least the real behaviours (sound); a
 * position missing from OBS would only make the stub weaker (more arbitrary), never unsound.  The destination
 * range must lie inside the block.  Native replay uses the real strncpy.
 */
#ifndef VERIF_NATIVE
#define OBS(q) do { unsigned q_ = (q); if (q_ < BS) { \
		if (!(q_ >= d && q_ - d < n)) __CPROVER_assume(lp_T[q_] == BLKB[q_]); \
		else if (q_ - d == IN.j) __CPROVER_assume(lp_T[q_] == exact); } } while (0)
#define OBS8(q) do { OBS(q); OBS((q) + 1); OBS((q) + 2); OBS((q) + 3); OBS((q) + 4); OBS((q) + 5); OBS((q) + 6); OBS((q) + 7); } while (0)
char *strncpy(char *dst, const char *src, size_t n)
{
	__CPROVER_assert(__CPROVER_same_object(dst, BLKB) && __CPROVER_w_ok(dst, n), "CHECK:strncpy destination inside the block");
	__CPROVER_assert(src == (const char *)IN.name && n <= 255, "CHECK:strncpy source is the requested name");
	unsigned d = (unsigned)((unsigned char *)dst - BLKB);
	int seen = 0;
	for (unsigned i = 0; i < 255; i++)
		if (i < IN.j && src[i] == 0)
			seen = 1;
	unsigned char exact = seen ? 0 : (unsigned char)src[IN.j];
	unsigned p2 = O + DE_REC(BLKB, O);	/* where the specification will look for the second entry of the region */
	unsigned char lp_T[LP_BS];		/* uninitialised = nondeterministic */
	OBS8(O);				/* header of E */
	OBS(O + DE_HDR + IN.j);			/* name byte j of E */
	OBS8(p2);				/* header of the entry behind E */
	OBS(p2 + DE_HDR + IN.j);		/* its name byte j */
	OBS8(BS - DE_TAIL);			/* tail slot header */
	OBS(IN.k);				/* the frame byte */
	__CPROVER_array_replace(BLKB, lp_T);
	return dst;
}
#endif

void h_link_proc(void)
{
	LOAD_IN();
	{ unsigned char nd[LP_BS]; __CPROVER_array_replace(BLKB, nd); }	/* the block as read from disk: arbitrary bytes */
	ASSUME(lp_pre());
	/* ls->namelen = strlen(name): no NUL inside the name */
	for (unsigned i = 0; i < 255; i++)
		if (i < IN.namelen)
			ASSUME(IN.name[i] != 0);
	FS.blocksize = LP_BS;
	FS.super = &SB;
	/* statics are NOT zero under DFCC (nondet-static): set every field the code reads; the other feature bits stay arbitrary */
	SB.s_feature_ro_compat = IN.sb_ro_compat;
	SB.s_feature_incompat = IN.sb_incompat;
	ASSUME(IN.csum == !!(IN.sb_ro_compat & EXT4_FEATURE_RO_COMPAT_METADATA_CSUM));
	ASSUME(IN.filetype == !!(IN.sb_incompat & EXT2_FEATURE_INCOMPAT_FILETYPE));
	LS.fs = &FS;
	LS.name = (const char *)IN.name;
	LS.namelen = IN.namelen;
	LS.inode = IN.ino;
	LS.flags = IN.flags;
	LS.done = IN.done;
	LS.sb = &SB;
	LS.blocksize = LP_BS;
	LS.err = 0;
	lp_snapshot();
#if defined(LP_CASE)
	/* case split on the PRE-state only (the four cases are exhaustive): E free / live  x  follower absorbable / not */
	{
		unsigned csz = IN.csum ? DE_TAIL : 0u;
		int absorbable = g_n0 + DE_HDR <= BS - csz && oN.ino == 0 && g_n0 + oN.rec <= BS;
		ASSUME(((oE.ino != 0) ? 2 : 0) + (absorbable ? 1 : 0) == LP_CASE);
	}
#endif

	int ret = link_proc(IN.dir, IN.entry, (struct ext2_dir_entry *)(BLKB + IN.offset), IN.offset, LP_BS,
			    (char *)BLKB, &LS);

	unsigned bad = lp_post(ret);
	CHECK(!(bad & V_TILE), "TILE: the region is exactly covered by one or two valid entries");
	CHECK(!(bad & V_FRAME), "FRAME: no byte outside the entry and its absorbable free follower changes");
	CHECK(!(bad & V_KEEP), "KEEP: a live entry keeps inode, name_len, type and name");
	CHECK(!(bad & V_NEW), "NEW: when linked, an entry of the region carries the requested inode, name_len, name and type");
	CHECK(!(bad & V_ROOM), "ROOM: free slot with room is used, live entry with slack is split for the next callback, never linked without room");
	CHECK(!(bad & V_TAIL), "TAIL: a well-placed checksum tail is never absorbed or overwritten");
	CHECK(!(bad & V_FLAGS), "FLAGS: linked => CHANGED|ABORT, changed => CHANGED, error => ABORT and unchanged");
#ifndef LP_CASE
#define LP_CASE 4	/* all */
#endif
#if LP_CASE == 4 || LP_CASE < 2
	if (LS.done > (int)IN.done) REACH("linked");
#endif
#if LP_CASE == 4 || LP_CASE >= 2
	if (!IN.done && !LS.done && ret == DIRENT_CHANGED && oE.ino != 0 && DE_REC(NEWB, O) < oE.rec) REACH("split");
#endif
#if LP_CASE == 4 || (LP_CASE & 1)
	if (DE_REC(NEWB, O) > oE.rec) REACH("absorbed");
	if (LS.err) REACH("error");
#endif
	REACH("end");
}
