/*
 * C10 — lib/ext2fs/mkdir.c:ext2fs_mkdir, level P (ordering protocol; every callee is a stub that logs into a ghost
 * monitor and may fail; the verified text is the real mkdir.c).
 *
 * Ghost model: DISK_PARENT is the parent's on-disk inode.  ext2fs_read_inode(parent) returns a copy of it;
 * ext2fs_link(parent, ..) may CHANGE it arbitrarily except for the link count (linking into an inline-data or full
 * directory rewrites the parent's size / flags / block map); ext2fs_write_inode(parent, x) is the write-back.
 *
 * Properties (stated from the property text "mkdir keeps the namespace exact / link counts right", not from the code):
 *   FRESH    when ext2fs_mkdir returns 0 for parent != ino, the parent inode was written back exactly ONCE, after
 *            ext2fs_link returned, and the image written equals the parent's on-disk inode AT THAT TIME in every
 *            field (ghost field selector) except i_links_count, which is exactly one higher — i.e. the write-back does
 *            not resurrect a copy read before linking;
 *   ORDER    the new inode is written (ext2fs_write_new_inode) and its first block is written
 *            (ext2fs_write_dir_block4, with the block number that was allocated and the buffer ext2fs_new_dir_block
 *            produced; inline: ext2fs_inline_data_init) BEFORE the name is linked into the parent, and the inode before
 *            the block (the block checksum needs the inode's generation);
 *            NOTE: DESIGN §6 says "block written, inode written"; the code (and its comment) need the opposite order,
 *            which is what is checked here; both precede the link, which is what the namespace property needs;
 *   STATS    on success ext2fs_block_alloc_stats2(blk,+1) (non-inline only) and ext2fs_inode_alloc_stats2(ino,+1,dir)
 *            were each called exactly once and never with -1; on failure every +1 was compensated by exactly one -1
 *            (net zero), and the parent inode was not written;
 *   NEWINO   the inode written has mode S_IFDIR, i_links_count 2, size one block (or the inline size);
 *   DUP      an existing name gives EXT2_ET_DIR_EXISTS and no link call;
 *   SWALLOW  success is never reported when a step that builds the new directory failed.
 *
 * FINDING (genuine, findings/C10_mkdir_inline_init_error): the result of ext2fs_inline_data_init() is not checked:
 * execution continues, the allocation statistics are taken, and the error is overwritten by the next call — mkdir
 * reports success for a directory whose "system.data" attribute was never created (SWALLOW), or (parent == ino,
 * no name) returns the error without undoing the inode statistics (STATS).  Unit mkdir_protocol_full states the
 * property for all callee failures and fails (tier wip); unit mkdir_protocol assumes that ext2fs_inline_data_init
 * succeeds and is green.
 */
/* VERIF-UNIT
{
 "name": "mkdir_protocol",
 "props": [
  "C10",
  "C18"
 ],
 "level": "P",
 "tier": "quick",
 "harness": "h_mkdir",
 "enforce": [
  "ext2fs_mkdir"
 ],
 "defines": [
  "MK_NO_INLINE_INIT_FAILURE"
 ],
 "unwind": 8,
 "unwind_reason": "ext2fs_mkdir is loop-free; strlen runs over a name of at most 4 bytes (cap stated in assumes); unwinding assertions on",
 "timeout": 300,
 "functions": [
  "lib/ext2fs/mkdir.c:ext2fs_mkdir"
 ],
 "assumes": [
  "every callee (ext2fs_new_inode, _new_block2, _find_inode_goal, _new_dir_block, _new_dir_inline_data, _read_inode, _iblk_set, _write_new_inode, _write_dir_block4, _inline_data_init, _extent_open2/_set_bmap/_free, _block/_inode_alloc_stats2, _lookup, _link, _write_inode) is a stub in the unit: checks its arguments against the ghost monitor, logs the event, fails nondeterministically",
  "the link stub may change every field of the parent's on-disk inode except i_links_count",
  "the parent's on-disk link count is below 65000 (EXT4_LINK_MAX): ext2fs_mkdir increments the 16-bit field without the dir_nlink saturation rule (observation, reported)",
  "ext2fs_inline_data_init does not fail (its result is ignored by ext2fs_mkdir: genuine defect, findings/C10_mkdir_inline_init_error, unit mkdir_protocol_full)",
  "name is NULL or a C string of at most 4 bytes; superblock feature words, s_rev_level, s_first_ino, fs->umask arbitrary",
  "malloc/free are CBMC's built-in models"
 ],
 "native": false
}
*/
/* VERIF-UNIT
{
 "name": "mkdir_protocol_full",
 "props": [
  "C10",
  "C18"
 ],
 "level": "P",
 "tier": "quick",
 "harness": "h_mkdir",
 "enforce": [
  "ext2fs_mkdir"
 ],
 "unwind": 8,
 "unwind_reason": "ext2fs_mkdir is loop-free; strlen runs over a name of at most 4 bytes (cap stated in assumes); unwinding assertions on",
 "timeout": 300,
 "functions": [
  "lib/ext2fs/mkdir.c:ext2fs_mkdir"
 ],
 "assumes": [
  "every callee (ext2fs_new_inode, _new_block2, _find_inode_goal, _new_dir_block, _new_dir_inline_data, _read_inode, _iblk_set, _write_new_inode, _write_dir_block4, _inline_data_init, _extent_open2/_set_bmap/_free, _block/_inode_alloc_stats2, _lookup, _link, _write_inode) is a stub in the unit: checks its arguments against the ghost monitor, logs the event, fails nondeterministically",
  "the link stub may change every field of the parent's on-disk inode except i_links_count",
  "the parent's on-disk link count is below 65000 (EXT4_LINK_MAX): ext2fs_mkdir increments the 16-bit field without the dir_nlink saturation rule (observation, reported)",
  "EXPECTED TO FAIL on the unchanged tree (SWALLOW, STATS): findings/C10_mkdir_inline_init_error; green with proposed-fix.patch",
  "name is NULL or a C string of at most 4 bytes; superblock feature words, s_rev_level, s_first_ino, fs->umask arbitrary",
  "malloc/free are CBMC's built-in models"
 ],
 "native": false
}
*/
#include "verif.h"

struct in_mkdir {
	unsigned int parent, inum;
	unsigned char has_name;
	unsigned char name[5];
	unsigned int compat, incompat, ro_compat, rev_level, first_ino, umask;
	/* stub results */
	unsigned int new_ino;
	unsigned long long new_blk, goal;
	long f_new_inode, f_new_block, f_new_dir, f_read1, f_read2, f_iblk, f_write_new, f_write_blk, f_inline_init,
	     f_ext_open, f_ext_set, f_lookup, f_link, f_write_parent;
	unsigned int lookup_ino;
	/* on-disk parent inode: before, and after the link stub ran */
	unsigned int p_size0, p_flags0, p_blocks0, p_block0_0, p_mode0, p_links0;
	unsigned int p_size1, p_flags1, p_blocks1, p_block0_1;
	unsigned int sel;		/* ghost field selector for the FRESH comparison */
};
struct in_mkdir IN;
#include "verif_in.h"

#include "lib/ext2fs/mkdir.c"

static struct struct_ext2_filsys FS;
static struct ext2_super_block SB;

/* ---- ghost monitor ---- */
struct ghost {
	unsigned clock;				/* event counter */
	struct ext2_inode disk_parent;		/* the parent's on-disk inode */
	unsigned t_write_new, t_write_blk, t_inline_init, t_link, t_write_parent, t_read_parent_last, t_lookup;
	unsigned n_write_new, n_write_blk, n_link, n_write_parent, n_read_parent;
	unsigned link_unaccounted;	/* ext2fs_link ran while the new inode / block were not (yet) marked in use */
	int blk_stats, ino_stats;		/* net effect of the alloc_stats calls */
	unsigned n_blk_plus, n_blk_minus, n_ino_plus, n_ino_minus;
	int bad;				/* a stub saw wrong arguments */
	unsigned ino;				/* inode number of the new directory once known */
	unsigned long long blk;			/* its block once allocated */
	char *block_buf;			/* buffer produced by ext2fs_new_dir_block */
	struct ext2_inode written_new;		/* image passed to ext2fs_write_new_inode */
	struct ext2_inode written_parent;	/* image passed to ext2fs_write_inode(parent) */
	struct ext2_inode disk_parent_at_write;	/* on-disk parent at that moment */
	int ext_open;
};
static struct ghost G;
static struct ext2_extent_handle { int dummy; } HANDLE;

#define TICK() (++G.clock)
#define INLINE_DATA ((IN.incompat & EXT4_FEATURE_INCOMPAT_INLINE_DATA) && (!IN.inum || IN.inum >= (IN.rev_level == 0 ? 11u : IN.first_ino)))

/* ---- stubs ---- */
errcode_t ext2fs_new_inode(ext2_filsys fs, ext2_ino_t dir, int mode, ext2fs_inode_bitmap map, ext2_ino_t *ret)
{
	if (!(fs == &FS && dir == IN.parent && mode == (LINUX_S_IFDIR | 0755) && map == 0 && IN.inum == 0)) G.bad = 1;
	TICK();
	if (IN.f_new_inode) return IN.f_new_inode;
	*ret = IN.new_ino;
	return 0;
}
blk64_t ext2fs_find_inode_goal(ext2_filsys fs, ext2_ino_t ino, struct ext2_inode *inode, blk64_t lblk)
{
	if (!(fs == &FS && ino == G.ino && lblk == 0)) G.bad = 1;
	return IN.goal;
}
errcode_t ext2fs_new_block2(ext2_filsys fs, blk64_t goal, ext2fs_block_bitmap map, blk64_t *ret)
{
	if (!(fs == &FS && goal == IN.goal && map == 0)) G.bad = 1;
	TICK();
	if (IN.f_new_block) return IN.f_new_block;
	*ret = IN.new_blk;
	G.blk = IN.new_blk;
	return 0;
}
errcode_t ext2fs_new_dir_block(ext2_filsys fs, ext2_ino_t dir_ino, ext2_ino_t parent_ino, char **block)
{
	if (!(fs == &FS && dir_ino == G.ino && parent_ino == IN.parent)) G.bad = 1;
	TICK();
	if (IN.f_new_dir) return IN.f_new_dir;
	G.block_buf = malloc(64);
	ASSUME(G.block_buf != 0);
	*block = G.block_buf;
	return 0;
}
errcode_t ext2fs_new_dir_inline_data(ext2_filsys fs, ext2_ino_t dir_ino, ext2_ino_t parent_ino, __u32 *iblock)
{
	if (!(fs == &FS && dir_ino == G.ino && parent_ino == IN.parent)) G.bad = 1;
	TICK();
	if (IN.f_new_dir) return IN.f_new_dir;
	iblock[0] = parent_ino;
	return 0;
}
errcode_t ext2fs_read_inode(ext2_filsys fs, ext2_ino_t ino, struct ext2_inode *inode)
{
	if (!(fs == &FS && ino == IN.parent)) G.bad = 1;
	G.t_read_parent_last = TICK();
	G.n_read_parent++;
	if (G.n_read_parent == 1 ? IN.f_read1 : IN.f_read2) return G.n_read_parent == 1 ? IN.f_read1 : IN.f_read2;
	*inode = G.disk_parent;
	return 0;
}
errcode_t ext2fs_iblk_set(ext2_filsys fs, struct ext2_inode *inode, blk64_t b)
{
	if (!(fs == &FS && b == 1)) G.bad = 1;
	if (IN.f_iblk) return IN.f_iblk;
	inode->i_blocks = (fs->blocksize / 512);
	return 0;
}
errcode_t ext2fs_write_new_inode(ext2_filsys fs, ext2_ino_t ino, struct ext2_inode *inode)
{
	if (!(fs == &FS && ino == G.ino)) G.bad = 1;
	G.t_write_new = TICK();
	G.n_write_new++;
	if (IN.f_write_new) return IN.f_write_new;
	G.written_new = *inode;
	return 0;
}
errcode_t ext2fs_write_dir_block4(ext2_filsys fs, blk64_t block, void *buf, int flags, ext2_ino_t ino)
{
	if (!(fs == &FS && block == G.blk && buf == (void *)G.block_buf && flags == 0 && ino == G.ino)) G.bad = 1;
	G.t_write_blk = TICK();
	G.n_write_blk++;
	return IN.f_write_blk;
}
errcode_t ext2fs_inline_data_init(ext2_filsys fs, ext2_ino_t ino)
{
	if (!(fs == &FS && ino == G.ino)) G.bad = 1;
	G.t_inline_init = TICK();
	return IN.f_inline_init;
}
errcode_t ext2fs_extent_open2(ext2_filsys fs, ext2_ino_t ino, struct ext2_inode *inode, ext2_extent_handle_t *ret_handle)
{
	if (!(fs == &FS && ino == G.ino)) G.bad = 1;
	TICK();
	if (IN.f_ext_open) return IN.f_ext_open;
	*ret_handle = (ext2_extent_handle_t)&HANDLE;
	G.ext_open++;
	return 0;
}
errcode_t ext2fs_extent_set_bmap(ext2_extent_handle_t handle, blk64_t logical, blk64_t physical, int flags)
{
	if (!(handle == (ext2_extent_handle_t)&HANDLE && logical == 0 && physical == G.blk && flags == 0 && G.ext_open == 1)) G.bad = 1;
	TICK();
	return IN.f_ext_set;
}
void ext2fs_extent_free(ext2_extent_handle_t handle)
{
	if (!(handle == (ext2_extent_handle_t)&HANDLE)) G.bad = 1;
	G.ext_open--;
}
void ext2fs_block_alloc_stats2(ext2_filsys fs, blk64_t blk, int inuse)
{
	if (!(fs == &FS && blk == G.blk && (inuse == 1 || inuse == -1))) G.bad = 1;
	TICK();
	G.blk_stats += inuse;
	if (inuse > 0) G.n_blk_plus++; else G.n_blk_minus++;
}
void ext2fs_inode_alloc_stats2(ext2_filsys fs, ext2_ino_t ino, int inuse, int isdir)
{
	if (!(fs == &FS && ino == G.ino && (inuse == 1 || inuse == -1) && isdir == 1)) G.bad = 1;
	TICK();
	G.ino_stats += inuse;
	if (inuse > 0) G.n_ino_plus++; else G.n_ino_minus++;
}
errcode_t ext2fs_lookup(ext2_filsys fs, ext2_ino_t dir, const char *name, int namelen, char *buf, ext2_ino_t *inode)
{
	if (!(fs == &FS && dir == IN.parent && name == (const char *)IN.name && buf == 0)) G.bad = 1;
	G.t_lookup = TICK();
	if (IN.f_lookup) return IN.f_lookup;
	*inode = IN.lookup_ino;
	return 0;
}
errcode_t ext2fs_link(ext2_filsys fs, ext2_ino_t dir, const char *name, ext2_ino_t ino, int flags)
{
	if (!(fs == &FS && dir == IN.parent && name == (const char *)IN.name && ino == G.ino && flags == EXT2_FT_DIR)) G.bad = 1;
	G.t_link = TICK();
	G.n_link++;
	/* ext2fs_link may ALLOCATE (htree leaf split, directory expansion): an allocator hands out any block / inode whose bit
	 * is clear (fileio/new_block3), so the new directory's own block and inode must be accounted as in use by now */
	if (G.ino_stats != 1 || (!INLINE_DATA && G.blk_stats != 1))
		G.link_unaccounted = 1;
	if (IN.f_link) return IN.f_link;
	/* linking may rewrite the parent's inode (inline data -> block, new block appended ...), not its link count */
	G.disk_parent.i_size = IN.p_size1;
	G.disk_parent.i_flags = IN.p_flags1;
	G.disk_parent.i_blocks = IN.p_blocks1;
	G.disk_parent.i_block[0] = IN.p_block0_1;
	return 0;
}
errcode_t ext2fs_write_inode(ext2_filsys fs, ext2_ino_t ino, struct ext2_inode *inode)
{
	if (!(fs == &FS && ino == IN.parent)) G.bad = 1;
	G.t_write_parent = TICK();
	G.n_write_parent++;
	G.written_parent = *inode;
	G.disk_parent_at_write = G.disk_parent;
	if (IN.f_write_parent) return IN.f_write_parent;
	G.disk_parent = *inode;
	return 0;
}

/* ---- postcondition ---- */
#define V_FRESH  1u
#define V_ORDER  2u
#define V_STATS  4u
#define V_NEWINO 8u
#define V_DUP    16u
#define V_ARGS   32u
#define V_SWALLOW 64u

/* one field of an inode image, chosen by the ghost selector (a macro: no nested calls inside contract clauses) */
#define FIELD_OF(i, sel) (((sel) & 7) == 0 ? (i).i_size : ((sel) & 7) == 1 ? (i).i_flags : ((sel) & 7) == 2 ? (i).i_blocks : \
			  ((sel) & 7) == 3 ? (i).i_block[0] : ((sel) & 7) == 4 ? (unsigned)(i).i_mode : ((sel) & 7) == 5 ? (unsigned)(i).i_uid : \
			  ((sel) & 7) == 6 ? (i).i_mtime : (i).i_block[14])

static unsigned mk_post(errcode_t ret)
{
	unsigned bad = 0;
	int inl = INLINE_DATA;

	if (G.bad)
		bad |= V_ARGS;
	if (ret == 0) {
		/* ORDER: inode, then its data, then the link */
		if (G.n_write_new != 1)
			bad |= V_ORDER;
		if (inl ? !(G.t_inline_init > G.t_write_new) : !(G.n_write_blk == 1 && G.t_write_blk > G.t_write_new))
			bad |= V_ORDER;
		if (IN.has_name && !(G.n_link == 1 && G.t_link > G.t_write_new && G.t_link > (inl ? G.t_inline_init : G.t_write_blk) && G.t_lookup < G.t_link))
			bad |= V_ORDER;
		if (!IN.has_name && G.n_link != 0)
			bad |= V_ORDER;
		/* no failure of a step that builds the new directory is swallowed */
		if (inl && G.t_inline_init && IN.f_inline_init)
			bad |= V_SWALLOW;
		if (!inl && (IN.f_write_blk || IN.f_new_block))
			bad |= V_SWALLOW;
		if (IN.f_write_new || IN.f_new_dir || (IN.has_name && IN.f_link) || (!IN.inum && IN.f_new_inode))
			bad |= V_SWALLOW;
		/* STATS */
		if (!(G.n_ino_plus == 1 && G.n_ino_minus == 0 && G.n_blk_minus == 0 && G.n_blk_plus == (inl ? 0u : 1u)))
			bad |= V_STATS;
		/* FRESH */
		if (IN.parent != G.ino) {
			if (!(G.n_write_parent == 1 && (!IN.has_name || G.t_write_parent > G.t_link)))
				bad |= V_FRESH;
			if (G.written_parent.i_links_count != G.disk_parent_at_write.i_links_count + 1)
				bad |= V_FRESH;
			if (FIELD_OF(G.written_parent, IN.sel) != FIELD_OF(G.disk_parent_at_write, IN.sel))
				bad |= V_FRESH;
		} else if (G.n_write_parent != 0)
			bad |= V_FRESH;
		/* NEWINO */
		if (!((G.written_new.i_mode & LINUX_S_IFMT) == LINUX_S_IFDIR && G.written_new.i_links_count == 2 &&
		      G.written_new.i_size == (inl ? (unsigned)EXT4_MIN_INLINE_DATA_SIZE : FS.blocksize) &&
		      (G.written_new.i_mode & 0777) == (0777 & ~IN.umask)))
			bad |= V_NEWINO;
	} else {
		/* failure: every +1 compensated, parent link count not bumped on disk */
		if (!(G.blk_stats == 0 && G.ino_stats == 0 && G.n_blk_plus <= 1 && G.n_ino_plus <= 1))
			bad |= V_STATS;
		if (G.n_write_parent != 0 && !IN.f_write_parent)
			bad |= V_FRESH;
		if (IN.has_name && G.t_lookup && !IN.f_lookup && !(ret == EXT2_ET_DIR_EXISTS && G.n_link == 0))
			bad |= V_DUP;
	}
	if (G.ext_open != 0)
		bad |= V_ORDER;
	return bad;
}

errcode_t ext2fs_mkdir(ext2_filsys fs, ext2_ino_t parent, ext2_ino_t inum, const char *name)
	REQUIRES(fs == &FS && FS.magic == EXT2_ET_MAGIC_EXT2FS_FILSYS && FS.super == &SB && FS.blocksize == 1024 && FS.umask == IN.umask)
	REQUIRES(parent == IN.parent && inum == IN.inum && name == (IN.has_name ? (const char *)IN.name : (const char *)0))
	REQUIRES(SB.s_feature_incompat == IN.incompat && SB.s_feature_compat == IN.compat && SB.s_feature_ro_compat == IN.ro_compat)
	REQUIRES(SB.s_rev_level == IN.rev_level && SB.s_first_ino == IN.first_ino && IN.name[4] == 0)
	REQUIRES(G.clock == 0 && G.bad == 0 && G.n_write_new == 0 && G.n_write_blk == 0 && G.n_link == 0 && G.link_unaccounted == 0 && G.n_write_parent == 0 && G.n_read_parent == 0)
	REQUIRES(G.blk_stats == 0 && G.ino_stats == 0 && G.n_blk_plus == 0 && G.n_blk_minus == 0 && G.n_ino_plus == 0 && G.n_ino_minus == 0)
	REQUIRES(G.t_lookup == 0 && G.t_link == 0 && G.t_write_new == 0 && G.t_write_blk == 0 && G.t_inline_init == 0 && G.ext_open == 0)
	REQUIRES(G.ino == (IN.inum ? IN.inum : IN.new_ino) && G.disk_parent.i_links_count < 65000)
	ENSURES(mk_post(RET) == 0)
	ASSIGNS(G);

void h_mkdir(void)
{
	LOAD_IN();
	ASSUME(IN.name[4] == 0 && IN.p_links0 < 65000);
#ifdef MK_NO_INLINE_INIT_FAILURE
	ASSUME(IN.f_inline_init == 0);
#endif
	FS.magic = EXT2_ET_MAGIC_EXT2FS_FILSYS;
	FS.super = &SB;
	FS.blocksize = 1024;
	FS.umask = IN.umask;
	SB.s_feature_incompat = IN.incompat;
	SB.s_feature_compat = IN.compat;
	SB.s_feature_ro_compat = IN.ro_compat;
	SB.s_rev_level = IN.rev_level;
	SB.s_first_ino = IN.first_ino;
	{ struct ghost z = {0}; G = z; }
	G.ino = IN.inum ? IN.inum : IN.new_ino;
	G.disk_parent.i_size = IN.p_size0;
	G.disk_parent.i_flags = IN.p_flags0;
	G.disk_parent.i_blocks = IN.p_blocks0;
	G.disk_parent.i_block[0] = IN.p_block0_0;
	G.disk_parent.i_mode = (unsigned short)IN.p_mode0;
	G.disk_parent.i_links_count = (unsigned short)IN.p_links0;

	errcode_t ret = ext2fs_mkdir(&FS, IN.parent, IN.inum, IN.has_name ? (const char *)IN.name : (const char *)0);

	unsigned bad = mk_post(ret);
	CHECK(!G.link_unaccounted, "ALLOCATED-BEFORE-LINK: the new directory's inode and block are marked in use before ext2fs_link (which may allocate) runs");
	CHECK(!(bad & V_ARGS), "ARGS: every callee got the inode / block / buffer / parent it was meant to get");
	CHECK(!(bad & V_ORDER), "ORDER: new inode written, then its block (or inline area), then the name linked; extent handle released");
	CHECK(!(bad & V_STATS), "STATS: +1 exactly once each on success; compensated to net zero on failure");
	CHECK(!(bad & V_FRESH), "FRESH: parent written back once, after the link, as the on-disk inode of that moment with i_links_count + 1");
	CHECK(!(bad & V_NEWINO), "NEWINO: directory mode, two links, one block (or inline size)");
	CHECK(!(bad & V_DUP), "DUP: existing name -> EXT2_ET_DIR_EXISTS without link");
	CHECK(!(bad & V_SWALLOW), "SWALLOW: success is never reported when allocating / initialising / writing / linking the new directory failed");
	if (ret == 0 && IN.has_name && IN.parent != G.ino && !INLINE_DATA && IN.p_size1 != IN.p_size0) REACH("success, link changed the parent inode");
	if (ret == 0 && INLINE_DATA) REACH("success inline");
	if (ret == 0 && !IN.has_name) REACH("success without name");
	if (ret != 0 && G.n_ino_plus == 1) REACH("failure after stats");
	if (ret == EXT2_ET_DIR_EXISTS) REACH("name exists");
	REACH("end");
}
