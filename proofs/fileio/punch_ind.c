/* VERIF-UNIT
{
 "name": "ind_punch_l0_iblock",
 "props": ["C09"],
 "level": "U",
 "tier": "quick",
 "harness": "h_ind_punch",
 "defines": ["PUNCH_LEVEL=0", "PUNCH_MAX=12"],
 "enforce_rec": ["ind_punch"],
 "replace": ["check_zero_block"],
 "loop_contracts": true,
 "unwind_reason": "no unwinding: the real slot loop of ind_punch is closed by its in-place loop contract (anchor VERIF_INV_IND_PUNCH), the recursion by the contract itself (--enforce-contract-rec)",
 "functions": ["lib/ext2fs/punch.c:ind_punch"],
 "assumes": ["this unit: level == 0 and max == 12 (the 12 direct slots of i_block); the eight ind_punch_l* units together cover every (level, max) pair of the call sites (ext2fs_punch_ind: (0,12), (1..3,1); recursion: (0..2,256)); (3,256) is included although unreachable",
             "blocksize 1024 (256 addresses per block; s_log_block_size consistent with fs->blocksize)",
             "start <= 2^32, count <= 2^33, start + count <= 2^33 (ext2fs_punch_ind clamps start and count to 32 bits; the recursion never enlarges start + count: checked as the callee precondition of the recursive call)",
             "the file has no multiply-referenced indirect block on the ghost path (environment assumption encoded in the read stub, see punch_common.h); the ghost path blocks are distinct and non-zero",
             "ext2fs_read_ind_block / ext2fs_write_ind_block / ext2fs_block_alloc_stats / ext2fs_iblk_sub_blocks are stubs over ghost state (a one-path disk model, release counters); each may fail (IN.choice)",
             "check_zero_block replaced by its contract (RET == block is all zero), proved by unit check_zero_block",
             "on an error return only 'slots the range does not meet are untouched' is claimed"],
 "native": false,
 "timeout": 1500,
 "backend": "cadical"
}
*/
/* VERIF-UNIT
{
 "name": "ind_punch_l0_blk",
 "props": ["C09"],
 "level": "U",
 "tier": "quick",
 "harness": "h_ind_punch",
 "defines": ["PUNCH_LEVEL=0", "PUNCH_MAX=256"],
 "enforce_rec": ["ind_punch"],
 "replace": ["check_zero_block"],
 "loop_contracts": true,
 "unwind_reason": "no unwinding: the real slot loop of ind_punch is closed by its in-place loop contract (anchor VERIF_INV_IND_PUNCH), the recursion by the contract itself (--enforce-contract-rec)",
 "functions": ["lib/ext2fs/punch.c:ind_punch"],
 "assumes": ["this unit: level == 0 and max == 256 (the image of a level-0 indirect block); the eight ind_punch_l* units together cover every (level, max) pair of the call sites (ext2fs_punch_ind: (0,12), (1..3,1); recursion: (0..2,256)); (3,256) is included although unreachable",
             "blocksize 1024 (256 addresses per block; s_log_block_size consistent with fs->blocksize)",
             "start <= 2^32, count <= 2^33, start + count <= 2^33 (ext2fs_punch_ind clamps start and count to 32 bits; the recursion never enlarges start + count: checked as the callee precondition of the recursive call)",
             "the file has no multiply-referenced indirect block on the ghost path (environment assumption encoded in the read stub, see punch_common.h); the ghost path blocks are distinct and non-zero",
             "ext2fs_read_ind_block / ext2fs_write_ind_block / ext2fs_block_alloc_stats / ext2fs_iblk_sub_blocks are stubs over ghost state (a one-path disk model, release counters); each may fail (IN.choice)",
             "check_zero_block replaced by its contract (RET == block is all zero), proved by unit check_zero_block",
             "on an error return only 'slots the range does not meet are untouched' is claimed"],
 "native": false,
 "timeout": 1500,
 "backend": "cadical"
}
*/
/* VERIF-UNIT
{
 "name": "ind_punch_l1_root",
 "props": ["C09"],
 "level": "U",
 "tier": "thorough",
 "harness": "h_ind_punch",
 "defines": ["PUNCH_LEVEL=1", "PUNCH_MAX=1"],
 "enforce_rec": ["ind_punch"],
 "replace": ["check_zero_block"],
 "loop_contracts": true,
 "unwind_reason": "no unwinding: the real slot loop of ind_punch is closed by its in-place loop contract (anchor VERIF_INV_IND_PUNCH), the recursion by the contract itself (--enforce-contract-rec)",
 "functions": ["lib/ext2fs/punch.c:ind_punch"],
 "assumes": ["this unit: level == 1 and max == 1 (the tree root slot i_block[12]); the eight ind_punch_l* units together cover every (level, max) pair of the call sites (ext2fs_punch_ind: (0,12), (1..3,1); recursion: (0..2,256)); (3,256) is included although unreachable",
             "blocksize 1024 (256 addresses per block; s_log_block_size consistent with fs->blocksize)",
             "start <= 2^32, count <= 2^33, start + count <= 2^33 (ext2fs_punch_ind clamps start and count to 32 bits; the recursion never enlarges start + count: checked as the callee precondition of the recursive call)",
             "the file has no multiply-referenced indirect block on the ghost path (environment assumption encoded in the read stub, see punch_common.h); the ghost path blocks are distinct and non-zero",
             "ext2fs_read_ind_block / ext2fs_write_ind_block / ext2fs_block_alloc_stats / ext2fs_iblk_sub_blocks are stubs over ghost state (a one-path disk model, release counters); each may fail (IN.choice)",
             "check_zero_block replaced by its contract (RET == block is all zero), proved by unit check_zero_block",
             "on an error return only 'slots the range does not meet are untouched' is claimed"],
 "native": false,
 "timeout": 1500,
 "backend": "cadical"
}
*/
/* VERIF-UNIT
{
 "name": "ind_punch_l1_blk",
 "props": ["C09"],
 "level": "U",
 "tier": "thorough",
 "harness": "h_ind_punch",
 "defines": ["PUNCH_LEVEL=1", "PUNCH_MAX=256"],
 "enforce_rec": ["ind_punch"],
 "replace": ["check_zero_block"],
 "loop_contracts": true,
 "unwind_reason": "no unwinding: the real slot loop of ind_punch is closed by its in-place loop contract (anchor VERIF_INV_IND_PUNCH), the recursion by the contract itself (--enforce-contract-rec)",
 "functions": ["lib/ext2fs/punch.c:ind_punch"],
 "assumes": ["this unit: level == 1 and max == 256 (the image of a level-1 indirect block); the eight ind_punch_l* units together cover every (level, max) pair of the call sites (ext2fs_punch_ind: (0,12), (1..3,1); recursion: (0..2,256)); (3,256) is included although unreachable",
             "blocksize 1024 (256 addresses per block; s_log_block_size consistent with fs->blocksize)",
             "start <= 2^32, count <= 2^33, start + count <= 2^33 (ext2fs_punch_ind clamps start and count to 32 bits; the recursion never enlarges start + count: checked as the callee precondition of the recursive call)",
             "the file has no multiply-referenced indirect block on the ghost path (environment assumption encoded in the read stub, see punch_common.h); the ghost path blocks are distinct and non-zero",
             "ext2fs_read_ind_block / ext2fs_write_ind_block / ext2fs_block_alloc_stats / ext2fs_iblk_sub_blocks are stubs over ghost state (a one-path disk model, release counters); each may fail (IN.choice)",
             "check_zero_block replaced by its contract (RET == block is all zero), proved by unit check_zero_block",
             "on an error return only 'slots the range does not meet are untouched' is claimed"],
 "native": false,
 "timeout": 1500,
 "backend": "cadical"
}
*/
/* VERIF-UNIT
{
 "name": "ind_punch_l2_root",
 "props": ["C09"],
 "level": "U",
 "tier": "thorough",
 "harness": "h_ind_punch",
 "defines": ["PUNCH_LEVEL=2", "PUNCH_MAX=1"],
 "enforce_rec": ["ind_punch"],
 "replace": ["check_zero_block"],
 "loop_contracts": true,
 "unwind_reason": "no unwinding: the real slot loop of ind_punch is closed by its in-place loop contract (anchor VERIF_INV_IND_PUNCH), the recursion by the contract itself (--enforce-contract-rec)",
 "functions": ["lib/ext2fs/punch.c:ind_punch"],
 "assumes": ["this unit: level == 2 and max == 1 (the tree root slot i_block[13]); the eight ind_punch_l* units together cover every (level, max) pair of the call sites (ext2fs_punch_ind: (0,12), (1..3,1); recursion: (0..2,256)); (3,256) is included although unreachable",
             "blocksize 1024 (256 addresses per block; s_log_block_size consistent with fs->blocksize)",
             "start <= 2^32, count <= 2^33, start + count <= 2^33 (ext2fs_punch_ind clamps start and count to 32 bits; the recursion never enlarges start + count: checked as the callee precondition of the recursive call)",
             "the file has no multiply-referenced indirect block on the ghost path (environment assumption encoded in the read stub, see punch_common.h); the ghost path blocks are distinct and non-zero",
             "ext2fs_read_ind_block / ext2fs_write_ind_block / ext2fs_block_alloc_stats / ext2fs_iblk_sub_blocks are stubs over ghost state (a one-path disk model, release counters); each may fail (IN.choice)",
             "check_zero_block replaced by its contract (RET == block is all zero), proved by unit check_zero_block",
             "on an error return only 'slots the range does not meet are untouched' is claimed"],
 "native": false,
 "timeout": 1500,
 "backend": "cadical"
}
*/
/* VERIF-UNIT
{
 "name": "ind_punch_l2_blk",
 "props": ["C09"],
 "level": "U",
 "tier": "thorough",
 "harness": "h_ind_punch",
 "defines": ["PUNCH_LEVEL=2", "PUNCH_MAX=256"],
 "enforce_rec": ["ind_punch"],
 "replace": ["check_zero_block"],
 "loop_contracts": true,
 "unwind_reason": "no unwinding: the real slot loop of ind_punch is closed by its in-place loop contract (anchor VERIF_INV_IND_PUNCH), the recursion by the contract itself (--enforce-contract-rec)",
 "functions": ["lib/ext2fs/punch.c:ind_punch"],
 "assumes": ["this unit: level == 2 and max == 256 (the image of a level-2 indirect block); the eight ind_punch_l* units together cover every (level, max) pair of the call sites (ext2fs_punch_ind: (0,12), (1..3,1); recursion: (0..2,256)); (3,256) is included although unreachable",
             "blocksize 1024 (256 addresses per block; s_log_block_size consistent with fs->blocksize)",
             "start <= 2^32, count <= 2^33, start + count <= 2^33 (ext2fs_punch_ind clamps start and count to 32 bits; the recursion never enlarges start + count: checked as the callee precondition of the recursive call)",
             "the file has no multiply-referenced indirect block on the ghost path (environment assumption encoded in the read stub, see punch_common.h); the ghost path blocks are distinct and non-zero",
             "ext2fs_read_ind_block / ext2fs_write_ind_block / ext2fs_block_alloc_stats / ext2fs_iblk_sub_blocks are stubs over ghost state (a one-path disk model, release counters); each may fail (IN.choice)",
             "check_zero_block replaced by its contract (RET == block is all zero), proved by unit check_zero_block",
             "on an error return only 'slots the range does not meet are untouched' is claimed"],
 "native": false,
 "timeout": 1500,
 "backend": "cadical"
}
*/
/* VERIF-UNIT
{
 "name": "ind_punch_l3_root",
 "props": ["C09"],
 "level": "U",
 "tier": "thorough",
 "harness": "h_ind_punch",
 "defines": ["PUNCH_LEVEL=3", "PUNCH_MAX=1"],
 "enforce_rec": ["ind_punch"],
 "replace": ["check_zero_block"],
 "loop_contracts": true,
 "unwind_reason": "no unwinding: the real slot loop of ind_punch is closed by its in-place loop contract (anchor VERIF_INV_IND_PUNCH), the recursion by the contract itself (--enforce-contract-rec)",
 "functions": ["lib/ext2fs/punch.c:ind_punch"],
 "assumes": ["this unit: level == 3 and max == 1 (the tree root slot i_block[14]); the eight ind_punch_l* units together cover every (level, max) pair of the call sites (ext2fs_punch_ind: (0,12), (1..3,1); recursion: (0..2,256)); (3,256) is included although unreachable",
             "blocksize 1024 (256 addresses per block; s_log_block_size consistent with fs->blocksize)",
             "start <= 2^32, count <= 2^33, start + count <= 2^33 (ext2fs_punch_ind clamps start and count to 32 bits; the recursion never enlarges start + count: checked as the callee precondition of the recursive call)",
             "the file has no multiply-referenced indirect block on the ghost path (environment assumption encoded in the read stub, see punch_common.h); the ghost path blocks are distinct and non-zero",
             "ext2fs_read_ind_block / ext2fs_write_ind_block / ext2fs_block_alloc_stats / ext2fs_iblk_sub_blocks are stubs over ghost state (a one-path disk model, release counters); each may fail (IN.choice)",
             "check_zero_block replaced by its contract (RET == block is all zero), proved by unit check_zero_block",
             "on an error return only 'slots the range does not meet are untouched' is claimed"],
 "native": false,
 "timeout": 1500,
 "backend": "cadical"
}
*/
/* VERIF-UNIT
{
 "name": "ind_punch_l3_blk",
 "props": ["C09"],
 "level": "U",
 "tier": "thorough",
 "harness": "h_ind_punch",
 "defines": ["PUNCH_LEVEL=3", "PUNCH_MAX=256"],
 "enforce_rec": ["ind_punch"],
 "replace": ["check_zero_block"],
 "loop_contracts": true,
 "unwind_reason": "no unwinding: the real slot loop of ind_punch is closed by its in-place loop contract (anchor VERIF_INV_IND_PUNCH), the recursion by the contract itself (--enforce-contract-rec)",
 "functions": ["lib/ext2fs/punch.c:ind_punch"],
 "assumes": ["this unit: level == 3 and max == 256 (the image of a level-3 indirect block); the eight ind_punch_l* units together cover every (level, max) pair of the call sites (ext2fs_punch_ind: (0,12), (1..3,1); recursion: (0..2,256)); (3,256) is included although unreachable",
             "blocksize 1024 (256 addresses per block; s_log_block_size consistent with fs->blocksize)",
             "start <= 2^32, count <= 2^33, start + count <= 2^33 (ext2fs_punch_ind clamps start and count to 32 bits; the recursion never enlarges start + count: checked as the callee precondition of the recursive call)",
             "the file has no multiply-referenced indirect block on the ghost path (environment assumption encoded in the read stub, see punch_common.h); the ghost path blocks are distinct and non-zero",
             "ext2fs_read_ind_block / ext2fs_write_ind_block / ext2fs_block_alloc_stats / ext2fs_iblk_sub_blocks are stubs over ghost state (a one-path disk model, release counters); each may fail (IN.choice)",
             "check_zero_block replaced by its contract (RET == block is all zero), proved by unit check_zero_block",
             "on an error return only 'slots the range does not meet are untouched' is claimed"],
 "native": false,
 "timeout": 1500,
 "backend": "cadical"
}
*/
/* VERIF-UNIT
{
 "name": "punch_ind",
 "props": ["C09"],
 "level": "U/k",
 "tier": "quick",
 "harness": "h_punch_ind",
 "enforce": ["ext2fs_punch_ind"],
 "replace": ["ind_punch"],
 "unwindset": {"ext2fs_punch_ind.0": 5},
 "unwind_reason": "the loop of ext2fs_punch_ind runs over the 4 mapping levels (direct, ind, dind, tind): constant 4, unwinding assertion on",
 "functions": ["lib/ext2fs/punch.c:ext2fs_punch_ind"],
 "assumes": ["blocksize 1024 (256 addresses per block)",
             "ind_punch replaced by its contract (proved by the eight ind_punch_l* units)",
             "the ghost logical block lives in tree T (0 direct .. 3 triple indirect); no multiply-referenced indirect block: the roots of the OTHER trees are not blocks of the ghost path",
             "block_buf is NULL (the function allocates 3 blocks; allocation may fail) or a caller buffer of 3 blocks",
             "FAILS on the pinned tree: finding C09_punch_ind_cross (a range that starts in one tree and ends inside the next is cut at the tree boundary)"],
 "native": false,
 "timeout": 600,
 "backend": "cadical"
}
*/
/* VERIF-UNIT
{
 "name": "check_zero_block",
 "props": ["C09"],
 "level": "U/k",
 "tier": "quick",
 "harness": "h_check_zero_block",
 "enforce": ["check_zero_block"],
 "unwindset": {"check_zero_block.0": 1025},
 "unwind_reason": "blocksize is 1024 in this unit: the byte loop runs at most 1024 times (unwinding assertion on); the spec's all-zero test is a loop-free expression",
 "functions": ["lib/ext2fs/punch.c:check_zero_block"],
 "assumes": ["blocksize 1024; buffer of exactly 1024 bytes, 4-byte aligned view for the spec"],
 "native": false,
 "backend": "cadical"
}
*/
#include "punch_common.h"
#ifndef PUNCH_LEVEL		/* units that do not run h_ind_punch */
#define PUNCH_LEVEL 0
#define PUNCH_MAX 12
#endif

/* ------------------------------------------------------------------ in-place loop contract of ind_punch's slot loop
 * (the repository only names the loop; the text lives here because it speaks about this unit's ghost path) */
#define VERIF_INV_CHECK_ZERO_BLOCK
/* frame, as typed lvalues (slice targets with object_upto/object_from exhaust the solver's memory): the array's `max`
 * slots, and below block_buf one block per level still to descend (a level-0 call never touches block_buf) */
#define PTGT max == 1: *p; max == (int)C09_NDIR: *(struct blk12 *)p; max == (int)C09_APB: *(struct blk1k *)p
#define BTGT level == 1: *(struct blk1k *)block_buf; level == 2: *(struct blk2k *)block_buf; level == 3: *(struct blk3k *)block_buf
#define LE(x) __CPROVER_loop_entry(x)
#define P0 (__CPROVER_loop_entry(p))
#define VERIF_GHOST_IND_PUNCH_ITER g_cur = i, g_lev = level
#define VERIF_INV_IND_PUNCH \
	__CPROVER_assigns(i, p, offset, freed, b, retval, GHOSTS; PTGT; BTGT) \
	__CPROVER_loop_invariant(0 <= i && i <= max) \
	__CPROVER_loop_invariant(p == P0 + i) \
	__CPROVER_loop_invariant(offset == ((blk64_t)i << (C09_ABITS * level))) \
	__CPROVER_loop_invariant(0 <= freed && freed <= i) \
	/* every release is paired with freed++ here or with the child's own i_blocks update */ \
	__CPROVER_loop_invariant(g_rel - g_isub == LE(g_rel) - LE(g_isub) + (unsigned long long)freed) \
	__CPROVER_loop_invariant(g_relB >= LE(g_relB) && g_badrel == LE(g_badrel)) \
	__CPROVER_loop_invariant(UNREACHED(LE, level)) \
	/* ghost slot not reached yet (or not in this array): it and everything below it are as on entry */ \
	__CPROVER_loop_invariant(((int)G_K(level) < i && (int)G_K(level) < max) || \
		(((int)G_K(level) >= max || P0[KI(level, max)] == LE(p[KI(level, max)])) && FRBELOW(LE, level))) \
	/* ghost slot done: the specification holds for it */ \
	__CPROVER_loop_invariant((int)G_K(level) >= i || \
		SPECL(LE, level, P0[KI(level, max)], LE(p[KI(level, max)]), start, start + count)) \
	__CPROVER_decreases(max - i)

static int check_zero_block(char *buf, int blocksize)
	REQUIRES(blocksize == 1024)
	ASSIGNS()
	ENSURES(RET == c09_all_zero_1k(buf));

/* in-bounds index of the ghost slot (OLD() snapshots are taken unconditionally) */
#define KI(level, max) ((int)G_K(level) < (max) ? G_K(level) : 0u)
#define PRE_RANGE(start, count) ((start) <= (1ULL << 32) && (count) <= (1ULL << 33) && (start) + (count) <= (1ULL << 33))

static errcode_t ind_punch(ext2_filsys fs, struct ext2_inode *inode, char *block_buf, blk_t *p, int level,
			   blk64_t start, blk64_t count, int max)
	REQUIRES(level >= 0 && level <= 3 && (max == 1 || max == (int)C09_NDIR || max == (int)C09_APB))
	REQUIRES(fs->blocksize == 1024 && fs->super->s_log_block_size == 0)
	REQUIRES(PRE_RANGE(start, count))
	ASSIGNS(GHOSTS; PTGT; BTGT)
	/* success: the ghost slot of this array follows the punch specification for [start, start+count) */
	ENSURES(RET != 0 || (int)G_K(level) >= max ||
		SPECL(OLD, level, p[KI(level, max)], OLD(p[KI(level, max)]), start, start + count))
	ENSURES(RET != 0 || (int)G_K(level) < max || FRBELOW(OLD, level))
	/* error: whatever the range does not meet is untouched */
	ENSURES(RET == 0 || ((int)G_K(level) < max ?
		ERRSPEC(OLD, level, p[KI(level, max)], OLD(p[KI(level, max)]), start, start + count) : FRBELOW(OLD, level)))
	/* i_blocks goes down by exactly the number of blocks released (data and indirect) */
	ENSURES(RET != 0 || g_rel - OLD(g_rel) == g_isub - OLD(g_isub))
	ENSURES(g_relB >= OLD(g_relB) && g_badrel == OLD(g_badrel))
	ENSURES(UNREACHED(OLD, level));

/* ------------------------------------------------------------------ ext2fs_punch_ind: file-relative range [start, end]
 * g_T = tree of the ghost logical block; its top slot is i_block[g_K0] (T == 0) or i_block[11 + T]. */
unsigned int g_T;
#define TI		(g_T == 0 ? g_K0 : 11u + g_T)
#define PE(end)		((end) >= (1ULL << 33) ? (1ULL << 33) : (end) + 1)		/* one past the end, saturated */
#define ST(start)	((start) > C09_BASE(g_T) ? (start) - C09_BASE(g_T) : (c09_u64)0)	/* range relative to tree T */
#define ET(end)		(PE(end) > C09_BASE(g_T) ? PE(end) - C09_BASE(g_T) : (c09_u64)0)
static errcode_t ext2fs_punch_ind(ext2_filsys fs, struct ext2_inode *inode, char *block_buf, blk64_t start, blk64_t end)
	REQUIRES(fs->blocksize == 1024 && fs->super->s_log_block_size == 0)
	REQUIRES(g_T <= 3 && (g_T == 0 ? g_K0 < C09_NDIR : G_K(g_T) == 0))
	REQUIRES(start <= end)
	ASSIGNS(GHOSTS; *(struct blk12 *)inode->i_block; inode->i_block[12]; inode->i_block[13]; inode->i_block[14];
		block_buf != 0: *(struct blk3k *)block_buf)
	/* the top slot of the ghost block's tree, and everything below it on the ghost path, follow the specification */
	ENSURES(RET != 0 || SPECL(OLD, g_T, inode->i_block[TI], OLD(inode->i_block[TI]), ST(start), ET(end)))
	ENSURES(RET == 0 || ERRSPEC(OLD, g_T, inode->i_block[TI], OLD(inode->i_block[TI]), ST(start), ET(end)))
	ENSURES(RET != 0 || g_rel - OLD(g_rel) == g_isub - OLD(g_isub))
	ENSURES(g_badrel == OLD(g_badrel));

#include "lib/ext2fs/punch.c"

/* harness snapshots for the CHECKs */
static unsigned int h_g_dv0, h_g_dv1, h_g_dv2, h_g_wr0, h_g_wr1, h_g_wr2, h_g_az0, h_g_az1, h_g_az2;
static unsigned long long h_g_relB;
#define HS(x) h_##x

void h_ind_punch(void)
{
	build_ghosts();
	/* one unit per (level, max) pair that occurs at a call site: constants keep the level-indexed specification and the
	 * frame (object_upto) cheap.  max == 12: i_block[0..11]; max == 1: a tree root i_block[12 + level - 1];
	 * max == 256: the image of an indirect block in the caller's buffer. */
	const int level = PUNCH_LEVEL, max = PUNCH_MAX;
	ASSUME(PRE_RANGE(IN.start, IN.count));
	/* word-typed object (slots are read as words), as many blocks as this level can use: the array itself when it is a
	 * block image, plus one scratch block per level still to descend (at least one to have an object) */
	char *mem = (char *)(unsigned int *)malloc(sizeof(unsigned int) * C09_APB * ((max == (int)C09_APB ? 1 : 0) + (level > 0 ? level : 1)));
	ASSUME(mem != 0);
	blk_t *p;
	char *block_buf;
	if (max != (int)C09_APB) {
		/* the array is part of i_block[]; the scratch buffer is a separate object */
		memcpy(INODE.i_block, IN.iblock, sizeof(INODE.i_block));
		p = &INODE.i_block[max == 1 ? C09_NDIR + level - 1 : 0];
		block_buf = mem;
	} else {
		/* the array is the image of an indirect block in the caller's buffer, scratch space right behind it */
		p = (blk_t *)mem;
		block_buf = mem + 1024;
	}
	unsigned int k = G_K(level);
	if ((int)k < max)
		p[k] = IN.slotv;
	unsigned int v0 = (int)k < max ? p[k] : 0;
	unsigned long long s = IN.start, e = IN.start + IN.count;
	h_g_dv0 = g_dv0; h_g_dv1 = g_dv1; h_g_dv2 = g_dv2; h_g_wr0 = g_wr0; h_g_wr1 = g_wr1; h_g_wr2 = g_wr2;
	h_g_relB = g_relB; h_g_az0 = g_az0; h_g_az1 = g_az1; h_g_az2 = g_az2;

	errcode_t r = ind_punch(&FS, &INODE, block_buf, p, level, IN.start, IN.count, max);

	if (r == 0) {
		if ((int)k < max) {
			unsigned int v = p[k];
			CHECK(SPECL(HS, level, v, v0, s, e), "ghost slot follows the punch specification");
			if (!C09_HIT(level, k, v0, s, e)) {
				CHECK(v == v0, "slot outside the range (or a hole) untouched");
				REACH("outside");
			}
#if PUNCH_LEVEL == 0
			else {
				CHECK(v == 0 && (v0 != g_Bstar || g_relB), "data block in range: unmapped and released");
				REACH("level 0 in range");
			}
#else
			else if (v0 == (level == 1 ? g_PB0 : level == 2 ? g_PB1 : g_PB2)) {
				unsigned int az = level == 1 ? g_az0 : level == 2 ? g_az1 : g_az2;
				CHECK(v == (az ? 0 : v0), "indirect block released iff it became all zero");
				CHECK(!az || v0 != g_Bstar || g_relB, "released indirect block reported to the allocator");
				REACH("level > 0 on the ghost path");
				if (az) REACH("child became all zero");
				if (!az) REACH("child kept");
			}
#endif
		} else
			CHECK(FRBELOW(HS, level), "ghost path not in this array: untouched");
		CHECK(g_rel == g_isub, "i_blocks reduced by the number of blocks released");
		REACH("success");
	} else {
		CHECK((int)k >= max || C09_HIT(level, k, v0, s, e) || p[k] == v0, "error: slot outside the range untouched");
		REACH("error");
	}
	CHECK(g_badrel == 0, "blocks are only ever released (-1)");
	REACH("end");
}

void h_check_zero_block(void)
{
	LOAD_IN();
	char *buf = malloc(1024);
	ASSUME(buf != 0);
	int r = check_zero_block(buf, 1024);
	CHECK(r == c09_all_zero_1k(buf), "1 iff every byte is zero");
	if (r) REACH("zero");
	if (!r) REACH("nonzero");
	REACH("end");
}

void h_punch_ind(void)
{
	build_ghosts();
	g_T = IN.T;
	ASSUME(g_T <= 3 && (g_T == 0 ? g_K0 < C09_NDIR : G_K(g_T) == 0));
	ASSUME(IN.start <= IN.end);		/* ext2fs_punch rejects start > end */
	memcpy(INODE.i_block, IN.iblock, sizeof(INODE.i_block));
	/* no multiply-referenced indirect block: the root of another tree is not a block of the ghost path */
	ASSUME(g_T == 1 || INODE.i_block[12] != g_PB0);
	ASSUME(g_T == 2 || INODE.i_block[13] != g_PB1);
	ASSUME(g_T == 3 || INODE.i_block[14] != g_PB2);
	char *block_buf = 0;
	if (IN.top) {
		block_buf = (char *)(unsigned int *)malloc(sizeof(unsigned int) * 3 * C09_APB);
		ASSUME(block_buf != 0);
	}
	unsigned int ti = TI, v0 = INODE.i_block[ti];
	unsigned long long s = ST(IN.start), e = ET(IN.end);
	h_g_dv0 = g_dv0; h_g_dv1 = g_dv1; h_g_dv2 = g_dv2; h_g_wr0 = g_wr0; h_g_wr1 = g_wr1; h_g_wr2 = g_wr2;
	h_g_relB = g_relB; h_g_az0 = g_az0; h_g_az1 = g_az1; h_g_az2 = g_az2;

	errcode_t r = ext2fs_punch_ind(&FS, &INODE, block_buf, IN.start, IN.end);

	if (r == 0) {
		unsigned int v = INODE.i_block[ti];
		CHECK(SPECL(HS, g_T, v, v0, s, e), "ghost path follows the punch specification for [start, end]");
		if (!C09_HIT(g_T, G_K(g_T), v0, s, e)) {
			CHECK(v == v0 && FRBELOW(HS, g_T), "tree outside the range untouched");
			REACH("tree outside the range");
		} else {
			if (g_T == 0) { CHECK(v == 0, "direct block in range unmapped"); REACH("direct block in range"); }
			if (g_T == 1 && v0 == g_PB0) {
				CHECK(g_wr0 == 1, "indirect block rewritten once");
				/* the data block: its slot is cleared iff 12 + K0 lies in [start, end] */
				unsigned long long L = C09_NDIR + g_K0;
				CHECK(h_g_dv0 == 0 || g_dv0 == (L >= IN.start && L <= IN.end ? 0 : h_g_dv0), "data slot under the indirect block cleared iff in range");
				REACH("ind tree on the ghost path");
			}
			if (g_T == 2 && v0 == g_PB1 && h_g_dv1 == g_PB0) {
				unsigned long long L = C09_NDIR + C09_APB + ((c09_u64)g_K1 << 8) + g_K0;
				if (L >= IN.start && L <= IN.end) {
					CHECK(g_dv1 == 0 || g_dv0 == 0 || h_g_dv0 == 0, "dind: block in range unmapped at some level");
					REACH("dind tree, block in range");
				} else {
					if (h_g_dv0 != 0)
						CHECK(v == v0 && g_dv1 == h_g_dv1 && g_dv0 == h_g_dv0, "dind: mapped block outside the range keeps its mapping");
					else
						CHECK(g_dv1 == 0 || (g_dv1 == h_g_dv1 && g_dv0 == 0), "dind: hole outside the range stays a hole");
					REACH("dind tree, block outside range");
				}
			}
			if (g_T == 3) REACH("tind tree met");
		}
		CHECK(g_rel == g_isub, "i_blocks reduced by the number of blocks released");
		REACH("success");
	} else
		REACH("error");
	CHECK(g_badrel == 0, "blocks are only ever released");
	REACH("end");
}
