/* VERIF-UNIT
{
 "name": "block_alloc_stats_range_1group",
 "props": ["C09"],
 "level": "B(1)",
 "tier": "wip",
 "harness": "h_range",
 "enforce": ["ext2fs_block_alloc_stats_range"],
 "unwind": 2,
 "unwind_reason": "the harness restricts the range to ONE block group (blk+num-1 <= last block of blk's group), so the per-group loop runs once; the unwinding assertion checks that",
 "functions": ["lib/ext2fs/alloc_stats.c:ext2fs_block_alloc_stats_range"],
 "assumes": ["BOUNDED STAND-IN: the range lies inside one block group (multi-group ranges need a loop contract over the group partition: not done)",
             "range is cluster aligned (blk and num multiples of the cluster ratio); cluster ratio 1 or 16 only (symbolic division by the ratio does not terminate)",
             "accessors are stubs over single-index ghost state (alloc_stats_common.h); group_of_blk2 / group_last_block2 are stubs returning an arbitrary valid group and its last block",
             "FULL contract incl. 'callback is told the range' and 'range starting below s_first_data_block changes nothing': both FAIL on the pinned tree (findings)"],
 "native": false,
 "backend": "cadical"
}
*/
/* VERIF-UNIT
{
 "name": "block_alloc_stats_range_1group_nocb",
 "props": ["C09"],
 "level": "B(1)",
 "tier": "wip",
 "harness": "h_range_nocb",
 "enforce": ["ext2fs_block_alloc_stats_range"],
 "unwind": 2,
 "unwind_reason": "the harness restricts the range to ONE block group, so the per-group loop runs once; the unwinding assertion checks that",
 "functions": ["lib/ext2fs/alloc_stats.c:ext2fs_block_alloc_stats_range"],
 "assumes": ["as block_alloc_stats_range_1group, but excluding the two findings: no range callback installed, blk >= s_first_data_block"],
 "native": false,
 "backend": "cadical"
}
*/
/*
 * STATUS: wip, NOT RUNNING — both units time out (150 s, minisat and cadical).  The loop body computes
 * inuse*n/EXT2FS_CLUSTER_RATIO(fs) and -inuse*(blk64_t)n: two 64-bit symbolic products and a 64-bit division by a
 * symbolic value; fixing the ratio per call in the harness did not help (fs is reached through the contract wrapper's
 * pointer, no constant propagation).  Next steps: per-ratio units via "defines", inuse fixed per unit; then the
 * multi-group loop contract (ghost group interval [GF,GL], invariant "g_gfree == old -/+ |[blk0,blk) n [GF,GL]| >> crb").
 * The two findings below are visible by reading the code and (a) is independent of the arithmetic.
 *
 * ext2fs_block_alloc_stats_range on a range inside one group.
 * Findings on the pinned tree (unit block_alloc_stats_range_1group):
 *  (a) the callback fs->block_alloc_stats_range is invoked AFTER the loop has advanced blk and zeroed num: it is told
 *      (blk+num, 0, +-1) instead of (blk, num, +-1) -> e2fsck's block_found_map / resize2fs never hear about the range;
 *  (b) no lower bound check (blk < s_first_data_block, e.g. block 0 of a 1k-block fs) — the single-block version has one.
 */
#include "alloc_stats_common.h"

unsigned long long g_gof_arg;
dgrp_t ext2fs_group_of_blk2(ext2_filsys fs, blk64_t blk) { g_gof_arg = blk; return IN.group; }
blk64_t ext2fs_group_last_block2(ext2_filsys fs, dgrp_t group) { GRPCHK(fs, group); return IN.last[0]; }

#define KIN(blk, num, crb) (verif_k >= ((blk) >> (crb)) && verif_k <= (((blk) + (num) - 1) >> (crb)))
void ext2fs_mark_block_bitmap_range2(ext2fs_block_bitmap bmap, blk64_t block, unsigned int num)
{ g_touch++; if (num && KIN(block, num, FS.cluster_ratio_bits)) g_bit = 1; }
void ext2fs_unmark_block_bitmap_range2(ext2fs_block_bitmap bmap, blk64_t block, unsigned int num)
{ g_touch++; if (num && KIN(block, num, FS.cluster_ratio_bits)) g_bit = 0; }

#define RANGE_VALID(fs, blk, num) ((blk) >= (fs)->super->s_first_data_block && (blk) + (num) >= (blk) && (blk) + (num) <= IN.blocks_count)
#define ACTIVE(fs, blk, num, inuse) (RANGE_VALID(fs, blk, num) && (inuse) != 0 && (num) != 0)
#define GHOSTS g_bit, g_gfree, g_gdirs, g_gflags, g_gunused, g_gfresh, g_sfree, g_other, g_cb_calls, g_cb_blk, g_cb_num, \
	g_cb_inuse, g_cb_flags_seen, g_cb_sfree_seen, g_badgroup, g_touch, g_gof_arg

void ext2fs_block_alloc_stats_range(ext2_filsys fs, blk64_t blk, blk_t num, int inuse)
	REQUIRES(fs->cluster_ratio_bits >= 0 && fs->cluster_ratio_bits <= 19)
	REQUIRES((blk & ((1ULL << fs->cluster_ratio_bits) - 1)) == 0 && (num & ((1ULL << fs->cluster_ratio_bits) - 1)) == 0)
	REQUIRES(!RANGE_VALID(fs, blk, num) || (IN.group < fs->group_desc_count && (num == 0 || blk + num - 1 <= IN.last[0])))
	REQUIRES(g_gfresh == 1 && g_cb_calls == 0 && g_badgroup == 0 && g_touch == 0)
	ASSIGNS(GHOSTS, fs->flags)
	/* invalid range or inuse == 0: nothing changes */
	ENSURES(ACTIVE(fs, blk, num, inuse) || (g_bit == OLD(g_bit) && g_gfree == OLD(g_gfree) && g_gflags == OLD(g_gflags) &&
		g_sfree == OLD(g_sfree) && g_cb_calls == 0))
	ENSURES(RANGE_VALID(fs, blk, num) || (g_touch == 0 && fs->flags == OLD(fs->flags)))
	ENSURES(!ACTIVE(fs, blk, num, inuse) || g_bit == (KIN(blk, num, fs->cluster_ratio_bits) ? (inuse > 0) : OLD(g_bit)))
	ENSURES(!ACTIVE(fs, blk, num, inuse) || g_gfree == (g_G != IN.group ? OLD(g_gfree) :
		inuse > 0 ? OLD(g_gfree) - (num >> fs->cluster_ratio_bits) : OLD(g_gfree) + (num >> fs->cluster_ratio_bits)))
	ENSURES(!ACTIVE(fs, blk, num, inuse) || g_gflags == (g_G == IN.group ? (OLD(g_gflags) & ~(unsigned int)EXT2_BG_BLOCK_UNINIT) : OLD(g_gflags)))
	ENSURES(!ACTIVE(fs, blk, num, inuse) || g_gfresh == 1)
	ENSURES(!ACTIVE(fs, blk, num, inuse) || g_sfree == (inuse > 0 ? OLD(g_sfree) - num : OLD(g_sfree) + num))
	ENSURES(!ACTIVE(fs, blk, num, inuse) || fs->flags == (OLD(fs->flags) | EXT2_FLAG_DIRTY | EXT2_FLAG_CHANGED | EXT2_FLAG_BB_DIRTY))
	ENSURES(g_badgroup == 0)
	ENSURES(!ACTIVE(fs, blk, num, inuse) || (fs->block_alloc_stats_range ?
		(g_cb_calls == 1 && g_cb_blk == blk && g_cb_num == num && (g_cb_inuse > 0) == (inuse > 0) && g_cb_inuse != 0) : g_cb_calls == 0));

#include "lib/ext2fs/alloc_stats.c"

static void range_body(void)
{
	unsigned long long mask = (1ULL << IN.crb) - 1;
	ASSUME((IN.blk & mask) == 0 && (IN.num & mask) == 0);
	int valid = IN.blk >= IN.first_data_block && IN.blk + IN.num >= IN.blk && IN.blk + IN.num <= IN.blocks_count;
	ASSUME(!valid || (IN.group < IN.group_desc_count && (IN.num == 0 || IN.blk + IN.num - 1 <= IN.last[0])));
	int active = valid && IN.inuse != 0 && IN.num != 0;
	FS.block_alloc_stats_range = IN.have_cb ? cb_range : 0;
	int bit0 = g_bit, flags0 = FS.flags;
	unsigned int gfree0 = g_gfree, gflags0 = g_gflags;
	unsigned long long sfree0 = g_sfree;

	ext2fs_block_alloc_stats_range(&FS, IN.blk, IN.num, IN.inuse);

	if (!active) {
		CHECK(g_bit == bit0 && g_gfree == gfree0 && g_gflags == gflags0 && g_sfree == sfree0 && g_cb_calls == 0,
		      "invalid range or inuse == 0: nothing changes");
		CHECK(valid || (g_touch == 0 && FS.flags == flags0), "invalid range: not even dirty flags");
		REACH("inactive");
	} else {
		unsigned int nc = IN.num >> IN.crb;
		CHECK(g_bit == (KIN(IN.blk, IN.num, IN.crb) ? (IN.inuse > 0) : bit0), "bitmap: exactly the clusters of the range become inuse");
		CHECK(g_gfree == (g_G != IN.group ? gfree0 : IN.inuse > 0 ? gfree0 - nc : gfree0 + nc), "group free count moves by the number of clusters");
		CHECK(g_gflags == (g_G == IN.group ? (gflags0 & ~(unsigned int)EXT2_BG_BLOCK_UNINIT) : gflags0), "BLOCK_UNINIT cleared in the group only");
		CHECK(g_gfresh == 1, "descriptor checksum recomputed");
		CHECK(g_sfree == (IN.inuse > 0 ? sfree0 - IN.num : sfree0 + IN.num), "superblock free blocks move by num");
		CHECK(FS.flags == (flags0 | EXT2_FLAG_DIRTY | EXT2_FLAG_CHANGED | EXT2_FLAG_BB_DIRTY), "dirty flags");
		CHECK(IN.have_cb ? (g_cb_calls == 1 && g_cb_blk == IN.blk && g_cb_num == IN.num) : g_cb_calls == 0, "callback told exactly this range");
		REACH("active");
	}
	CHECK(g_badgroup == 0, "descriptor accessors only called with a valid group");
	REACH("end");
}

/* constant cluster ratio per call: keeps the function's division by the ratio a shift */
static void range_cases(void)
{
	ASSUME(IN.crb == 0 || IN.crb == 4);
	if (IN.crb == 0) { FS.cluster_ratio_bits = 0; range_body(); }
	else { FS.cluster_ratio_bits = 4; range_body(); }
}

void h_range(void)
{
	build_fs();
	range_cases();
}

void h_range_nocb(void)
{
	build_fs();
	ASSUME(!IN.have_cb);
	ASSUME(IN.blk >= IN.first_data_block);
	range_cases();
}
