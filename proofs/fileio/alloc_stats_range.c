/* VERIF-UNIT
{
 "name": "block_alloc_stats_range_r1",
 "props": ["C09"],
 "level": "U",
 "tier": "quick",
 "harness": "h_range",
 "defines": ["CRB=0"],
 "enforce": ["ext2fs_block_alloc_stats_range"],
 "loop_contracts": true,
 "functions": ["lib/ext2fs/alloc_stats.c:ext2fs_block_alloc_stats_range"],
 "assumes": ["cluster ratio 1 in this unit (ratio 16: block_alloc_stats_range_r16); a symbolic ratio makes the division in the loop body intractable, the two units enumerate 'no bigalloc' and one bigalloc ratio",
             "the range is cluster aligned (blk and num multiples of the ratio: ext2fs_alloc_range/ext2fs_new_range and fallocate's claim_range pass whole clusters) and blk < 2^63 (no 64-bit wrap of blk + num)",
             "blk >= s_first_data_block (every call site passes blocks obtained from the block bitmap; the function itself has no lower bound check: observation unit block_alloc_stats_range_full)",
             "block -> group map: a stub geometry in which the ghost group g_G owns the block interval [GF, GL] and every other block belongs to some other valid group whose last block is arbitrary but consistent (not below the block asked for, below GF if the block is below GF, inside the filesystem); group boundaries are cluster aligned (blocks per group is a multiple of the ratio, s_first_data_block is 0 with bigalloc)",
             "inuse is +1 or -1 (all call sites pass these literals)",
             "bitmap / descriptor / superblock accessors are stubs over single-index ghost state (alloc_stats_common.h)",
             "this unit proves everything EXCEPT the values of the two free counts (units block_alloc_stats_range_counts_*)",
             "about the callback only 'called exactly once after the update when installed' is claimed (its arguments: observation unit)"],
 "native": false,
 "backend": "cadical"
}
*/
/* VERIF-UNIT
{
 "name": "block_alloc_stats_range_r16",
 "props": ["C09"],
 "level": "U",
 "tier": "quick",
 "harness": "h_range",
 "defines": ["CRB=4"],
 "enforce": ["ext2fs_block_alloc_stats_range"],
 "loop_contracts": true,
 "functions": ["lib/ext2fs/alloc_stats.c:ext2fs_block_alloc_stats_range"],
 "assumes": ["as block_alloc_stats_range_r1 with cluster ratio 16"],
 "native": false,
 "backend": "cadical"
}
*/
/* VERIF-UNIT
{
 "name": "block_alloc_stats_range_counts_r1_alloc",
 "props": ["C09"],
 "level": "U",
 "tier": "quick",
 "harness": "h_range",
 "defines": ["CRB=0", "COUNTS=1", "SIGN=1"],
 "enforce": ["ext2fs_block_alloc_stats_range"],
 "loop_contracts": true,
 "functions": ["lib/ext2fs/alloc_stats.c:ext2fs_block_alloc_stats_range"],
 "assumes": ["the COUNT VALUES half of the contract of block_alloc_stats_range_r1 (ghost group's free count, superblock free count), for inuse == 1, on cvc5 (the loop body multiplies by the constant 2^64-1; SAT back ends do not prove (2^64-1)*n == -n)",
             "otherwise exactly the assumptions of block_alloc_stats_range_r1"],
 "native": false,
 "timeout": 600,
 "backend": "cvc5"
}
*/
/* VERIF-UNIT
{
 "name": "block_alloc_stats_range_counts_r1_free",
 "props": ["C09"],
 "level": "U",
 "tier": "quick",
 "harness": "h_range",
 "defines": ["CRB=0", "COUNTS=1", "SIGN=-1"],
 "enforce": ["ext2fs_block_alloc_stats_range"],
 "loop_contracts": true,
 "functions": ["lib/ext2fs/alloc_stats.c:ext2fs_block_alloc_stats_range"],
 "assumes": ["the COUNT VALUES half of the contract of block_alloc_stats_range_r1 (ghost group's free count, superblock free count), for inuse == -1, on cvc5 (the loop body multiplies by the constant 2^64-1; SAT back ends do not prove (2^64-1)*n == -n)",
             "otherwise exactly the assumptions of block_alloc_stats_range_r1"],
 "native": false,
 "timeout": 600,
 "backend": "cvc5"
}
*/
/* VERIF-UNIT
{
 "name": "block_alloc_stats_range_counts_r16_alloc",
 "props": ["C09"],
 "level": "U",
 "tier": "quick",
 "harness": "h_range",
 "defines": ["CRB=4", "COUNTS=1", "SIGN=1"],
 "enforce": ["ext2fs_block_alloc_stats_range"],
 "loop_contracts": true,
 "functions": ["lib/ext2fs/alloc_stats.c:ext2fs_block_alloc_stats_range"],
 "assumes": ["the COUNT VALUES half of the contract of block_alloc_stats_range_r16 (ghost group's free count, superblock free count), for inuse == 1, on cvc5 (the loop body multiplies by the constant 2^64-1; SAT back ends do not prove (2^64-1)*n == -n)",
             "otherwise exactly the assumptions of block_alloc_stats_range_r16"],
 "native": false,
 "timeout": 600,
 "backend": "cvc5"
}
*/
/* VERIF-UNIT
{
 "name": "block_alloc_stats_range_counts_r16_free",
 "props": ["C09"],
 "level": "U",
 "tier": "quick",
 "harness": "h_range",
 "defines": ["CRB=4", "COUNTS=1", "SIGN=-1"],
 "enforce": ["ext2fs_block_alloc_stats_range"],
 "loop_contracts": true,
 "functions": ["lib/ext2fs/alloc_stats.c:ext2fs_block_alloc_stats_range"],
 "assumes": ["the COUNT VALUES half of the contract of block_alloc_stats_range_r16 (ghost group's free count, superblock free count), for inuse == -1, on cvc5 (the loop body multiplies by the constant 2^64-1; SAT back ends do not prove (2^64-1)*n == -n)",
             "otherwise exactly the assumptions of block_alloc_stats_range_r16"],
 "native": false,
 "timeout": 600,
 "backend": "cvc5"
}
*/
/* VERIF-UNIT
{
 "name": "block_alloc_stats_range_full",
 "props": ["C09"],
 "level": "U",
 "tier": "obs",
 "harness": "h_range_full",
 "defines": ["CRB=0", "FULL=1"],
 "enforce": ["ext2fs_block_alloc_stats_range"],
 "loop_contracts": true,
 "functions": ["lib/ext2fs/alloc_stats.c:ext2fs_block_alloc_stats_range"],
 "assumes": ["OBSERVATION (more than C09 demands, fails on the tree): (a) the callback fs->block_alloc_stats_range must be told (blk, num, +-1) of the range — the code calls it after the loop has advanced blk and zeroed num, so it hears (blk+num, 0); (b) a range starting below s_first_data_block must change nothing — there is no lower bound check",
             "otherwise as block_alloc_stats_range_r1"],
 "native": false,
 "backend": "cadical"
}
*/
/*
 * ext2fs_block_alloc_stats_range over any number of block groups (C09: "i_blocks and the block bitmap matching what
 * the files map" needs bitmap range, per-group free counts, superblock free count and dirty flags to move together).
 *
 * Pointwise statement for ONE ghost group g_G owning blocks [GF, GL] and ONE ghost cluster verif_k:
 *   valid range, inuse != 0:  bit(verif_k) := (inuse > 0) iff the cluster lies in the range, else unchanged;
 *                             free count of g_G moves by -+ |range n [GF, GL]| / ratio, BLOCK_UNINIT cleared and the
 *                             descriptor checksum recomputed iff the intersection is not empty;
 *                             superblock free blocks move by -+ num; super + block bitmap dirty;
 *   invalid range (beyond blocks_count) or inuse == 0: nothing changes.
 * The per-group loop is closed by the in-place loop contract VERIF_INV_BLOCK_ALLOC_STATS_RANGE (hooks-pending/fio.diff).
 */
#include "alloc_stats_common.h"

#ifndef CRB
#define CRB 0
#endif
#define MASK ((1ULL << CRB) - 1)

unsigned long long g_gof_arg;		/* block of the last group_of lookup */
unsigned long long g_GF, g_GL;		/* ghost group's first / last block */
#define IN_G(b) ((b) >= g_GF && (b) <= g_GL)

dgrp_t ext2fs_group_of_blk2(ext2_filsys fs, blk64_t blk)
{
	g_gof_arg = blk;
	return IN_G(blk) ? g_G : IN.grp[0];		/* IN.grp[0] != g_G, valid (harness) */
}
blk64_t ext2fs_group_last_block2(ext2_filsys fs, dgrp_t group)
{
	GRPCHK(fs, group);
	if (group == g_G)
		return g_GL;
	/* some other group: its last block is not below the block just looked up, does not reach into the ghost group,
	 * lies inside the filesystem, and is the last block of a cluster */
	ASSUME(IN.last[0] >= g_gof_arg && IN.last[0] < IN.blocks_count && (g_gof_arg > g_GL || IN.last[0] < g_GF));
	ASSUME(((IN.last[0] + 1) & MASK) == 0);
	return IN.last[0];
}

#define KIN(blk, num) (verif_k >= ((blk) >> CRB) && verif_k <= (((blk) + (num) - 1) >> CRB))
void ext2fs_mark_block_bitmap_range2(ext2fs_block_bitmap bmap, blk64_t block, unsigned int num)
{ g_touch++; if (num && KIN(block, num)) g_bit = 1; }
void ext2fs_unmark_block_bitmap_range2(ext2fs_block_bitmap bmap, blk64_t block, unsigned int num)
{ g_touch++; if (num && KIN(block, num)) g_bit = 0; }

#define MINU(a, b) ((a) < (b) ? (a) : (b))
#define MAXU(a, b) ((a) > (b) ? (a) : (b))
/* number of blocks of [a, b) that belong to the ghost group */
#define ISECT(a, b) (MINU(b, g_GL + 1) > MAXU(a, g_GF) ? MINU(b, g_GL + 1) - MAXU(a, g_GF) : 0ULL)
#define MOVED(old, amount, inuse) ((inuse) > 0 ? (old) - (amount) : (old) + (amount))

#ifdef FULL
#define LOWER_OK(fs, blk) ((blk) >= (fs)->super->s_first_data_block)
#else
#define LOWER_OK(fs, blk) 1
#endif
#define RANGE_VALID(fs, blk, num) (LOWER_OK(fs, blk) && (blk) + (num) <= IN.blocks_count)
#define ACTIVE(fs, blk, num, inuse) (RANGE_VALID(fs, blk, num) && (inuse) != 0)
#define GHOSTS g_bit, g_gfree, g_gdirs, g_gflags, g_gunused, g_gfresh, g_sfree, g_other, g_cb_calls, g_cb_blk, g_cb_num, \
	g_cb_inuse, g_cb_flags_seen, g_cb_sfree_seen, g_badgroup, g_touch, g_gof_arg

/* in-place loop contract of the per-group loop; B0/N0 = range on loop entry */
#define LE(x) __CPROVER_loop_entry(x)
#undef VERIF_INV_BLOCK_ALLOC_STATS_RANGE
/* The two products inuse*n and -inuse*(blk64_t)n of the loop body multiply by the constant 2^64-1 in one of the two
 * directions; no SAT back end proves (2^64-1)*n == -n, cvc5 does, but is slow on the rest.  So the statement is split:
 * the units without COUNTS prove everything except the VALUES of the two counts (SAT), the *_counts units prove
 * exactly the two count values (cvc5).  Same real code, same stubs, disjoint halves of the same contract. */
#ifdef COUNTS
#define INV_PART \
	__CPROVER_loop_invariant(g_gfree == MOVED(LE(g_gfree), (unsigned int)(ISECT(LE(blk), blk) >> CRB), inuse)) \
	__CPROVER_loop_invariant(g_sfree == MOVED(LE(g_sfree), blk - LE(blk), inuse))
#else
#define INV_PART \
	__CPROVER_loop_invariant(g_gflags == (ISECT(LE(blk), blk) ? (LE(g_gflags) & ~(unsigned int)EXT2_BG_BLOCK_UNINIT) : LE(g_gflags))) \
	__CPROVER_loop_invariant(g_gfresh == 1 && g_badgroup == 0)
#endif
#define VERIF_INV_BLOCK_ALLOC_STATS_RANGE \
	__CPROVER_assigns(blk, num, g_gfree, g_gflags, g_gfresh, g_sfree, g_other, g_badgroup, g_touch, g_gof_arg) \
	__CPROVER_loop_invariant(inuse == 1 || inuse == -1) \
	__CPROVER_loop_invariant(num <= LE(num) && blk == LE(blk) + (LE(num) - num)) \
	__CPROVER_loop_invariant((blk & MASK) == 0 && (num & MASK) == 0) \
	INV_PART \
	__CPROVER_decreases(num)

void ext2fs_block_alloc_stats_range(ext2_filsys fs, blk64_t blk, blk_t num, int inuse)
	REQUIRES(fs->cluster_ratio_bits == CRB)
	REQUIRES(inuse == 1 || inuse == -1)
	REQUIRES((blk & MASK) == 0 && (num & MASK) == 0 && blk < (1ULL << 63))
#ifndef FULL
	REQUIRES(blk >= fs->super->s_first_data_block)
#endif
	REQUIRES(g_GF <= g_GL && g_GL < IN.blocks_count && (g_GF & MASK) == 0 && ((g_GL + 1) & MASK) == 0)
	REQUIRES(g_G < fs->group_desc_count && IN.grp[0] < fs->group_desc_count && IN.grp[0] != g_G)
	REQUIRES(g_gfresh == 1 && g_cb_calls == 0 && g_badgroup == 0 && g_touch == 0)
	ASSIGNS(GHOSTS, fs->flags)
#ifdef COUNTS
	/* valid range: the ghost group's free count moves by the clusters of the range inside the group, the superblock's
	 * by the whole range */
	ENSURES(!ACTIVE(fs, blk, num, inuse) ||
		g_gfree == MOVED(OLD(g_gfree), (unsigned int)(ISECT(blk, blk + num) >> CRB), inuse))
	ENSURES(!ACTIVE(fs, blk, num, inuse) || g_sfree == MOVED(OLD(g_sfree), (unsigned long long)num, inuse));
#else
	/* invalid range or inuse == 0: nothing changes, nobody is told */
	ENSURES(ACTIVE(fs, blk, num, inuse) || (g_bit == OLD(g_bit) && g_gfree == OLD(g_gfree) && g_gflags == OLD(g_gflags) &&
		g_sfree == OLD(g_sfree) && g_cb_calls == 0 && g_gfresh == 1))
	ENSURES(RANGE_VALID(fs, blk, num) || (g_touch == 0 && fs->flags == OLD(fs->flags)))
	/* valid range: bitmap, ghost group's flags and checksum, dirty flags */
	ENSURES(!ACTIVE(fs, blk, num, inuse) || g_bit == (num && KIN(blk, num) ? (inuse > 0) : OLD(g_bit)))
	ENSURES(!ACTIVE(fs, blk, num, inuse) ||
		g_gflags == (ISECT(blk, blk + num) ? (OLD(g_gflags) & ~(unsigned int)EXT2_BG_BLOCK_UNINIT) : OLD(g_gflags)))
	ENSURES(!ACTIVE(fs, blk, num, inuse) || g_gfresh == 1)
	ENSURES(!ACTIVE(fs, blk, num, inuse) || fs->flags == (OLD(fs->flags) | EXT2_FLAG_DIRTY | EXT2_FLAG_CHANGED | EXT2_FLAG_BB_DIRTY))
	ENSURES(g_badgroup == 0 && g_gdirs == OLD(g_gdirs) && g_gunused == OLD(g_gunused))
	/* the allocation callback (e2fsck / resize2fs keep their own maps with it) is called once, after the update */
	ENSURES(!ACTIVE(fs, blk, num, inuse) || (fs->block_alloc_stats_range ?
		(g_cb_calls == 1 && g_cb_flags_seen == fs->flags
#ifdef FULL
		 && g_cb_blk == blk && g_cb_num == num && (g_cb_inuse > 0) == (inuse > 0) && g_cb_inuse != 0
#endif
		) : g_cb_calls == 0));
#endif

#include "lib/ext2fs/alloc_stats.c"

static void range_body(void)
{
	build_fs();
	FS.cluster_ratio_bits = CRB;
	ASSUME((IN.blk & MASK) == 0 && (IN.num & MASK) == 0 && IN.blk < (1ULL << 63));
#ifndef FULL
	ASSUME(IN.blk >= IN.first_data_block);
#endif
	g_GF = IN.GF; g_GL = IN.GL;
	ASSUME(g_GF <= g_GL && g_GL < IN.blocks_count && (g_GF & MASK) == 0 && ((g_GL + 1) & MASK) == 0);
	ASSUME(g_G < IN.group_desc_count && IN.grp[0] < IN.group_desc_count && IN.grp[0] != g_G);
	int lower_ok = 1;
#ifdef FULL
	lower_ok = IN.blk >= IN.first_data_block;
#endif
	int valid = lower_ok && IN.blk + IN.num <= IN.blocks_count;
	int active = valid && IN.inuse != 0;
	FS.block_alloc_stats_range = IN.have_cb ? cb_range : 0;
	int bit0 = g_bit, flags0 = FS.flags;
	unsigned int gfree0 = g_gfree, gflags0 = g_gflags;
	unsigned long long sfree0 = g_sfree;

	/* every call site passes the literal +1 or -1; two calls with a constant keep the products inuse*n constant-folded
	 * (a symbolic +-1 factor in two 64-bit products does not terminate in the solver) */
#ifdef SIGN
	ASSUME(IN.inuse == SIGN);
#else
	ASSUME(IN.inuse == 1 || IN.inuse == -1);
#endif
	if (IN.inuse > 0)
		ext2fs_block_alloc_stats_range(&FS, IN.blk, IN.num, 1);
	else
		ext2fs_block_alloc_stats_range(&FS, IN.blk, IN.num, -1);

#ifdef COUNTS
	if (active) {
		unsigned long long isect = ISECT(IN.blk, IN.blk + IN.num);
		unsigned int nc = (unsigned int)(isect >> CRB);
		CHECK(g_gfree == (IN.inuse > 0 ? gfree0 - nc : gfree0 + nc), "ghost group's free count moves by the clusters of the range inside the group");
		CHECK(g_sfree == (IN.inuse > 0 ? sfree0 - IN.num : sfree0 + IN.num), "superblock free blocks move by num");
		REACH("active");
	}
#else
	if (!active) {
		CHECK(g_bit == bit0 && g_gfree == gfree0 && g_gflags == gflags0 && g_sfree == sfree0 && g_cb_calls == 0,
		      "invalid range or inuse == 0: nothing changes");
		CHECK(valid || (g_touch == 0 && FS.flags == flags0), "invalid range: not even dirty flags");
		REACH("inactive");
	} else {
		unsigned long long isect = ISECT(IN.blk, IN.blk + IN.num);
		CHECK(g_bit == (IN.num && KIN(IN.blk, IN.num) ? (IN.inuse > 0) : bit0), "bitmap: exactly the clusters of the range become inuse");
		CHECK(g_gflags == (isect ? (gflags0 & ~(unsigned int)EXT2_BG_BLOCK_UNINIT) : gflags0), "BLOCK_UNINIT cleared iff the group is touched");
		CHECK(g_gfresh == 1, "descriptor checksum current");
		CHECK(FS.flags == (flags0 | EXT2_FLAG_DIRTY | EXT2_FLAG_CHANGED | EXT2_FLAG_BB_DIRTY), "dirty flags");
		CHECK(IN.have_cb ? g_cb_calls == 1 : g_cb_calls == 0, "callback called once when installed");
#ifdef FULL
		CHECK(!IN.have_cb || (g_cb_blk == IN.blk && g_cb_num == IN.num), "callback told exactly this range");
#endif
		REACH("active");
		if (isect && isect < IN.num) REACH("range covers the ghost group and other groups");
		if (isect == 0 && IN.num) REACH("range misses the ghost group");
	}
	CHECK(g_badgroup == 0, "descriptor accessors only called with a valid group");
#endif
	REACH("end");
}

void h_range(void) { range_body(); }
void h_range_full(void) { range_body(); }
