/* VERIF-UNIT
{
 "name": "file_set_size2",
 "props": ["C09"],
 "level": "P",
 "tier": "quick",
 "harness": "h_set_size2",
 "enforce": ["ext2fs_file_set_size2"],
 "replace": ["ext2fs_file_zero_past_offset", "ext2fs_file_flush"],
 "functions": ["lib/ext2fs/fileio.c:ext2fs_file_set_size2"],
 "assumes": ["size >= 0 (a file size; LLONG_MIN would overflow size - 1) and old i_size <= 2^48 (2^32 blocks of at most 64 KiB; a larger i_size overflows the signed old_size + blocksize - 1)",
             "blocksize 1024 or 4096 (two calls with a constant: the function divides by fs->blocksize), s_log_block_size consistent with it",
             "ext2fs_file_block_offset_too_big, ext2fs_inode_size_set, ext2fs_write_inode, ext2fs_punch are stubs that log their calls in order (ghost sequence numbers) and may fail; too_big answers 1 for every block offset >= 2^32-1 (its first test) and arbitrarily below; inode_size_set stores the 64-bit size in i_size/i_size_high or fails",
             "ext2fs_file_zero_past_offset replaced by a contract (logs the offset, may fail, leaves the inode alone); ext2fs_file_flush replaced by a contract (only reached if the tree carries the proposed fix of finding C09_set_size_stale_buffer)",
             "the DECISION only: which blocks are released and that the new size reaches the inode; the coherence of the open file's block buffer is unit file_set_size2_buffer (finding)"],
 "native": false,
 "backend": "cadical"
}
*/
/* VERIF-UNIT
{
 "name": "file_set_size2_buffer",
 "props": ["C09"],
 "level": "P",
 "tier": "quick",
 "harness": "h_set_size2_buffer",
 "enforce": ["ext2fs_file_set_size2"],
 "replace": ["ext2fs_file_zero_past_offset", "ext2fs_file_flush"],
 "defines": ["BUFFER_COHERENCE=1"],
 "functions": ["lib/ext2fs/fileio.c:ext2fs_file_set_size2"],
 "assumes": ["as file_set_size2, plus the statement about the open file's one-block buffer: after a successful shrink a buffer that is still VALID belongs to a block that was not released, and if it is the block containing the new end its bytes beyond the new end are zero (otherwise the next flush writes into a released block or undoes the zeroing)",
             "FAILS on the pinned tree: finding C09_set_size_stale_buffer (native demo: lost write, another file's block overwritten, truncated bytes coming back)"],
 "native": false,
 "backend": "cadical"
}
*/
/* VERIF-UNIT
{
 "name": "file_llseek",
 "props": ["C09"],
 "level": "U",
 "tier": "quick",
 "harness": "h_llseek",
 "enforce": ["ext2fs_file_llseek"],
 "functions": ["lib/ext2fs/fileio.c:ext2fs_file_llseek", "lib/ext2fs/fileio.c:ext2fs_file_get_lsize"],
 "assumes": ["none beyond a valid ext2_file handle (magic checked by the function itself); ext2fs_file_get_lsize is exercised by the same harness"],
 "native": false,
 "backend": "cadical"
}
*/
/*
 * ext2fs_file_set_size2 — the truncate decision (C09 mechanism "truncate/punch frees exactly the blocks in range").
 * Specification (POSIX truncate over the ext2 block map, not read off the code):
 *   a file of `size` bytes occupies the logical blocks 0 .. ceil(size / blocksize) - 1;
 *   after set_size(new): i_size == new in the inode (memory and disk) on EVERY successful path;
 *   blocks ceil(new / blocksize) .. infinity are released iff ceil(new / bs) < ceil(old / bs); when the file grows or
 *   stays within its last block nothing is released; the partial last block is zeroed from the new end
 *   (ext2fs_file_zero_past_offset(new)) after the new size is in the inode;
 *   nothing below ceil(new / bs) is ever released.
 */
#include "verif.h"

struct in_ss {
	long long size;
	unsigned long long old_size;
	unsigned int ino, bs4k, badmagic;
	unsigned int toobig;
	long choice[6];
	int flags;
	unsigned long long pos, blockno, physblock;
	unsigned int z;
	unsigned char bufbyte;
	unsigned long long offset;
	int whence;
	unsigned char null_ret;
};
struct in_ss IN;
#include "verif_in.h"

unsigned long long verif_k;
unsigned int g_seq, g_ci;
unsigned int g_tb_calls, g_ss_calls, g_ss_seq, g_wi_calls, g_wi_seq, g_zp_calls, g_zp_seq, g_pu_calls, g_pu_seq, g_fl_calls, g_fl_seq;
unsigned long long g_tb_off, g_wi_size, g_wi_ino, g_zp_off, g_pu_start, g_pu_end, g_pu_isize, g_pu_ino;
const void *g_pu_inode;

/* named loop anchors of ext2fs_file_read / ext2fs_file_write (hooks-pending/fio.diff): unused by this unit */
#ifndef VERIF_INV_FILE_READ
#define VERIF_INV_FILE_READ
#endif
#ifndef VERIF_INV_FILE_WRITE
#define VERIF_INV_FILE_WRITE
#endif
#include "config.h"
#include "ext2_fs.h"
#include "ext2fs.h"

#define CHOICE() (IN.choice[(g_ci++) % 6])
#define ISIZE(i) ((unsigned long long)(i)->i_size | ((unsigned long long)(i)->i_size_high << 32))

/* ---- stubs */
int ext2fs_file_block_offset_too_big(ext2_filsys fs, struct ext2_inode *inode, blk64_t offset)
{
	g_tb_calls++; g_tb_off = offset;
	if (offset >= (1ULL << 32) - 1)
		return 1;
	return IN.toobig & 1;
}
errcode_t ext2fs_inode_size_set(ext2_filsys fs, struct ext2_inode *inode, ext2_off64_t size)
{
	if (size < 0)
		return EINVAL;
	if (CHOICE())
		return EXT2_ET_FILE_TOO_BIG;
	g_ss_calls++; g_ss_seq = ++g_seq;
	inode->i_size = size & 0xffffffff;
	inode->i_size_high = (size >> 32);
	return 0;
}
errcode_t ext2fs_write_inode(ext2_filsys fs, ext2_ino_t ino, struct ext2_inode *inode)
{
	if (CHOICE())
		return EXT2_ET_SHORT_WRITE;
	g_wi_calls++; g_wi_seq = ++g_seq; g_wi_size = ISIZE(inode); g_wi_ino = ino;
	return 0;
}
errcode_t ext2fs_punch(ext2_filsys fs, ext2_ino_t ino, struct ext2_inode *inode, char *block_buf, blk64_t start, blk64_t end)
{
	g_pu_calls++; g_pu_seq = ++g_seq; g_pu_start = start; g_pu_end = end; g_pu_ino = ino; g_pu_inode = inode;
	g_pu_isize = inode ? ISIZE(inode) : 0;
	return CHOICE() ? EXT2_ET_SHORT_WRITE : 0;
}

#define GHOSTS g_seq, g_ci, g_tb_calls, g_ss_calls, g_ss_seq, g_wi_calls, g_wi_seq, g_zp_calls, g_zp_seq, g_pu_calls, g_pu_seq, \
	g_fl_calls, g_fl_seq, g_tb_off, g_wi_size, g_wi_ino, g_zp_off, g_pu_start, g_pu_end, g_pu_isize, g_pu_ino, g_pu_inode

#ifndef BS
#define BS 1024ULL
#endif
/* number of blocks a file of s bytes occupies (the kernel's / POSIX view), for the constant block size of the call */
#define NBLK(s, bs) ((unsigned long long)(s) / (bs) + ((unsigned long long)(s) % (bs) != 0))
#define BSZ(file) ((unsigned long long)(file)->fs->blocksize)
#define NB(file, s) (BSZ(file) == 1024 ? NBLK(s, 1024ULL) : NBLK(s, 4096ULL))
#define SHRINKS(file, size, old) (NB(file, size) < NB(file, old))

unsigned long long g_old_size;	/* EXT2_I_SIZE on entry */

/* struct ext2_file is private to fileio.c: the contracts are attached to re-declarations AFTER the real file */
#include "lib/ext2fs/fileio.c"

static errcode_t ext2fs_file_zero_past_offset(ext2_file_t file, ext2_off64_t offset)
	ASSIGNS(g_seq, g_ci, g_zp_calls, g_zp_seq, g_zp_off)
	ENSURES(g_zp_calls == OLD(g_zp_calls) + 1 && g_seq == OLD(g_seq) + 1 && g_zp_seq == g_seq && g_zp_off == (unsigned long long)offset)
	ENSURES(g_ci == OLD(g_ci) + 1 && RET == (IN.choice[OLD(g_ci) % 6] ? EXT2_ET_SHORT_READ : 0));

errcode_t ext2fs_file_flush(ext2_file_t file)
	ASSIGNS(g_seq, g_ci, g_fl_calls, g_fl_seq, file->flags, file->physblock)
	ENSURES(g_fl_calls == OLD(g_fl_calls) + 1 && g_seq == OLD(g_seq) + 1 && g_fl_seq == g_seq && g_ci == OLD(g_ci) + 1)
	ENSURES(RET == (IN.choice[OLD(g_ci) % 6] ? EXT2_ET_SHORT_WRITE : 0))
	ENSURES(RET != 0 ? file->flags == OLD(file->flags) : file->flags == (OLD(file->flags) & ~EXT2_FILE_BUF_DIRTY));

errcode_t ext2fs_file_set_size2(ext2_file_t file, ext2_off64_t size)
	REQUIRES(file->fs->blocksize == 1024 || file->fs->blocksize == 4096)
	REQUIRES(file->fs->super->s_log_block_size == (file->fs->blocksize == 1024 ? 0 : 2))
	REQUIRES(g_old_size == ISIZE(&file->inode) && g_old_size <= (1ULL << 48))	/* 2^32 blocks of at most 64 KiB */
	REQUIRES(size >= 0)
	REQUIRES(g_seq == 0 && g_tb_calls == 0 && g_ss_calls == 0 && g_wi_calls == 0 && g_zp_calls == 0 && g_pu_calls == 0 && g_fl_calls == 0)
	ASSIGNS(GHOSTS; file->inode.i_size; file->inode.i_size_high; file->flags; file->physblock)
	/* not a file handle: refused, nothing done */
	ENSURES(file->magic == EXT2_ET_MAGIC_EXT2_FILE || (RET == EXT2_ET_MAGIC_EXT2_FILE && g_seq == 0))
	/* a size the mapping cannot hold (last byte's block too big): refused, nothing done */
	ENSURES(file->magic != EXT2_ET_MAGIC_EXT2_FILE || size <= 0 || !(g_tb_calls == 1 && g_tb_off == NB(file, size) - 1 &&
		(g_tb_off >= (1ULL << 32) - 1 || (IN.toobig & 1))) || (RET == EXT2_ET_FILE_TOO_BIG && g_seq == 0 && ISIZE(&file->inode) == g_old_size))
	ENSURES(file->magic != EXT2_ET_MAGIC_EXT2_FILE || size <= 0 || (g_tb_calls == 1 && g_tb_off == NB(file, size) - 1))
	/* success: the NEW size is in the in-memory inode and (for a real inode number) was written to disk */
	ENSURES(RET != 0 || (ISIZE(&file->inode) == (unsigned long long)size && g_ss_calls == 1))
	ENSURES(RET != 0 || (file->ino ? (g_wi_calls >= 1 && g_wi_size == (unsigned long long)size && g_wi_ino == file->ino && g_wi_seq > g_ss_seq) : g_wi_calls == 0))
	/* success: the partial last block is zeroed from the new end, after the size is in the inode */
	ENSURES(RET != 0 || (g_zp_calls == 1 && g_zp_off == (unsigned long long)size && g_zp_seq > g_ss_seq && (!file->ino || g_zp_seq > g_wi_seq)))
	/* success: blocks beyond the new end are released iff the new size occupies fewer blocks than the old one */
	ENSURES(RET != 0 || g_pu_calls == (SHRINKS(file, size, g_old_size) ? 1 : 0))
	/* whenever blocks are released (also if that fails half way): only when shrinking, exactly from the first block
	 * beyond the new end to the end of the map, on this inode, whose size is already the new one */
	ENSURES(g_pu_calls <= 1)
	ENSURES(g_pu_calls == 0 || (SHRINKS(file, size, g_old_size) && g_pu_start == NB(file, size) && g_pu_end == ~0ULL &&
		g_pu_ino == file->ino && g_pu_inode == (const void *)&file->inode && g_pu_isize == (unsigned long long)size &&
		g_pu_seq > g_zp_seq && g_zp_calls == 1))
#ifdef BUFFER_COHERENCE
	/* the open file's block buffer after a successful shrink: still valid => its block was not released ... */
	ENSURES(RET != 0 || (unsigned long long)size >= g_old_size || !(file->flags & EXT2_FILE_BUF_VALID) ||
		file->blockno < NB(file, size))
	/* ... and if it holds the block that contains the new end, the bytes beyond the new end are zero */
	ENSURES(RET != 0 || (unsigned long long)size >= g_old_size || !(file->flags & EXT2_FILE_BUF_VALID) ||
		file->blockno != NB(file, size) - 1 || (unsigned long long)size % BSZ(file) == 0 ||
		verif_k < (unsigned long long)size % BSZ(file) || verif_k >= BSZ(file) || file->buf[verif_k] == 0)
#endif
	;

errcode_t ext2fs_file_llseek(ext2_file_t file, __u64 offset, int whence, __u64 *ret_pos)
	ASSIGNS(file->pos; ret_pos != 0: *ret_pos)
	ENSURES(file->magic == EXT2_ET_MAGIC_EXT2_FILE || (RET == EXT2_ET_MAGIC_EXT2_FILE && file->pos == OLD(file->pos)))
	ENSURES(file->magic != EXT2_ET_MAGIC_EXT2_FILE || (whence == EXT2_SEEK_SET || whence == EXT2_SEEK_CUR || whence == EXT2_SEEK_END) ||
		(RET == EXT2_ET_INVALID_ARGUMENT && file->pos == OLD(file->pos)))
	ENSURES(RET != 0 || file->pos == (whence == EXT2_SEEK_SET ? offset : whence == EXT2_SEEK_CUR ? OLD(file->pos) + offset :
					  ISIZE(&file->inode) + offset))
	ENSURES(RET != 0 || ret_pos == 0 || *ret_pos == file->pos);

static struct struct_ext2_filsys FS;
static struct ext2_super_block SB;
static struct ext2_file F;

static void build(unsigned int bs)
{
	memset(&FS, 0, sizeof(FS));
	memset(&SB, 0, sizeof(SB));
	FS.super = &SB;
	FS.magic = EXT2_ET_MAGIC_EXT2FS_FILSYS;
	FS.blocksize = bs;
	SB.s_log_block_size = bs == 1024 ? 0 : 2;
	memset(&F, 0, sizeof(F));
	F.magic = IN.badmagic ? 0 : EXT2_ET_MAGIC_EXT2_FILE;
	F.fs = &FS;
	F.ino = IN.ino;
	F.inode.i_size = IN.old_size & 0xffffffff;
	F.inode.i_size_high = IN.old_size >> 32;
	F.flags = IN.flags;
	F.pos = IN.pos;
	F.blockno = IN.blockno;
	F.physblock = IN.physblock;
	g_old_size = IN.old_size;
	ASSUME(IN.old_size <= (1ULL << 48));
	ASSUME(IN.size >= 0);
	g_seq = g_ci = g_tb_calls = g_ss_calls = g_wi_calls = g_zp_calls = g_pu_calls = g_fl_calls = 0;
}

static void set_size_body(unsigned int bs)
{
	build(bs);
	char *buf = malloc(3 * bs);
	ASSUME(buf != 0);
	F.buf = buf;
	verif_k = IN.z;
	ASSUME(verif_k < bs);
	buf[verif_k] = IN.bufbyte;

	errcode_t r = ext2fs_file_set_size2((ext2_file_t)&F, IN.size);

	unsigned long long nb_new = NBLK(IN.size, (unsigned long long)bs), nb_old = NBLK(IN.old_size, (unsigned long long)bs);
	if (r == 0) {
		CHECK(IN.size >= 0 && ISIZE(&F.inode) == (unsigned long long)IN.size, "new size in the in-memory inode");
		CHECK(!IN.ino || (g_wi_calls >= 1 && g_wi_size == (unsigned long long)IN.size), "new size written to the inode on disk on every successful path");
		CHECK(g_pu_calls == (nb_new < nb_old ? 1 : 0), "blocks released iff the new size occupies fewer blocks");
		if (g_pu_calls)
			CHECK(g_pu_start == nb_new && g_pu_end == ~0ULL, "released: exactly the blocks beyond the new end");
		/* canaries describe the inputs, not the answer */
		if (nb_new < nb_old) REACH("shrink by whole blocks");
		else if ((unsigned long long)IN.size >= IN.old_size) REACH("grow or same size");
		else REACH("shrink inside the last block");
		if (IN.ino == 0) REACH("inode number 0: no inode write");
#ifdef BUFFER_COHERENCE
		if ((unsigned long long)IN.size < IN.old_size && (F.flags & EXT2_FILE_BUF_VALID))
			CHECK(F.blockno < nb_new, "a buffer that stays valid does not belong to a released block");
		if ((unsigned long long)IN.size < IN.old_size && (IN.flags & EXT2_FILE_BUF_VALID) && IN.blockno >= nb_new)
			REACH("shrink with a valid buffer of a released block on entry");
#endif
	} else {
		CHECK(g_pu_calls == 0 || (nb_new < nb_old && g_pu_start == nb_new), "failure: still never releases blocks below the new end");
		REACH("failure");
	}
	REACH("end");
}

void h_set_size2(void)
{
	LOAD_IN();
	if (IN.bs4k) set_size_body(4096); else set_size_body(1024);
}
void h_set_size2_buffer(void) { h_set_size2(); }

void h_llseek(void)
{
	LOAD_IN();
	build(1024);
	__u64 out = 0, pos0 = F.pos;
	errcode_t r = ext2fs_file_llseek((ext2_file_t)&F, IN.offset, IN.whence, IN.null_ret ? 0 : &out);
	if (r == 0) {
		CHECK(F.pos == (IN.whence == EXT2_SEEK_SET ? IN.offset : IN.whence == EXT2_SEEK_CUR ? pos0 + IN.offset : IN.old_size + IN.offset),
		      "position: absolute, relative to the position, or relative to i_size");
		CHECK(IN.null_ret || out == F.pos, "new position reported");
		REACH("seek ok");
	} else {
		CHECK(F.pos == pos0, "refused: position unchanged");
		REACH("seek refused");
	}
	__u64 sz = 0;
	errcode_t r2 = ext2fs_file_get_lsize((ext2_file_t)&F, &sz);
	CHECK(IN.badmagic ? r2 == EXT2_ET_MAGIC_EXT2_FILE : (r2 == 0 && sz == IN.old_size), "get_lsize reports the 64-bit i_size");
	REACH("end");
}
