/* VERIF-UNIT
{
 "name": "file_read",
 "props": ["C09"],
 "level": "U",
 "tier": "quick",
 "harness": "h_file_read",
 "enforce": ["ext2fs_file_read"],
 "replace": ["sync_buffer_position", "load_buffer"],
 "loop_contracts": true,
 "functions": ["lib/ext2fs/fileio.c:ext2fs_file_read"],
 "assumes": ["blocksize 1024 (the loop divides by fs->blocksize); not an inline-data file (units inline_read*)",
             "sync_buffer_position and load_buffer replaced by the contracts of file_proto.h (proved by units buffer_sync / buffer_load): the buffer is coherent on entry (VALID for block G / bs => it holds the file's byte g_byte at G % bs; DIRTY => VALID), sync moves to block pos / bs, load_buffer leaves a valid buffer alone and otherwise fills it with the block's current content — pointwise for one ghost file offset G; both may fail",
             "libc memcpy modelled in the unit: source readable / destination writable for n bytes ASSERTED at every call (this is 'every memcpy stays inside file->buf and inside the caller's buffer'), faithful copy at the one tracked output byte",
             "caller's buffer has exactly `wanted` bytes, wanted <= 4096 (cap on the symbolic object size)",
             "the loop is closed by the in-place loop contract VERIF_INV_FILE_READ (hooks-pending/fio.diff)"],
 "native": false,
 "backend": "cadical"
}
*/
/*
 * ext2fs_file_read: "reading a file returns exactly the bytes most recently written at each offset below its size ...
 * and exactly size bytes in total" (C09), for block/extent mapped files, given the handle's one-block buffer protocol.
 *   got == min(wanted, i_size - pos) (0 at or beyond EOF); pos advances by got; output byte j is the file's byte pos+j;
 *   on an error the bytes already delivered are correct and counted.
 */
#include "verif.h"

#define BS 1024ULL
struct in_rw {
	unsigned long long pos, isize, blockno, physblock, G;
	unsigned int wanted;
	int flags;
	unsigned char byte, bufbyte, null_got, badmagic;
	long choice[6];
};
struct in_rw IN;
#include "verif_in.h"

unsigned long long verif_k;
unsigned long long g_G, g_pos0;		/* ghost file offset, position on entry */
unsigned char g_byte;			/* the file's byte at offset g_G */
unsigned char *g_out;			/* the caller's buffer; byte g_G of the file must land at g_out[g_G - g_pos0] */
#define TOFF (g_G - g_pos0)
unsigned int g_ci, g_sync_calls, g_load_calls, g_mc_calls, g_mc_bad;
unsigned long long g_wanted0;

#include "config.h"
#include "ext2_fs.h"
#include "ext2fs.h"

#ifndef VERIF_INV_FILE_WRITE
#define VERIF_INV_FILE_WRITE
#endif
#define ISIZE(file) EXT2_I_SIZE(&(file)->inode)
#define LE(x) __CPROVER_loop_entry(x)
struct blk1k { unsigned char b[1024]; };
#define EARLY_COHERENT(file) (!(((file)->flags & EXT2_FILE_BUF_VALID) && (file)->blockno == g_G / BS) || (unsigned char)(file)->buf[g_G % BS] == g_byte)
/* in-place loop contract of ext2fs_file_read's block loop */
#define VERIF_INV_FILE_READ \
	__CPROVER_assigns(retval, start, c, left, ptr, count, wanted, file->pos, file->blockno, file->flags, file->physblock, \
			  g_ci, g_sync_calls, g_load_calls, g_mc_calls, g_mc_bad, *(struct blk1k *)file->buf, __CPROVER_object_whole(buf)) \
	__CPROVER_loop_invariant(count <= LE(wanted) && wanted == LE(wanted) - count) \
	__CPROVER_loop_invariant(file->pos == LE(file->pos) + count && ptr == (char *)buf + count) \
	__CPROVER_loop_invariant(count == 0 || file->pos <= ISIZE(file)) \
	__CPROVER_loop_invariant(g_mc_bad == 0) \
	__CPROVER_loop_invariant(EARLY_COHERENT(file) && (!(file->flags & EXT2_FILE_BUF_DIRTY) || (file->flags & EXT2_FILE_BUF_VALID))) \
	/* every file byte delivered so far is in its place */ \
	__CPROVER_loop_invariant(!(g_G >= LE(file->pos) && g_G < file->pos) || g_out[TOFF] == g_byte) \
	__CPROVER_decreases(wanted)

/* libc memcpy: bounds asserted, faithful at the tracked output byte */
void *memcpy(void *dst, const void *src, size_t n)
{
	g_mc_calls++;
	__CPROVER_assert(__CPROVER_r_ok(src, n), "CHECK:memcpy source readable");
	__CPROVER_assert(__CPROVER_w_ok(dst, n), "CHECK:memcpy destination writable");
	if (!(__CPROVER_r_ok(src, n) && __CPROVER_w_ok(dst, n))) { g_mc_bad = 1; return dst; }
	if (n > 0 && __CPROVER_same_object(g_out, dst) && g_G >= g_pos0) {
		unsigned long long d = __CPROVER_POINTER_OFFSET(dst) - __CPROVER_POINTER_OFFSET(g_out);
		if (TOFF >= d && TOFF - d < n)
			g_out[TOFF] = ((const unsigned char *)src)[TOFF - d];
	}
	return dst;
}

#include "lib/ext2fs/fileio.c"

#include "file_proto.h"

errcode_t ext2fs_file_read(ext2_file_t file, void *buf, unsigned int wanted, unsigned int *got)
	REQUIRES(file->fs->blocksize == BS && !(file->inode.i_flags & EXT4_INLINE_DATA_FL))
	REQUIRES(g_pos0 == file->pos && g_wanted0 == wanted && g_out == (unsigned char *)buf && g_mc_bad == 0)
	REQUIRES(ISIZE(file) <= (1ULL << 48) && file->pos <= (1ULL << 48))
	REQUIRES(COHERENT(file) && DIRTY_IMPLIES_VALID(file))
	ASSIGNS(file->pos, file->blockno, file->flags, file->physblock, g_ci, g_sync_calls, g_load_calls, g_mc_calls, g_mc_bad;
		*(struct blk1k *)file->buf; __CPROVER_object_whole(buf); got != 0: *got)
#define NEXP(file) (g_pos0 < ISIZE(file) ? (ISIZE(file) - g_pos0 < g_wanted0 ? ISIZE(file) - g_pos0 : g_wanted0) : 0ULL)
	ENSURES(file->magic == EXT2_ET_MAGIC_EXT2_FILE || (RET == EXT2_ET_MAGIC_EXT2_FILE && file->pos == g_pos0))
	/* exactly min(wanted, size - pos) bytes, the position advances by as much */
	ENSURES(RET != 0 || (file->pos == g_pos0 + NEXP(file) && (got == 0 || *got == NEXP(file))))
	/* on failure: what was delivered is counted and the position is right behind it */
	ENSURES(RET == 0 || file->magic != EXT2_ET_MAGIC_EXT2_FILE || (file->pos - g_pos0 <= NEXP(file) && (got == 0 || *got == file->pos - g_pos0)))
	/* every delivered byte is the file's byte at that offset */
	ENSURES(file->magic != EXT2_ET_MAGIC_EXT2_FILE || !(g_G >= g_pos0 && g_G < file->pos) || g_out[TOFF] == g_byte)
	ENSURES(g_mc_bad == 0 && (file->magic != EXT2_ET_MAGIC_EXT2_FILE || (COHERENT(file) && DIRTY_IMPLIES_VALID(file))));

static struct struct_ext2_filsys FS;
static struct ext2_super_block SB;
static struct ext2_file F;

void h_file_read(void)
{
	LOAD_IN();
	memset(&FS, 0, sizeof(FS)); memset(&SB, 0, sizeof(SB)); memset(&F, 0, sizeof(F));
	FS.super = &SB; FS.magic = EXT2_ET_MAGIC_EXT2FS_FILSYS; FS.blocksize = 1024;
	F.magic = IN.badmagic ? 0 : EXT2_ET_MAGIC_EXT2_FILE;
	F.fs = &FS; F.ino = 12; F.flags = IN.flags; F.pos = IN.pos; F.blockno = IN.blockno; F.physblock = IN.physblock;
	F.inode.i_size = IN.isize & 0xffffffff; F.inode.i_size_high = IN.isize >> 32;
	ASSUME(IN.isize <= (1ULL << 48) && IN.pos <= (1ULL << 48) && IN.wanted <= 4096);
	F.buf = malloc(3 * 1024); ASSUME(F.buf != 0);
	unsigned char *out = malloc(IN.wanted); ASSUME(out != 0);
	g_G = IN.G; g_byte = IN.byte; g_pos0 = IN.pos; g_wanted0 = IN.wanted;
	g_out = out;
	g_ci = g_sync_calls = g_load_calls = g_mc_calls = g_mc_bad = 0;
	F.buf[g_G % BS] = IN.bufbyte;
	ASSUME(COHERENT(&F) && DIRTY_IMPLIES_VALID(&F));
	unsigned int got = 7777;

	errcode_t r = ext2fs_file_read((ext2_file_t)&F, out, IN.wanted, IN.null_got ? 0 : &got);

	unsigned long long nexp = IN.pos < IN.isize ? (IN.isize - IN.pos < IN.wanted ? IN.isize - IN.pos : IN.wanted) : 0;
	if (!IN.badmagic) {
		if (r == 0) {
			CHECK(F.pos == IN.pos + nexp && (IN.null_got || got == nexp), "exactly min(wanted, size - pos) bytes");
			if (nexp == 0) REACH("at or beyond EOF");
			if (nexp && nexp < IN.wanted) REACH("short read at EOF");
			if (nexp > 1024) REACH("more than one block");
		} else {
			CHECK(F.pos - IN.pos <= nexp && (IN.null_got || got == F.pos - IN.pos), "failure: delivered bytes counted");
			REACH("failure");
		}
		if (IN.G >= IN.pos && IN.G < F.pos) {
			CHECK(out[IN.G - IN.pos] == IN.byte, "delivered byte is the file's byte at that offset");
			REACH("ghost byte delivered");
		}
	}
	CHECK(g_mc_bad == 0, "memcpy stays inside the buffers");
	REACH("end");
}
