/*
 * The one-block buffer protocol of an open ext2_file_t, shared by the file_read / file_write units (which ASSUME these
 * contracts for sync_buffer_position and load_buffer) and the buffer_* units (which PROVE them).  Include after
 * lib/ext2fs/fileio.c (struct ext2_file is private to it).
 *
 * Ghost view, pointwise for one file offset g_G:
 *   g_byte   the file's content at g_G as seen through the handle (the buffer when it holds block g_G / bs, else the disk)
 *   g_disk   the byte on disk at g_G (physical block g_P of logical block g_G / bs; a hole, g_P == 0, reads as zero)
 *   COHERENT the buffer, when VALID for block g_G / bs, holds g_byte at g_G % bs; when it is not, the disk does
 */
#ifndef FILE_PROTO_H
#define FILE_PROTO_H
#define PROTO_BS 1024ULL
#define HOLDS(file) (((file)->flags & EXT2_FILE_BUF_VALID) && (file)->blockno == g_G / PROTO_BS)
#define COHERENT(file) (!HOLDS(file) || (unsigned char)(file)->buf[g_G % PROTO_BS] == g_byte)
#define DIRTY_IMPLIES_VALID(file) (!((file)->flags & EXT2_FILE_BUF_DIRTY) || ((file)->flags & EXT2_FILE_BUF_VALID))
#define PROTO_CH(i) (IN.choice[(i) % 6])
struct proto_blk1k { unsigned char b[1024]; };
/* logging ghosts of the unit that PROVES the contracts (empty for the units that use them) */
#ifndef PROTO_EXTRA_GHOSTS
#define PROTO_EXTRA_GHOSTS g_ci
#endif

static errcode_t sync_buffer_position(ext2_file_t file)
	REQUIRES(file->fs->blocksize == PROTO_BS && COHERENT(file) && DIRTY_IMPLIES_VALID(file))
	ASSIGNS(file->blockno, file->flags, file->physblock, g_ci, PROTO_EXTRA_GHOSTS)
	ENSURES(g_ci >= OLD(g_ci) && g_ci <= OLD(g_ci) + 1)
	ENSURES(RET != 0 || file->blockno == file->pos / PROTO_BS)
	/* same block: nothing changes; another block: flushed (content kept) and the buffer no longer valid */
	ENSURES(RET != 0 || (OLD(file->blockno) == file->pos / PROTO_BS ? (file->flags == OLD(file->flags) && file->physblock == OLD(file->physblock)) :
			     file->flags == (OLD(file->flags) & ~(EXT2_FILE_BUF_VALID | EXT2_FILE_BUF_DIRTY))))
	ENSURES(RET == 0 || (file->blockno == OLD(file->blockno) && file->flags == OLD(file->flags) && file->physblock == OLD(file->physblock)));

static errcode_t load_buffer(ext2_file_t file, int dontfill)
	REQUIRES(file->fs->blocksize == PROTO_BS && COHERENT(file))
	ASSIGNS(file->flags, file->physblock, g_ci, PROTO_EXTRA_GHOSTS; *(struct proto_blk1k *)file->buf)
	ENSURES(g_ci >= OLD(g_ci) && g_ci <= OLD(g_ci) + 2)
	ENSURES(RET != 0 || file->flags == (OLD(file->flags) | EXT2_FILE_BUF_VALID))
	ENSURES(RET == 0 || file->flags == OLD(file->flags))
	/* a valid buffer is left alone; otherwise the block is looked up and (unless dontfill) read */
	ENSURES(!(OLD(file->flags) & EXT2_FILE_BUF_VALID) || (file->physblock == OLD(file->physblock) &&
		(unsigned char)file->buf[g_G % PROTO_BS] == OLD((unsigned char)file->buf[g_G % PROTO_BS])))
	ENSURES(RET != 0 || (OLD(file->flags) & EXT2_FILE_BUF_VALID) || dontfill || file->blockno != g_G / PROTO_BS ||
		(unsigned char)file->buf[g_G % PROTO_BS] == g_byte);
#endif
