/* VERIF-UNIT
{
 "name": "file_write",
 "props": ["C09"],
 "level": "U",
 "tier": "quick",
 "harness": "h_file_write",
 "enforce": ["ext2fs_file_write"],
 "replace": ["sync_buffer_position", "load_buffer", "ext2fs_file_set_size2"],
 "loop_contracts": true,
 "functions": ["lib/ext2fs/fileio.c:ext2fs_file_write"],
 "assumes": ["blocksize 1024; not an inline-data file; EXT2_FLAG_SHARE_DUP off (the deduplicating write path is not covered)",
             "the file's content is seen THROUGH THE HANDLE: ghost offset G has content g_byte; the one-block buffer is coherent on entry (VALID and blockno == G / bs  =>  buf[G % bs] == g_byte)",
             "sync_buffer_position / load_buffer replaced by the contracts of file_proto.h (proved by units buffer_sync / buffer_load): sync sets blockno = pos / bs, drops VALID when the block changes and (by flushing) keeps the content; load_buffer sets VALID, leaves a valid buffer alone, otherwise looks the physical block up and (unless dontfill) fills the buffer with the block's current content",
             "ext2fs_file_set_size2 replaced by the part of its contract used here (success => i_size == size; unit file_set_size2); ext2fs_bmap2 is a stub (BMAP_ALLOC yields a non-zero block or fails)",
             "libc memcpy modelled in the unit: bounds ASSERTED at every call, faithful at the tracked buffer byte",
             "caller's buffer has exactly nbytes bytes, nbytes <= 4096",
             "the loop is closed by the in-place loop contract VERIF_INV_FILE_WRITE (hooks-pending/fio.diff)"],
 "native": false,
 "backend": "cadical"
}
*/
/*
 * ext2fs_file_write for block/extent mapped files, given the handle's one-block buffer protocol (C09: "reading a file
 * returns exactly the bytes most recently written at each offset"):
 *   success: written == nbytes, pos advances by nbytes, every byte of [pos, pos+nbytes) now has the caller's value
 *   (seen through the handle), every other byte of the file keeps its value, every block written has a physical block,
 *   i_size >= the new position; failure: the bytes counted in *written have the caller's values, nothing outside
 *   [pos, pos+nbytes) changed.
 */
#include "verif.h"

#define BS 1024ULL
struct in_fw {
	unsigned long long pos, isize, blockno, physblock, G, newblk;
	unsigned int nbytes, ino;
	int flags, fsflags;
	unsigned char byte, srcbyte, bufbyte, null_written, badmagic;
	long choice[6];
};
struct in_fw IN;
#include "verif_in.h"

unsigned long long verif_k;
unsigned long long g_G, g_pos0, g_nbytes0;
unsigned char g_byte, g_byte0;		/* content of file offset g_G as seen through the handle: now / on entry */
const unsigned char *g_src;		/* the caller's buffer */
struct ext2_file;
unsigned int g_ci, g_mc_bad, g_bmap_calls, g_ss_calls;
unsigned long long g_bmap_blk, g_ss_size;
int g_bmap_flags;

#include "config.h"
#include "ext2_fs.h"
#include "ext2fs.h"

#ifndef VERIF_INV_FILE_READ
#define VERIF_INV_FILE_READ
#endif
#define ISIZE(file) EXT2_I_SIZE(&(file)->inode)
#define LE(x) __CPROVER_loop_entry(x)
struct blk1k { unsigned char b[1024]; };
#define INRANGE(lo, hi) (g_G >= (lo) && g_G < (hi))
#define SRCBYTE (g_src[g_G - g_pos0])
/* COHERENT (file_proto.h): the buffer agrees with the file's content at the ghost offset; the invariant text needs it
 * before the real file is included */
#define EARLY_COHERENT(file) (!(((file)->flags & EXT2_FILE_BUF_VALID) && (file)->blockno == g_G / BS) || (unsigned char)(file)->buf[g_G % BS] == g_byte)

/* the block that received the last byte is the buffered one, valid, DIRTY, and has a physical block (real inodes) */
#define LASTBLK_OK(file) ((file)->blockno == ((file)->pos - 1) / BS && ((file)->flags & EXT2_FILE_BUF_VALID) && \
	((file)->flags & EXT2_FILE_BUF_DIRTY) && ((file)->physblock != 0 || (file)->ino == 0))
#define VERIF_INV_FILE_WRITE \
	__CPROVER_assigns(retval, start, c, ptr, count, nbytes, bmap_flags, new_block, old_block, file->pos, file->blockno, file->flags, file->physblock, \
			  g_ci, g_mc_bad, g_bmap_calls, g_bmap_blk, g_bmap_flags, g_byte, *(struct blk1k *)file->buf) \
	__CPROVER_loop_invariant(count <= LE(nbytes) && nbytes == LE(nbytes) - count) \
	__CPROVER_loop_invariant(file->pos == LE(file->pos) + count && ptr == (const char *)buf + count) \
	__CPROVER_loop_invariant(g_mc_bad == 0 && new_block == 0 && old_block == 0) \
	/* bytes written so far have the caller's value, all others their old one */ \
	__CPROVER_loop_invariant(INRANGE(LE(file->pos), file->pos) ? g_byte == SRCBYTE : g_byte == g_byte0) \
	__CPROVER_loop_invariant(EARLY_COHERENT(file) && (!(file->flags & EXT2_FILE_BUF_DIRTY) || (file->flags & EXT2_FILE_BUF_VALID))) \
	/* a block that received data has a physical block */ \
	__CPROVER_loop_invariant(count == 0 || LASTBLK_OK(file)) \
	__CPROVER_decreases(nbytes)

struct ext2_file *g_file;
/* libc memcpy: bounds asserted; the tracked byte is the buffer byte of the ghost offset (when its block is buffered) */
void *memcpy(void *dst, const void *src, size_t n);

#include "lib/ext2fs/fileio.c"

void *memcpy(void *dst, const void *src, size_t n)
{
	__CPROVER_assert(__CPROVER_r_ok(src, n), "CHECK:memcpy source readable");
	__CPROVER_assert(__CPROVER_w_ok(dst, n), "CHECK:memcpy destination writable");
	if (!(__CPROVER_r_ok(src, n) && __CPROVER_w_ok(dst, n))) { g_mc_bad = 1; return dst; }
	if (n > 0 && __CPROVER_same_object(g_file->buf, dst) && g_file->blockno == g_G / BS) {
		unsigned long long d = __CPROVER_POINTER_OFFSET(dst) - __CPROVER_POINTER_OFFSET(g_file->buf);
		if (g_G % BS >= d && g_G % BS - d < n) {
			g_file->buf[g_G % BS] = ((const char *)src)[g_G % BS - d];
			g_byte = (unsigned char)g_file->buf[g_G % BS];		/* the buffer is the file's content for its block */
		}
	}
	return dst;
}
errcode_t ext2fs_bmap2(ext2_filsys fs, ext2_ino_t ino, struct ext2_inode *inode, char *block_buf, int bmap_flags, blk64_t block,
		       int *ret_flags, blk64_t *phys_blk)
{
	g_bmap_calls++; g_bmap_blk = block; g_bmap_flags = bmap_flags;
	if (IN.choice[(g_ci++) % 6])
		return EXT2_ET_BLOCK_ALLOC_FAIL;
	*phys_blk = (bmap_flags & BMAP_ALLOC) ? IN.newblk : 0;
	return 0;
}

#define CH(i) (IN.choice[(i) % 6])
#include "file_proto.h"

errcode_t ext2fs_file_set_size2(ext2_file_t file, ext2_off64_t size)
	ASSIGNS(file->inode.i_size, file->inode.i_size_high, g_ci, g_ss_calls, g_ss_size)
	ENSURES(g_ci == OLD(g_ci) + 1 && g_ss_calls == OLD(g_ss_calls) + 1 && g_ss_size == (unsigned long long)size)
	ENSURES(RET == (CH(OLD(g_ci)) ? EXT2_ET_SHORT_WRITE : 0) && (RET != 0 || ISIZE(file) == (unsigned long long)size));

errcode_t ext2fs_file_write(ext2_file_t file, const void *buf, unsigned int nbytes, unsigned int *written)
	REQUIRES(file->fs->blocksize == BS && !(file->inode.i_flags & EXT4_INLINE_DATA_FL) && !(file->fs->flags & EXT2_FLAG_SHARE_DUP))
	REQUIRES(g_pos0 == file->pos && g_nbytes0 == nbytes && g_src == (const unsigned char *)buf && g_file == file && g_byte0 == g_byte && g_mc_bad == 0)
	REQUIRES(g_ss_calls == 0 && COHERENT(file) && DIRTY_IMPLIES_VALID(file))
	REQUIRES(ISIZE(file) <= (1ULL << 48) && file->pos <= (1ULL << 48))
	ASSIGNS(file->pos, file->blockno, file->flags, file->physblock, file->inode.i_size, file->inode.i_size_high,
		g_ci, g_mc_bad, g_bmap_calls, g_bmap_blk, g_bmap_flags, g_byte, g_ss_calls, g_ss_size;
		*(struct blk1k *)file->buf; written != 0: *written)
	/* refused: not a handle, or opened read-only — nothing changes */
	ENSURES((file->magic == EXT2_ET_MAGIC_EXT2_FILE && (OLD(file->flags) & EXT2_FILE_WRITE)) ||
		(RET != 0 && file->pos == g_pos0 && g_byte == g_byte0))
	/* success: everything written, position right behind it */
	ENSURES(RET != 0 || (file->pos == g_pos0 + g_nbytes0 && (written == 0 || *written == g_nbytes0)))
	/* always: the count reported is the distance the position moved, at most nbytes */
	ENSURES(file->pos - g_pos0 <= g_nbytes0 && (written == 0 || file->magic != EXT2_ET_MAGIC_EXT2_FILE || !(OLD(file->flags) & EXT2_FILE_WRITE) ||
		*written == file->pos - g_pos0))
	/* bytes counted as written have the caller's value; bytes outside [pos, pos + nbytes) keep theirs */
	ENSURES(!INRANGE(g_pos0, file->pos) || g_byte == SRCBYTE)
	ENSURES(INRANGE(g_pos0, g_pos0 + g_nbytes0) || g_byte == g_byte0)
	ENSURES(COHERENT(file) && g_mc_bad == 0)
	ENSURES(file->magic != EXT2_ET_MAGIC_EXT2_FILE || DIRTY_IMPLIES_VALID(file))
	/* the last block written sits in the buffer, marked dirty, with a physical block behind it */
	ENSURES(RET != 0 || file->pos == g_pos0 || LASTBLK_OK(file))
	/* the file is at least as long as the new position (or the size update failed and says so) */
	ENSURES(RET != 0 || file->pos == g_pos0 || ISIZE(file) >= file->pos)
	ENSURES(g_ss_calls <= 1 && (g_ss_calls == 0 || g_ss_size == file->pos));

static struct struct_ext2_filsys FS;
static struct ext2_super_block SB;
static struct ext2_file F;

void h_file_write(void)
{
	LOAD_IN();
	memset(&FS, 0, sizeof(FS)); memset(&SB, 0, sizeof(SB)); memset(&F, 0, sizeof(F));
	FS.super = &SB; FS.magic = EXT2_ET_MAGIC_EXT2FS_FILSYS; FS.blocksize = 1024;
	FS.flags = IN.fsflags & ~EXT2_FLAG_SHARE_DUP;
	F.magic = IN.badmagic ? 0 : EXT2_ET_MAGIC_EXT2_FILE;
	F.fs = &FS; F.ino = IN.ino; F.flags = IN.flags; F.pos = IN.pos; F.blockno = IN.blockno; F.physblock = IN.physblock;
	F.inode.i_size = IN.isize & 0xffffffff; F.inode.i_size_high = IN.isize >> 32;
	ASSUME(IN.isize <= (1ULL << 48) && IN.pos <= (1ULL << 48) && IN.nbytes <= 4096 && IN.newblk != 0);
	F.buf = malloc(3 * 1024); ASSUME(F.buf != 0);
	unsigned char *src = malloc(IN.nbytes); ASSUME(src != 0);
	g_G = IN.G; g_byte = g_byte0 = IN.byte; g_pos0 = IN.pos; g_nbytes0 = IN.nbytes; g_src = src; g_file = &F;
	if (g_G >= g_pos0 && g_G < g_pos0 + g_nbytes0) src[g_G - g_pos0] = IN.srcbyte;
	F.buf[g_G % BS] = IN.bufbyte;
	ASSUME(COHERENT(&F) && DIRTY_IMPLIES_VALID(&F));
	g_ci = g_mc_bad = g_bmap_calls = g_ss_calls = 0;
	unsigned int written = 7777;

	errcode_t r = ext2fs_file_write((ext2_file_t)&F, src, IN.nbytes, IN.null_written ? 0 : &written);

	if (!IN.badmagic && (IN.flags & EXT2_FILE_WRITE)) {
		if (r == 0) {
			CHECK(F.pos == IN.pos + IN.nbytes && (IN.null_written || written == IN.nbytes), "everything written, position advanced by nbytes");
			CHECK(IN.nbytes == 0 || ISIZE(&F) >= F.pos, "file at least as long as the new position");
			if (IN.nbytes > 1024) REACH("more than one block");
			if (IN.nbytes && (IN.pos % BS)) REACH("unaligned start");
			if (IN.nbytes && IN.isize < IN.pos) REACH("write beyond EOF");
		} else
			REACH("failure");
		if (g_G >= IN.pos && g_G < F.pos) { CHECK(g_byte == IN.srcbyte, "written byte has the caller's value"); REACH("ghost byte written"); }
		if (!(g_G >= IN.pos && g_G < IN.pos + IN.nbytes)) { CHECK(g_byte == IN.byte, "bytes outside the written range keep their value"); REACH("ghost byte outside"); }
	} else {
		CHECK(r != 0 && F.pos == IN.pos && g_byte == IN.byte, "refused: nothing changes");
		REACH("refused");
	}
	CHECK(g_mc_bad == 0, "memcpy stays inside the buffers");
	REACH("end");
}
