/* VERIF-UNIT
{
 "name": "block_ind_bmap",
 "props": ["C09"],
 "level": "U",
 "tier": "quick",
 "harness": "h_ind",
 "enforce": ["block_ind_bmap"],
 "functions": ["lib/ext2fs/bmap.c:block_ind_bmap"],
 "assumes": ["blocksize 1024 (256 slots per indirect block), nr < 256, little-endian host (WORDS_BIGENDIAN off, as built)",
             "the io manager's read_blk / write_blk and ext2fs_alloc_block are stubs over a ghost disk: three arbitrary distinct non-zero (block, slot) pairs with their current values (bmap_ind.c); other words of a block read as arbitrary values; each stub may fail"],
 "native": false,
 "backend": "cadical"
}
*/
/* VERIF-UNIT
{
 "name": "block_dind_bmap",
 "props": ["C09"],
 "level": "U",
 "tier": "quick",
 "harness": "h_dind",
 "enforce": ["block_dind_bmap"],
 "replace": ["block_ind_bmap"],
 "functions": ["lib/ext2fs/bmap.c:block_dind_bmap"],
 "assumes": ["blocksize 1024, nr < 256^2; block_ind_bmap replaced by its contract (unit block_ind_bmap)",
             "ghost path: slot K1 of the double-indirect block B1, slot K0 of the indirect block B0"],
 "native": false,
 "backend": "cadical"
}
*/
/* VERIF-UNIT
{
 "name": "block_tind_bmap",
 "props": ["C09"],
 "level": "U",
 "tier": "quick",
 "harness": "h_tind",
 "enforce": ["block_tind_bmap"],
 "replace": ["block_ind_bmap", "block_dind_bmap"],
 "functions": ["lib/ext2fs/bmap.c:block_tind_bmap"],
 "assumes": ["blocksize 1024, nr < 256^3; block_ind_bmap and block_dind_bmap replaced by their contracts"],
 "native": false,
 "backend": "cadical"
}
*/
/* VERIF-UNIT
{
 "name": "bmap2_ind_dispatch",
 "props": ["C09"],
 "level": "U",
 "tier": "quick",
 "harness": "h_bmap2",
 "enforce": ["ext2fs_bmap2"],
 "replace": ["block_ind_bmap", "block_dind_bmap", "block_tind_bmap", "extent_bmap"],
 "functions": ["lib/ext2fs/bmap.c:ext2fs_bmap2"],
 "assumes": ["blocksize 1024; block-mapped inode (no EXTENTS_FL, no INLINE_DATA_FL) given by the caller (inode != NULL), caller's block_buf of 2 blocks or NULL",
             "block_ind/dind/tind_bmap replaced by their contracts; ext2fs_alloc_block3, ext2fs_find_inode_goal, ext2fs_file_block_offset_too_big (real, same file), ext2fs_iblk_add_blocks, ext2fs_write_inode, ext2fs_zero_blocks2 are stubs / real as listed in the unit",
             "statement: WHICH slot is consulted for logical block n (tree root in i_block and relative index), per the ext2 map 12 / 256 / 256^2 / 256^3; lookups and BMAP_SET; for BMAP_ALLOC additionally that a missing tree root is allocated, stored in i_block and i_blocks is charged"],
 "native": false,
 "backend": "cadical"
}
*/
/*
 * The classic ext2 block map as ext2fs_bmap2 walks it (C09 mechanism "logical-to-physical mapping with on-demand
 * allocation").  Specification: specs/c09_ind_spec.h (from the on-disk format): logical block n is
 *   i_block[n]                                              n < 12
 *   slot (n-12) of block i_block[12]                        n-12 < 256
 *   slot (m & 255) of block [slot (m >> 8) of i_block[13]]  m = n-12-256 < 256^2
 *   slot (m & 255) of [slot ((m>>8) & 255) of [slot (m >> 16) of i_block[14]]]   m = n-12-256-256^2 < 256^3
 *
 * Ghost disk: three (block, slot, value) triples gB/gK/gV[0..2]; reading block gBj yields gVj in slot gKj, writing
 * it records the slot.  For the double/triple units the triples form a path: gV1 is the number of block B0, gV2 of B1.
 */
#include "verif.h"
#include "c09_ind_spec.h"

struct in_bm {
	unsigned int B[3], K[3], V[3];
	unsigned int ind, nr, retblk, newblk[2];
	int flags, blocks_alloc;
	long choice[8];
	unsigned int iblock[15];
	unsigned long long block;
	unsigned long long alloc3;
	unsigned int goal;
	unsigned char have_buf, toobig;
};
struct in_bm IN;
#include "verif_in.h"

unsigned long long verif_k;
unsigned int gB0, gB1, gB2, gK0, gK1, gK2, gV0, gV1, gV2;
unsigned int g_ci, g_ni, g_rd_calls, g_wr_calls, g_al_calls, g_rd_blk, g_wr_blk, g_al_goal;

#include "config.h"
#include "ext2_fs.h"
#include "ext2fs.h"

#define GHOSTBLK(b) ((b) == gB0 || (b) == gB1 || (b) == gB2)
struct blk1k { unsigned int w[C09_APB]; };
struct blk2k { unsigned int w[2 * C09_APB]; };
struct blk12 { unsigned int w[12]; };
#define CHOICE() (IN.choice[(g_ci++) & 7])

/* ---- ghost disk */
static errcode_t st_read_blk(io_channel channel, unsigned long block, int count, void *data)
{
	struct blk1k nd;
	unsigned int *w = (unsigned int *)data;
	g_rd_calls++; g_rd_blk = block;
	if (CHOICE())
		return EXT2_ET_SHORT_READ;
	/* environment: no multiply-referenced / cyclic indirect blocks — no slot refers to a block of the ghost path except
	 * the ghost slots themselves (set below) */
	/* stated for the one slot this unit's call consults (weaker than "every slot"): it holds an arbitrary non-ghost value */
	nd.w[IN.nr & 255] = IN.goal;
	*(struct blk1k *)data = nd;
	if (block == gB0) w[gK0] = gV0;
	else if (block == gB1) w[gK1] = gV1;
	else if (block == gB2) w[gK2] = gV2;
	return 0;
}
static errcode_t st_write_blk(io_channel channel, unsigned long block, int count, const void *data)
{
	const unsigned int *w = (const unsigned int *)data;
	g_wr_calls++; g_wr_blk = block;
	if (CHOICE())
		return EXT2_ET_SHORT_WRITE;
	if (block == gB0) gV0 = w[gK0];
	else if (block == gB1) gV1 = w[gK1];
	else if (block == gB2) gV2 = w[gK2];
	return 0;
}
errcode_t ext2fs_alloc_block(ext2_filsys fs, blk_t goal, char *block_buf, blk_t *ret)
{
	g_al_calls++; g_al_goal = goal;
	if (CHOICE())
		return EXT2_ET_BLOCK_ALLOC_FAIL;
	*ret = IN.newblk[(g_ni++) & 1];
	return 0;
}

#define GHOSTS gV0, gV1, gV2, g_ci, g_ni, g_rd_calls, g_wr_calls, g_al_calls, g_rd_blk, g_wr_blk, g_al_goal
#define IMPL(a, b) (!(a) || (b))
/* nothing is allocated without BMAP_ALLOC */
#define NOALLOC ENSURES((flags & BMAP_ALLOC) || (*blocks_alloc == OLD(*blocks_alloc) && g_al_calls == OLD(g_al_calls)));
/* the triple j the call (ind, nr) addresses, if any */
#define ON0(ind, nr) ((ind) == gB0 && (nr) == gK0)
#define ON1(ind, nr) ((ind) == gB1 && (nr) == gK1)
#define ON2(ind, nr) ((ind) == gB2 && (nr) == gK2)

/* what one slot access does to "its" triple: V = current value, V_ = value on entry */
#define SLOT_POST(on, sameblk, V, V_, flags, ret_blk, ret_blk_, balloc, balloc_) \
	(IMPL(on, ((flags) & BMAP_SET) ? ((V) == (ret_blk_) && g_al_calls == OLD(g_al_calls)) : \
		  (V_) != 0 ? ((V) == (V_) && *(ret_blk) == (V_) && (balloc) == (balloc_) && g_al_calls == OLD(g_al_calls)) : \
		  ((flags) & BMAP_ALLOC) ? ((V) != 0 && *(ret_blk) == (V) && (balloc) == (balloc_) + 1 && g_al_calls == OLD(g_al_calls) + 1) : \
		  ((V) == 0 && *(ret_blk) == 0 && (balloc) == (balloc_) && g_al_calls == OLD(g_al_calls))) && \
	 /* another slot of the same block: untouched */ \
	 IMPL(!(on) && (sameblk), (V) == (V_)))

static errcode_t block_ind_bmap(ext2_filsys fs, int flags, blk_t ind, char *block_buf, int *blocks_alloc, blk_t nr, blk_t *ret_blk)
	REQUIRES(fs->blocksize == 1024 && nr < C09_APB && *blocks_alloc >= 0 && *blocks_alloc < 8)
	ASSIGNS(GHOSTS; *ret_blk; *blocks_alloc; *(struct blk2k *)block_buf)
	/* no indirect block: a hole (lookup) or an error (set); the disk is not touched */
	ENSURES(ind != 0 || (g_rd_calls == OLD(g_rd_calls) && g_wr_calls == OLD(g_wr_calls) && g_al_calls == OLD(g_al_calls) &&
		gV0 == OLD(gV0) && gV1 == OLD(gV1) && gV2 == OLD(gV2) && *blocks_alloc == OLD(*blocks_alloc) &&
		((flags & BMAP_SET) ? (RET == EXT2_ET_SET_BMAP_NO_IND && *ret_blk == OLD(*ret_blk)) : (RET == 0 && *ret_blk == 0))))
	/* slot nr of block ind, and only that slot */
	ENSURES(ind == 0 || RET != 0 || (
		SLOT_POST(ON0(ind, nr), ind == gB0, gV0, OLD(gV0), flags, ret_blk, OLD(*ret_blk), *blocks_alloc, OLD(*blocks_alloc)) &&
		SLOT_POST(ON1(ind, nr), ind == gB1, gV1, OLD(gV1), flags, ret_blk, OLD(*ret_blk), *blocks_alloc, OLD(*blocks_alloc)) &&
		SLOT_POST(ON2(ind, nr), ind == gB2, gV2, OLD(gV2), flags, ret_blk, OLD(*ret_blk), *blocks_alloc, OLD(*blocks_alloc))))
	/* environment (no multiply-referenced indirect blocks): a slot that is not a ghost slot does not hold a ghost block */
	ENSURES(RET != 0 || (flags & BMAP_SET) || !GHOSTBLK(*ret_blk) ||
		(ON1(ind, nr) && OLD(gV1) == gB0 && *ret_blk == gB0) || (ON2(ind, nr) && OLD(gV2) == gB1 && *ret_blk == gB1))
	/* failure: the disk is unchanged */
	ENSURES(RET == 0 || (gV0 == OLD(gV0) && gV1 == OLD(gV1) && gV2 == OLD(gV2)))
	/* blocks other than ind are never written */
	ENSURES((ind == gB0 || gV0 == OLD(gV0)) && (ind == gB1 || gV1 == OLD(gV1)) && (ind == gB2 || gV2 == OLD(gV2)))
	ENSURES(g_wr_calls == OLD(g_wr_calls) || g_wr_blk == ind)
	ENSURES(*blocks_alloc >= OLD(*blocks_alloc) && *blocks_alloc <= OLD(*blocks_alloc) + 1)
	NOALLOC

/* path through two levels: dind block B1 slot K1 -> ind block B0 slot K0 */
static errcode_t block_dind_bmap(ext2_filsys fs, int flags, blk_t dind, char *block_buf, int *blocks_alloc, blk_t nr, blk_t *ret_blk)
	REQUIRES(fs->blocksize == 1024 && nr < C09_APB * C09_APB && *blocks_alloc >= 0 && *blocks_alloc < 6)
	REQUIRES(gB0 != gB1 && gB0 != gB2 && gB1 != gB2 && gB0 != 0 && gB1 != 0 && gB2 != 0)
	REQUIRES(!GHOSTBLK(gV0) && (gV1 == gB0 || !GHOSTBLK(gV1)) && (gV2 == gB1 || !GHOSTBLK(gV2)))
	ASSIGNS(GHOSTS; *ret_blk; *blocks_alloc; *(struct blk2k *)block_buf)
	/* the two-level walk, stated for both pairs of adjacent ghost levels: (hi, lo) = (B1/K1, B0/K0) when the function is
	 * used on a double-indirect block, and (B2/K2, B1/K1) when block_tind_bmap uses it on the triple-indirect block.
	 * Logical index nr = Khi * 256 + Klo, path complete on entry (slot Khi of Bhi points to Blo). */
#define DIND_POST(Bhi, Khi, Vhi, Blo, Klo, Vlo) \
	ENSURES(RET != 0 || !(dind == Bhi && nr == ((Khi << C09_ABITS) | Klo) && OLD(Vhi) == Blo) || Vhi == OLD(Vhi)) \
	ENSURES(RET != 0 || !(dind == Bhi && nr == ((Khi << C09_ABITS) | Klo) && OLD(Vhi) == Blo) || !(flags & BMAP_SET) || \
		(Vlo == OLD(*ret_blk) && g_al_calls == OLD(g_al_calls))) \
	ENSURES(RET != 0 || !(dind == Bhi && nr == ((Khi << C09_ABITS) | Klo) && OLD(Vhi) == Blo) || (flags & BMAP_SET) || OLD(Vlo) == 0 || \
		(Vlo == OLD(Vlo) && *ret_blk == OLD(Vlo) && *blocks_alloc == OLD(*blocks_alloc) && g_al_calls == OLD(g_al_calls))) \
	ENSURES(RET != 0 || !(dind == Bhi && nr == ((Khi << C09_ABITS) | Klo) && OLD(Vhi) == Blo) || (flags & BMAP_SET) || OLD(Vlo) != 0 || \
		!(flags & BMAP_ALLOC) || \
		(Vlo != 0 && *ret_blk == Vlo && *blocks_alloc == OLD(*blocks_alloc) + 1 && g_al_calls == OLD(g_al_calls) + 1)) \
	ENSURES(RET != 0 || !(dind == Bhi && nr == ((Khi << C09_ABITS) | Klo) && OLD(Vhi) == Blo) || (flags & BMAP_SET) || OLD(Vlo) != 0 || \
		(flags & BMAP_ALLOC) || (Vlo == 0 && *ret_blk == 0 && *blocks_alloc == OLD(*blocks_alloc) && g_al_calls == OLD(g_al_calls))) \
	/* same top block, another first-level slot: the ghost leaf slot is not reached (unless a block is allocated) */ \
	ENSURES(RET != 0 || !(dind == Bhi && (nr >> C09_ABITS) != Khi && OLD(Vhi) == Blo) || (flags & BMAP_ALLOC) || Vlo == OLD(Vlo)) \
	/* the intermediate slot is only ever filled (BMAP_ALLOC on a hole), never changed */ \
	ENSURES(dind != Bhi || OLD(Vhi) == 0 || Vhi == OLD(Vhi))
	DIND_POST(gB1, gK1, gV1, gB0, gK0, gV0)
	DIND_POST(gB2, gK2, gV2, gB1, gK1, gV1)
	/* environment: the result is a ghost block only along the ghost path */
	ENSURES(RET != 0 || (flags & BMAP_SET) || !GHOSTBLK(*ret_blk) ||
		(dind == gB2 && nr == ((gK2 << C09_ABITS) | gK1) && OLD(gV2) == gB1 && *ret_blk == gB0))
	/* used on the upper pair, the lowest ghost block is not touched */
	ENSURES(!(dind == gB2 && OLD(gV2) == gB1) || gV0 == OLD(gV0))
	/* failure: whatever was mapped stays mapped */
	ENSURES(RET == 0 || ((OLD(gV0) == 0 || gV0 == OLD(gV0)) && (OLD(gV1) == 0 || gV1 == OLD(gV1)) && (OLD(gV2) == 0 || gV2 == OLD(gV2))))
	ENSURES(*blocks_alloc >= OLD(*blocks_alloc) && *blocks_alloc <= OLD(*blocks_alloc) + 2)
	NOALLOC

static errcode_t block_tind_bmap(ext2_filsys fs, int flags, blk_t tind, char *block_buf, int *blocks_alloc, blk_t nr, blk_t *ret_blk)
	REQUIRES(fs->blocksize == 1024 && nr < C09_APB * C09_APB * C09_APB && *blocks_alloc >= 0 && *blocks_alloc < 4)
	REQUIRES(gB0 != gB1 && gB0 != gB2 && gB1 != gB2 && gB0 != 0 && gB1 != 0 && gB2 != 0)
	REQUIRES(!GHOSTBLK(gV0) && (gV1 == gB0 || !GHOSTBLK(gV1)) && (gV2 == gB1 || !GHOSTBLK(gV2)))
	ASSIGNS(GHOSTS; *ret_blk; *blocks_alloc; *(struct blk2k *)block_buf)
	/* nr = K2 * 65536 + K1 * 256 + K0, path complete on entry */
#define TPATH (tind == gB2 && nr == ((gK2 << (2 * C09_ABITS)) | (gK1 << C09_ABITS) | gK0) && OLD(gV2) == gB1 && OLD(gV1) == gB0)
	ENSURES(RET != 0 || !TPATH || (gV2 == OLD(gV2) && gV1 == OLD(gV1)))
	ENSURES(RET != 0 || !TPATH || !(flags & BMAP_SET) || gV0 == OLD(*ret_blk))
	ENSURES(RET != 0 || !TPATH || (flags & BMAP_SET) || OLD(gV0) == 0 ||
		(gV0 == OLD(gV0) && *ret_blk == OLD(gV0) && *blocks_alloc == OLD(*blocks_alloc)))
	ENSURES(RET != 0 || !TPATH || (flags & BMAP_SET) || OLD(gV0) != 0 || !(flags & BMAP_ALLOC) ||
		(gV0 != 0 && *ret_blk == gV0 && *blocks_alloc == OLD(*blocks_alloc) + 1 && g_al_calls == OLD(g_al_calls) + 1))
	ENSURES(RET != 0 || !TPATH || (flags & BMAP_SET) || OLD(gV0) != 0 || (flags & BMAP_ALLOC) ||
		(gV0 == 0 && *ret_blk == 0 && *blocks_alloc == OLD(*blocks_alloc)))
	ENSURES(tind != gB2 || OLD(gV2) == 0 || gV2 == OLD(gV2))
	ENSURES(*blocks_alloc >= OLD(*blocks_alloc) && *blocks_alloc <= OLD(*blocks_alloc) + 3)
	NOALLOC

/* ---- ext2fs_bmap2 on a block-mapped inode: which slot is consulted for logical block n */
unsigned int g_a3_calls, g_iblk_calls, g_wi_calls, g_zero_calls, g_goal_calls;
unsigned long long g_a3_goal, g_iblk_n, g_zero_blk;
errcode_t ext2fs_alloc_block3(ext2_filsys fs, blk64_t goal, char *block_buf, blk64_t *ret, struct blk_alloc_ctx *ctx)
{
	g_a3_calls++; g_a3_goal = goal;
	if (CHOICE())
		return EXT2_ET_BLOCK_ALLOC_FAIL;
	*ret = IN.alloc3;
	return 0;
}
blk64_t ext2fs_find_inode_goal(ext2_filsys fs, ext2_ino_t ino, struct ext2_inode *inode, blk64_t lblk) { g_goal_calls++; return IN.goal; }
errcode_t ext2fs_iblk_add_blocks(ext2_filsys fs, struct ext2_inode *inode, blk64_t num_blocks) { g_iblk_calls++; g_iblk_n = num_blocks; return 0; }
errcode_t ext2fs_write_inode(ext2_filsys fs, ext2_ino_t ino, struct ext2_inode *inode) { g_wi_calls++; return CHOICE() ? EXT2_ET_SHORT_WRITE : 0; }
errcode_t ext2fs_zero_blocks2(ext2_filsys fs, blk64_t blk, int num, blk64_t *ret_blk, int *ret_count) { g_zero_calls++; g_zero_blk = blk; return 0; }

/* never reached for a block-mapped inode: the (unprovable) precondition is checked at every call site */
static errcode_t extent_bmap(ext2_filsys fs, ext2_ino_t ino, struct ext2_inode *inode, ext2_extent_handle_t handle,
			     char *block_buf, int bmap_flags, blk64_t block, int *ret_flags, int *blocks_alloc, blk64_t *phys_blk)
	REQUIRES(0)
	ASSIGNS();

#define GHOSTS2 GHOSTS, g_a3_calls, g_iblk_calls, g_wi_calls, g_zero_calls, g_goal_calls, g_a3_goal, g_iblk_n, g_zero_blk
/* tree and relative index of logical block n (specs/c09_ind_spec.h) */
#define TREE(n) ((n) < C09_NDIR ? 0 : (n) - C09_BASE(1) < C09_SIZE(1) ? 1 : (n) - C09_BASE(2) < C09_SIZE(2) ? 2 : 3)
errcode_t ext2fs_bmap2(ext2_filsys fs, ext2_ino_t ino, struct ext2_inode *inode, char *block_buf, int bmap_flags, blk64_t block,
		       int *ret_flags, blk64_t *phys_blk)
	REQUIRES(fs->blocksize == 1024 && inode != 0 && !(inode->i_flags & (EXT4_EXTENTS_FL | EXT4_INLINE_DATA_FL)))
	REQUIRES(gB0 != gB1 && gB0 != gB2 && gB1 != gB2 && gB0 != 0 && gB1 != 0 && gB2 != 0)
	REQUIRES(!GHOSTBLK(gV0) && (gV1 == gB0 || !GHOSTBLK(gV1)) && (gV2 == gB1 || !GHOSTBLK(gV2)))
	REQUIRES(g_a3_calls == 0 && g_iblk_calls == 0 && g_wi_calls == 0 && g_zero_calls == 0)
	ASSIGNS(GHOSTS2; *phys_blk; ret_flags != 0: *ret_flags; *(struct blk12 *)inode->i_block; inode->i_block[12]; inode->i_block[13];
		inode->i_block[14]; block_buf != 0: *(struct blk2k *)block_buf)
	/* beyond what the block map can address: refused, nothing changed */
	ENSURES(block < C09_BASE(3) + C09_SIZE(3) || (RET == EXT2_ET_FILE_TOO_BIG && g_wi_calls == 0 && g_a3_calls == 0))
	/* direct blocks: slot n of i_block */
	ENSURES(RET != 0 || block >= C09_NDIR || ((bmap_flags & BMAP_SET) ? inode->i_block[block < C09_NDIR ? block : 0] == (blk_t)OLD(*phys_blk) :
		*phys_blk == inode->i_block[block < C09_NDIR ? block : 0]))
	/* i_blocks is charged with exactly the blocks allocated, and the inode is written iff something changed */
	ENSURES(RET != 0 || !(((bmap_flags & BMAP_SET) && block < C09_NDIR) || g_a3_calls > 0) || (g_wi_calls == 1 && g_iblk_calls == 1))
	ENSURES(RET != 0 || (bmap_flags & (BMAP_SET | BMAP_ALLOC)) || (g_wi_calls == 0 && g_a3_calls == 0))
	ENSURES(g_iblk_calls <= 1 && g_wi_calls <= 1 && (g_iblk_calls == 0 || g_iblk_n <= 4));


#include "lib/ext2fs/bmap.c"

static struct struct_ext2_filsys FS;
static struct ext2_super_block SB;
static struct struct_io_channel IO;
static struct struct_io_manager MGR;
static blk_t RETBLK;
static int BALLOC;

static char *build(void)
{
	LOAD_IN();
	memset(&FS, 0, sizeof(FS)); memset(&SB, 0, sizeof(SB)); memset(&IO, 0, sizeof(IO)); memset(&MGR, 0, sizeof(MGR));
	FS.super = &SB; FS.magic = EXT2_ET_MAGIC_EXT2FS_FILSYS; FS.blocksize = 1024; FS.io = &IO;
	IO.manager = &MGR; MGR.read_blk = st_read_blk; MGR.write_blk = st_write_blk;
	gB0 = IN.B[0]; gB1 = IN.B[1]; gB2 = IN.B[2];
	ASSUME(gB0 != gB1 && gB0 != gB2 && gB1 != gB2 && gB0 != 0 && gB1 != 0 && gB2 != 0);
	gK0 = IN.K[0]; gK1 = IN.K[1]; gK2 = IN.K[2];
	ASSUME(gK0 < C09_APB && gK1 < C09_APB && gK2 < C09_APB);
	gV0 = IN.V[0]; gV1 = IN.V[1]; gV2 = IN.V[2];
	g_ci = g_ni = g_rd_calls = g_wr_calls = g_al_calls = 0;
	ASSUME(!GHOSTBLK(IN.goal));
	ASSUME(IN.newblk[0] != 0 && IN.newblk[1] != 0 && !GHOSTBLK(IN.newblk[0]) && !GHOSTBLK(IN.newblk[1]));	/* the allocator returns free blocks */
	/* the ghost slots form a path or lead out of the ghost blocks: no cycles, no level skipping */
	ASSUME(!GHOSTBLK(gV0) && (gV1 == gB0 || !GHOSTBLK(gV1)) && (gV2 == gB1 || !GHOSTBLK(gV2)));
	RETBLK = IN.retblk;
	BALLOC = IN.blocks_alloc;
	ASSUME(BALLOC >= 0 && BALLOC < 4);
	char *buf = (char *)(unsigned int *)malloc(sizeof(unsigned int) * 2 * C09_APB);
	ASSUME(buf != 0);
	return buf;
}

void h_ind(void)
{
	char *buf = build();
	ASSUME(IN.nr < C09_APB);
	unsigned int v0 = gV0;
	errcode_t r = block_ind_bmap(&FS, IN.flags, IN.ind, buf, &BALLOC, IN.nr, &RETBLK);
	if (r == 0 && IN.ind != 0 && IN.ind == gB0) {
		if (IN.nr == gK0) {
			if (IN.flags & BMAP_SET) { CHECK(gV0 == IN.retblk, "BMAP_SET stores the block in slot nr"); REACH("set"); }
			else if (v0) { CHECK(RETBLK == v0 && gV0 == v0, "lookup returns slot nr"); REACH("lookup mapped"); }
			else if (IN.flags & BMAP_ALLOC) { CHECK(RETBLK == gV0 && gV0 != 0 && BALLOC == IN.blocks_alloc + 1, "BMAP_ALLOC stores the new block in slot nr"); REACH("alloc"); }
			else { CHECK(RETBLK == 0 && gV0 == 0, "hole"); REACH("hole"); }
		} else {
			CHECK(gV0 == v0, "other slots of the block untouched");
			REACH("other slot");
		}
	}
	if (IN.ind == 0) REACH("no indirect block");
	REACH("end");
}

void h_dind(void)
{
	char *buf = build();
	ASSUME(IN.nr < C09_APB * C09_APB);
	unsigned int v0 = gV0, v1 = gV1;
	errcode_t r = block_dind_bmap(&FS, IN.flags, IN.ind, buf, &BALLOC, IN.nr, &RETBLK);
	/* the slot the ext2 map defines: first level nr / 256, second level nr % 256 */
	if (r == 0 && IN.ind == gB1 && v1 == gB0 && (IN.nr >> 8) == gK1 && (IN.nr & 255) == gK0) {
		CHECK(gV1 == v1, "intermediate slot unchanged");
		if (IN.flags & BMAP_SET) { CHECK(gV0 == IN.retblk, "BMAP_SET stores into slot nr % 256 of the block in slot nr / 256"); REACH("set"); }
		else if (v0) { CHECK(RETBLK == v0, "lookup: slot nr % 256 of the block in slot nr / 256"); REACH("lookup mapped"); }
		else if (IN.flags & BMAP_ALLOC) { CHECK(RETBLK == gV0 && gV0 != 0, "BMAP_ALLOC stores the new block there"); REACH("alloc"); }
		else { CHECK(RETBLK == 0, "hole"); REACH("hole"); }
	}
	REACH("end");
}

void h_tind(void)
{
	char *buf = build();
	ASSUME(IN.nr < C09_APB * C09_APB * C09_APB);
	unsigned int v0 = gV0, v1 = gV1, v2 = gV2;
	errcode_t r = block_tind_bmap(&FS, IN.flags, IN.ind, buf, &BALLOC, IN.nr, &RETBLK);
	if (r == 0 && IN.ind == gB2 && v2 == gB1 && v1 == gB0 &&
	    (IN.nr >> 16) == gK2 && ((IN.nr >> 8) & 255) == gK1 && (IN.nr & 255) == gK0) {
		CHECK(gV2 == v2 && gV1 == v1, "intermediate slots unchanged");
		if (IN.flags & BMAP_SET) { CHECK(gV0 == IN.retblk, "BMAP_SET stores into the slot the map defines"); REACH("set"); }
		else if (v0) { CHECK(RETBLK == v0, "lookup: the slot the map defines"); REACH("lookup mapped"); }
		else if (IN.flags & BMAP_ALLOC) { CHECK(RETBLK == gV0 && gV0 != 0, "BMAP_ALLOC stores the new block there"); REACH("alloc"); }
		else { CHECK(RETBLK == 0, "hole"); REACH("hole"); }
	}
	REACH("end");
}

static struct ext2_inode INODE;
static blk64_t PHYS;

void h_bmap2(void)
{
	char *buf = build();
	memset(&INODE, 0, sizeof(INODE));
	memcpy(INODE.i_block, IN.iblock, sizeof(INODE.i_block));
	g_a3_calls = g_iblk_calls = g_wi_calls = g_zero_calls = g_goal_calls = 0;
	ASSUME(IN.alloc3 != 0 && IN.alloc3 < (1ULL << 32) && !GHOSTBLK((unsigned int)IN.alloc3));
	unsigned long long n = IN.block;
	int flags = IN.flags & (BMAP_ALLOC | BMAP_SET | BMAP_ZERO);
	ASSUME((flags & (BMAP_ALLOC | BMAP_SET)) != (BMAP_ALLOC | BMAP_SET));	/* callers use one or the other */
	ASSUME(n < C09_BASE(3) + C09_SIZE(3));
	int T = TREE(n);
	unsigned long long m = n - C09_BASE(T);
	/* the ghost path is the path of n: slot indices as the ext2 map defines them, tree root on the path */
	if (T >= 1) ASSUME(gK0 == (m & 255));
	if (T >= 2) ASSUME(gK1 == ((m >> 8) & 255) && gV1 == gB0);
	if (T >= 3) ASSUME(gK2 == ((m >> 16) & 255) && gV2 == gB1);
	unsigned int root = T == 0 ? 0 : T == 1 ? gB0 : T == 2 ? gB1 : gB2;
	if (T >= 1 && !IN.toobig) INODE.i_block[11 + T] = root;			/* IN.toobig reused: 1 = leave the root arbitrary */
	int onpath = T >= 1 && INODE.i_block[11 + T] == root;
	/* no multiply-referenced indirect blocks: the other roots and the direct slots are not ghost blocks */
	if (T != 1) ASSUME(!GHOSTBLK(INODE.i_block[12]));
	if (T != 2) ASSUME(!GHOSTBLK(INODE.i_block[13]));
	if (T != 3) ASSUME(!GHOSTBLK(INODE.i_block[14]));
	if (T >= 1 && !onpath) ASSUME(!GHOSTBLK(INODE.i_block[11 + T]));
	unsigned int v0 = gV0, ib0 = T == 0 ? INODE.i_block[n] : 0, root0 = T >= 1 ? INODE.i_block[11 + T] : 0;
	PHYS = IN.retblk;
	int rf = 77;

	errcode_t r = ext2fs_bmap2(&FS, 12, &INODE, IN.have_buf ? buf : 0, flags, n, IN.goal & 1 ? &rf : 0, &PHYS);

	if (r == 0) {
		if (T == 0) {
			if (flags & BMAP_SET) { CHECK(INODE.i_block[n] == IN.retblk, "direct: BMAP_SET stores into i_block[n]"); REACH("direct set"); }
			else if (ib0) { CHECK(PHYS == ib0 && INODE.i_block[n] == ib0, "direct: lookup returns i_block[n]"); REACH("direct mapped"); }
			else if (flags & BMAP_ALLOC) { CHECK(PHYS == IN.alloc3 && INODE.i_block[n] == IN.alloc3 && g_iblk_n == 1, "direct: new block stored in i_block[n], i_blocks charged"); REACH("direct alloc"); }
			else { CHECK(PHYS == 0, "direct hole"); REACH("direct hole"); }
		} else if (onpath) {
			/* the leaf slot of n is slot K0 of the block the ghost path reaches */
			if (flags & BMAP_SET) { CHECK(gV0 == IN.retblk, "BMAP_SET stores into the slot the ext2 map defines for n"); REACH("tree set"); }
			else if (v0) { CHECK(PHYS == v0 && gV0 == v0 && g_wi_calls == 0, "lookup returns the slot the ext2 map defines for n"); REACH("tree mapped"); }
			else if (flags & BMAP_ALLOC) { CHECK(PHYS == gV0 && gV0 != 0 && g_iblk_n == 1 && g_wi_calls == 1, "BMAP_ALLOC stores the new block in the slot of n, i_blocks charged, inode written"); REACH("tree alloc"); }
			else { CHECK(PHYS == 0 && gV0 == 0, "hole"); REACH("tree hole"); }
			if (T == 1) REACH("indirect tree");
			if (T == 2) REACH("double indirect tree");
			if (T == 3) REACH("triple indirect tree");
		} else if (root0 == 0) {
			if (flags & BMAP_ALLOC) {
				CHECK(INODE.i_block[11 + T] == IN.alloc3 && g_iblk_n >= 1 && g_wi_calls == 1, "missing tree root allocated, stored in i_block, charged");
				REACH("root allocated");
			} else { CHECK(PHYS == 0 && INODE.i_block[11 + T] == 0 && g_wi_calls == 0, "no tree: hole"); REACH("no root: hole"); }
		}
		CHECK(gV1 == IN.V[1] || IN.V[1] == 0 || T < 2 || !onpath, "intermediate slots of the path unchanged");
		if (flags & BMAP_ZERO) CHECK(PHYS == 0 || (g_zero_calls == 1 && g_zero_blk == PHYS), "BMAP_ZERO zeroes the mapped block");
	} else {
		if (T >= 1 && root0 == 0 && (flags & BMAP_SET)) { CHECK(r == EXT2_ET_SET_BMAP_NO_IND || !IN.have_buf, "BMAP_SET without a tree refused (or no memory for the scratch buffer)"); REACH("set refused"); }
		REACH("error");
	}
	REACH("end");
}
