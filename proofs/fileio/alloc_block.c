/* VERIF-UNIT
{
 "name": "new_block3",
 "props": ["C09"],
 "level": "U",
 "tier": "quick",
 "harness": "h_new_block3",
 "enforce": ["ext2fs_new_block3"],
 "functions": ["lib/ext2fs/alloc.c:ext2fs_new_block3", "lib/ext2fs/alloc.c:ext2fs_clear_block_uninit"],
 "assumes": ["ext2fs_find_first_zero_generic_bmap is a stub that implements its C16 contract (bitmap_gen/gen64_ff: least block in [start, end] whose cluster is not a member, ENOENT if none, EINVAL on a bad range) over a single ghost cluster verif_k / g_bit; the bitmap covers the clusters of [s_first_data_block, blocks_count - 1] (ext2fs_allocate_block_bitmap)",
             "s_first_data_block is 0 or 1 (on-disk format: 1 only for 1 KiB blocks without bigalloc), cluster aligned (0 with bigalloc), < blocks_count <= 2^48; 0 <= cluster_ratio_bits <= 19",
             "ext2fs_blocks_count, ext2fs_group_of_blk2 and the group descriptor accessors are stubs (arbitrary group; calls logged)",
             "the get_alloc_block / get_alloc_block2 hooks are stubs returning an arbitrary block and error code"],
 "native": false,
 "backend": "cadical"
}
*/
/* VERIF-UNIT
{
 "name": "alloc_block3",
 "props": ["C09"],
 "level": "U",
 "tier": "quick",
 "harness": "h_alloc_block3",
 "enforce": ["ext2fs_alloc_block3"],
 "replace": ["ext2fs_new_block3"],
 "functions": ["lib/ext2fs/alloc.c:ext2fs_alloc_block3"],
 "assumes": ["ext2fs_new_block3 replaced by its contract (unit new_block3)",
             "blocksize 1024 (memset of the caller's buffer; buffer of exactly one block)",
             "io_channel_write_blk64, ext2fs_zero_blocks2, ext2fs_read_block_bitmap, ext2fs_block_alloc_stats2 are stubs that log their calls in order and may fail; ext2fs_block_alloc_stats2 itself is proved by fileio/block_alloc_stats2"],
 "native": false,
 "backend": "cadical"
}
*/
/*
 * The allocator hands out only blocks whose bit is clear in the map it consulted, inside the filesystem, first fit
 * from the goal with one wrap-around (ext2fs_new_block3); ext2fs_alloc_block3 zeroes the block on disk and only then
 * marks it in use (C09: "the block bitmap matching what the files map", no block handed out twice).
 *
 * Pointwise: verif_k is one arbitrary cluster, g_bit its bit in the consulted map (never changed here).
 */
#include "verif.h"

struct in_ab {
	unsigned long long goal, blocks_count, k;
	unsigned int first_data_block, crb, group, group_desc_count, feature_ro_compat;
	unsigned char bit, have_map, have_fsmap, have_cb, have_cb2, have_buf;
	unsigned long long ffz_out[2], cb_blk;
	long ffz_ret[2], cb_ret, rb_ret, wr_ret, nb_ret;
	unsigned int gflags;
	int fsflags;
	unsigned int z;			/* ghost byte of the zeroed buffer */
};
struct in_ab IN;
#include "verif_in.h"

unsigned long long verif_k;
int g_bit;
/* find_first_zero log */
unsigned int g_ffz_n;
unsigned long long g_ffz_start[2], g_ffz_end[2];
const void *g_ffz_map[2];
/* other logs */
unsigned int g_cb_calls, g_cb2_calls, g_gof_calls, g_clr_calls, g_csum_calls, g_seq;
unsigned long long g_cb_goal, g_gof_arg;
unsigned int g_clr_group;
unsigned int g_wr_calls, g_wr_seq, g_wr_zero, g_zb_calls, g_zb_seq, g_st_calls, g_st_seq, g_rb_calls;
unsigned long long g_wr_blk, g_zb_blk, g_st_blk;
int g_wr_count, g_st_inuse;
unsigned long long g_zb_num;

#include "config.h"
#include "ext2_fs.h"
#include "ext2fs.h"

static struct struct_ext2_filsys FS;
static struct ext2_super_block SB;
static int DUMMY_MAP, DUMMY_FSMAP, DUMMY_IO, DUMMY_CTX;

#define CRBITS		(IN.crb)
#define CL(b)		((unsigned long long)(b) >> CRBITS)
#define CMASK		((1ULL << CRBITS) - 1)
#define FDB		((unsigned long long)IN.first_data_block)
#define BC		(IN.blocks_count)
#define MAXU(a, b)	((a) > (b) ? (a) : (b))
#define IMPL(a, b)	(!(a) || (b))

/* ---- stubs */
blk64_t ext2fs_blocks_count(struct ext2_super_block *super) { return BC; }

/* C16 contract of find_first_zero over the ghost cluster (see bitmap_gen/gen64_ff.c:spec_ff) */
errcode_t ext2fs_find_first_zero_generic_bmap(ext2fs_generic_bitmap bitmap, __u64 start, __u64 end, __u64 *out)
{
	unsigned int i = g_ffz_n++ & 1;
	g_ffz_start[i] = start; g_ffz_end[i] = end; g_ffz_map[i] = bitmap;
	if (!bitmap)
		return EINVAL;
	if (!(start <= end && CL(start) >= CL(FDB) && CL(end) <= CL(BC - 1)))
		return EINVAL;
	if (IN.ffz_ret[i] == 0) {
		unsigned long long o = IN.ffz_out[i];
		ASSUME(o >= start && o <= end);
		ASSUME(IMPL(CL(o) == verif_k, g_bit == 0));
		ASSUME(IMPL(verif_k >= CL(start) && verif_k < CL(o), g_bit == 1));
		ASSUME(o == MAXU(start, CL(o) << CRBITS));
		*out = o;
		return 0;
	}
	ASSUME(IN.ffz_ret[i] == ENOENT);
	ASSUME(IMPL(verif_k >= CL(start) && verif_k <= CL(end), g_bit == 1));
	return ENOENT;
}
dgrp_t ext2fs_group_of_blk2(ext2_filsys fs, blk64_t blk) { g_gof_calls++; g_gof_arg = blk; return IN.group; }
int ext2fs_bg_flags_test(ext2_filsys fs, dgrp_t group, __u16 bg_flag) { return (IN.gflags & bg_flag) != 0; }
void ext2fs_bg_flags_clear(ext2_filsys fs, dgrp_t group, __u16 bg_flags) { g_clr_calls++; g_clr_group = group; }
void ext2fs_group_desc_csum_set(ext2_filsys fs, dgrp_t group) { g_csum_calls++; }

static errcode_t cb2(ext2_filsys fs, blk64_t goal, blk64_t *ret, struct blk_alloc_ctx *ctx)
{ g_cb2_calls++; g_cb_goal = goal; *ret = IN.cb_blk; return IN.cb_ret; }
static errcode_t cb1(ext2_filsys fs, blk64_t goal, blk64_t *ret)
{ g_cb_calls++; g_cb_goal = goal; *ret = IN.cb_blk; return IN.cb_ret; }

errcode_t ext2fs_read_block_bitmap(ext2_filsys fs)
{
	g_rb_calls++;
	if (IN.rb_ret)
		return IN.rb_ret;
	fs->block_map = (ext2fs_block_bitmap)&DUMMY_FSMAP;
	return 0;
}
errcode_t io_channel_write_blk64(io_channel channel, unsigned long long block, int count, const void *data)
{
	g_wr_calls++; g_wr_seq = ++g_seq; g_wr_blk = block; g_wr_count = count;
	g_wr_zero = ((const unsigned char *)data)[IN.z & 1023] == 0;
	return IN.wr_ret;
}
errcode_t ext2fs_zero_blocks2(ext2_filsys fs, blk64_t blk, int num, blk64_t *ret_blk, int *ret_count)
{
	g_zb_calls++; g_zb_seq = ++g_seq; g_zb_blk = blk; g_zb_num = num;
	return IN.wr_ret;
}
void ext2fs_block_alloc_stats2(ext2_filsys fs, blk64_t blk, int inuse)
{
	g_st_calls++; g_st_seq = ++g_seq; g_st_blk = blk; g_st_inuse = inuse;
}

/* ---- ext2fs_new_block3 */
#define GHOSTS g_ffz_n, g_ffz_start[0], g_ffz_start[1], g_ffz_end[0], g_ffz_end[1], g_ffz_map[0], g_ffz_map[1], g_cb_calls, \
	g_cb2_calls, g_gof_calls, g_clr_calls, g_csum_calls, g_cb_goal, g_gof_arg, g_clr_group
/* the map consulted and the normalised goal (kernel/lib convention: goal 0 or out of range = first data block) */
#define HOOKED(fs, map)	((map) == 0 && ((fs)->get_alloc_block2 != 0 || (fs)->get_alloc_block != 0))
#define MAPOF(fs, map)	((map) ? (const void *)(map) : (const void *)(fs)->block_map)
#define GOAL(goal)	((!(goal) || (goal) >= BC ? FDB : (goal)) & ~CMASK)
#define CSUM(fs) (((fs)->super->s_feature_ro_compat & (EXT4_FEATURE_RO_COMPAT_GDT_CSUM | EXT4_FEATURE_RO_COMPAT_METADATA_CSUM)) != 0)

errcode_t ext2fs_new_block3(ext2_filsys fs, blk64_t goal, ext2fs_block_bitmap map, blk64_t *ret, struct blk_alloc_ctx *ctx)
	REQUIRES(fs->magic == EXT2_ET_MAGIC_EXT2FS_FILSYS)
	REQUIRES(IN.crb <= 19 && FDB <= 1 && FDB < BC && BC <= (1ULL << 48) && (FDB & CMASK) == 0 && fs->cluster_ratio_bits == (int)IN.crb)
	REQUIRES(fs->super->s_first_data_block == IN.first_data_block)
	REQUIRES(g_ffz_n == 0 && g_cb_calls == 0 && g_cb2_calls == 0 && g_gof_calls == 0 && g_clr_calls == 0 && g_csum_calls == 0)
	ASSIGNS(GHOSTS, *ret, fs->get_alloc_block, fs->get_alloc_block2, fs->flags)
	/* --- bitmap path */
	ENSURES(HOOKED(fs, map) || MAPOF(fs, map) != 0 || RET == EXT2_ET_NO_BLOCK_BITMAP)
	/* only the requested map is consulted, nobody else is asked */
	ENSURES(HOOKED(fs, map) || (g_cb_calls == 0 && g_cb2_calls == 0 &&
		(g_ffz_n == 0 || g_ffz_map[0] == MAPOF(fs, map)) && (g_ffz_n <= 1 || g_ffz_map[1] == MAPOF(fs, map))))
	/* success: a block of the filesystem whose cluster is free in that map ... */
	ENSURES(HOOKED(fs, map) || RET != 0 || (*ret >= FDB && *ret < BC && IMPL(CL(*ret) == verif_k, g_bit == 0)))
	/* ... first fit from the goal: nothing free between the goal and the block, or (wrapped once) nothing free from
	 * the goal to the end and nothing free from the first data block to the block */
	ENSURES(HOOKED(fs, map) || RET != 0 || (*ret >= GOAL(goal) ?
		IMPL(verif_k >= CL(GOAL(goal)) && verif_k < CL(*ret), g_bit == 1) :
		(IMPL(verif_k >= CL(GOAL(goal)) && verif_k <= CL(BC - 1), g_bit == 1) &&
		 IMPL(verif_k >= CL(FDB) && verif_k < CL(*ret), g_bit == 1))))
	/* "no space" only when every cluster of the filesystem is in use in that map */
	ENSURES(HOOKED(fs, map) || RET != EXT2_ET_BLOCK_ALLOC_FAIL || IMPL(verif_k >= CL(FDB) && verif_k <= CL(BC - 1), g_bit == 1))
	ENSURES(HOOKED(fs, map) || MAPOF(fs, map) == 0 || RET == 0 || RET == EXT2_ET_BLOCK_ALLOC_FAIL)
	/* --- hook path: the installed allocator is asked exactly once (get_alloc_block2 first), its answer is passed on,
	 * and the hook is installed again afterwards */
	ENSURES(!HOOKED(fs, map) || (g_ffz_n == 0 && g_cb_goal == goal &&
		(OLD(fs->get_alloc_block2) ? (g_cb2_calls == 1 && g_cb_calls == 0) : (g_cb2_calls == 0 && g_cb_calls == 1)) &&
		RET == (IN.cb_ret == ENOENT ? EXT2_ET_BLOCK_ALLOC_FAIL : IN.cb_ret) && (RET != 0 || *ret == IN.cb_blk)))
	ENSURES(fs->get_alloc_block == OLD(fs->get_alloc_block) && fs->get_alloc_block2 == OLD(fs->get_alloc_block2))
	/* --- both: the block's group is looked up (for BLOCK_UNINIT) iff a block is returned */
	ENSURES(RET == 0 ? (g_gof_calls == 1 && g_gof_arg == *ret) : (g_gof_calls == 0 && *ret == OLD(*ret)))
	ENSURES(g_clr_calls <= 1 && g_csum_calls == g_clr_calls && IMPL(g_clr_calls == 1, RET == 0 && g_clr_group == IN.group &&
		IN.group < fs->group_desc_count && CSUM(fs) && (IN.gflags & EXT2_BG_BLOCK_UNINIT) &&
		fs->flags == (OLD(fs->flags) | EXT2_FLAG_DIRTY | EXT2_FLAG_CHANGED | EXT2_FLAG_BB_DIRTY)))
	ENSURES(g_clr_calls == 1 || fs->flags == OLD(fs->flags));

/* ---- ext2fs_alloc_block3 */
#define GHOSTS2 GHOSTS, g_seq, g_wr_calls, g_wr_seq, g_wr_zero, g_wr_blk, g_wr_count, g_zb_calls, g_zb_seq, g_zb_blk, g_zb_num, \
	g_st_calls, g_st_seq, g_st_blk, g_st_inuse, g_rb_calls
errcode_t ext2fs_alloc_block3(ext2_filsys fs, blk64_t goal, char *block_buf, blk64_t *ret, struct blk_alloc_ctx *ctx)
	REQUIRES(fs->magic == EXT2_ET_MAGIC_EXT2FS_FILSYS && fs->blocksize == 1024)
	REQUIRES(IN.crb <= 19 && FDB <= 1 && FDB < BC && BC <= (1ULL << 48) && (FDB & CMASK) == 0 && fs->cluster_ratio_bits == (int)IN.crb)
	REQUIRES(fs->super->s_first_data_block == IN.first_data_block)
	REQUIRES(g_ffz_n == 0 && g_cb_calls == 0 && g_cb2_calls == 0 && g_gof_calls == 0 && g_clr_calls == 0 && g_csum_calls == 0)
	REQUIRES(g_seq == 0 && g_wr_calls == 0 && g_zb_calls == 0 && g_st_calls == 0 && g_rb_calls == 0)
	ASSIGNS(GHOSTS2; *ret; fs->get_alloc_block; fs->get_alloc_block2; fs->flags; fs->block_map;
		block_buf != 0: __CPROVER_object_whole(block_buf))
	/* success: exactly one block, zeroed on disk BEFORE it is marked in use, then reported */
	ENSURES(RET != 0 || (g_st_calls == 1 && g_st_inuse == 1 && g_st_blk == *ret))
	ENSURES(RET != 0 || (block_buf ?
		(g_wr_calls == 1 && g_zb_calls == 0 && g_wr_blk == *ret && g_wr_count == 1 && g_wr_zero && g_wr_seq < g_st_seq) :
		(g_zb_calls == 1 && g_wr_calls == 0 && g_zb_blk == *ret && g_zb_num == 1 && g_zb_seq < g_st_seq)))
	/* the block comes from the installed allocator hook, else from the filesystem's own bitmap (read first if absent) */
	ENSURES(RET != 0 || (OLD(fs->get_alloc_block2) ? (g_cb2_calls == 1 && g_cb_calls == 0 && *ret == IN.cb_blk) :
			     OLD(fs->get_alloc_block) ? (g_cb_calls == 1 && g_cb2_calls == 0 && *ret == IN.cb_blk) :
			     (g_cb_calls == 0 && g_cb2_calls == 0 && fs->block_map != 0 &&
			      *ret >= FDB && *ret < BC && IMPL(CL(*ret) == verif_k, g_bit == 0))))
	/* failure: nothing is marked in use, nothing reported */
	ENSURES(RET == 0 || (g_st_calls == 0 && *ret == OLD(*ret)));

#include "lib/ext2fs/alloc.c"

static blk64_t RETBLK;

static void build(void)
{
	LOAD_IN();
	ASSUME(IN.crb <= 19);
	ASSUME(FDB <= 1 && FDB < BC && BC <= (1ULL << 48) && (FDB & CMASK) == 0);
	memset(&FS, 0, sizeof(FS));
	memset(&SB, 0, sizeof(SB));
	FS.super = &SB;
	FS.magic = EXT2_ET_MAGIC_EXT2FS_FILSYS;
	FS.blocksize = 1024;
	FS.cluster_ratio_bits = IN.crb;
	FS.group_desc_count = IN.group_desc_count;
	FS.flags = IN.fsflags;
	FS.io = (io_channel)&DUMMY_IO;
	SB.s_first_data_block = IN.first_data_block;
	SB.s_feature_ro_compat = IN.feature_ro_compat;
	FS.block_map = IN.have_fsmap ? (ext2fs_block_bitmap)&DUMMY_FSMAP : 0;
	FS.get_alloc_block2 = IN.have_cb2 ? cb2 : 0;
	FS.get_alloc_block = IN.have_cb ? cb1 : 0;
	verif_k = IN.k; g_bit = IN.bit & 1;
	g_ffz_n = g_cb_calls = g_cb2_calls = g_gof_calls = g_clr_calls = g_csum_calls = g_seq = 0;
	g_wr_calls = g_zb_calls = g_st_calls = g_rb_calls = 0;
}

void h_new_block3(void)
{
	build();
	ext2fs_block_bitmap map = IN.have_map ? (ext2fs_block_bitmap)&DUMMY_MAP : 0;
	int hooked = !map && (IN.have_cb2 || IN.have_cb);
	const void *used = map ? (const void *)map : (const void *)FS.block_map;
	unsigned long long G = GOAL(IN.goal);
	RETBLK = IN.cb_blk ^ 1;

	errcode_t r = ext2fs_new_block3(&FS, IN.goal, map, &RETBLK, (struct blk_alloc_ctx *)&DUMMY_CTX);

	if (!hooked) {
		if (!used) {
			CHECK(r == EXT2_ET_NO_BLOCK_BITMAP, "no map at all: refused");
			REACH("no bitmap");
		} else if (r == 0) {
			CHECK(RETBLK >= FDB && RETBLK < BC, "block inside [first_data_block, blocks_count)");
			CHECK(IMPL(CL(RETBLK) == verif_k, g_bit == 0), "its cluster is free in the map consulted");
			CHECK(g_ffz_map[0] == used && (g_ffz_n < 2 || g_ffz_map[1] == used), "the map consulted is the one asked for");
			if (RETBLK >= G) {
				CHECK(IMPL(verif_k >= CL(G) && verif_k < CL(RETBLK), g_bit == 1), "first fit from the goal");
				REACH("found at or after the goal");
			} else {
				CHECK(IMPL(verif_k >= CL(G) && verif_k <= CL(BC - 1), g_bit == 1) &&
				      IMPL(verif_k >= CL(FDB) && verif_k < CL(RETBLK), g_bit == 1), "wrapped once: first fit from the first data block");
				REACH("wrapped");
			}
		} else {
			CHECK(r == EXT2_ET_BLOCK_ALLOC_FAIL, "the only failure is 'no free block'");
			CHECK(IMPL(verif_k >= CL(FDB) && verif_k <= CL(BC - 1), g_bit == 1), "refused only when every cluster is in use");
			REACH("full");
		}
	} else {
		CHECK(g_ffz_n == 0 && g_cb_calls + g_cb2_calls == 1, "hook asked once, bitmap not consulted");
		CHECK(FS.get_alloc_block2 == (IN.have_cb2 ? cb2 : 0) && FS.get_alloc_block == (IN.have_cb ? cb1 : 0), "hooks installed again");
		REACH("hooked");
	}
	REACH("end");
}

void h_alloc_block3(void)
{
	build();
	char *buf = 0;
	if (IN.have_buf) {
		buf = malloc(1024);
		ASSUME(buf != 0);
	}
	RETBLK = IN.cb_blk ^ 1;
	unsigned long long ret0 = RETBLK;

	errcode_t r = ext2fs_alloc_block3(&FS, IN.goal, buf, &RETBLK, (struct blk_alloc_ctx *)&DUMMY_CTX);

	if (r == 0) {
		CHECK(g_st_calls == 1 && g_st_blk == RETBLK && g_st_inuse == 1, "exactly the returned block is marked in use");
		if (buf) {
			CHECK(g_wr_calls == 1 && g_wr_blk == RETBLK && g_wr_count == 1 && g_wr_zero && g_wr_seq < g_st_seq,
			      "one zero block written to the returned block before it is marked");
			REACH("success with buffer");
		} else {
			CHECK(g_zb_calls == 1 && g_zb_blk == RETBLK && g_zb_num == 1 && g_zb_seq < g_st_seq,
			      "the returned block is zeroed on disk before it is marked");
			REACH("success without buffer");
		}
		if (!IN.have_cb2 && !IN.have_cb) {
			CHECK(RETBLK >= FDB && RETBLK < BC && IMPL(CL(RETBLK) == verif_k, g_bit == 0), "own bitmap: block valid and free");
			if (!IN.have_fsmap) REACH("bitmap read first");
			REACH("own bitmap");
		}
	} else {
		CHECK(g_st_calls == 0 && RETBLK == ret0, "failure: nothing marked, nothing returned");
		REACH("failure");
	}
	REACH("end");
}
