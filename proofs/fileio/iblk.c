/* VERIF-UNIT
{
 "name": "iblk_sub_blocks",
 "props": ["C09"],
 "level": "U",
 "tier": "quick",
 "harness": "h_iblk_sub",
 "enforce": ["ext2fs_iblk_sub_blocks"],
 "functions": ["lib/ext2fs/i_block.c:ext2fs_iblk_sub_blocks"],
 "assumes": ["fs->blocksize is a power of two in 1024..65536, 0 <= cluster_ratio_bits <= 19 (guaranteed by ext2fs_open2 / ext2fs_initialize)",
             "the number of clusters passed is at most 2^48 >> cluster_ratio_bits (a filesystem has fewer than 2^48 blocks: 48-bit physical block numbers), so the conversion to sectors cannot wrap 64 bits"],
 "native": true,
 "backend": "cadical"
}
*/
/* VERIF-UNIT
{
 "name": "iblk_add_blocks",
 "props": ["C09"],
 "level": "U",
 "tier": "quick",
 "harness": "h_iblk_add",
 "enforce": ["ext2fs_iblk_add_blocks"],
 "functions": ["lib/ext2fs/i_block.c:ext2fs_iblk_add_blocks"],
 "assumes": ["fs->blocksize is a power of two in 1024..65536, 0 <= cluster_ratio_bits <= 19",
             "clusters added <= 2^48 >> cluster_ratio_bits",
             "FULL contract (overflow of the 48-bit field with huge_file must give EOVERFLOW and no update)"],
 "native": true,
 "backend": "cadical"
}
*/
/* VERIF-UNIT
{
 "name": "iblk_add_blocks_no48wrap",
 "props": ["C09"],
 "level": "U",
 "tier": "quick",
 "harness": "h_iblk_add_no48wrap",
 "enforce": ["ext2fs_iblk_add_blocks"],
 "functions": ["lib/ext2fs/i_block.c:ext2fs_iblk_add_blocks"],
 "assumes": ["fs->blocksize is a power of two in 1024..65536, 0 <= cluster_ratio_bits <= 19",
             "clusters added <= 2^48 >> cluster_ratio_bits",
             "same contract as iblk_add_blocks, but the harness excludes the inputs of finding C09_iblk_overflow: with huge_file the sum is assumed to fit 48 bits (without huge_file the 32-bit overflow IS covered)"],
 "native": true,
 "backend": "cadical"
}
*/
/* VERIF-UNIT
{
 "name": "iblk_set",
 "props": ["C09"],
 "level": "U",
 "tier": "quick",
 "harness": "h_iblk_set",
 "enforce": ["ext2fs_iblk_set"],
 "functions": ["lib/ext2fs/i_block.c:ext2fs_iblk_set"],
 "assumes": ["fs->blocksize is a power of two in 1024..65536, 0 <= cluster_ratio_bits <= 19",
             "clusters <= 2^48 >> cluster_ratio_bits",
             "FULL contract (a value that does not fit the 32/48-bit field must give EOVERFLOW and no update)"],
 "native": true,
 "backend": "cadical"
}
*/
/* VERIF-UNIT
{
 "name": "iblk_set_fits",
 "props": ["C09"],
 "level": "U",
 "tier": "quick",
 "harness": "h_iblk_set_fits",
 "enforce": ["ext2fs_iblk_set"],
 "functions": ["lib/ext2fs/i_block.c:ext2fs_iblk_set"],
 "assumes": ["fs->blocksize is a power of two in 1024..65536, 0 <= cluster_ratio_bits <= 19",
             "clusters <= 2^48 >> cluster_ratio_bits",
             "same contract as iblk_set, but the harness excludes the inputs of finding C09_iblk_overflow: the value is assumed to fit the field (32 bits without huge_file, 48 bits with it)"],
 "native": true,
 "backend": "cadical"
}
*/
/*
 * i_blocks accounting (C09: "after the filesystem is closed ... i_blocks ... matching what the files map").
 * Contracts are stated over the RAW on-disk count c09_iblk_raw() from specs/c09_iblk_spec.h (format/kernel
 * definition); verif_g0 (ghost) = raw count on entry.
 *
 * Result on the pinned tree: sub_blocks satisfies the full contract.  add_blocks and set do NOT:
 *   - ext2fs_iblk_add_blocks with huge_file never reports overflow: a sum >= 2^48 is silently truncated
 *     (l_i_blocks_hi is 16 bits) and 0 is returned;
 *   - ext2fs_iblk_set stores i_blocks (low word) BEFORE it detects the overflow without huge_file (partial
 *     update + EOVERFLOW), and with huge_file silently truncates a value >= 2^48 and returns 0.
 * The *_no48wrap / *_fits units prove the same contracts on all other inputs.
 */
#include "verif.h"
#include "c09_iblk_spec.h"

struct in_s {
	unsigned int blocksize;
	int crb;
	unsigned int ro_compat;
	unsigned int i_blocks, i_flags;
	unsigned short hi;
	unsigned long long n;
};
struct in_s IN;
#include "verif_in.h"

unsigned long long verif_g0;	/* ghost: raw on-disk count on entry */

#include "config.h"
#include <errno.h>
#include "ext2_fs.h"
#include "ext2fs.h"

#define C09_MAX_FS_BLOCKS (1ULL << 48)
#define GEOM_OK(fs) (c09_valid_blocksize((fs)->blocksize) && (fs)->cluster_ratio_bits >= 0 && (fs)->cluster_ratio_bits <= 19)
#define RAW(fs, inode) c09_iblk_raw((fs)->super->s_feature_ro_compat, (inode)->i_blocks, (inode)->osd2.linux2.l_i_blocks_hi)
#define LIMIT(fs) c09_iblk_limit((fs)->super->s_feature_ro_compat)
#define SHIFT(fs, inode) c09_iblk_shift((fs)->super->s_feature_ro_compat, (inode)->i_flags, (fs)->blocksize, (fs)->cluster_ratio_bits)
#define HUGE(fs) (((fs)->super->s_feature_ro_compat & C09_RO_COMPAT_HUGE_FILE) != 0)

errcode_t ext2fs_iblk_add_blocks(ext2_filsys fs, struct ext2_inode *inode, blk64_t num_blocks)
	REQUIRES(GEOM_OK(fs))
	REQUIRES(num_blocks <= (C09_MAX_FS_BLOCKS >> fs->cluster_ratio_bits))
	REQUIRES(verif_g0 == RAW(fs, inode))
	ASSIGNS(inode->i_blocks, inode->osd2.linux2.l_i_blocks_hi)
	/* fits: count grows by exactly num clusters worth of units */
	ENSURES(!c09_iblk_add_fits(verif_g0, num_blocks, SHIFT(fs, inode), LIMIT(fs)) ||
		(RET == 0 && RAW(fs, inode) == verif_g0 + (num_blocks << SHIFT(fs, inode))))
	/* does not fit: EOVERFLOW and nothing changes */
	ENSURES(c09_iblk_add_fits(verif_g0, num_blocks, SHIFT(fs, inode), LIMIT(fs)) ||
		(RET == EOVERFLOW && inode->i_blocks == OLD(inode->i_blocks) &&
		 inode->osd2.linux2.l_i_blocks_hi == OLD(inode->osd2.linux2.l_i_blocks_hi)))
	/* without huge_file the high half is not part of the count and is left alone */
	ENSURES(HUGE(fs) || inode->osd2.linux2.l_i_blocks_hi == OLD(inode->osd2.linux2.l_i_blocks_hi));

errcode_t ext2fs_iblk_sub_blocks(ext2_filsys fs, struct ext2_inode *inode, blk64_t num_blocks)
	REQUIRES(GEOM_OK(fs))
	REQUIRES(num_blocks <= (C09_MAX_FS_BLOCKS >> fs->cluster_ratio_bits))
	REQUIRES(verif_g0 == RAW(fs, inode))
	ASSIGNS(inode->i_blocks, inode->osd2.linux2.l_i_blocks_hi)
	ENSURES(!c09_iblk_sub_fits(verif_g0, num_blocks, SHIFT(fs, inode)) ||
		(RET == 0 && RAW(fs, inode) == verif_g0 - (num_blocks << SHIFT(fs, inode))))
	ENSURES(c09_iblk_sub_fits(verif_g0, num_blocks, SHIFT(fs, inode)) ||
		(RET == EOVERFLOW && inode->i_blocks == OLD(inode->i_blocks) &&
		 inode->osd2.linux2.l_i_blocks_hi == OLD(inode->osd2.linux2.l_i_blocks_hi)))
	ENSURES(HUGE(fs) || inode->osd2.linux2.l_i_blocks_hi == OLD(inode->osd2.linux2.l_i_blocks_hi));

errcode_t ext2fs_iblk_set(ext2_filsys fs, struct ext2_inode *inode, blk64_t b)
	REQUIRES(GEOM_OK(fs))
	REQUIRES(b <= (C09_MAX_FS_BLOCKS >> fs->cluster_ratio_bits))
	ASSIGNS(inode->i_blocks, inode->osd2.linux2.l_i_blocks_hi)
	ENSURES(!c09_iblk_add_fits(0, b, SHIFT(fs, inode), LIMIT(fs)) ||
		(RET == 0 && RAW(fs, inode) == (b << SHIFT(fs, inode))))
	ENSURES(c09_iblk_add_fits(0, b, SHIFT(fs, inode), LIMIT(fs)) ||
		(RET == EOVERFLOW && inode->i_blocks == OLD(inode->i_blocks) &&
		 inode->osd2.linux2.l_i_blocks_hi == OLD(inode->osd2.linux2.l_i_blocks_hi)))
	ENSURES(HUGE(fs) || inode->osd2.linux2.l_i_blocks_hi == OLD(inode->osd2.linux2.l_i_blocks_hi));

#include "lib/ext2fs/i_block.c"

static struct struct_ext2_filsys FS;
static struct ext2_super_block SB;
static struct ext2_inode INO, INO0;
static unsigned int S;
static unsigned long long RAW0, LIM;

static void build(void)
{
	LOAD_IN();
	ASSUME(c09_valid_blocksize(IN.blocksize));
	ASSUME(IN.crb >= 0 && IN.crb <= 19);
	ASSUME(IN.n <= (C09_MAX_FS_BLOCKS >> IN.crb));
	memset(&FS, 0, sizeof(FS));
	memset(&SB, 0, sizeof(SB));
	memset(&INO, 0, sizeof(INO));
	FS.super = &SB;
	FS.blocksize = IN.blocksize;
	FS.cluster_ratio_bits = IN.crb;
	SB.s_feature_ro_compat = IN.ro_compat;
	INO.i_blocks = IN.i_blocks;
	INO.i_flags = IN.i_flags;
	INO.osd2.linux2.l_i_blocks_hi = IN.hi;
	INO0 = INO;
	S = c09_iblk_shift(IN.ro_compat, IN.i_flags, IN.blocksize, IN.crb);
	RAW0 = c09_iblk_raw(IN.ro_compat, IN.i_blocks, IN.hi);
	LIM = c09_iblk_limit(IN.ro_compat);
	verif_g0 = RAW0;
}

#define UNCHANGED() (INO.i_blocks == INO0.i_blocks && INO.osd2.linux2.l_i_blocks_hi == INO0.osd2.linux2.l_i_blocks_hi)
#define REST_UNCHANGED() (INO.i_flags == INO0.i_flags && INO.i_size == INO0.i_size && INO.i_block[0] == INO0.i_block[0])

static void check_add(void)
{
	errcode_t r = ext2fs_iblk_add_blocks(&FS, &INO, IN.n);
	if (c09_iblk_add_fits(RAW0, IN.n, S, LIM)) {
		CHECK(r == 0, "add: fits => success");
		CHECK(RAW(&FS, &INO) == RAW0 + (IN.n << S), "add: on-disk count grows by exactly n clusters in the inode's unit");
		REACH("add fits");
	} else {
		CHECK(r == EOVERFLOW, "add: does not fit the 32/48-bit field => EOVERFLOW");
		CHECK(UNCHANGED(), "add: EOVERFLOW => no partial update");
		REACH("add overflow");
	}
	CHECK(REST_UNCHANGED(), "add: other inode fields untouched");
	REACH("end");
}

void h_iblk_add(void)
{
	build();
	check_add();
}

void h_iblk_add_no48wrap(void)
{
	build();
	/* exclude finding C09_iblk_overflow: with huge_file, the sum is assumed to fit 48 bits */
	ASSUME(!(IN.ro_compat & C09_RO_COMPAT_HUGE_FILE) || c09_iblk_add_fits(RAW0, IN.n, S, LIM));
	check_add();
}

void h_iblk_sub(void)
{
	build();
	errcode_t r = ext2fs_iblk_sub_blocks(&FS, &INO, IN.n);
	if (c09_iblk_sub_fits(RAW0, IN.n, S)) {
		CHECK(r == 0, "sub: enough => success");
		CHECK(RAW(&FS, &INO) == RAW0 - (IN.n << S), "sub: on-disk count shrinks by exactly n clusters in the inode's unit");
		REACH("sub fits");
	} else {
		CHECK(r == EOVERFLOW, "sub: more than the count => EOVERFLOW");
		CHECK(UNCHANGED(), "sub: EOVERFLOW => no partial update");
		REACH("sub underflow");
	}
	CHECK(REST_UNCHANGED(), "sub: other inode fields untouched");
	REACH("end");
}

static void check_set(void)
{
	errcode_t r = ext2fs_iblk_set(&FS, &INO, IN.n);
	if (c09_iblk_add_fits(0, IN.n, S, LIM)) {
		CHECK(r == 0, "set: fits => success");
		CHECK(RAW(&FS, &INO) == (IN.n << S), "set: on-disk count is exactly n clusters in the inode's unit");
		REACH("set fits");
	} else {
		CHECK(r == EOVERFLOW, "set: does not fit the 32/48-bit field => EOVERFLOW");
		CHECK(UNCHANGED(), "set: EOVERFLOW => no partial update");
#ifndef VERIF_UNIT_iblk_set_fits
		REACH("set overflow");
#endif
	}
	CHECK(REST_UNCHANGED(), "set: other inode fields untouched");
	REACH("end");
}

void h_iblk_set(void)
{
	build();
	check_set();
}

void h_iblk_set_fits(void)
{
	build();
	ASSUME(c09_iblk_add_fits(0, IN.n, S, LIM));
	check_set();
}
