/* VERIF-UNIT
{
 "name": "implied_cluster_alloc",
 "props": ["C09"],
 "level": "U/k",
 "tier": "quick",
 "harness": "h_implied",
 "enforce": ["implied_cluster_alloc"],
 "replace": ["extent_bmap"],
 "unwindset": {"implied_cluster_alloc.0": 17},
 "cbmc_flags": ["--object-bits", "12"],
 "unwind_reason": "the loop runs over the blocks of one cluster; the unit fixes the cluster ratio to 16 (cluster_ratio_bits = 4), unwinding assertion on",
 "functions": ["lib/ext2fs/bmap.c:implied_cluster_alloc"],
 "assumes": ["cluster ratio 16 (bigalloc) or feature off",
             "extent_bmap replaced by its contract (unit extent_bmap): a lookup over the ghost extent map",
             "the implied mapping is claimed when no extent-tree lookup failed with an I/O error (implied_cluster_alloc ignores the return value of its lookups: observation)",
             "bigalloc file invariant (kernel/e2fsck enforce it): all mapped blocks of one logical cluster lie in ONE physical cluster at the same offset; ghost: logical cluster gC with physical base gCB, two ghost blocks gL, gN of it with their mapped flags, every other block of the cluster mapped or not arbitrarily"],
 "native": false,
 "backend": "cadical"
}
*/
/* VERIF-UNIT
{
 "name": "extent_bmap",
 "props": ["C09"],
 "level": "P",
 "tier": "quick",
 "harness": "h_extent_bmap",
 "enforce_rec": ["extent_bmap"],
 "replace": ["implied_cluster_alloc"],
 "functions": ["lib/ext2fs/bmap.c:extent_bmap"],
 "assumes": ["bigalloc with cluster ratio 16; bigalloc file invariant as in implied_cluster_alloc",
             "ext2fs_extent_goto / _get / _set_bmap are stubs over the ghost extent map with the documented behaviour of extent.c (goto: 0 and the current extent contains the block, or EXT2_ET_EXTENT_NOT_FOUND for a hole, or an I/O error; get(CURRENT): an arbitrary extent containing the block; set_bmap: logs, maps the ghost block, may fail)",
             "ext2fs_alloc_block3, ext2fs_find_inode_goal, ext2fs_read_inode, ext2fs_block_alloc_stats2 are logging stubs that may fail; implied_cluster_alloc replaced by its contract; the recursive goal lookup replaced by extent_bmap's own contract (--enforce-contract-rec)",
             "on entry *phys_blk is 0 unless BMAP_SET (ext2fs_bmap2 clears it)"],
 "native": false,
 "backend": "cadical"
}
*/
/* VERIF-UNIT
{
 "name": "extent_bmap_giveback",
 "props": ["C09"],
 "level": "P",
 "tier": "quick",
 "harness": "h_extent_bmap",
 "defines": ["GIVEBACK=1"],
 "enforce_rec": ["extent_bmap"],
 "replace": ["implied_cluster_alloc"],
 "functions": ["lib/ext2fs/bmap.c:extent_bmap"],
 "assumes": ["as extent_bmap, plus: a block is given back to the allocator (ext2fs_block_alloc_stats2(blk, -1)) only if THIS call allocated it",
             "FAILS on the pinned tree: when the block comes from implied_cluster_alloc (no allocation: the cluster is already in use by a neighbouring block of the file) and ext2fs_extent_set_bmap fails (ENOSPC for a new tree block, I/O error), the error path frees the cluster that the file still uses (finding C09_extent_bmap_giveback)"],
 "native": false,
 "backend": "cadical"
}
*/
/*
 * Extent-mapped files on bigalloc: a block of a logical cluster that already has a mapped block must get the physical
 * block of the SAME physical cluster, at its own offset — also when it is the FIRST block of the cluster and a later
 * one is mapped (implied_cluster_alloc), and extent_bmap(BMAP_ALLOC) must then map it WITHOUT allocating; otherwise it
 * allocates one cluster and maps the block at its offset inside it (C09: "bigalloc clusters ... i_blocks and the block
 * bitmap matching what the files map").
 */
#include "verif.h"

#define CRB 4
#define MASK 15ULL

struct in_be {
	unsigned long long lblk, C, CB, L, N, op, newblk, goal, physin;
	unsigned char Lm, Nm, om[16], om2, bigalloc, uninit, have_rf;
	unsigned int d, more;
	int flags, balloc;
	long choice[8];
};
struct in_be IN;
#include "verif_in.h"

unsigned long long verif_k;
unsigned long long gC, gCB, gL, gN;
unsigned int gLm, gNm;
unsigned int g_ioerr;	/* injected I/O errors of the extent-tree lookups */
unsigned int g_ci, g_seq, g_goto_calls, g_get_calls, g_set_calls, g_set_seq, g_set_flags, g_a3_calls, g_a3_seq, g_st_calls, g_ri_calls, g_ri_seq, g_goal_calls;
unsigned long long g_cur, g_set_l, g_set_p, g_a3_goal, g_st_blk;
int g_st_inuse;

#include "config.h"
#include "ext2_fs.h"
#include "ext2fs.h"

#define CHOICE() (IN.choice[(g_ci++) & 7])
#define INC(b) (((unsigned long long)(b) >> CRB) == gC)
#define PC(b) (gCB + ((unsigned long long)(b) & MASK))
#define BIGALLOC(fs) (((fs)->super->s_feature_ro_compat & EXT4_FEATURE_RO_COMPAT_BIGALLOC) != 0)
/* the ghost extent map */
#define MAPPED(q) ((q) == gL ? gLm : (q) == gN ? gNm : INC(q) ? (IN.om[(q) & MASK] & 1) : (IN.om2 & 1))
#define PHYS(q) (INC(q) ? PC(q) : IN.op)

errcode_t ext2fs_extent_goto(ext2_extent_handle_t handle, blk64_t blk)
{
	g_goto_calls++; g_cur = blk;
	if (CHOICE()) {
		g_ioerr++;
		return EXT2_ET_SHORT_READ;
	}
	return MAPPED(blk) ? 0 : EXT2_ET_EXTENT_NOT_FOUND;
}
errcode_t ext2fs_extent_get(ext2_extent_handle_t handle, int flags, struct ext2fs_extent *extent)
{
	g_get_calls++;
	if (CHOICE()) {
		g_ioerr++;
		return EXT2_ET_SHORT_READ;
	}
	/* an arbitrary extent that contains the block goto found, the block at offset d */
	unsigned long long d = IN.d;
	ASSUME(d <= g_cur && d < PHYS(g_cur) && d < 0x7fff && IN.more < 0x7fff);	/* an extent has at most 32768 blocks */
	extent->e_lblk = g_cur - d;
	extent->e_pblk = PHYS(g_cur) - d;
	extent->e_len = (unsigned int)d + 1 + IN.more;
	extent->e_flags = IN.uninit ? EXT2_EXTENT_FLAGS_UNINIT : 0;
	return 0;
}
errcode_t ext2fs_extent_set_bmap(ext2_extent_handle_t handle, blk64_t logical, blk64_t physical, int flags)
{
	g_set_calls++; g_set_seq = ++g_seq; g_set_l = logical; g_set_p = physical; g_set_flags = flags;
	if (CHOICE())
		return EXT2_ET_SHORT_WRITE;
	if (logical == gL) gLm = physical != 0;
	if (logical == gN) gNm = physical != 0;
	return 0;
}
errcode_t ext2fs_alloc_block3(ext2_filsys fs, blk64_t goal, char *block_buf, blk64_t *ret, struct blk_alloc_ctx *ctx)
{
	g_a3_calls++; g_a3_seq = ++g_seq; g_a3_goal = goal;
	if (CHOICE())
		return EXT2_ET_BLOCK_ALLOC_FAIL;
	*ret = IN.newblk;
	return 0;
}
blk64_t ext2fs_find_inode_goal(ext2_filsys fs, ext2_ino_t ino, struct ext2_inode *inode, blk64_t lblk) { g_goal_calls++; return IN.goal; }
errcode_t ext2fs_read_inode(ext2_filsys fs, ext2_ino_t ino, struct ext2_inode *inode)
{ g_ri_calls++; g_ri_seq = ++g_seq; return CHOICE() ? EXT2_ET_SHORT_READ : 0; }
void ext2fs_block_alloc_stats2(ext2_filsys fs, blk64_t blk, int inuse) { g_st_calls++; g_st_blk = blk; g_st_inuse = inuse; }

#define GHOSTS gLm, gNm, g_ioerr, g_ci, g_seq, g_goto_calls, g_get_calls, g_set_calls, g_set_seq, g_set_flags, g_a3_calls, g_a3_seq, g_st_calls, \
	g_ri_calls, g_ri_seq, g_goal_calls, g_cur, g_set_l, g_set_p, g_a3_goal, g_st_blk, g_st_inuse
#define WELLFORMED (gL != gN && INC(gL) && INC(gN) && (gCB & MASK) == 0 && gCB != 0 && gCB < (1ULL << 48) && gC < (1ULL << 28))
#define QUIET(O) (g_set_calls == O(g_set_calls) && g_a3_calls == O(g_a3_calls) && g_st_calls == O(g_st_calls) && g_ri_calls == O(g_ri_calls) && \
	gLm == O(gLm) && gNm == O(gNm) && g_seq == O(g_seq) && g_set_seq == O(g_set_seq) && g_a3_seq == O(g_a3_seq) && \
	g_ri_seq == O(g_ri_seq) && g_set_l == O(g_set_l) && g_set_p == O(g_set_p))
#define IMPL(a, b) (!(a) || (b))
#define PURE(f) (!((f) & (BMAP_SET | BMAP_ALLOC)))
/* BMAP_ALLOC on the unmapped ghost block */
#define AHOLE(f, block) (((f) & BMAP_ALLOC) && !((f) & BMAP_SET) && (block) == gL && !OLD(gLm) && OLD(*phys_blk) == 0)

static errcode_t extent_bmap(ext2_filsys fs, ext2_ino_t ino, struct ext2_inode *inode, ext2_extent_handle_t handle,
			     char *block_buf, int bmap_flags, blk64_t block, int *ret_flags, int *blocks_alloc, blk64_t *phys_blk)
	REQUIRES(fs->cluster_ratio_bits == CRB && BIGALLOC(fs) && WELLFORMED)
	REQUIRES(PURE(bmap_flags) || blocks_alloc != 0)
	REQUIRES(g_seq < 1000 && g_ioerr < 1000)
	REQUIRES(!(bmap_flags & BMAP_ALLOC) || (bmap_flags & BMAP_SET) || (*blocks_alloc >= 0 && *blocks_alloc < 8))
	ASSIGNS(GHOSTS; *phys_blk; ret_flags != 0: *ret_flags; blocks_alloc != 0: *blocks_alloc)
	/* lookup (also what BMAP_ALLOC does for a block that is mapped): the physical block of the extent map, untouched if a hole */
	ENSURES(RET != 0 || (bmap_flags & BMAP_SET) || block != gL || !OLD(gLm) || *phys_blk == PC(gL))
	ENSURES(RET != 0 || (bmap_flags & BMAP_SET) || block != gN || !OLD(gNm) || *phys_blk == PC(gN))
	ENSURES(RET != 0 || !PURE(bmap_flags) || block != gL || OLD(gLm) || *phys_blk == OLD(*phys_blk))
	ENSURES(RET != 0 || !PURE(bmap_flags) || block != gN || OLD(gNm) || *phys_blk == OLD(*phys_blk))
	ENSURES(RET != 0 || !PURE(bmap_flags) || !INC(block) || *phys_blk == OLD(*phys_blk) || *phys_blk == PC(block))
	ENSURES(RET == 0 || !PURE(bmap_flags) || *phys_blk == OLD(*phys_blk))
	/* a lookup fails only on an I/O error of the extent tree (a hole is not an error) and changes nothing */
	ENSURES(!PURE(bmap_flags) || g_ioerr != OLD(g_ioerr) || RET == 0)
	ENSURES(g_ioerr >= OLD(g_ioerr) && g_ioerr <= OLD(g_ioerr) + (PURE(bmap_flags) ? 2 : 100))
	ENSURES(!PURE(bmap_flags) || QUIET(OLD))
	ENSURES(!PURE(bmap_flags) || blocks_alloc == 0 || *blocks_alloc == OLD(*blocks_alloc))
	ENSURES(!((bmap_flags & BMAP_ALLOC) && !(bmap_flags & BMAP_SET) && block == gL && OLD(gLm)) || QUIET(OLD))
	/* BMAP_SET: exactly this mapping is handed to the extent tree */
	ENSURES(!(bmap_flags & BMAP_SET) || (g_set_calls == OLD(g_set_calls) + 1 && g_set_l == block && g_set_p == OLD(*phys_blk) &&
		g_a3_calls == OLD(g_a3_calls) && g_st_calls == OLD(g_st_calls)))
	/* BMAP_ALLOC on a hole whose cluster already has a mapped block: same physical cluster, own offset, NO allocation */
	ENSURES(RET != 0 || !AHOLE(bmap_flags, block) || !BIGALLOC(fs) || !OLD(gNm) || g_ioerr != OLD(g_ioerr) ||
		(g_a3_calls == OLD(g_a3_calls) && g_set_calls == OLD(g_set_calls) + 1 && g_set_l == gL && g_set_p == PC(gL) &&
		 *phys_blk == PC(gL) && *blocks_alloc == OLD(*blocks_alloc) && g_st_calls == OLD(g_st_calls)))
	/* BMAP_ALLOC on a hole in general: one mapping set for this block at its offset inside a cluster — the file's own
	 * cluster without allocation, or a newly allocated one, counted once; the inode is re-read afterwards */
	ENSURES(RET != 0 || !AHOLE(bmap_flags, block) ||
		(g_set_calls == OLD(g_set_calls) + 1 && g_set_l == gL && *phys_blk == g_set_p &&
		 (!BIGALLOC(fs) || (g_set_p & MASK) == (gL & MASK)) &&
		 ((g_a3_calls == OLD(g_a3_calls) && *blocks_alloc == OLD(*blocks_alloc) && BIGALLOC(fs) && g_set_p == PC(gL)) ||
		  (g_a3_calls == OLD(g_a3_calls) + 1 && *blocks_alloc == OLD(*blocks_alloc) + 1 && g_a3_seq < g_set_seq &&
		   (BIGALLOC(fs) ? (g_set_p & ~MASK) == (IN.newblk & ~MASK) : g_set_p == IN.newblk))) &&
		 g_ri_calls == OLD(g_ri_calls) + 1 && g_ri_seq > g_set_seq && g_st_calls == OLD(g_st_calls)))
	ENSURES(g_st_calls <= OLD(g_st_calls) + 1 && g_a3_calls <= OLD(g_a3_calls) + 1)
	ENSURES(g_st_calls == OLD(g_st_calls) || (RET != 0 && g_st_inuse == -1 && g_st_blk == g_set_p))
#ifdef GIVEBACK
	/* only a block allocated by this very call is given back */
	ENSURES(g_st_calls == OLD(g_st_calls) || g_a3_calls == OLD(g_a3_calls) + 1)
#endif
	;

static errcode_t implied_cluster_alloc(ext2_filsys fs, ext2_ino_t ino, struct ext2_inode *inode, ext2_extent_handle_t handle,
				       blk64_t lblk, blk64_t *phys_blk)
	REQUIRES(fs->cluster_ratio_bits == CRB && WELLFORMED && lblk < (1ULL << 32) && g_seq < 1000 && g_ioerr < 1000)
	ASSIGNS(GHOSTS; *phys_blk)
	ENSURES(RET == 0 && QUIET(OLD))
	ENSURES(g_ioerr >= OLD(g_ioerr) && g_ioerr <= OLD(g_ioerr) + 40)
	/* no bigalloc: no implied mapping */
	ENSURES(BIGALLOC(fs) || *phys_blk == OLD(*phys_blk))
	/* a mapped neighbour in the same logical cluster (before OR after lblk): same physical cluster, lblk's own offset */
	ENSURES(!BIGALLOC(fs) || !(INC(lblk) && gN != lblk && gNm) || g_ioerr != OLD(g_ioerr) || *phys_blk == PC(lblk))
	ENSURES(!BIGALLOC(fs) || !(INC(lblk) && gL != lblk && gLm) || g_ioerr != OLD(g_ioerr) || *phys_blk == PC(lblk))
	/* in any case nothing but that block, or nothing */
	ENSURES(!INC(lblk) || *phys_blk == OLD(*phys_blk) || *phys_blk == PC(lblk));

#include "lib/ext2fs/bmap.c"

static struct struct_ext2_filsys FS;
static struct ext2_super_block SB;
static struct ext2_inode INODE;
static blk64_t PHYS_;
static int BALLOC, RF;
static int DUMMY_HANDLE;

static void build(void)
{
	LOAD_IN();
	memset(&FS, 0, sizeof(FS)); memset(&SB, 0, sizeof(SB));
	FS.super = &SB; FS.magic = EXT2_ET_MAGIC_EXT2FS_FILSYS; FS.blocksize = 1024;
	FS.cluster_ratio_bits = CRB;
	SB.s_feature_ro_compat = IN.bigalloc ? EXT4_FEATURE_RO_COMPAT_BIGALLOC : 0;
	gC = IN.C; gCB = IN.CB; gL = IN.L; gN = IN.N; gLm = IN.Lm & 1; gNm = IN.Nm & 1;
	ASSUME(WELLFORMED);
	ASSUME(IN.op != 0 && IN.op < (1ULL << 48) && IN.newblk != 0 && IN.newblk < (1ULL << 48));
	g_ioerr = 0;
	g_ci = g_seq = g_goto_calls = g_get_calls = g_set_calls = g_a3_calls = g_st_calls = g_ri_calls = g_goal_calls = 0;
}

void h_implied(void)
{
	build();
	ASSUME(IN.lblk < (1ULL << 32));
	PHYS_ = 0;
	errcode_t r = implied_cluster_alloc(&FS, 12, &INODE, (ext2_extent_handle_t)&DUMMY_HANDLE, IN.lblk, &PHYS_);
	CHECK(r == 0, "never fails");
	if (!IN.bigalloc) { CHECK(PHYS_ == 0, "no bigalloc: nothing implied"); REACH("no bigalloc"); }
	else if (INC(IN.lblk)) {
		if (gN != IN.lblk && gNm && g_ioerr == 0) {
			CHECK(PHYS_ == gCB + (IN.lblk & MASK), "mapped neighbour: the block of the same physical cluster at lblk's offset");
			if ((IN.lblk & MASK) == 0) REACH("lblk is the FIRST block of its cluster, a later block is mapped");
			if (gN < IN.lblk) REACH("neighbour before lblk");
		}
		CHECK(PHYS_ == 0 || PHYS_ == gCB + (IN.lblk & MASK), "nothing else is ever implied");
		REACH("ghost cluster");
	}
	CHECK(g_set_calls == 0 && g_a3_calls == 0 && g_st_calls == 0, "a pure lookup");
	REACH("end");
}

void h_extent_bmap(void)
{
	build();
	ASSUME(IN.lblk < (1ULL << 32));
	ASSUME(IN.bigalloc);	/* cluster_ratio_bits == 4 goes with the bigalloc feature (ratio 1 without it: then the offset arithmetic is the identity) */
	int flags = IN.flags & (BMAP_ALLOC | BMAP_SET | BMAP_UNINIT);
	PHYS_ = (flags & BMAP_SET) ? IN.physin : 0;
	BALLOC = IN.balloc; ASSUME(BALLOC >= 0 && BALLOC < 4);
	RF = 0;
	unsigned int lm0 = gLm, nm0 = gNm;

	errcode_t r = extent_bmap(&FS, 12, &INODE, (ext2_extent_handle_t)&DUMMY_HANDLE, 0, flags, IN.lblk, IN.have_rf ? &RF : 0, &BALLOC, &PHYS_);

	if (r == 0 && IN.lblk == gL && !(flags & BMAP_SET)) {
		if (lm0) { CHECK(PHYS_ == PC(gL) && g_set_calls == 0 && g_a3_calls == 0, "mapped: the extent map's block, nothing changed"); REACH("mapped"); }
		else if (!(flags & BMAP_ALLOC)) { CHECK(PHYS_ == 0, "hole"); REACH("hole"); }
		else {
			CHECK(g_set_calls == 1 && g_set_l == gL && g_set_p == PHYS_, "one mapping set for the block");
			if (IN.bigalloc && nm0 && g_ioerr == 0) {
				CHECK(PHYS_ == PC(gL) && g_a3_calls == 0 && BALLOC == IN.balloc, "cluster already in use by the file: same physical cluster, own offset, no allocation");
				if ((gL & MASK) == 0) REACH("first block of a cluster whose later block is mapped");
				REACH("implied cluster");
			}
			if (g_a3_calls) { CHECK(BALLOC == IN.balloc + 1 && (!IN.bigalloc || (PHYS_ & MASK) == (gL & MASK)), "new cluster: block at its own offset, counted once"); REACH("allocated"); }
		}
	}
	if (flags & BMAP_SET) { CHECK(g_set_calls == 1 && g_set_l == IN.lblk && g_set_p == IN.physin, "BMAP_SET hands exactly this mapping on"); REACH("set"); }
	if (g_st_calls) {
		CHECK(r != 0 && g_st_inuse == -1, "blocks are given back only on failure");
#ifdef GIVEBACK
		CHECK(g_a3_calls == 1, "only a block this call allocated is given back");
#endif
		REACH("give back");
	}
	REACH("end");
}
