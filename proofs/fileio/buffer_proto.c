/* VERIF-UNIT
{
 "name": "buffer_sync",
 "props": ["C09"],
 "level": "U",
 "tier": "quick",
 "harness": "h_sync",
 "enforce": ["sync_buffer_position"],
 "replace": ["ext2fs_file_flush"],
 "functions": ["lib/ext2fs/fileio.c:sync_buffer_position"],
 "assumes": ["blocksize 1024; buffer coherent and DIRTY => VALID on entry (file_proto.h)",
             "ext2fs_file_flush replaced by its contract (unit buffer_flush): success clears DIRTY of a valid dirty buffer and leaves everything else alone"],
 "native": false,
 "backend": "cadical"
}
*/
/* VERIF-UNIT
{
 "name": "buffer_load",
 "props": ["C09"],
 "level": "U",
 "tier": "quick",
 "harness": "h_load",
 "enforce": ["load_buffer"],
 "functions": ["lib/ext2fs/fileio.c:load_buffer"],
 "assumes": ["blocksize 1024; buffer coherent on entry",
             "disk model, pointwise for the ghost offset G: ext2fs_bmap2 (stub) maps logical block G / bs to the ghost physical block g_P (0 = hole) with the ghost UNINIT flag and any other block arbitrarily; io_channel_read_blk64 (stub) of g_P delivers the disk byte g_disk at G % bs; a hole or an uninitialised extent has content zero (the property's own definition of holes); when the buffer does not hold the block, the file's content is what is on disk (g_byte == g_disk resp. 0)"],
 "native": false,
 "backend": "cadical"
}
*/
/* VERIF-UNIT
{
 "name": "buffer_flush",
 "props": ["C09"],
 "level": "U",
 "tier": "quick",
 "harness": "h_flush",
 "enforce": ["ext2fs_file_flush"],
 "functions": ["lib/ext2fs/fileio.c:ext2fs_file_flush"],
 "assumes": ["blocksize 1024; buffer coherent on entry; file->physblock is the physical block of file->blockno, 0 for a hole (the handle invariant load_buffer / ext2fs_file_write establish and that finding C09_set_size_stale_buffer shows ext2fs_file_set_size2 breaks)",
             "ext2fs_bmap2 and io_channel_write_blk64 are stubs over the ghost disk byte; BMAP_ALLOC yields a non-zero block or fails, BMAP_SET on an uninitialised extent keeps the block"],
 "native": false,
 "backend": "cadical"
}
*/
/*
 * The buffer protocol contracts of file_proto.h, proved against the real sync_buffer_position / load_buffer, and the
 * flush that keeps the content: after a successful flush of the block that holds G, the disk byte equals the file's byte.
 */
#include "verif.h"

#define BS 1024ULL
struct in_bp {
	unsigned long long pos, blockno, physblock, G, P, other, newblk;
	int flags, dontfill, uninit, ino;
	unsigned char byte, disk, bufbyte, badmagic, extents;
	long choice[6];
};
struct in_bp IN;
#include "verif_in.h"

unsigned long long verif_k;
unsigned long long g_G, g_P;
unsigned char g_byte, g_disk;
unsigned int g_ci, g_uninit, g_fl_calls, g_bmap_calls, g_rd_calls, g_wr_calls, g_bmap_flags;
unsigned long long g_wr_blk;
struct ext2_file;
struct ext2_file *g_file;

#include "config.h"
#include "ext2_fs.h"
#include "ext2fs.h"

#define VERIF_INV_FILE_READ
#define VERIF_INV_FILE_WRITE
#include "lib/ext2fs/fileio.c"
#define PROTO_EXTRA_GHOSTS g_fl_calls, g_bmap_calls, g_bmap_flags, g_rd_calls
#include "file_proto.h"

/* ---- ghost disk */
errcode_t ext2fs_bmap2(ext2_filsys fs, ext2_ino_t ino, struct ext2_inode *inode, char *block_buf, int bmap_flags, blk64_t block,
		       int *ret_flags, blk64_t *phys_blk)
{
	g_bmap_calls++; g_bmap_flags = bmap_flags;
	if (PROTO_CH(g_ci++))
		return EXT2_ET_SHORT_READ;
	if (ret_flags) *ret_flags = 0;
	if (block == g_G / BS) {
		if (bmap_flags & BMAP_SET) { g_uninit = 0; return 0; }			/* marks the extent initialised */
		if ((bmap_flags & BMAP_ALLOC) && g_P == 0) { g_P = IN.newblk; g_uninit = 0; g_disk = 0; }
		*phys_blk = g_P;
		if (ret_flags && g_uninit && g_P) *ret_flags = BMAP_RET_UNINIT;
	} else
		*phys_blk = (bmap_flags & BMAP_ALLOC) ? IN.newblk : IN.other;
	return 0;
}
errcode_t io_channel_read_blk64(io_channel channel, unsigned long long block, int count, void *data)
{
	g_rd_calls++;
	if (PROTO_CH(g_ci++))
		return EXT2_ET_SHORT_READ;
	struct proto_blk1k nd;
	*(struct proto_blk1k *)data = nd;
	if (block == g_P && g_P != 0)
		((unsigned char *)data)[g_G % BS] = g_disk;
	return 0;
}
errcode_t io_channel_write_blk64(io_channel channel, unsigned long long block, int count, const void *data)
{
	g_wr_calls++; g_wr_blk = block;
	if (PROTO_CH(g_ci++))
		return EXT2_ET_SHORT_WRITE;
	if (block == g_P && g_P != 0)
		g_disk = ((const unsigned char *)data)[g_G % BS];
	return 0;
}

/* flush as sync_buffer_position sees it */
errcode_t ext2fs_file_flush(ext2_file_t file)
#ifdef VERIF_UNIT_buffer_flush
	REQUIRES(file->fs->blocksize == BS && COHERENT(file) && g_file == file)
	/* the cached physical block, if any, is the block's */
	REQUIRES(!HOLDS(file) || file->physblock == g_P)
	REQUIRES(HOLDS(file) || !(file->flags & EXT2_FILE_BUF_VALID) || file->physblock != g_P || g_P == 0)
	REQUIRES(!g_uninit || (file->inode.i_flags & EXT4_EXTENTS_FL))
	ASSIGNS(file->flags, file->physblock, g_ci, g_bmap_calls, g_bmap_flags, g_wr_calls, g_wr_blk, g_P, g_disk, g_uninit)
	/* nothing to do: nothing done */
	ENSURES(file->magic != EXT2_ET_MAGIC_EXT2_FILE || ((OLD(file->flags) & EXT2_FILE_BUF_VALID) && (OLD(file->flags) & EXT2_FILE_BUF_DIRTY)) ||
		(RET == 0 && file->flags == OLD(file->flags) && g_wr_calls == OLD(g_wr_calls) && g_disk == OLD(g_disk)))
	/* success on a dirty buffer: clean, and the disk now holds the buffer's content for the block (readable: initialised) */
	ENSURES(RET != 0 || file->flags == (OLD(file->flags) & ~EXT2_FILE_BUF_DIRTY) || !((OLD(file->flags) & EXT2_FILE_BUF_VALID) && (OLD(file->flags) & EXT2_FILE_BUF_DIRTY)))
	ENSURES(RET != 0 || !((OLD(file->flags) & EXT2_FILE_BUF_VALID) && (OLD(file->flags) & EXT2_FILE_BUF_DIRTY)) || !HOLDS(file) ||
		(file->ino == 0 && g_P == 0) || (g_P != 0 && g_disk == g_byte && !g_uninit && file->physblock == g_P))
	/* a buffer of another block never touches the ghost block on disk */
	ENSURES(HOLDS(file) || g_disk == OLD(g_disk))
	ENSURES(RET == 0 || file->flags == OLD(file->flags));
#else
	ASSIGNS(file->flags, file->physblock, g_ci, g_fl_calls)
	ENSURES(g_fl_calls == OLD(g_fl_calls) + 1 && g_ci >= OLD(g_ci) && g_ci <= OLD(g_ci) + 1)
	ENSURES(RET != 0 || file->flags == (((OLD(file->flags) & EXT2_FILE_BUF_VALID) && (OLD(file->flags) & EXT2_FILE_BUF_DIRTY)) ?
					      (OLD(file->flags) & ~EXT2_FILE_BUF_DIRTY) : OLD(file->flags)))
	ENSURES(RET == 0 || (file->flags == OLD(file->flags) && file->physblock == OLD(file->physblock)));
#endif

static struct struct_ext2_filsys FS;
static struct ext2_super_block SB;
static struct ext2_file F;
static int DUMMY_IO;

static void build(void)
{
	LOAD_IN();
	memset(&FS, 0, sizeof(FS)); memset(&SB, 0, sizeof(SB)); memset(&F, 0, sizeof(F));
	FS.super = &SB; FS.magic = EXT2_ET_MAGIC_EXT2FS_FILSYS; FS.blocksize = 1024; FS.io = (io_channel)&DUMMY_IO;
	F.magic = IN.badmagic ? 0 : EXT2_ET_MAGIC_EXT2_FILE;
	F.fs = &FS; F.ino = IN.ino; F.flags = IN.flags; F.pos = IN.pos; F.blockno = IN.blockno; F.physblock = IN.physblock;
	F.inode.i_flags = IN.extents ? EXT4_EXTENTS_FL : 0;
	F.buf = malloc(3 * 1024); ASSUME(F.buf != 0);
	g_G = IN.G; g_byte = IN.byte; g_disk = IN.disk; g_P = IN.P; g_uninit = IN.uninit & 1; g_file = &F;
	ASSUME(IN.pos <= (1ULL << 48) && IN.G <= (1ULL << 48) && IN.newblk != 0);
	ASSUME(IN.newblk != IN.P && IN.other != IN.P);	/* the allocator returns free blocks; no block is mapped twice */
	F.buf[g_G % BS] = IN.bufbyte;
	ASSUME(COHERENT(&F));
	/* when the buffer does not hold the block, the file's content is what the disk says (holes and uninitialised
	 * extents are zero) */
	ASSUME(HOLDS(&F) || g_byte == ((g_P == 0 || g_uninit) ? 0 : g_disk));
	ASSUME(!g_uninit || IN.extents);
	g_ci = g_fl_calls = g_bmap_calls = g_rd_calls = g_wr_calls = 0;
}

void h_sync(void)
{
	build();
	ASSUME(DIRTY_IMPLIES_VALID(&F));
	int fl0 = F.flags; unsigned long long b0 = F.blockno;
	errcode_t r = sync_buffer_position((ext2_file_t)&F);
	if (r == 0) {
		CHECK(F.blockno == IN.pos / BS, "the handle's block is the block of the position");
		if (b0 != IN.pos / BS) { CHECK(!(F.flags & (EXT2_FILE_BUF_VALID | EXT2_FILE_BUF_DIRTY)) && g_fl_calls == 1, "block changed: flushed, buffer dropped"); REACH("block changed"); }
		else { CHECK(F.flags == fl0 && g_fl_calls == 0, "same block: nothing happens"); REACH("same block"); }
	} else { CHECK(F.flags == fl0 && F.blockno == b0, "flush failed: nothing changes"); REACH("flush failed"); }
	REACH("end");
}

void h_load(void)
{
	build();
	int fl0 = F.flags;
	errcode_t r = load_buffer((ext2_file_t)&F, IN.dontfill);
	if (r == 0) {
		CHECK(F.flags == (fl0 | EXT2_FILE_BUF_VALID), "buffer valid afterwards");
		if (!(fl0 & EXT2_FILE_BUF_VALID) && !IN.dontfill && F.blockno == g_G / BS) {
			CHECK((unsigned char)F.buf[g_G % BS] == g_byte, "the buffer holds the block's content (zero for a hole / uninitialised extent)");
			if (g_P == 0) REACH("hole reads as zeros");
			if (g_P && g_uninit) REACH("uninitialised extent reads as zeros");
			if (g_P && !g_uninit) REACH("read from disk");
		}
		if (fl0 & EXT2_FILE_BUF_VALID) { CHECK(g_bmap_calls == 0 && g_rd_calls == 0, "a valid buffer is not reloaded"); REACH("already valid"); }
	} else { CHECK(F.flags == fl0, "failure: not marked valid"); REACH("failure"); }
	CHECK(COHERENT(&F) || (IN.dontfill && r == 0 && !(fl0 & EXT2_FILE_BUF_VALID)), "coherent unless the caller promised to overwrite the whole block");
	REACH("end");
}

void h_flush(void)
{
	build();
	ASSUME(!HOLDS(&F) || F.physblock == g_P);
	ASSUME(HOLDS(&F) || !(F.flags & EXT2_FILE_BUF_VALID) || F.physblock != g_P || g_P == 0);
	int fl0 = F.flags; unsigned char d0 = g_disk;
	int dirty = (fl0 & EXT2_FILE_BUF_VALID) && (fl0 & EXT2_FILE_BUF_DIRTY);
	errcode_t r = ext2fs_file_flush((ext2_file_t)&F);
	if (!IN.badmagic) {
		if (!dirty) { CHECK(r == 0 && F.flags == fl0 && g_wr_calls == 0, "clean or invalid buffer: nothing to do"); REACH("nothing to do"); }
		else if (r == 0) {
			CHECK(!(F.flags & EXT2_FILE_BUF_DIRTY), "clean afterwards");
			if (HOLDS(&F) && IN.ino) { CHECK(g_P != 0 && g_disk == g_byte && !g_uninit, "the block is allocated, initialised, and the disk holds the file's byte"); REACH("ghost block flushed"); }
			if (!HOLDS(&F)) { CHECK(g_disk == d0, "another block's flush does not touch the ghost block"); REACH("other block flushed"); }
		} else REACH("failure");
	}
	REACH("end");
}
