/*
 * Shared by the inline-data units (C09): ext2fs_file_read_inline_data / ext2fs_file_write_inline_data of fileio.c
 * with ext2fs_inline_data_get / _set / _expand and ext2fs_read_inode (inline_data.c, inode.c) as stubs over a GHOST
 * model of the inode's inline area, single-index style:
 *   g_cap    size of the inline area = 60 bytes of i_block + length of the "system.data" xattr value
 *            (what ext2fs_inline_data_get reports; always >= 60)
 *   verif_k  one arbitrary byte position, g_byte = area[verif_k] (meaningful while verif_k < g_cap)
 *   g_free   free in-inode xattr space (how far "system.data" may grow), arbitrary with g_cap + g_free <= blocksize
 * Behaviour of the stubs = behaviour of inline_data.c:
 *   get(buf,&size): buf[0..g_cap) = area, size = g_cap
 *   set(buf,size):  size > 60 and size != g_cap and size > g_cap + g_free -> EXT2_ET_INLINE_DATA_NO_SPACE, nothing stored;
 *                   otherwise area[0..size) = buf[0..size), the xattr is resized so that g_cap = max(60, size)
 *                   (bytes of i_block beyond size keep their value, xattr bytes beyond size are dropped); does NOT touch i_size
 *   expand():       converts the file to a block/extent mapped one (g_expanded = 1), content preserved
 *   each may instead fail with an I/O error (IN.choice[]), changing nothing.
 * The FILE (format / kernel definition): size = i_size (EXT2_I_SIZE), content = area[0..i_size); well-formed inline
 * inode: 60 <= g_cap <= blocksize, i_size <= g_cap, area bytes in [i_size, g_cap) are zero padding.
 */
#include "verif.h"

#define BLOCKSIZE 1024u			/* smallest block size: file->buf has 3*blocksize bytes (ext2fs_file_open2) */
#define FILEBUF_SZ (3u * BLOCKSIZE)
#define CAP_MAX BLOCKSIZE		/* the xattr lives inside the inode and an inode is at most one block */
#define NB_MAX 4096u			/* cap on the size of the caller's buffer object (assumption) */

struct in_inl {
	unsigned long long pos;
	unsigned long long isize;
	unsigned int cap, free;
	unsigned int nbytes;
	unsigned long long k;
	unsigned char byte, src;
	unsigned char choice[6];	/* stub failures, consumed in order */
	unsigned char setsize_may_fail;
	unsigned char null_out;
};
struct in_inl IN;
#include "verif_in.h"

unsigned long long verif_k;
unsigned long long g_cap, g_free;
unsigned char g_byte;
unsigned int g_choice, g_expanded, g_set_calls, g_setsize_calls, g_setsize_may_fail;
/* entry values (ghost "old") */
unsigned long long g_pos0, g_isize0, g_cap0;
unsigned char g_byte0, g_src;

/* named loop anchors of ext2fs_file_read / ext2fs_file_write (hooks-pending/fio.diff): unused by this unit */
#ifndef VERIF_INV_FILE_READ
#define VERIF_INV_FILE_READ
#endif
#ifndef VERIF_INV_FILE_WRITE
#define VERIF_INV_FILE_WRITE
#endif
#include "config.h"
#include "ext2_fs.h"
#include "ext2fs.h"

#define FAIL_NOW() (IN.choice[(g_choice++) % 6] & 1)
#define VERIF_EIO EXT2_ET_SHORT_READ

errcode_t ext2fs_inline_data_get(ext2_filsys fs, ext2_ino_t ino, struct ext2_inode *inode, void *buf, size_t *size)
{
	if (FAIL_NOW())
		return VERIF_EIO;
	if (verif_k < g_cap)
		((unsigned char *)buf)[verif_k] = g_byte;
	if (size)
		*size = g_cap;
	return 0;
}

errcode_t ext2fs_inline_data_set(ext2_filsys fs, ext2_ino_t ino, struct ext2_inode *inode, void *buf, size_t size)
{
	if (FAIL_NOW())
		return VERIF_EIO;
	if (size > EXT4_MIN_INLINE_DATA_SIZE && size != g_cap && size > g_cap + g_free)
		return EXT2_ET_INLINE_DATA_NO_SPACE;
	g_set_calls++;
	if (verif_k < size)
		g_byte = ((unsigned char *)buf)[verif_k];
	g_cap = size > EXT4_MIN_INLINE_DATA_SIZE ? size : EXT4_MIN_INLINE_DATA_SIZE;
	return 0;
}

errcode_t ext2fs_inline_data_expand(ext2_filsys fs, ext2_ino_t ino)
{
	if (FAIL_NOW())
		return VERIF_EIO;
	g_expanded = 1;
	return 0;
}

errcode_t ext2fs_read_inode(ext2_filsys fs, ext2_ino_t ino, struct ext2_inode *inode)
{
	if (FAIL_NOW())
		return VERIF_EIO;
	if (g_expanded)
		inode->i_flags &= ~EXT4_INLINE_DATA_FL;
	return 0;
}

/*
 * libc memcpy as seen by the two functions.  CBMC's built-in byte-array model (and __CPROVER_havoc_slice in a replaced
 * contract) with a symbolic length and a symbolic offset does not get through the back end, so memcpy is modelled here:
 *   - source readable / destination writable for n bytes are ASSERTED at every call: this is the obligation
 *     "every memcpy stays inside file->buf" (and inside the caller's buffer); execution stops after a violation;
 *   - the copy is faithful at ONE ghost index verif_mc_k (= verif_k - pos on entry, the byte that lands on / comes
 *     from area position verif_k; true of memcpy for every index);
 *   - every other byte of the destination OBJECT becomes unconstrained (over-approximation), except the tracked byte
 *     *verif_keep (= &file->buf[verif_k]) when it lies outside [dst, dst+n): memcpy does not touch it.
 */
unsigned long long verif_mc_k;
unsigned char *verif_keep;	/* = &file->buf[verif_k] */
void *memcpy(void *dst, const void *src, size_t n)
{
	__CPROVER_assert(__CPROVER_r_ok(src, n), "CHECK:memcpy source readable");
	__CPROVER_assert(__CPROVER_w_ok(dst, n), "CHECK:memcpy destination writable");
	__CPROVER_assume(__CPROVER_r_ok(src, n) && __CPROVER_w_ok(dst, n));
	if (n > 0) {
		unsigned char v = verif_mc_k < n ? ((const unsigned char *)src)[verif_mc_k] : 0;
		/* whole destination object unconstrained, except the tracked byte when it lies outside [dst, dst+n) */
		int keep = __CPROVER_same_object(verif_keep, dst) &&
			!(__CPROVER_POINTER_OFFSET(verif_keep) >= __CPROVER_POINTER_OFFSET(dst) &&
			  (unsigned long long)(__CPROVER_POINTER_OFFSET(verif_keep) - __CPROVER_POINTER_OFFSET(dst)) < n);
		unsigned char kv = keep ? *verif_keep : 0;
		__CPROVER_havoc_object(dst);
		if (keep)
			*verif_keep = kv;
		if (verif_mc_k < n)
			((unsigned char *)dst)[verif_mc_k] = v;
	}
	return dst;
}

#define ISIZE(file) EXT2_I_SIZE(&(file)->inode)
#define WELL_FORMED(file) (g_cap >= EXT4_MIN_INLINE_DATA_SIZE && g_cap + g_free <= CAP_MAX && ISIZE(file) <= g_cap && \
	verif_k < CAP_MAX && (!(verif_k >= ISIZE(file) && verif_k < g_cap) || g_byte == 0))
#define OLDS_TIED(file) (g_pos0 == (file)->pos && g_isize0 == ISIZE(file) && g_cap0 == g_cap && g_byte0 == g_byte && \
	verif_mc_k == verif_k - (file)->pos && g_choice == 0 && g_expanded == 0 && g_set_calls == 0 && g_setsize_calls == 0)
#define UMAX(a, b) ((a) > (b) ? (a) : (b))
#define UMIN(a, b) ((a) < (b) ? (a) : (b))
