/* VERIF-UNIT
{
 "name": "block_alloc_stats2",
 "props": ["C09"],
 "level": "U",
 "tier": "quick",
 "harness": "h_block_alloc_stats2",
 "enforce": ["ext2fs_block_alloc_stats2"],
 "functions": ["lib/ext2fs/alloc_stats.c:ext2fs_block_alloc_stats2"],
 "assumes": ["inuse is +1 or -1 (all call sites)",
             "bitmap / group-descriptor / superblock-count accessors are stubs over single-index ghost state (see alloc_stats_common.h); ext2fs_group_of_blk2 is a stub returning an arbitrary group, valid (< group_desc_count) when the block is valid: the statement is relative to that block->group map",
             "0 <= cluster_ratio_bits <= 19; the ghost group's descriptor checksum is current on entry"],
 "native": false,
 "backend": "cadical"
}
*/
/* VERIF-UNIT
{
 "name": "inode_alloc_stats2",
 "props": ["C09"],
 "level": "U",
 "tier": "obs",
 "harness": "h_inode_alloc_stats2",
 "enforce": ["ext2fs_inode_alloc_stats2"],
 "functions": ["lib/ext2fs/alloc_stats.c:ext2fs_inode_alloc_stats2"],
 "assumes": ["inuse is +1 or -1 (all call sites)",
             "accessors are stubs over single-index ghost state; ext2fs_group_of_ino is a stub returning an arbitrary group which, for a valid inode, is < group_desc_count and contains the inode (base < ino <= base+ipg with base = (u32)(group*ipg), base+ipg < 2^32-1 (inodes per group is a multiple of 8, so s_inodes_count <= 2^32-8))",
             "bg_itable_unused of the ghost group <= s_inodes_per_group (valid descriptor, e2fsck pass5 enforces it)",
             "FULL contract: inode number 0 is out of range and must change nothing"],
 "native": false,
 "backend": "cadical"
}
*/
/* VERIF-UNIT
{
 "name": "inode_alloc_stats2_nonzero",
 "props": ["C09"],
 "level": "U",
 "tier": "quick",
 "harness": "h_inode_alloc_stats2_nonzero",
 "enforce": ["ext2fs_inode_alloc_stats2"],
 "functions": ["lib/ext2fs/alloc_stats.c:ext2fs_inode_alloc_stats2"],
 "assumes": ["as inode_alloc_stats2, but the harness excludes ino == 0 (finding C09 inode_alloc_stats2 accepts inode 0)"],
 "native": false,
 "backend": "cadical"
}
*/
#include "alloc_stats_common.h"

unsigned long long g_gof_arg;	/* argument of the last group_of lookup */
unsigned int g_gof_calls;
dgrp_t ext2fs_group_of_blk2(ext2_filsys fs, blk64_t blk) { g_gof_arg = blk; g_gof_calls++; return IN.group; }
dgrp_t ext2fs_group_of_ino(ext2_filsys fs, ext2_ino_t ino) { g_gof_arg = ino; g_gof_calls++; return IN.group; }

#define BLK_VALID(fs, blk) ((blk) >= (fs)->super->s_first_data_block && (blk) < IN.blocks_count)
#define INO_VALID(fs, ino) ((ino) >= 1 && (ino) <= (fs)->super->s_inodes_count)
#define CSUM(fs) (((fs)->super->s_feature_ro_compat & (EXT4_FEATURE_RO_COMPAT_GDT_CSUM | EXT4_FEATURE_RO_COMPAT_METADATA_CSUM)) != 0)
#define GHOSTS g_bit, g_gfree, g_gdirs, g_gflags, g_gunused, g_gfresh, g_sfree, g_other, g_cb_calls, g_cb_blk, g_cb_num, \
	g_cb_inuse, g_cb_flags_seen, g_cb_sfree_seen, g_badgroup, g_touch, g_gof_arg, g_gof_calls
#define MIN(a, b) ((a) < (b) ? (a) : (b))

void ext2fs_block_alloc_stats2(ext2_filsys fs, blk64_t blk, int inuse)
	REQUIRES(inuse == 1 || inuse == -1)
	REQUIRES(fs->cluster_ratio_bits >= 0 && fs->cluster_ratio_bits <= 19)
	REQUIRES(!BLK_VALID(fs, blk) || IN.group < fs->group_desc_count)
	REQUIRES(g_gfresh == 1 && g_cb_calls == 0 && g_badgroup == 0 && g_touch == 0)
	ASSIGNS(GHOSTS, fs->flags)
	/* out-of-range block: nothing changes, nobody is told */
	ENSURES(BLK_VALID(fs, blk) || (g_touch == 0 && fs->flags == OLD(fs->flags) && g_cb_calls == 0))
	/* valid block: bit, group count, superblock count, flags move together */
	ENSURES(!BLK_VALID(fs, blk) || g_bit == (verif_k == (blk >> fs->cluster_ratio_bits) ? (inuse > 0) : OLD(g_bit)))
	ENSURES(!BLK_VALID(fs, blk) || g_gof_arg == blk)
	ENSURES(!BLK_VALID(fs, blk) || g_gfree == (g_G == IN.group ? OLD(g_gfree) - (unsigned int)inuse : OLD(g_gfree)))
	ENSURES(!BLK_VALID(fs, blk) || g_gflags == (g_G == IN.group ? (OLD(g_gflags) & ~(unsigned int)EXT2_BG_BLOCK_UNINIT) : OLD(g_gflags)))
	ENSURES(!BLK_VALID(fs, blk) || g_gfresh == 1)
	ENSURES(!BLK_VALID(fs, blk) || g_sfree == (inuse > 0 ? OLD(g_sfree) - (1ULL << fs->cluster_ratio_bits) : OLD(g_sfree) + (1ULL << fs->cluster_ratio_bits)))
	ENSURES(!BLK_VALID(fs, blk) || fs->flags == (OLD(fs->flags) | EXT2_FLAG_DIRTY | EXT2_FLAG_CHANGED | EXT2_FLAG_BB_DIRTY))
	ENSURES(!BLK_VALID(fs, blk) || g_badgroup == 0)
	ENSURES(g_gdirs == OLD(g_gdirs) && g_gunused == OLD(g_gunused))
	/* the allocation callback (e2fsck keeps block_found_map with it) hears about exactly this block, after the update */
	ENSURES(!BLK_VALID(fs, blk) || (fs->block_alloc_stats ?
		(g_cb_calls == 1 && g_cb_blk == blk && g_cb_inuse == inuse && g_cb_flags_seen == fs->flags && g_cb_sfree_seen == g_sfree) :
		g_cb_calls == 0));

void ext2fs_inode_alloc_stats2(ext2_filsys fs, ext2_ino_t ino, int inuse, int isdir)
	REQUIRES(inuse == 1 || inuse == -1)
	/* the group the stub returns contains the inode: base < ino <= base + ipg, with base = group * ipg (32-bit, as on disk) */
	REQUIRES(!INO_VALID(fs, ino) || (IN.group < fs->group_desc_count &&
		IN.group * fs->super->s_inodes_per_group < ino &&
		ino - IN.group * fs->super->s_inodes_per_group <= fs->super->s_inodes_per_group &&
		fs->super->s_inodes_per_group <= 0xFFFFFFFEu &&
		IN.group * fs->super->s_inodes_per_group <= 0xFFFFFFFEu - fs->super->s_inodes_per_group))
	REQUIRES(g_gunused <= fs->super->s_inodes_per_group)
	REQUIRES(g_gfresh == 1 && g_cb_calls == 0 && g_badgroup == 0 && g_touch == 0)
	ASSIGNS(GHOSTS, fs->flags, fs->super->s_free_inodes_count)
	ENSURES(INO_VALID(fs, ino) || (g_touch == 0 && fs->flags == OLD(fs->flags) &&
		fs->super->s_free_inodes_count == OLD(fs->super->s_free_inodes_count)))
	ENSURES(!INO_VALID(fs, ino) || g_bit == (verif_k == ino ? (inuse > 0) : OLD(g_bit)))
	ENSURES(!INO_VALID(fs, ino) || g_gof_arg == ino)
	ENSURES(!INO_VALID(fs, ino) || g_gfree == (g_G == IN.group ? OLD(g_gfree) - (unsigned int)inuse : OLD(g_gfree)))
	ENSURES(!INO_VALID(fs, ino) || g_gdirs == (g_G == IN.group && isdir ? OLD(g_gdirs) + (unsigned int)inuse : OLD(g_gdirs)))
	ENSURES(!INO_VALID(fs, ino) || g_gflags == (g_G == IN.group ? (OLD(g_gflags) & ~(unsigned int)EXT2_BG_INODE_UNINIT) : OLD(g_gflags)))
	/* bg_itable_unused (format: number of never-used inodes at the end of the group's table) must not cover ino any more */
	ENSURES(!INO_VALID(fs, ino) || g_gunused == (g_G == IN.group && CSUM(fs) ?
		MIN(OLD(g_gunused), IN.group * fs->super->s_inodes_per_group + fs->super->s_inodes_per_group - ino) : OLD(g_gunused)))
	/* descriptor checksum current again whenever the feature is on */
	ENSURES(!INO_VALID(fs, ino) || !CSUM(fs) || g_gfresh == 1)
	ENSURES(!INO_VALID(fs, ino) || fs->super->s_free_inodes_count == OLD(fs->super->s_free_inodes_count) - (unsigned int)inuse)
	ENSURES(!INO_VALID(fs, ino) || fs->flags == (OLD(fs->flags) | EXT2_FLAG_DIRTY | EXT2_FLAG_CHANGED | EXT2_FLAG_IB_DIRTY))
	ENSURES(!INO_VALID(fs, ino) || g_badgroup == 0)
	ENSURES(g_sfree == OLD(g_sfree));

#include "lib/ext2fs/alloc_stats.c"

void h_block_alloc_stats2(void)
{
	build_fs();
	ASSUME(IN.inuse == 1 || IN.inuse == -1);
	int valid = IN.blk >= IN.first_data_block && IN.blk < IN.blocks_count;
	ASSUME(!valid || IN.group < IN.group_desc_count);
	FS.block_alloc_stats = IN.have_cb ? cb_single : 0;
	int bit0 = g_bit, flags0 = FS.flags;
	unsigned int gfree0 = g_gfree, gflags0 = g_gflags;
	unsigned long long sfree0 = g_sfree;

	ext2fs_block_alloc_stats2(&FS, IN.blk, IN.inuse);

	if (!valid) {
		CHECK(g_touch == 0 && g_bit == bit0 && g_gfree == gfree0 && g_gflags == gflags0 && g_sfree == sfree0 &&
		      FS.flags == flags0 && g_cb_calls == 0, "block out of range: nothing changes");
		REACH("invalid");
	} else {
		CHECK(g_bit == (verif_k == (IN.blk >> IN.crb) ? (IN.inuse > 0) : bit0), "bitmap: exactly the block's cluster bit becomes inuse");
		CHECK(g_gof_arg == IN.blk, "the group charged is the block's group");
		CHECK(g_gfree == (g_G == IN.group ? gfree0 - (unsigned int)IN.inuse : gfree0), "group free count moves by -inuse in the block's group only");
		CHECK(g_gflags == (g_G == IN.group ? (gflags0 & ~(unsigned int)EXT2_BG_BLOCK_UNINIT) : gflags0), "BLOCK_UNINIT cleared in the block's group only");
		CHECK(g_gfresh == 1, "descriptor checksum recomputed after the change");
		CHECK(g_sfree == (IN.inuse > 0 ? sfree0 - (1ULL << IN.crb) : sfree0 + (1ULL << IN.crb)), "superblock free blocks move by -inuse * cluster ratio");
		CHECK(FS.flags == (flags0 | EXT2_FLAG_DIRTY | EXT2_FLAG_CHANGED | EXT2_FLAG_BB_DIRTY), "super and block bitmap marked dirty");
		CHECK(g_badgroup == 0, "descriptor accessors only called with a valid group");
		CHECK(IN.have_cb ? (g_cb_calls == 1 && g_cb_blk == IN.blk && g_cb_inuse == IN.inuse) : g_cb_calls == 0, "callback told exactly once about this block");
		REACH("valid");
		if (IN.have_cb) REACH("valid with callback");
	}
	REACH("end");
}

static void inode_body(void)
{
	ASSUME(IN.inuse == 1 || IN.inuse == -1);
	int valid = IN.ino >= 1 && IN.ino <= IN.inodes_count;
	unsigned int base = IN.group * IN.ipg;
	ASSUME(!valid || (IN.group < IN.group_desc_count && base < IN.ino && IN.ino - base <= IN.ipg && IN.ipg <= 0xFFFFFFFEu && base <= 0xFFFFFFFEu - IN.ipg));
	ASSUME(g_gunused <= IN.ipg);
	int bit0 = g_bit, flags0 = FS.flags;
	unsigned int gfree0 = g_gfree, gflags0 = g_gflags, gdirs0 = g_gdirs, gunused0 = g_gunused, sfi0 = SB.s_free_inodes_count;
	int csum = (IN.feature_ro_compat & (EXT4_FEATURE_RO_COMPAT_GDT_CSUM | EXT4_FEATURE_RO_COMPAT_METADATA_CSUM)) != 0;

	ext2fs_inode_alloc_stats2(&FS, IN.ino, IN.inuse, IN.isdir);

	if (!valid) {
		CHECK(g_touch == 0 && g_bit == bit0 && g_gfree == gfree0 && g_gflags == gflags0 && g_gdirs == gdirs0 &&
		      g_gunused == gunused0 && SB.s_free_inodes_count == sfi0 && FS.flags == flags0, "inode out of range: nothing changes");
		REACH("invalid");
	} else {
		unsigned int newunused = base + IN.ipg - IN.ino;
		CHECK(g_bit == (verif_k == IN.ino ? (IN.inuse > 0) : bit0), "bitmap: exactly the inode's bit becomes inuse");
		CHECK(g_gof_arg == IN.ino, "the group charged is the inode's group");
		CHECK(g_gfree == (g_G == IN.group ? gfree0 - (unsigned int)IN.inuse : gfree0), "group free inodes move by -inuse in the inode's group only");
		CHECK(g_gdirs == (g_G == IN.group && IN.isdir ? gdirs0 + (unsigned int)IN.inuse : gdirs0), "used_dirs moves by +inuse for directories only");
		CHECK(g_gflags == (g_G == IN.group ? (gflags0 & ~(unsigned int)EXT2_BG_INODE_UNINIT) : gflags0), "INODE_UNINIT cleared in the inode's group only");
		CHECK(g_gunused == (g_G == IN.group && csum ? MIN(gunused0, newunused) : gunused0), "itable_unused no longer covers the inode, otherwise unchanged");
		CHECK(!csum || g_gfresh == 1, "descriptor checksum recomputed after the change");
		CHECK(SB.s_free_inodes_count == sfi0 - (unsigned int)IN.inuse, "superblock free inodes move by -inuse");
		CHECK(FS.flags == (flags0 | EXT2_FLAG_DIRTY | EXT2_FLAG_CHANGED | EXT2_FLAG_IB_DIRTY), "super and inode bitmap marked dirty");
		CHECK(g_badgroup == 0, "descriptor accessors only called with a valid group");
		REACH("valid");
		if (csum && g_G == IN.group && g_gunused != gunused0) REACH("itable_unused lowered");
	}
	REACH("end");
}

void h_inode_alloc_stats2(void)
{
	build_fs();
	inode_body();
}

void h_inode_alloc_stats2_nonzero(void)
{
	build_fs();
	ASSUME(IN.ino != 0);
	inode_body();
}
