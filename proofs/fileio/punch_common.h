/*
 * Shared by the punch units (C09: "truncate/punch frees exactly the blocks in range" for block-mapped files).
 * The specification is specs/c09_ind_spec.h (ext2 indirect map, from the format).  Blocksize 1024 only (A = 256).
 *
 * GHOST PATH (single-index style, no quantifiers).  One arbitrary logical block is followed through the tree:
 *   g_K0..g_K3   the slot index it selects in its level-0 .. level-3 array
 *   g_PB0..g_PB2 the block numbers of the level-0 / level-1 / level-2 arrays ON the path (block g_PBj holds an
 *                array of level j); distinct and non-zero
 *   g_dvJ        the CURRENT on-disk value of slot g_KJ of block g_PBJ          (J = 0, 1, 2)
 *   g_wrJ        number of ext2fs_write_ind_block() calls on block g_PBJ
 *   g_azJ        the last image written to block g_PBJ was all zero (computed by the stub with c09_all_zero_1k,
 *                independently of check_zero_block)
 *   g_Bstar      one arbitrary block number; g_relB = ext2fs_block_alloc_stats(g_Bstar, -1) was called (sticky flag)
 *   g_rel        total number of blocks released; g_isub = sum of the counts given to ext2fs_iblk_sub_blocks
 *   g_badrel     a release with inuse != -1 was seen
 * The disk is a stub: ext2fs_read_ind_block(blk) returns an ARBITRARY image, except that reading path block g_PBJ
 * yields g_dvJ in slot g_KJ; ext2fs_write_ind_block(g_PBJ) records slot g_KJ and the all-zero flag.  Other words
 * of a block read as arbitrary values on every read (sound for pointwise statements about the ghost path).
 *
 * ENVIRONMENT ASSUMPTION (stated in every unit's `assumes`): the file has no multiply-referenced indirect block on
 * the ghost path — block g_PBJ is referenced by exactly one slot (slot g_K(J+1) of the level-(J+1) path array).
 * It is encoded in the read stub: while the REAL loop of ind_punch runs at level g_lev on slot g_cur (both recorded
 * by the ghost statement VERIF_GHOST_IND_PUNCH_ITER), a path block may only be read as the child of the ghost slot,
 * and an off-path block's ghost slot never points back into the path.  Without it the property itself is false
 * (punching one reference also unmaps the blocks reached through the other one).
 */
#include "verif.h"
#include "c09_ind_spec.h"

struct in_punch {
	unsigned int iblock[15];
	int level, max, top, off;
	unsigned long long start, count, end;
	unsigned int K[4], PB[3], DV[3];
	unsigned int Bstar, slotv;
	unsigned int T;				/* tree of the ghost logical block (punch_ind unit) */
	unsigned int choice[8];			/* stub error returns, consumed in order */
};
struct in_punch IN;
#include "verif_in.h"

unsigned long long verif_k;
unsigned int g_K0, g_K1, g_K2, g_K3, g_PB0, g_PB1, g_PB2;
unsigned int g_dv0, g_dv1, g_dv2, g_wr0, g_wr1, g_wr2, g_az0, g_az1, g_az2;
unsigned int g_Bstar;
unsigned long long g_rel, g_relB, g_isub;
unsigned int g_badrel, g_ci;
int g_cur, g_lev;				/* slot / level of the running real ind_punch loop */

#define G_K(l) ((l) == 0 ? g_K0 : (l) == 1 ? g_K1 : (l) == 2 ? g_K2 : g_K3)
#define GHOSTS g_dv0, g_dv1, g_dv2, g_wr0, g_wr1, g_wr2, g_az0, g_az1, g_az2, g_rel, g_relB, g_isub, g_badrel, g_ci, g_cur, g_lev

/* ------------------------------------------------------------------ the pointwise punch specification
 * O(x) is the value of x before the operation (OLD in contracts, __CPROVER_loop_entry in invariants, a harness
 * snapshot in CHECKs).  v / v0 = value of the ghost slot of the level-j array after / before; [s, e) the range
 * relative to that array. */
#define REL_OK(O, v0)	((v0) != g_Bstar || g_relB)
#define FR0(O)		(g_dv0 == O(g_dv0) && g_wr0 == O(g_wr0) && g_az0 == O(g_az0))
#define FR1(O)		(FR0(O) && g_dv1 == O(g_dv1) && g_wr1 == O(g_wr1) && g_az1 == O(g_az1))
#define FR2(O)		(FR1(O) && g_dv2 == O(g_dv2) && g_wr2 == O(g_wr2) && g_az2 == O(g_az2))
/* nothing on the path strictly below a level-l array changed */
#define FRBELOW(O, l)	((l) <= 0 ? 1 : (l) == 1 ? FR0(O) : (l) == 2 ? FR1(O) : FR2(O))

#define SPEC0(O, v, v0, s, e) \
	(C09_HIT(0, g_K0, v0, s, e) ? ((v) == 0 && REL_OK(O, v0)) : (v) == (v0))
/* (three textually identical generators: a macro cannot expand itself recursively)
 * level j > 0: untouched / off the ghost path (child not modelled: kept or cleared+released) / on the path */
#define SPECN1(O, v, v0, s, e, j, Kj, PBc, wrc, azc, dvc, FRc, SPECc) \
	(!C09_HIT(j, Kj, v0, s, e) ? ((v) == (v0) && FRc(O)) : \
	 (v0) != (PBc) ? (((v) == (v0) || ((v) == 0 && REL_OK(O, v0))) && FRc(O)) : \
	 ((wrc) == O(wrc) + 1 && (v) == ((azc) ? 0 : (v0)) && (!(azc) || (REL_OK(O, v0) && (dvc) == 0)) && \
	  SPECc(O, dvc, O(dvc), C09_S2(j, Kj, s), C09_E2(j, Kj, e))))
#define SPECN2(O, v, v0, s, e, j, Kj, PBc, wrc, azc, dvc, FRc, SPECc) \
	(!C09_HIT(j, Kj, v0, s, e) ? ((v) == (v0) && FRc(O)) : \
	 (v0) != (PBc) ? (((v) == (v0) || ((v) == 0 && REL_OK(O, v0))) && FRc(O)) : \
	 ((wrc) == O(wrc) + 1 && (v) == ((azc) ? 0 : (v0)) && (!(azc) || (REL_OK(O, v0) && (dvc) == 0)) && \
	  SPECc(O, dvc, O(dvc), C09_S2(j, Kj, s), C09_E2(j, Kj, e))))
#define SPECN3(O, v, v0, s, e, j, Kj, PBc, wrc, azc, dvc, FRc, SPECc) \
	(!C09_HIT(j, Kj, v0, s, e) ? ((v) == (v0) && FRc(O)) : \
	 (v0) != (PBc) ? (((v) == (v0) || ((v) == 0 && REL_OK(O, v0))) && FRc(O)) : \
	 ((wrc) == O(wrc) + 1 && (v) == ((azc) ? 0 : (v0)) && (!(azc) || (REL_OK(O, v0) && (dvc) == 0)) && \
	  SPECc(O, dvc, O(dvc), C09_S2(j, Kj, s), C09_E2(j, Kj, e))))
#define SPEC1(O, v, v0, s, e) SPECN1(O, v, v0, s, e, 1, g_K1, g_PB0, g_wr0, g_az0, g_dv0, FR0, SPEC0)
#define SPEC2(O, v, v0, s, e) SPECN2(O, v, v0, s, e, 2, g_K2, g_PB1, g_wr1, g_az1, g_dv1, FR1, SPEC1)
#define SPEC3(O, v, v0, s, e) SPECN3(O, v, v0, s, e, 3, g_K3, g_PB2, g_wr2, g_az2, g_dv2, FR2, SPEC2)
#define SPECL(O, l, v, v0, s, e) \
	((l) == 0 ? SPEC0(O, v, v0, s, e) : (l) == 1 ? SPEC1(O, v, v0, s, e) : \
	 (l) == 2 ? SPEC2(O, v, v0, s, e) : SPEC3(O, v, v0, s, e))
/* on an error return: a slot the range does not meet is untouched, and the path below the slot is untouched unless
 * the slot is met AND is the one that leads down the ghost path */
#define G_PB(j) ((j) == 0 ? g_PB0 : (j) == 1 ? g_PB1 : g_PB2)
#define ERRSPEC(O, l, v, v0, s, e) \
	((C09_HIT(l, G_K(l), v0, s, e) || (v) == (v0)) && \
	 ((C09_HIT(l, G_K(l), v0, s, e) && (l) > 0 && (v0) == G_PB((l) - 1)) || FRBELOW(O, l)))
/* ghost state of levels the call cannot reach (a level-l call writes arrays of level < l only) */
#define UNREACHED(O, l) \
	(((l) > 0 || (g_dv0 == O(g_dv0) && g_wr0 == O(g_wr0) && g_az0 == O(g_az0))) && \
	 ((l) > 1 || (g_dv1 == O(g_dv1) && g_wr1 == O(g_wr1) && g_az1 == O(g_az1))) && \
	 ((l) > 2 || (g_dv2 == O(g_dv2) && g_wr2 == O(g_wr2) && g_az2 == O(g_az2))))

#include "config.h"
#include "ext2_fs.h"
#include "ext2fs.h"

static struct struct_ext2_filsys FS;
static struct ext2_super_block SB;
static struct ext2_inode INODE;

struct blk1k { unsigned int w[C09_APB]; };
struct blk12 { unsigned int w[12]; };
struct blk2k { unsigned int w[2 * C09_APB]; };
struct blk3k { unsigned int w[3 * C09_APB]; };
#define CHOICE() (IN.choice[(g_ci++) & 7])

/* ---- disk stubs (ind_block.c) */
errcode_t ext2fs_read_ind_block(ext2_filsys fs, blk_t blk, void *buf)
{
	struct blk1k nd;			/* uninitialised = arbitrary image */
	unsigned int *w = (unsigned int *)buf;
	if (CHOICE() & 1)
		return EXT2_ET_SHORT_READ;
	*(struct blk1k *)buf = nd;
	if (blk == g_PB0 || blk == g_PB1 || blk == g_PB2) {
		int j = blk == g_PB0 ? 0 : blk == g_PB1 ? 1 : 2;
		/* no multiply-referenced path block: it is read only as the child of the ghost slot of its parent array */
		ASSUME(j == g_lev - 1 && g_cur == (int)G_K(g_lev));
		w[G_K(j)] = j == 0 ? g_dv0 : j == 1 ? g_dv1 : g_dv2;
	} else if (g_lev >= 2) {
		/* ... and no off-path array refers to a path block */
		ASSUME(w[G_K(g_lev - 1)] != (g_lev == 2 ? g_PB0 : g_PB1));
	}
	return 0;
}
errcode_t ext2fs_write_ind_block(ext2_filsys fs, blk_t blk, void *buf)
{
	const unsigned int *w = (const unsigned int *)buf;
	if (CHOICE() & 1)
		return EXT2_ET_SHORT_WRITE;
	if (blk == g_PB0 || blk == g_PB1 || blk == g_PB2) {
		unsigned int az = c09_all_zero_1k(buf);
		if (blk == g_PB0) { g_dv0 = w[g_K0]; g_az0 = az; g_wr0++; }
		else if (blk == g_PB1) { g_dv1 = w[g_K1]; g_az1 = az; g_wr1++; }
		else { g_dv2 = w[g_K2]; g_az2 = az; g_wr2++; }
	}
	return 0;
}
/* ---- allocator / i_blocks stubs (alloc_stats.c, i_block.c: proved by fileio/block_alloc_stats2, fileio/iblk_sub_blocks) */
void ext2fs_block_alloc_stats(ext2_filsys fs, blk_t blk, int inuse)
{
	if (inuse != -1) g_badrel = 1;
	g_rel++;
	if (blk == g_Bstar) g_relB = 1;
}
errcode_t ext2fs_iblk_sub_blocks(ext2_filsys fs, struct ext2_inode *inode, blk64_t num_blocks)
{
	if (CHOICE() & 1)
		return EOVERFLOW;
	g_isub += num_blocks;
	return 0;
}

static void build_ghosts(void)
{
	LOAD_IN();
	memset(&FS, 0, sizeof(FS));
	memset(&SB, 0, sizeof(SB));
	FS.super = &SB;
	FS.magic = EXT2_ET_MAGIC_EXT2FS_FILSYS;
	FS.blocksize = 1024;
	SB.s_log_block_size = 0;
	g_K0 = IN.K[0]; g_K1 = IN.K[1]; g_K2 = IN.K[2]; g_K3 = IN.K[3];
	ASSUME(g_K0 < C09_APB && g_K1 < C09_APB && g_K2 < C09_APB && g_K3 < C09_APB);
	g_PB0 = IN.PB[0]; g_PB1 = IN.PB[1]; g_PB2 = IN.PB[2];
	ASSUME(g_PB0 != 0 && g_PB1 != 0 && g_PB2 != 0 && g_PB0 != g_PB1 && g_PB0 != g_PB2 && g_PB1 != g_PB2);
	g_dv0 = IN.DV[0]; g_dv1 = IN.DV[1]; g_dv2 = IN.DV[2];
	g_wr0 = g_wr1 = g_wr2 = 0; g_az0 = g_az1 = g_az2 = 0;
	g_Bstar = IN.Bstar;
	g_rel = g_relB = g_isub = 0; g_badrel = 0; g_ci = 0; g_cur = -1; g_lev = -1;
}
