/* VERIF-UNIT
{
 "name": "inline_read",
 "props": ["C09"],
 "level": "U",
 "tier": "quick",
 "harness": "h_inline_read",
 "enforce": ["ext2fs_file_read_inline_data"],
 "functions": ["lib/ext2fs/fileio.c:ext2fs_file_read_inline_data"],
 "assumes": ["ext2fs_inline_data_get is a stub over the ghost inline area (inline_common.h); it may fail with an I/O error",
             "well-formed inline inode: 60 <= area size, area size + free xattr space <= blocksize, i_size <= area size, zero padding beyond i_size",
             "libc memcpy modelled in the unit (inline_common.h): bounds asserted at each call, faithful copy at the ghost byte, every other byte of the destination object unconstrained",
             "blocksize 1024 (file->buf = 3072 bytes, the smallest the library allocates); caller's buffer object capped at 4096 bytes",
             "FULL contract: exactly min(wanted, i_size - pos) bytes are returned"],
 "native": false,
 "backend": "cadical"
}
*/
/* VERIF-UNIT
{
 "name": "inline_read_fullarea",
 "props": ["C09"],
 "level": "U",
 "tier": "quick",
 "harness": "h_inline_read_fullarea",
 "enforce": ["ext2fs_file_read_inline_data"],
 "functions": ["lib/ext2fs/fileio.c:ext2fs_file_read_inline_data"],
 "assumes": ["as inline_read, but the harness excludes the inputs of finding C09_inline_read: i_size equals the size of the inline area (files of >= 60 bytes whose xattr is exactly as long as needed)"],
 "native": false,
 "backend": "cadical"
}
*/
/* VERIF-UNIT
{
 "name": "inline_write",
 "props": ["C09"],
 "level": "U",
 "tier": "quick",
 "harness": "h_inline_write",
 "enforce": ["ext2fs_file_write_inline_data"],
 "replace": ["ext2fs_file_set_size2"],
 "functions": ["lib/ext2fs/fileio.c:ext2fs_file_write_inline_data"],
 "assumes": ["ext2fs_inline_data_get/_set/_expand and ext2fs_read_inode are stubs over the ghost inline area (inline_common.h), each may fail with an I/O error",
             "ext2fs_file_set_size2 replaced by an ASSUMED contract: for sizes <= blocksize the in-memory i_size is set whatever it returns (see comment in the unit)",
             "well-formed inline inode: 60 <= area size, area size + free xattr space <= blocksize, i_size <= area size, zero padding beyond i_size",
             "libc memcpy modelled in the unit (inline_common.h): bounds asserted at each call, faithful copy at the ghost byte, every other byte of the destination object unconstrained",
             "blocksize 1024 (file->buf = 3072 bytes); caller's buffer object capped at 4096 bytes",
             "FULL contract from the property: buf[0..nbytes) stored at pos, other bytes kept, size = max(size, pos+nbytes), nbytes reported, every memcpy inside file->buf"],
 "native": false,
 "backend": "cadical"
}
*/
/* VERIF-UNIT
{
 "name": "inline_write_pos0",
 "props": ["C09"],
 "level": "U",
 "tier": "quick",
 "harness": "h_inline_write_pos0",
 "enforce": ["ext2fs_file_write_inline_data"],
 "replace": ["ext2fs_file_set_size2"],
 "functions": ["lib/ext2fs/fileio.c:ext2fs_file_write_inline_data"],
 "assumes": ["as inline_write, but the harness keeps to the region where the pinned code is right (finding C09_inline_write excluded): pos == 0, the write covers the whole old content or the file fits i_block (nbytes >= i_size or area == 60), nbytes <= 3072"],
 "native": false,
 "backend": "cadical"
}
*/
/*
 * Findings on the pinned tree:
 *  inline_read   postcondition "*got == min(wanted, i_size - pos)" FAILS: the function uses the size of the inline AREA
 *                (60 + xattr length, what ext2fs_inline_data_get reports) instead of i_size: a 5-byte inline file reads back
 *                as 60 bytes.  Input: i_size 5, area 60, pos 0, wanted 100 -> got 60.
 *  inline_write  (a) count = nbytes - file->pos: wrong length, and for pos > nbytes a ~4 GiB memcpy (heap overflow);
 *                (b) memcpy of a caller-controlled length into file->buf (3*blocksize) without any bound;
 *                (c) ext2fs_inline_data_set(..., count) passes the byte COUNT as the new area size: everything beyond
 *                    is dropped / the write at pos is lost;
 *                Input: i_size = area = 60, pos 10, nbytes 4 -> count = 0xfffffffa.
 */
#include "inline_common.h"

/* struct ext2_file is private to fileio.c: the contracts are attached to re-declarations AFTER the real file */
#include "lib/ext2fs/fileio.c"

static errcode_t ext2fs_file_read_inline_data(ext2_file_t file, void *buf, unsigned int wanted, unsigned int *got)
	REQUIRES(WELL_FORMED(file) && OLDS_TIED(file))
	ASSIGNS(__CPROVER_object_whole(file->buf), __CPROVER_object_whole(buf), file->pos, g_choice; got != NULL: *got)
	/* exactly the bytes below the file size */
	ENSURES(RET != 0 || got == NULL || *got == (g_pos0 < g_isize0 ? UMIN((unsigned long long)wanted, g_isize0 - g_pos0) : 0))
	ENSURES(RET != 0 || file->pos == g_pos0 + (g_pos0 < g_isize0 ? UMIN((unsigned long long)wanted, g_isize0 - g_pos0) : 0))
	/* ... equal to the stored bytes at pos.. (ghost position verif_k) */
	ENSURES(RET != 0 || !(verif_k >= g_pos0 && verif_k < g_isize0 && verif_k - g_pos0 < wanted) ||
		((unsigned char *)buf)[verif_k - g_pos0] == g_byte0)
	ENSURES(RET == 0 || file->pos == g_pos0)
	/* reading changes neither the file nor its size */
	ENSURES(g_byte == g_byte0 && g_cap == g_cap0 && ISIZE(file) == g_isize0);

/*
 * ext2fs_file_set_size2 as the inline write path sees it (assumed, not proved here): for a size that fits one block
 * the in-memory i_size is set before anything can fail (ext2fs_inode_size_set cannot fail for such a size), and the
 * return value says nothing about it — on an inline file it really returns EXT2_ET_INLINE_DATA_CANT_ITERATE from
 * ext2fs_file_zero_past_offset after having set the size, which is why the caller ignores it.
 */
errcode_t ext2fs_file_set_size2(ext2_file_t file, ext2_off64_t size)
	REQUIRES(size >= 0 && (__u64)size <= CAP_MAX)
	ASSIGNS(file->inode.i_size, file->inode.i_size_high, g_setsize_calls)
	ENSURES(g_setsize_calls == OLD(g_setsize_calls) + 1)
	ENSURES(ISIZE(file) == (__u64)size);

#define WR_END (g_pos0 + nbytes)
static errcode_t ext2fs_file_write_inline_data(ext2_file_t file, const void *buf, unsigned int nbytes, unsigned int *written)
	REQUIRES(WELL_FORMED(file) && OLDS_TIED(file))
	REQUIRES(g_pos0 <= 0xFFFFFFFF00000000ULL)
	REQUIRES(!(verif_k >= g_pos0 && verif_k - g_pos0 < nbytes) || g_src == ((const unsigned char *)buf)[verif_k - g_pos0])
	ASSIGNS(__CPROVER_object_whole(file->buf), file->pos, file->inode, g_choice, g_byte, g_cap, g_expanded, g_set_calls, g_setsize_calls;
		written != NULL: *written)
	/* success: all of buf stored at pos, everything else kept, size grown, holes read as zeros */
	ENSURES(RET != 0 || ((written == NULL || *written == nbytes) && file->pos == WR_END && !g_expanded))
	ENSURES(RET != 0 || (ISIZE(file) == (nbytes ? UMAX(g_isize0, WR_END) : g_isize0) && ISIZE(file) <= g_cap && g_cap <= CAP_MAX))
	ENSURES(RET != 0 || !(verif_k < ISIZE(file)) ||
		g_byte == ((verif_k >= g_pos0 && verif_k - g_pos0 < nbytes) ? g_src : verif_k < g_isize0 ? g_byte0 : 0))
	ENSURES(RET != 0 || !(verif_k >= ISIZE(file) && verif_k < g_cap) || g_byte == 0)
	/* no room inline: the file has been converted, nothing was written, the caller continues in the block path */
	ENSURES(RET != EXT2_ET_INLINE_DATA_NO_SPACE || g_expanded)
	ENSURES(RET != EXT2_ET_INLINE_DATA_NO_SPACE || (file->pos == g_pos0 && ISIZE(file) == g_isize0 && g_cap == g_cap0 && g_byte == g_byte0))
	/* I/O errors: no atomicity is claimed, but the size never changes without success and the file stays well-formed */
	ENSURES(RET == 0 || (ISIZE(file) == g_isize0 && ISIZE(file) <= g_cap));


static struct struct_ext2_filsys FS;
static struct ext2_super_block SB;
static struct ext2_file FILE_;
static unsigned char *UB;
static unsigned int OUT;

static void build_file(void)
{
	LOAD_IN();
	memset(&FS, 0, sizeof(FS));
	memset(&SB, 0, sizeof(SB));
	memset(&FILE_, 0, sizeof(FILE_));
	FS.magic = EXT2_ET_MAGIC_EXT2FS_FILSYS;
	FS.super = &SB;
	FS.blocksize = BLOCKSIZE;
	FILE_.magic = EXT2_ET_MAGIC_EXT2_FILE;
	FILE_.fs = &FS;
	FILE_.ino = 12;
	FILE_.flags = EXT2_FILE_WRITE;
	FILE_.buf = malloc(FILEBUF_SZ);
	ASSUME(FILE_.buf != 0);
	FILE_.pos = IN.pos;
	FILE_.inode.i_flags = EXT4_INLINE_DATA_FL;
	FILE_.inode.i_mode = LINUX_S_IFREG | 0644;
	FILE_.inode.i_size = (__u32)IN.isize;
	FILE_.inode.i_size_high = (__u32)(IN.isize >> 32);
	g_cap = IN.cap; g_free = IN.free; g_byte = IN.byte; verif_k = IN.k;
	ASSUME(WELL_FORMED(&FILE_));
	ASSUME(IN.nbytes <= NB_MAX);
	UB = malloc(IN.nbytes);
	ASSUME(UB != 0);
	g_choice = 0; g_expanded = 0; g_set_calls = 0; g_setsize_calls = 0;
	g_setsize_may_fail = IN.setsize_may_fail & 1;
	g_pos0 = IN.pos; g_isize0 = IN.isize; g_cap0 = g_cap; g_byte0 = g_byte;
	verif_mc_k = IN.k - IN.pos; verif_keep = (unsigned char *)FILE_.buf + IN.k;
}

static void read_body(void)
{
	unsigned long long exp = IN.pos < IN.isize ? UMIN((unsigned long long)IN.nbytes, IN.isize - IN.pos) : 0;
	errcode_t r = ext2fs_file_read_inline_data(&FILE_, UB, IN.nbytes, IN.null_out ? 0 : &OUT);
	if (r == 0) {
		CHECK(IN.null_out || OUT == exp, "read returns exactly min(wanted, size - pos) bytes");
		CHECK(FILE_.pos == IN.pos + exp, "read advances pos by the bytes returned");
		if (verif_k >= IN.pos && verif_k < IN.isize && verif_k - IN.pos < IN.nbytes) {
			CHECK(UB[verif_k - IN.pos] == g_byte0, "read returns the stored bytes");
			REACH("byte compared");
		}
		REACH("read ok");
	} else {
		CHECK(FILE_.pos == IN.pos, "failed read leaves pos");
		REACH("read failed");
	}
	CHECK(g_byte == g_byte0 && g_cap == g_cap0 && ISIZE(&FILE_) == IN.isize, "read changes nothing");
	REACH("end");
}

void h_inline_read(void)
{
	build_file();
	read_body();
}

void h_inline_read_fullarea(void)
{
	build_file();
	ASSUME(IN.isize == IN.cap);
	read_body();
}

static void write_body(void)
{
	ASSUME(IN.pos <= 0xFFFFFFFF00000000ULL);
	unsigned long long end = IN.pos + IN.nbytes;
	int covered = verif_k >= IN.pos && verif_k - IN.pos < IN.nbytes;
	if (covered)
		g_src = UB[verif_k - IN.pos];
	errcode_t r = ext2fs_file_write_inline_data(&FILE_, UB, IN.nbytes, IN.null_out ? 0 : &OUT);
	if (r == 0) {
		CHECK(IN.null_out || OUT == IN.nbytes, "write reports nbytes written");
		CHECK(FILE_.pos == end, "write advances pos by nbytes");
		CHECK(ISIZE(&FILE_) == (IN.nbytes ? UMAX(IN.isize, end) : IN.isize), "size grows to max(size, pos+nbytes) (unchanged by an empty write)");
		CHECK(ISIZE(&FILE_) <= g_cap, "the whole file is stored in the inline area");
		if (verif_k < ISIZE(&FILE_)) {
			CHECK(g_byte == (covered ? g_src : verif_k < IN.isize ? g_byte0 : 0), "buf stored at pos, other bytes kept, holes zero");
			REACH("byte compared");
			if (covered) REACH("written byte compared");
		}
		CHECK(!g_expanded, "success means the data stayed inline");
		REACH("write ok");
	} else {
		CHECK(ISIZE(&FILE_) == IN.isize && ISIZE(&FILE_) <= g_cap, "failed write does not change the size");
		if (r == EXT2_ET_INLINE_DATA_NO_SPACE) {
			CHECK(g_expanded, "NO_SPACE only after the file has been expanded");
			CHECK(FILE_.pos == IN.pos && g_cap == g_cap0 && g_byte == g_byte0, "NO_SPACE: nothing written, caller continues in the block path");
			REACH("no space");
		}
		REACH("write not done");
	}
	REACH("end");
}

void h_inline_write(void)
{
	build_file();
	write_body();
}

void h_inline_write_pos0(void)
{
	build_file();
	ASSUME(IN.pos == 0 && (IN.nbytes >= IN.isize || IN.cap == EXT4_MIN_INLINE_DATA_SIZE) && IN.nbytes <= FILEBUF_SZ);
	write_body();
}
