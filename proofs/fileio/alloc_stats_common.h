/*
 * Shared by the alloc_stats units (C09: "i_blocks and the block bitmap matching what the files map" needs the
 * bitmap bit, the group free count, the superblock free count and the dirty flags to move together).
 *
 * The bitmap and the group-descriptor accessors live in other files (gen_bitmap64.c, blknum.c, csum.c); here they are
 * stubs over GHOST state, single-index style (no quantifiers):
 *   verif_k      one arbitrary bitmap position (cluster number resp. inode number); g_bit = its membership
 *   g_G          one arbitrary group; g_gfree / g_gdirs / g_gflags / g_gunused = that group's descriptor fields,
 *                g_gfresh = "the descriptor checksum was recomputed after the last change of a field of group g_G"
 *   g_sfree      the superblock's 64-bit free blocks count (ext2fs_free_blocks_count_add stub)
 *   other groups' fields read as arbitrary values (IN.other[]) and writes to them are dropped — sound for
 *   pointwise statements about g_G.
 * The block->group map is blknum.c's business: ext2fs_group_of_blk2/_ino are stubs that return an arbitrary group
 * IN.group (valid when the block/inode is valid) and record their argument; every postcondition is relative to it.
 * Every accessor stub CHECKs that it is called with group < fs->group_desc_count (the real accessors index
 * fs->group_desc without any check).
 */
#include "verif.h"

struct in_as {
	unsigned long long blk;		/* block (or first block of the range) */
	unsigned int num;
	unsigned int ino;
	int inuse, isdir;
	unsigned long long k;		/* ghost bitmap position */
	unsigned int G, group;		/* ghost group, result of group_of */
	unsigned int gfree, gdirs, gflags, gunused;
	unsigned char bit;
	unsigned long long sfree, blocks_count;
	unsigned int first_data_block, inodes_count, ipg, free_inodes;
	unsigned int group_desc_count;
	int crb;
	unsigned int feature_ro_compat;
	int fsflags;
	unsigned char have_cb;
	unsigned int other[8];		/* values read from groups other than g_G, consumed in order */
	/* range unit: the ghost group's block interval and the stubs' choices */
	unsigned long long GF, GL;
	unsigned long long last[4];
	unsigned int grp[4];
};
struct in_as IN;
#include "verif_in.h"

unsigned long long verif_k;
unsigned int g_G, g_gfree, g_gdirs, g_gflags, g_gunused, g_gfresh;
int g_bit;
unsigned long long g_sfree;
unsigned int g_other;		/* next IN.other[] to consume */
unsigned int g_cb_calls;	/* calls of the fs->block_alloc_stats(_range) callback */
unsigned long long g_cb_blk; unsigned int g_cb_num; int g_cb_inuse; int g_cb_flags_seen;
unsigned long long g_cb_sfree_seen;
unsigned int g_badgroup;	/* an accessor was called with group >= group_desc_count */
unsigned int g_touch;		/* number of mutating stub calls (bitmap, descriptor, superblock count) */

#include "config.h"
#include "ext2_fs.h"
#include "ext2fs.h"

static struct struct_ext2_filsys FS;
static struct ext2_super_block SB;
static int DUMMY_BMAP, DUMMY_IMAP;

#define OTHER() (IN.other[(g_other++) & 7])
#define GRPCHK(fs, group) do { if ((group) >= (fs)->group_desc_count) g_badgroup++; } while (0)

/* ---- bitmap stubs (gen_bitmap64.c): position = arg >> cluster bits for the block map, arg for the inode map */
int ext2fs_mark_generic_bmap(ext2fs_generic_bitmap bmap, __u64 arg)
{
	int old;
	g_touch++;
	if (bmap == (ext2fs_generic_bitmap)&DUMMY_BMAP)
		arg >>= FS.cluster_ratio_bits;
	if (arg != verif_k)
		return IN.other[7] & 1;
	old = g_bit;
	g_bit = 1;
	return old;
}
int ext2fs_unmark_generic_bmap(ext2fs_generic_bitmap bmap, __u64 arg)
{
	int old;
	g_touch++;
	if (bmap == (ext2fs_generic_bitmap)&DUMMY_BMAP)
		arg >>= FS.cluster_ratio_bits;
	if (arg != verif_k)
		return IN.other[7] & 1;
	old = g_bit;
	g_bit = 0;
	return old;
}

/* ---- group-descriptor accessor stubs (blknum.c, csum.c) */
__u32 ext2fs_bg_free_blocks_count(ext2_filsys fs, dgrp_t group) { GRPCHK(fs, group); return group == g_G ? g_gfree : OTHER(); }
void ext2fs_bg_free_blocks_count_set(ext2_filsys fs, dgrp_t group, __u32 n)
{ GRPCHK(fs, group); g_touch++; if (group == g_G) { g_gfree = n; g_gfresh = 0; } }
__u32 ext2fs_bg_free_inodes_count(ext2_filsys fs, dgrp_t group) { GRPCHK(fs, group); return group == g_G ? g_gfree : OTHER(); }
void ext2fs_bg_free_inodes_count_set(ext2_filsys fs, dgrp_t group, __u32 n)
{ GRPCHK(fs, group); g_touch++; if (group == g_G) { g_gfree = n; g_gfresh = 0; } }
__u32 ext2fs_bg_used_dirs_count(ext2_filsys fs, dgrp_t group) { GRPCHK(fs, group); return group == g_G ? g_gdirs : OTHER(); }
void ext2fs_bg_used_dirs_count_set(ext2_filsys fs, dgrp_t group, __u32 n)
{ GRPCHK(fs, group); g_touch++; if (group == g_G) { g_gdirs = n; g_gfresh = 0; } }
__u32 ext2fs_bg_itable_unused(ext2_filsys fs, dgrp_t group) { GRPCHK(fs, group); return group == g_G ? g_gunused : OTHER(); }
void ext2fs_bg_itable_unused_set(ext2_filsys fs, dgrp_t group, __u32 n)
{ GRPCHK(fs, group); g_touch++; if (group == g_G) { g_gunused = n; g_gfresh = 0; } }
void ext2fs_bg_flags_clear(ext2_filsys fs, dgrp_t group, __u16 bg_flags)
{ GRPCHK(fs, group); g_touch++; if (group == g_G) { g_gflags &= ~(unsigned int)bg_flags; g_gfresh = 0; } }
void ext2fs_group_desc_csum_set(ext2_filsys fs, dgrp_t group)
{ GRPCHK(fs, group); g_touch++; if (group == g_G) g_gfresh = 1; }

/* ---- superblock count stubs (blknum.c) */
blk64_t ext2fs_blocks_count(struct ext2_super_block *super) { return IN.blocks_count; }
void ext2fs_free_blocks_count_add(struct ext2_super_block *super, blk64_t blk) { g_touch++; g_sfree += blk; }

#ifndef VERIF_NATIVE
void com_err(const char *whoami, errcode_t code, const char *fmt, ...) { }
#endif

/* ---- the allocation callback e2fsck / resize2fs install */
static void cb_single(ext2_filsys fs, blk64_t blk, int inuse)
{
	g_cb_calls++; g_cb_blk = blk; g_cb_num = 1; g_cb_inuse = inuse;
	g_cb_flags_seen = fs->flags; g_cb_sfree_seen = g_sfree;
}
static void cb_range(ext2_filsys fs, blk64_t blk, blk_t num, int inuse)
{
	g_cb_calls++; g_cb_blk = blk; g_cb_num = num; g_cb_inuse = inuse;
	g_cb_flags_seen = fs->flags; g_cb_sfree_seen = g_sfree;
}

static void build_fs(void)
{
	LOAD_IN();
	ASSUME(IN.crb >= 0 && IN.crb <= 19);
	ASSUME(IN.group_desc_count >= 1);
	memset(&FS, 0, sizeof(FS));
	memset(&SB, 0, sizeof(SB));
	FS.super = &SB;
	FS.magic = EXT2_ET_MAGIC_EXT2FS_FILSYS;
	FS.flags = IN.fsflags;
	FS.cluster_ratio_bits = IN.crb;
	FS.group_desc_count = IN.group_desc_count;
	FS.block_map = (ext2fs_block_bitmap)&DUMMY_BMAP;
	FS.inode_map = (ext2fs_inode_bitmap)&DUMMY_IMAP;
	SB.s_first_data_block = IN.first_data_block;
	SB.s_inodes_count = IN.inodes_count;
	SB.s_inodes_per_group = IN.ipg;
	SB.s_free_inodes_count = IN.free_inodes;
	SB.s_feature_ro_compat = IN.feature_ro_compat;
	verif_k = IN.k; g_bit = IN.bit & 1;
	g_G = IN.G; g_gfree = IN.gfree; g_gdirs = IN.gdirs; g_gflags = IN.gflags & 0xffff; g_gunused = IN.gunused;
	g_gfresh = 1;
	g_sfree = IN.sfree;
	g_other = 0; g_cb_calls = 0; g_badgroup = 0; g_touch = 0;
}

/* named loop anchor of ext2fs_block_alloc_stats_range (hooks-pending/fio.diff): empty unless a unit defines the invariant */
#ifndef VERIF_INV_BLOCK_ALLOC_STATS_RANGE
#define VERIF_INV_BLOCK_ALLOC_STATS_RANGE
#endif
