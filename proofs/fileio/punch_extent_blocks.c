/* VERIF-UNIT
{
 "name": "punch_extent_blocks_range",
 "props": ["C09"],
 "level": "U/k",
 "tier": "quick",
 "harness": "h_punch_extent_blocks",
 "unwind": 10,
 "unwind_reason": "non-bigalloc branch frees block by block; the harness caps free_count at 8 blocks (stated in assumes), the loop runs free_count times; unwinding assertions on",
 "functions": ["lib/ext2fs/punch.c:punch_extent_blocks"],
 "assumes": ["cluster ratio 1 (no bigalloc): the range check and the block-by-block release are what is stated; the bigalloc branch is not covered by this unit",
             "free_count <= 8 (the loop frees one block per iteration; the range check itself is stated for every 32-bit count)",
             "ext2fs_block_alloc_stats2 and ext2fs_blocks_count are stubs: the first logs the block it is asked to release at one ghost block number, the second returns an arbitrary 48-bit count",
             "no enforce: harness CHECKs around the real static function (punch.c is small but the statement is pointwise over a ghost block)"],
 "native": false
}
*/
/*
 * C09: "after the filesystem is closed it is consistent, with i_blocks and the block bitmap matching what the files
 * map" — punching an extent must release exactly the blocks of the range, for every legal range.  From the on-disk
 * format the legal physical blocks are [s_first_data_block, blocks_count): a range [free_start, free_start + n) is
 * legal iff free_start >= s_first_data_block and free_start + n <= blocks_count — in particular a range that ENDS AT
 * THE LAST BLOCK (free_start + n == blocks_count) is legal.  (The pinned tree refused it with `>=`, after the extent
 * tree had been edited: finding C09_punch_extent_last_block.)
 */
#include "verif.h"

struct in_s {
	unsigned long long blocks_count, free_start, lfree_start, k;
	unsigned int first_data_block, free_count;
	int freed0;
};
struct in_s IN;
#include "verif_in.h"

unsigned long long verif_k;
static unsigned int g_rel_k;		/* how often the ghost block verif_k was released */
static unsigned int g_rel_total;	/* how many releases in total */
static int g_rel_other_sign;		/* a call with inuse != -1 happened */

#include "lib/ext2fs/punch.c"

blk64_t ext2fs_blocks_count(struct ext2_super_block *super)
{
	return IN.blocks_count;
}

void ext2fs_block_alloc_stats2(ext2_filsys fs, blk64_t blk, int inuse)
{
	if (inuse != -1)
		g_rel_other_sign = 1;
	if (blk == verif_k)
		g_rel_k++;
	g_rel_total++;
}

/* callees of other functions of punch.c that this harness never reaches need bodies for the linker of goto-cc only */

void h_punch_extent_blocks(void)
{
	static struct struct_ext2_filsys FS;
	static struct ext2_super_block SB;
	static struct ext2_inode INO;
	int freed;
	errcode_t r;

	LOAD_IN();
	FS.super = &SB;
	FS.cluster_ratio_bits = 0;			/* no bigalloc */
	SB.s_first_data_block = IN.first_data_block;
	ASSUME(IN.first_data_block <= 1);
	ASSUME(IN.blocks_count <= (1ULL << 48) && IN.blocks_count > IN.first_data_block);
	ASSUME(IN.free_start <= (1ULL << 48));
	ASSUME(IN.free_count <= 8);
	ASSUME(IN.freed0 >= 0 && IN.freed0 < 1000000);
	verif_k = IN.k;
	g_rel_k = g_rel_total = 0;
	g_rel_other_sign = 0;
	freed = IN.freed0;

	r = punch_extent_blocks(&FS, 12, &INO, IN.lfree_start, IN.free_start, IN.free_count, &freed);

	/* independent statement of "legal range" from the format */
	int legal = IN.free_start >= IN.first_data_block && IN.free_start + IN.free_count <= IN.blocks_count;

	if (legal) {
		CHECK(r == 0, "a range inside [first_data_block, blocks_count) is released, also when it ends at the last block");
		CHECK(freed == IN.freed0 + (int) IN.free_count, "freed counter advanced by exactly the number of blocks of the range");
		CHECK(g_rel_total == IN.free_count && !g_rel_other_sign, "one release (-1) per block of the range");
		CHECK(g_rel_k == ((IN.k >= IN.free_start && IN.k - IN.free_start < IN.free_count) ? 1u : 0u),
		      "a block is released exactly once iff it lies in the range");
		if (IN.free_count > 0 && IN.free_start + IN.free_count == IN.blocks_count) REACH("range ends at the last block");
	} else {
		/* a range reaching outside the file system must not release anything */
		if (IN.free_start < IN.first_data_block || IN.free_start + IN.free_count > IN.blocks_count) {
			CHECK(r != 0, "a range outside the file system is refused");
			CHECK(g_rel_total == 0 && freed == IN.freed0, "a refused range releases nothing");
			REACH("refused");
		}
	}
	REACH("end");
}
