/* VERIF-UNIT
{
 "name": "pop_copy_file",
 "props": ["C18"],
 "level": "P",
 "tier": "quick",
 "harness": "h_copy_file",
 "includes": ["misc"],
 "defines": ["EXT2_CUSTOM_MEMORY_ROUTINES"],
 "replace": ["try_lseek_copy", "try_fiemap_copy", "copy_file_chunk"],
 "unwind": 6,
 "unwind_reason": "copy_file is loop-free (the three copy strategies are replaced by contracts); the bound serves the DFCC library loops (unwinding assertions on)",
 "functions": ["misc/create_inode.c:copy_file"],
 "assumes": ["no contract enforced: harness CHECKs + ghost monitor",
             "try_lseek_copy, try_fiemap_copy, copy_file_chunk are REPLACED by contracts whose preconditions pin their arguments (this fs, descriptor, the open file, the 64 KiB buffer, the one-block zero buffer; the plain copy covers exactly [0, st_size)) and whose results are arbitrary; what they store: units tools/try_lseek_copy, tools/copy_file_chunk (every delivered byte at its own offset, zero blocks skipped). ASSUMED about them, from the contract of ext2fs_file_write (C09, unit fileio/file_write): writing never makes the file shorter and every write ends at or below st_size, so the size the inode was created with (i_size = st_size, unit pop_do_write_internal) is still the file's size when copy_file closes it - this is exactly what findings/C09_pop_inline_expand_size breaks on inline-data file systems",
             "ext2fs_file_open, ext2fs_file_close, ext2fs_get_mem, ext2fs_get_memzero, ext2fs_free_mem are stubs with harness-chosen results"],
 "native": false
}
*/
/*
 * C18 "byte content and length with holes kept as holes": misc/create_inode.c:copy_file(fs, fd, statbuf, ino).
 *
 * Statement: the new inode is opened for writing once; a 64 KiB data buffer and a one-block zero buffer are allocated;
 * the copy strategies are tried in the order SEEK_DATA/SEEK_HOLE, FIEMAP, plain copy of [0, st_size) - the first one
 * that does not answer EXT2_ET_UNIMPLEMENTED decides; both buffers are freed and the file is closed exactly once on
 * every path after a successful open; the result is the first error, else the result of the close (which flushes the
 * last block); the file's size at close is st_size (ghost size, see assumes).
 */
#include "verif.h"

unsigned long long verif_k;
int verif_old_bit;
unsigned long long verif_g0, verif_g1, verif_g2, verif_g3, verif_g4, verif_g5, verif_g6, verif_g7;
const unsigned char *verif_p0, *verif_p1, *verif_p2, *verif_p3;

#define _LARGEFILE64_SOURCE 1
#define _GNU_SOURCE 1
#include "config.h"
#include <sys/stat.h>
#include <sys/types.h>
#include <string.h>
#include <stdlib.h>
#include <ext2fs/ext2fs.h>
#include "create_inode.h"

struct in_s {
	int fd;
	unsigned int ino;
	long long st_size;
	long r_open, r_mem[2], r_lseek, r_fiemap, r_chunk, r_close;
};
struct in_s IN;
#include "verif_in.h"

int no_copy_xattrs;

#define EXPECT(c) do { if (!(c)) g_bad = 1; } while (0)
static unsigned int g_bad, g_opens, g_closes, g_allocs, g_frees, g_lseek, g_fiemap, g_chunk;
static struct fh_s { int tag; } FH;
static char *g_buf, *g_zero;
static char BUF[65536], ZERO[1024];
static struct struct_ext2_filsys FS;
static struct stat ST;
static unsigned long long g_size;	/* ghost: the file's size as the file layer sees it */

void com_err(const char *whoami, long code, const char *fmt, ...) { }
char *gettext(const char *msgid) { return (char *)msgid; }

errcode_t ext2fs_get_mem(unsigned long size, void *ptr)
{
	EXPECT(g_allocs == 0 && size == 65536 && g_opens == 1);
	if (IN.r_mem[0])
		return IN.r_mem[0];
	g_allocs++;
	*(char **)ptr = g_buf = BUF;
	return 0;
}
errcode_t ext2fs_get_memzero(unsigned long size, void *ptr)
{
	EXPECT(g_allocs == 1 && size == FS.blocksize);
	if (IN.r_mem[1])
		return IN.r_mem[1];
	g_allocs++;
	memset(ZERO, 0, sizeof(ZERO));
	*(char **)ptr = g_zero = ZERO;
	return 0;
}
errcode_t ext2fs_free_mem(void *ptr)
{
	char **pp = (char **)ptr;
	if (*pp) {
		EXPECT(*pp == BUF || *pp == ZERO);
		g_frees++;
	}
	*pp = 0;
	return 0;
}
errcode_t ext2fs_file_open(ext2_filsys fs, ext2_ino_t ino, int flags, ext2_file_t *ret)
{
	g_opens++;
	EXPECT(fs == &FS && ino == IN.ino && (flags & EXT2_FILE_WRITE));
	if (IN.r_open)
		return IN.r_open;
	*ret = (ext2_file_t)&FH;
	return 0;
}
errcode_t ext2fs_file_close(ext2_file_t file)
{
	g_closes++;
	EXPECT(file == (ext2_file_t)&FH && g_frees == g_allocs);
	return IN.r_close;
}

#define ARGS_OK (fs == &FS && fd == IN.fd && e2_file == (ext2_file_t)&FH && buf == BUF && zerobuf == ZERO && g_allocs == 2 && g_closes == 0)
static errcode_t try_lseek_copy(ext2_filsys fs, int fd, struct stat *statbuf, ext2_file_t e2_file, char *buf, char *zerobuf)
	REQUIRES(ARGS_OK && statbuf == &ST && g_lseek == 0 && g_fiemap == 0 && g_chunk == 0)
	ASSIGNS(g_lseek, g_size)
	ENSURES(g_lseek == 1 && RET == IN.r_lseek && g_size >= OLD(g_size) && g_size <= (unsigned long long)IN.st_size);
static errcode_t try_fiemap_copy(ext2_filsys fs, int fd, ext2_file_t e2_file, char *buf, char *zerobuf)
	REQUIRES(ARGS_OK && g_lseek == 1 && IN.r_lseek == EXT2_ET_UNIMPLEMENTED && g_fiemap == 0 && g_chunk == 0)
	ASSIGNS(g_fiemap, g_size)
	ENSURES(g_fiemap == 1 && RET == IN.r_fiemap && g_size >= OLD(g_size) && g_size <= (unsigned long long)IN.st_size);
static errcode_t copy_file_chunk(ext2_filsys fs, int fd, ext2_file_t e2_file, off_t start, off_t end, char *buf, char *zerobuf)
	REQUIRES(ARGS_OK && g_lseek == 1 && g_fiemap == 1 && IN.r_lseek == EXT2_ET_UNIMPLEMENTED && IN.r_fiemap == EXT2_ET_UNIMPLEMENTED && g_chunk == 0)
	REQUIRES(start == 0 && end == IN.st_size)
	ASSIGNS(g_chunk, g_size)
	ENSURES(g_chunk == 1 && RET == IN.r_chunk && g_size >= OLD(g_size) && g_size <= (unsigned long long)IN.st_size);

#include "misc/create_inode.c"

void h_copy_file(void)
{
	LOAD_IN();
	memset(&FS, 0, sizeof(FS));
	memset(&ST, 0, sizeof(ST));
	FS.blocksize = 1024;
	ASSUME(IN.st_size >= 0);
	ASSUME(IN.r_open >= 0 && IN.r_mem[0] >= 0 && IN.r_mem[1] >= 0 && IN.r_lseek >= 0 && IN.r_fiemap >= 0 && IN.r_chunk >= 0 && IN.r_close >= 0);
	ST.st_size = IN.st_size;
	g_bad = g_opens = g_closes = g_allocs = g_frees = g_lseek = g_fiemap = g_chunk = 0;
	g_buf = g_zero = 0;
	g_size = IN.st_size;			/* the inode was created with i_size = st_size (unit pop_do_write_internal) */

	errcode_t r = copy_file(&FS, IN.fd, &ST, IN.ino);

	CHECK(!g_bad, "callees are used on this fs / inode / descriptor / the two buffers; buffers are freed before the close");
	CHECK(g_opens == 1, "the inode is opened once");
	if (IN.r_open) {
		CHECK(r == IN.r_open && g_closes == 0 && g_allocs == 0 && g_lseek == 0, "open failure: passed on, nothing else happens");
		REACH("open failed");
		return;
	}
	CHECK(g_closes == 1 && g_frees == g_allocs, "after a successful open the file is closed exactly once and every buffer is freed");
	if (IN.r_mem[0] || IN.r_mem[1]) {
		CHECK(r == (IN.r_mem[0] ? IN.r_mem[0] : IN.r_mem[1]) && g_lseek == 0, "allocation failure: passed on, nothing copied");
		REACH("no memory");
		return;
	}
	CHECK(g_lseek == 1, "SEEK_DATA/SEEK_HOLE is tried first");
	long first = IN.r_lseek != EXT2_ET_UNIMPLEMENTED ? IN.r_lseek : IN.r_fiemap != EXT2_ET_UNIMPLEMENTED ? IN.r_fiemap : IN.r_chunk;
	CHECK(g_fiemap == (IN.r_lseek == EXT2_ET_UNIMPLEMENTED ? 1u : 0u), "FIEMAP only if SEEK_DATA/SEEK_HOLE is unimplemented");
	CHECK(g_chunk == (IN.r_lseek == EXT2_ET_UNIMPLEMENTED && IN.r_fiemap == EXT2_ET_UNIMPLEMENTED ? 1u : 0u), "plain copy of [0, st_size) only if both are unimplemented");
	CHECK(r == (first ? first : IN.r_close), "result: the deciding strategy's error, else the result of the close");
	CHECK(g_size == (unsigned long long)IN.st_size, "the file's size at close is st_size");
	if (g_chunk) REACH("plain copy");
	if (r == 0) REACH("copied");
	if (first == 0 && IN.r_close) REACH("close error reported");
	REACH("end");
}
