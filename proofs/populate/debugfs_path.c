/* VERIF-UNIT
{
 "name": "pop_debugfs_mknod",
 "props": ["C18"],
 "level": "P",
 "tier": "quick",
 "harness": "h_do_mknod",
 "includes": ["debugfs", "lib/ss", "misc", "e2fsck"],
 "sources": ["debugfs/util.c"],
 "unwind": 10,
 "unwind_reason": "do_mknod is loop-free; strrchr (CBMC's libc model, only reached with the proposed fix) and the harness's own scan run over the 8-byte path buffer (at most 8 iterations), unwinding assertions on",
 "functions": ["debugfs/debugfs.c:do_mknod"],
 "assumes": ["no contract enforced (do_mknod lives in a 2700-line translation unit): harness CHECKs + ghost monitor in the stubs",
             "argv as the ss library delivers it: argc strings followed by a NULL pointer; argv[1] is an arbitrary C string in an 8-byte buffer (0..7 characters, any number of '/': B(8) for the path length only); argv[2] arbitrary 2-byte string; argv[3], argv[4] opaque number strings",
             "strtoul is a stub (arbitrary value, end pointer at the terminating NUL or - harness-chosen - in front of it); it ASSERTS that its string argument is not NULL",
             "glibc's makedev()/major()/minor() (extern inline in sys/sysmacros.h) are given their glibc bodies in the unit", "ext2fs_namei is a stub that behaves as namei.c on the two degenerate paths (\"\" -> cwd, \"/\" -> root) and answers a harness-chosen inode or error for every other path; check_fs_open is the real one (debugfs/util.c), com_err a no-op; do_mknod_internal (unit pop_do_mknod_internal) is a recording stub",
             "FAILS on the pinned tree: 'the name handed to the creator contains no '/'', 'created in the directory the text before the last '/' resolves to', 'strtoul is never called on the NULL behind the arguments', 'the device number handed to the creator is (major, minor)' (a major above 4095 is accepted up to 65535 and silently truncated by the 32-bit st_rdev parameter) - FINDING findings/C18_pop_debugfs_path; green with its proposed-fix.patch"],
 "native": false
}
*/
/* VERIF-UNIT
{
 "name": "pop_debugfs_mknod_plain",
 "props": ["C18"],
 "level": "P",
 "tier": "quick",
 "harness": "h_do_mknod_plain",
 "includes": ["debugfs", "lib/ss", "misc", "e2fsck"],
 "sources": ["debugfs/util.c"],
 "unwind": 10,
 "unwind_reason": "as pop_debugfs_mknod",
 "functions": ["debugfs/debugfs.c:do_mknod"],
 "assumes": ["as pop_debugfs_mknod, restricted to the inputs on which the pinned tree is right: a non-empty name without '/', the right number of arguments for the type letter, major <= 4095 (finding C18_pop_debugfs_path excluded)"],
 "native": false
}
*/
/* VERIF-UNIT
{
 "name": "pop_debugfs_link",
 "props": ["C18"],
 "level": "P",
 "tier": "quick",
 "harness": "h_make_link",
 "includes": ["debugfs", "lib/ss", "misc", "e2fsck"],
 "sources": ["debugfs/util.c"],
 "unwind": 10,
 "unwind_reason": "make_link is loop-free; strrchr (CBMC's libc model) and the harness's own scans run over 8-byte path buffers, unwinding assertions on",
 "functions": ["debugfs/debugfs.c:make_link", "debugfs/debugfs.c:do_link"],
 "assumes": ["no contract enforced: harness CHECKs + ghost monitor in the stubs",
             "source and destination are arbitrary C strings in 8-byte buffers (B(8) for the path length only)",
             "common_args_process, string_to_inode, debugfs_read_inode, ext2_file_type are the real ones (debugfs/util.c; paths do not use debugfs's <inode number> syntax); ext2fs_namei as in pop_debugfs_mknod (\"\" -> cwd, \"/\" -> root, otherwise harness-chosen inode or error); ext2fs_read_inode delivers an inode of arbitrary mode or fails; ext2fs_link is a recording stub",
             "FAILS on the pinned tree: 'a new name /leaf is created in the ROOT directory' (the empty text before the only '/' is resolved to cwd) - FINDING findings/C18_pop_debugfs_path; green with its proposed-fix.patch"],
 "native": false
}
*/
/*
 * C18 "debugfs write/mkdir/symlink/mknod stores ... the same names, file types (including device nodes, fifos and
 * sockets)": the command front ends of debugfs/debugfs.c that take a path.
 *
 * Statement (what a path means: POSIX pathname resolution / dirname(3), basename(3), independent of the code):
 *   "a/b/leaf": the object is created in the directory that "a/b" resolves to (relative to cwd; from the root when the
 *   path starts with '/'), under the name "leaf"; "/leaf": in the ROOT directory; "leaf": in cwd.  The name stored in
 *   the directory entry is non-empty and never contains '/'.
 *   do_mknod: type letter p/c/b -> S_IFIFO/S_IFCHR/S_IFBLK; c and b need exactly two numbers,
 *   p none; everything else is a usage error that creates nothing; the device created is exactly (major, minor)
 *   or nothing is created (Linux device numbers: 12-bit major, 20-bit minor).
 *   make_link: the link gets the directory-entry type of the source inode's mode.
 */
#include "verif.h"

unsigned long long verif_k;
int verif_old_bit;
unsigned long long verif_g0, verif_g1, verif_g2, verif_g3, verif_g4, verif_g5, verif_g6, verif_g7;
const unsigned char *verif_p0, *verif_p1, *verif_p2, *verif_p3;

#include "config.h"
#include <sys/types.h>
#include <sys/stat.h>
#include <sys/sysmacros.h>
#include <string.h>
#include <stdlib.h>

struct in_s {
	char path[8], src[8], type[2];
	int argc;
	unsigned long num[2];
	unsigned char bad_end[2];
	unsigned int cwd, root, found, found2;
	long r_namei, r_namei2, r_mknod, r_link;
	int fs_open;
	unsigned short src_mode;
	int r_read_inode;
};
struct in_s IN;
#include "verif_in.h"

#define EXPECT(c) do { if (!(c)) g_bad = 1; } while (0)
static unsigned int g_bad, g_namei, g_mknods, g_links, g_strtoul, g_strtoul_null;
static unsigned int g_mk_cwd, g_mk_mode, g_mk_rdev;
static const char *g_mk_name;
static char *g_path, *g_src;
static char g_num3[2], g_num4[2];
static unsigned int g_ln_dir, g_ln_ino;
static int g_ln_type;
static const char *g_ln_name;

/* strtoul by macro: the two number arguments of do_mknod */
unsigned long verif_strtoul(const char *nptr, char **endptr, int base)
{
	unsigned int i = (nptr == g_num4);
	g_strtoul++;
	if (nptr == 0) {
		g_strtoul_null = 1;
		if (endptr)
			*endptr = 0;
		return 0;
	}
	if (endptr)
		*endptr = (char *)nptr + (IN.bad_end[i] ? 0 : 1);	/* "x\0": at the NUL, or in front of it */
	return IN.num[i];
}
#define strtoul verif_strtoul

#include "debugfs/debugfs.c"
#undef strtoul

/* glibc's device-number encoding (bits/sysmacros.h; extern inline there, no body for the verifier) */
unsigned int gnu_dev_major(dev_t dev) { return ((dev >> 8) & 0xfffu) | ((unsigned int)(dev >> 32) & ~0xfffu); }
unsigned int gnu_dev_minor(dev_t dev) { return (dev & 0xffu) | ((unsigned int)(dev >> 12) & ~0xffu); }
dev_t gnu_dev_makedev(unsigned int ma, unsigned int mi)
{
	return ((dev_t)(ma & 0x00000fffu) << 8) | ((dev_t)(ma & 0xfffff000u) << 32) | ((dev_t)(mi & 0x000000ffu)) | ((dev_t)(mi & 0xffffff00u) << 12);
}
void com_err(const char *whoami, long code, const char *fmt, ...) { }
/* namei.c on the degenerate paths, arbitrary otherwise; every call must be about the caller's root and cwd */
errcode_t ext2fs_namei(ext2_filsys fs, ext2_ino_t r, ext2_ino_t c, const char *name, ext2_ino_t *inode)
{
	unsigned int n = g_namei++;
	EXPECT(r == IN.root && c == IN.cwd && name != 0);
	if (name[0] == 0) {
		*inode = c;
		return 0;
	}
	if (name[0] == '/' && name[1] == 0) {
		*inode = r;
		return 0;
	}
	if (n == 0 ? IN.r_namei : IN.r_namei2)
		return n == 0 ? IN.r_namei : IN.r_namei2;
	*inode = n == 0 ? IN.found : IN.found2;
	return 0;
}
errcode_t do_mknod_internal(ext2_filsys fs, ext2_ino_t cwd_, const char *name, unsigned int st_mode, unsigned int st_rdev)
{
	g_mknods++;
	g_mk_cwd = cwd_; g_mk_name = name; g_mk_mode = st_mode; g_mk_rdev = st_rdev;
	return IN.r_mknod;
}
errcode_t ext2fs_read_inode(ext2_filsys fs, ext2_ino_t ino, struct ext2_inode *inode)
{
	EXPECT(ino == IN.found);
	if (IN.r_read_inode)
		return EXT2_ET_SHORT_READ;
	memset(inode, 0, sizeof(*inode));
	inode->i_mode = IN.src_mode;
	return 0;
}
errcode_t ext2fs_link(ext2_filsys fs, ext2_ino_t dir, const char *name, ext2_ino_t ino, int flags)
{
	g_links++;
	g_ln_dir = dir; g_ln_name = name; g_ln_ino = ino; g_ln_type = flags;
	return IN.r_link;
}

static struct struct_ext2_filsys FS;
static struct ext2_super_block SB;
static char *ARGV[6];

/* independent reading of a path: index of the last '/', -1 if none */
static int last_slash(const char *p)
{
	int i, s = -1;
	for (i = 0; i < 8 && p[i]; i++)
		if (p[i] == '/')
			s = i;
	return s;
}
static int has_slash(const char *p)
{
	int i;
	for (i = 0; i < 8 && p[i]; i++)
		if (p[i] == '/')
			return 1;
	return 0;
}

static void setup(void)
{
	LOAD_IN();
	memset(&FS, 0, sizeof(FS));
	memset(&SB, 0, sizeof(SB));
	FS.flags = EXT2_FLAG_RW;
	FS.super = &SB;
	SB.s_inodes_count = 0xffffffffu;
	current_fs = IN.fs_open ? &FS : 0;
	root = IN.root;
	cwd = IN.cwd;
	g_bad = g_namei = g_mknods = g_links = g_strtoul = g_strtoul_null = 0;
	g_mk_name = 0; g_ln_name = 0;
	g_path = malloc(8);
	g_src = malloc(8);
	ASSUME(g_path && g_src);
	memcpy(g_path, IN.path, 8);
	memcpy(g_src, IN.src, 8);
	g_path[7] = 0;
	g_src[7] = 0;
	ASSUME(IN.r_namei >= 0 && IN.r_namei2 >= 0 && IN.r_namei <= 0x7fffffffL && IN.r_namei2 <= 0x7fffffffL);	/* com_err codes are 32-bit */
	ASSUME(IN.found != 0 && IN.found2 != 0 && IN.cwd != 0 && IN.root != 0);	/* inode numbers start at 1 */
	ASSUME(g_path[0] != '<' && g_src[0] != '<');		/* not debugfs's <inode number> syntax */
}

static void mknod_body(int plain)
{
	static char cmd[] = "mknod";
	char type[2];
	int i, slash, want;
	setup();
	type[0] = IN.type[0]; type[1] = IN.type[1];
	ASSUME(IN.argc >= 1 && IN.argc <= 5);
	g_num3[0] = '1'; g_num3[1] = 0; g_num4[0] = '2'; g_num4[1] = 0;
	ARGV[0] = cmd; ARGV[1] = g_path; ARGV[2] = type; ARGV[3] = g_num3; ARGV[4] = g_num4;
	for (i = IN.argc; i < 6; i++)
		ARGV[i] = 0;				/* ss: argv[argc] == NULL */
	if (IN.argc >= 3)
		ASSUME(type[0] == 0 || type[1] == 0);	/* a C string */
	slash = last_slash(g_path);
	want = (type[0] == 'p') ? 3 : (type[0] == 'c' || type[0] == 'b') ? 5 : 0;
	if (plain) {
		ASSUME(slash < 0 && g_path[0] != 0);
		ASSUME(IN.argc < 3 || IN.argc == want || want == 0 || IN.argc >= 5);
		ASSUME(IN.num[0] <= 4095);		/* Linux: 12-bit major */
	}

	do_mknod(IN.argc, ARGV, 0, 0);

	CHECK(!g_strtoul_null, "strtoul is never called on the NULL behind the arguments");
	CHECK(!g_bad, "path lookups are relative to debugfs's root and cwd");
	if (g_mknods) {
		CHECK(g_mknods == 1 && IN.fs_open, "one creation, only with an open file system");
		CHECK(IN.argc == want && IN.argc >= 3 && type[1] == 0, "created only for p / c major minor / b major minor");
		CHECK(g_mk_mode == (type[0] == 'p' ? S_IFIFO : type[0] == 'c' ? S_IFCHR : S_IFBLK), "p -> fifo, c -> character device, b -> block device");
		if (want == 5) {
			CHECK(!IN.bad_end[0] && !IN.bad_end[1], "numbers: parsed completely");
			CHECK(gnu_dev_major(g_mk_rdev) == IN.num[0] && gnu_dev_minor(g_mk_rdev) == IN.num[1], "the device number handed to the creator is (major, minor)");
			REACH("device");
		} else
			CHECK(g_mk_rdev == 0, "a fifo has no device number");
		CHECK(g_mk_name != 0 && !has_slash(g_mk_name), "the name handed to the creator contains no '/'");
		CHECK(g_mk_name != 0 && g_mk_name[0] != 0, "the name handed to the creator is not empty");
		CHECK(g_mk_name == g_path + (slash + 1), "the name is the text behind the last '/'");
		CHECK(g_mk_cwd == (slash < 0 ? IN.cwd : (slash == 0 || (slash == 1 && g_path[0] == '/')) ? IN.root : IN.found),
		      "created in the directory the text before the last '/' resolves to (root for \"/leaf\", cwd without '/')");
#if defined(VERIF_UNIT_pop_debugfs_mknod)
		if (slash > 0) REACH("dir/leaf");
		if (slash == 0) REACH("/leaf");
#endif
		REACH("created");
	} else {
		if (IN.fs_open && IN.argc == want && want && type[1] == 0 && slash < 0 && g_path[0] &&
		    (want == 3 || (IN.num[0] <= 4095 && IN.num[1] <= 65535 && !IN.bad_end[0] && !IN.bad_end[1])))
			CHECK(0, "a well-formed request reaches the creator");
		REACH("nothing created");
	}
#if defined(VERIF_UNIT_pop_debugfs_mknod)
	if (IN.argc == 3 && want == 5) REACH("c or b without numbers");
#endif
	REACH("end");
}

void h_do_mknod(void) { mknod_body(0); }
void h_do_mknod_plain(void) { mknod_body(1); }

/* directory-entry type of a mode (ext4 "Directory Entries" file_type table) */
static int spec_file_type(unsigned int mode)
{
	switch (mode & 0170000) {
	case 0100000: return 1;
	case 0040000: return 2;
	case 0020000: return 3;
	case 0060000: return 4;
	case 0010000: return 5;
	case 0140000: return 6;
	case 0120000: return 7;
	}
	return 0;
}

void h_make_link(void)
{
	static char cmd[] = "link";
	int dslash, sslash;
	setup();
	ASSUME(IN.fs_open);
	sslash = last_slash(g_src);
	dslash = last_slash(g_path);
	ARGV[0] = cmd; ARGV[1] = g_src; ARGV[2] = g_path; ARGV[3] = 0;
	/* the source exists (first lookup), the destination does not (second lookup fails): the "new name" case */
	ASSUME(IN.r_namei == 0 && g_src[0] != 0 && !(g_src[0] == '/' && g_src[1] == 0));
	ASSUME(IN.r_namei2 != 0 && g_path[0] != 0 && !(g_path[0] == '/' && g_path[1] == 0));

	do_link(3, ARGV, 0, 0);

	CHECK(!g_bad, "path lookups are relative to debugfs's root and cwd");
	if (g_links) {
		CHECK(g_links == 1 && g_ln_ino == IN.found, "one link, to the inode the source path resolves to");
		CHECK(g_ln_type == spec_file_type(IN.src_mode), "the entry's file type is the format code of the source inode's mode");
		CHECK(g_ln_name == g_path + (dslash + 1) && !has_slash(g_ln_name), "the new name is the text behind the last '/' of the destination");
		if (dslash == 0) {
			CHECK(g_ln_dir == IN.root, "a new name /leaf is created in the ROOT directory");
			REACH("/leaf");
		} else if (dslash < 0) {
			CHECK(g_ln_dir == IN.cwd, "a new name without '/' is created in cwd");
			REACH("leaf");
		}
		REACH("linked");
	}
	REACH("end");
}
