/* VERIF-UNIT
{
 "name": "pop_populate_dispatch",
 "props": ["C18"],
 "level": "U/iter",
 "tier": "thorough",
 "timeout": 900,
 "harness": "h_populate",
 "includes": ["misc"],
 "loop_contracts": true,
 "replace": ["is_hardlink", "add_link", "path_append", "do_mknod_internal", "do_symlink_internal", "do_write_internal", "do_mkdir_internal", "set_inode_extra", "set_inode_xattr"],
 "unwind": 13,
 "cbmc_flags": ["--object-bits", "10"],
 "unwind_reason": "the readdir loop and the clean-up loop of __populate_fs are cut by their in-place loop contracts (named anchors VERIF_INV_POPULATE_FS_ENTRIES / _CLEANUP, hooks-pending/pop2.diff); the bound serves the DFCC library loops (unwinding assertions on)",
 "functions": ["misc/create_inode.c:__populate_fs"],
 "assumes": ["NEEDS the hooks of hooks-pending/pop2.diff (named loop anchors in __populate_fs)",
             "no contract enforced on __populate_fs (harness CHECKs + protocol monitor); the creators and helpers of the same file (is_hardlink, add_link, path_append, do_mknod_internal, do_symlink_internal, do_write_internal, do_mkdir_internal, set_inode_extra, set_inode_xattr) are REPLACED by contracts whose PRECONDITIONS are the dispatch statement (checked at every call site) and whose results are arbitrary; what they do: units tools/add_link, tools/do_symlink_internal, tools/set_inode_xattr, pop_do_write_internal, pop_do_mkdir_internal_rel, pop_do_mknod_internal",
             "THE RECURSIVE CALL is cut by a preprocessor rename (the definition becomes __populate_fs_def, every call __populate_fs_rec): __populate_fs_rec is a stub that checks its arguments and protocol position, answers an arbitrary result, may record further hard-link groups (count grows within size) and leaves the path buffer as it was - the statement about one directory level is the induction step for the tree",
             "host calls are stubs delivering ARBITRARY results: chdir (0 / -1 + errno), scandir (-1 + errno or any number of entries 0..2^20; every entry carries the same arbitrary name of at most 11 characters - entries are told apart by the independent lstat results), lstat (-1 + errno, or arbitrary mode, nlink, dev, ino, size; st_rdev below 2^32 as Linux delivers it), readlink (-1 + errno or any count 0..buffer size), malloc (NULL or a buffer), realloc (NULL or growth in place), free (no-op); a failing host call sets errno to a harness-chosen positive code",
             "model buffers are small, which the dispatch does not depend on: symlink targets at most 63 bytes (st_size <= 63), the target path buffer 64 bytes, the hard-link table at most 16 groups", "strcmp (three calls against the literals \".\", \"..\", \"lost+found\") is replaced by a loop-free equivalent in the unit; lstat delivers one of the seven Linux file types (for any other value the code prints 'ignoring entry' and then fails in the final lookup)", "fs_callbacks == NULL (mke2fs passes NULL unless built for Android's fs_config)",
             "U/iter: the statement is proved for one iteration starting in an arbitrary state that satisfies the proved loop invariant (no entry half-done, no error so far, every non-dot entry so far was lstat'ed and completed, hard-link table within its capacity, the last recorded hard-link triple is the one of the last saved entry)",
             "FAILS on the pinned tree: 'no failure is swallowed: a readlink result that fills the whole buffer (possibly truncated) / a failed malloc ends the population with an error' - FINDING findings/C18_pop_symlink_error_swallowed; green with its proposed-fix.patch"],
 "native": false
}
*/
/* VERIF-UNIT
{
 "name": "pop_populate_dispatch_ok",
 "props": ["C18"],
 "level": "U/iter",
 "tier": "thorough",
 "tier_after_hooks": "thorough",
 "timeout": 900,
 "harness": "h_populate_ok",
 "includes": ["misc"],
 "loop_contracts": true,
 "replace": ["is_hardlink", "add_link", "path_append", "do_mknod_internal", "do_symlink_internal", "do_write_internal", "do_mkdir_internal", "set_inode_extra", "set_inode_xattr"],
 "unwind": 13,
 "cbmc_flags": ["--object-bits", "10"],
 "unwind_reason": "as pop_populate_dispatch",
 "functions": ["misc/create_inode.c:__populate_fs"],
 "assumes": ["as pop_populate_dispatch (NEEDS hooks-pending/pop2.diff), restricted to the inputs on which the pinned tree is right: malloc of the symlink buffer succeeds and readlink never fills the whole buffer (finding C18_pop_symlink_error_swallowed excluded)"],
 "native": false
}
*/
/*
 * C18: misc/create_inode.c:__populate_fs — what happens to ONE directory entry of the source directory.
 *
 * Statement (from the property: "stores the tree exactly: ... the same names, file types (including device nodes,
 * fifos and sockets), ... symlink targets, hard-link groups, full permission bits, ownership, ... modification times
 * ... and user extended attributes"):
 *   every entry except "." and ".." is lstat'ed and handled, in this order:
 *     - not a directory, not a symlink, st_nlink > 1: the (st_dev, st_ino) table is consulted; a pair already recorded
 *       gets ONLY a further name for the recorded inode (add_link(parent, recorded dst_ino, name)) and nothing else;
 *     - otherwise exactly one creator for the lstat type, in the parent directory, under the entry's name:
 *         S_IFCHR/BLK/FIFO/SOCK  do_mknod_internal(parent, name, st_mode, st_rdev)
 *         S_IFLNK                do_symlink_internal(parent, name, target, root) with target = exactly the bytes
 *                                readlink delivered, NUL-terminated; a result that fills the whole st_size + 1 buffer
 *                                (the link grew: possibly truncated), a failed readlink or malloc is an ERROR
 *         S_IFREG                do_write_internal(parent, name -> name, root)
 *         S_IFDIR                do_mkdir_internal(parent, name, root) - except /lost+found, which exists -,
 *                                then the new directory is looked up and populated recursively from source "name",
 *                                then chdir("..");
 *     - then the entry is looked up in the parent and set_inode_extra(ino, the lstat result) and
 *       set_inode_xattr(ino, name) are applied - for a directory AFTER the recursion, so that its times survive;
 *     - a first link of a hard-link group is recorded as (st_dev, st_ino, ino);
 *   the first failure of any step ends the population and is returned (never 0).
 */
#include "verif.h"

unsigned long long verif_k;
int verif_old_bit;
unsigned long long verif_g0, verif_g1, verif_g2, verif_g3, verif_g4, verif_g5, verif_g6, verif_g7;
const unsigned char *verif_p0, *verif_p1, *verif_p2, *verif_p3;

#define _LARGEFILE64_SOURCE 1
#define _GNU_SOURCE 1
#include "config.h"
#include <sys/stat.h>
#include <sys/types.h>
#include <sys/sysmacros.h>
#include <dirent.h>
#include <string.h>
#include <stdlib.h>
#include <errno.h>
#include <unistd.h>
#include <ext2fs/ext2fs.h>
#include "create_inode.h"

struct st_s { unsigned int mode; unsigned long nlink, dev, ino; long long size; unsigned int rdev; int fail; };
struct in_s {
	char name[12];
	int num_dents, err;
	struct st_s st[4];
	long rl[4];
	unsigned char nomem[4];
	long r_namei[4], r_rec[4];
	unsigned int ino[4];
	int r_chdir[4];
	unsigned int parent, root;
	int hcount, hsize, grow[4];
	unsigned long plen;
	unsigned char realloc_fails[4];
};
struct in_s IN;
#include "verif_in.h"

int no_copy_xattrs;

/* ------------------------------------------------------------------ ghost monitor */
/* protocol position of the entry being processed */
static int g_st;	/* 0 idle, 1 lstat'ed, 2 created, 3 new directory looked up, 4 recursed, 5 back in the parent, 6 looked up, 7 extra set */
static unsigned int g_draw;			/* draw counter for stub results */
static long g_err;				/* first failure a callee reported (0: none) */
static int g_trunc, g_nomem, g_bad;
static unsigned long g_lstats, g_done;
/* the entry: what lstat delivered */
static const char *g_name;
static struct stat *g_stp;
static unsigned int g_mode, g_rdev;
static unsigned long g_nlink, g_dev, g_sino;
static long long g_size;
static int g_hl_seen, g_hl_idx;
static long g_rl;
static char *g_lnbuf;
static unsigned int g_dirino, g_dst;
/* the last recorded hard-link triple */
static int g_saved;
static unsigned long g_sv_dev, g_sv_ino;
static unsigned int g_sv_dst;
/* environment objects */
static struct struct_ext2_filsys FS;
static struct dirent G_DE;
static struct dirent **G_DENTS;
static struct hdlinks_s HL;
static struct hdlink_s *G_HDL;
static struct file_info TGT;
static char *G_PATH;
static char *G_LNPOOL;
static const char g_srcdir[] = "srcdir";
static int g_name_is_dot, g_name_is_lnf;
static unsigned int g_frees, g_chdirs;

#define PATHCAP 64ul
#define HCAP 16		/* capacity of the hard-link table object (in-place realloc model) */
#define LNCAP 64
#define EXPECT(c) do { if (!(c)) g_bad = 1; } while (0)
#define NOTE_ERR(e) do { if (g_err == 0) g_err = (e); } while (0)
#define DRAWN(arr) (IN.arr[(g_draw++) & 3])
#define S_ISSPECIAL(m) (S_ISCHR(m) || S_ISBLK(m) || S_ISFIFO(m) || S_ISSOCK(m))
/* created only if this is not a later name of an already recorded hard-link group; the table was consulted when needed */
#define MAY_CREATE (g_st == 1 && (S_ISDIR(g_mode) || S_ISLNK(g_mode) || g_nlink <= 1 || (g_hl_seen && g_hl_idx < 0)))
#define RESULT_NOTED(r) (((r) == 0 && g_err == __CPROVER_old(g_err)) || ((r) != 0 && g_err == (__CPROVER_old(g_err) ? __CPROVER_old(g_err) : (r))))
#define IS_LNF_AT_ROOT (IN.parent == EXT2_ROOT_INO && g_name_is_lnf)

/* the loop invariants (named anchors of hooks-pending/pop2.diff) */
#define VERIF_INV_POPULATE_FS_ENTRIES \
	__CPROVER_assigns(i, name, st, save_inode, ino, retval, hdlink, cur_dir_path_len, \
			  g_st, g_draw, g_err, g_trunc, g_nomem, g_bad, g_lstats, g_done, g_name, g_stp, g_mode, g_rdev, g_nlink, g_dev, g_sino, g_size, \
			  g_hl_seen, g_hl_idx, g_rl, g_lnbuf, g_dirino, g_dst, g_saved, g_sv_dev, g_sv_ino, g_sv_dst, g_frees, g_chdirs, \
			  hdlinks->count, hdlinks->size, hdlinks->hdl, __CPROVER_object_whole(G_HDL), \
			  target->path_len, target->path_max_len, target->path, __CPROVER_object_whole(G_PATH), __CPROVER_object_whole(G_LNPOOL)) \
	__CPROVER_loop_invariant(0 <= i && i <= num_dents) \
	__CPROVER_loop_invariant(retval == 0 && g_st == 0 && g_err == 0 && g_trunc == 0 && g_nomem == 0 && g_bad == 0) \
	__CPROVER_loop_invariant(g_lstats == (g_name_is_dot ? 0ul : (unsigned long)i) && g_done == g_lstats) \
	__CPROVER_loop_invariant(hdlinks == &HL && hdlinks->hdl == G_HDL && 0 <= hdlinks->count && hdlinks->count <= hdlinks->size && \
				 hdlinks->size <= HCAP) \
	__CPROVER_loop_invariant(target == &TGT && target->path == G_PATH && target->path_len < PATHCAP) \
	__CPROVER_loop_invariant(g_saved == 0 || (hdlinks->count >= 1 && G_HDL[hdlinks->count - 1].src_dev == g_sv_dev && \
						  G_HDL[hdlinks->count - 1].src_ino == g_sv_ino && G_HDL[hdlinks->count - 1].dst_ino == g_sv_dst)) \
	__CPROVER_decreases(num_dents - i)
#define VERIF_INV_POPULATE_FS_CLEANUP \
	__CPROVER_assigns(i, g_frees) \
	__CPROVER_loop_invariant(0 <= i && i <= num_dents) \
	__CPROVER_decreases(num_dents - i)

/* ------------------------------------------------------------------ host calls */
void com_err(const char *whoami, long code, const char *fmt, ...) { }
char *gettext(const char *msgid) { return (char *)msgid; }

int chdir(const char *path)
{
	int f = DRAWN(r_chdir);
	g_chdirs++;
	if (path == g_srcdir)
		EXPECT(g_st == 0 && g_chdirs == 1);
	else {
		CHECK(g_st == 4 && path[0] == '.' && path[1] == '.' && path[2] == 0, "chdir(\"..\") exactly once, right after the recursion into the new directory");
		g_st = 5;
	}
	if (f) {
		NOTE_ERR(IN.err);
		return -1;
	}
	return 0;
}
int verif_scandir(const char *dir, struct dirent ***namelist)
{
	EXPECT(dir[0] == '.' && dir[1] == 0 && g_chdirs == 1);
	if (IN.num_dents < 0) {
		NOTE_ERR(IN.err);
		return -1;
	}
	*namelist = G_DENTS;
	return IN.num_dents;
}
#define scandir(d, l, f, c) verif_scandir(d, l)
int lstat(const char *path, struct stat *buf)
{
	struct st_s s = DRAWN(st);
	CHECK(g_st == 0, "lstat starts an entry: the previous entry was completed");
	CHECK(path == G_DE.d_name && !g_name_is_dot, "lstat of the entry's name; never of \".\" or \"..\"");
	g_lstats++;
	if (s.fail) {
		NOTE_ERR(IN.err);
		return -1;
	}
	memset(buf, 0, sizeof(*buf));
	buf->st_mode = s.mode; buf->st_nlink = s.nlink; buf->st_dev = s.dev; buf->st_ino = s.ino; buf->st_size = s.size; buf->st_rdev = s.rdev;
	g_name = path; g_stp = buf;
	g_mode = s.mode; g_nlink = s.nlink; g_dev = s.dev; g_sino = s.ino; g_size = s.size; g_rdev = s.rdev;
	g_hl_seen = 0; g_hl_idx = -1; g_rl = -1;
	g_st = 1;
	return 0;
}
void *verif_malloc(size_t n)
{
	CHECK(MAY_CREATE && S_ISLNK(g_mode) && n == (size_t)g_size + 1, "the symlink buffer has st_size + 1 bytes");
#if !defined(VERIF_UNIT_pop_populate_dispatch_ok)
	if (DRAWN(nomem)) {
		g_nomem = 1;
		return 0;
	}
#endif
	__CPROVER_assume(n <= LNCAP);		/* model cap on the symlink length */
	g_lnbuf = G_LNPOOL;
	return G_LNPOOL;
}
void verif_free(void *p) { g_frees++; }
void *verif_realloc(void *p, size_t n)
{
	CHECK(p == (void *)G_HDL && n == (size_t)(HL.size + HDLINK_CNT) * sizeof(struct hdlink_s), "the hard-link table grows by HDLINK_CNT entries");
	if (DRAWN(realloc_fails)) {
		NOTE_ERR(EXT2_ET_NO_MEMORY);
		return 0;
	}
	__CPROVER_assume(HL.size + HDLINK_CNT <= HCAP);	/* the model's table object has room for HCAP entries */
	return p;				/* growth in place: the object has room (see harness) */
}
/* strcmp against the three literals of __populate_fs, loop-free (a library loop inside the cut loop cannot pass DFCC's frame check) */
static int g_cmp_dot, g_cmp_dotdot, g_cmp_lnf;
int verif_strcmp(const char *a, const char *b)
{
	EXPECT(a == G_DE.d_name);
	if (b[0] == '.' && b[1] == 0)
		return g_cmp_dot;
	if (b[0] == '.' && b[1] == '.' && b[2] == 0)
		return g_cmp_dotdot;
	EXPECT(b[0] == 'l' && b[1] == 'o' && b[2] == 's' && b[3] == 't' && b[4] == '+' && b[5] == 'f' && b[6] == 'o' && b[7] == 'u' && b[8] == 'n' && b[9] == 'd' && b[10] == 0);
	return g_cmp_lnf;
}
#define strcmp(a, b) verif_strcmp(a, b)
#define malloc(n) verif_malloc(n)
#define free(p) verif_free(p)
#define realloc(p, n) verif_realloc(p, n)
ssize_t readlink(const char *path, char *buf, size_t bufsiz)
{
	long v = DRAWN(rl);
	CHECK(g_st == 1 && S_ISLNK(g_mode) && path == g_name && buf == g_lnbuf && bufsiz == (size_t)g_size + 1, "readlink of this entry into the st_size + 1 buffer");
	if (v < 0) {
		NOTE_ERR(IN.err);
		return -1;
	}
	__CPROVER_assume((size_t)v <= bufsiz);
#if defined(VERIF_UNIT_pop_populate_dispatch_ok)
	__CPROVER_assume(v <= g_size);
#endif
	g_rl = v;
	if (v > g_size)
		g_trunc = 1;			/* the whole buffer is filled: the target may be longer */
	return v;
}
errcode_t ext2fs_namei(ext2_filsys fs, ext2_ino_t root, ext2_ino_t cwd, const char *name, ext2_ino_t *inode)
{
	long e = IN.r_namei[g_draw & 3];
	unsigned int v = DRAWN(ino);
	EXPECT(fs == &FS && root == IN.root && cwd == IN.parent);
	CHECK(name == g_name, "lookups are for this entry's name in the parent directory");
	if (g_st == 2 && S_ISDIR(g_mode) || (g_st == 1 && S_ISDIR(g_mode) && IS_LNF_AT_ROOT)) {
		CHECK(g_st == 2 || (MAY_CREATE && IS_LNF_AT_ROOT), "only /lost+found is entered without being created");
		g_st = 3;
		if (e > 0) { NOTE_ERR(e); return e; }
		g_dirino = v;
	} else {
		CHECK(S_ISDIR(g_mode) ? g_st == 5 : g_st == 2, "the final lookup follows the creation (for a directory: the recursion and the way back)");
		g_st = 6;
		if (e > 0) { NOTE_ERR(e); return e; }
		g_dst = v;
	}
	*inode = v;
	return 0;
}

/* ------------------------------------------------------------------ the recursion, cut by renaming */
static errcode_t __populate_fs_rec(ext2_filsys fs, ext2_ino_t parent_ino, const char *source_dir, ext2_ino_t root,
				   struct hdlinks_s *hdlinks, struct file_info *target, struct fs_ops_callbacks *fs_callbacks)
{
	long e = DRAWN(r_rec);
	int grow = IN.grow[g_draw & 3];
	CHECK(g_st == 3 && S_ISDIR(g_mode), "recursion only for a directory, after it was created and looked up");
	CHECK(fs == &FS && parent_ino == g_dirino && source_dir == g_name && root == IN.root && hdlinks == &HL && target == &TGT && fs_callbacks == 0,
	      "recursion: into the new directory's inode, from the source directory of the same name, same root / hard-link table / path / callbacks");
	g_st = 4;
	/* further hard-link groups may have been recorded below (in-place growth model, see harness) */
	__CPROVER_assume(grow >= 0 && grow <= 4 && HL.count + grow <= HL.size);
	HL.count += grow;
	if (grow)
		g_saved = 0;
	if (e > 0) { NOTE_ERR(e); return e; }
	return 0;
}
#define __populate_fs(a, ...) VPOP_##a, __VA_ARGS__)
#define VPOP_ext2_filsys __populate_fs_def(ext2_filsys
#define VPOP_fs __populate_fs_rec(fs

/* ------------------------------------------------------------------ the creators of the same file: contracts */
static int is_hardlink(struct hdlinks_s *hdlinks, dev_t dev, ino_t ino)
	REQUIRES(g_st == 1 && !S_ISDIR(g_mode) && !S_ISLNK(g_mode) && g_nlink > 1 && hdlinks == &HL && dev == g_dev && ino == g_sino)
	ASSIGNS(g_hl_seen, g_hl_idx)
	ENSURES(g_hl_seen == 1 && RET == g_hl_idx && RET >= -1 && RET < HL.count);
errcode_t add_link(ext2_filsys fs, ext2_ino_t parent_ino, ext2_ino_t ino, const char *name)
	REQUIRES(g_st == 1 && g_hl_seen && g_hl_idx >= 0 && fs == &FS && parent_ino == IN.parent && ino == G_HDL[g_hl_idx].dst_ino && name == g_name)
	ASSIGNS(g_st, g_err, g_done)
	ENSURES(g_st == 0 && g_done == OLD(g_done) + 1 && RESULT_NOTED(RET));
static errcode_t path_append(struct file_info *target, const char *file)
	REQUIRES(MAY_CREATE && target == &TGT && file == g_name)
	ASSIGNS(g_err, target->path_len)
	ENSURES(RESULT_NOTED(RET) && target->path_len < PATHCAP);
errcode_t do_mknod_internal(ext2_filsys fs, ext2_ino_t cwd, const char *name, unsigned int st_mode, unsigned int st_rdev)
	REQUIRES(MAY_CREATE && S_ISSPECIAL(g_mode))
	REQUIRES(fs == &FS && cwd == IN.parent && name == g_name && st_mode == g_mode && st_rdev == g_rdev)
	ASSIGNS(g_st, g_err)
	ENSURES(g_st == 2 && RESULT_NOTED(RET));
errcode_t do_symlink_internal(ext2_filsys fs, ext2_ino_t cwd, const char *name, char *target, ext2_ino_t root)
	REQUIRES(MAY_CREATE && S_ISLNK(g_mode))
	REQUIRES(fs == &FS && cwd == IN.parent && name == g_name && root == IN.root)
	REQUIRES(target == g_lnbuf && g_rl >= 0 && g_rl <= g_size && target[g_rl] == 0)
	ASSIGNS(g_st, g_err)
	ENSURES(g_st == 2 && RESULT_NOTED(RET));
errcode_t do_write_internal(ext2_filsys fs, ext2_ino_t cwd, const char *src, const char *dest, ext2_ino_t root)
	REQUIRES(MAY_CREATE && S_ISREG(g_mode))
	REQUIRES(fs == &FS && cwd == IN.parent && src == g_name && dest == g_name && root == IN.root)
	ASSIGNS(g_st, g_err)
	ENSURES(g_st == 2 && RESULT_NOTED(RET));
errcode_t do_mkdir_internal(ext2_filsys fs, ext2_ino_t cwd, const char *name, ext2_ino_t root)
	REQUIRES(MAY_CREATE && S_ISDIR(g_mode) && !IS_LNF_AT_ROOT)
	REQUIRES(fs == &FS && cwd == IN.parent && name == g_name && root == IN.root)
	ASSIGNS(g_st, g_err)
	ENSURES(g_st == 2 && RESULT_NOTED(RET));
errcode_t set_inode_extra(ext2_filsys fs, ext2_ino_t ino, const struct stat *st)
	REQUIRES(g_st == 6 && fs == &FS && ino == g_dst && st == g_stp)
	REQUIRES(st->st_mode == g_mode && st->st_nlink == g_nlink && st->st_size == g_size && st->st_ino == g_sino)
	ASSIGNS(g_st, g_err)
	ENSURES(g_st == 7 && RESULT_NOTED(RET));
#define SAVE_COND (!S_ISDIR(g_mode) && !S_ISLNK(g_mode) && g_nlink > 1)
static errcode_t set_inode_xattr(ext2_filsys fs, ext2_ino_t ino, const char *filename)
	REQUIRES(g_st == 7 && fs == &FS && ino == g_dst && filename == g_name)
	ASSIGNS(g_st, g_err, g_done, g_saved, g_sv_dev, g_sv_ino, g_sv_dst)
	ENSURES(g_st == 0 && g_done == OLD(g_done) + 1 && RESULT_NOTED(RET))
	ENSURES(SAVE_COND ? (g_saved == 1 && g_sv_dev == g_dev && g_sv_ino == g_sino && g_sv_dst == g_dst)
			  : (g_saved == OLD(g_saved) && g_sv_dev == OLD(g_sv_dev) && g_sv_ino == OLD(g_sv_ino) && g_sv_dst == OLD(g_sv_dst)));

#include "misc/create_inode.c"
#undef malloc
#undef strcmp
#undef free
#undef realloc

#ifndef VERIF_NATIVE
void *malloc(__CPROVER_size_t n) { return __CPROVER_allocate(n, 0); }
#endif

static void body(void)
{
	LOAD_IN();
	int i;
	memset(&FS, 0, sizeof(FS));
	ASSUME(IN.err > 0);
	ASSUME(IN.num_dents >= -1 && IN.num_dents <= (1 << 20));
	ASSUME(IN.hsize >= 4 && IN.hsize <= HCAP && IN.hcount >= 0 && IN.hcount <= IN.hsize);
	ASSUME(IN.plen < PATHCAP);
	for (i = 0; i < 4; i++) {
		ASSUME(IN.st[i].size >= 0 && IN.st[i].size <= (1LL << 62));
		/* Linux: lstat delivers one of the seven file types */
		ASSUME(S_ISREG(IN.st[i].mode) || S_ISDIR(IN.st[i].mode) || S_ISLNK(IN.st[i].mode) || S_ISSPECIAL(IN.st[i].mode));
		ASSUME(IN.r_namei[i] >= 0 && IN.r_rec[i] >= 0);
	}
	/* the entry name: a C string of at most 11 characters */
	memcpy(G_DE.d_name, IN.name, 12);
	G_DE.d_name[11] = 0;
	ASSUME(G_DE.d_name[0] != 0);
	g_name_is_dot = G_DE.d_name[0] == '.' && (G_DE.d_name[1] == 0 || (G_DE.d_name[1] == '.' && G_DE.d_name[2] == 0));
	{
		const char *n = G_DE.d_name;
		g_name_is_lnf = n[0] == 'l' && n[1] == 'o' && n[2] == 's' && n[3] == 't' && n[4] == '+' && n[5] == 'f' && n[6] == 'o' && n[7] == 'u' && n[8] == 'n' && n[9] == 'd' && n[10] == 0;
		/* strcmp's answers for this name (only zero / non-zero is used by the code) */
		g_cmp_dot = (n[0] == '.' && n[1] == 0) ? 0 : 1;
		g_cmp_dotdot = (n[0] == '.' && n[1] == '.' && n[2] == 0) ? 0 : -1;
		g_cmp_lnf = g_name_is_lnf ? 0 : 1;
	}
	/* every slot of the list points to the one entry object */
	G_DENTS = malloc(sizeof(struct dirent *) * (IN.num_dents > 0 ? IN.num_dents : 1));
	ASSUME(G_DENTS != 0);
	__CPROVER_array_set(G_DENTS, &G_DE);
	/* hard-link table: room for the growth of this level (in-place realloc model) */
	G_HDL = malloc(sizeof(struct hdlink_s) * HCAP);
	ASSUME(G_HDL != 0);
	HL.count = IN.hcount; HL.size = IN.hsize; HL.hdl = G_HDL;
	G_PATH = malloc(PATHCAP);
	G_LNPOOL = malloc(LNCAP + 1);
	ASSUME(G_PATH != 0 && G_LNPOOL != 0);
	TGT.path = G_PATH; TGT.path_len = IN.plen; TGT.path_max_len = PATHCAP;
	g_st = 0; g_draw = 0; g_err = 0; g_trunc = g_nomem = g_bad = 0; g_lstats = g_done = 0;
	g_name = 0; g_stp = 0; g_mode = 0; g_rdev = 0; g_nlink = g_dev = g_sino = 0; g_size = 0; g_hl_seen = 0; g_hl_idx = -1; g_rl = -1;
	g_lnbuf = 0; g_dirino = g_dst = 0; g_saved = 0; g_sv_dev = g_sv_ino = 0; g_sv_dst = 0; g_frees = g_chdirs = 0;
	errno = IN.err;		/* a failing host call leaves this (fixed, positive) code: the stubs inside the cut loop do not write errno */

	errcode_t r = __populate_fs_def(&FS, IN.parent, g_srcdir, IN.root, &HL, &TGT, 0);

	CHECK(!g_bad, "every host / library call is about this directory, this file system, in order");
	CHECK(!(g_err != 0) || r != 0, "no failure of a host or library call is swallowed");
	CHECK(!(g_err != 0) || r == g_err, "the first failure is what the caller sees");
	CHECK(!g_trunc || r != 0, "a readlink result that fills the whole buffer (possibly truncated) ends the population with an error");
	CHECK(!g_nomem || r != 0, "a failed malloc ends the population with an error");
	if (r == 0) {
		CHECK(g_st == 0 && g_done == g_lstats, "success: no entry is left half-done");
		CHECK(g_lstats == (g_name_is_dot || IN.num_dents < 0 ? 0ul : (unsigned long)IN.num_dents), "success: every entry except \".\" and \"..\" was handled");
		REACH("success");
	} else
		REACH("failure");
	REACH("end");
}
void h_populate(void) { body(); }
void h_populate_ok(void) { body(); }
