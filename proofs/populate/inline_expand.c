/* VERIF-UNIT
{
 "name": "pop_inline_expand_file",
 "props": ["C09", "C18"],
 "level": "P",
 "tier": "quick",
 "harness": "h_expand_file",
 "defines": ["EXT2_CUSTOM_MEMORY_ROUTINES"],
 "replace": ["ext2fs_inline_data_dir_expand"],
 "unwind": 14,
 "unwind_reason": "ext2fs_inline_data_expand / _file_expand are loop-free; the bound serves the 12-character key comparison of the xattr stubs and the DFCC library loops (unwinding assertions on)",
 "functions": ["lib/ext2fs/inline_data.c:ext2fs_inline_data_expand", "lib/ext2fs/inline_data.c:ext2fs_inline_data_file_expand"],
 "assumes": ["no contract enforced: harness CHECKs + ghost monitor in the stubs",
             "ghost model of the inode: ext2fs_read_inode / ext2fs_write_inode work on ONE stored inode (G_INODE); the EA system.data has an arbitrary size 0..964 (inline area 60..1024 bytes) and arbitrary content; one ghost byte position k of the inline area is followed (fileio/inline_common.h style)",
             "ext2fs_file_open / ext2fs_file_write / ext2fs_file_close are stubs that behave as the CONTRACT of the block path (unit fileio/file_write, property C09): a write of n bytes at position 0 stores buf[0..n), makes the stored size max(size, n) and accounts one block in i_blocks when n > 0; ext2fs_file_set_size2 (only reached with the proposed fix) sets the stored size; ext2fs_extent_open2 on an inode with an all-zero i_block installs an extent header and EXT4_EXTENTS_FL; every stub may instead fail (harness-chosen), changing nothing",
             "regular file with EXT4_INLINE_DATA_FL; i_size ARBITRARY below 2^48 (smaller than, equal to or LARGER than the inline area: mke2fs -d creates the inode with i_size = st_size before the first byte is copied; the kernel keeps inline files whose i_size exceeds the inline area as well)",
             "libc memcpy modelled in the unit: bounds asserted at every call, faithful at the followed byte, every other destination byte unconstrained",
             "FAILS on the pinned tree: obligation 'i_size is unchanged' - FINDING findings/C09_pop_inline_expand_size (ext2fs_inline_data_file_expand resets i_size to 0 and writes the whole inline AREA back: i_size becomes 60 + EA size whatever it was); green with its proposed-fix.patch"],
 "native": false
}
*/
/* VERIF-UNIT
{
 "name": "pop_inline_expand_file_full",
 "props": ["C09", "C18"],
 "level": "P",
 "tier": "quick",
 "harness": "h_expand_file_full",
 "defines": ["EXT2_CUSTOM_MEMORY_ROUTINES"],
 "replace": ["ext2fs_inline_data_dir_expand"],
 "unwind": 14,
 "unwind_reason": "as pop_inline_expand_file",
 "functions": ["lib/ext2fs/inline_data.c:ext2fs_inline_data_expand", "lib/ext2fs/inline_data.c:ext2fs_inline_data_file_expand"],
 "assumes": ["as pop_inline_expand_file, restricted to the inputs on which the pinned tree is right: i_size equals the size of the inline area (60 + EA size), i.e. the file fills its inline area exactly (finding C09_pop_inline_expand_size excluded)"],
 "native": false
}
*/
/* VERIF-UNIT
{
 "name": "pop_inline_expand_dir",
 "props": ["C18", "C10"],
 "level": "U/k",
 "tier": "thorough",
 "harness": "h_expand_dir",
 "defines": ["EXT2_CUSTOM_MEMORY_ROUTINES"],
 "replace": ["ext2fs_inline_data_file_expand"],
 "sources": ["lib/ext2fs/dir_iterate.c"],
 "unwind": 14,
 "unwindset": {"ext2fs_inline_data_convert_dir.0": 9},
 "timeout": 900,
 "unwind_reason": "the entry walk of ext2fs_inline_data_convert_dir advances by rec_len >= 8 (well-formed entries) through at most 56 + 8 bytes of entries: at most 8 rounds; other loops: 12-character key comparison of the stubs, DFCC library loops (unwinding assertions on)",
 "functions": ["lib/ext2fs/inline_data.c:ext2fs_inline_data_expand", "lib/ext2fs/inline_data.c:ext2fs_inline_data_dir_expand", "lib/ext2fs/inline_data.c:ext2fs_inline_data_convert_dir"],
 "assumes": ["no contract enforced: harness CHECKs + ghost monitor in the stubs; ext2fs_get_rec_len / ext2fs_set_rec_len are the real ones (dir_iterate.c)",
             "directory with EXT4_INLINE_DATA_FL; EA system.data absent or 8 bytes (inline area 60 or 68 bytes: the entry region is 56 or 64 bytes) - B(68) for the size of the inline area only; blocksize 1024; metadata_csum / filetype / extents features arbitrary",
             "WELL-FORMED inline directory (what e2fsck pass 2 insists on): the entries starting at byte 4 of the inline data form a chain of rec_len values (each >= 8, multiple of 4) that ends exactly at the end of the inline data; entry contents arbitrary",
             "ext2fs_new_block2, ext2fs_write_dir_block4, ext2fs_iblk_add_blocks, ext2fs_bmap2, ext2fs_block_alloc_stats, ext2fs_initialize_dirent_tail are stubs: results harness-chosen, arguments recorded; iblk_add_blocks adds blocksize/512 to i_blocks"],
 "native": false
}
*/
/*
 * C09 / C18: conversion of an inline-data inode to a block-mapped one (lib/ext2fs/inline_data.c), the step
 * mke2fs -d / debugfs write / fuse2fs take when a file or directory outgrows its inode.
 *
 * Statement (property C09 "exactly size bytes in total", C18 "byte content and length with holes kept as holes";
 * format: Documentation/filesystems/ext4 "Inline Data": the inline area is i_block (60 bytes) followed by the value
 * of the EA system.data; the FILE is bytes [0, i_size) of it, read as zeros beyond the area):
 *
 *   regular file, success =>
 *     the stored inode no longer has EXT4_INLINE_DATA_FL; the EA system.data was removed (before the block path
 *     ran); the bytes [0, min(i_size, area)) of the former inline area were written at file offsets [0, ..) through
 *     the block path, starting from an EMPTY block map (all-zero i_block, or a fresh extent header with
 *     EXT4_EXTENTS_FL when the file system has extents); i_size IS UNCHANGED (it is the file's size, not the
 *     area's); i_blocks = old + what the block path accounted; no other inode field changes.
 *
 *   directory, success =>
 *     one new block B (ext2fs_new_block2) is written as a directory block (ext2fs_write_dir_block4 for this inode)
 *     that starts with '.' -> the directory itself and '..' -> the parent kept in i_block[0] (12 bytes each, file
 *     type DIR iff the filetype feature), followed by the inline entries in their order, byte for byte, the rec_len
 *     chain tiling the block up to blocksize (- 12 with metadata_csum, where the checksum tail is initialised);
 *     the inode: no EXT4_INLINE_DATA_FL, EXT4_EXTENTS_FL iff extents, i_size = blocksize, i_blocks + one block,
 *     logical block 0 mapped to B (ext2fs_bmap2 BMAP_SET), B marked in use.
 */
#include "verif.h"
#include "config.h"
#include <stdio.h>
#include <string.h>
#include <stdlib.h>
#include <errno.h>
#include "ext2_fs.h"
#include "ext2fs.h"

#ifndef EXT2_CUSTOM_MEMORY_ROUTINES
#error "built with -DEXT2_CUSTOM_MEMORY_ROUTINES"
#endif
errcode_t ext2fs_get_mem(unsigned long size, void *ptr);
errcode_t ext2fs_get_memzero(unsigned long size, void *ptr);
errcode_t ext2fs_free_mem(void *ptr);

#define BS 1024u
#define EA_MAX (BS - 60u)

struct in_s {
	struct ext2_inode inode;
	unsigned long long isize;
	unsigned int ea_size, k, j, ino, newblk;
	unsigned char extents, csum, filetype, no_ea;
	unsigned char fail[12];		/* stub failures, consumed in order */
	unsigned char area[72];		/* dir unit: the inline data */
	unsigned int w;			/* dir unit: ghost entry offset */
};
struct in_s IN;
#include "verif_in.h"

unsigned long long verif_k;

#ifndef VERIF_NATIVE
void *malloc(__CPROVER_size_t n) { return __CPROVER_allocate(n, 0); }
#endif

/* ------------------------------------------------------------------ ghost state */
static struct ext2_inode G_INODE;		/* the inode as stored */
static unsigned int g_ci;			/* draw counter for failures */
static unsigned int g_reads, g_writes, g_xopen, g_xclose, g_xremoved, g_mem_allocs, g_mem_frees;
static unsigned char g_byte0;			/* ghost: byte k of the inline area on entry */
static unsigned char *g_ea;			/* EA value handed out */
/* file stubs */
static unsigned int g_fopen, g_fclose, g_fwrites, g_fsetsize, g_xopen2, g_bad;
static unsigned long long g_w_n, g_blocks_added;
static unsigned char g_w_byte;
static int g_w_has_byte;
static struct fh_s { int tag; } FH;
/* dir stubs */
static unsigned int g_newblk, g_wdb, g_iblk, g_bmap, g_bas, g_tail;
static int g_w_is_entry, g_w_is_last;
static unsigned int g_parent;
static char *g_bbuf;

#define FAIL_NOW() (IN.fail[(g_ci++) % 12] & 1)
#define EXPECT(c) do { if (!(c)) g_bad = 1; } while (0)
#define VERIF_EIO EXT2_ET_SHORT_READ
#define AREA (60u + (IN.no_ea ? 0u : IN.ea_size))

errcode_t ext2fs_get_mem(unsigned long size, void *ptr)
{
	g_mem_allocs++;
	*(void **)ptr = malloc(size);
	return 0;
}
errcode_t ext2fs_get_memzero(unsigned long size, void *ptr)
{
	void *p = malloc(size);
	g_mem_allocs++;
	memset(p, 0, size);
	if (size == BS)
		g_bbuf = p;		/* the directory block buffer of ext2fs_inline_data_dir_expand */
	*(void **)ptr = p;
	return 0;
}
errcode_t ext2fs_free_mem(void *ptr)
{
	void **pp = (void **)ptr;
	if (*pp)
		g_mem_frees++;
	free(*pp);
	*pp = 0;
	return 0;
}

#if !defined(VERIF_UNIT_pop_inline_expand_dir)
/*
 * libc memcpy as the file path sees it (two calls: i_block -> buffer, EA value -> buffer + 60): bounds asserted,
 * faithful at the byte that is / becomes byte k of the inline area, every other destination byte unconstrained
 * (the destination is always the freshly allocated inline buffer).
 */
void *memcpy(void *dst, const void *src, size_t n)
{
	__CPROVER_assert(__CPROVER_r_ok(src, n), "CHECK:memcpy source readable");
	__CPROVER_assert(__CPROVER_w_ok(dst, n), "CHECK:memcpy destination writable");
	__CPROVER_assume(__CPROVER_r_ok(src, n) && __CPROVER_w_ok(dst, n));
	if (n > 0) {
		/* both destinations are parts of the freshly allocated inline buffer, whose bytes are unconstrained: copying
		 * the followed byte and leaving the others as they are is an over-approximation of the copy */
		unsigned int j = (src == (const void *)g_ea) ? IN.k - 60u : IN.k;	/* IN.k - 60 wraps for k < 60: then >= n */
		if (j < n)
			((unsigned char *)dst)[j] = ((const unsigned char *)src)[j];
	}
	return dst;
}
#endif

/* ------------------------------------------------------------------ inode store */
errcode_t ext2fs_read_inode(ext2_filsys fs, ext2_ino_t ino, struct ext2_inode *inode)
{
	EXPECT(ino == IN.ino);
	if (FAIL_NOW())
		return VERIF_EIO;
	g_reads++;
	*inode = G_INODE;
	return 0;
}
errcode_t ext2fs_write_inode(ext2_filsys fs, ext2_ino_t ino, struct ext2_inode *inode)
{
	EXPECT(ino == IN.ino);
	if (FAIL_NOW())
		return EXT2_ET_SHORT_WRITE;
	g_writes++;
	G_INODE = *inode;
	return 0;
}

/* ------------------------------------------------------------------ xattr layer */
struct ext2_xattr_handle { int tag; };
static struct ext2_xattr_handle XH;

static int key_is_system_data(const char *k)
{
	return k[0] == 's' && k[1] == 'y' && k[2] == 's' && k[3] == 't' && k[4] == 'e' && k[5] == 'm' && k[6] == '.' &&
	       k[7] == 'd' && k[8] == 'a' && k[9] == 't' && k[10] == 'a' && k[11] == 0;
}
errcode_t ext2fs_xattrs_open(ext2_filsys fs, ext2_ino_t ino, struct ext2_xattr_handle **handle)
{
	EXPECT(ino == IN.ino);
	if (FAIL_NOW())
		return EXT2_ET_NO_MEMORY;
	g_xopen++;
	*handle = &XH;
	return 0;
}
errcode_t ext2fs_xattrs_read(struct ext2_xattr_handle *handle)
{
	EXPECT(handle == &XH);
	return FAIL_NOW() ? EXT2_ET_EA_BAD_VALUE_OFFSET : 0;
}
errcode_t ext2fs_xattr_get(struct ext2_xattr_handle *h, const char *key, void **value, size_t *value_len)
{
	unsigned char *p;
	EXPECT(h == &XH && key_is_system_data(key) && !g_xremoved);
	if (IN.no_ea)
		return EXT2_ET_EA_KEY_NOT_FOUND;
	p = malloc(IN.ea_size);
	g_mem_allocs++;
#if defined(VERIF_UNIT_pop_inline_expand_dir)
	memcpy(p, IN.area + 60, 8);		/* the harness fixes ea_size == 8 */
#else
	if (IN.k >= 60 && IN.k - 60 < IN.ea_size)
		g_byte0 = p[IN.k - 60];
#endif
	g_ea = p;
	*value = p;
	*value_len = IN.ea_size;
	return 0;
}
errcode_t ext2fs_xattr_remove(struct ext2_xattr_handle *h, const char *key)
{
	EXPECT(h == &XH && key_is_system_data(key));
	EXPECT(g_fopen == 0 && g_wdb == 0);		/* before the block path runs */
	if (FAIL_NOW())
		return VERIF_EIO;
	g_xremoved++;
	return 0;
}
errcode_t ext2fs_xattrs_close(struct ext2_xattr_handle **handle)
{
	EXPECT(*handle == &XH);
	g_xclose++;
	*handle = 0;
	return 0;
}
errcode_t ext2fs_xattr_set(struct ext2_xattr_handle *h, const char *key, const void *value, size_t value_len)
{
	CHECK(0, "the EA is never set during an expansion");
	return 0;
}
errcode_t ext2fs_xattr_inode_max_size(ext2_filsys fs, ext2_ino_t ino, size_t *size)
{
	CHECK(0, "unreachable");
	return 0;
}

/* ------------------------------------------------------------------ block path of a regular file (contract of fileio.c) */
#define EXT_MARK 0xF30Au
errcode_t ext2fs_extent_open2(ext2_filsys fs, ext2_ino_t ino, struct ext2_inode *inode, ext2_extent_handle_t *handle)
{
	g_xopen2++;
	EXPECT(ino == IN.ino && inode != 0);
	/* an all-zero i_block gets a fresh extent header (extent.c) */
	EXPECT(inode->i_block[IN.j % EXT2_N_BLOCKS] == 0 && !(inode->i_flags & EXT4_EXTENTS_FL));
	if (FAIL_NOW())
		return EXT2_ET_NO_MEMORY;
	inode->i_block[0] = EXT_MARK;
	inode->i_flags |= EXT4_EXTENTS_FL;
	*handle = 0;
	return 0;
}
void ext2fs_extent_free(ext2_extent_handle_t handle) { }

errcode_t ext2fs_file_open(ext2_filsys fs, ext2_ino_t ino, int flags, ext2_file_t *ret)
{
	unsigned int w = IN.j % EXT2_N_BLOCKS;
	EXPECT(ino == IN.ino && (flags & EXT2_FILE_WRITE));
	/* the block path starts from the STORED inode: no inline flag, empty block map, EA gone */
	CHECK(!(G_INODE.i_flags & EXT4_INLINE_DATA_FL), "block path: the stored inode has no EXT4_INLINE_DATA_FL");
	CHECK(g_xremoved == 1, "block path: the EA system.data has been removed");
	if (IN.extents)
		CHECK((G_INODE.i_flags & EXT4_EXTENTS_FL) && G_INODE.i_block[0] == EXT_MARK && (w == 0 || G_INODE.i_block[w] == 0),
		      "block path (extents): fresh extent header, EXT4_EXTENTS_FL");
	else
		CHECK(!(G_INODE.i_flags & EXT4_EXTENTS_FL) && G_INODE.i_block[w] == 0, "block path (block-mapped): all-zero i_block");
	if (FAIL_NOW())
		return EXT2_ET_NO_MEMORY;
	g_fopen++;
	*ret = (ext2_file_t)&FH;
	return 0;
}
errcode_t ext2fs_file_write(ext2_file_t file, const void *buf, unsigned int nbytes, unsigned int *written)
{
	EXPECT(file == (ext2_file_t)&FH && g_fopen == 1 && g_fclose == 0 && g_fwrites == 0);
	CHECK(nbytes == 0 || __CPROVER_r_ok(buf, nbytes), "file write: the buffer is readable for nbytes");
	CHECK(nbytes <= BS, "file write: one block at most");
	if (FAIL_NOW())
		return EXT2_ET_BLOCK_ALLOC_FAIL;
	g_fwrites++;
	g_w_n = nbytes;
	if (IN.k < nbytes) {
		g_w_has_byte = 1;
		g_w_byte = ((const unsigned char *)buf)[IN.k];
	}
	/* contract of the block path: position 0, size = max(size, n), one block accounted */
	if (nbytes != 0) {
		if (EXT2_I_SIZE(&G_INODE) < nbytes) {
			G_INODE.i_size = nbytes;
			G_INODE.i_size_high = 0;
		}
		G_INODE.i_blocks += BS / 512;
		g_blocks_added += BS / 512;
	}
	if (written)
		*written = nbytes;
	return 0;
}
errcode_t ext2fs_file_set_size2(ext2_file_t file, ext2_off64_t size)
{
	EXPECT(file == (ext2_file_t)&FH && g_fopen == 1 && g_fclose == 0);
	if (FAIL_NOW())
		return EXT2_ET_SHORT_WRITE;
	g_fsetsize++;
	G_INODE.i_size = (__u32)size;
	G_INODE.i_size_high = (__u32)((unsigned long long)size >> 32);
	return 0;
}
errcode_t ext2fs_file_close(ext2_file_t file)
{
	EXPECT(file == (ext2_file_t)&FH && g_fopen == 1 && g_fclose == 0);
	g_fclose++;
	return 0;
}

/* ------------------------------------------------------------------ block path of a directory */
errcode_t ext2fs_new_block2(ext2_filsys fs, blk64_t goal, ext2fs_block_bitmap map, blk64_t *ret)
{
	if (FAIL_NOW())
		return EXT2_ET_BLOCK_ALLOC_FAIL;
	g_newblk++;
	*ret = IN.newblk;
	return 0;
}
static void check_dir_block(const unsigned char *blk);
errcode_t ext2fs_write_dir_block4(ext2_filsys fs, blk64_t block, void *buf, int flags, ext2_ino_t ino)
{
	EXPECT(block == IN.newblk && ino == IN.ino && flags == 0 && g_newblk == 1 && (char *)buf == g_bbuf);
	CHECK(__CPROVER_r_ok(buf, BS), "write_dir_block: a whole block");
	check_dir_block((const unsigned char *)buf);	/* the statement about the block, at the moment it is written */
	if (FAIL_NOW())
		return EXT2_ET_SHORT_WRITE;
	g_wdb++;
	return 0;
}
errcode_t ext2fs_iblk_add_blocks(ext2_filsys fs, struct ext2_inode *inode, blk64_t num_blocks)
{
	EXPECT(num_blocks == 1);
	if (FAIL_NOW())
		return EOVERFLOW;
	g_iblk++;
	inode->i_blocks += BS / 512;
	return 0;
}
errcode_t ext2fs_bmap2(ext2_filsys fs, ext2_ino_t ino, struct ext2_inode *inode, char *block_buf, int bmap_flags,
		       blk64_t block, int *ret_flags, blk64_t *phys_blk)
{
	EXPECT(ino == IN.ino && inode != 0 && bmap_flags == BMAP_SET && block == 0 && *phys_blk == IN.newblk);
	EXPECT(!(inode->i_flags & EXT4_INLINE_DATA_FL));
	if (FAIL_NOW())
		return EXT2_ET_NO_MEMORY;
	g_bmap++;
	return 0;
}
void ext2fs_block_alloc_stats(ext2_filsys fs, blk_t blk, int inuse)
{
	EXPECT(blk == IN.newblk && inuse == +1);
	g_bas++;
}
void ext2fs_initialize_dirent_tail(ext2_filsys fs, struct ext2_dir_entry_tail *t)
{
	EXPECT((char *)t == g_bbuf + BS - 12);
	g_tail++;
	memset(t, 0, sizeof(*t));
	t->det_rec_len = 12;
	t->det_reserved_name_len = EXT2_DIR_NAME_LEN_CSUM;
}
#if !defined(VERIF_UNIT_pop_inline_expand_dir)
errcode_t ext2fs_get_rec_len(ext2_filsys fs, struct ext2_dir_entry *dirent, unsigned int *rec_len) { CHECK(0, "unreachable"); return 0; }
errcode_t ext2fs_set_rec_len(ext2_filsys fs, unsigned int len, struct ext2_dir_entry *dirent) { CHECK(0, "unreachable"); return 0; }
#endif
int ext2fs_process_dir_block(ext2_filsys fs, blk64_t *blocknr, e2_blkcnt_t blockcnt, blk64_t ref_block, int ref_offset, void *priv_data);

#if defined(VERIF_UNIT_pop_inline_expand_dir)
/* the convert_dir hook of hooks-pending/c06b.diff names its loop; this unit unwinds it */
#ifndef VERIF_INV_INLINE_CONVERT_DIR_WALK
#define VERIF_INV_INLINE_CONVERT_DIR_WALK
#endif
#endif

/* the back end of the other inode type must be unreachable: REQUIRES(0) is a checked call-site obligation */
#if defined(VERIF_UNIT_pop_inline_expand_dir)
static errcode_t ext2fs_inline_data_file_expand(ext2_filsys fs, ext2_ino_t ino, struct ext2_inode *inode, char *buf, size_t size)
	REQUIRES(0) ASSIGNS();
#else
static errcode_t ext2fs_inline_data_dir_expand(ext2_filsys fs, ext2_ino_t ino, struct ext2_inode *inode, char *buf, size_t size)
	REQUIRES(0) ASSIGNS();
#endif

#include "lib/ext2fs/inline_data.c"

static struct struct_ext2_filsys FS;
static struct ext2_super_block SB;

static void setup(unsigned int mode)
{
	LOAD_IN();
	memset(&FS, 0, sizeof(FS));
	memset(&SB, 0, sizeof(SB));
	FS.magic = EXT2_ET_MAGIC_EXT2FS_FILSYS;
	FS.super = &SB;
	FS.blocksize = BS;
	SB.s_feature_incompat = (IN.extents ? EXT3_FEATURE_INCOMPAT_EXTENTS : 0) | (IN.filetype ? EXT2_FEATURE_INCOMPAT_FILETYPE : 0) |
				EXT4_FEATURE_INCOMPAT_INLINE_DATA;
	SB.s_feature_ro_compat = IN.csum ? EXT4_FEATURE_RO_COMPAT_METADATA_CSUM : 0;
	SB.s_feature_compat = 0;
	G_INODE = IN.inode;
	G_INODE.i_mode = mode | (IN.inode.i_mode & 07777);
	G_INODE.i_flags = (IN.inode.i_flags | EXT4_INLINE_DATA_FL) & ~EXT4_EXTENTS_FL;	/* the kernel never sets both */
	g_ci = g_reads = g_writes = g_xopen = g_xclose = g_xremoved = g_mem_allocs = g_mem_frees = 0;
	g_fopen = g_fclose = g_fwrites = g_fsetsize = g_xopen2 = g_bad = 0;
	g_w_n = g_blocks_added = 0; g_w_byte = 0; g_w_has_byte = 0; g_ea = 0; g_byte0 = 0;
	g_newblk = g_wdb = g_iblk = g_bmap = g_bas = g_tail = 0;
	g_bbuf = 0;
}

/* ------------------------------------------------------------------ regular file */
static void file_body(void)
{
	ASSUME(IN.ea_size <= EA_MAX);
	ASSUME(IN.isize < (1ULL << 48));
	G_INODE.i_size = (__u32)IN.isize;
	G_INODE.i_size_high = (__u32)(IN.isize >> 32);
	if (IN.k < 60)
		g_byte0 = ((unsigned char *)G_INODE.i_block)[IN.k];
	struct ext2_inode before = G_INODE;
	unsigned long long lim = IN.isize < AREA ? IN.isize : AREA;	/* bytes of the file that live in the inline area */

	errcode_t r = ext2fs_inline_data_expand(&FS, IN.ino);

	CHECK(!g_bad, "every callee is used on this inode / the open handles, in order");
	CHECK(g_xopen == g_xclose, "every xattr handle is closed again");
	CHECK(g_fopen == g_fclose, "the file handle is closed again");
	CHECK(g_mem_allocs == g_mem_frees, "every buffer is freed");
	if (r == 0) {
		CHECK(!(G_INODE.i_flags & EXT4_INLINE_DATA_FL), "success: EXT4_INLINE_DATA_FL is gone");
		CHECK(g_xremoved == 1, "success: the EA system.data was removed");
		CHECK(g_fopen == 1, "success: the data went through the block path");
		if (IN.k < lim) {
			CHECK(g_w_has_byte && g_w_byte == g_byte0, "success: byte k of the file (k < min(i_size, inline area)) is written at offset k");
			REACH("byte compared");
		}
		CHECK(EXT2_I_SIZE(&G_INODE) == IN.isize, "success: i_size is unchanged");
		CHECK(G_INODE.i_blocks == (__u32)(before.i_blocks + g_blocks_added), "success: i_blocks = old + what the block path accounted (low 32 bits)");
		CHECK(G_INODE.i_mode == before.i_mode && G_INODE.i_uid == before.i_uid && G_INODE.i_gid == before.i_gid &&
		      G_INODE.i_links_count == before.i_links_count && G_INODE.i_mtime == before.i_mtime &&
		      G_INODE.i_atime == before.i_atime && G_INODE.i_ctime == before.i_ctime && G_INODE.i_file_acl == before.i_file_acl &&
		      G_INODE.i_generation == before.i_generation, "success: type, permissions, owner, link count, times, ACL block unchanged");
		CHECK((G_INODE.i_flags & ~(EXT4_INLINE_DATA_FL | EXT4_EXTENTS_FL)) == (before.i_flags & ~(EXT4_INLINE_DATA_FL | EXT4_EXTENTS_FL)),
		      "success: the other inode flags are unchanged");
#if defined(VERIF_UNIT_pop_inline_expand_file)
		if (IN.isize > AREA) REACH("i_size beyond the inline area (sparse tail)");
		if (IN.isize < AREA) REACH("i_size inside the inline area");
#endif
		if (IN.isize == AREA && !IN.no_ea && IN.ea_size > 0) REACH("full area with EA");
		if (IN.extents) REACH("extents");
		REACH("expanded");
	} else {
		if (g_fwrites == 0 && g_fsetsize == 0)
			CHECK(EXT2_I_SIZE(&G_INODE) == IN.isize || g_writes >= 2, "failure before the block path ran: i_size as before (or the reset inode was stored)");
		REACH("failed");
	}
	REACH("end");
}

void h_expand_file(void)
{
#if !defined(VERIF_UNIT_pop_inline_expand_dir)
	setup(LINUX_S_IFREG);
	file_body();
#endif
}

void h_expand_file_full(void)
{
#if !defined(VERIF_UNIT_pop_inline_expand_dir)
	setup(LINUX_S_IFREG);
	ASSUME(IN.isize == 60ull + (IN.no_ea ? 0u : IN.ea_size));
	file_body();
#endif
}

/* ------------------------------------------------------------------ directory */
#define DE(p, off) ((struct ext2_dir_entry *)((p) + (off)))
static void check_dir_block(const unsigned char *blk)
{
#if defined(VERIF_UNIT_pop_inline_expand_dir)
	unsigned int area = AREA, end = BS - (IN.csum ? 12u : 0u);
	const struct ext2_dir_entry *d0 = DE(blk, 0), *d1 = DE(blk, 12);
	CHECK(d0->inode == IN.ino && d0->rec_len == 12 && (d0->name_len & 0xff) == 1 && d0->name[0] == '.' &&
	      (d0->name_len >> 8) == (IN.filetype ? EXT2_FT_DIR : 0), "block starts with '.' -> the directory itself");
	CHECK(d1->inode == g_parent && d1->rec_len == 12 && (d1->name_len & 0xff) == 2 && d1->name[0] == '.' && d1->name[1] == '.' &&
	      (d1->name_len >> 8) == (IN.filetype ? EXT2_FT_DIR : 0), "then '..' -> the parent kept in i_block[0]");
	if (g_w_is_entry) {
		/* the entry that started at inline offset W now starts at block offset W + 20, byte for byte */
		const struct ext2_dir_entry *src = DE(IN.area, IN.w), *dst = DE(blk, IN.w + 20);
		unsigned int b = IN.k % 8;
		CHECK(dst->inode == src->inode && dst->name_len == src->name_len, "entry W: inode, name length and file type kept");
		CHECK(8 + b >= src->rec_len || blk[IN.w + 20 + 8 + b] == IN.area[IN.w + 8 + b], "entry W: name bytes kept (every byte of the entry behind its 8-byte header)");
		if (!g_w_is_last)
			CHECK(dst->rec_len == src->rec_len, "entry W (not the last): rec_len kept, so the chain continues at the next entry");
		else {
			CHECK(IN.w + 20 + dst->rec_len == end, "last entry: rec_len extended to the end of the block (before the checksum tail)");
			REACH("last entry");
		}
		REACH("entry compared");
	}
	if (IN.csum) {
		const struct ext2_dir_entry_tail *t = (const struct ext2_dir_entry_tail *)(blk + BS - 12);
		CHECK(g_tail == 1 && t->det_reserved_zero1 == 0 && t->det_rec_len == 12 && t->det_reserved_name_len == EXT2_DIR_NAME_LEN_CSUM,
		      "metadata_csum: the last 12 bytes are an initialised checksum tail");
		REACH("csum tail");
	} else
		CHECK(g_tail == 0, "no checksum tail without metadata_csum");
#endif
}

void h_expand_dir(void)
{
#if defined(VERIF_UNIT_pop_inline_expand_dir)
	setup(LINUX_S_IFDIR);
	ASSUME(IN.ea_size == 8);
	unsigned int area = AREA, off, n;
	/* the inline data: i_block = parent (4 bytes) + 56 bytes of entries, then the EA value */
	memcpy(G_INODE.i_block, IN.area, 60);
	/* well-formed entry chain from byte 4 to the end of the inline data; W = start of one arbitrary entry of the chain */
	g_w_is_entry = 0; g_w_is_last = 0;
	for (off = 4, n = 0; n < 8 && off < area; n++) {
		unsigned int rl = DE(IN.area, off)->rec_len;
		ASSUME(rl >= 8 && (rl & 3) == 0 && rl <= area - off);
		if (off == IN.w) {
			g_w_is_entry = 1;
			g_w_is_last = (off + rl == area);
		}
		off += rl;
	}
	ASSUME(off == area);
	struct ext2_inode before = G_INODE;
	g_parent = *(unsigned int *)IN.area;

	errcode_t r = ext2fs_inline_data_expand(&FS, IN.ino);

	CHECK(!g_bad, "every callee is used on this inode / the new block / the block buffer, in order");
	CHECK(g_xopen == g_xclose, "every xattr handle is closed again");
	CHECK(g_mem_allocs == g_mem_frees, "every buffer is freed");
	if (r == 0) {
		CHECK(g_newblk == 1 && g_wdb == 1 && g_iblk == 1 && g_bmap == 1 && g_bas == 1 && g_xremoved == 1,
		      "success: one block allocated, written (content: see check_dir_block), accounted, mapped at logical block 0, marked in use; EA removed");
		CHECK(!(G_INODE.i_flags & EXT4_INLINE_DATA_FL), "success: EXT4_INLINE_DATA_FL is gone");
		CHECK(((G_INODE.i_flags & EXT4_EXTENTS_FL) != 0) == (IN.extents != 0), "success: EXT4_EXTENTS_FL iff the file system has extents");
		CHECK(G_INODE.i_size == BS, "success: i_size = one block");
		CHECK(G_INODE.i_blocks == (__u32)(before.i_blocks + BS / 512), "success: i_blocks accounts the new block");
		CHECK(G_INODE.i_mode == before.i_mode && G_INODE.i_uid == before.i_uid && G_INODE.i_links_count == before.i_links_count &&
		      G_INODE.i_mtime == before.i_mtime, "success: type, permissions, owner, link count, mtime unchanged");
		REACH("expanded");
	} else
		REACH("failed");
	REACH("end");
#endif
}
