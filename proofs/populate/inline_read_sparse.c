/* VERIF-UNIT
{
 "name": "pop_inline_read_sparse",
 "props": ["C09", "C18"],
 "level": "U",
 "tier": "quick",
 "harness": "h_inline_read_sparse",
 "functions": ["lib/ext2fs/fileio.c:ext2fs_file_read_inline_data"],
 "assumes": ["no contract enforced: harness CHECKs; ext2fs_inline_data_get is the stub over the ghost inline area of fileio/inline_common.h (may fail with an I/O error)",
             "inline inode: 60 <= area size, area size + free xattr space <= blocksize, zero padding between i_size and the end of the area; i_size ARBITRARY below 2^48 - in particular LARGER than the inline area (files made by truncate(2) in the kernel, all-hole source files of mke2fs -O inline_data -d; accepted by e2fsck)",
             "libc memcpy modelled (fileio/inline_common.h): bounds asserted at each call, faithful copy at the ghost byte, every other byte of the destination object unconstrained; libc memset is CBMC's model",
             "blocksize 1024 (file->buf = 3072 bytes); caller's buffer object capped at 4096 bytes",
             "FAILS on the pinned tree: 'read returns exactly min(wanted, size - pos) bytes' - FINDING findings/C09_pop_inline_read_sparse_tail (the read stops at the end of the inline area); green with its proposed-fix.patch"],
 "native": false,
 "backend": "cadical"
}
*/
/* VERIF-UNIT
{
 "name": "pop_inline_read_within",
 "props": ["C09", "C18"],
 "level": "U",
 "tier": "quick",
 "harness": "h_inline_read_within",
 "functions": ["lib/ext2fs/fileio.c:ext2fs_file_read_inline_data"],
 "assumes": ["as pop_inline_read_sparse, restricted to the inputs on which the pinned tree is right: the read starts inside the inline area and does not reach beyond it (pos + wanted <= area size) or the file ends inside the area (i_size <= area size)"],
 "native": false,
 "backend": "cadical"
}
*/
/*
 * C09 "reading a file returns exactly the bytes most recently written at each offset below its size, zeros for holes
 * ... and exactly size bytes in total" for an inline-data file whose i_size may exceed its inline area (60 bytes of
 * i_block + EA system.data): bytes of [area size, i_size) are a hole.
 */
#include "../fileio/inline_common.h"
#include "lib/ext2fs/fileio.c"

#define WF_SPARSE(file) (g_cap >= EXT4_MIN_INLINE_DATA_SIZE && g_cap + g_free <= CAP_MAX && ISIZE(file) < (1ULL << 48) && \
	(!(verif_k >= ISIZE(file) && verif_k < g_cap) || g_byte == 0))

static struct struct_ext2_filsys FS;
static struct ext2_super_block SB;
static struct ext2_file FILE_;
static unsigned char *UB;
static unsigned int OUT;

static void body(int within)
{
	LOAD_IN();
	memset(&FS, 0, sizeof(FS));
	memset(&SB, 0, sizeof(SB));
	memset(&FILE_, 0, sizeof(FILE_));
	FS.magic = EXT2_ET_MAGIC_EXT2FS_FILSYS;
	FS.super = &SB;
	FS.blocksize = BLOCKSIZE;
	FILE_.magic = EXT2_ET_MAGIC_EXT2_FILE;
	FILE_.fs = &FS;
	FILE_.ino = 12;
	FILE_.flags = 0;
	FILE_.buf = malloc(FILEBUF_SZ);
	ASSUME(FILE_.buf != 0);
	FILE_.pos = IN.pos;
	FILE_.inode.i_flags = EXT4_INLINE_DATA_FL;
	FILE_.inode.i_mode = LINUX_S_IFREG | 0644;
	FILE_.inode.i_size = (__u32)IN.isize;
	FILE_.inode.i_size_high = (__u32)(IN.isize >> 32);
	g_cap = IN.cap; g_free = IN.free; g_byte = IN.byte; verif_k = IN.k;
	ASSUME(WF_SPARSE(&FILE_));
	ASSUME(IN.nbytes <= NB_MAX);
	ASSUME(IN.pos < (1ULL << 48));
	if (within)
		ASSUME(IN.isize <= IN.cap || IN.pos + IN.nbytes <= IN.cap);
	UB = malloc(IN.nbytes);
	ASSUME(UB != 0);
	g_choice = 0; g_expanded = 0; g_set_calls = 0; g_setsize_calls = 0;
	g_pos0 = IN.pos; g_isize0 = IN.isize; g_cap0 = g_cap; g_byte0 = g_byte;
	verif_mc_k = IN.k - IN.pos; verif_keep = (unsigned char *)FILE_.buf + (IN.k < FILEBUF_SZ ? IN.k : 0);

	unsigned long long exp = IN.pos < IN.isize ? UMIN((unsigned long long)IN.nbytes, IN.isize - IN.pos) : 0;
	errcode_t r = ext2fs_file_read_inline_data(&FILE_, UB, IN.nbytes, IN.null_out ? 0 : &OUT);
	if (r == 0) {
		CHECK(IN.null_out || OUT == exp, "read returns exactly min(wanted, size - pos) bytes");
		CHECK(FILE_.pos == IN.pos + exp, "read advances pos by the bytes returned");
		if (verif_k >= IN.pos && verif_k < IN.isize && verif_k - IN.pos < IN.nbytes) {
			if (verif_k < g_cap0) {
				CHECK(UB[verif_k - IN.pos] == g_byte0, "bytes inside the inline area are the stored bytes");
				REACH("stored byte compared");
			} else {
				CHECK(UB[verif_k - IN.pos] == 0, "bytes between the end of the inline area and i_size read as zeros (hole)");
#if defined(VERIF_UNIT_pop_inline_read_sparse)
				REACH("hole byte compared");
#endif
			}
		}
		REACH("read ok");
	} else {
		CHECK(FILE_.pos == IN.pos, "failed read leaves pos");
		REACH("read failed");
	}
	CHECK(g_byte == g_byte0 && g_cap == g_cap0 && ISIZE(&FILE_) == IN.isize, "read changes nothing");
	REACH("end");
}

void h_inline_read_sparse(void) { body(0); }
void h_inline_read_within(void) { body(1); }
