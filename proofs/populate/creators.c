/* VERIF-UNIT
{
 "name": "pop_do_mkdir_internal",
 "props": ["C18"],
 "level": "P",
 "tier": "quick",
 "harness": "h_do_mkdir",
 "includes": ["misc"],
 "unwind": 10,
 "unwind_reason": "do_mkdir_internal is loop-free; strrchr (CBMC's libc model) and the harness's own scan run over the 8-byte path buffer (at most 8 iterations), unwinding assertions on",
 "functions": ["misc/create_inode.c:do_mkdir_internal"],
 "assumes": ["no contract enforced: harness CHECKs + ghost monitor in the stubs",
             "the path is an arbitrary C string in an 8-byte buffer (0..7 characters, any number of '/'): B(8) for the path length only",
             "ext2fs_namei is a stub that behaves as namei.c on the two degenerate paths (\"\" -> cwd, \"/\" -> root) and answers a harness-chosen inode or error otherwise; ext2fs_mkdir / ext2fs_expand_dir are recording stubs with harness-chosen results",
             "FAILS on the pinned tree: 'created in the directory the text before the last '/' resolves to (root for /leaf)', 'the name is not empty' - FINDING findings/C18_pop_debugfs_path (b), (d); green with its proposed-fix.patch"],
 "native": false
}
*/
/* VERIF-UNIT
{
 "name": "pop_do_mkdir_internal_rel",
 "props": ["C18"],
 "level": "P",
 "tier": "quick",
 "harness": "h_do_mkdir_rel",
 "includes": ["misc"],
 "unwind": 10,
 "unwind_reason": "as pop_do_mkdir_internal",
 "functions": ["misc/create_inode.c:do_mkdir_internal"],
 "assumes": ["as pop_do_mkdir_internal, restricted to the inputs on which the pinned tree is right: the text behind the last '/' is not empty and the last '/' is not the first character (what __populate_fs passes: plain names)"],
 "native": false
}
*/
/* VERIF-UNIT
{
 "name": "pop_do_symlink_internal_abs",
 "props": ["C18"],
 "level": "P",
 "tier": "quick",
 "harness": "h_do_symlink_abs",
 "includes": ["misc"],
 "unwind": 10,
 "unwind_reason": "as pop_do_mkdir_internal",
 "functions": ["misc/create_inode.c:do_symlink_internal"],
 "assumes": ["as pop_do_mkdir_internal with ext2fs_symlink in the place of ext2fs_mkdir (the relative / plain-name cases are unit tools/do_symlink_internal, whose ext2fs_namei stub does not model the empty path)",
             "FAILS on the pinned tree (FINDING findings/C18_pop_debugfs_path (b), (d)); green with its proposed-fix.patch"],
 "native": false
}
*/
/* VERIF-UNIT
{
 "name": "pop_do_write_internal",
 "props": ["C18"],
 "level": "P",
 "tier": "quick",
 "harness": "h_do_write",
 "includes": ["misc"],
 "replace": ["copy_file"],
 "unwind": 10,
 "unwind_reason": "do_write_internal is loop-free (copy_file replaced by its contract); strrchr and the harness's scan run over the 8-byte path buffer, unwinding assertions on",
 "functions": ["misc/create_inode.c:do_write_internal"],
 "assumes": ["no contract enforced: harness CHECKs + ghost monitor in the stubs; copy_file is replaced by a counting contract whose PRECONDITION pins its arguments (this fs, the descriptor opened, the stat buffer, the inode just created) - what it stores: units pop_copy_file, tools/try_lseek_copy, tools/copy_file_chunk",
             "the destination is a non-empty plain name or dir/leaf with a non-empty leaf whose last '/' is not the first character (what __populate_fs passes; the other forms are finding C18_pop_debugfs_path, unit pop_do_mkdir_internal); 8-byte buffer: B(8) for the path length only",
             "ext2fs_open_file, fstat, close, ext2fs_namei, ext2fs_new_inode, ext2fs_link, ext2fs_expand_dir, ext2fs_test_inode_bitmap2, ext2fs_inode_alloc_stats2, ext2fs_extent_open2, ext2fs_write_new_inode, ext2fs_inline_data_init, time are stubs with harness-chosen results; ext2fs_inode_size_set is the real one (lib/ext2fs/blknum.c); fstat delivers an arbitrary mode and a size 0..2^62",
             "feature flags inline_data / extents / large_file arbitrary"],
 "sources": ["lib/ext2fs/blknum.c"],
 "native": false
}
*/
/* VERIF-UNIT
{
 "name": "pop_do_mknod_internal",
 "props": ["C18"],
 "level": "U",
 "tier": "quick",
 "harness": "h_do_mknod_internal",
 "includes": ["misc"],
 "unwind": 6,
 "unwind_reason": "do_mknod_internal is loop-free; the bound serves the DFCC library loops (unwinding assertions on)",
 "functions": ["misc/create_inode.c:do_mknod_internal"],
 "assumes": ["no contract enforced: harness CHECKs + ghost monitor in the stubs (ext2fs_new_inode, ext2fs_link, ext2fs_expand_dir, ext2fs_test_inode_bitmap2, ext2fs_inode_alloc_stats2, ext2fs_write_new_inode, time)",
             "st_mode arbitrary; st_rdev is what stat(2) delivers on Linux for a device (major < 4096, minor < 2^20): the kernel's new_encode_dev(major, minor) (include/linux/kdev_t.h), and 0 for fifos and sockets",
             "glibc's major()/minor() (extern inline in sys/sysmacros.h) are given their glibc bodies in the unit"],
 "native": false
}
*/
/*
 * C18: the single-object creators of misc/create_inode.c used by mke2fs -d (__populate_fs) and debugfs.
 *
 * Paths (POSIX pathname resolution): "a/b/leaf" -> parent = what "a/b" resolves to, name "leaf"; "/leaf" -> parent =
 * ROOT; "leaf" -> parent = cwd; the name is never empty and never contains '/'.
 *
 * do_write_internal(fs, cwd, src, dest, root): an existing destination is refused (EXT2_ET_FILE_EXISTS) and nothing is
 *   created; otherwise a new inode is allocated near the parent, linked as (parent, leaf, EXT2_FT_REG_FILE) - a full
 *   directory is expanded once and the link retried once -, accounted (+1, not a directory) and written as a regular
 *   file with the permission bits of the source, link count 1, i_size = st_size, EXT4_INLINE_DATA_FL iff the file
 *   system has inline_data (then the EA is initialised), else a fresh extent header iff extents; then the data is
 *   copied (copy_file) into that inode; the source descriptor is closed exactly once on every path.
 *
 * do_mknod_internal(fs, cwd, name, st_mode, st_rdev): S_IFCHR/BLK/FIFO/SOCK -> inode mode type + directory entry type
 *   (ext4 "Directory Entries" table: CHRDEV 3, BLKDEV 4, FIFO 5, SOCK 6), anything else EXT2_ET_INVALID_ARGUMENT
 *   with nothing created.  Device number (kernel fs/ext4/inode.c ext4_do_update_inode / __ext4_iget,
 *   include/linux/kdev_t.h):
 *       old_valid_dev(dev)  = MAJOR(dev) < 256 && MINOR(dev) < 256
 *       old_encode_dev(dev) = (MAJOR(dev) << 8) | MINOR(dev)
 *       new_encode_dev(dev) = (minor & 0xff) | (major << 8) | ((minor & ~0xff) << 12)
 *       i_block[0] = old_valid_dev ? old_encode_dev : 0;   i_block[1] = old_valid_dev ? 0 : new_encode_dev
 *   fifos and sockets: i_block all zero.  Link count 1, mode = type only (permissions follow in set_inode_extra).
 */
#include "verif.h"

unsigned long long verif_k;
int verif_old_bit;
unsigned long long verif_g0, verif_g1, verif_g2, verif_g3, verif_g4, verif_g5, verif_g6, verif_g7;
const unsigned char *verif_p0, *verif_p1, *verif_p2, *verif_p3;

#define _LARGEFILE64_SOURCE 1
#define _GNU_SOURCE 1
#include "config.h"
#include <sys/stat.h>
#include <sys/types.h>
#include <sys/sysmacros.h>
#include <string.h>
#include <errno.h>
#include <time.h>
#include <unistd.h>
#include <ext2fs/ext2fs.h>
#include "create_inode.h"

struct in_s {
	char path[8];
	unsigned int cwd, root, found, newino;
	long r_namei, r_create[2], r_expand;
	/* do_write_internal */
	int fd, r_fstat, err, bit_set;
	unsigned int st_mode;
	long long st_size;
	long r_exists, r_newinode, r_link[2], r_xopen2, r_wni, r_inl_init, r_copy;
	unsigned char f_inline, f_extents, f_large;
	long long now, hosttime;
	/* do_mknod_internal */
	unsigned int maj, min, k;
};
struct in_s IN;
#include "verif_in.h"

#define EXPECT(c) do { if (!(c)) g_bad = 1; } while (0)
static unsigned int g_bad, g_namei, g_creates, g_expands;
static char *g_path;
static unsigned int g_cr_parent[2];
static const char *g_cr_name[2];
static char g_target_obj[4];
static int g_which;		/* 0 mkdir, 1 symlink */
/* write / mknod */
static unsigned int g_opens, g_closes, g_fstats, g_newinodes, g_links, g_stats, g_wni, g_inl_init, g_copies, g_xopen2;
static unsigned int g_ln_parent[2], g_ln_ino[2], g_ni_dir;
static int g_ln_type[2];
static const char *g_ln_name[2];
static struct ext2_inode G_NEW;
static const char g_srcname[] = "src";
static struct stat *g_statp;
static int g_has_dir;
static unsigned int g_exist_dir, g_dynrev;

/* glibc's device-number decoding (bits/sysmacros.h; extern inline there, no body for the verifier) */
unsigned int gnu_dev_major(dev_t dev) { return ((dev >> 8) & 0xfffu) | ((unsigned int)(dev >> 32) & ~0xfffu); }
unsigned int gnu_dev_minor(dev_t dev) { return (dev & 0xffu) | ((unsigned int)(dev >> 12) & ~0xffu); }

void com_err(const char *whoami, long code, const char *fmt, ...) { }
char *gettext(const char *msgid) { return (char *)msgid; }

/* namei.c on the degenerate paths, arbitrary otherwise */
errcode_t ext2fs_namei(ext2_filsys fs, ext2_ino_t r, ext2_ino_t c, const char *name, ext2_ino_t *inode)
{
	unsigned int n = g_namei++;
	EXPECT(r == IN.root && name != 0);
#if defined(VERIF_UNIT_pop_do_write_internal)
	if (n == 1 || !g_has_dir) {
		/* existence test of the leaf in the parent */
		g_exist_dir = c;
		g_cr_name[0] = name;
		if (IN.r_exists)
			return IN.r_exists;
		*inode = 77;
		return 0;
	}
#endif
	EXPECT(c == IN.cwd);
	if (name[0] == 0) {
		*inode = c;
		return 0;
	}
	if (name[0] == '/' && name[1] == 0) {
		*inode = r;
		return 0;
	}
	EXPECT(name == g_path);
	if (IN.r_namei)
		return IN.r_namei;
	*inode = IN.found;
	return 0;
}
errcode_t ext2fs_mkdir(ext2_filsys fs, ext2_ino_t parent, ext2_ino_t inum, const char *name)
{
	EXPECT(g_which == 0 && g_creates < 2 && inum == 0);
	g_cr_parent[g_creates & 1] = parent;
	g_cr_name[g_creates & 1] = name;
	return IN.r_create[g_creates++ & 1];
}
errcode_t ext2fs_symlink(ext2_filsys fs, ext2_ino_t parent, ext2_ino_t ino, const char *name, const char *target)
{
	EXPECT(g_which == 1 && g_creates < 2 && ino == 0 && target == g_target_obj);
	g_cr_parent[g_creates & 1] = parent;
	g_cr_name[g_creates & 1] = name;
	return IN.r_create[g_creates++ & 1];
}
errcode_t ext2fs_expand_dir(ext2_filsys fs, ext2_ino_t dir)
{
	g_expands++;
	g_ni_dir = dir;
	return IN.r_expand;
}

/* ---- do_write_internal / do_mknod_internal environment ---- */
int ext2fs_open_file(const char *pathname, int flags, mode_t mode)
{
	g_opens++;
	EXPECT(pathname == g_srcname);
	if (IN.fd < 0) {
		errno = IN.err;
		return -1;
	}
	return IN.fd;
}
int fstat(int fd, struct stat *buf)
{
	g_fstats++;
	EXPECT(fd == IN.fd);
	if (IN.r_fstat) {
		errno = IN.err;
		return -1;
	}
	memset(buf, 0, sizeof(*buf));
	buf->st_mode = IN.st_mode;
	buf->st_size = IN.st_size;
	g_statp = buf;
	return 0;
}
int close(int fd)
{
	g_closes++;
	EXPECT(fd == IN.fd);
	return 0;
}
errcode_t ext2fs_new_inode(ext2_filsys fs, ext2_ino_t dir, int mode, ext2fs_inode_bitmap map, ext2_ino_t *ret)
{
	g_newinodes++;
	g_ni_dir = dir;
	if (IN.r_newinode)
		return IN.r_newinode;
	*ret = IN.newino;
	return 0;
}
errcode_t ext2fs_link(ext2_filsys fs, ext2_ino_t dir, const char *name, ext2_ino_t ino, int flags)
{
	EXPECT(g_links < 2 && g_newinodes == 1);
	g_ln_parent[g_links & 1] = dir; g_ln_name[g_links & 1] = name; g_ln_ino[g_links & 1] = ino; g_ln_type[g_links & 1] = flags;
	return IN.r_link[g_links++ & 1];
}
int ext2fs_test_inode_bitmap2(ext2fs_inode_bitmap bitmap, ext2_ino_t inode) { return IN.bit_set; }
void ext2fs_inode_alloc_stats2(ext2_filsys fs, ext2_ino_t ino, int inuse, int isdir)
{
	g_stats++;
	EXPECT(ino == IN.newino && inuse == +1 && isdir == 0);
}
#define EXT_MARK 0xF30Au
errcode_t ext2fs_extent_open2(ext2_filsys fs, ext2_ino_t ino, struct ext2_inode *inode, ext2_extent_handle_t *handle)
{
	g_xopen2++;
	EXPECT(ino == IN.newino && inode != 0 && !(inode->i_flags & EXT4_EXTENTS_FL) && inode->i_block[IN.k % EXT2_N_BLOCKS] == 0);
	if (IN.r_xopen2)
		return IN.r_xopen2;
	inode->i_block[0] = EXT_MARK;		/* extent.c: an all-zero i_block gets a fresh header */
	inode->i_flags |= EXT4_EXTENTS_FL;
	*handle = 0;
	return 0;
}
void ext2fs_extent_free(ext2_extent_handle_t handle) { }
errcode_t ext2fs_write_new_inode(ext2_filsys fs, ext2_ino_t ino, struct ext2_inode *inode)
{
	g_wni++;
	EXPECT(ino == IN.newino && g_stats == 1);
	G_NEW = *inode;
	return IN.r_wni;
}
errcode_t ext2fs_inline_data_init(ext2_filsys fs, ext2_ino_t ino)
{
	g_inl_init++;
	EXPECT(ino == IN.newino && g_wni == 1);
	return IN.r_inl_init;
}
time_t time(time_t *t) { return (time_t)IN.hosttime; }
void ext2fs_update_dynamic_rev(ext2_filsys fs) { g_dynrev++; }

static struct struct_ext2_filsys FS;
static struct ext2_super_block SB;

#include "misc/create_inode.c"

static errcode_t copy_file(ext2_filsys fs, int fd, struct stat *statbuf, ext2_ino_t ino)
	REQUIRES(fs == &FS && fd == IN.fd && statbuf == g_statp && ino == IN.newino)
	REQUIRES(g_wni == 1 && g_copies == 0 && g_closes == 0)
	ASSIGNS(g_copies)
	ENSURES(g_copies == 1 && RET == IN.r_copy);

/* independent reading of a path: index of the last '/', -1 if none */
static int last_slash(const char *p)
{
	int i, s = -1;
	for (i = 0; i < 8 && p[i]; i++)
		if (p[i] == '/')
			s = i;
	return s;
}
static int has_slash(const char *p)
{
	int i;
	for (i = 0; i < 8 && p[i]; i++)
		if (p[i] == '/')
			return 1;
	return 0;
}

static void setup(void)
{
	LOAD_IN();
	memset(&FS, 0, sizeof(FS));
	memset(&SB, 0, sizeof(SB));
	FS.super = &SB;
	FS.magic = EXT2_ET_MAGIC_EXT2FS_FILSYS;
	FS.blocksize = 1024;
	FS.now = (time_t)IN.now;
	SB.s_feature_incompat = (IN.f_inline ? EXT4_FEATURE_INCOMPAT_INLINE_DATA : 0) | (IN.f_extents ? EXT3_FEATURE_INCOMPAT_EXTENTS : 0);
	SB.s_feature_ro_compat = IN.f_large ? EXT2_FEATURE_RO_COMPAT_LARGE_FILE : 0;
	SB.s_feature_compat = 0;
	SB.s_rev_level = EXT2_DYNAMIC_REV;
	g_bad = g_namei = g_creates = g_expands = 0;
	g_opens = g_closes = g_fstats = g_newinodes = g_links = g_stats = g_wni = g_inl_init = g_copies = g_xopen2 = 0;
	g_cr_name[0] = g_cr_name[1] = 0; g_ln_name[0] = g_ln_name[1] = 0;
	g_statp = 0;
	memset(&G_NEW, 0, sizeof(G_NEW));
	g_path = malloc(8);
	ASSUME(g_path != 0);
	memcpy(g_path, IN.path, 8);
	g_path[7] = 0;
	ASSUME(IN.r_namei >= 0 && IN.r_create[0] >= 0 && IN.r_create[1] >= 0);
	ASSUME(IN.found != 0 && IN.cwd != 0 && IN.root != 0 && IN.newino != 0);
}
#define EXP_PARENT(slash) ((slash) < 0 ? IN.cwd : ((slash) == 0 || ((slash) == 1 && g_path[0] == '/')) ? IN.root : IN.found)

/* mkdir / symlink: the shared shape */
static void create_body(int which, int rel)
{
	setup();
	g_which = which;
	int slash = last_slash(g_path);
	if (rel)
		ASSUME(slash != 0 && g_path[slash + 1] != 0);
	char first = g_path[0];
	(void)first;

	errcode_t r = which == 0 ? do_mkdir_internal(&FS, IN.cwd, g_path, IN.root)
				 : do_symlink_internal(&FS, IN.cwd, g_path, g_target_obj, IN.root);

	CHECK(!g_bad, "lookups relative to the caller's root and cwd; a new inode is asked for; the target is passed on untouched");
	if (slash >= 0) {
		CHECK(g_namei <= 1, "at most one lookup: the directory part");
		if (g_namei == 1 && IN.r_namei && slash > 0 && !(slash == 1 && g_path[0] == '/')) {
			CHECK(r == IN.r_namei && g_creates == 0, "lookup failure: passed on, nothing created");
			REACH("lookup failed");
		}
	} else
		CHECK(g_namei == 0, "no directory part: no lookup");
	if (g_creates) {
		CHECK(g_cr_name[0] == g_path + (slash + 1) && !has_slash(g_cr_name[0]), "the name is the text behind the last '/'");
		CHECK(g_cr_name[0][0] != 0, "the name is not empty");
		CHECK(g_cr_parent[0] == EXP_PARENT(slash), "created in the directory the text before the last '/' resolves to (root for /leaf, cwd without '/')");
		if (g_creates == 2) {
			CHECK(IN.r_create[0] == EXT2_ET_DIR_NO_SPACE && g_expands == 1 && IN.r_expand == 0 && g_ni_dir == g_cr_parent[0], "retry only after the full parent was expanded");
			CHECK(g_cr_parent[1] == g_cr_parent[0] && g_cr_name[1] == g_cr_name[0] && r == IN.r_create[1], "the retry repeats the same call; its result is the result");
			REACH("retried");
		} else if (IN.r_create[0] == EXT2_ET_DIR_NO_SPACE)
			CHECK(g_expands == 1 && IN.r_expand != 0 && r == IN.r_expand, "expansion failure is passed on");
		else
			CHECK(r == IN.r_create[0] && g_expands == 0, "the creator's result is passed on");
#if defined(VERIF_UNIT_pop_do_mkdir_internal) || defined(VERIF_UNIT_pop_do_symlink_internal_abs)
		if (slash == 0) REACH("/leaf");
#endif
		if (slash > 1) REACH("dir/leaf");
		if (slash < 0) REACH("leaf");
	} else
		CHECK(r != 0, "success only if something was created");
	REACH("end");
}
void h_do_mkdir(void) { create_body(0, 0); }
void h_do_mkdir_rel(void) { create_body(0, 1); }
void h_do_symlink_abs(void) { create_body(1, 0); }

/* ------------------------------------------------------------------ do_write_internal */
void h_do_write(void)
{
#if defined(VERIF_UNIT_pop_do_write_internal)
	setup();
	int slash = last_slash(g_path);
	g_has_dir = slash >= 0;
	g_exist_dir = 0;
	ASSUME(slash != 0 && g_path[slash + 1] != 0);
	ASSUME(IN.err > 0 && IN.st_size >= 0 && IN.st_size <= (1LL << 62));
	ASSUME(IN.r_exists >= 0 && IN.r_newinode >= 0 && IN.r_link[0] >= 0 && IN.r_link[1] >= 0 && IN.r_xopen2 >= 0 && IN.r_wni >= 0 &&
	       IN.r_inl_init >= 0 && IN.r_copy >= 0 && IN.r_expand >= 0);
	ASSUME(IN.fd == -1 || IN.fd >= 0);

	errcode_t r = do_write_internal(&FS, IN.cwd, g_srcname, g_path, IN.root);

	CHECK(!g_bad, "every callee is used on this source / descriptor / new inode, in order");
	CHECK(g_opens == 1 && g_closes == (IN.fd >= 0 ? 1u : 0u), "the source is opened once and closed exactly once on every path");
	if (IN.fd < 0) {
		CHECK(r == IN.err && g_newinodes == 0, "open failure: errno passed on, nothing created");
		REACH("open failed");
		return;
	}
	if (IN.r_fstat) {
		CHECK(r == IN.err && g_newinodes == 0, "fstat failure: errno passed on, nothing created");
		return;
	}
	unsigned int parent = EXP_PARENT(slash);
	if (slash >= 0 && IN.r_namei && !(slash == 1 && g_path[0] == '/')) {
		CHECK(r == IN.r_namei && g_newinodes == 0, "parent lookup failure: passed on, nothing created");
		return;
	}
	CHECK(g_namei == (slash >= 0 ? 2u : 1u) && g_cr_name[0] == g_path + (slash + 1) && g_exist_dir == parent, "the leaf is looked up in the parent");
	if (IN.r_exists == 0) {
		CHECK(r == EXT2_ET_FILE_EXISTS && g_newinodes == 0 && g_links == 0, "an existing destination is refused, nothing is created");
		REACH("exists");
		return;
	}
	CHECK(g_newinodes == 1, "a new inode is allocated");
	if (r == 0) {
		unsigned int last = g_links - 1;
		CHECK(g_links >= 1 && g_links <= 2 && IN.r_link[last & 1] == 0, "success: the last ext2fs_link succeeded");
		CHECK(g_ln_parent[0] == parent && g_ln_ino[0] == IN.newino && g_ln_type[0] == EXT2_FT_REG_FILE &&
		      g_ln_name[0] == g_path + (slash + 1) && !has_slash(g_ln_name[0]) && g_ln_name[0][0] != 0,
		      "linked as (parent, text behind the last '/', new inode, regular file)");
		CHECK(g_links == 1 || (IN.r_link[0] == EXT2_ET_DIR_NO_SPACE && g_expands == 1 && IN.r_expand == 0 &&
				       g_ln_parent[1] == parent && g_ln_ino[1] == IN.newino && g_ln_name[1] == g_ln_name[0] && g_ln_type[1] == EXT2_FT_REG_FILE),
		      "a second attempt only after the full parent was expanded, with the same arguments");
		CHECK(g_stats == 1 && g_wni == 1, "success: the inode is accounted once (+1, not a directory) and written once");
		CHECK(G_NEW.i_mode == (LINUX_S_IFREG | (IN.st_mode & 07777)), "stored mode: regular file + the source's permission bits (incl. setuid/setgid/sticky)");
		CHECK(G_NEW.i_links_count == 1, "stored link count 1");
		CHECK(EXT2_I_SIZE(&G_NEW) == (unsigned long long)IN.st_size, "stored i_size = st_size");
		CHECK(((G_NEW.i_flags & EXT4_INLINE_DATA_FL) != 0) == (IN.f_inline != 0), "EXT4_INLINE_DATA_FL iff the file system has inline_data");
		CHECK(g_inl_init == (IN.f_inline ? 1u : 0u), "the inline EA is initialised iff the inode is inline");
		if (!IN.f_inline && IN.f_extents)
			CHECK((G_NEW.i_flags & EXT4_EXTENTS_FL) && G_NEW.i_block[0] == EXT_MARK && g_xopen2 == 1, "extents (not inline): fresh extent header");
		else
			CHECK(!(G_NEW.i_flags & EXT4_EXTENTS_FL) && G_NEW.i_block[IN.k % EXT2_N_BLOCKS] == 0 && g_xopen2 == 0, "otherwise: all-zero i_block, no EXT4_EXTENTS_FL");
		CHECK(g_copies == 1 && IN.r_copy == 0, "success: the data was copied into the new inode (once), successfully");
		if (IN.st_size > 0xffffffffLL) REACH("file above 4 GiB");
		if (g_links == 2) REACH("expanded");
		REACH("written");
	} else {
		CHECK(g_copies == 0 || IN.r_copy != 0, "failure is never reported after a complete success");
		REACH("failed");
	}
	REACH("end");
#endif
}

/* ------------------------------------------------------------------ do_mknod_internal */
/* include/linux/kdev_t.h */
static unsigned int k_new_encode_dev(unsigned int major, unsigned int minor) { return (minor & 0xff) | (major << 8) | ((minor & ~0xffu) << 12); }
static unsigned int k_old_encode_dev(unsigned int major, unsigned int minor) { return (major << 8) | minor; }
static int k_old_valid_dev(unsigned int major, unsigned int minor) { return major < 256 && minor < 256; }

void h_do_mknod_internal(void)
{
#if defined(VERIF_UNIT_pop_do_mknod_internal)
	setup();
	static const char name[] = "nm";
	ASSUME(IN.maj < 4096 && IN.min < (1u << 20));
	unsigned int fmt = IN.st_mode & S_IFMT;
	int isdev = fmt == S_IFCHR || fmt == S_IFBLK;
	/* what stat(2) delivers */
	unsigned int st_rdev = isdev ? k_new_encode_dev(IN.maj, IN.min) : 0;
	ASSUME(IN.r_newinode >= 0 && IN.r_link[0] >= 0 && IN.r_link[1] >= 0 && IN.r_wni >= 0 && IN.r_expand >= 0);

	errcode_t r = do_mknod_internal(&FS, IN.cwd, name, IN.st_mode, st_rdev);

	CHECK(!g_bad, "every callee is used on the new inode, in order");
	int known = fmt == S_IFCHR || fmt == S_IFBLK || fmt == S_IFIFO || fmt == S_IFSOCK;
	if (!known) {
		CHECK(r == EXT2_ET_INVALID_ARGUMENT && g_newinodes == 0 && g_links == 0, "other types: EXT2_ET_INVALID_ARGUMENT, nothing created");
		REACH("refused");
		return;
	}
	if (r == 0) {
		unsigned int last = g_links - 1;
		int ft = fmt == S_IFCHR ? 3 : fmt == S_IFBLK ? 4 : fmt == S_IFIFO ? 5 : 6;
		unsigned int lmode = fmt == S_IFCHR ? 0020000 : fmt == S_IFBLK ? 0060000 : fmt == S_IFIFO ? 0010000 : 0140000;
		CHECK(g_newinodes == 1 && g_ni_dir == IN.cwd || g_expands, "a new inode is allocated near the directory");
		CHECK(g_links >= 1 && g_links <= 2 && IN.r_link[last & 1] == 0, "success: the last ext2fs_link succeeded");
		CHECK(g_ln_parent[0] == IN.cwd && g_ln_name[0] == name && g_ln_ino[0] == IN.newino && g_ln_type[0] == ft,
		      "linked as (directory, name, new inode, entry type of the file type: CHRDEV 3 / BLKDEV 4 / FIFO 5 / SOCK 6)");
		CHECK(g_links == 1 || (IN.r_link[0] == EXT2_ET_DIR_NO_SPACE && g_expands == 1 && IN.r_expand == 0 &&
				       g_ln_parent[1] == IN.cwd && g_ln_name[1] == name && g_ln_ino[1] == IN.newino && g_ln_type[1] == ft),
		      "a second attempt only after the full directory was expanded, with the same arguments");
		CHECK(g_stats == 1 && g_wni == 1 && IN.r_wni == 0, "accounted once (+1, not a directory), written once");
		CHECK(G_NEW.i_mode == lmode, "stored mode: the Linux type code, no permission bits yet");
		CHECK(G_NEW.i_links_count == 1 && G_NEW.i_size == 0 && G_NEW.i_blocks == 0 && G_NEW.i_flags == 0, "link count 1, empty, no flags");
		if (isdev) {
			if (k_old_valid_dev(IN.maj, IN.min)) {
				CHECK(G_NEW.i_block[0] == k_old_encode_dev(IN.maj, IN.min) && G_NEW.i_block[1] == 0, "small device numbers: old encoding in i_block[0], i_block[1] = 0");
				REACH("old encoding");
			} else {
				CHECK(G_NEW.i_block[0] == 0 && G_NEW.i_block[1] == k_new_encode_dev(IN.maj, IN.min), "otherwise: i_block[0] = 0, new encoding in i_block[1]");
				REACH("new encoding");
			}
			CHECK(IN.k % EXT2_N_BLOCKS < 2 || G_NEW.i_block[IN.k % EXT2_N_BLOCKS] == 0, "the rest of i_block is zero");
		} else {
			CHECK(G_NEW.i_block[IN.k % EXT2_N_BLOCKS] == 0, "fifo / socket: i_block all zero");
			REACH("fifo or socket");
		}
		REACH("created");
	} else {
		CHECK(IN.r_newinode || IN.r_link[0] || IN.r_wni, "failure only if a callee failed");
		if (IN.r_newinode) CHECK(r == IN.r_newinode && g_links == 0, "allocation failure: passed on, nothing linked");
		REACH("failed");
	}
	REACH("end");
#endif
}
