/* VERIF-UNIT
{
 "name": "pop_file_write_after_expand",
 "props": ["C09", "C18"],
 "level": "U",
 "tier": "quick",
 "harness": "h_write_after_expand",
 "replace": ["ext2fs_file_write_inline_data", "sync_buffer_position", "load_buffer", "ext2fs_file_set_size2"],
 "loop_contracts": true,
 "unwind": 6,
 "unwindset": {"__CPROVER_contracts_write_set_check_assigns_clause_inclusion.0": 30},
 "unwind_reason": "the block loop of ext2fs_file_write is closed by the in-place loop contract VERIF_INV_FILE_WRITE (named anchor, already in the tree); the bound serves the DFCC library loops (unwinding assertions on)",
 "functions": ["lib/ext2fs/fileio.c:ext2fs_file_write"],
 "assumes": ["no contract enforced on ext2fs_file_write: harness CHECKs + ghost monitor; the block loop carries the loop contract of this unit (count bytes taken from buf + count so far, position advanced by count)",
             "the file has EXT4_INLINE_DATA_FL on entry; ext2fs_file_write_inline_data is REPLACED by the contract proved in fileio/inline_write (+ pop_inline_expand_file for what the expansion does): result arbitrary; EXT2_ET_INLINE_DATA_NO_SPACE means the inode was converted and re-read (no inline flag any more), nothing was written, the position is unchanged; sync_buffer_position / load_buffer / ext2fs_file_set_size2 replaced by the parts of their contracts used here (units fileio/buffer_sync, buffer_load, file_set_size2); ext2fs_bmap2 a stub; EXT2_FLAG_SHARE_DUP off",
             "libc memcpy is a recording stub: bounds asserted at every call (destination inside file->buf, source inside the caller's buffer), contents not modelled (byte content: unit fileio/file_write)",
             "blocksize 1024; the caller's buffer has exactly nbytes bytes, nbytes <= 65536 (COPY_FILE_BUFLEN, the largest write mke2fs -d issues); position below 2^48"],
 "native": false
}
*/
/*
 * C09 / C18: ext2fs_file_write on an inline-data file whose data no longer fits (lib/ext2fs/fileio.c): after
 * ext2fs_file_write_inline_data has converted the file and answered EXT2_ET_INLINE_DATA_NO_SPACE the SAME request is
 * carried out by the block path: starting at the same position, taking all nbytes bytes from the start of the caller's
 * buffer; any other answer of the inline path (success or error) is final and the block path is not entered.
 */
#include "verif.h"

#define BS 1024ULL
struct in_s {
	unsigned long long pos, isize, blockno, physblock, newblk;
	unsigned int nbytes, ino;
	int flags;
	long r_inl;
	unsigned char null_written;
	long choice[6];
};
struct in_s IN;
#include "verif_in.h"

unsigned long long verif_k;
struct ext2_file;
static struct ext2_file *g_file;
static const char *g_src;
static unsigned long long g_pos0, g_nbytes0;
static unsigned int g_inl_calls, g_sync_calls, g_load_calls, g_ci, g_mc_calls, g_mc_bad, g_ss_calls, g_bmap_calls;
static unsigned long long g_mc_total, g_first_sync_pos, g_ss_size;
static const char *g_mc_next;		/* where the next memcpy must take its bytes from */

#include "config.h"
#include "ext2_fs.h"
#include "ext2fs.h"

#ifndef VERIF_INV_FILE_READ
#define VERIF_INV_FILE_READ
#endif
#define LE(x) __CPROVER_loop_entry(x)
#define VERIF_INV_FILE_WRITE \
	__CPROVER_assigns(retval, start, c, ptr, count, nbytes, bmap_flags, new_block, old_block, file->pos, file->blockno, file->flags, file->physblock, \
			  g_sync_calls, g_load_calls, g_ci, g_mc_calls, g_mc_bad, g_mc_total, g_first_sync_pos, g_mc_next, g_bmap_calls) \
	__CPROVER_loop_invariant(count <= LE(nbytes) && nbytes == LE(nbytes) - count) \
	__CPROVER_loop_invariant(file->pos == LE(file->pos) + count && ptr == (const char *)buf + count) \
	__CPROVER_loop_invariant(g_mc_bad == 0 && g_mc_total == count && g_mc_next == (const char *)buf + count && new_block == 0 && old_block == 0) \
	__CPROVER_loop_invariant(g_sync_calls <= count && (g_sync_calls == 0 ? count == 0 : g_first_sync_pos == LE(file->pos))) \
	__CPROVER_decreases(nbytes)

void *memcpy(void *dst, const void *src, size_t n);

#include "lib/ext2fs/fileio.c"

void *memcpy(void *dst, const void *src, size_t n)
{
	g_mc_calls++;
	__CPROVER_assert(__CPROVER_r_ok(src, n), "CHECK:memcpy source readable (inside the caller's buffer)");
	__CPROVER_assert(__CPROVER_w_ok(dst, n), "CHECK:memcpy destination writable (inside file->buf)");
	if (!(__CPROVER_r_ok(src, n) && __CPROVER_w_ok(dst, n)) || src != (const void *)g_mc_next || !__CPROVER_same_object(dst, g_file->buf))
		g_mc_bad = 1;
	g_mc_total += n;
	g_mc_next += n;
	return dst;
}
errcode_t ext2fs_bmap2(ext2_filsys fs, ext2_ino_t ino, struct ext2_inode *inode, char *block_buf, int bmap_flags, blk64_t block,
		       int *ret_flags, blk64_t *phys_blk)
{
	g_bmap_calls++;
	if (IN.choice[(g_ci++) % 6])
		return EXT2_ET_BLOCK_ALLOC_FAIL;
	*phys_blk = (bmap_flags & BMAP_ALLOC) ? IN.newblk : 0;
	return 0;
}
#define CH(i) (IN.choice[(i) % 6])

static errcode_t ext2fs_file_write_inline_data(ext2_file_t file, const void *buf, unsigned int nbytes, unsigned int *written)
	REQUIRES(g_inl_calls == 0 && file == g_file && buf == (const void *)g_src && nbytes == g_nbytes0 && file->pos == g_pos0)
	ASSIGNS(g_inl_calls, file->pos, file->inode; written != 0: *written)
	ENSURES(g_inl_calls == 1 && RET == IN.r_inl)
	ENSURES(RET != EXT2_ET_INLINE_DATA_NO_SPACE || (file->pos == g_pos0 && !(file->inode.i_flags & EXT4_INLINE_DATA_FL)));
static errcode_t sync_buffer_position(ext2_file_t file)
	ASSIGNS(file->blockno, file->flags, file->physblock, g_ci, g_sync_calls, g_first_sync_pos)
	ENSURES(g_sync_calls == OLD(g_sync_calls) + 1 && g_ci == OLD(g_ci) + 1 && RET == (CH(OLD(g_ci)) ? EXT2_ET_SHORT_WRITE : 0))
	ENSURES(g_first_sync_pos == (OLD(g_sync_calls) == 0 ? file->pos : OLD(g_first_sync_pos)))
	ENSURES(RET != 0 || file->blockno == file->pos / BS);
static errcode_t load_buffer(ext2_file_t file, int dontfill)
	ASSIGNS(file->flags, file->physblock, g_ci, g_load_calls)
	ENSURES(g_load_calls == OLD(g_load_calls) + 1 && g_ci == OLD(g_ci) + 1 && RET == (CH(OLD(g_ci)) ? EXT2_ET_SHORT_READ : 0))
	ENSURES(RET != 0 || file->flags == (OLD(file->flags) | EXT2_FILE_BUF_VALID));
errcode_t ext2fs_file_set_size2(ext2_file_t file, ext2_off64_t size)
	ASSIGNS(file->inode.i_size, file->inode.i_size_high, g_ci, g_ss_calls, g_ss_size)
	ENSURES(g_ci == OLD(g_ci) + 1 && g_ss_calls == OLD(g_ss_calls) + 1 && g_ss_size == (unsigned long long)size)
	ENSURES(RET == (CH(OLD(g_ci)) ? EXT2_ET_SHORT_WRITE : 0) && (RET != 0 || EXT2_I_SIZE(&file->inode) == (unsigned long long)size));

static struct struct_ext2_filsys FS;
static struct ext2_super_block SB;
static struct ext2_file F;

void h_write_after_expand(void)
{
	LOAD_IN();
	memset(&FS, 0, sizeof(FS)); memset(&SB, 0, sizeof(SB)); memset(&F, 0, sizeof(F));
	FS.super = &SB; FS.magic = EXT2_ET_MAGIC_EXT2FS_FILSYS; FS.blocksize = 1024; FS.flags = EXT2_FLAG_RW;
	F.magic = EXT2_ET_MAGIC_EXT2_FILE;
	F.fs = &FS; F.ino = IN.ino; F.flags = IN.flags | EXT2_FILE_WRITE; F.pos = IN.pos; F.blockno = IN.blockno; F.physblock = IN.physblock;
	F.inode.i_size = IN.isize & 0xffffffff; F.inode.i_size_high = IN.isize >> 32;
	F.inode.i_flags = EXT4_INLINE_DATA_FL;
	F.inode.i_mode = LINUX_S_IFREG | 0644;
	ASSUME(IN.isize <= (1ULL << 48) && IN.pos <= (1ULL << 48) && IN.nbytes <= 65536 && IN.newblk != 0 && IN.ino != 0);
	F.buf = malloc(3 * 1024); ASSUME(F.buf != 0);
	char *src = malloc(IN.nbytes); ASSUME(src != 0);
	g_file = &F; g_src = src; g_pos0 = IN.pos; g_nbytes0 = IN.nbytes; g_mc_next = src;
	g_inl_calls = g_sync_calls = g_load_calls = g_ci = g_mc_calls = g_mc_bad = g_ss_calls = g_bmap_calls = 0;
	g_mc_total = g_first_sync_pos = g_ss_size = 0;
	unsigned int written = 7777;

	errcode_t r = ext2fs_file_write((ext2_file_t)&F, src, IN.nbytes, IN.null_written ? 0 : &written);

	CHECK(g_inl_calls == 1, "an inline-data file goes through the inline path first, once");
	CHECK(g_mc_bad == 0, "every memcpy takes the next bytes of the caller's buffer and stays inside file->buf");
	if (IN.r_inl != EXT2_ET_INLINE_DATA_NO_SPACE) {
		CHECK(r == IN.r_inl && g_sync_calls == 0 && g_mc_calls == 0 && g_ss_calls == 0, "any other answer of the inline path is final: the block path is not entered");
		REACH("inline path decided");
	} else {
		if (IN.nbytes > 0)
			CHECK(g_sync_calls >= 1 && g_first_sync_pos == IN.pos, "after the conversion the block path starts at the SAME position");
		if (r == 0) {
			CHECK(F.pos == IN.pos + IN.nbytes && (IN.null_written || written == IN.nbytes), "all nbytes are written, position advanced by nbytes");
			CHECK(g_mc_total == IN.nbytes, "exactly nbytes bytes were taken, from the start of the caller's buffer, in order");
			CHECK(IN.nbytes == 0 || EXT2_I_SIZE(&F.inode) >= F.pos, "the file is at least as long as the new position");
			if (IN.nbytes > 2048) REACH("several blocks");
			REACH("written by the block path");
		} else {
			CHECK(IN.null_written || written == F.pos - IN.pos, "failure: the count reported is the distance the position moved");
			REACH("block path failed");
		}
	}
	REACH("end");
}
