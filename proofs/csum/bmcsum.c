/* VERIF-UNIT
{
 "name": "block_bitmap_csum_set",
 "props": ["C14"],
 "level": "U",
 "tier": "quick",
 "harness": "h_block_bm_set",
 "enforce": ["ext2fs_block_bitmap_csum_set"],
 "sources": ["lib/ext2fs/blknum.c"],
 "functions": ["lib/ext2fs/csum.c:ext2fs_block_bitmap_csum_set"],
 "assumes": ["ext2fs_crc32c_le is a logging stub returning an arbitrary value (trace contract)",
             "little-endian host (WORDS_BIGENDIAN undefined)",
             "in-memory descriptor table fs->group_desc present, 4 groups, group < 4 (address computation is the real blknum.c:ext2fs_group_desc)",
             "descriptor size enumerated over {32 (no 64bit), 64, 128 (64bit)}",
             "0 <= size <= 4096 and the bitmap buffer holds exactly size bytes (callers in rw_bitmaps.c pass clusters_per_group/8 resp. inodes_per_group/8)"],
 "native": false
}
*/
/* VERIF-UNIT
{
 "name": "block_bitmap_csum_verify",
 "props": ["C14"],
 "level": "U",
 "tier": "quick",
 "harness": "h_block_bm_verify",
 "enforce": ["ext2fs_block_bitmap_csum_verify"],
 "sources": ["lib/ext2fs/blknum.c"],
 "functions": ["lib/ext2fs/csum.c:ext2fs_block_bitmap_csum_verify"],
 "assumes": ["ext2fs_crc32c_le is a logging stub returning an arbitrary value (trace contract)",
             "little-endian host (WORDS_BIGENDIAN undefined)",
             "in-memory descriptor table fs->group_desc present, 4 groups, group < 4 (address computation is the real blknum.c:ext2fs_group_desc)",
             "descriptor size enumerated over {32 (no 64bit), 64, 128 (64bit)}",
             "0 <= size <= 4096 and the bitmap buffer holds exactly size bytes (callers in rw_bitmaps.c pass clusters_per_group/8 resp. inodes_per_group/8)"],
 "native": false
}
*/
/* VERIF-UNIT
{
 "name": "inode_bitmap_csum_set",
 "props": ["C14"],
 "level": "U",
 "tier": "quick",
 "harness": "h_inode_bm_set",
 "enforce": ["ext2fs_inode_bitmap_csum_set"],
 "sources": ["lib/ext2fs/blknum.c"],
 "functions": ["lib/ext2fs/csum.c:ext2fs_inode_bitmap_csum_set"],
 "assumes": ["ext2fs_crc32c_le is a logging stub returning an arbitrary value (trace contract)",
             "little-endian host (WORDS_BIGENDIAN undefined)",
             "in-memory descriptor table fs->group_desc present, 4 groups, group < 4 (address computation is the real blknum.c:ext2fs_group_desc)",
             "descriptor size enumerated over {32 (no 64bit), 64, 128 (64bit)}",
             "0 <= size <= 4096 and the bitmap buffer holds exactly size bytes (callers in rw_bitmaps.c pass clusters_per_group/8 resp. inodes_per_group/8)"],
 "native": false
}
*/
/* VERIF-UNIT
{
 "name": "inode_bitmap_csum_verify",
 "props": ["C14"],
 "level": "U",
 "tier": "quick",
 "harness": "h_inode_bm_verify",
 "enforce": ["ext2fs_inode_bitmap_csum_verify"],
 "sources": ["lib/ext2fs/blknum.c"],
 "functions": ["lib/ext2fs/csum.c:ext2fs_inode_bitmap_csum_verify"],
 "assumes": ["ext2fs_crc32c_le is a logging stub returning an arbitrary value (trace contract)",
             "little-endian host (WORDS_BIGENDIAN undefined)",
             "in-memory descriptor table fs->group_desc present, 4 groups, group < 4 (address computation is the real blknum.c:ext2fs_group_desc)",
             "descriptor size enumerated over {32 (no 64bit), 64, 128 (64bit)}",
             "0 <= size <= 4096 and the bitmap buffer holds exactly size bytes (callers in rw_bitmaps.c pass clusters_per_group/8 resp. inodes_per_group/8)"],
 "native": false
}
*/
/*
 * Format (bitmaps / group_descr.rst, "Checksums"): with metadata_csum
 *   block bitmap checksum = crc32c(fs seed, bitmap bytes [0, size));  low 16 bits -> bg_block_bitmap_csum_lo (le16 at 0x18),
 *       high 16 bits -> bg_block_bitmap_csum_hi (le16 at 0x38) when the descriptor is large enough to have it (64-byte descriptors);
 *   inode bitmap checksum: same, le16 at 0x1A and le16 at 0x3A.
 *   With 32-byte descriptors only the low 16 bits are kept and compared.
 */
#include "csum_common.h"

#define B(p) ((unsigned char *)(p))
#define IN_FIELD(k, off, n) ((k) >= (off) && (k) < (off) + (n))
#define NGROUPS 4
#define MCSUM(fs) SPEC_HAS_METADATA_CSUM((fs)->super)
#define DSIZE(fs) SPEC_DESC_SIZE((fs)->super)
#define BB_LO 0x18
#define BB_HI 0x38
#define IB_LO 0x1A
#define IB_HI 0x3A

/* ghosts: g_desc = address of the group's descriptor; g_k offset into the bitmap, g_oldb its byte there;
 * g_j offset into the whole descriptor table, g_oldj the byte there on entry; g_off = g_desc - table */
unsigned char *g_desc;
unsigned char g_oldj;
unsigned long g_j, g_off;
unsigned int g_dsize;
#define HAS_HI (g_dsize >= 64)

#define BM_PRE(fs, group, bitmap, size) (g_n == 0 && group < NGROUPS && g_dsize == DSIZE(fs) && g_off == group * g_dsize && \
	g_desc == B(fs->group_desc) + g_off && size >= 0 && size <= 4096 && (g_k >= (unsigned long)size || g_oldb == B(bitmap)[g_k]) && \
	g_j < NGROUPS * g_dsize && g_oldj == B(fs->group_desc)[g_j])
#define BM_CHAIN(fs, bitmap, size) (g_n == 1 && CALL_IS(0, 32, fs->csum_seed, bitmap, size) && CALL_WIT(0, g_oldb))
#define BM_NEWJ(LO, HI) (IN_FIELD(g_j, g_off + (LO), 2) ? SPEC_BYTE(OUT(0), g_j - g_off - (LO)) : \
	(HAS_HI && IN_FIELD(g_j, g_off + (HI), 2)) ? SPEC_BYTE(OUT(0) >> 16, g_j - g_off - (HI)) : g_oldj)
#define BM_PROVIDED(LO, HI) (HAS_HI ? (SPEC_LE16(g_desc, LO) | (SPEC_LE16(g_desc, HI) << 16)) : SPEC_LE16(g_desc, LO))
#define BM_COMPUTED (HAS_HI ? OUT(0) : (OUT(0) & 0xFFFFu))

#define SET_CONTRACT(LO, HI) \
	REQUIRES(BM_PRE(fs, group, bitmap, size)) \
	ASSIGNS(__CPROVER_object_whole(fs->group_desc), LOG_FRAME) \
	ENSURES(RET == 0) \
	ENSURES(MCSUM(fs) || (g_n == 0 && B(fs->group_desc)[g_j] == g_oldj)) \
	ENSURES(!MCSUM(fs) || BM_CHAIN(fs, bitmap, size)) \
	ENSURES(!MCSUM(fs) || B(fs->group_desc)[g_j] == BM_NEWJ(LO, HI))
#define VERIFY_CONTRACT(LO, HI) \
	REQUIRES(BM_PRE(fs, group, bitmap, size)) \
	ASSIGNS(LOG_FRAME) \
	ENSURES(MCSUM(fs) || (g_n == 0 && RET == 1)) \
	ENSURES(!MCSUM(fs) || BM_CHAIN(fs, bitmap, size)) \
	ENSURES(!MCSUM(fs) || RET == (BM_PROVIDED(LO, HI) == BM_COMPUTED))

errcode_t ext2fs_block_bitmap_csum_set(ext2_filsys fs, dgrp_t group, char *bitmap, int size) SET_CONTRACT(BB_LO, BB_HI);
errcode_t ext2fs_inode_bitmap_csum_set(ext2_filsys fs, dgrp_t group, char *bitmap, int size) SET_CONTRACT(IB_LO, IB_HI);
int ext2fs_block_bitmap_csum_verify(ext2_filsys fs, dgrp_t group, char *bitmap, int size) VERIFY_CONTRACT(BB_LO, BB_HI);
int ext2fs_inode_bitmap_csum_verify(ext2_filsys fs, dgrp_t group, char *bitmap, int size) VERIFY_CONTRACT(IB_LO, IB_HI);

static char *g_bitmap;
static int g_size;
static ext2_filsys build_bm(void)
{
	ext2_filsys fs = build_fs();
	unsigned char *tab;
	g_dsize = DSIZE(fs);
	ASSUME(SPEC_HAS_64BIT(fs->super) ? (g_dsize == 64 || g_dsize == 128) : 1);
	tab = malloc(NGROUPS * g_dsize);	/* arbitrary content */
	ASSUME(tab != 0);
	fs->group_desc = (struct opaque_ext2_group_desc *)tab;
	fs->group_desc_count = NGROUPS;
	ASSUME(IN.group < NGROUPS);
	g_off = IN.group * g_dsize;
	g_desc = tab + g_off;
	g_j = IN.misc[1];
	ASSUME(g_j < NGROUPS * g_dsize);
	g_oldj = tab[g_j];
	g_size = (int)IN.size;
	ASSUME(g_size >= 0 && g_size <= 4096);
	g_bitmap = malloc(g_size);		/* arbitrary content */
	ASSUME(g_bitmap != 0);
	g_oldb = g_k < (unsigned long)g_size ? B(g_bitmap)[g_k] : 0;
	return fs;
}

#define H_SET(hname, fn, LO, HI) \
void hname(void) \
{ \
	LOAD_IN(); \
	ext2_filsys fs = build_bm(); \
	errcode_t r = fn(fs, IN.group, g_bitmap, g_size); \
	unsigned char nowj = B(fs->group_desc)[g_j]; \
	CHECK(r == 0, "returns 0"); \
	if (MCSUM(fs)) { \
		CHECK(g_n == 1 && CALL_IS(0, 32, IN.csum_seed, g_bitmap, g_size), "one crc32c call: fs seed, the size bytes of the bitmap"); \
		CHECK(CALL_WIT(0, g_oldb), "bitmap fed as is"); \
		CHECK(nowj == BM_NEWJ(LO, HI), "lo16 / hi16 stored little-endian in this group's descriptor (hi only with 64-byte descriptors), rest of the table unchanged"); \
		if (HAS_HI) REACH("32-bit store"); else REACH("16-bit store"); \
	} else { \
		CHECK(g_n == 0 && nowj == g_oldj, "without metadata_csum nothing is computed or stored"); \
	} \
	REACH("end"); \
}
#define H_VERIFY(hname, fn, LO, HI) \
void hname(void) \
{ \
	LOAD_IN(); \
	ext2_filsys fs = build_bm(); \
	int r = fn(fs, IN.group, g_bitmap, g_size); \
	unsigned int provided = BM_PROVIDED(LO, HI); \
	if (MCSUM(fs)) { \
		CHECK(g_n == 1 && CALL_IS(0, 32, IN.csum_seed, g_bitmap, g_size), "one crc32c call: fs seed, the size bytes of the bitmap"); \
		CHECK(CALL_WIT(0, g_oldb), "bitmap fed as is"); \
		CHECK(r == (provided == BM_COMPUTED), "verify == (stored == computed), 32 bits with 64-byte descriptors, else 16"); \
		if (r) REACH("match"); else REACH("mismatch detected"); \
		if (HAS_HI) REACH("32-bit compare"); else REACH("16-bit compare"); \
	} else { \
		CHECK(g_n == 0 && r == 1, "without metadata_csum verify accepts without computing"); \
	} \
	REACH("end"); \
}
H_SET(h_block_bm_set, ext2fs_block_bitmap_csum_set, BB_LO, BB_HI)
H_SET(h_inode_bm_set, ext2fs_inode_bitmap_csum_set, IB_LO, IB_HI)
H_VERIFY(h_block_bm_verify, ext2fs_block_bitmap_csum_verify, BB_LO, BB_HI)
H_VERIFY(h_inode_bm_verify, ext2fs_inode_bitmap_csum_verify, IB_LO, IB_HI)
