/* VERIF-UNIT
{
 "name": "dirent_csum_verify",
 "props": ["C14"],
 "level": "U",
 "tier": "quick",
 "harness": "h_dirent_verify",
 "enforce": ["ext2fs_dirent_csum_verify"],
 "replace": ["__get_dirent_tail"],
 "functions": ["lib/ext2fs/csum.c:ext2fs_dirent_csum_verify", "lib/ext2fs/csum.c:ext2fs_dirent_csum"],
 "assumes": [
   "ext2fs_crc32c_le is a logging stub returning an arbitrary value (trace contract)",
   "little-endian host (WORDS_BIGENDIAN undefined)",
   "ext2fs_read_inode (inode.c) is a stub: fails with an arbitrary non-zero code or delivers an arbitrary i_generation",
   "the directory block has exactly fs->blocksize bytes, blocksize enumerated over {1024, 4096}, content arbitrary",
   "__get_dirent_tail is replaced by its contract (the clauses used here are a subset of the contract enforced in unit parsers/get_dirent_tail -- which is still wip because of two pointer-relation obligations on a never dereferenced out-of-block pointer --, plus a ghost copy of its return value; pointer results restated with __CPROVER_pointer_equals)"
  ],
 "native": false
}
*/
/* VERIF-UNIT
{
 "name": "dirent_csum_set",
 "props": ["C14"],
 "level": "U",
 "tier": "quick",
 "harness": "h_dirent_set",
 "enforce": ["ext2fs_dirent_csum_set"],
 "replace": ["__get_dirent_tail"],
 "functions": ["lib/ext2fs/csum.c:ext2fs_dirent_csum_set", "lib/ext2fs/csum.c:ext2fs_dirent_csum"],
 "assumes": [
   "ext2fs_crc32c_le is a logging stub returning an arbitrary value (trace contract)",
   "little-endian host (WORDS_BIGENDIAN undefined)",
   "ext2fs_read_inode (inode.c) is a stub: fails with an arbitrary non-zero code or delivers an arbitrary i_generation",
   "the directory block has exactly fs->blocksize bytes, blocksize enumerated over {1024, 4096}, content arbitrary",
   "__get_dirent_tail is replaced by its contract (the clauses used here are a subset of the contract enforced in unit parsers/get_dirent_tail -- which is still wip because of two pointer-relation obligations on a never dereferenced out-of-block pointer --, plus a ghost copy of its return value; pointer results restated with __CPROVER_pointer_equals)"
  ],
 "native": false
}
*/
/* VERIF-UNIT
{
 "name": "dx_csum",
 "props": ["C14"],
 "level": "U",
 "tier": "quick",
 "harness": "h_dx_csum",
 "enforce": ["ext2fs_dx_csum"],
 "replace": ["__get_dx_countlimit"],
 "functions": ["lib/ext2fs/csum.c:ext2fs_dx_csum"],
 "assumes": [
   "ext2fs_crc32c_le is a logging stub returning an arbitrary value (trace contract)",
   "little-endian host (WORDS_BIGENDIAN undefined)",
   "ext2fs_read_inode (inode.c) is a stub: fails with an arbitrary non-zero code or delivers an arbitrary i_generation",
   "the directory block has exactly fs->blocksize bytes, blocksize enumerated over {1024, 4096}, content arbitrary",
   "__get_dx_countlimit is replaced by its contract (the clauses used here are a subset of the contract enforced in unit parsers/get_dx_countlimit, plus a ghost copy of its return value; pointer results restated with __CPROVER_pointer_equals)"
  ],
 "native": false
}
*/
/* VERIF-UNIT
{
 "name": "dx_csum_verify",
 "props": ["C14"],
 "level": "U",
 "tier": "quick",
 "harness": "h_dx_verify",
 "enforce": ["ext2fs_dx_csum_verify"],
 "replace": ["__get_dx_countlimit"],
 "functions": ["lib/ext2fs/csum.c:ext2fs_dx_csum_verify", "lib/ext2fs/csum.c:ext2fs_dx_csum"],
 "assumes": [
   "ext2fs_crc32c_le is a logging stub returning an arbitrary value (trace contract)",
   "little-endian host (WORDS_BIGENDIAN undefined)",
   "ext2fs_read_inode (inode.c) is a stub: fails with an arbitrary non-zero code or delivers an arbitrary i_generation",
   "the directory block has exactly fs->blocksize bytes, blocksize enumerated over {1024, 4096}, content arbitrary",
   "__get_dx_countlimit is replaced by its contract (the clauses used here are a subset of the contract enforced in unit parsers/get_dx_countlimit, plus a ghost copy of its return value; pointer results restated with __CPROVER_pointer_equals)"
  ],
 "native": false
}
*/
/* VERIF-UNIT
{
 "name": "dx_csum_set",
 "props": ["C14"],
 "level": "U",
 "tier": "quick",
 "harness": "h_dx_set",
 "enforce": ["ext2fs_dx_csum_set"],
 "replace": ["__get_dx_countlimit"],
 "functions": ["lib/ext2fs/csum.c:ext2fs_dx_csum_set", "lib/ext2fs/csum.c:ext2fs_dx_csum"],
 "assumes": [
   "ext2fs_crc32c_le is a logging stub returning an arbitrary value (trace contract)",
   "little-endian host (WORDS_BIGENDIAN undefined)",
   "ext2fs_read_inode (inode.c) is a stub: fails with an arbitrary non-zero code or delivers an arbitrary i_generation",
   "the directory block has exactly fs->blocksize bytes, blocksize enumerated over {1024, 4096}, content arbitrary",
   "__get_dx_countlimit is replaced by its contract (the clauses used here are a subset of the contract enforced in unit parsers/get_dx_countlimit, plus a ghost copy of its return value; pointer results restated with __CPROVER_pointer_equals)"
  ],
 "native": false
}
*/
/*
 * Format (directory.rst, "Checksums"):
 *  leaf block: the last 12 bytes are struct ext4_dir_entry_tail {le32 0; le16 rec_len = 12; u8 0; u8 0xDE; le32 det_checksum};
 *      det_checksum (le32 at blocksize-4) = crc32c(fs seed, le32 inode number) -> le32 i_generation -> block bytes [0, blocksize-12).
 *  htree node: dx_countlimit {le16 limit; le16 count} at byte 8 (interior node) or 32 (root); the `limit` 8-byte slots start
 *      there; struct dx_tail {le32 dt_reserved; le32 dt_checksum} follows the last slot, at co + 8*limit;
 *      dt_checksum = crc32c(fs seed, le32 inode number) -> le32 i_generation -> block bytes [0, co + 8*count) ->
 *      the 4 bytes of dt_reserved -> 4 zero bytes (the checksum field taken as zero).
 *      If the tail does not fit in the block there is no room for a checksum.
 */
#include "csum_common.h"

#define B(p) ((unsigned char *)(p))
#define IN_FIELD(k, off, n) ((k) >= (off) && (k) < (off) + (n))
#define BS(fs) ((fs)->blocksize)
#define SPEC_TAIL_SHAPE_AT(b, off) (SPEC_LE32(b, off) == 0 && SPEC_LE16(b, (off) + 4) == 12 && SPEC_LE16(b, (off) + 6) == 0xDE00u)
#define SPEC_DX_NODE_HDR(b, bs) (SPEC_LE16(b, 4) == (bs) && SPEC_LE16(b, 6) == 0)
#define SPEC_DX_ROOT_HDR(b, bs) (SPEC_LE16(b, 4) == 12 && SPEC_LE16(b, 12 + 4) == (bs) - 12 && \
				 SPEC_LE32(b, 24) == 0 && ((const unsigned char *)(b))[24 + 5] == 8)
#define SPEC_CL_FITS(b, off, bs) ((unsigned long)(off) + 8ul * SPEC_LE16(b, off) <= (bs) && \
				  (unsigned long)(off) + 8ul * SPEC_LE16(b, (off) + 2) <= (bs))

/* In a contract that REPLACES a call, a pointer result must be given with the DFCC predicate __CPROVER_pointer_equals
 * (a plain == only constrains the bits of a havocked pointer; dereferencing it then reads an invalid object). */
#ifdef VERIF_NATIVE
#define PTR_EQ(a, b) ((a) == (b))
#else
#define PTR_EQ(a, b) __CPROVER_pointer_equals(a, b)
#endif
/* ghosts: return value of the (replaced) walker, of the read_inode stub, inode number it was asked for, number of calls */
errcode_t g_walk_ret, g_ri_ret;
unsigned int g_ri_ino, g_ri_n;
#define STUB_FRAME g_ri_ret, g_ri_ino, g_ri_n

static errcode_t __get_dirent_tail(ext2_filsys fs, struct ext2_dir_entry *dirent,
				   struct ext2_dir_entry_tail **tt, int need_swab)
	REQUIRES(fs->blocksize >= 16 && fs->blocksize <= 65536)
	ENSURES(RET == 0 || RET == EXT2_FILSYS_CORRUPTED || RET == EXT2_ET_DIR_CORRUPTED || RET == EXT2_ET_DIR_NO_SPACE_FOR_CSUM)
	ENSURES(RET != 0 || SPEC_TAIL_SHAPE_AT(dirent, fs->blocksize - 12))
	ENSURES(RET != 0 || tt == 0 || PTR_EQ(*tt, (struct ext2_dir_entry_tail *)((char *)dirent + (fs->blocksize - 12))))
	ENSURES(g_walk_ret == RET)
	ASSIGNS(*tt, g_walk_ret);

static errcode_t __get_dx_countlimit(ext2_filsys fs, struct ext2_dir_entry *dirent,
				     struct ext2_dx_countlimit **cc, int *offset, int need_swab)
	REQUIRES(fs->blocksize >= 1024 && fs->blocksize <= 65536)
	ENSURES(RET == 0 || RET == EXT2_ET_DB_NOT_FOUND || RET == EXT2_ET_DIR_NO_SPACE_FOR_CSUM)
	ENSURES(RET != 0 || SPEC_DX_NODE_HDR(dirent, fs->blocksize) || SPEC_DX_ROOT_HDR(dirent, fs->blocksize))
	ENSURES(RET != 0 || (SPEC_DX_NODE_HDR(dirent, fs->blocksize) ? SPEC_CL_FITS(dirent, 8, fs->blocksize)
								      : SPEC_CL_FITS(dirent, 32, fs->blocksize)))
	ENSURES(RET != 0 || offset == 0 || *offset == (SPEC_DX_NODE_HDR(dirent, fs->blocksize) ? 8 : 32))
	ENSURES(RET != 0 || cc == 0 || PTR_EQ(*cc, (struct ext2_dx_countlimit *)((char *)dirent + (SPEC_DX_NODE_HDR(dirent, fs->blocksize) ? 8 : 32))))
	ENSURES(g_walk_ret == RET)
	ASSIGNS(*cc, *offset, g_walk_ret);

#define DIR_PRE(fs, dirent) ((BS(fs) == 1024 || BS(fs) == 4096) && g_n == 0 && g_ri_n == 0 && g_k < BS(fs) && g_oldb == B(dirent)[g_k])
#define LEAF_OK (g_walk_ret == 0 && g_ri_ret == 0)
#define LEAF_C0(fs, inum) (g_ri_n == 1 && g_ri_ino == inum && g_n == 3 && CALL_VAL(0, 32, fs->csum_seed, 4, inum))
#define LEAF_C1 CALL_VAL(1, 32, OUT(0), 4, IN.gen)
#define LEAF_C2(fs, dirent) (CALL_IS(2, 32, OUT(1), dirent, BS(fs) - 12) && CALL_WIT(2, g_oldb))

int ext2fs_dirent_csum_verify(ext2_filsys fs, ext2_ino_t inum, struct ext2_dir_entry *dirent)
	REQUIRES(DIR_PRE(fs, dirent))
	ASSIGNS(LOG_FRAME, STUB_FRAME, g_walk_ret)
	/* no tail: nothing this function can verify -- it answers 1; the dispatcher ext2fs_dir_block_csum_verify only comes here after it found a tail */
	ENSURES(g_walk_ret == 0 || (RET == 1 && g_n == 0 && g_ri_n == 0))
	ENSURES(!(g_walk_ret == 0 && g_ri_ret != 0) || (RET == 0 && g_n == 0))
	ENSURES(!LEAF_OK || LEAF_C0(fs, inum))
	ENSURES(!LEAF_OK || LEAF_C1)
	ENSURES(!LEAF_OK || LEAF_C2(fs, dirent))
	ENSURES(!LEAF_OK || RET == (SPEC_LE32(dirent, BS(fs) - 4) == OUT(2)));

static errcode_t ext2fs_dirent_csum_set(ext2_filsys fs, ext2_ino_t inum, struct ext2_dir_entry *dirent)
	REQUIRES(DIR_PRE(fs, dirent))
	ASSIGNS(__CPROVER_object_whole(dirent), LOG_FRAME, STUB_FRAME, g_walk_ret)
	ENSURES(g_walk_ret == 0 || (RET == g_walk_ret && g_n == 0 && g_ri_n == 0 && B(dirent)[g_k] == g_oldb))
	ENSURES(!(g_walk_ret == 0 && g_ri_ret != 0) || (RET == g_ri_ret && g_n == 0 && B(dirent)[g_k] == g_oldb))
	ENSURES(!LEAF_OK || RET == 0)
	ENSURES(!LEAF_OK || LEAF_C0(fs, inum))
	ENSURES(!LEAF_OK || LEAF_C1)
	ENSURES(!LEAF_OK || LEAF_C2(fs, dirent))
	ENSURES(!LEAF_OK || B(dirent)[g_k] == (IN_FIELD(g_k, BS(fs) - 4, 4) ? SPEC_BYTE(OUT(2), g_k - (BS(fs) - 4)) : g_oldb));

/* htree: co = offset of the countlimit, lim / cnt its two fields (ghosts fixed by the harness from the block bytes) */
unsigned int g_co, g_lim, g_cnt;
#define DX_PRE(fs, dirent) (DIR_PRE(fs, dirent) && g_co == (SPEC_DX_NODE_HDR(dirent, BS(fs)) ? 8u : 32u) && \
	g_lim == SPEC_LE16(dirent, g_co) && g_cnt == SPEC_LE16(dirent, g_co + 2))
#define DX_TAIL_OFF (g_co + 8ul * g_lim)
#define DX_FITS(fs) (DX_TAIL_OFF + 8 <= BS(fs))
#define DX_OK(fs) (g_walk_ret == 0 && DX_FITS(fs) && g_ri_ret == 0)
#define DX_C0(fs, inum) (g_ri_n == 1 && g_ri_ino == inum && g_n == 5 && CALL_VAL(0, 32, fs->csum_seed, 4, inum))
#define DX_C1 CALL_VAL(1, 32, OUT(0), 4, IN.gen)
#define DX_C2(dirent) (CALL_IS(2, 32, OUT(1), dirent, g_co + 8ul * g_cnt) && CALL_WIT(2, g_oldb))
#define DX_C3(dirent) (CALL_IS(3, 32, OUT(2), B(dirent) + DX_TAIL_OFF, 4) && g_log[3].head == SPEC_LE32(dirent, DX_TAIL_OFF))
#define DX_C4 CALL_VAL(4, 32, OUT(3), 4, 0)

errcode_t ext2fs_dx_csum(ext2_filsys fs, ext2_ino_t inum, struct ext2_dir_entry *dirent, __u32 *crc, struct ext2_dx_tail **ret_t)
	REQUIRES(DX_PRE(fs, dirent))
	ASSIGNS(*crc, *ret_t, LOG_FRAME, STUB_FRAME, g_walk_ret)
	ENSURES(g_walk_ret == 0 || (RET == g_walk_ret && g_n == 0 && g_ri_n == 0))
	ENSURES(!(g_walk_ret == 0 && !DX_FITS(fs)) || (RET == EXT2_ET_DIR_NO_SPACE_FOR_CSUM && g_n == 0 && g_ri_n == 0))
	ENSURES(!(g_walk_ret == 0 && DX_FITS(fs) && g_ri_ret != 0) || (RET == g_ri_ret && g_n == 0))
	ENSURES(!DX_OK(fs) || (RET == 0 && *crc == OUT(4)))
	ENSURES(!DX_OK(fs) || ret_t == 0 || B(*ret_t) == B(dirent) + DX_TAIL_OFF)
	ENSURES(!DX_OK(fs) || DX_C0(fs, inum))
	ENSURES(!DX_OK(fs) || DX_C1)
	ENSURES(!DX_OK(fs) || DX_C2(dirent))
	ENSURES(!DX_OK(fs) || DX_C3(dirent))
	ENSURES(!DX_OK(fs) || DX_C4);

static int ext2fs_dx_csum_verify(ext2_filsys fs, ext2_ino_t inum, struct ext2_dir_entry *dirent)
	REQUIRES(DX_PRE(fs, dirent))
	ASSIGNS(LOG_FRAME, STUB_FRAME, g_walk_ret)
	ENSURES(DX_OK(fs) || (RET == 0 && g_n == 0))
	ENSURES(!DX_OK(fs) || DX_C0(fs, inum))
	ENSURES(!DX_OK(fs) || DX_C1)
	ENSURES(!DX_OK(fs) || DX_C2(dirent))
	ENSURES(!DX_OK(fs) || DX_C3(dirent))
	ENSURES(!DX_OK(fs) || DX_C4)
	ENSURES(!DX_OK(fs) || RET == (SPEC_LE32(dirent, DX_TAIL_OFF + 4) == OUT(4)));

static errcode_t ext2fs_dx_csum_set(ext2_filsys fs, ext2_ino_t inum, struct ext2_dir_entry *dirent)
	REQUIRES(DX_PRE(fs, dirent))
	ASSIGNS(__CPROVER_object_whole(dirent), LOG_FRAME, STUB_FRAME, g_walk_ret)
	ENSURES(DX_OK(fs) || (RET != 0 && g_n == 0 && B(dirent)[g_k] == g_oldb))
	ENSURES(!DX_OK(fs) || RET == 0)
	ENSURES(!DX_OK(fs) || DX_C0(fs, inum))
	ENSURES(!DX_OK(fs) || DX_C1)
	ENSURES(!DX_OK(fs) || DX_C2(dirent))
	ENSURES(!DX_OK(fs) || DX_C3(dirent))
	ENSURES(!DX_OK(fs) || DX_C4)
	ENSURES(!DX_OK(fs) || B(dirent)[g_k] == (IN_FIELD(g_k, DX_TAIL_OFF + 4, 4) ? SPEC_BYTE(OUT(4), g_k - (DX_TAIL_OFF + 4)) : g_oldb));

errcode_t ext2fs_read_inode(ext2_filsys fs, ext2_ino_t ino, struct ext2_inode *inode)
{
	g_ri_n++;
	g_ri_ino = ino;
	g_ri_ret = (IN.choice[0] & 1) ? (errcode_t)IN.misc[2] : 0;
	if (g_ri_ret)
		return g_ri_ret;
	inode->i_generation = IN.gen;	/* the other fields stay arbitrary */
	return 0;
}

static struct ext2_dir_entry *g_blk;
static ext2_filsys build_dir(void)
{
	ext2_filsys fs = build_fs();
	g_blk = malloc(fs->blocksize);	/* arbitrary content */
	ASSUME(g_blk != 0);
	ASSUME(g_k < fs->blocksize);
	ASSUME(!(IN.choice[0] & 1) || IN.misc[2] != 0);
	g_oldb = B(g_blk)[g_k];
	g_ri_n = 0; g_ri_ret = 0; g_walk_ret = 0;
	g_co = SPEC_DX_NODE_HDR(g_blk, fs->blocksize) ? 8u : 32u;
	g_lim = SPEC_LE16(g_blk, g_co);
	g_cnt = SPEC_LE16(g_blk, g_co + 2);
	return fs;
}

static void check_leaf_chain(ext2_filsys fs)
{
	CHECK(g_ri_n == 1 && g_ri_ino == IN.inum, "generation read from the directory's own inode");
	CHECK(g_n == 3 && CALL_VAL(0, 32, IN.csum_seed, 4, IN.inum), "first: fs seed, le32 inode number");
	CHECK(LEAF_C1, "second: chained, le32 generation");
	CHECK(LEAF_C2(fs, g_blk), "third: chained, the block up to the 12-byte tail, as is");
}

void h_dirent_verify(void)
{
	LOAD_IN();
	ext2_filsys fs = build_dir();
	unsigned int stored = SPEC_LE32(g_blk, fs->blocksize - 4);
	int r = ext2fs_dirent_csum_verify(fs, IN.inum, g_blk);
	CHECK(B(g_blk)[g_k] == g_oldb, "block untouched");
	if (g_walk_ret != 0) {
		CHECK(r == 1 && g_n == 0, "no tail: nothing verified");
		REACH("no tail");
	} else if (g_ri_ret != 0) {
		CHECK(r == 0 && g_n == 0, "inode unreadable: not verified");
		REACH("read_inode failed");
	} else {
		check_leaf_chain(fs);
		CHECK(r == (stored == OUT(2)), "verify == (le32 det_checksum == crc)");
		if (r) REACH("match"); else REACH("mismatch detected");
	}
	REACH("end");
}

void h_dirent_set(void)
{
	LOAD_IN();
	ext2_filsys fs = build_dir();
	errcode_t r = ext2fs_dirent_csum_set(fs, IN.inum, g_blk);
	unsigned char now = B(g_blk)[g_k];
	if (g_walk_ret != 0) {
		CHECK(r == g_walk_ret && g_n == 0 && now == g_oldb, "no tail: error, nothing stored");
		REACH("no tail");
	} else if (g_ri_ret != 0) {
		CHECK(r == g_ri_ret && g_n == 0 && now == g_oldb, "inode unreadable: error, nothing stored");
		REACH("read_inode failed");
	} else {
		CHECK(r == 0, "success");
		check_leaf_chain(fs);
		CHECK(now == (IN_FIELD(g_k, fs->blocksize - 4, 4) ? SPEC_BYTE(OUT(2), g_k - (fs->blocksize - 4)) : g_oldb), "det_checksum = le32 crc, every other byte unchanged");
		REACH("stored");
	}
	REACH("end");
}

static void check_dx_chain(ext2_filsys fs)
{
	CHECK(g_ri_n == 1 && g_ri_ino == IN.inum, "generation read from the directory's own inode");
	CHECK(g_n == 5 && CALL_VAL(0, 32, IN.csum_seed, 4, IN.inum), "first: fs seed, le32 inode number");
	CHECK(DX_C1, "second: chained, le32 generation");
	CHECK(DX_C2(g_blk), "third: chained, block [0, co + 8*count), as is");
	CHECK(DX_C3(g_blk), "fourth: chained, the 4 dt_reserved bytes of the tail behind the limit slots");
	CHECK(DX_C4, "fifth: chained, four zero bytes in place of dt_checksum");
}

void h_dx_csum(void)
{
	LOAD_IN();
	ext2_filsys fs = build_dir();
	__u32 crc = IN.misc[3];
	struct ext2_dx_tail *t = 0;
	errcode_t r = ext2fs_dx_csum(fs, IN.inum, g_blk, &crc, (IN.choice[1] & 1) ? &t : 0);
	CHECK(B(g_blk)[g_k] == g_oldb, "block untouched");
	if (g_walk_ret != 0) {
		CHECK(r == g_walk_ret && g_n == 0, "not an htree block: error");
	} else if (!DX_FITS(fs)) {
		CHECK(r == EXT2_ET_DIR_NO_SPACE_FOR_CSUM && g_n == 0, "tail does not fit: no room for a checksum");
		REACH("no room");
	} else if (g_ri_ret != 0) {
		CHECK(r == g_ri_ret && g_n == 0, "inode unreadable: error");
	} else {
		CHECK(r == 0 && crc == OUT(4), "result is the last crc");
		CHECK(!(IN.choice[1] & 1) || B(t) == B(g_blk) + DX_TAIL_OFF, "tail pointer = block + co + 8*limit");
		check_dx_chain(fs);
		if (g_co == 8) REACH("interior node"); else REACH("root");
	}
	REACH("end");
}

void h_dx_verify(void)
{
	LOAD_IN();
	ext2_filsys fs = build_dir();
	int r = ext2fs_dx_csum_verify(fs, IN.inum, g_blk);
	CHECK(B(g_blk)[g_k] == g_oldb, "block untouched");
	if (!DX_OK(fs)) {
		CHECK(r == 0 && g_n == 0, "no checksum can be computed: not verified");
		REACH("refused");
	} else {
		unsigned int stored = SPEC_LE32(g_blk, DX_TAIL_OFF + 4);
		check_dx_chain(fs);
		CHECK(r == (stored == OUT(4)), "verify == (le32 dt_checksum == crc)");
		if (r) REACH("match"); else REACH("mismatch detected");
	}
	REACH("end");
}

void h_dx_set(void)
{
	LOAD_IN();
	ext2_filsys fs = build_dir();
	errcode_t r = ext2fs_dx_csum_set(fs, IN.inum, g_blk);
	unsigned char now = B(g_blk)[g_k];
	if (!DX_OK(fs)) {
		CHECK(r != 0 && g_n == 0 && now == g_oldb, "no checksum can be computed: error, nothing stored");
		REACH("refused");
	} else {
		CHECK(r == 0, "success");
		check_dx_chain(fs);
		CHECK(now == (IN_FIELD(g_k, DX_TAIL_OFF + 4, 4) ? SPEC_BYTE(OUT(4), g_k - (DX_TAIL_OFF + 4)) : g_oldb), "dt_checksum = le32 crc, every other byte unchanged");
		REACH("stored");
	}
	REACH("end");
}
