/* VERIF-UNIT
{
 "name": "inode_csum",
 "props": ["C14"],
 "level": "U",
 "tier": "quick",
 "harness": "h_inode_csum",
 "enforce": ["ext2fs_inode_csum"],
 "functions": ["lib/ext2fs/csum.c:ext2fs_inode_csum"],
 "assumes": ["ext2fs_crc32c_le is a logging stub returning an arbitrary value (trace contract)",
             "little-endian host (WORDS_BIGENDIAN undefined)",
             "inode size is a power of two in [128, 4096] and the buffer holds exactly that many bytes (call sites in inode.c)",
             "has_hi is only passed when the inode is larger than 128 bytes (both callers compute it that way)"],
 "native": false
}
*/
/* VERIF-UNIT
{
 "name": "inode_csum_set",
 "props": ["C14"],
 "level": "U",
 "tier": "quick",
 "harness": "h_inode_set",
 "enforce": ["ext2fs_inode_csum_set"],
 "functions": ["lib/ext2fs/csum.c:ext2fs_inode_csum_set", "lib/ext2fs/csum.c:ext2fs_inode_csum"],
 "assumes": ["ext2fs_crc32c_le is a logging stub returning an arbitrary value (trace contract)",
             "little-endian host (WORDS_BIGENDIAN undefined)",
             "inode size is a power of two in [128, 4096] and the buffer holds exactly that many bytes (call sites in inode.c)"],
 "native": false
}
*/
/* VERIF-UNIT
{
 "name": "inode_csum_verify",
 "props": ["C14"],
 "level": "U/k",
 "tier": "quick",
 "harness": "h_inode_verify",
 "enforce": ["ext2fs_inode_csum_verify"],
 "unwind": 130,
 "unwind_reason": "the only loops are the all-zero scan over the 128-byte base inode (constant sizeof(struct ext2_inode) = 128) in the code and the same scan in the spec function; unwinding assertions on",
 "functions": ["lib/ext2fs/csum.c:ext2fs_inode_csum_verify", "lib/ext2fs/csum.c:ext2fs_inode_csum"],
 "assumes": ["ext2fs_crc32c_le is a logging stub returning an arbitrary value (trace contract)",
             "little-endian host (WORDS_BIGENDIAN undefined)",
             "inode size is a power of two in [128, 4096] and the buffer holds exactly that many bytes (call sites in inode.c)"],
 "native": false
}
*/
/*
 * Format (inodes.rst / "Checksums"): with RO_COMPAT_METADATA_CSUM the inode checksum is
 *   crc32c(fs seed, le32 inode number) -> le32 i_generation (bytes 0x64..0x67 of the inode) -> the whole on-disk inode
 *   [0, s_inode_size) with l_i_checksum_lo (le16 at 0x7C) taken as zero and i_checksum_hi (le16 at 0x82) taken as zero
 *   when it exists, i.e. when s_inode_size > 128 and i_extra_isize (le16 at 0x80) >= 4.
 * Stored: low 16 bits in l_i_checksum_lo, high 16 bits in i_checksum_hi when it exists (else only 16 bits are kept).
 * e2fsprogs extension (not in the kernel): verify also accepts an inode whose first 128 bytes are all zero.
 */
#include "csum_common.h"

#define B(p) ((unsigned char *)(p))
#define IN_FIELD(k, off, n) ((k) >= (off) && (k) < (off) + (n))
#define INO_GEN		0x64
#define INO_CSUM_LO	0x7C
#define INO_EXTRA_ISIZE	0x80
#define INO_CSUM_HI	0x82
#define FEATURE_ON(fs) SPEC_HAS_METADATA_CSUM((fs)->super)
#define ISIZE(fs) SPEC_INODE_SIZE((fs)->super)
#define SPEC_HAS_HI(fs, ino) (ISIZE(fs) > 128 && SPEC_LE16(ino, INO_EXTRA_ISIZE) >= 4)
/* the byte the CRC must see at offset g_k of the inode */
#define INO_FED(has_hi) ((IN_FIELD(g_k, INO_CSUM_LO, 2) || ((has_hi) && IN_FIELD(g_k, INO_CSUM_HI, 2))) ? 0 : g_oldb)
#define INO_STORED(has_hi, crc) (IN_FIELD(g_k, INO_CSUM_LO, 2) ? SPEC_BYTE(crc, g_k - INO_CSUM_LO) : \
	((has_hi) && IN_FIELD(g_k, INO_CSUM_HI, 2)) ? SPEC_BYTE((crc) >> 16, g_k - INO_CSUM_HI) : g_oldb)

unsigned int g_has_hi;	/* ghost: SPEC_HAS_HI on entry */

static int spec_base_inode_all_zero(const unsigned char *p)
{
	for (int i = 0; i < 128; i++)
		if (p[i])
			return 0;
	return 1;
}

static errcode_t ext2fs_inode_csum(ext2_filsys fs, ext2_ino_t inum, struct ext2_inode_large *inode, __u32 *crc, int has_hi)
	REQUIRES(g_n == 0 && g_k < ISIZE(fs) && g_oldb == B(inode)[g_k])
	REQUIRES(!has_hi || ISIZE(fs) > 128)
	ASSIGNS(__CPROVER_object_whole(inode), *crc, LOG_FRAME)
	ENSURES(RET == 0 && g_n == 3 && *crc == OUT(2))
	ENSURES(CALL_VAL(0, 32, fs->csum_seed, 4, inum))
	ENSURES(CALL_VAL(1, 32, OUT(0), 4, SPEC_LE32(inode, INO_GEN)))
	ENSURES(CALL_IS(2, 32, OUT(1), inode, ISIZE(fs)))
	ENSURES(CALL_WIT(2, INO_FED(has_hi)))
	ENSURES(B(inode)[g_k] == g_oldb);

errcode_t ext2fs_inode_csum_set(ext2_filsys fs, ext2_ino_t inum, struct ext2_inode_large *inode)
	REQUIRES(g_n == 0 && g_k < ISIZE(fs) && g_oldb == B(inode)[g_k])
	REQUIRES(g_has_hi == SPEC_HAS_HI(fs, inode))
	ASSIGNS(__CPROVER_object_whole(inode), LOG_FRAME)
	ENSURES(RET == 0)
	ENSURES(FEATURE_ON(fs) || g_n == 0)
	ENSURES(FEATURE_ON(fs) || B(inode)[g_k] == g_oldb)
	ENSURES(!FEATURE_ON(fs) || g_n == 3)
	ENSURES(!FEATURE_ON(fs) || CALL_VAL(0, 32, fs->csum_seed, 4, inum))
	ENSURES(!FEATURE_ON(fs) || CALL_VAL(1, 32, OUT(0), 4, SPEC_LE32(inode, INO_GEN)))
	ENSURES(!FEATURE_ON(fs) || CALL_IS(2, 32, OUT(1), inode, ISIZE(fs)))
	ENSURES(!FEATURE_ON(fs) || CALL_WIT(2, INO_FED(g_has_hi)))
	ENSURES(!FEATURE_ON(fs) || B(inode)[g_k] == INO_STORED(g_has_hi, OUT(2)));

#define INO_PROVIDED(ino) (g_has_hi ? (SPEC_LE16(ino, INO_CSUM_LO) | (SPEC_LE16(ino, INO_CSUM_HI) << 16)) : SPEC_LE16(ino, INO_CSUM_LO))
#define INO_COMPUTED (g_has_hi ? OUT(2) : (OUT(2) & 0xFFFFu))

int ext2fs_inode_csum_verify(ext2_filsys fs, ext2_ino_t inum, struct ext2_inode_large *inode)
	REQUIRES(g_n == 0 && g_k < ISIZE(fs) && g_oldb == B(inode)[g_k])
	REQUIRES(g_has_hi == SPEC_HAS_HI(fs, inode))
	ASSIGNS(__CPROVER_object_whole(inode), LOG_FRAME)
	ENSURES(B(inode)[g_k] == g_oldb)
	ENSURES(FEATURE_ON(fs) || (g_n == 0 && RET == 1))
	ENSURES(!FEATURE_ON(fs) || g_n == 3)
	ENSURES(!FEATURE_ON(fs) || CALL_VAL(0, 32, fs->csum_seed, 4, inum))
	ENSURES(!FEATURE_ON(fs) || CALL_VAL(1, 32, OUT(0), 4, SPEC_LE32(inode, INO_GEN)))
	ENSURES(!FEATURE_ON(fs) || CALL_IS(2, 32, OUT(1), inode, ISIZE(fs)))
	ENSURES(!FEATURE_ON(fs) || CALL_WIT(2, INO_FED(g_has_hi)))
	ENSURES(!FEATURE_ON(fs) || (RET != 0) == (INO_PROVIDED(inode) == INO_COMPUTED || spec_base_inode_all_zero(B(inode))))
	ENSURES(RET == 0 || RET == 1);

static unsigned int g_isize;
static struct ext2_inode_large *build_inode(ext2_filsys fs)
{
	struct ext2_inode_large *inode;
	g_isize = ISIZE(fs);
	ASSUME(g_isize >= 128 && g_isize <= 4096 && (g_isize & (g_isize - 1)) == 0);
	inode = malloc(g_isize);	/* arbitrary content */
	ASSUME(inode != 0);
	ASSUME(g_k < g_isize);
	g_oldb = B(inode)[g_k];
	g_has_hi = SPEC_HAS_HI(fs, inode);
	return inode;
}

void h_inode_csum(void)
{
	LOAD_IN();
	ext2_filsys fs = build_fs();
	struct ext2_inode_large *inode = build_inode(fs);
	int has_hi = IN.misc[0];
	__u32 crc;
	ASSUME(!has_hi || g_isize > 128);
	unsigned int gen = SPEC_LE32(inode, INO_GEN);
	errcode_t r = ext2fs_inode_csum(fs, IN.inum, inode, &crc, has_hi);
	unsigned char now = B(inode)[g_k];
	CHECK(r == 0 && g_n == 3 && crc == OUT(2), "three crc32c calls, result is the last one");
	CHECK(CALL_VAL(0, 32, IN.csum_seed, 4, IN.inum), "first: fs seed, le32 inode number");
	CHECK(CALL_VAL(1, 32, OUT(0), 4, gen), "second: chained, le32 generation");
	CHECK(CALL_IS(2, 32, OUT(1), inode, g_isize), "third: chained, the whole inode");
	CHECK(CALL_WIT(2, INO_FED(has_hi)), "inode fed with the checksum field(s) zero, all else as is");
	CHECK(now == g_oldb, "inode restored");
	REACH("end");
}

void h_inode_set(void)
{
	LOAD_IN();
	ext2_filsys fs = build_fs();
	struct ext2_inode_large *inode = build_inode(fs);
	unsigned int gen = SPEC_LE32(inode, INO_GEN);
	errcode_t r = ext2fs_inode_csum_set(fs, IN.inum, inode);
	unsigned char now = B(inode)[g_k];
	CHECK(r == 0, "returns 0");
	if (FEATURE_ON(fs)) {
		CHECK(g_n == 3, "three crc32c calls");
		CHECK(CALL_VAL(0, 32, IN.csum_seed, 4, IN.inum), "first: fs seed, le32 inode number");
		CHECK(CALL_VAL(1, 32, OUT(0), 4, gen), "second: chained, le32 generation");
		CHECK(CALL_IS(2, 32, OUT(1), inode, g_isize), "third: chained, the whole inode");
		CHECK(CALL_WIT(2, INO_FED(g_has_hi)), "inode fed with the checksum field(s) zero, all else as is");
		CHECK(now == INO_STORED(g_has_hi, OUT(2)), "lo16 stored at 0x7C, hi16 at 0x82 iff the field exists, every other byte unchanged");
		if (g_has_hi) REACH("32-bit store"); else REACH("16-bit store");
		if (g_isize == 128) REACH("128-byte inode");
	} else {
		CHECK(g_n == 0 && now == g_oldb, "without metadata_csum nothing is computed or stored");
	}
	REACH("end");
}

void h_inode_verify(void)
{
	LOAD_IN();
	ext2_filsys fs = build_fs();
	struct ext2_inode_large *inode = build_inode(fs);
	unsigned int gen = SPEC_LE32(inode, INO_GEN);
	unsigned int provided = INO_PROVIDED(inode);
	int allzero = spec_base_inode_all_zero(B(inode));
	int r = ext2fs_inode_csum_verify(fs, IN.inum, inode);
	unsigned char now = B(inode)[g_k];
	CHECK(now == g_oldb, "verify leaves the inode as it was");
	if (FEATURE_ON(fs)) {
		CHECK(g_n == 3, "three crc32c calls");
		CHECK(CALL_VAL(0, 32, IN.csum_seed, 4, IN.inum), "first: fs seed, le32 inode number");
		CHECK(CALL_VAL(1, 32, OUT(0), 4, gen), "second: chained, le32 generation");
		CHECK(CALL_IS(2, 32, OUT(1), inode, g_isize), "third: chained, the whole inode");
		CHECK(CALL_WIT(2, INO_FED(g_has_hi)), "inode fed with the checksum field(s) zero, all else as is");
		CHECK((r != 0) == (provided == INO_COMPUTED || allzero), "verify == (stored == computed, 16 or 32 bits as the inode allows) or all-zero base inode");
		if (r == 0) REACH("mismatch detected");
		if (r && !allzero) REACH("match");
		if (r && allzero && provided != INO_COMPUTED) REACH("all-zero escape");
	} else {
		CHECK(g_n == 0 && r == 1, "without metadata_csum verify accepts without computing");
	}
	REACH("end");
}
