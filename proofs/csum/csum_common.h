/*
 * Shared by the csum.c "trace contract" units (C14; DESIGN §6 C14 "per-object checksum definitions").
 *
 * In these units ext2fs_crc32c_le / ext2fs_crc16 are NOT the real ones: they are the stubs below.  Each call
 * returns a fresh value IN.crc_out[n] (n = number of calls so far) and appends one record to the ghost call
 * log g_log[]:
 *     kind  (32 = crc32c, 16 = crc16)
 *     in    the crc argument it was called with
 *     p,len the byte range that was fed
 *     head  the first min(len,8) bytes, packed little-endian (bytes beyond len read as 0) -- used to state what
 *           a small temporary (inode number, generation, group, block number) contained, byte order included
 *     wit   the byte p[g_k] at the ghost offset g_k at the time of the call (only meaningful when g_k < len)
 *     out   the value returned
 * The stubs also assert that [p, p+len) is readable.  g_k is ONE arbitrary offset chosen by the harness before
 * the call (pointwise statement instead of a quantifier over the bytes of the object).
 *
 * The postconditions are written from the ext4 / jbd2 on-disk format documentation (kernel
 * Documentation/filesystems/ext4: "Checksums", super.rst, inodes.rst, group_descr.rst, bitmaps.rst, directory.rst,
 * ifork.rst, attributes.rst, mmp.rst, journal.rst) with numeric offsets from those tables (SPEC_* below), not from
 * the structure declarations or csum.c.
 */
#ifndef CSUM_COMMON_H
#define CSUM_COMMON_H
#include "verif.h"

struct in_csum {
	unsigned int crc_out[8];	/* results of the CRC stubs, consumed in order */
	unsigned int csum_seed, fs_flags;
	unsigned int blocksize;
	unsigned int k;			/* ghost offset */
	unsigned int inum, group;
	unsigned long long block;
	unsigned int size;
	unsigned int gen;		/* i_generation returned by the ext2fs_read_inode stub */
	unsigned char choice[4];	/* results of other stubs, consumed in order */
	unsigned int misc[4];
};
struct in_csum IN;
#include "verif_in.h"

/* ---- on-disk format constants (kernel documentation tables; all little-endian fields) ---- */
#define SPEC_RO_COMPAT_GDT_CSUM		0x0010u
#define SPEC_RO_COMPAT_METADATA_CSUM	0x0400u
#define SPEC_INCOMPAT_64BIT		0x0080u
#define SPEC_INCOMPAT_EA_INODE		0x0400u
#define SPEC_INCOMPAT_CSUM_SEED		0x2000u
#define SPEC_SB_LOG_BLOCK_SIZE		0x18
#define SPEC_SB_REV_LEVEL		0x4C
#define SPEC_SB_INODE_SIZE		0x58
#define SPEC_SB_FEATURE_INCOMPAT	0x60
#define SPEC_SB_FEATURE_RO_COMPAT	0x64
#define SPEC_SB_UUID			0x68
#define SPEC_SB_DESC_SIZE		0xFE
#define SPEC_SB_CHECKSUM_SEED		0x270
#define SPEC_SB_CHECKSUM		0x3FC
#define SPEC_LE16(b, o) ((unsigned int)((const unsigned char *)(b))[o] | ((unsigned int)((const unsigned char *)(b))[(o) + 1] << 8))
#define SPEC_LE32(b, o) (SPEC_LE16(b, o) | (SPEC_LE16(b, (o) + 2) << 16))
#define SPEC_BE32(b, o) (((unsigned int)((const unsigned char *)(b))[o] << 24) | ((unsigned int)((const unsigned char *)(b))[(o) + 1] << 16) | \
			 ((unsigned int)((const unsigned char *)(b))[(o) + 2] << 8) | (unsigned int)((const unsigned char *)(b))[(o) + 3])
#define SPEC_BE16(b, o) (((unsigned int)((const unsigned char *)(b))[o] << 8) | (unsigned int)((const unsigned char *)(b))[(o) + 1])
/* byte n (0 = least significant) of a value */
#define SPEC_BYTE(v, n) ((unsigned char)(((unsigned long long)(v)) >> (8 * (n))))
#define SPEC_HAS_METADATA_CSUM(sb) ((SPEC_LE32(sb, SPEC_SB_FEATURE_RO_COMPAT) & SPEC_RO_COMPAT_METADATA_CSUM) != 0)
#define SPEC_HAS_GDT_CSUM(sb) ((SPEC_LE32(sb, SPEC_SB_FEATURE_RO_COMPAT) & SPEC_RO_COMPAT_GDT_CSUM) != 0)
#define SPEC_HAS_64BIT(sb) ((SPEC_LE32(sb, SPEC_SB_FEATURE_INCOMPAT) & SPEC_INCOMPAT_64BIT) != 0)
/* descriptor size: 32 unless 64bit, then s_desc_size */
#define SPEC_DESC_SIZE(sb) (SPEC_HAS_64BIT(sb) ? SPEC_LE16(sb, SPEC_SB_DESC_SIZE) : 32u)
/* inode size: 128 on revision 0, else s_inode_size */
#define SPEC_INODE_SIZE(sb) (SPEC_LE32(sb, SPEC_SB_REV_LEVEL) == 0 ? 128u : SPEC_LE16(sb, SPEC_SB_INODE_SIZE))

/* ---- ghost call log ---- */
struct crc_call {
	unsigned int kind, in, out;
	const unsigned char *p;
	unsigned long len;
	unsigned long long head;
	unsigned char wit;
};
#define LOGN 6
struct crc_call g_log[LOGN];
unsigned int g_n;		/* number of CRC calls so far */
unsigned long g_k;		/* ghost offset */
unsigned char g_oldb;		/* ghost: byte of the object at g_k on entry */
unsigned int g_choice;		/* next IN.choice[] to consume */

#ifdef VERIF_NATIVE
#define VERIF_R_OK(p, n) 1
#else
#define VERIF_R_OK(p, n) __CPROVER_r_ok(p, n)
#endif

#define HEADB(i) ((unsigned long long)((i) < len ? p[i] : 0) << (8 * (i)))
static unsigned int verif_crc_stub(unsigned int kind, unsigned int crc, const unsigned char *p, unsigned long len)
{
	unsigned int n = g_n;
	CHECK(n < LOGN, "no more CRC calls than the format defines");
	CHECK(len == 0 || VERIF_R_OK(p, len), "the range fed to the CRC lies inside one live object");
	g_log[n].kind = kind;
	g_log[n].in = crc;
	g_log[n].p = p;
	g_log[n].len = len;
	g_log[n].head = HEADB(0) | HEADB(1) | HEADB(2) | HEADB(3) | HEADB(4) | HEADB(5) | HEADB(6) | HEADB(7);
	g_log[n].wit = g_k < len ? p[g_k] : 0;
	g_log[n].out = kind == 16 ? (IN.crc_out[n] & 0xFFFFu) : IN.crc_out[n];	/* crc16 returns 16 bits */
	g_n = n + 1;
	return g_log[n].out;
}

/* crc16_t is an unsigned int of which only the low 16 bits are significant (crc16.h; the real ext2fs_crc16 masks them,
 * csum.c passes ~0 = 0xFFFFFFFF as the seed): for kind 16 the incoming value is compared on its low 16 bits */
/* call i fed exactly [p_, p_+len_) starting from crc value in_ */
#define IN_EQ(i, kind_, in_) (g_log[i].kind == (kind_) && ((kind_) == 16 ? (g_log[i].in & 0xFFFFu) == ((unsigned int)(in_) & 0xFFFFu) : g_log[i].in == (unsigned int)(in_)))
#define CALL_IS(i, kind_, in_, p_, len_) (IN_EQ(i, kind_, in_) && \
	g_log[i].p == (const unsigned char *)(p_) && g_log[i].len == (unsigned long)(len_))
/* call i fed a len_-byte temporary (len_ <= 8) whose bytes are the little-endian encoding of val_ */
#define CALL_VAL(i, kind_, in_, len_, val_) (IN_EQ(i, kind_, in_) && \
	g_log[i].len == (unsigned long)(len_) && g_log[i].head == (unsigned long long)(val_))
/* at the time of call i the byte at the ghost offset was b_ (vacuous when g_k is outside the range) */
#define CALL_WIT(i, b_) (g_k >= g_log[i].len || g_log[i].wit == (unsigned char)(b_))
#define OUT(i) (g_log[i].out)
#define LOG_FRAME g_n, __CPROVER_object_whole(g_log)

#ifndef CSUM_NO_REAL_INCLUDE
#include "lib/ext2fs/csum.c"

__u32 ext2fs_crc32c_le(__u32 crc, unsigned char const *p, size_t len)
{
	return verif_crc_stub(32, crc, p, len);
}

crc16_t ext2fs_crc16(crc16_t crc, const void *buffer, unsigned int len)
{
	return (crc16_t)verif_crc_stub(16, crc, (const unsigned char *)buffer, len);
}

/* object contents (superblock, blocks, inodes, descriptors) are NOT taken from IN: copying kilobytes of symbolic
 * bytes makes the formula 20x larger; the units are therefore "native": false.
 * fs with a symbolic superblock; blocksize enumerated over {1024, 4096} */
static ext2_filsys build_fs(void)
{
	struct struct_ext2_filsys *fs = malloc(sizeof(*fs));
	struct ext2_super_block *sb = malloc(1024);
	ASSUME(fs && sb);
	memset(fs, 0, sizeof(*fs));
	/* content of *sb: arbitrary (fresh malloc'ed memory is nondeterministic for the verifier) */
	ASSUME(IN.blocksize == 1024 || IN.blocksize == 4096);
	ASSUME(SPEC_LE32(sb, SPEC_SB_LOG_BLOCK_SIZE) == (IN.blocksize == 1024 ? 0u : 2u));
	fs->super = sb;
	fs->blocksize = IN.blocksize;
	fs->csum_seed = IN.csum_seed;
	fs->flags = IN.fs_flags;
	g_n = 0; g_choice = 0;
	g_k = IN.k;
	return fs;
}
#endif
#endif
