/* VERIF-UNIT
{
 "name": "crc16_table",
 "props": ["C14"],
 "level": "U",
 "tier": "quick",
 "harness": "h_crc16_table",
 "functions": ["lib/ext2fs/crc16.c:crc16_table"],
 "assumes": [],
 "native": true
}
*/
/* VERIF-UNIT
{
 "name": "crc16",
 "props": ["C14"],
 "level": "U",
 "tier": "quick",
 "harness": "h_crc16",
 "enforce": ["ext2fs_crc16"],
 "loop_contracts": true,
 "unwind": 6,
 "unwind_reason": "the only loop of the function is closed by its in-place loop contract; the bound serves the DFCC library's write-set loops (unwinding assertions on)",
 "functions": ["lib/ext2fs/crc16.c:ext2fs_crc16"],
 "assumes": ["needs the VERIF_LOOP / VERIF_GHOST hook in lib/ext2fs/crc16.c (hooks-pending/b3.diff)",
             "the statement 'result = CRC-16/ARC of the len bytes in order' is carried by the ghost fold: verif_g1 is advanced, once per loop iteration and on the byte the code is about to consume, by the bit-by-bit definition in specs/csum_crc16_spec.h; the loop invariant ties the code's crc to it and the byte cursor / remaining length to the ghost position",
             "buffer of exactly len bytes, any len that fits one object, any alignment, content arbitrary"],
 "native": false
}
*/
/*
 * lib/ext2fs/crc16.c against the mathematical definition (specs/csum_crc16_spec.h).
 *  crc16_table: for every index i (ONE arbitrary i, no enumeration needed by the solver) the table entry equals
 *      eight bit-steps applied to i  -- the "Sarwate" table lemma.
 *  crc16: ghost registers  verif_p0 = buffer, verif_g0 = len on entry, verif_g2 = bytes consumed so far,
 *      verif_g1 = bitwise CRC-16 of buffer[0 .. verif_g2) started from the low 16 bits of the incoming crc.
 *      Post: all len bytes consumed, in order (cursor == buffer + consumed is a loop invariant), result == ghost fold;
 *      only the low 16 bits of the incoming crc matter (this is what the csum trace units rely on), and the result
 *      has no bits above 16 unless len == 0 (then the argument is returned unchanged).
 */
#include "verif.h"
struct in_crc16 {
	unsigned int crc, len, i;
	unsigned char align;
};
struct in_crc16 IN;
#include "verif_in.h"
#include "csum_crc16_spec.h"

unsigned long long verif_g0, verif_g1, verif_g2;
const unsigned char *verif_p0;

#include "crc16.h"
crc16_t ext2fs_crc16(crc16_t crc, const void *buffer, unsigned int len)
	REQUIRES(verif_p0 == (const unsigned char *)buffer && verif_g0 == len && verif_g2 == 0 && verif_g1 == (crc & 0xFFFFu))
	REQUIRES(len == 0 || __CPROVER_r_ok(buffer, len))
	ASSIGNS(verif_g1, verif_g2)
	ENSURES(verif_g2 == verif_g0)
	ENSURES((RET & 0xFFFFu) == verif_g1)
	ENSURES(len == 0 ? RET == crc : RET <= 0xFFFFu);

#include "lib/ext2fs/crc16.c"

static unsigned int spec_crc16_byte(unsigned int r, unsigned char b)
{
	r = (r ^ b) & 0xFFFFu;
	r = SPEC_CRC16_BIT(r); r = SPEC_CRC16_BIT(r); r = SPEC_CRC16_BIT(r); r = SPEC_CRC16_BIT(r);
	r = SPEC_CRC16_BIT(r); r = SPEC_CRC16_BIT(r); r = SPEC_CRC16_BIT(r); r = SPEC_CRC16_BIT(r);
	return r;
}

void h_crc16_table(void)
{
	LOAD_IN();
	unsigned int i = IN.i & 0xFFu;
	CHECK(crc16_table[i] == spec_crc16_byte(0, (unsigned char)i), "table[i] = eight bit-steps of the reflected polynomial 0xA001 applied to i");
	/* the table step used by the code equals the bitwise step for every 16-bit state and byte */
	unsigned int c = IN.crc & 0xFFFFu;
	unsigned char b = IN.align;
	CHECK((((c >> 8) & 0xFFu) ^ crc16_table[(c ^ b) & 0xFFu]) == spec_crc16_byte(c, b), "one table-driven step = the bitwise definition over one byte");
	REACH("end");
}

void h_crc16(void)
{
#ifndef VERIF_NATIVE
	LOAD_IN();
	unsigned char *obj = malloc((unsigned long)IN.len + (IN.align & 7));	/* arbitrary content */
	ASSUME(obj != 0);
	const unsigned char *buf = obj + (IN.align & 7);
	verif_p0 = buf; verif_g0 = IN.len; verif_g2 = 0; verif_g1 = IN.crc & 0xFFFFu;
	crc16_t r = ext2fs_crc16(IN.crc, buf, IN.len);
	CHECK(verif_g2 == IN.len, "exactly len bytes consumed");
	CHECK((r & 0xFFFFu) == verif_g1, "result = bitwise CRC-16 fold of the bytes consumed");
	CHECK(IN.len == 0 ? r == IN.crc : r <= 0xFFFFu, "16-bit result (argument returned as is for len 0)");
	if (IN.len > 100000 && (IN.align & 7) == 3) REACH("long unaligned buffer");
	if (IN.len == 0) REACH("empty");
	REACH("end");
#endif
}
