/* VERIF-UNIT
{
 "name": "group_desc_csum",
 "props": ["C14"],
 "level": "U",
 "tier": "quick",
 "harness": "h_gd_csum",
 "enforce": ["ext2fs_group_desc_csum"],
 "sources": ["lib/ext2fs/blknum.c"],
 "functions": ["lib/ext2fs/csum.c:ext2fs_group_desc_csum"],
 "assumes": ["ext2fs_crc32c_le / ext2fs_crc16 are logging stubs returning arbitrary values (trace contract)",
             "little-endian host (WORDS_BIGENDIAN undefined)",
             "in-memory descriptor table fs->group_desc present, 4 groups, group < 4 (the address computation is the real blknum.c:ext2fs_group_desc)",
             "descriptor size enumerated over {32 (no 64bit), 64, 128 (64bit)}"],
 "native": false
}
*/
/* VERIF-UNIT
{
 "name": "group_desc_csum_set",
 "props": ["C14"],
 "level": "U",
 "tier": "quick",
 "harness": "h_gd_set",
 "enforce": ["ext2fs_group_desc_csum_set"],
 "sources": ["lib/ext2fs/blknum.c"],
 "functions": ["lib/ext2fs/csum.c:ext2fs_group_desc_csum_set", "lib/ext2fs/csum.c:ext2fs_group_desc_csum", "lib/ext2fs/blknum.c:ext2fs_bg_checksum_set"],
 "assumes": ["ext2fs_crc32c_le / ext2fs_crc16 are logging stubs returning arbitrary values (trace contract)",
             "little-endian host (WORDS_BIGENDIAN undefined)",
             "in-memory descriptor table fs->group_desc present, 4 groups, group < 4",
             "descriptor size enumerated over {32 (no 64bit), 64, 128 (64bit)}"],
 "native": false
}
*/
/* VERIF-UNIT
{
 "name": "group_desc_csum_verify",
 "props": ["C14"],
 "level": "U",
 "tier": "quick",
 "harness": "h_gd_verify",
 "enforce": ["ext2fs_group_desc_csum_verify"],
 "sources": ["lib/ext2fs/blknum.c"],
 "functions": ["lib/ext2fs/csum.c:ext2fs_group_desc_csum_verify", "lib/ext2fs/csum.c:ext2fs_group_desc_csum", "lib/ext2fs/blknum.c:ext2fs_bg_checksum"],
 "assumes": ["ext2fs_crc32c_le / ext2fs_crc16 are logging stubs returning arbitrary values (trace contract)",
             "little-endian host (WORDS_BIGENDIAN undefined)",
             "in-memory descriptor table fs->group_desc present, 4 groups, group < 4",
             "descriptor size enumerated over {32 (no 64bit), 64, 128 (64bit)}"],
 "native": false
}
*/
/*
 * Format (group_descr.rst, "Checksums"): bg_checksum is the le16 at 0x1E of the descriptor.
 *   metadata_csum:  crc32c(fs seed, le32 group number) -> the descriptor [0, desc_size) with bg_checksum taken as 0;
 *                   the low 16 bits are stored.
 *   else gdt_csum (uninit_bg):  crc16(0xFFFF, s_uuid[16]) -> le32 group number -> descriptor [0, 0x1E) -> and, when the
 *                   64bit feature gives descriptors larger than 32 bytes, descriptor [0x20, desc_size).
 *   neither feature: no checksum is kept (set stores nothing, verify accepts).
 */
#include "csum_common.h"

#define B(p) ((unsigned char *)(p))
#define IN_FIELD(k, off, n) ((k) >= (off) && (k) < (off) + (n))
#define GD_CHECKSUM 0x1E
#define NGROUPS 4
#define MCSUM(fs) SPEC_HAS_METADATA_CSUM((fs)->super)
#define GCSUM(fs) SPEC_HAS_GDT_CSUM((fs)->super)
#define DSIZE(fs) SPEC_DESC_SIZE((fs)->super)
#define UUID(fs) (B((fs)->super) + SPEC_SB_UUID)

/* ghosts: g_desc = address of the descriptor of the group; g_k offset inside it, g_oldb its byte there on entry;
 * g_oldb2 = descriptor byte at 0x20 + g_k on entry (for the second descriptor range of the crc16 path);
 * g_j offset inside the whole table, g_oldj the byte there on entry (frame over the other descriptors) */
unsigned char *g_desc;
unsigned char g_oldb2, g_oldj;
unsigned long g_j;
unsigned int g_dsize;

#define GD_PRE(fs, group) (g_n == 0 && group < NGROUPS && g_dsize == DSIZE(fs) && \
	g_desc == B(fs->group_desc) + group * g_dsize && g_k < g_dsize && g_oldb == g_desc[g_k] && \
	(g_k + 0x20 >= g_dsize || g_oldb2 == g_desc[g_k + 0x20]) && g_j < NGROUPS * g_dsize && g_oldj == B(fs->group_desc)[g_j])

/* metadata_csum chain */
#define GD32_C0(fs, group) CALL_VAL(0, 32, fs->csum_seed, 4, group)
#define GD32_C1 (CALL_IS(1, 32, OUT(0), g_desc, g_dsize) && CALL_WIT(1, IN_FIELD(g_k, GD_CHECKSUM, 2) ? 0 : g_oldb))
/* crc16 chain */
#define GD16_N (g_dsize > 32 ? 4 : 3)
#define GD16_C0(fs) (CALL_IS(0, 16, 0xFFFFu, UUID(fs), 16) && CALL_WIT(0, UUID(fs)[g_k]))
#define GD16_C1(group) CALL_VAL(1, 16, OUT(0), 4, group)
#define GD16_C2 (CALL_IS(2, 16, OUT(1), g_desc, GD_CHECKSUM) && CALL_WIT(2, g_oldb))
#define GD16_C3 (g_dsize <= 32 || (CALL_IS(3, 16, OUT(2), g_desc + 0x20, g_dsize - 0x20) && CALL_WIT(3, g_oldb2)))
#define GD16_RES (g_dsize > 32 ? OUT(3) : OUT(2))

__u16 ext2fs_group_desc_csum(ext2_filsys fs, dgrp_t group)
	REQUIRES(GD_PRE(fs, group))
	ASSIGNS(__CPROVER_object_whole(fs->group_desc), LOG_FRAME)
	ENSURES(g_desc[g_k] == g_oldb)
	ENSURES(B(fs->group_desc)[g_j] == g_oldj)
	ENSURES(!MCSUM(fs) || (g_n == 2 && RET == (OUT(1) & 0xFFFFu)))
	ENSURES(!MCSUM(fs) || GD32_C0(fs, group))
	ENSURES(!MCSUM(fs) || GD32_C1)
	ENSURES(MCSUM(fs) || (g_n == GD16_N && RET == GD16_RES))
	ENSURES(MCSUM(fs) || GD16_C0(fs))
	ENSURES(MCSUM(fs) || GD16_C1(group))
	ENSURES(MCSUM(fs) || GD16_C2)
	ENSURES(MCSUM(fs) || GD16_C3);

#define GD_NEWB(res) (IN_FIELD(g_k, GD_CHECKSUM, 2) ? SPEC_BYTE(res, g_k - GD_CHECKSUM) : g_oldb)
#define GD_OFF(fs) ((unsigned long)(g_desc - B((fs)->group_desc)))
#define GD_NEWJ(res) (IN_FIELD(g_j, GD_OFF(fs) + GD_CHECKSUM, 2) ? SPEC_BYTE(res, g_j - GD_OFF(fs) - GD_CHECKSUM) : g_oldj)
#define G16ONLY(fs) (!MCSUM(fs) && GCSUM(fs))
#define GNONE(fs) (!MCSUM(fs) && !GCSUM(fs))

void ext2fs_group_desc_csum_set(ext2_filsys fs, dgrp_t group)
	REQUIRES(GD_PRE(fs, group))
	ASSIGNS(__CPROVER_object_whole(fs->group_desc), LOG_FRAME)
	ENSURES(!GNONE(fs) || (g_n == 0 && g_desc[g_k] == g_oldb))
	ENSURES(!MCSUM(fs) || g_n == 2)
	ENSURES(!MCSUM(fs) || GD32_C0(fs, group))
	ENSURES(!MCSUM(fs) || GD32_C1)
	ENSURES(!MCSUM(fs) || g_desc[g_k] == GD_NEWB(OUT(1) & 0xFFFFu))
	ENSURES(!G16ONLY(fs) || g_n == GD16_N)
	ENSURES(!G16ONLY(fs) || GD16_C0(fs))
	ENSURES(!G16ONLY(fs) || GD16_C1(group))
	ENSURES(!G16ONLY(fs) || GD16_C2)
	ENSURES(!G16ONLY(fs) || GD16_C3)
	ENSURES(!G16ONLY(fs) || g_desc[g_k] == GD_NEWB(GD16_RES))
	/* frame over the whole table: a byte outside this group's descriptor keeps its value */
	ENSURES((g_j >= group * g_dsize && g_j < group * g_dsize + g_dsize) || B(fs->group_desc)[g_j] == g_oldj);

int ext2fs_group_desc_csum_verify(ext2_filsys fs, dgrp_t group)
	REQUIRES(GD_PRE(fs, group))
	ASSIGNS(__CPROVER_object_whole(fs->group_desc), LOG_FRAME)
	ENSURES(g_desc[g_k] == g_oldb)
	ENSURES(B(fs->group_desc)[g_j] == g_oldj)
	ENSURES(!GNONE(fs) || (g_n == 0 && RET == 1))
	ENSURES(!MCSUM(fs) || g_n == 2)
	ENSURES(!MCSUM(fs) || GD32_C0(fs, group))
	ENSURES(!MCSUM(fs) || GD32_C1)
	ENSURES(!MCSUM(fs) || RET == (SPEC_LE16(g_desc, GD_CHECKSUM) == (OUT(1) & 0xFFFFu)))
	ENSURES(!G16ONLY(fs) || g_n == GD16_N)
	ENSURES(!G16ONLY(fs) || GD16_C0(fs))
	ENSURES(!G16ONLY(fs) || GD16_C1(group))
	ENSURES(!G16ONLY(fs) || GD16_C2)
	ENSURES(!G16ONLY(fs) || GD16_C3)
	ENSURES(!G16ONLY(fs) || RET == (SPEC_LE16(g_desc, GD_CHECKSUM) == GD16_RES));

static ext2_filsys build_gd(void)
{
	ext2_filsys fs = build_fs();
	unsigned char *tab;
	g_dsize = DSIZE(fs);
	ASSUME(SPEC_HAS_64BIT(fs->super) ? (g_dsize == 64 || g_dsize == 128) : 1);
	tab = malloc(NGROUPS * g_dsize);	/* arbitrary content */
	ASSUME(tab != 0);
	fs->group_desc = (struct opaque_ext2_group_desc *)tab;
	fs->group_desc_count = NGROUPS;
	ASSUME(IN.group < NGROUPS);
	g_desc = tab + IN.group * g_dsize;
	g_j = IN.misc[1];
	ASSUME(g_k < g_dsize && g_j < NGROUPS * g_dsize);
	g_oldb = g_desc[g_k];
	g_oldb2 = g_k + 0x20 < g_dsize ? g_desc[g_k + 0x20] : 0;
	g_oldj = tab[g_j];
	return fs;
}

static void check_chain32(ext2_filsys fs)
{
	CHECK(g_n == 2, "metadata_csum: two crc32c calls");
	CHECK(CALL_VAL(0, 32, IN.csum_seed, 4, IN.group), "first: fs seed, le32 group number");
	CHECK(GD32_C1, "second: chained, the whole descriptor with bg_checksum zero");
}

static void check_chain16(ext2_filsys fs)
{
	CHECK(g_n == GD16_N, "gdt_csum: three crc16 calls, four for descriptors larger than 32 bytes");
	CHECK(GD16_C0(fs), "first: 0xFFFF, the 16 uuid bytes");
	CHECK(GD16_C1(IN.group), "second: chained, le32 group number");
	CHECK(GD16_C2, "third: chained, descriptor up to bg_checksum");
	CHECK(GD16_C3, "fourth (large descriptors): chained, descriptor from 0x20 to its end");
}

void h_gd_csum(void)
{
	LOAD_IN();
	ext2_filsys fs = build_gd();
	__u16 r = ext2fs_group_desc_csum(fs, IN.group);
	CHECK(g_desc[g_k] == g_oldb, "descriptor restored");
	CHECK(B(fs->group_desc)[g_j] == g_oldj, "table unchanged");
	if (MCSUM(fs)) {
		check_chain32(fs);
		CHECK(r == (OUT(1) & 0xFFFFu), "low 16 bits of the crc32c");
		REACH("crc32c path");
	} else {
		check_chain16(fs);
		CHECK(r == GD16_RES, "result of the last crc16");
		if (g_dsize > 32) REACH("crc16 path, large descriptor"); else REACH("crc16 path, 32-byte descriptor");
	}
	REACH("end");
}

void h_gd_set(void)
{
	LOAD_IN();
	ext2_filsys fs = build_gd();
	ext2fs_group_desc_csum_set(fs, IN.group);
	unsigned char now = g_desc[g_k], nowj = B(fs->group_desc)[g_j];
	if (MCSUM(fs)) {
		check_chain32(fs);
		CHECK(now == GD_NEWB(OUT(1) & 0xFFFFu), "bg_checksum = le16 of the low half, descriptor otherwise unchanged");
		CHECK(nowj == GD_NEWJ(OUT(1) & 0xFFFFu), "rest of the table unchanged");
		REACH("crc32c path");
	} else if (GCSUM(fs)) {
		check_chain16(fs);
		CHECK(now == GD_NEWB(GD16_RES), "bg_checksum = le16 of the crc16, descriptor otherwise unchanged");
		CHECK(nowj == GD_NEWJ(GD16_RES), "rest of the table unchanged");
		REACH("crc16 path");
	} else {
		CHECK(g_n == 0 && now == g_oldb && nowj == g_oldj, "no checksum feature: nothing computed or stored");
		REACH("no feature");
	}
	REACH("end");
}

void h_gd_verify(void)
{
	LOAD_IN();
	ext2_filsys fs = build_gd();
	unsigned int stored = SPEC_LE16(g_desc, GD_CHECKSUM);
	int r = ext2fs_group_desc_csum_verify(fs, IN.group);
	CHECK(g_desc[g_k] == g_oldb, "descriptor unchanged");
	CHECK(B(fs->group_desc)[g_j] == g_oldj, "table unchanged");
	if (MCSUM(fs)) {
		check_chain32(fs);
		CHECK(r == (stored == (OUT(1) & 0xFFFFu)), "verify == (bg_checksum == low half of crc32c)");
		if (r) REACH("crc32c match"); else REACH("crc32c mismatch detected");
	} else if (GCSUM(fs)) {
		check_chain16(fs);
		CHECK(r == (stored == GD16_RES), "verify == (bg_checksum == crc16)");
		if (r) REACH("crc16 match"); else REACH("crc16 mismatch detected");
	} else {
		CHECK(g_n == 0 && r == 1, "no checksum feature: accepted without computing");
	}
	REACH("end");
}
