/* VERIF-UNIT
{
 "name": "extent_block_csum_verify",
 "props": ["C14"],
 "level": "U",
 "tier": "quick",
 "harness": "h_ext_verify",
 "enforce": ["ext2fs_extent_block_csum_verify"],
 "functions": ["lib/ext2fs/csum.c:ext2fs_extent_block_csum_verify", "lib/ext2fs/csum.c:ext2fs_extent_block_csum", "lib/ext2fs/csum.c:get_extent_tail"],
 "assumes": [
   "ext2fs_crc32c_le is a logging stub returning an arbitrary value (trace contract)",
   "little-endian host (WORDS_BIGENDIAN undefined)",
   "ext2fs_read_inode (inode.c) is a stub: fails with an arbitrary non-zero code or delivers an arbitrary i_generation",
   "the extent block has exactly fs->blocksize bytes, blocksize enumerated over {1024, 4096}, content arbitrary",
   "eh_max <= (blocksize - 12) / 12, i.e. the 4-byte tail behind the eh_max slots lies inside the block (every caller runs ext2fs_extent_header_verify first or builds the header itself)"
  ],
 "native": false
}
*/
/* VERIF-UNIT
{
 "name": "extent_block_csum_set",
 "props": ["C14"],
 "level": "U",
 "tier": "quick",
 "harness": "h_ext_set",
 "enforce": ["ext2fs_extent_block_csum_set"],
 "functions": ["lib/ext2fs/csum.c:ext2fs_extent_block_csum_set", "lib/ext2fs/csum.c:ext2fs_extent_block_csum", "lib/ext2fs/csum.c:get_extent_tail"],
 "assumes": [
   "ext2fs_crc32c_le is a logging stub returning an arbitrary value (trace contract)",
   "little-endian host (WORDS_BIGENDIAN undefined)",
   "ext2fs_read_inode (inode.c) is a stub: fails with an arbitrary non-zero code or delivers an arbitrary i_generation",
   "the extent block has exactly fs->blocksize bytes, blocksize enumerated over {1024, 4096}, content arbitrary",
   "eh_max <= (blocksize - 12) / 12, i.e. the 4-byte tail behind the eh_max slots lies inside the block (every caller runs ext2fs_extent_header_verify first or builds the header itself)"
  ],
 "native": false
}
*/
/* VERIF-UNIT
{
 "name": "ext_attr_block_csum_verify",
 "props": ["C14"],
 "level": "U",
 "tier": "quick",
 "harness": "h_xa_verify",
 "enforce": ["ext2fs_ext_attr_block_csum_verify"],
 "functions": ["lib/ext2fs/csum.c:ext2fs_ext_attr_block_csum_verify", "lib/ext2fs/csum.c:ext2fs_ext_attr_block_csum"],
 "assumes": [
   "ext2fs_crc32c_le is a logging stub returning an arbitrary value (trace contract)",
   "little-endian host (WORDS_BIGENDIAN undefined)",
   "the xattr block has exactly fs->blocksize bytes, blocksize enumerated over {1024, 4096}, content arbitrary"
  ],
 "native": false
}
*/
/* VERIF-UNIT
{
 "name": "ext_attr_block_csum_set",
 "props": ["C14"],
 "level": "U",
 "tier": "quick",
 "harness": "h_xa_set",
 "enforce": ["ext2fs_ext_attr_block_csum_set"],
 "functions": ["lib/ext2fs/csum.c:ext2fs_ext_attr_block_csum_set", "lib/ext2fs/csum.c:ext2fs_ext_attr_block_csum"],
 "assumes": [
   "ext2fs_crc32c_le is a logging stub returning an arbitrary value (trace contract)",
   "little-endian host (WORDS_BIGENDIAN undefined)",
   "the xattr block has exactly fs->blocksize bytes, blocksize enumerated over {1024, 4096}, content arbitrary"
  ],
 "native": false
}
*/
/* VERIF-UNIT
{
 "name": "mmp_csum_verify",
 "props": ["C14"],
 "level": "U",
 "tier": "quick",
 "harness": "h_mmp_verify",
 "enforce": ["ext2fs_mmp_csum_verify"],
 "functions": ["lib/ext2fs/csum.c:ext2fs_mmp_csum_verify", "lib/ext2fs/csum.c:ext2fs_mmp_csum"],
 "assumes": [
   "ext2fs_crc32c_le is a logging stub returning an arbitrary value (trace contract)",
   "little-endian host (WORDS_BIGENDIAN undefined)",
   "the MMP buffer has 1024 bytes (sizeof(struct mmp_struct)), content arbitrary"
  ],
 "native": false
}
*/
/* VERIF-UNIT
{
 "name": "mmp_csum_set",
 "props": ["C14"],
 "level": "U",
 "tier": "quick",
 "harness": "h_mmp_set",
 "enforce": ["ext2fs_mmp_csum_set"],
 "functions": ["lib/ext2fs/csum.c:ext2fs_mmp_csum_set", "lib/ext2fs/csum.c:ext2fs_mmp_csum"],
 "assumes": [
   "ext2fs_crc32c_le is a logging stub returning an arbitrary value (trace contract)",
   "little-endian host (WORDS_BIGENDIAN undefined)",
   "the MMP buffer has 1024 bytes (sizeof(struct mmp_struct)), content arbitrary"
  ],
 "native": false
}
*/
/* VERIF-UNIT
{
 "name": "init_csum_seed",
 "props": ["C14"],
 "level": "U",
 "tier": "quick",
 "harness": "h_seed",
 "enforce": ["ext2fs_init_csum_seed"],
 "functions": ["lib/ext2fs/csum.c:ext2fs_init_csum_seed"],
 "assumes": [
   "ext2fs_crc32c_le is a logging stub returning an arbitrary value (trace contract)",
   "little-endian host (WORDS_BIGENDIAN undefined)"
  ],
 "native": false
}
*/
/*
 * Formats ("Checksums" table and the per-structure pages of Documentation/filesystems/ext4):
 *  extent tree block (ifork.rst): header 12 bytes (eh_max = le16 at 4), eh_max 12-byte slots, then struct ext4_extent_tail
 *      {le32 eb_checksum} at 12 + 12*eh_max;  eb_checksum = crc32c(fs seed, le32 inode number) -> le32 i_generation ->
 *      block bytes [0, 12 + 12*eh_max).
 *  xattr block (attributes.rst): h_checksum = le32 at 0x10 = crc32c(fs seed, le64 block number) -> the whole block with
 *      h_checksum taken as zero.
 *  MMP block (mmp.rst): mmp_checksum = le32 at 0x3FC = crc32c(fs seed, MMP bytes [0, 0x3FC)).
 *  checksum seed (super.rst): s_checksum_seed (le32 at 0x270) when INCOMPAT_CSUM_SEED, else crc32c(~0, s_uuid[16]) when
 *      metadata_csum (e2fsprogs: or ea_inode) is enabled.
 * All only with RO_COMPAT_METADATA_CSUM: otherwise set stores nothing and verify accepts.
 */
#include "csum_common.h"

#define B(p) ((unsigned char *)(p))
#define IN_FIELD(k, off, n) ((k) >= (off) && (k) < (off) + (n))
#define BS(fs) ((fs)->blocksize)
#define MCSUM(fs) SPEC_HAS_METADATA_CSUM((fs)->super)

errcode_t g_ri_ret;
unsigned int g_ri_ino, g_ri_n;
#define STUB_FRAME g_ri_ret, g_ri_ino, g_ri_n

errcode_t ext2fs_read_inode(ext2_filsys fs, ext2_ino_t ino, struct ext2_inode *inode)
{
	g_ri_n++;
	g_ri_ino = ino;
	g_ri_ret = (IN.choice[0] & 1) ? (errcode_t)IN.misc[2] : 0;
	if (g_ri_ret)
		return g_ri_ret;
	inode->i_generation = IN.gen;	/* the other fields stay arbitrary */
	return 0;
}

/* ---------------- extent blocks ---------------- */
unsigned int g_ehmax;	/* ghost: le16 eh_max on entry */
#define EXT_TAIL (12ul + 12ul * g_ehmax)
#define EXT_PRE(fs, eh) ((BS(fs) == 1024 || BS(fs) == 4096) && g_n == 0 && g_ri_n == 0 && g_k < BS(fs) && g_oldb == B(eh)[g_k] && \
	g_ehmax == SPEC_LE16(eh, 4) && EXT_TAIL + 4 <= BS(fs))
#define EXT_OK(fs) (MCSUM(fs) && g_ri_ret == 0)
#define EXT_C0(fs, inum) (g_ri_n == 1 && g_ri_ino == inum && g_n == 3 && CALL_VAL(0, 32, fs->csum_seed, 4, inum))
#define EXT_C1 CALL_VAL(1, 32, OUT(0), 4, IN.gen)
#define EXT_C2(eh) (CALL_IS(2, 32, OUT(1), eh, EXT_TAIL) && CALL_WIT(2, g_oldb))

int ext2fs_extent_block_csum_verify(ext2_filsys fs, ext2_ino_t inum, struct ext3_extent_header *eh)
	REQUIRES(EXT_PRE(fs, eh))
	ASSIGNS(LOG_FRAME, STUB_FRAME)
	ENSURES(MCSUM(fs) || (RET == 1 && g_n == 0 && g_ri_n == 0))
	ENSURES(!(MCSUM(fs) && g_ri_ret != 0) || (RET == 0 && g_n == 0))
	ENSURES(!EXT_OK(fs) || EXT_C0(fs, inum))
	ENSURES(!EXT_OK(fs) || EXT_C1)
	ENSURES(!EXT_OK(fs) || EXT_C2(eh))
	ENSURES(!EXT_OK(fs) || RET == (SPEC_LE32(eh, EXT_TAIL) == OUT(2)));

errcode_t ext2fs_extent_block_csum_set(ext2_filsys fs, ext2_ino_t inum, struct ext3_extent_header *eh)
	REQUIRES(EXT_PRE(fs, eh))
	ASSIGNS(__CPROVER_object_whole(eh), LOG_FRAME, STUB_FRAME)
	ENSURES(MCSUM(fs) || (RET == 0 && g_n == 0 && g_ri_n == 0 && B(eh)[g_k] == g_oldb))
	ENSURES(!(MCSUM(fs) && g_ri_ret != 0) || (RET == g_ri_ret && g_n == 0 && B(eh)[g_k] == g_oldb))
	ENSURES(!EXT_OK(fs) || RET == 0)
	ENSURES(!EXT_OK(fs) || EXT_C0(fs, inum))
	ENSURES(!EXT_OK(fs) || EXT_C1)
	ENSURES(!EXT_OK(fs) || EXT_C2(eh))
	ENSURES(!EXT_OK(fs) || B(eh)[g_k] == (IN_FIELD(g_k, EXT_TAIL, 4) ? SPEC_BYTE(OUT(2), g_k - EXT_TAIL) : g_oldb));

/* ---------------- xattr blocks ---------------- */
#define XA_CSUM 0x10
#define XA_PRE(fs, hdr) ((BS(fs) == 1024 || BS(fs) == 4096) && g_n == 0 && g_k < BS(fs) && g_oldb == B(hdr)[g_k])
#define XA_C0(fs, block) (g_n == 2 && CALL_VAL(0, 32, fs->csum_seed, 8, block))
#define XA_C1(fs, hdr) (CALL_IS(1, 32, OUT(0), hdr, BS(fs)) && CALL_WIT(1, IN_FIELD(g_k, XA_CSUM, 4) ? 0 : g_oldb))

int ext2fs_ext_attr_block_csum_verify(ext2_filsys fs, ext2_ino_t inum, blk64_t block, struct ext2_ext_attr_header *hdr)
	REQUIRES(XA_PRE(fs, hdr))
	ASSIGNS(__CPROVER_object_whole(hdr), LOG_FRAME)
	ENSURES(B(hdr)[g_k] == g_oldb)
	ENSURES(MCSUM(fs) || (RET == 1 && g_n == 0))
	ENSURES(!MCSUM(fs) || XA_C0(fs, block))
	ENSURES(!MCSUM(fs) || XA_C1(fs, hdr))
	ENSURES(!MCSUM(fs) || RET == (SPEC_LE32(hdr, XA_CSUM) == OUT(1)));

errcode_t ext2fs_ext_attr_block_csum_set(ext2_filsys fs, ext2_ino_t inum, blk64_t block, struct ext2_ext_attr_header *hdr)
	REQUIRES(XA_PRE(fs, hdr))
	ASSIGNS(__CPROVER_object_whole(hdr), LOG_FRAME)
	ENSURES(RET == 0)
	ENSURES(MCSUM(fs) || (g_n == 0 && B(hdr)[g_k] == g_oldb))
	ENSURES(!MCSUM(fs) || XA_C0(fs, block))
	ENSURES(!MCSUM(fs) || XA_C1(fs, hdr))
	ENSURES(!MCSUM(fs) || B(hdr)[g_k] == (IN_FIELD(g_k, XA_CSUM, 4) ? SPEC_BYTE(OUT(1), g_k - XA_CSUM) : g_oldb));

/* ---------------- MMP ---------------- */
#define MMP_CSUM 0x3FC
#define MMP_PRE(mmp) (g_n == 0 && g_k < 1024 && g_oldb == B(mmp)[g_k])
#define MMP_CHAIN(fs, mmp) (g_n == 1 && CALL_IS(0, 32, fs->csum_seed, mmp, MMP_CSUM) && CALL_WIT(0, g_oldb))

int ext2fs_mmp_csum_verify(ext2_filsys fs, struct mmp_struct *mmp)
	REQUIRES(MMP_PRE(mmp))
	ASSIGNS(LOG_FRAME)
	ENSURES(MCSUM(fs) || (RET == 1 && g_n == 0))
	ENSURES(!MCSUM(fs) || MMP_CHAIN(fs, mmp))
	ENSURES(!MCSUM(fs) || RET == (SPEC_LE32(mmp, MMP_CSUM) == OUT(0)));

errcode_t ext2fs_mmp_csum_set(ext2_filsys fs, struct mmp_struct *mmp)
	REQUIRES(MMP_PRE(mmp))
	ASSIGNS(mmp->mmp_checksum, LOG_FRAME)
	ENSURES(RET == 0)
	ENSURES(MCSUM(fs) || (g_n == 0 && B(mmp)[g_k] == g_oldb))
	ENSURES(!MCSUM(fs) || MMP_CHAIN(fs, mmp))
	ENSURES(!MCSUM(fs) || B(mmp)[g_k] == (IN_FIELD(g_k, MMP_CSUM, 4) ? SPEC_BYTE(OUT(0), g_k - MMP_CSUM) : g_oldb));

/* ---------------- checksum seed ---------------- */
#define SEED_FROM_SB(fs) ((SPEC_LE32((fs)->super, SPEC_SB_FEATURE_INCOMPAT) & SPEC_INCOMPAT_CSUM_SEED) != 0)
#define SEED_FROM_UUID(fs) (!SEED_FROM_SB(fs) && (MCSUM(fs) || (SPEC_LE32((fs)->super, SPEC_SB_FEATURE_INCOMPAT) & SPEC_INCOMPAT_EA_INODE) != 0))
unsigned int g_oldseed;
void ext2fs_init_csum_seed(ext2_filsys fs)
	REQUIRES(g_n == 0 && g_k < 16 && g_oldseed == fs->csum_seed)
	ASSIGNS(fs->csum_seed, LOG_FRAME)
	ENSURES(!SEED_FROM_SB(fs) || (g_n == 0 && fs->csum_seed == SPEC_LE32(fs->super, SPEC_SB_CHECKSUM_SEED)))
	ENSURES(!SEED_FROM_UUID(fs) || (g_n == 1 && fs->csum_seed == OUT(0)))
	ENSURES(!SEED_FROM_UUID(fs) || (CALL_IS(0, 32, 0xFFFFFFFFu, B(fs->super) + SPEC_SB_UUID, 16) && CALL_WIT(0, B(fs->super)[SPEC_SB_UUID + g_k])))
	ENSURES(SEED_FROM_SB(fs) || SEED_FROM_UUID(fs) || (g_n == 0 && fs->csum_seed == g_oldseed));

/* ---------------- harnesses ---------------- */
static unsigned char *g_blk;
static ext2_filsys build_blk(unsigned long size)
{
	ext2_filsys fs = build_fs();
	g_blk = malloc(size ? size : fs->blocksize);	/* arbitrary content */
	ASSUME(g_blk != 0);
	ASSUME(g_k < (size ? size : fs->blocksize));
	ASSUME(!(IN.choice[0] & 1) || IN.misc[2] != 0);
	g_oldb = g_blk[g_k];
	g_ri_n = 0; g_ri_ret = 0;
	return fs;
}

static void check_ext_chain(void)
{
	CHECK(g_ri_n == 1 && g_ri_ino == IN.inum, "generation read from the owning inode");
	CHECK(g_n == 3 && CALL_VAL(0, 32, IN.csum_seed, 4, IN.inum), "first: fs seed, le32 inode number");
	CHECK(EXT_C1, "second: chained, le32 generation");
	CHECK(EXT_C2(g_blk), "third: chained, block [0, 12 + 12*eh_max), as is");
}

void h_ext_verify(void)
{
	LOAD_IN();
	ext2_filsys fs = build_blk(0);
	g_ehmax = SPEC_LE16(g_blk, 4);
	ASSUME(EXT_TAIL + 4 <= fs->blocksize);
	unsigned int stored = SPEC_LE32(g_blk, EXT_TAIL);
	int r = ext2fs_extent_block_csum_verify(fs, IN.inum, (struct ext3_extent_header *)g_blk);
	CHECK(g_blk[g_k] == g_oldb, "block untouched");
	if (!MCSUM(fs)) {
		CHECK(r == 1 && g_n == 0, "without metadata_csum verify accepts without computing");
	} else if (g_ri_ret != 0) {
		CHECK(r == 0 && g_n == 0, "inode unreadable: not verified");
		REACH("read_inode failed");
	} else {
		check_ext_chain();
		CHECK(r == (stored == OUT(2)), "verify == (le32 eb_checksum == crc)");
		if (r) REACH("match"); else REACH("mismatch detected");
		if (EXT_TAIL + 4 == fs->blocksize) REACH("tail at the very end of the block");
	}
	REACH("end");
}

void h_ext_set(void)
{
	LOAD_IN();
	ext2_filsys fs = build_blk(0);
	g_ehmax = SPEC_LE16(g_blk, 4);
	ASSUME(EXT_TAIL + 4 <= fs->blocksize);
	errcode_t r = ext2fs_extent_block_csum_set(fs, IN.inum, (struct ext3_extent_header *)g_blk);
	unsigned char now = g_blk[g_k];
	if (!MCSUM(fs)) {
		CHECK(r == 0 && g_n == 0 && now == g_oldb, "without metadata_csum nothing is computed or stored");
	} else if (g_ri_ret != 0) {
		CHECK(r == g_ri_ret && g_n == 0 && now == g_oldb, "inode unreadable: error, nothing stored");
		REACH("read_inode failed");
	} else {
		CHECK(r == 0, "success");
		check_ext_chain();
		CHECK(now == (IN_FIELD(g_k, EXT_TAIL, 4) ? SPEC_BYTE(OUT(2), g_k - EXT_TAIL) : g_oldb), "eb_checksum = le32 crc, every other byte unchanged");
		REACH("stored");
	}
	REACH("end");
}

void h_xa_verify(void)
{
	LOAD_IN();
	ext2_filsys fs = build_blk(0);
	unsigned int stored = SPEC_LE32(g_blk, XA_CSUM);
	int r = ext2fs_ext_attr_block_csum_verify(fs, IN.inum, IN.block, (struct ext2_ext_attr_header *)g_blk);
	CHECK(g_blk[g_k] == g_oldb, "block as it was (h_checksum restored)");
	if (!MCSUM(fs)) {
		CHECK(r == 1 && g_n == 0, "without metadata_csum verify accepts without computing");
	} else {
		CHECK(g_n == 2 && CALL_VAL(0, 32, IN.csum_seed, 8, IN.block), "first: fs seed, le64 block number");
		CHECK(XA_C1(fs, g_blk), "second: chained, the whole block with h_checksum zero");
		CHECK(r == (stored == OUT(1)), "verify == (le32 h_checksum == crc)");
		if (r) REACH("match"); else REACH("mismatch detected");
	}
	REACH("end");
}

void h_xa_set(void)
{
	LOAD_IN();
	ext2_filsys fs = build_blk(0);
	errcode_t r = ext2fs_ext_attr_block_csum_set(fs, IN.inum, IN.block, (struct ext2_ext_attr_header *)g_blk);
	unsigned char now = g_blk[g_k];
	CHECK(r == 0, "returns 0");
	if (!MCSUM(fs)) {
		CHECK(g_n == 0 && now == g_oldb, "without metadata_csum nothing is computed or stored");
	} else {
		CHECK(g_n == 2 && CALL_VAL(0, 32, IN.csum_seed, 8, IN.block), "first: fs seed, le64 block number");
		CHECK(XA_C1(fs, g_blk), "second: chained, the whole block with h_checksum zero");
		CHECK(now == (IN_FIELD(g_k, XA_CSUM, 4) ? SPEC_BYTE(OUT(1), g_k - XA_CSUM) : g_oldb), "h_checksum = le32 crc, every other byte unchanged");
		REACH("stored");
	}
	REACH("end");
}

void h_mmp_verify(void)
{
	LOAD_IN();
	ext2_filsys fs = build_blk(1024);
	unsigned int stored = SPEC_LE32(g_blk, MMP_CSUM);
	int r = ext2fs_mmp_csum_verify(fs, (struct mmp_struct *)g_blk);
	CHECK(g_blk[g_k] == g_oldb, "MMP block untouched");
	if (!MCSUM(fs)) {
		CHECK(r == 1 && g_n == 0, "without metadata_csum verify accepts without computing");
	} else {
		CHECK(g_n == 1 && CALL_IS(0, 32, IN.csum_seed, g_blk, MMP_CSUM), "one crc32c call: fs seed, MMP bytes [0, 0x3FC)");
		CHECK(CALL_WIT(0, g_oldb), "fed as is");
		CHECK(r == (stored == OUT(0)), "verify == (le32 mmp_checksum == crc)");
		if (r) REACH("match"); else REACH("mismatch detected");
	}
	REACH("end");
}

void h_mmp_set(void)
{
	LOAD_IN();
	ext2_filsys fs = build_blk(1024);
	errcode_t r = ext2fs_mmp_csum_set(fs, (struct mmp_struct *)g_blk);
	unsigned char now = g_blk[g_k];
	CHECK(r == 0, "returns 0");
	if (!MCSUM(fs)) {
		CHECK(g_n == 0 && now == g_oldb, "without metadata_csum nothing is computed or stored");
	} else {
		CHECK(g_n == 1 && CALL_IS(0, 32, IN.csum_seed, g_blk, MMP_CSUM), "one crc32c call: fs seed, MMP bytes [0, 0x3FC)");
		CHECK(CALL_WIT(0, g_oldb), "fed as is");
		CHECK(now == (IN_FIELD(g_k, MMP_CSUM, 4) ? SPEC_BYTE(OUT(0), g_k - MMP_CSUM) : g_oldb), "mmp_checksum = le32 crc, every other byte unchanged");
		REACH("stored");
	}
	REACH("end");
}

void h_seed(void)
{
	LOAD_IN();
	ext2_filsys fs = build_fs();
	ASSUME(g_k < 16);
	g_oldseed = fs->csum_seed;
	unsigned char u = B(fs->super)[SPEC_SB_UUID + g_k];
	ext2fs_init_csum_seed(fs);
	if (SEED_FROM_SB(fs)) {
		CHECK(g_n == 0 && fs->csum_seed == SPEC_LE32(fs->super, SPEC_SB_CHECKSUM_SEED), "csum_seed feature: the stored s_checksum_seed");
		REACH("from superblock");
	} else if (SEED_FROM_UUID(fs)) {
		CHECK(g_n == 1 && fs->csum_seed == OUT(0), "seed = crc32c of the uuid");
		CHECK(CALL_IS(0, 32, 0xFFFFFFFFu, B(fs->super) + SPEC_SB_UUID, 16) && CALL_WIT(0, u), "one crc32c call: ~0, the 16 uuid bytes");
		REACH("from uuid");
	} else {
		CHECK(g_n == 0 && fs->csum_seed == g_oldseed, "no checksum feature: seed untouched");
		REACH("untouched");
	}
	REACH("end");
}
