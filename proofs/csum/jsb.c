/* VERIF-UNIT
{
 "name": "journal_sb_csum_verify",
 "props": ["C14", "C03"],
 "level": "U",
 "tier": "quick",
 "harness": "h_jsb_verify",
 "enforce": ["e2fsck_journal_sb_csum_verify"],
 "includes": ["e2fsck"],
 "functions": ["e2fsck/journal.c:e2fsck_journal_sb_csum_verify", "e2fsck/journal.c:e2fsck_journal_sb_csum"],
 "assumes": [
   "ext2fs_crc32c_le is a logging stub returning an arbitrary value (trace contract)",
   "little-endian host (WORDS_BIGENDIAN undefined)",
   "jsb is the 1024-byte journal superblock buffer, content arbitrary; it may or may not be the same object as j->j_superblock",
   "j_format_version 1 or 2"
  ],
 "native": false
}
*/
/* VERIF-UNIT
{
 "name": "journal_sb_csum_set",
 "props": ["C14", "C03"],
 "level": "U",
 "tier": "quick",
 "harness": "h_jsb_set",
 "enforce": ["e2fsck_journal_sb_csum_set"],
 "includes": ["e2fsck"],
 "functions": ["e2fsck/journal.c:e2fsck_journal_sb_csum_set", "e2fsck/journal.c:e2fsck_journal_sb_csum"],
 "assumes": [
   "ext2fs_crc32c_le is a logging stub returning an arbitrary value (trace contract)",
   "little-endian host (WORDS_BIGENDIAN undefined)",
   "jsb is the 1024-byte journal superblock buffer, content arbitrary; it may or may not be the same object as j->j_superblock",
   "j_format_version 1 or 2"
  ],
 "native": false
}
*/
/*
 * Format (journal.rst "Super Block"): s_checksum = be32 at 0xFC = crc32c(~0, the 1024-byte journal superblock with
 * s_checksum taken as zero); present iff version-2 superblock with CSUM_V2 (0x8) or CSUM_V3 (0x10) in s_feature_incompat (be32 at 0x28).
 */
#define CSUM_NO_REAL_INCLUDE
#include "csum_common.h"
#include "jfs_user.h"

#define B(p) ((unsigned char *)(p))
#define IN_FIELD(k, off, n) ((k) >= (off) && (k) < (off) + (n))
#define JSB_INCOMPAT 0x28
#define JSB_CSUM 0xFC
#define J_CSUM(j) ((j)->j_format_version >= 2 && (SPEC_BE32((j)->j_superblock, JSB_INCOMPAT) & 0x18u) != 0)
#define JSB_PRE(j, jsb) ((j->j_format_version == 1 || j->j_format_version == 2) && g_n == 0 && g_k < 1024 && g_oldb == B(jsb)[g_k])
#define JSB_CHAIN(jsb) (g_n == 1 && CALL_IS(0, 32, 0xFFFFFFFFu, jsb, 1024) && CALL_WIT(0, IN_FIELD(g_k, JSB_CSUM, 4) ? 0 : g_oldb))
/* big-endian store: byte 0 of the field is the most significant */
#define JSB_NEWB (IN_FIELD(g_k, JSB_CSUM, 4) ? SPEC_BYTE(OUT(0), 3 - (g_k - JSB_CSUM)) : g_oldb)

unsigned int g_on;	/* ghost: J_CSUM(j) on entry (set may not change it, but jsb may be j->j_superblock) */

static int e2fsck_journal_sb_csum_verify(journal_t *j, journal_superblock_t *jsb)
	REQUIRES(JSB_PRE(j, jsb))
	ASSIGNS(__CPROVER_object_whole(jsb), LOG_FRAME)
	ENSURES(B(jsb)[g_k] == g_oldb)
	ENSURES(J_CSUM(j) || (RET == 1 && g_n == 0))
	ENSURES(!J_CSUM(j) || JSB_CHAIN(jsb))
	ENSURES(!J_CSUM(j) || RET == (SPEC_BE32(jsb, JSB_CSUM) == OUT(0)));

static errcode_t e2fsck_journal_sb_csum_set(journal_t *j, journal_superblock_t *jsb)
	REQUIRES(JSB_PRE(j, jsb) && g_on == J_CSUM(j))
	ASSIGNS(__CPROVER_object_whole(jsb), LOG_FRAME)
	ENSURES(RET == 0)
	ENSURES(g_on == J_CSUM(j))
	ENSURES(g_on || (g_n == 0 && B(jsb)[g_k] == g_oldb))
	ENSURES(!g_on || JSB_CHAIN(jsb))
	ENSURES(!g_on || B(jsb)[g_k] == JSB_NEWB);

#include "e2fsck/journal.c"

__u32 ext2fs_crc32c_le(__u32 crc, unsigned char const *p, size_t len)
{
	return verif_crc_stub(32, crc, p, len);
}

static journal_t *g_j;
static journal_superblock_t *g_jsb;
static void build_jsb(void)
{
	LOAD_IN();
	g_j = malloc(sizeof(*g_j));
	journal_superblock_t *jsb = malloc(1024);	/* arbitrary content */
	ASSUME(g_j && jsb);
	memset(g_j, 0, sizeof(*g_j));
	g_j->j_superblock = jsb;
	ASSUME(IN.misc[0] == 1 || IN.misc[0] == 2);
	g_j->j_format_version = IN.misc[0];
	if (IN.choice[0] & 1) {
		g_jsb = jsb;
	} else {
		g_jsb = malloc(1024);			/* arbitrary content */
		ASSUME(g_jsb != 0);
	}
	g_n = 0; g_k = IN.k;
	ASSUME(g_k < 1024);
	g_oldb = B(g_jsb)[g_k];
	g_on = J_CSUM(g_j);
}

void h_jsb_verify(void)
{
	build_jsb();
	unsigned int stored = SPEC_BE32(g_jsb, JSB_CSUM);
	int r = e2fsck_journal_sb_csum_verify(g_j, g_jsb);
	unsigned char now = B(g_jsb)[g_k];
	CHECK(now == g_oldb, "journal superblock as it was (s_checksum restored)");
	if (!g_on) {
		CHECK(r == 1 && g_n == 0, "no v2/v3 checksums: accepted without computing");
	} else {
		CHECK(JSB_CHAIN(g_jsb), "one crc32c call: seed ~0, the 1024 bytes with s_checksum zero");
		CHECK(r == (stored == OUT(0)), "verify == (be32 s_checksum == crc)");
		if (r) REACH("match"); else REACH("mismatch detected");
	}
	REACH("end");
}

void h_jsb_set(void)
{
	build_jsb();
	errcode_t r = e2fsck_journal_sb_csum_set(g_j, g_jsb);
	unsigned char now = B(g_jsb)[g_k];
	CHECK(r == 0, "returns 0");
	if (!g_on) {
		CHECK(g_n == 0 && now == g_oldb, "no v2/v3 checksums: nothing computed or stored");
	} else {
		CHECK(JSB_CHAIN(g_jsb), "one crc32c call: seed ~0, the 1024 bytes with s_checksum zero");
		CHECK(now == JSB_NEWB, "s_checksum = be32 crc, every other byte unchanged");
		REACH("stored");
	}
	REACH("end");
}
