/* VERIF-UNIT
{
 "name": "superblock_csum_set",
 "props": ["C14"],
 "level": "U",
 "tier": "quick",
 "harness": "h_sb_set",
 "enforce": ["ext2fs_superblock_csum_set"],
 "functions": ["lib/ext2fs/csum.c:ext2fs_superblock_csum_set", "lib/ext2fs/csum.c:ext2fs_superblock_csum"],
 "assumes": ["ext2fs_crc32c_le is a logging stub returning an arbitrary value (trace contract: which bytes, which seed, which order; the CRC primitive itself is the crc32c units' business)",
             "little-endian host (WORDS_BIGENDIAN undefined)",
             "sb is either fs->super or a separate 1024-byte buffer"],
 "native": false
}
*/
/* VERIF-UNIT
{
 "name": "superblock_csum_verify",
 "props": ["C14"],
 "level": "U",
 "tier": "quick",
 "harness": "h_sb_verify",
 "enforce": ["ext2fs_superblock_csum_verify"],
 "functions": ["lib/ext2fs/csum.c:ext2fs_superblock_csum_verify", "lib/ext2fs/csum.c:ext2fs_superblock_csum"],
 "assumes": ["ext2fs_crc32c_le is a logging stub returning an arbitrary value (trace contract)",
             "little-endian host (WORDS_BIGENDIAN undefined)",
             "sb is either fs->super or a separate 1024-byte buffer"],
 "native": false
}
*/
/*
 * Format (super.rst, "Checksums"): s_checksum (le32 at 0x3FC) = crc32c(~0, superblock bytes [0, 0x3FC)); only when
 * RO_COMPAT_METADATA_CSUM is set.  The seed is ~0, NOT the per-filesystem seed.
 */
#include "csum_common.h"

#define B(p) ((unsigned char *)(p))
#define SB_FEATURE_ON(fs) SPEC_HAS_METADATA_CSUM((fs)->super)
#define SB_CHAIN(sb) (g_n == 1 && CALL_IS(0, 32, 0xFFFFFFFFu, sb, SPEC_SB_CHECKSUM) && CALL_WIT(0, g_oldb))
#define IN_FIELD(k, off, n) ((k) >= (off) && (k) < (off) + (n))

/* NOTE (CBMC): keep every clause small -- a conjunction chaining many dereferences of a pointer that may designate
 * two objects makes the formula 15x larger; hence one ENSURES per fact. */
#define SB_NEWBYTE (IN_FIELD(g_k, SPEC_SB_CHECKSUM, 4) ? SPEC_BYTE(OUT(0), g_k - SPEC_SB_CHECKSUM) : g_oldb)

errcode_t ext2fs_superblock_csum_set(ext2_filsys fs, struct ext2_super_block *sb)
	REQUIRES(g_n == 0 && g_k < 1024 && g_oldb == B(sb)[g_k])
	ASSIGNS(sb->s_checksum, LOG_FRAME)
	ENSURES(RET == 0)
	ENSURES(SB_FEATURE_ON(fs) || g_n == 0)
	ENSURES(SB_FEATURE_ON(fs) || B(sb)[g_k] == g_oldb)
	ENSURES(!SB_FEATURE_ON(fs) || SB_CHAIN(sb))
	ENSURES(!SB_FEATURE_ON(fs) || B(sb)[g_k] == SB_NEWBYTE);

int ext2fs_superblock_csum_verify(ext2_filsys fs, struct ext2_super_block *sb)
	REQUIRES(g_n == 0 && g_k < 1024 && g_oldb == B(sb)[g_k])
	ASSIGNS(LOG_FRAME)
	ENSURES(B(sb)[g_k] == g_oldb)
	ENSURES(SB_FEATURE_ON(fs) || (g_n == 0 && RET == 1))
	ENSURES(!SB_FEATURE_ON(fs) || SB_CHAIN(sb))
	ENSURES(!SB_FEATURE_ON(fs) || RET == (SPEC_LE32(sb, SPEC_SB_CHECKSUM) == OUT(0)));

static struct ext2_super_block *pick_sb(ext2_filsys fs)
{
	struct ext2_super_block *sb;
	if (IN.choice[0] & 1)
		return fs->super;
	sb = malloc(1024);
	ASSUME(sb != 0);
	return sb;
}

void h_sb_set(void)
{
	LOAD_IN();
	ext2_filsys fs = build_fs();
	struct ext2_super_block *sb = pick_sb(fs);
	ASSUME(g_k < 1024);
	g_oldb = B(sb)[g_k];
	int on = SB_FEATURE_ON(fs);
	errcode_t r = ext2fs_superblock_csum_set(fs, sb);
	unsigned char now = B(sb)[g_k];
	CHECK(r == 0, "superblock_csum_set returns 0");
	CHECK(on == SB_FEATURE_ON(fs), "feature word not changed");
	if (on) {
		CHECK(SB_CHAIN(sb), "one crc32c call: seed ~0, bytes sb[0..0x3FC) unmodified");
		CHECK(now == SB_NEWBYTE, "s_checksum = le32 of the crc, every other byte unchanged");
		REACH("feature on");
	} else {
		CHECK(g_n == 0 && now == g_oldb, "without metadata_csum nothing is computed or stored");
	}
	REACH("end");
}

void h_sb_verify(void)
{
	LOAD_IN();
	ext2_filsys fs = build_fs();
	struct ext2_super_block *sb = pick_sb(fs);
	ASSUME(g_k < 1024);
	g_oldb = B(sb)[g_k];
	int r = ext2fs_superblock_csum_verify(fs, sb);
	unsigned char now = B(sb)[g_k];
	unsigned int stored = SPEC_LE32(sb, SPEC_SB_CHECKSUM);
	CHECK(now == g_oldb, "verify does not modify the superblock");
	if (SB_FEATURE_ON(fs)) {
		CHECK(SB_CHAIN(sb), "one crc32c call: seed ~0, bytes sb[0..0x3FC)");
		CHECK(r == (stored == OUT(0)), "verify == (le32 s_checksum == crc)");
		if (r == 0) REACH("mismatch detected");
		if (r == 1) REACH("match");
	} else {
		CHECK(g_n == 0 && r == 1, "without metadata_csum verify accepts without computing");
	}
	REACH("end");
}
