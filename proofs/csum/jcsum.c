/* VERIF-UNIT
{
 "name": "jbd2_descriptor_block_csum_verify",
 "props": ["C14", "C03"],
 "level": "U",
 "tier": "quick",
 "harness": "h_desc",
 "enforce": ["jbd2_descriptor_block_csum_verify"],
 "includes": ["e2fsck"],
 "functions": ["e2fsck/recovery.c:jbd2_descriptor_block_csum_verify"],
 "assumes": [
   "ext2fs_crc32c_le is a logging stub returning an arbitrary value (trace contract)",
   "little-endian host (WORDS_BIGENDIAN undefined)",
   "journal block buffer of exactly j_blocksize bytes, j_blocksize enumerated over {1024, 4096}, content arbitrary",
   "journal superblock (1024 bytes) arbitrary; j_format_version 1 or 2 (the only values the journal load routines produce)"
  ],
 "native": false
}
*/
/* VERIF-UNIT
{
 "name": "jbd2_commit_block_csum_verify",
 "props": ["C14", "C03"],
 "level": "U",
 "tier": "quick",
 "harness": "h_commit",
 "enforce": ["jbd2_commit_block_csum_verify"],
 "includes": ["e2fsck"],
 "functions": ["e2fsck/recovery.c:jbd2_commit_block_csum_verify"],
 "assumes": [
   "ext2fs_crc32c_le is a logging stub returning an arbitrary value (trace contract)",
   "little-endian host (WORDS_BIGENDIAN undefined)",
   "journal block buffer of exactly j_blocksize bytes, j_blocksize enumerated over {1024, 4096}, content arbitrary",
   "journal superblock (1024 bytes) arbitrary; j_format_version 1 or 2 (the only values the journal load routines produce)"
  ],
 "native": false
}
*/
/* VERIF-UNIT
{
 "name": "jbd2_block_tag_csum_verify",
 "props": ["C14", "C03"],
 "level": "U",
 "tier": "quick",
 "harness": "h_tag",
 "enforce": ["jbd2_block_tag_csum_verify"],
 "includes": ["e2fsck"],
 "functions": ["e2fsck/recovery.c:jbd2_block_tag_csum_verify"],
 "assumes": [
   "ext2fs_crc32c_le is a logging stub returning an arbitrary value (trace contract)",
   "little-endian host (WORDS_BIGENDIAN undefined)",
   "journal block buffer of exactly j_blocksize bytes, j_blocksize enumerated over {1024, 4096}, content arbitrary",
   "journal superblock (1024 bytes) arbitrary; j_format_version 1 or 2 (the only values the journal load routines produce)",
   "tag / tag3 point to one 16-byte tag slot (both views of the same bytes, as in do_one_pass)"
  ],
 "native": false
}
*/
/*
 * Format (journal.rst, jbd2 checksum v2 / v3; all journal fields big-endian):
 *  checksums exist iff the journal superblock is version 2 and s_feature_incompat (be32 at 0x28) has CSUM_V2 (0x8) or CSUM_V3 (0x10).
 *  descriptor (and revoke) block: struct jbd2_journal_block_tail {be32 t_checksum} in the last 4 bytes of the block;
 *      t_checksum = crc32c(journal seed, the whole block with t_checksum taken as zero).
 *  commit block: h_chksum[0] = be32 at 0x10 = crc32c(journal seed, the whole block with h_chksum[0] taken as zero).
 *  data block tag: crc32c(journal seed, be32 transaction sequence) -> the j_blocksize bytes of the logged block;
 *      v3: all 32 bits, be32 at offset 12 of the 16-byte tag3;  v2: the low 16 bits, be16 at offset 4 of the tag.
 */
#define CSUM_NO_REAL_INCLUDE
#include "csum_common.h"
#include "jfs_user.h"

#define B(p) ((unsigned char *)(p))
#define IN_FIELD(k, off, n) ((k) >= (off) && (k) < (off) + (n))
#define JSB_INCOMPAT 0x28
#define J_V2 0x8u
#define J_V3 0x10u
#define J_HAS(j, bits) ((j)->j_format_version >= 2 && (SPEC_BE32((j)->j_superblock, JSB_INCOMPAT) & (bits)) != 0)
#define J_CSUM(j) J_HAS(j, J_V2 | J_V3)
#define JBS(j) ((unsigned long)(j)->j_blocksize)
#define SPEC_BSWAP32(v) ((((v) & 0xFFu) << 24) | (((v) & 0xFF00u) << 8) | (((v) >> 8) & 0xFF00u) | (((v) >> 24) & 0xFFu))

#define J_PRE(j, buf) ((j->j_blocksize == 1024 || j->j_blocksize == 4096) && (j->j_format_version == 1 || j->j_format_version == 2) && \
	g_n == 0 && g_k < JBS(j) && g_oldb == B(buf)[g_k])
/* whole-block checksum with a 4-byte big-endian field at off taken as zero */
#define J_BLOCK_CHAIN(j, buf, off) (g_n == 1 && CALL_IS(0, 32, j->j_csum_seed, buf, JBS(j)) && CALL_WIT(0, IN_FIELD(g_k, off, 4) ? 0 : g_oldb))

static int jbd2_descriptor_block_csum_verify(journal_t *j, void *buf)
	REQUIRES(J_PRE(j, buf))
	ASSIGNS(__CPROVER_object_whole(buf), LOG_FRAME)
	ENSURES(B(buf)[g_k] == g_oldb)
	ENSURES(J_CSUM(j) || (RET == 1 && g_n == 0))
	ENSURES(!J_CSUM(j) || J_BLOCK_CHAIN(j, buf, JBS(j) - 4))
	ENSURES(!J_CSUM(j) || RET == (SPEC_BE32(buf, JBS(j) - 4) == OUT(0)));

static int jbd2_commit_block_csum_verify(journal_t *j, void *buf)
	REQUIRES(J_PRE(j, buf))
	ASSIGNS(__CPROVER_object_whole(buf), LOG_FRAME)
	ENSURES(B(buf)[g_k] == g_oldb)
	ENSURES(J_CSUM(j) || (RET == 1 && g_n == 0))
	ENSURES(!J_CSUM(j) || J_BLOCK_CHAIN(j, buf, 0x10))
	ENSURES(!J_CSUM(j) || RET == (SPEC_BE32(buf, 0x10) == OUT(0)));

static int jbd2_block_tag_csum_verify(journal_t *j, journal_block_tag_t *tag, journal_block_tag3_t *tag3, void *buf, __u32 sequence)
	REQUIRES(J_PRE(j, buf))
	ASSIGNS(LOG_FRAME)
	ENSURES(J_CSUM(j) || (RET == 1 && g_n == 0))
	ENSURES(!J_CSUM(j) || (g_n == 2 && CALL_VAL(0, 32, j->j_csum_seed, 4, SPEC_BSWAP32(sequence))))
	ENSURES(!J_CSUM(j) || (CALL_IS(1, 32, OUT(0), buf, JBS(j)) && CALL_WIT(1, g_oldb)))
	ENSURES(!J_HAS(j, J_V3) || RET == (SPEC_BE32(tag3, 12) == OUT(1)))
	ENSURES(!(J_CSUM(j) && !J_HAS(j, J_V3)) || RET == (SPEC_BE16(tag, 4) == (OUT(1) & 0xFFFFu)));

#include "e2fsck/recovery.c"

__u32 ext2fs_crc32c_le(__u32 crc, unsigned char const *p, size_t len)
{
	return verif_crc_stub(32, crc, p, len);
}

static journal_t *g_j;
static unsigned char *g_buf;
static void build_journal(void)
{
	LOAD_IN();
	g_j = malloc(sizeof(*g_j));
	journal_superblock_t *jsb = malloc(1024);	/* arbitrary content */
	ASSUME(g_j && jsb);
	memset(g_j, 0, sizeof(*g_j));
	g_j->j_superblock = jsb;
	ASSUME(IN.blocksize == 1024 || IN.blocksize == 4096);
	ASSUME(IN.misc[0] == 1 || IN.misc[0] == 2);
	g_j->j_blocksize = IN.blocksize;
	g_j->j_format_version = IN.misc[0];
	g_j->j_csum_seed = IN.csum_seed;
	g_buf = malloc(IN.blocksize);			/* arbitrary content */
	ASSUME(g_buf != 0);
	g_n = 0; g_k = IN.k;
	ASSUME(g_k < IN.blocksize);
	g_oldb = g_buf[g_k];
}

void h_desc(void)
{
	build_journal();
	unsigned int stored = SPEC_BE32(g_buf, IN.blocksize - 4);
	int r = jbd2_descriptor_block_csum_verify(g_j, g_buf);
	CHECK(g_buf[g_k] == g_oldb, "block as it was (t_checksum restored)");
	if (!J_CSUM(g_j)) {
		CHECK(r == 1 && g_n == 0, "no v2/v3 checksums: accepted without computing");
		if (g_j->j_format_version == 1) REACH("v1 superblock ignores feature bits");
	} else {
		CHECK(g_n == 1 && CALL_IS(0, 32, IN.csum_seed, g_buf, IN.blocksize), "one crc32c call: journal seed, the whole block");
		CHECK(CALL_WIT(0, IN_FIELD(g_k, IN.blocksize - 4, 4) ? 0 : g_oldb), "fed with the tail checksum zero, all else as is");
		CHECK(r == (stored == OUT(0)), "verify == (be32 t_checksum == crc)");
		if (r) REACH("match"); else REACH("mismatch detected");
	}
	REACH("end");
}

void h_commit(void)
{
	build_journal();
	unsigned int stored = SPEC_BE32(g_buf, 0x10);
	int r = jbd2_commit_block_csum_verify(g_j, g_buf);
	CHECK(g_buf[g_k] == g_oldb, "block as it was (h_chksum[0] restored)");
	if (!J_CSUM(g_j)) {
		CHECK(r == 1 && g_n == 0, "no v2/v3 checksums: accepted without computing");
	} else {
		CHECK(g_n == 1 && CALL_IS(0, 32, IN.csum_seed, g_buf, IN.blocksize), "one crc32c call: journal seed, the whole block");
		CHECK(CALL_WIT(0, IN_FIELD(g_k, 0x10, 4) ? 0 : g_oldb), "fed with h_chksum[0] zero, all else as is");
		CHECK(r == (stored == OUT(0)), "verify == (be32 h_chksum[0] == crc)");
		if (r) REACH("match"); else REACH("mismatch detected");
	}
	REACH("end");
}

void h_tag(void)
{
	build_journal();
	unsigned char *tag = malloc(16);		/* arbitrary content */
	ASSUME(tag != 0);
	unsigned int stored32 = SPEC_BE32(tag, 12), stored16 = SPEC_BE16(tag, 4);
	int r = jbd2_block_tag_csum_verify(g_j, (journal_block_tag_t *)tag, (journal_block_tag3_t *)tag, g_buf, IN.misc[1]);
	CHECK(g_buf[g_k] == g_oldb, "data block untouched");
	if (!J_CSUM(g_j)) {
		CHECK(r == 1 && g_n == 0, "no v2/v3 checksums: accepted without computing");
	} else {
		CHECK(g_n == 2 && CALL_VAL(0, 32, IN.csum_seed, 4, SPEC_BSWAP32(IN.misc[1])), "first: journal seed, be32 transaction sequence");
		CHECK(CALL_IS(1, 32, OUT(0), g_buf, IN.blocksize) && CALL_WIT(1, g_oldb), "second: chained, the logged block as is");
		if (J_HAS(g_j, J_V3)) {
			CHECK(r == (stored32 == OUT(1)), "v3: verify == (be32 at tag+12 == crc)");
			if (r) REACH("v3 match"); else REACH("v3 mismatch detected");
		} else {
			CHECK(r == (stored16 == (OUT(1) & 0xFFFFu)), "v2: verify == (be16 at tag+4 == low 16 bits of crc)");
			if (r) REACH("v2 match"); else REACH("v2 mismatch detected");
		}
	}
	REACH("end");
}
