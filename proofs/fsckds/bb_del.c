/* VERIF-UNIT
{
 "name": "bb_u32_list_del",
 "props": [
  "C02",
  "C06"
 ],
 "level": "U",
 "tier": "quick",
 "harness": "h_bb_del",
 "enforce": [
  "ext2fs_u32_list_del"
 ],
 "replace": [
  "ext2fs_u32_list_find"
 ],
 "loop_contracts": true,
 "defines": [
  "EXT2_CUSTOM_MEMORY_ROUTINES"
 ],
 "unwind": 10,
 "unwind_reason": "no loop of the real code is unwound (in-place loop contract); 10 covers the loops of the contract-instrumentation library",
 "functions": [
  "lib/ext2fs/badblocks.c:ext2fs_u32_list_del"
 ],
 "assumes": [
  "num <= size <= 2^30 (int fields)",
  "well_formed enters as instances (see bb_common.h); ext2fs_u32_list_find is replaced by its contract (proved by bb_u32_list_find)",
  "needs the loop anchors of hooks-pending/ds.diff in lib/ext2fs/badblocks.c"
 ],
 "native": false,
 "tier_after_hooks": "quick"
}
*/
/*
 * lib/ext2fs/badblocks.c:ext2fs_u32_list_del — removal: find, then shift the tail down by one.
 *
 * Statement (set semantics, arbitrary ghost key K, arbitrary ghost index G): returns 0 iff blk was a member; then
 * member'(K) == (member(K) && K != blk), num' == num - 1 and the list stays well-formed (the entry at G is the old one in
 * front of the removed position and the old entry G+1 from there on); returns -1 otherwise and nothing changes.
 */
#define VERIF_INV_U32_LIST_DEL_SHIFT \
	__CPROVER_assigns(i, __CPROVER_object_whole(bb->list)) \
	__CPROVER_loop_invariant(0 <= remloc && remloc <= i && i <= bb->num - 1) \
	__CPROVER_loop_invariant(bb_gG >= (unsigned long long) bb->num || \
		bb->list[bb_gG] == ((bb_gG >= (unsigned long long) remloc && bb_gG < (unsigned long long) i) ? bb_oGp1 : bb_oG)) \
	__CPROVER_loop_invariant(bb_gG + 1 >= (unsigned long long) bb->num || bb_gG + 1 < (unsigned long long) i || \
				 bb->list[bb_gG + 1] == bb_oGp1) \
	__CPROVER_decreases(bb->num - 1 - i)
#include "bb_common.h"

int bb_gM;	/* ghost input: member(K) in the pre-state */
#define BB_QK (bb_gPK - ((bb_gExA && bb_gA < bb_gK) ? 1 : 0))

int ext2fs_u32_list_del(ext2_u32_list bb, __u32 blk)
	REQUIRES(BB_PRE(bb, blk, bb_gM))
	ASSIGNS(bb->num, __CPROVER_object_whole(bb->list))
	ENSURES((RET == 0 && bb_gExA) || (RET == -1 && !bb_gExA))
	ENSURES(RET != 0 ==> (bb->num == bb_gNum0 && BB_POST_OK(bb, bb_gPK, bb_gM)))
	ENSURES(RET == 0 ==> (bb->num == bb_gNum0 - 1 && BB_POST_OK(bb, BB_QK, bb_gM && bb_gK != bb_gA)));

void h_bb_del(void)
{
	LOAD_IN();
	ASSUME(IN.size >= 1 && IN.size <= BB_CAP && IN.num >= 0 && IN.num <= IN.size);
	BB.list = malloc((unsigned long) IN.size * sizeof(__u32));
	ASSUME(BB.list != 0);
	BB.magic = EXT2_ET_MAGIC_BADBLOCKS_LIST;
	BB.num = IN.num;
	BB.size = IN.size;
	BB.badblocks_flags = 0;
	bb_gA = IN.a; bb_gPA = IN.pa;
	bb_gK = IN.k; bb_gPK = IN.pk;
	bb_gG = IN.g;
	bb_oG = IN.og; bb_oGm1 = IN.ogm1; bb_oGp1 = IN.ogp1;
	bb_gNum0 = IN.num;
	bb_gExA = IN.exa;
	bb_gM = IN.m;
	ext2fs_u32_list_del(&BB, IN.a);
	if (IN.num > 4 && IN.pa == 1 && IN.exa && IN.g == 2 && IN.k > IN.a)
		REACH("remove from the middle");
	if (IN.num > 2 && IN.pa == (unsigned) IN.num - 1 && IN.exa)
		REACH("remove the last");
	if (!IN.exa)
		REACH("not a member");
	if (IN.num == 0)
		REACH("empty");
	REACH("end");
}
