/* VERIF-UNIT
{
 "name": "icount_list_get",
 "props": [
  "C02",
  "C01"
 ],
 "level": "U",
 "tier": "quick",
 "harness": "h_icl_get",
 "enforce": [
  "get_inode_count"
 ],
 "loop_contracts": true,
 "defines": [
  "EXT2_CUSTOM_MEMORY_ROUTINES",
  "ICL_GET"
 ],
 "unwind": 10,
 "unwind_reason": "no loop of the real code is unwound (in-place loop contract on the binary search); 10 covers the loops of the contract-instrumentation library",
 "functions": [
  "lib/ext2fs/icount.c:get_inode_count",
  "lib/ext2fs/icount.c:get_icount_el"
 ],
 "assumes": [
  "sorted-list mode (fullmap == NULL, tdb == NULL); count <= size <= 2^30 entries (the real code indexes with int)",
  "well_formed (strictly ascending inode numbers) is a universally quantified precondition; it enters as INSTANCES: at the lower bounds of the operation inode and of the ghost inode, at the ghost index and its predecessor, at the last entry, at the cursor, at last_lookup, and at every entry the binary search probes (ghost statement VERIF_GHOST_GET_ICOUNT_EL_PROBE = assume of the instance at mid; the list is not written by the search)",
  "needs the anchors of hooks-pending/ds.diff in lib/ext2fs/icount.c"
 ],
 "native": false,
 "tier_after_hooks": "quick"
}
*/
/* VERIF-UNIT
{
 "name": "icount_list_set_room",
 "props": [
  "C02",
  "C01"
 ],
 "level": "U",
 "tier": "quick",
 "harness": "h_icl_set",
 "enforce": [
  "set_inode_count"
 ],
 "loop_contracts": true,
 "defines": [
  "EXT2_CUSTOM_MEMORY_ROUTINES",
  "ICL_SET",
  "ICL_SCEN_ROOM"
 ],
 "unwind": 10,
 "unwind_reason": "no loop of the real code is unwound (in-place loop contract on the binary search); 10 covers the loops of the contract-instrumentation library",
 "functions": [
  "lib/ext2fs/icount.c:set_inode_count",
  "lib/ext2fs/icount.c:get_icount_el",
  "lib/ext2fs/icount.c:insert_icount_el"
 ],
 "assumes": [
  "as icount_list_get; scenario 'room': count < size (the resize is unreachable: obligation); count == size is icount_list_set_grow",
  "memmove of the list by a ghost-index specification (C standard semantics at the ghost index, rest of the object havocked)"
 ],
 "native": false,
 "tier_after_hooks": "quick"
}
*/
/* VERIF-UNIT
{
 "name": "icount_list_set_grow",
 "props": [
  "C02",
  "C01"
 ],
 "level": "U",
 "tier": "quick",
 "harness": "h_icl_set",
 "enforce": [
  "set_inode_count"
 ],
 "loop_contracts": true,
 "defines": [
  "EXT2_CUSTOM_MEMORY_ROUTINES",
  "ICL_SET",
  "ICL_SCEN_GROW"
 ],
 "unwind": 10,
 "unwind_reason": "no loop of the real code is unwound (in-place loop contract on the binary search); 10 covers the loops of the contract-instrumentation library",
 "functions": [
  "lib/ext2fs/icount.c:set_inode_count",
  "lib/ext2fs/icount.c:get_icount_el",
  "lib/ext2fs/icount.c:insert_icount_el"
 ],
 "assumes": [
  "as icount_list_get; scenario 'grow': count == size; the new size is whatever insert_icount_el computes (float estimate from the last inode number, at least size + 100)",
  "realloc / memmove of the list by ghost-index specifications (C standard semantics at the ghost index; realloc may fail)",
  "1 <= every inode number <= num_inodes (the public operations check this before they reach the list); the float -> unsigned conversion of the size estimate is in range for num_inodes < 2^31 (see report: for num_inodes close to 2^32 the conversion of 4294967296.0f is undefined)"
 ],
 "native": false,
 "tier_after_hooks": "quick"
}
*/
/*
 * lib/ext2fs/icount.c — the sorted list (ino, count) behind get_inode_count / set_inode_count: get_icount_el (cursor
 * short-cut + binary search) and insert_icount_el (last_lookup short-cut, grow, memmove of the tail).
 *
 * LIST VIEW at an arbitrary ghost inode K:  listview(K) = (P < count && list[P].ino == K) ? list[P].count : 0.
 *   get_inode_count(A)     reports listview(A) (0 and ENOENT when A has no entry); writes only the cursor
 *   set_inode_count(A, c)  listview'(K) = (K == A ? c : listview(K)); the list stays well-formed, gains at most the entry
 *                          of A; can fail (EXT2_ET_NO_MEMORY) only when A has no entry, and then nothing changes.
 * These are the contracts the unit icount_ops uses with "listview(K)" abstracted to a ghost variable.
 */
#include "verif.h"
#include "fsckds_sorted.h"
struct in_icl {
	unsigned int count, size, cursor, num_inodes;
	unsigned int a, k, c;
	unsigned long long pa, pk, i, ll;
	unsigned int v0;
	unsigned char exa, has_ll;
};
struct in_icl IN;
#include "verif_in.h"

#include "config.h"
#include <string.h>
#include <stdlib.h>
#include <errno.h>
long ext2fs_get_mem(unsigned long size, void *ptr);
long ext2fs_free_mem(void *ptr);
long ext2fs_resize_mem(unsigned long old_size, unsigned long size, void *ptr);
void *icl_memmove(void *dst, const void *src, size_t n);
#define memmove icl_memmove

unsigned long long icl_gA, icl_gPA, icl_gK, icl_gPK, icl_gI, icl_gLL;
unsigned int icl_gV, icl_gCount0;
int icl_gExA;
#define ICL_CAP (1u << 30)
#define ICL_NONE (~0ULL)

#define ICL_EXA (icl_gPA < icount->count && icount->list[icl_gPA].ino == ino)
#define VERIF_INV_GET_ICOUNT_EL \
	__CPROVER_assigns(low, high, mid, icount->cursor) \
	__CPROVER_loop_invariant(0 <= low && high >= -1 && (high < 0 || (unsigned) high < icount->count) && low <= high + 1) \
	__CPROVER_loop_invariant((unsigned long long) low <= icl_gPA && icl_gPA <= (unsigned long long) (high + 1)) \
	__CPROVER_loop_invariant(!ICL_EXA || (high >= 0 && icl_gPA <= (unsigned long long) high)) \
	__CPROVER_loop_invariant(icount->cursor == __CPROVER_loop_entry(icount->cursor)) \
	__CPROVER_decreases(high - low + 1)
#define VERIF_GHOST_GET_ICOUNT_EL_PROBE \
	__CPROVER_assume(FSCKDS_PART(icount->list[mid].ino, (unsigned long long) mid, (unsigned long long) icount->count, (unsigned long long) ino, icl_gPA));
#define VERIF_GHOST_ICOUNT_EL \
	if (el) { \
		__CPROVER_assert(icl_gPA < icount->count && el == &icount->list[icl_gPA], \
				 "get_icount_el returns the entry at the lower bound of the inode number"); \
		el = &icount->list[icl_gPA]; \
	}

#include "lib/ext2fs/icount.c"

static struct ext2_icount IC;

long ext2fs_get_mem(unsigned long size, void *ptr) { (void) size; (void) ptr; return EXT2_ET_NO_MEMORY; }
long ext2fs_free_mem(void *ptr) { void **pp = (void **) ptr; free(*pp); *pp = 0; return 0; }
/* ghost-index specifications of realloc / memmove on the list (see ea_common.h): the entries at I (realloc: and I-1) are carried */
long ext2fs_resize_mem(unsigned long old_size, unsigned long size, void *ptr)
{
	struct ext2_icount_el **pp = (struct ext2_icount_el **) ptr, *old = *pp, *new;
	struct ext2_icount_el keep0, keep1;
	unsigned long long nold = old_size / sizeof(*old), nnew = size / sizeof(*old);
	int in0 = icl_gI < nold && icl_gI < nnew, in1 = icl_gI >= 1 && icl_gI - 1 < nold && icl_gI - 1 < nnew;

#ifdef ICL_SCEN_ROOM
	__CPROVER_assert(0, "scenario 'room': the list is never resized");
	__CPROVER_assume(0);
#endif
	__CPROVER_assert(__CPROVER_r_ok(old, old_size), "realloc: old_size bytes of the old list are allocated");
	__CPROVER_assert(size % sizeof(*old) == 0 && size >= old_size, "realloc: whole entries, the list only grows");
	if (in0)
		keep0 = old[icl_gI];
	if (in1)
		keep1 = old[icl_gI - 1];
	new = malloc(nnew * sizeof(struct ext2_icount_el));
	if (!new)
		return EXT2_ET_NO_MEMORY;
	if (in0)
		new[icl_gI] = keep0;
	if (in1)
		new[icl_gI - 1] = keep1;
	free(old);
	*pp = new;
	return 0;
}
void *icl_memmove(void *dst, const void *src, size_t n)
{
	struct ext2_icount_el *base = IC.list;
	struct ext2_icount_el keep;
	unsigned long long d0, s0, cnt = n / sizeof(*base), total = __CPROVER_OBJECT_SIZE(dst) / sizeof(*base);
	int in = icl_gI < total;

	__CPROVER_assert(__CPROVER_r_ok(src, n) && __CPROVER_w_ok(dst, n), "memmove: source readable, destination writable for n bytes");
	__CPROVER_assert(__CPROVER_same_object(dst, base) && __CPROVER_same_object(dst, src) && n % sizeof(*base) == 0 &&
			 __CPROVER_POINTER_OFFSET(dst) % sizeof(*base) == 0 && __CPROVER_POINTER_OFFSET(src) % sizeof(*base) == 0,
			 "memmove: moves whole entries inside the list");
	d0 = __CPROVER_POINTER_OFFSET(dst) / sizeof(*base);
	s0 = __CPROVER_POINTER_OFFSET(src) / sizeof(*base);
	if (in)
		keep = base[(icl_gI >= d0 && icl_gI < d0 + cnt) ? icl_gI - d0 + s0 : icl_gI];
	__CPROVER_havoc_object(base);
	if (in)
		base[icl_gI] = keep;
	return dst;
}

/* ---------------------------------------------------------------- spec functions (each entry read once) */
#define ICL_PART2(k, i, n) (FSCKDS_PART(k, i, n, icl_gA, icl_gPA) && FSCKDS_PART(k, i, n, icl_gK, icl_gPK))
static int ICL_PRE(const struct ext2_icount *ic, ext2_ino_t ino)
{
	unsigned long long n = ic->count, i, k;
	int ok = 1;

	if (!(ic->fullmap == 0 && ic->tdb == 0 && ic->list != 0 && ic->count <= ic->size && ic->size >= 1 && ic->size <= ICL_CAP))
		return 0;
	if (!(ino == icl_gA && ic->count == icl_gCount0 && icl_gPA <= n && icl_gPK <= n))
		return 0;
	if (!(ic->num_inodes >= 1 && ic->num_inodes < (1u << 31) && ino >= 1 && ino <= ic->num_inodes))
		return 0;
	if (icl_gPA < n) {
		k = ic->list[icl_gPA].ino;
		ok = ok && ICL_PART2(k, icl_gPA, n) && (icl_gExA != 0) == (k == icl_gA);
	} else
		ok = ok && icl_gExA == 0;
	if (icl_gPK < n) {
		k = ic->list[icl_gPK].ino;
		ok = ok && ICL_PART2(k, icl_gPK, n) && icl_gV == (k == icl_gK ? ic->list[icl_gPK].count : 0);
	} else
		ok = ok && icl_gV == 0;
	i = icl_gI;
	if (i < n) {
		k = ic->list[i].ino;
		ok = ok && ICL_PART2(k, i, n);
	}
	i = icl_gI - 1;
	if (icl_gI >= 1 && i < n) {
		k = ic->list[i].ino;
		ok = ok && ICL_PART2(k, i, n);
	}
	if (n >= 1) {
		i = n - 1;
		k = ic->list[i].ino;
		ok = ok && ICL_PART2(k, i, n) && k >= 1 && k <= ic->num_inodes;	/* entries are valid inode numbers */
		i = ic->cursor >= ic->count ? 0 : ic->cursor;
		k = ic->list[i].ino;
		ok = ok && ICL_PART2(k, i, n);
	}
	/* last_lookup: NULL or an entry of the list */
	if (icl_gLL == ICL_NONE)
		ok = ok && ic->last_lookup == 0;
	else {
		ok = ok && icl_gLL < n && ic->last_lookup == &ic->list[icl_gLL];
		if (icl_gLL < n) {
			k = ic->list[icl_gLL].ino;
			ok = ok && ICL_PART2(k, icl_gLL, n);
		}
	}
	return ok;
}
static int ICL_POST_OK(const struct ext2_icount *ic, unsigned long long QK, unsigned int V)
{
	unsigned long long n = ic->count, i = icl_gI, k;

	if (!(ic->list != 0 && ic->count <= ic->size && QK <= n))
		return 0;
	if (QK == n && V != 0)
		return 0;
	if (i < n) {
		k = ic->list[i].ino;
		if (!FSCKDS_PART(k, i, n, icl_gK, QK))
			return 0;
		if (i == QK && V != (k == icl_gK ? ic->list[i].count : 0))
			return 0;
	}
	return 1;
}
#define ICL_ADDED(ic) ((ic)->count == icl_gCount0 + 1)
#define ICL_QK(ic) (icl_gPK + ((ICL_ADDED(ic) && icl_gA < icl_gK) ? 1 : 0))

#ifdef ICL_GET
static errcode_t get_inode_count(ext2_icount_t icount, ext2_ino_t ino, __u32 *count)
	REQUIRES(ICL_PRE(icount, ino))
	ASSIGNS(*count, icount->cursor)
	ENSURES((RET == 0 && icl_gExA) || (RET == ENOENT && !icl_gExA && *count == 0))
	ENSURES(icl_gK == icl_gA ==> *count == icl_gV)
	ENSURES(icount->count == icl_gCount0 && ICL_POST_OK(icount, icl_gPK, icl_gV));
#endif
#ifdef ICL_SET
static errcode_t set_inode_count(ext2_icount_t icount, ext2_ino_t ino, __u32 count)
	REQUIRES(ICL_PRE(icount, ino) && icount->count < ICL_CAP)
	ASSIGNS(icount->cursor, icount->count, icount->size, icount->list, icount->last_lookup, __CPROVER_object_whole(icount->list))
	__CPROVER_frees(icount->list)
	ENSURES(RET == 0 || RET == EXT2_ET_NO_MEMORY)
	ENSURES(RET == 0 ==> ((icl_gExA ? icount->count == icl_gCount0 : ICL_ADDED(icount)) &&
			      ICL_POST_OK(icount, ICL_QK(icount), icl_gK == icl_gA ? count : icl_gV)))
	ENSURES(RET != 0 ==> (!icl_gExA && icount->count == icl_gCount0 && ICL_POST_OK(icount, icl_gPK, icl_gV)));
#endif

static void build(void)
{
	LOAD_IN();
	ASSUME(IN.size >= 1 && IN.size <= ICL_CAP && IN.count <= IN.size);
	memset(&IC, 0, sizeof(IC));
	IC.magic = EXT2_ET_MAGIC_ICOUNT;
	IC.list = malloc((unsigned long) IN.size * sizeof(struct ext2_icount_el));
	ASSUME(IC.list != 0);
	IC.count = IN.count;
	IC.size = IN.size;
	IC.cursor = IN.cursor;
	IC.num_inodes = IN.num_inodes;
	icl_gLL = IN.has_ll ? IN.ll : ICL_NONE;
	ASSUME(!IN.has_ll || IN.ll < IN.count);
	IC.last_lookup = IN.has_ll ? &IC.list[IN.ll] : 0;
	icl_gA = IN.a; icl_gPA = IN.pa;
	icl_gK = IN.k; icl_gPK = IN.pk;
	icl_gI = IN.i;
	icl_gV = IN.v0;
	icl_gExA = IN.exa;
	icl_gCount0 = IN.count;
#if defined(ICL_SCEN_ROOM)
	ASSUME(IN.count < IN.size);
#elif defined(ICL_SCEN_GROW)
	ASSUME(IN.count == IN.size);
#endif
}

void h_icl_get(void)
{
#ifdef ICL_GET
	__u32 out;

	build();
	get_inode_count(&IC, IN.a, &out);
	if (IN.count > 3 && IN.exa && IN.pa == 1 && IN.cursor != 1)
		REACH("found by binary search");
	if (IN.count > 3 && !IN.exa)
		REACH("no entry");
	if (IN.count == 0)
		REACH("empty");
	REACH("end");
#endif
}

void h_icl_set(void)
{
#ifdef ICL_SET
	build();
	set_inode_count(&IC, IN.a, IN.c);
	if (IN.count > 3 && !IN.exa && IN.pa == 1 && IN.k > IN.a)
		REACH("insert in the middle");
	if (!IN.exa && IN.pa == IN.count)
		REACH("append");
	if (IN.count > 3 && IN.exa)
		REACH("existing entry");
	REACH("end");
#endif
}
