/* VERIF-UNIT
{
 "name": "icount_ops",
 "props": [
  "C02",
  "C01"
 ],
 "level": "U",
 "tier": "quick",
 "harness": "h_ic_op",
 "replace": [
  "get_inode_count",
  "set_inode_count"
 ],
 "defines": [
  "EXT2_CUSTOM_MEMORY_ROUTINES"
 ],
 "unwind": 10,
 "unwind_reason": "loop-free; 10 covers the loops of the contract-instrumentation library",
 "functions": [
  "lib/ext2fs/icount.c:ext2fs_icount_fetch",
  "lib/ext2fs/icount.c:ext2fs_icount_increment",
  "lib/ext2fs/icount.c:ext2fs_icount_decrement",
  "lib/ext2fs/icount.c:ext2fs_icount_store"
 ],
 "assumes": [
  "in-memory mode without full map (fullmap == NULL, tdb == NULL): 'single' bitmap, optional 'multiple' bitmap, sorted list",
  "the two bitmaps are stubs over a ghost set: exact for the ghost inode K, arbitrary answers for every other inode",
  "get_inode_count / set_inode_count (same file) are replaced by contracts over the ghost 'list view of K' (count the sorted list holds for K, 0 if it has no entry): get reports it; set(ino, c) makes it c for ino == K and leaves it alone otherwise, and can fail (EXT2_ET_NO_MEMORY) only when ino has no entry, changing nothing.  These are the statements the units icount_list_* prove about the real get_icount_el / insert_icount_el with the list view spelled out on the real list",
  "counts are 32-bit in the list; u32 wrap-around of a count is not excluded (would need 2^32 directory entries for one inode)"
 ],
 "native": false
}
*/
/* VERIF-UNIT
{
 "name": "icount_updown",
 "props": [
  "C02",
  "C01"
 ],
 "level": "U",
 "tier": "quick",
 "harness": "h_ic_updown",
 "replace": [
  "get_inode_count",
  "set_inode_count"
 ],
 "defines": [
  "EXT2_CUSTOM_MEMORY_ROUTINES"
 ],
 "unwind": 10,
 "unwind_reason": "loop-free (seven calls written out); 10 covers the loops of the contract-instrumentation library",
 "cbmc_flags": [
  "--object-bits",
  "10"
 ],
 "functions": [
  "lib/ext2fs/icount.c:ext2fs_icount_increment",
  "lib/ext2fs/icount.c:ext2fs_icount_decrement",
  "lib/ext2fs/icount.c:ext2fs_icount_fetch"
 ],
 "assumes": [
  "as icount_ops; allocation never fails in this walk (set_inode_count's failure case is covered by icount_ops); other inodes are touched between the steps only through the stubs' arbitrary answers"
 ],
 "native": false
}
*/
/*
 * lib/ext2fs/icount.c — the inode link-count container pass 1 fills with i_links_count (inode_link_info) and pass 2
 * increments once per directory entry (inode_count); pass 4 compares the two (C02: "link counts equal the number of
 * directory references").
 *
 * ABSTRACT VIEW: a map ino -> count (32-bit), observed at ONE arbitrary ghost inode K:
 *        count32(K) = single(K) ? 1 : (multiple bitmap exists && !multiple(K)) ? 0 : listview(K)
 * ("single" has priority: the list may hold a stale entry for an inode whose count is 1 — the real code relies on that).
 * The interface reports counts saturated to 16 bits:  xlate(c) = c > 65500 ? 65500 : c   (independent definition).
 * Operations on inode A (1 <= A <= num_inodes), from ANY state of the three representations (no invariant is needed
 * between them — checked here, not assumed):
 *   fetch      reports xlate(count32(A)); no view changes
 *   increment  count32(A) += 1, reports xlate of the new count; EXT2_ET_NO_MEMORY: no view changes
 *   decrement  count32(A) == 0: EXT2_ET_INVALID_ARGUMENT, nothing changes; otherwise -= 1, reports xlate of the new count
 *   store(c)   count32(A) = c (16-bit argument); EXT2_ET_NO_MEMORY: no view changes
 *   A == 0 or A > num_inodes: EXT2_ET_INVALID_ARGUMENT; wrong magic: EXT2_ET_MAGIC_ICOUNT; nothing changes
 *   the count of every OTHER inode is unchanged (K != A).
 * icount_updown: starting from count 0, three increments report 1, 2, 3 and three decrements 2, 1, 0, a fourth fails.
 */
#include "verif.h"
#define IC_NCHOICE 24
struct in_ic {
	unsigned int num_inodes, a, k;
	unsigned int lv;		/* list view of K */
	unsigned char s, m, has_m;	/* bits of K in the two bitmaps, does 'multiple' exist */
	unsigned char op, retnull, magic_bad;
	unsigned short c;
	unsigned char choice[IC_NCHOICE];
};
struct in_ic IN;
#include "verif_in.h"

#include "config.h"
#include <string.h>
#include <stdlib.h>
#include <errno.h>
long ext2fs_get_mem(unsigned long size, void *ptr);
long ext2fs_get_memzero(unsigned long size, void *ptr);
long ext2fs_free_mem(void *ptr);
long ext2fs_resize_mem(unsigned long old_size, unsigned long size, void *ptr);

unsigned int ic_gK;	/* ghost inode */
unsigned int ic_gLV;	/* ghost: count the sorted list holds for K (0: no entry) */
int ic_s, ic_m;		/* ghost: bit of K in 'single' / 'multiple' */
unsigned int ic_nchoice;

#include "lib/ext2fs/icount.c"

static errcode_t get_inode_count(ext2_icount_t icount, ext2_ino_t ino, __u32 *count)
	REQUIRES(icount->fullmap == 0 && icount->tdb == 0)
	ASSIGNS(*count, icount->cursor)
	ENSURES(RET == 0 || (RET == ENOENT && *count == 0))
	ENSURES(ino == ic_gK ==> *count == ic_gLV);

static errcode_t set_inode_count(ext2_icount_t icount, ext2_ino_t ino, __u32 count)
	REQUIRES(icount->fullmap == 0 && icount->tdb == 0)
	ASSIGNS(ic_gLV, icount->cursor, icount->count, icount->size, icount->list, icount->last_lookup)
	ENSURES(RET == 0 || RET == EXT2_ET_NO_MEMORY)
	ENSURES(RET == 0 ==> ic_gLV == (ino == ic_gK ? count : OLD(ic_gLV)))
	ENSURES(RET != 0 ==> (ic_gLV == OLD(ic_gLV) && (ino != ic_gK || OLD(ic_gLV) == 0)));

/* bitmap back end: ghost set, exact at K */
static struct ext2fs_struct_generic_bitmap_base IC_SINGLE, IC_MULT;
static int ic_choice(void)
{
	if (ic_nchoice < IC_NCHOICE)
		return IN.choice[ic_nchoice++] & 1;
	return 0;
}
int ext2fs_test_generic_bmap(ext2fs_generic_bitmap b, __u64 arg)
{
	if (arg == ic_gK)
		return b == (ext2fs_generic_bitmap) &IC_SINGLE ? ic_s : ic_m;
	return ic_choice();
}
int ext2fs_mark_generic_bmap(ext2fs_generic_bitmap b, __u64 arg)
{
	int old;

	if (arg != ic_gK)
		return ic_choice();
	if (b == (ext2fs_generic_bitmap) &IC_SINGLE) {
		old = ic_s;
		ic_s = 1;
	} else {
		old = ic_m;
		ic_m = 1;
	}
	return old;
}
int ext2fs_unmark_generic_bmap(ext2fs_generic_bitmap b, __u64 arg)
{
	int old;

	if (arg != ic_gK)
		return ic_choice();
	if (b == (ext2fs_generic_bitmap) &IC_SINGLE) {
		old = ic_s;
		ic_s = 0;
	} else {
		old = ic_m;
		ic_m = 0;
	}
	return old;
}

#define XLATE16(c) ((c) > 65500u ? 65500u : (c))	/* the documented 16-bit view of a count */
static struct ext2_icount IC;
#define VIEW32() (ic_s ? 1u : ((IC.multiple && !ic_m) ? 0u : ic_gLV))

static void build(void)
{
	LOAD_IN();
	memset(&IC, 0, sizeof(IC));
	IC.magic = IN.magic_bad ? EXT2_ET_MAGIC_ICOUNT + 1 : EXT2_ET_MAGIC_ICOUNT;
	IC.single = (ext2fs_inode_bitmap) &IC_SINGLE;
	IC.multiple = IN.has_m ? (ext2fs_inode_bitmap) &IC_MULT : 0;
	IC.num_inodes = IN.num_inodes;
	ic_gK = IN.k;
	ASSUME(IN.k >= 1 && IN.k <= IN.num_inodes);
	ic_gLV = IN.lv;
	ic_s = IN.s & 1;
	ic_m = IN.m & 1;
	ic_nchoice = 0;
}

void h_ic_op(void)
{
	__u16 out = 0x5a5a, *retp;
	unsigned int v0, v1, a;
	int valid;
	errcode_t r;

	build();
	a = IN.a;
	v0 = VIEW32();
	valid = a >= 1 && a <= IN.num_inodes;
	retp = IN.retnull ? (__u16 *) 0 : &out;
	switch (IN.op & 3) {
	case 0:
		r = ext2fs_icount_fetch(&IC, a, &out);
		v1 = VIEW32();
		CHECK(v1 == v0, "fetch: no view changes");
		if (!IN.magic_bad && valid) {
			CHECK(r == 0, "fetch: ok");
			if (a == ic_gK)
				CHECK(out == XLATE16(v0), "fetch reports the count, saturated at 65500");
		} else
			CHECK(r == (IN.magic_bad ? EXT2_ET_MAGIC_ICOUNT : EXT2_ET_INVALID_ARGUMENT), "fetch: bad handle / inode number");
		break;
	case 1:
		r = ext2fs_icount_increment(&IC, a, retp);
		v1 = VIEW32();
		if (IN.magic_bad || !valid) {
			CHECK(r == (IN.magic_bad ? EXT2_ET_MAGIC_ICOUNT : EXT2_ET_INVALID_ARGUMENT) && v1 == v0, "increment: bad handle / inode number, nothing changes");
		} else {
			CHECK(r == 0 || r == EXT2_ET_NO_MEMORY, "increment: ok or ENOMEM");
			if (a != ic_gK || r != 0)
				CHECK(v1 == v0, "increment: the count of another inode / after a failure is unchanged");
			else {
				CHECK(v1 == v0 + 1, "increment: count + 1");
				if (retp)
					CHECK(out == XLATE16(v1), "increment reports the new count, saturated at 65500");
				if (v0 == 0) REACH("0 -> 1");
				if (v0 == 1) REACH("1 -> 2");
				if (v0 == 70000) REACH("beyond 16 bits");
			}
		}
		break;
	case 2:
		r = ext2fs_icount_decrement(&IC, a, retp);
		v1 = VIEW32();
		if (!valid) {
			CHECK(r == EXT2_ET_INVALID_ARGUMENT && v1 == v0, "decrement: bad inode number, nothing changes");
		} else if (IN.magic_bad) {
			CHECK(r == EXT2_ET_MAGIC_ICOUNT && v1 == v0, "decrement: bad handle, nothing changes");
		} else if (a != ic_gK) {
			CHECK(v1 == v0, "decrement: the count of another inode is unchanged");
		} else if (v0 == 0) {
			CHECK(r == EXT2_ET_INVALID_ARGUMENT && v1 == 0, "decrement: count 0 cannot be decremented");
			REACH("underflow refused");
		} else {
			CHECK(r == 0, "decrement of a non-zero count succeeds");
			CHECK(v1 == v0 - 1, "decrement: count - 1");
			if (retp)
				CHECK(out == XLATE16(v1), "decrement reports the new count, saturated at 65500");
			if (v0 == 2) REACH("2 -> 1");
			if (v0 == 1) REACH("1 -> 0");
		}
		break;
	default:
		r = ext2fs_icount_store(&IC, a, IN.c);
		v1 = VIEW32();
		if (!valid) {
			CHECK(r == EXT2_ET_INVALID_ARGUMENT && v1 == v0, "store: bad inode number, nothing changes");
		} else if (IN.magic_bad) {
			CHECK(r == EXT2_ET_MAGIC_ICOUNT && v1 == v0, "store: bad handle, nothing changes");
		} else {
			CHECK(r == 0 || r == EXT2_ET_NO_MEMORY, "store: ok or ENOMEM");
			if (a != ic_gK || r != 0)
				CHECK(v1 == v0, "store: the count of another inode / after a failure is unchanged");
			else
				CHECK(v1 == IN.c, "store: count = c");
			if (IN.c == 0) REACH("store 0");
			if (IN.c == 1) REACH("store 1");
			if (IN.c == 5) REACH("store 5");
		}
		break;
	}
	REACH("end");
}

void h_ic_updown(void)
{
	__u16 out = 0;
	errcode_t r;
	int i;

	build();
	ASSUME(!IN.magic_bad);
	/* a fresh container: every count is 0 */
	ic_s = 0; ic_m = 0; ic_gLV = 0;
#define STEP(call, expect) \
	r = call(&IC, ic_gK, &out); \
	ASSUME(r != EXT2_ET_NO_MEMORY); \
	CHECK(r == 0 && out == (expect) && VIEW32() == (expect), "count walks 0 1 2 3 2 1 0");
	STEP(ext2fs_icount_increment, 1)
	STEP(ext2fs_icount_increment, 2)
	STEP(ext2fs_icount_increment, 3)
	r = ext2fs_icount_fetch(&IC, ic_gK, &out);
	CHECK(r == 0 && out == 3, "fetch after three increments: 3");
	STEP(ext2fs_icount_decrement, 2)
	STEP(ext2fs_icount_decrement, 1)
	STEP(ext2fs_icount_decrement, 0)
	r = ext2fs_icount_decrement(&IC, ic_gK, &out);
	CHECK(r == EXT2_ET_INVALID_ARGUMENT && VIEW32() == 0, "a fourth decrement is refused");
	(void) i;
	if (IN.has_m)
		REACH("with the 'multiple' bitmap");
	else
		REACH("without the 'multiple' bitmap");
	REACH("end");
}

long ext2fs_get_mem(unsigned long size, void *ptr) { (void) size; (void) ptr; return EXT2_ET_NO_MEMORY; }
long ext2fs_free_mem(void *ptr) { (void) ptr; return 0; }
long ext2fs_resize_mem(unsigned long old_size, unsigned long size, void *ptr) { (void) old_size; (void) size; (void) ptr; return EXT2_ET_NO_MEMORY; }
