/* VERIF-UNIT
{
 "name": "bb_u32_list_add",
 "props": [
  "C02",
  "C06"
 ],
 "level": "U",
 "tier": "quick",
 "harness": "h_bb_add",
 "enforce": [
  "ext2fs_u32_list_add"
 ],
 "loop_contracts": true,
 "defines": [
  "EXT2_CUSTOM_MEMORY_ROUTINES"
 ],
 "unwind": 10,
 "unwind_reason": "no loop of the real code is unwound (in-place loop contracts); 10 covers the loops of the contract-instrumentation library and the 7 ghost indices of the realloc specification",
 "functions": [
  "lib/ext2fs/badblocks.c:ext2fs_u32_list_add"
 ],
 "assumes": [
  "num <= size <= 2^30 (int fields; size += 100 must not overflow)",
  "well_formed (strictly ascending) is a universally quantified precondition; it enters as INSTANCES: at the last entry, at the lower bounds of the new key and of the ghost view key, at the ghost index and its neighbours, and at every entry the linear search looks at (ghost statement VERIF_GHOST_U32_LIST_ADD_PROBE = assume of the instance at i; the list has not been written before, a realloc keeps the contents)",
  "realloc by a ghost-index specification (new object, contents kept at the ghost indices, may fail)",
  "needs the loop anchors of hooks-pending/ds.diff in lib/ext2fs/badblocks.c"
 ],
 "native": false,
 "tier_after_hooks": "quick"
}
*/
/*
 * lib/ext2fs/badblocks.c:ext2fs_u32_list_add — insertion into the sorted list (grow by 100 when full, append fast path,
 * linear search for the insertion point, shift of the tail by one).
 *
 * Statement (set semantics, arbitrary ghost key K, arbitrary ghost index G):
 *   success: member'(K) == (member(K) || K == blk); num' == num + (blk was a member ? 0 : 1); the list stays well-formed
 *            (the entry at G is: the old one in front of the insertion point, blk at it, the old entry G-1 behind it —
 *             which gives the partition instance for K with its new lower bound);
 *   failure: only EXT2_ET_NO_MEMORY from the resize; then num, size and the set are unchanged.
 */
#define BB_LIST_AT(idx) bb->list[idx]
#define VERIF_INV_U32_LIST_ADD_SEARCH \
	__CPROVER_assigns(i, j) \
	__CPROVER_loop_invariant(0 <= i && i <= bb->num && j == bb->num) \
	__CPROVER_loop_invariant((unsigned long long) i <= bb_gPA) \
	__CPROVER_decreases(bb->num - i)
#define VERIF_INV_U32_LIST_ADD_SHIFT \
	__CPROVER_assigns(i, __CPROVER_object_whole(bb->list)) \
	__CPROVER_loop_invariant(0 <= j && j <= i && i <= bb->num && bb->num < bb->size) \
	__CPROVER_loop_invariant(bb_gG > (unsigned long long) bb->num || \
		((bb_gG > (unsigned long long) i) ? BB_LIST_AT(bb_gG) == bb_oGm1 : \
		 (bb_gG >= (unsigned long long) bb->num || BB_LIST_AT(bb_gG) == bb_oG))) \
	__CPROVER_loop_invariant(bb_gG == 0 || bb_gG - 1 > (unsigned long long) i || bb_gG - 1 >= (unsigned long long) bb->num || \
				 BB_LIST_AT(bb_gG - 1) == bb_oGm1) \
	__CPROVER_decreases(i - j)
#include "bb_common.h"

int bb_gM;	/* ghost input: member(K) in the pre-state */
#define BB_QK (bb_gPK + ((!bb_gExA && bb_gA < bb_gK) ? 1 : 0))

errcode_t ext2fs_u32_list_add(ext2_u32_list bb, __u32 blk)
	REQUIRES(BB_PRE(bb, blk, bb_gM))
	ASSIGNS(bb->size, bb->num, bb->list, __CPROVER_object_whole(bb->list))
	__CPROVER_frees(bb->list)
	ENSURES(RET == 0 || RET == EXT2_ET_NO_MEMORY)
	ENSURES(RET != 0 ==> (bb->num == bb_gNum0 && bb->size == OLD(bb->size) && BB_POST_OK(bb, bb_gPK, bb_gM)))
	ENSURES(RET == 0 ==> (bb->num == bb_gNum0 + (bb_gExA ? 0 : 1) && BB_POST_OK(bb, BB_QK, bb_gM || bb_gK == bb_gA)));

void h_bb_add(void)
{
	LOAD_IN();
	ASSUME(IN.size >= 1 && IN.size <= BB_CAP && IN.num >= 0 && IN.num <= IN.size);
	BB.list = malloc((unsigned long) IN.size * sizeof(__u32));
	ASSUME(BB.list != 0);
	BB.magic = EXT2_ET_MAGIC_BADBLOCKS_LIST;
	BB.num = IN.num;
	BB.size = IN.size;
	BB.badblocks_flags = 0;
	bb_gA = IN.a; bb_gPA = IN.pa;
	bb_gK = IN.k; bb_gPK = IN.pk;
	bb_gG = IN.g;
	bb_oG = IN.og; bb_oGm1 = IN.ogm1; bb_oGp1 = IN.ogp1;
	bb_gNum0 = IN.num;
	bb_gExA = IN.exa;
	bb_gM = IN.m;
	ext2fs_u32_list_add(&BB, IN.a);
	if (IN.num > 3 && IN.num < IN.size && IN.pa == 1 && !IN.exa && IN.g == 2 && IN.k > IN.a)
		REACH("insert in the middle, room");
	if (IN.num > 3 && IN.num == IN.size && IN.pa == 1 && !IN.exa)
		REACH("insert in the middle, full");
	if (IN.num > 0 && IN.pa == (unsigned) IN.num)
		REACH("append");
	if (IN.num > 3 && IN.pa == 2 && IN.exa)
		REACH("already there");
	if (IN.num == 0)
		REACH("empty");
	REACH("end");
}
