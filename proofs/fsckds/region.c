/* VERIF-UNIT
{
 "name": "region_allocate_B3",
 "props": [
  "C01",
  "C02"
 ],
 "level": "B(3)",
 "tier": "quick",
 "harness": "h_region",
 "includes": [
  "e2fsck",
  "lib/support"
 ],
 "defines": [
  "EXT2_CUSTOM_MEMORY_ROUTINES"
 ],
 "unwind": 6,
 "unwind_reason": "BOUNDED stand-in: a region list of 0..3 elements before the call (at most 4 after it): the search loop of region_allocate, region_free and the harness's walks run at most 5 times; unwinding assertions on",
 "functions": [
  "e2fsck/region.c:region_allocate",
  "e2fsck/region.c:region_create",
  "e2fsck/region.c:region_free"
 ],
 "assumes": [
  "bounded: 0..3 allocated regions, built by the harness from arbitrary numbers: min <= start_0 < end_0 < start_1 < end_1 < ... <= max (sorted, disjoint, NOT adjacent: the real code merges adjacent regions, so a list it built never contains two adjacent ones), 'last' = the tail element (NULL for the empty list); the container itself comes from the real region_create",
  "n >= 0 (every caller passes a size); start + n does not wrap (start <= 2^62)",
  "ext2fs_get_mem / ext2fs_get_memzero / ext2fs_free_mem as malloc / calloc / free; allocation of the new element may fail"
 ],
 "native": false
}
*/
/*
 * e2fsck/region.c — the "which byte ranges of this EA block / inode body are already claimed" list pass 1 uses to find
 * overlapping extended-attribute names and values (check_ext_attr, check_ea_in_inode): region_allocate returns non-zero
 * and pass 1 raises PR_1_EA_ALLOC_COLLISION.  A false 0 hides an overlap (C02); a false 1 makes e2fsck clear a healthy EA block (C01).
 *
 * ABSTRACT VIEW: a set of points; member(X) = some element has start <= X < end; observed at ONE arbitrary ghost point X.
 * well_formed: elements sorted by start, start < end, end_i < start_{i+1} (disjoint and not adjacent), all inside
 * [min, max], last == tail element.
 * region_allocate(start, n), n >= 0, specified from the header comment of its users:
 *   range not inside [min, max]                      -> -1, set unchanged
 *   n == 0                                            -> 1, set unchanged (quirk of the real code, kept)
 *   [start, start+n) meets the set (computed by the harness's own walk over all elements)
 *                                                     -> 1, set unchanged
 *   otherwise                                         -> 0 and member'(X) == (member(X) || start <= X < start+n) for every X,
 *                                                        or -1 (no memory for a new element) and the set is unchanged;
 *   in every case the list stays well-formed.
 */
#include "verif.h"
#define RG_N 3u
struct in_rg {
	unsigned long long min, max;
	unsigned int cnt;
	unsigned long long s[RG_N], e[RG_N];
	unsigned long long start, x;
	int n;
};
struct in_rg IN;
#include "verif_in.h"

#define _GNU_SOURCE 1
#include "config.h"
#include <string.h>
#include <stdlib.h>
long ext2fs_get_mem(unsigned long size, void *ptr);
long ext2fs_get_memzero(unsigned long size, void *ptr);
long ext2fs_free_mem(void *ptr);

#include "e2fsck/region.c"

long ext2fs_get_mem(unsigned long size, void *ptr)
{
	void *pp = malloc(size);
	if (!pp)
		return EXT2_ET_NO_MEMORY;
	*(void **) ptr = pp;
	return 0;
}
long ext2fs_get_memzero(unsigned long size, void *ptr)
{
	void *pp = calloc(1, size);
	if (!pp)
		return EXT2_ET_NO_MEMORY;
	*(void **) ptr = pp;
	return 0;
}
long ext2fs_free_mem(void *ptr)
{
	void **pp = (void **) ptr;
	free(*pp);
	*pp = 0;
	return 0;
}

#define RG_MAXWALK (RG_N + 2)

/* harness's own walk: membership of x, well-formedness, number of elements, does [a, b) meet the set */
struct rg_walk { int wf; int member; int meets; unsigned int len; };
static struct rg_walk walk(region_t rg, unsigned long long x, unsigned long long a, unsigned long long b)
{
	struct rg_walk w = { 1, 0, 0, 0 };
	struct region_el *r = rg->allocated, *prev = 0;
	unsigned int i;

	for (i = 0; i < RG_MAXWALK; i++) {
		if (!r)
			break;
		if (!(r->start < r->end && r->start >= rg->min && r->end <= rg->max))
			w.wf = 0;
		if (prev && !(prev->end < r->start))
			w.wf = 0;
		if (x >= r->start && x < r->end)
			w.member = 1;
		if (a < r->end && r->start < b)
			w.meets = 1;
		w.len++;
		prev = r;
		r = r->next;
	}
	if (r)
		w.wf = 0;		/* longer than the operation can legally make it */
	if (rg->last != prev)
		w.wf = 0;		/* last == tail element (NULL for the empty list) */
	return w;
}

void h_region(void)
{
	region_t rg;
	struct region_el *el[RG_N], *prev = 0;
	struct rg_walk w0, w1;
	unsigned long long end;
	unsigned int i;
	int r;

	LOAD_IN();
	ASSUME(IN.min <= IN.max && IN.cnt <= RG_N);
	ASSUME(IN.n >= 0 && IN.start <= (1ULL << 62));
	rg = region_create(IN.min, IN.max);
	ASSUME(rg != 0);
	CHECK(rg->allocated == 0 && rg->last == 0 && rg->min == IN.min && rg->max == IN.max, "region_create: empty, well-formed");
	for (i = 0; i < RG_N; i++) {
		if (i >= IN.cnt)
			break;
		el[i] = malloc(sizeof(struct region_el));
		ASSUME(el[i] != 0);
		ASSUME(IN.s[i] < IN.e[i] && IN.s[i] >= IN.min && IN.e[i] <= IN.max);
		ASSUME(i == 0 || IN.e[i - 1] < IN.s[i]);
		el[i]->start = IN.s[i];
		el[i]->end = IN.e[i];
		el[i]->next = 0;
		if (prev)
			prev->next = el[i];
		else
			rg->allocated = el[i];
		prev = el[i];
	}
	rg->last = prev;
	end = IN.start + (unsigned long long) IN.n;
	w0 = walk(rg, IN.x, IN.start, end);
	CHECK(w0.wf && w0.len == IN.cnt, "harness builds a well-formed list");

	r = region_allocate(rg, IN.start, IN.n);

	w1 = walk(rg, IN.x, IN.start, end);
	CHECK(w1.wf, "the list stays well-formed (sorted, disjoint, not adjacent, inside [min,max], last = tail)");
	CHECK(r == -1 || r == 0 || r == 1, "result is -1, 0 or 1");
	if (IN.start < IN.min || end > IN.max) {
		CHECK(r == -1, "range outside [min, max]: -1");
	} else if (IN.n == 0) {
		CHECK(r == 1, "empty range: 1");
	} else {
		CHECK((r == 1) == (w0.meets != 0), "1 exactly when the range meets an allocated region");
		if (w0.meets)
			REACH("overlap");
	}
	if (r == 0) {
		CHECK(w1.member == (w0.member || (IN.x >= IN.start && IN.x < end)), "allocated: the set gains exactly [start, start+n)");
		CHECK(w1.len <= w0.len + 1 && w1.len + 1 >= w0.len && w1.len >= 1, "at most one element added, at most one merged away");
	} else {
		CHECK(w1.member == w0.member && w1.len == w0.len, "refused: the set is unchanged");
	}
	/* situations, phrased over the inputs */
	if (IN.cnt == 3 && IN.start == IN.e[0] && end == IN.s[1])
		REACH("fills the gap between two regions: merge");
	if (IN.cnt == 3 && IN.start > IN.e[0] && end < IN.s[1])
		REACH("new element in the middle");
	if (IN.cnt == 2 && IN.start == IN.e[1])
		REACH("extends the last region");
	if (IN.cnt == 0)
		REACH("empty list");
	REACH("end");
	region_free(rg);
}
