/*
 * Shared by the e2fsck/ea_refcount.c units (C01 anchor file; e2fsck's map "EA block / EA inode -> reference count").
 * Includes the REAL e2fsck/ea_refcount.c and states the contracts of its functions.
 *
 * ABSTRACT VIEW (specs/fsckds_sorted.h): the container is a map key -> count; a key that is absent counts 0 and an
 * entry with count 0 is the same as no entry ("zero-valued entries are collapsed").  The view is observed at ONE ghost
 * key ea_gK, chosen arbitrarily by the harness before the call:
 *        view(K) = (P < count && list[P].ea_key == K) ? list[P].ea_value : 0        P = lower bound of K
 *
 * REPRESENTATION INVARIANT well_formed(rc):
 *        rc->list != NULL, rc->count <= rc->size (entries allocated), size >= 1,
 *        list[0..count) strictly ascending in ea_key           (as partition instances EA_PART, see the spec header)
 *   The cursor needs NO invariant: the real code accepts any cursor value (it is left equal to count after a hit on
 *   the last entry and may exceed count after refcount_collapse), so the units leave it arbitrary — stronger than the
 *   "cursor < count" one might expect.
 *
 * GHOSTS.  Inputs, never written:  ea_gA operation key, ea_gPA its lower bound in the pre-state;  ea_gK view key,
 * ea_gPK its lower bound in the pre-state;  ea_gI an arbitrary index;  ea_gV = view(K) in the pre-state.
 * Outputs of refcount_collapse (the only function that moves entries down): ea_collapsed, ea_gPA2 / ea_gPK2 the lower
 * bounds after the collapse, ea_gCount2 the count after it.  EA_BPA / EA_BPK / EA_BCOUNT select the values in force.
 * An insertion of the absent key A at its lower bound moves the lower bound of K up by one iff A < K: EA_QK.
 *
 * "Strictly ascending" is universally quantified.  As a PRECONDITION it is used through instances (EA_WF_BUNDLE: at the
 * two lower bounds and their predecessors, at the ghost index and its predecessor, at the last entry, at the effective
 * cursor; and at every index probed by the binary search: ghost statement VERIF_GHOST_GET_REFCOUNT_EL_PROBE).
 * As a POSTCONDITION it is proved at the arbitrary index ea_gI for the arbitrary key ea_gK, which is the quantified
 * statement again.  The handle lives on the STACK, the list on the heap with a symbolic number of entries.
 */
#include "verif.h"
#include "fsckds_sorted.h"

#ifndef EA_IN_DECLARED
struct in_ea {
	unsigned long long count, size, cursor;	/* representation */
	unsigned long long a, pa;		/* operation key A and its lower-bound position */
	unsigned long long k, pk;		/* ghost view key K and its lower-bound position */
	unsigned long long i;			/* ghost index (post-state well-formedness) */
	unsigned long long v0;			/* view(K) before the call */
	unsigned long long v;			/* value argument */
	unsigned char retnull, exa;
	unsigned long long keyi, vali;
	unsigned char choice[4];		/* allocation results */
};
struct in_ea IN;
#include "verif_in.h"
#endif

#define _GNU_SOURCE 1
#include "config.h"
#include <string.h>
#include <stdlib.h>

/*
 * -DEXT2_CUSTOM_MEMORY_ROUTINES (hook offered by ext2fs.h): the inline malloc wrappers are left out and supplied here
 * with the same behaviour, except that the pointer is moved by a typed store instead of memcpy(ptr, &pp, 8).
 * Allocation may fail (libc model of CBMC: malloc / realloc return NULL nondeterministically).
 */
#ifndef EXT2_CUSTOM_MEMORY_ROUTINES
#error "built with -DEXT2_CUSTOM_MEMORY_ROUTINES"
#endif
long ext2fs_get_mem(unsigned long size, void *ptr);
long ext2fs_get_memzero(unsigned long size, void *ptr);
long ext2fs_free_mem(void *ptr);
long ext2fs_resize_mem(unsigned long old_size, unsigned long size, void *ptr);
/*
 * memmove / realloc of the list: libc's byte-array models are unusable on a list of symbolic length, so the two calls
 * get GHOST-INDEX specifications (C standard: memmove copies n bytes as if through a temporary, realloc keeps the
 * contents up to the smaller size; everything else of the destination object is unchanged resp. indeterminate):
 * the whole object is havocked and the entry at the ghost index ea_gI (realloc: also its predecessor, which a following
 * memmove moves there) — the only entry a postcondition looks at besides the freshly written one — is given the value
 * the standard prescribes.  Every array access of a specification costs (CBMC turns a list of symbolic length into
 * an uninterpreted function: quadratic in the number of distinct index terms), hence the economy.
 */
void *ea_memmove(void *dst, const void *src, size_t n);
#define memmove ea_memmove

/* ghost state (see above) */
unsigned long long ea_gA, ea_gPA, ea_gK, ea_gPK, ea_gI, ea_gV;
unsigned long long ea_gPA2, ea_gPK2, ea_gCount2, ea_gCount0;
int ea_collapsed;
unsigned long long ea_gKeyI0, ea_gValI0;	/* input: the entry at index ea_gI in the pre-state */
int ea_gExA;			/* input: A has an entry in the pre-state */

#define EA_CAP (1ULL << 30)	/* int index arithmetic of the real code: (low+high)/2 needs count <= 2^30 */

#define EA_BPA (ea_collapsed ? ea_gPA2 : ea_gPA)
#define EA_BPK (ea_collapsed ? ea_gPK2 : ea_gPK)

/* the macros below are defined after the real file (they need its struct definitions) */

/* instance of the precondition "strictly ascending" at the index probed by the binary search (list not yet written) */
/*
 * The binary search of get_refcount_el.  DFCC cannot attach a loop contract to it (the loop is nested in the
 * "goto retry" loop, which has no syntactic place for a contract), and plain unwinding of a binary search is exponential
 * for the SAT back ends (11 probes: > 250 s).  The loop is therefore closed by its INVARIANT, applied by hand exactly as
 * --apply-loop-contracts would, in the ghost statement at the top of the body:
 *   first arrival of a search (window = whole list): assert the invariant (base case), replace low/high by ARBITRARY
 *        values satisfying invariant and loop condition, record the variant;
 *   next arrival (one iteration later): assert the invariant (step case) and that the window shrank (termination), stop.
 * The code behind the loop is reached with the exit states of that one arbitrary iteration.  Invariant: the lower bound
 * of the key lies in [low, high+1], and in [low, high] if the key is present.
 * At the probe: the instance of the precondition "strictly ascending" at mid (the list has not been written since the
 * state the precondition speaks about: the pre-state, or the state refcount_collapse left behind).
 */
int ea_dec;
#define EA_SEARCH_INV \
	(0 <= low && high >= -1 && (high < 0 || (unsigned long long) high < refcount->count) && low <= high + 1 && \
	 (unsigned long long) low <= EA_BPA && EA_BPA <= (unsigned long long) (high + 1) && \
	 (!(EA_BPA < refcount->count && refcount->list[EA_BPA].ea_key == ea_key) || (high >= 0 && EA_BPA <= (unsigned long long) high)))
#ifndef VERIF_GHOST_GET_REFCOUNT_EL_LOOP
#define VERIF_GHOST_GET_REFCOUNT_EL_LOOP \
	if (low == 0 && high == (int) refcount->count - 1) { \
		__CPROVER_assert(EA_SEARCH_INV, "binary search: invariant holds on entry"); \
		{ int nd_low, nd_high; low = nd_low; high = nd_high; } \
		__CPROVER_assume(EA_SEARCH_INV && low <= high); \
		ea_dec = high - low; \
	} else { \
		__CPROVER_assert(EA_SEARCH_INV, "binary search: invariant is preserved"); \
		__CPROVER_assert(high - low < ea_dec, "binary search: window shrinks (termination)"); \
		__CPROVER_assume(0); \
	}
#endif
#ifndef VERIF_GHOST_GET_REFCOUNT_EL_PROBE
#define VERIF_GHOST_GET_REFCOUNT_EL_PROBE \
	__CPROVER_assume(FSCKDS_PART(refcount->list[mid].ea_key, (unsigned long long) mid, refcount->count, ea_key, EA_BPA));
#endif

/*
 * After el = get_refcount_el(..): the entry returned is the one at the lower bound of the key (an obligation); el is
 * re-assigned that same address in its typed form &list[index] (get_refcount_el returns it from five places, the merged
 * pointer would otherwise be a byte offset into the list and every access through it a byte-level update of the
 * whole list).
 */
#ifndef VERIF_GHOST_EA_REFCOUNT_EL
#define VERIF_GHOST_EA_REFCOUNT_EL \
	if (el) { \
		__CPROVER_assert(EA_BPA < refcount->count && el == &refcount->list[EA_BPA], \
				 "get_refcount_el returns the entry at the lower bound of the key"); \
		el = &refcount->list[EA_BPA]; \
	}
#endif

#include "e2fsck/ea_refcount.c"

long ext2fs_get_mem(unsigned long size, void *ptr)
{
	void *pp = malloc(size);
	if (!pp)
		return EXT2_ET_NO_MEMORY;
	*(void **) ptr = pp;
	return 0;
}
long ext2fs_get_memzero(unsigned long size, void *ptr)
{
	void *pp = calloc(1, size);
	if (!pp)
		return EXT2_ET_NO_MEMORY;
	*(void **) ptr = pp;
	return 0;
}
long ext2fs_free_mem(void *ptr)
{
	void **pp = (void **) ptr;
	free(*pp);
	*pp = 0;
	return 0;
}
static struct ea_refcount RC;	/* the container of the harness (its list is the object the stubs below speak about) */
#ifdef EA_EXACT_LIBC
/*
 * bounded units: exact realloc (typed allocation of the new size, may fail; the old entries copied one by one; old block
 * freed) and an exact entry-wise memmove (overlap-safe, as the standard demands); EA_EXACT_MAX bounds the entries copied
 */
long ext2fs_resize_mem(unsigned long old_size, unsigned long size, void *ptr)
{
	struct ea_refcount_el **pp = (struct ea_refcount_el **) ptr, *old = *pp, *new;
	unsigned long long nold = old_size / sizeof(*old), nnew = size / sizeof(*old), x;

#if defined(EA_SCEN_SHRINK)
	__CPROVER_assert(0, "scenario 'shrink': the list is never resized");
	__CPROVER_assume(0);
#endif
	__CPROVER_assert(size % sizeof(*old) == 0 && old_size % sizeof(*old) == 0, "realloc: whole entries");
	new = malloc(nnew * sizeof(struct ea_refcount_el));
	if (!new)
		return EXT2_ET_NO_MEMORY;
	for (x = 0; x < nold && x < nnew; x++)
		new[x] = old[x];
	free(old);
	*pp = new;
	return 0;
}
void *ea_memmove(void *dst, const void *src, size_t n)
{
	struct ea_refcount_el *d = (struct ea_refcount_el *) dst;
	const struct ea_refcount_el *s = (const struct ea_refcount_el *) src;
	size_t cnt = n / sizeof(*d), x;

	__CPROVER_assert(n % sizeof(*d) == 0, "memmove: whole entries");
	if (d < s)
		for (x = 0; x < cnt; x++)
			d[x] = s[x];
	else
		for (x = cnt; x > 0; x--)
			d[x - 1] = s[x - 1];
	return dst;
}
#else
long ext2fs_resize_mem(unsigned long old_size, unsigned long size, void *ptr)
{
	struct ea_refcount_el **pp = (struct ea_refcount_el **) ptr, *old = *pp, *new;
	struct ea_refcount_el keep0, keep1;
	unsigned long long nold = old_size / sizeof(*old), nnew = size / sizeof(*old);
	int in0 = ea_gI < nold && ea_gI < nnew, in1 = ea_gI >= 1 && ea_gI - 1 < nold && ea_gI - 1 < nnew;

#if defined(EA_SCEN_ROOM) || defined(EA_SCEN_SHRINK)
	__CPROVER_assert(0, "scenarios 'room' and 'shrink': the list is never resized");
	__CPROVER_assume(0);
#endif
	__CPROVER_assert(__CPROVER_r_ok(old, old_size), "realloc: old_size bytes of the old list are allocated");
	__CPROVER_assert(size % sizeof(*old) == 0, "realloc: whole entries");
	if (in0)
		keep0 = old[ea_gI];
	if (in1)
		keep1 = old[ea_gI - 1];
	new = malloc(nnew * sizeof(struct ea_refcount_el));	/* typed allocation of the same number of bytes */
	if (!new)
		return EXT2_ET_NO_MEMORY;
	if (in0)
		new[ea_gI] = keep0;
	if (in1)
		new[ea_gI - 1] = keep1;
	free(old);
	*pp = new;
	return 0;
}
void *ea_memmove(void *dst, const void *src, size_t n)
{
	struct ea_refcount_el *base = RC.list;
	struct ea_refcount_el keep;
	unsigned long long d0, s0, cnt = n / sizeof(*base), total = __CPROVER_OBJECT_SIZE(dst) / sizeof(*base);
	int in = ea_gI < total;

	__CPROVER_assert(__CPROVER_r_ok(src, n) && __CPROVER_w_ok(dst, n), "memmove: source readable, destination writable for n bytes");
	__CPROVER_assert(__CPROVER_same_object(dst, base) && __CPROVER_same_object(dst, src) && n % sizeof(*base) == 0 &&
			 __CPROVER_POINTER_OFFSET(dst) % sizeof(*base) == 0 && __CPROVER_POINTER_OFFSET(src) % sizeof(*base) == 0,
			 "memmove: moves whole entries inside the list");
	d0 = __CPROVER_POINTER_OFFSET(dst) / sizeof(*base);
	s0 = __CPROVER_POINTER_OFFSET(src) / sizeof(*base);
	if (in)
		keep = base[(ea_gI >= d0 && ea_gI < d0 + cnt) ? ea_gI - d0 + s0 : ea_gI];
	__CPROVER_havoc_object(base);
	if (in)
		base[ea_gI] = keep;
	return dst;
}
#endif

/* ------------------------------------------------------------------ spec functions and contracts (struct ea_refcount is now known) */

#define EA_CUR(rc) ((rc)->cursor >= (rc)->count ? 0 : (rc)->cursor)
static int EA_BASIC(const struct ea_refcount *rc)
{
	return rc->list != 0 && rc->count <= rc->size && rc->size >= 1 && rc->count <= EA_CAP && rc->size <= 2 * EA_CAP;
}
#define EA_PART2(k, i, n, PA_, PK_) (FSCKDS_PART(k, i, n, ea_gA, PA_) && FSCKDS_PART(k, i, n, ea_gK, PK_))
/*
 * well_formed as far as an operation relies on it, plus the view: PA_ / PK_ are lower bounds of A / K (partition
 * instances at both of them, at the ghost index and its predecessor, at the last entry and at the effective cursor —
 * each entry is read once), and view(K) == V; pre = 1: the ghost ea_gExA tells whether A has an entry (pre-state);
 * pre = 0 (state after a collapse): A has an entry only if it had one in the pre-state (entries are only dropped).
 */
static int EA_STATE_OK(const struct ea_refcount *rc, unsigned long long PA_, unsigned long long PK_, unsigned long long V, int pre)
{
	unsigned long long n = rc->count, i, k, v;
	int ok = 1;

	if (!EA_BASIC(rc) || PA_ > n || PK_ > n)
		return 0;
	if (PA_ < n) {
		k = rc->list[PA_].ea_key;
		ok = ok && EA_PART2(k, PA_, n, PA_, PK_);
		/* pre-state: ea_gExA says whether A has an entry; later: entries are only dropped */
		ok = ok && (pre ? (ea_gExA != 0) == (k == ea_gA) : (k != ea_gA || ea_gExA != 0));
	} else
		ok = ok && (!pre || ea_gExA == 0);
	if (PK_ < n) {
		k = rc->list[PK_].ea_key;
		v = rc->list[PK_].ea_value;
		ok = ok && EA_PART2(k, PK_, n, PA_, PK_) && V == (k == ea_gK ? v : 0);
	} else
		ok = ok && V == 0;
	i = ea_gI;
	if (i < n) {
		k = rc->list[i].ea_key;
		ok = ok && EA_PART2(k, i, n, PA_, PK_);
		if (pre)	/* record the entry at the ghost index (see refcount_collapse) */
			ok = ok && k == ea_gKeyI0 && rc->list[i].ea_value == ea_gValI0;
	}
	i = ea_gI - 1;
	if (ea_gI >= 1 && i < n) {
		k = rc->list[i].ea_key;
		ok = ok && EA_PART2(k, i, n, PA_, PK_);
	}
	if (n >= 1) {
		i = n - 1;
		k = rc->list[i].ea_key;
		ok = ok && EA_PART2(k, i, n, PA_, PK_);
		i = EA_CUR(rc);
		k = rc->list[i].ea_key;
		ok = ok && EA_PART2(k, i, n, PA_, PK_);
	}
	return ok;
}
/*
 * post-state: well_formed at the arbitrary index ea_gI for the arbitrary key K whose lower bound is now QK, and
 * view(K) == V (observed when the arbitrary index happens to be QK; K beyond the last entry: V == 0)
 */
static int EA_POST_OK(const struct ea_refcount *rc, unsigned long long QK, unsigned long long V)
{
	unsigned long long n = rc->count, i = ea_gI, k, v;

	if (!EA_BASIC(rc) || QK > n)
		return 0;
	if (QK == n && V != 0)
		return 0;
	if (i < n) {
		k = rc->list[i].ea_key;
		v = rc->list[i].ea_value;
		if (!FSCKDS_PART(k, i, n, ea_gK, QK))
			return 0;
		if (i == QK && V != (k == ea_gK ? v : 0))
			return 0;
	}
	return 1;
}

/* the state the operation starts from */
#define EA_PRE(rc, key) ((key) == ea_gA && ea_collapsed == 0 && (rc)->count == ea_gCount0 && EA_STATE_OK(rc, ea_gPA, ea_gPK, ea_gV, 1))
/* lower bound of K in the post-state: an entry was added (below K) or not */
#define EA_BCOUNT(rc) (ea_collapsed ? ea_gCount2 : ea_gCount0)	/* ea_gCount0: count on entry */
#define EA_ADDED(rc) ((rc)->count == EA_BCOUNT(rc) + 1)
#define EA_SAMECOUNT(rc) ((rc)->count == EA_BCOUNT(rc))
#define EA_QK(rc) (EA_BPK + ((EA_ADDED(rc) && ea_gA < ea_gK) ? 1 : 0))
#define EA_MUTABLE(rc) (rc)->cursor, (rc)->count, (rc)->size, (rc)->list, __CPROVER_object_whole((rc)->list), \
	ea_collapsed, ea_gPA2, ea_gPK2, ea_gCount2, ea_dec

#ifndef EA_OWN_COLLAPSE_CONTRACT
/*
 * refcount_collapse: drops the zero-valued entries.  Abstractly: the result is again well-formed, not longer, has the
 * same view for every key, and the lower bounds of A and K in it are reported in the ghosts.
 * Proved for lists of up to 4 entries by unit ea_collapse_B4 (ghost statements compute the new lower bounds), used as a
 * callee contract by the operation units.  It is called at most once per operation (REQUIRES ea_collapsed == 0 is an
 * obligation at every call site).
 */
static void refcount_collapse(ext2_refcount_t refcount)
#ifdef EA_SCEN_ROOM
	/* scenario 'room' (count < size): never called — an obligation at every call site, nothing is assumed */
	REQUIRES(0) ASSIGNS();
static void ea_unused_collapse_contract(ext2_refcount_t refcount)
#endif
	/*
	 * called at most once, and in the pre-state of the operation — which is well-formed, with lower bounds ea_gPA / ea_gPK,
	 * view ea_gV and ea_gExA as the operation's precondition says: the list is the same object, as long, and its entry at
	 * the arbitrary index ea_gI is the one recorded in the pre-state (ea_gKeyI0 / ea_gValI0, tied by EA_PRE)
	 */
	REQUIRES(ea_collapsed == 0 && refcount->count == ea_gCount0 && refcount->size >= refcount->count && refcount->list != 0)
	REQUIRES(ea_gI >= refcount->count || (refcount->list[ea_gI].ea_key == ea_gKeyI0 && refcount->list[ea_gI].ea_value == ea_gValI0))
	ASSIGNS(refcount->count, __CPROVER_object_whole(refcount->list), ea_collapsed, ea_gPA2, ea_gPK2, ea_gCount2)
	ENSURES(ea_collapsed == 1 && refcount->count <= OLD(refcount->count) && ea_gCount2 == refcount->count)
	ENSURES(EA_STATE_OK(refcount, ea_gPA2, ea_gPK2, ea_gV, 0))
	/* a lower bound moves down by the number of entries dropped in front of it: at most the number dropped in all */
	ENSURES(ea_gPA2 <= ea_gPA && ea_gPA - ea_gPA2 <= OLD(refcount->count) - refcount->count)
	ENSURES(ea_gPK2 <= ea_gPK && ea_gPK - ea_gPK2 <= OLD(refcount->count) - refcount->count)
	/*
	 * Case split over the outcome of the collapse of a FULL list (count == size on entry), one unit per case; the two
	 * cases are exhaustive because count' <= count:  'shrink': a zero-valued entry was dropped, there is room now;
	 * 'grow': nothing was dropped, the list has to be resized.
	 */
#if defined(EA_SCEN_SHRINK)
	ENSURES(refcount->count < OLD(refcount->count))
#elif defined(EA_SCEN_GROW)
	ENSURES(refcount->count == OLD(refcount->count))
#endif
	;
#endif
