/* VERIF-UNIT
{
 "name": "ea_refcount_intr_next",
 "props": [
  "C01",
  "C02"
 ],
 "level": "U",
 "tier": "quick",
 "harness": "h_ea_iter",
 "enforce": [
  "ea_refcount_intr_next",
  "ea_refcount_intr_begin"
 ],
 "loop_contracts": true,
 "includes": [
  "e2fsck",
  "lib/support"
 ],
 "defines": [
  "EXT2_CUSTOM_MEMORY_ROUTINES",
  "EA_ITER"
 ],
 "unwind": 10,
 "unwind_reason": "no loop of the real code is unwound (in-place loop contract); 10 covers the loops of the contract-instrumentation library",
 "functions": [
  "e2fsck/ea_refcount.c:ea_refcount_intr_next",
  "e2fsck/ea_refcount.c:ea_refcount_intr_begin"
 ],
 "assumes": [
  "count <= size <= 2^31 entries; list of symbolic length and arbitrary content; arbitrary cursor (also beyond count)",
  "'visited in key order' follows from index order because the list is strictly ascending (well_formed, ensured by the mutating operations)"
 ],
 "native": false,
 "tier_after_hooks": "quick"
}
*/
/* VERIF-UNIT
{
 "name": "ea_refcount_create",
 "props": [
  "C01"
 ],
 "level": "U",
 "tier": "quick",
 "harness": "h_ea_create",
 "enforce": [
  "ea_refcount_create"
 ],
 "includes": [
  "e2fsck",
  "lib/support"
 ],
 "defines": [
  "EXT2_CUSTOM_MEMORY_ROUTINES",
  "EA_CREATE"
 ],
 "unwind": 10,
 "unwind_reason": "loop-free; 10 covers the loops of the contract-instrumentation library",
 "functions": [
  "e2fsck/ea_refcount.c:ea_refcount_create",
  "e2fsck/ea_refcount.c:ea_refcount_free",
  "e2fsck/ea_refcount.c:ext2fs_get_refcount_size"
 ],
 "assumes": [
  "requested size <= 2^31 entries (every caller passes 0; size * 16 would wrap beyond 2^60)",
  "ext2fs_get_memzero / ext2fs_free_mem as calloc / free (allocation may fail)"
 ],
 "native": false
}
*/
/*
 * e2fsck/ea_refcount.c — iterator and constructor.
 *
 * ea_refcount_intr_next: ONE step of the iteration returns the first entry at or behind the cursor whose count is not
 * zero (zero-valued entries are skipped — they are "no entry" in the abstract view) and leaves the cursor behind it;
 * or returns 0 with the cursor at the end when no such entry is left.  "Every skipped entry has count 0" is stated at an
 * arbitrary ghost index.  By induction over the steps the iteration visits exactly the keys with view != 0, in index
 * (= key) order.  (Key 0 cannot be told from "end" by the return value; e2fsck's keys — EA block numbers, EA inode
 * numbers — are never 0.)
 * ea_refcount_create: an empty, well-formed container (count 0: every view is 0) of the requested capacity
 * (500 when 0 is passed), or EXT2_ET_NO_MEMORY and nothing leaked into *ret.
 */
#ifdef EA_ITER
#define VERIF_INV_EA_REFCOUNT_INTR_NEXT \
	__CPROVER_assigns(refcount->cursor, list; ret != 0: *ret) \
	__CPROVER_loop_invariant(refcount->cursor >= __CPROVER_loop_entry(refcount->cursor)) \
	__CPROVER_loop_invariant(refcount->cursor <= refcount->count || refcount->cursor == __CPROVER_loop_entry(refcount->cursor)) \
	__CPROVER_loop_invariant(!(ea_gI >= __CPROVER_loop_entry(refcount->cursor) && ea_gI < refcount->cursor) || \
				 refcount->list[ea_gI].ea_value == 0) \
	__CPROVER_decreases(refcount->count > refcount->cursor ? refcount->count - refcount->cursor : 0)
#endif
#define EA_OWN_COLLAPSE_CONTRACT
#include "ea_common.h"

#ifdef EA_ITER
void ea_refcount_intr_begin(ext2_refcount_t refcount)
	ASSIGNS(refcount->cursor)
	ENSURES(refcount->cursor == 0);

#define IT_C0 OLD(refcount->cursor)
#define IT_LAST(rc) ((rc)->list[(rc)->cursor - 1])
ea_key_t ea_refcount_intr_next(ext2_refcount_t refcount, ea_value_t *ret)
	REQUIRES(refcount->list != 0 && refcount->count <= refcount->size && refcount->size <= 2 * EA_CAP)
	ASSIGNS(refcount->cursor; ret != 0: *ret)
	/* nothing left: end, the cursor stays */
	ENSURES(IT_C0 >= refcount->count ==> (RET == 0 && refcount->cursor == IT_C0))
	ENSURES(IT_C0 < refcount->count ==> (refcount->cursor > IT_C0 && refcount->cursor <= refcount->count))
	/* everything stepped over has count 0 (arbitrary ghost index); the entry in front of the new cursor is the candidate */
	ENSURES((IT_C0 < refcount->count && ea_gI >= IT_C0 && ea_gI < refcount->count && ea_gI + 1 < refcount->cursor) ==> refcount->list[ea_gI].ea_value == 0)
	/* a key is returned: it is the key of the candidate, whose count is not 0 and is reported */
	ENSURES(RET != 0 ==> (IT_C0 < refcount->count && RET == IT_LAST(refcount).ea_key && IT_LAST(refcount).ea_value != 0 &&
			      (ret == 0 || *ret == IT_LAST(refcount).ea_value)))
	/* 0 is returned: the cursor is at the end and the candidate has count 0 too (ghost index) — or the candidate is an entry with key 0 */
	ENSURES((RET == 0 && IT_C0 < refcount->count) ==>
		((refcount->cursor == refcount->count && (ea_gI >= refcount->count || ea_gI + 1 != refcount->cursor || refcount->list[ea_gI].ea_value == 0)) ||
		 (IT_LAST(refcount).ea_key == 0 && IT_LAST(refcount).ea_value != 0 && (ret == 0 || *ret == IT_LAST(refcount).ea_value))));
#endif

#ifdef EA_CREATE
errcode_t ea_refcount_create(size_t size, ext2_refcount_t *ret)
	REQUIRES(size <= 2 * EA_CAP)
	ASSIGNS(*ret)
	ENSURES(RET == 0 || RET == EXT2_ET_NO_MEMORY)
	ENSURES(RET != 0 ==> *ret == OLD(*ret))
	ENSURES(RET == 0 ==> ((*ret)->count == 0 && (*ret)->cursor == 0 && (*ret)->size == (size ? size : 500) &&
			      (*ret)->list != 0 && __CPROVER_w_ok((*ret)->list, (*ret)->size * sizeof(struct ea_refcount_el))));
#endif

void h_ea_iter(void)
{
#ifdef EA_ITER
	ea_value_t out;

	LOAD_IN();
	ASSUME(IN.size >= 1 && IN.size <= 2 * EA_CAP && IN.count <= IN.size);
	RC.list = malloc(IN.size * sizeof(struct ea_refcount_el));
	ASSUME(RC.list != 0);
	RC.count = IN.count;
	RC.size = IN.size;
	RC.cursor = IN.cursor;
	ea_gI = IN.i;
	if (IN.exa)
		ea_refcount_intr_begin(&RC);
	ea_refcount_intr_next(&RC, IN.retnull ? (ea_value_t *) 0 : &out);
	if (IN.count > 3 && IN.cursor == 1 && !IN.exa)
		REACH("from the middle");
	if (IN.exa && IN.count > 0)
		REACH("from the start");
	if (IN.cursor > IN.count && !IN.exa)
		REACH("cursor beyond the end");
	REACH("end");
#endif
}

void h_ea_create(void)
{
#ifdef EA_CREATE
	ext2_refcount_t rc = 0;
	errcode_t r;

	LOAD_IN();
	ASSUME(IN.size <= 2 * EA_CAP);
	r = ea_refcount_create(IN.size, &rc);
	if (r == 0) {
		CHECK(ext2fs_get_refcount_size(rc) == (IN.size ? IN.size : 500), "get_size reports the capacity");
		REACH("created");
		ea_refcount_free(rc);
	} else
		CHECK(rc == 0, "nothing returned on failure");
	CHECK(ext2fs_get_refcount_size(0) == 0, "get_size(NULL) == 0");
	ea_refcount_free(0);
	if (IN.size == 0)
		REACH("default size");
	REACH("end");
#endif
}
