/* VERIF-UNIT
{
 "name": "ea_refcount_fetch",
 "props": [
  "C01",
  "C02"
 ],
 "level": "U/k",
 "tier": "quick",
 "harness": "h_ea_fetch",
 "enforce": [
  "ea_refcount_fetch"
 ],
 "replace": [
  "refcount_collapse"
 ],
 "includes": [
  "e2fsck",
  "lib/support"
 ],
 "defines": [
  "EXT2_CUSTOM_MEMORY_ROUTINES"
 ],
 "unwind": 10,
 "unwindset": {
  "get_refcount_el.0": 3,
  "get_refcount_el.1": 1
 },
 "unwind_reason": "binary search closed by its invariant (ghost statements, see ea_common.h): two arrivals at the loop head; create == 0: the 'goto retry' back edge is never taken; 10 covers the loops of the contract-instrumentation library",
 "functions": [
  "e2fsck/ea_refcount.c:ea_refcount_fetch",
  "e2fsck/ea_refcount.c:get_refcount_el"
 ],
 "assumes": [
  "count <= 2^30 entries (the real code indexes with int and computes (low+high)/2; more entries = 16 GiB of list would overflow); size <= 2^31",
  "well_formed (strictly ascending keys) is a universally quantified precondition; it enters as INSTANCES: at the lower bounds of the operation key and of the ghost view key and their predecessors, at the ghost index and its predecessor, at the last entry, at the cursor, and at every index probed by the binary search (ghost statement VERIF_GHOST_GET_REFCOUNT_EL_PROBE = assume of the instance at mid; sound because the list has not been written since the state the invariant speaks about); the lower bounds are arbitrary ghost values constrained only by these instances",
  "the binary-search loop is closed by its invariant, applied by ghost statements at the top of the loop body exactly as a loop contract would be (assert on first arrival, continue from an arbitrary state of the invariant, assert invariant and strictly smaller window on the next arrival, stop): DFCC cannot attach a loop contract to a loop nested in the 'goto retry' loop, and plain unwinding of a binary search is exponential for SAT",
  "after el = get_refcount_el(..) a ghost statement asserts that el is the entry at the lower bound of the key and re-assigns el that same address in typed form (points-to precision only)",
  "needs the ghost anchors of hooks-pending/ds.diff in e2fsck/ea_refcount.c"
 ],
 "native": false,
 "tier_after_hooks": "quick"
}
*/
/* VERIF-UNIT
{
 "name": "ea_refcount_decrement",
 "props": [
  "C01",
  "C02"
 ],
 "level": "U/k",
 "tier": "quick",
 "harness": "h_ea_decrement",
 "enforce": [
  "ea_refcount_decrement"
 ],
 "replace": [
  "refcount_collapse"
 ],
 "includes": [
  "e2fsck",
  "lib/support"
 ],
 "defines": [
  "EXT2_CUSTOM_MEMORY_ROUTINES"
 ],
 "unwind": 10,
 "unwindset": {
  "get_refcount_el.0": 3,
  "get_refcount_el.1": 1
 },
 "unwind_reason": "binary search closed by its invariant (ghost statements, see ea_common.h): two arrivals at the loop head; create == 0: the 'goto retry' back edge is never taken; 10 covers the loops of the contract-instrumentation library",
 "functions": [
  "e2fsck/ea_refcount.c:ea_refcount_decrement",
  "e2fsck/ea_refcount.c:get_refcount_el"
 ],
 "assumes": [
  "count <= 2^30 entries (the real code indexes with int and computes (low+high)/2; more entries = 16 GiB of list would overflow); size <= 2^31",
  "well_formed (strictly ascending keys) is a universally quantified precondition; it enters as INSTANCES: at the lower bounds of the operation key and of the ghost view key and their predecessors, at the ghost index and its predecessor, at the last entry, at the cursor, and at every index probed by the binary search (ghost statement VERIF_GHOST_GET_REFCOUNT_EL_PROBE = assume of the instance at mid; sound because the list has not been written since the state the invariant speaks about); the lower bounds are arbitrary ghost values constrained only by these instances",
  "the binary-search loop is closed by its invariant, applied by ghost statements at the top of the loop body exactly as a loop contract would be (assert on first arrival, continue from an arbitrary state of the invariant, assert invariant and strictly smaller window on the next arrival, stop): DFCC cannot attach a loop contract to a loop nested in the 'goto retry' loop, and plain unwinding of a binary search is exponential for SAT",
  "after el = get_refcount_el(..) a ghost statement asserts that el is the entry at the lower bound of the key and re-assigns el that same address in typed form (points-to precision only)",
  "needs the ghost anchors of hooks-pending/ds.diff in e2fsck/ea_refcount.c"
 ],
 "native": false,
 "tier_after_hooks": "quick"
}
*/
/* VERIF-UNIT
{
 "name": "ea_refcount_increment_room",
 "props": [
  "C01",
  "C02"
 ],
 "level": "U/k",
 "tier": "quick",
 "harness": "h_ea_increment",
 "enforce": [],
 "replace": [
  "refcount_collapse"
 ],
 "includes": [
  "e2fsck",
  "lib/support"
 ],
 "defines": [
  "EXT2_CUSTOM_MEMORY_ROUTINES",
  "EA_SCEN_ROOM",
  "EA_PLAIN"
 ],
 "unwind": 10,
 "unwindset": {
  "get_refcount_el.0": 3,
  "get_refcount_el.1": 1
 },
 "unwind_reason": "binary search closed by its invariant (ghost statements, see ea_common.h): two arrivals at the loop head; scenario count < size: the 'goto retry' back edge is never taken (unwinding assertion); 10 covers the loops of the contract-instrumentation library",
 "functions": [
  "e2fsck/ea_refcount.c:ea_refcount_increment",
  "e2fsck/ea_refcount.c:get_refcount_el",
  "e2fsck/ea_refcount.c:insert_refcount_el"
 ],
 "assumes": [
  "count <= 2^30 entries (the real code indexes with int and computes (low+high)/2; more entries = 16 GiB of list would overflow); size <= 2^31",
  "well_formed (strictly ascending keys) is a universally quantified precondition; it enters as INSTANCES: at the lower bounds of the operation key and of the ghost view key and their predecessors, at the ghost index and its predecessor, at the last entry, at the cursor, and at every index probed by the binary search (ghost statement VERIF_GHOST_GET_REFCOUNT_EL_PROBE = assume of the instance at mid; sound because the list has not been written since the state the invariant speaks about); the lower bounds are arbitrary ghost values constrained only by these instances",
  "the binary-search loop is closed by its invariant, applied by ghost statements at the top of the loop body exactly as a loop contract would be (assert on first arrival, continue from an arbitrary state of the invariant, assert invariant and strictly smaller window on the next arrival, stop): DFCC cannot attach a loop contract to a loop nested in the 'goto retry' loop, and plain unwinding of a binary search is exponential for SAT",
  "after el = get_refcount_el(..) a ghost statement asserts that el is the entry at the lower bound of the key and re-assigns el that same address in typed form (points-to precision only)",
  "needs the ghost anchors of hooks-pending/ds.diff in e2fsck/ea_refcount.c",
  "scenario 'room': count < size on entry (refcount_collapse and the resize are then unreachable: obligations 'never called'); the scenario count == size is unit ea_refcount_increment_grow (and see there for count == size with an entry dropped)",
  "memmove of the list by a ghost-index specification (C standard semantics at the ghost index, rest of the object havocked)",
  "the contract of the operation is stated by the harness (ASSUME precondition, CHECK postconditions) \u2014 no frame (assigns) obligations in this unit: enforcing the frame on the insertion paths exceeds the memory limit; the frame of the lookup paths is checked by ea_refcount_fetch / ea_refcount_decrement"
 ],
 "native": false,
 "tier_after_hooks": "quick"
}
*/
/* VERIF-UNIT
{
 "name": "ea_refcount_increment_grow",
 "props": [
  "C01",
  "C02"
 ],
 "level": "U/k",
 "tier": "thorough",
 "harness": "h_ea_increment",
 "enforce": [],
 "replace": [
  "refcount_collapse"
 ],
 "includes": [
  "e2fsck",
  "lib/support"
 ],
 "defines": [
  "EXT2_CUSTOM_MEMORY_ROUTINES",
  "EA_SCEN_GROW",
  "EA_PLAIN"
 ],
 "unwind": 10,
 "unwindset": {
  "get_refcount_el.0": 3,
  "get_refcount_el.1": 1
 },
 "unwind_reason": "binary search closed by its invariant (ghost statements, see ea_common.h): two arrivals at the loop head; no retry in this scenario (unwinding assertion); 10 covers the loops of the contract-instrumentation library",
 "functions": [
  "e2fsck/ea_refcount.c:ea_refcount_increment",
  "e2fsck/ea_refcount.c:get_refcount_el",
  "e2fsck/ea_refcount.c:insert_refcount_el"
 ],
 "assumes": [
  "count <= 2^30 entries (the real code indexes with int and computes (low+high)/2; more entries = 16 GiB of list would overflow); size <= 2^31",
  "well_formed (strictly ascending keys) is a universally quantified precondition; it enters as INSTANCES: at the lower bounds of the operation key and of the ghost view key and their predecessors, at the ghost index and its predecessor, at the last entry, at the cursor, and at every index probed by the binary search (ghost statement VERIF_GHOST_GET_REFCOUNT_EL_PROBE = assume of the instance at mid; sound because the list has not been written since the state the invariant speaks about); the lower bounds are arbitrary ghost values constrained only by these instances",
  "the binary-search loop is closed by its invariant, applied by ghost statements at the top of the loop body exactly as a loop contract would be (assert on first arrival, continue from an arbitrary state of the invariant, assert invariant and strictly smaller window on the next arrival, stop): DFCC cannot attach a loop contract to a loop nested in the 'goto retry' loop, and plain unwinding of a binary search is exponential for SAT",
  "after el = get_refcount_el(..) a ghost statement asserts that el is the entry at the lower bound of the key and re-assigns el that same address in typed form (points-to precision only)",
  "needs the ghost anchors of hooks-pending/ds.diff in e2fsck/ea_refcount.c",
  "realloc / memmove of the list by ghost-index specifications (C standard semantics at the ghost index, rest of the object havocked)",
  "scenario 'grow': count == size on entry and refcount_collapse (replaced by its contract, see ea_collapse_B4) drops nothing; the complementary outcome ('shrink': an entry was dropped, the code jumps back to 'retry' and starts over on the collapsed list, which has room) exceeds the memory limit as one query; it is the composition of a lookup (frame: ea_refcount_fetch), the collapse contract and the 'room' scenario, and is exercised with the real code on small lists by ea_full_list_B3; the 'goto retry' back edge is then never taken (unwinding assertion)",
  "the contract of the operation is stated by the harness (ASSUME precondition, CHECK postconditions) \u2014 no frame (assigns) obligations in this unit: enforcing the frame on the insertion paths exceeds the memory limit; the frame of the lookup paths is checked by ea_refcount_fetch / ea_refcount_decrement"
 ],
 "native": false,
 "timeout": 900,
 "no_cross_check": true,
 "tier_after_hooks": "thorough"
}
*/
/* VERIF-UNIT
{
 "name": "ea_refcount_store_room",
 "props": [
  "C01",
  "C02"
 ],
 "level": "U/k",
 "tier": "quick",
 "harness": "h_ea_store",
 "enforce": [],
 "replace": [
  "refcount_collapse"
 ],
 "includes": [
  "e2fsck",
  "lib/support"
 ],
 "defines": [
  "EXT2_CUSTOM_MEMORY_ROUTINES",
  "EA_SCEN_ROOM",
  "EA_PLAIN"
 ],
 "unwind": 10,
 "unwindset": {
  "get_refcount_el.0": 3,
  "get_refcount_el.1": 1
 },
 "unwind_reason": "binary search closed by its invariant (ghost statements, see ea_common.h): two arrivals at the loop head; scenario count < size: the 'goto retry' back edge is never taken (unwinding assertion); 10 covers the loops of the contract-instrumentation library",
 "functions": [
  "e2fsck/ea_refcount.c:ea_refcount_store",
  "e2fsck/ea_refcount.c:get_refcount_el",
  "e2fsck/ea_refcount.c:insert_refcount_el"
 ],
 "assumes": [
  "count <= 2^30 entries (the real code indexes with int and computes (low+high)/2; more entries = 16 GiB of list would overflow); size <= 2^31",
  "well_formed (strictly ascending keys) is a universally quantified precondition; it enters as INSTANCES: at the lower bounds of the operation key and of the ghost view key and their predecessors, at the ghost index and its predecessor, at the last entry, at the cursor, and at every index probed by the binary search (ghost statement VERIF_GHOST_GET_REFCOUNT_EL_PROBE = assume of the instance at mid; sound because the list has not been written since the state the invariant speaks about); the lower bounds are arbitrary ghost values constrained only by these instances",
  "the binary-search loop is closed by its invariant, applied by ghost statements at the top of the loop body exactly as a loop contract would be (assert on first arrival, continue from an arbitrary state of the invariant, assert invariant and strictly smaller window on the next arrival, stop): DFCC cannot attach a loop contract to a loop nested in the 'goto retry' loop, and plain unwinding of a binary search is exponential for SAT",
  "after el = get_refcount_el(..) a ghost statement asserts that el is the entry at the lower bound of the key and re-assigns el that same address in typed form (points-to precision only)",
  "needs the ghost anchors of hooks-pending/ds.diff in e2fsck/ea_refcount.c",
  "scenario 'room': count < size on entry (refcount_collapse and the resize are then unreachable: obligations 'never called'); the scenario count == size is unit ea_refcount_store_grow (and see there for count == size with an entry dropped)",
  "memmove of the list by a ghost-index specification (C standard semantics at the ghost index, rest of the object havocked)",
  "the contract of the operation is stated by the harness (ASSUME precondition, CHECK postconditions) \u2014 no frame (assigns) obligations in this unit: enforcing the frame on the insertion paths exceeds the memory limit; the frame of the lookup paths is checked by ea_refcount_fetch / ea_refcount_decrement"
 ],
 "native": false,
 "tier_after_hooks": "quick"
}
*/
/* VERIF-UNIT
{
 "name": "ea_refcount_store_grow",
 "props": [
  "C01",
  "C02"
 ],
 "level": "U/k",
 "tier": "thorough",
 "harness": "h_ea_store",
 "enforce": [],
 "replace": [
  "refcount_collapse"
 ],
 "includes": [
  "e2fsck",
  "lib/support"
 ],
 "defines": [
  "EXT2_CUSTOM_MEMORY_ROUTINES",
  "EA_SCEN_GROW",
  "EA_PLAIN"
 ],
 "unwind": 10,
 "unwindset": {
  "get_refcount_el.0": 3,
  "get_refcount_el.1": 1
 },
 "unwind_reason": "binary search closed by its invariant (ghost statements, see ea_common.h): two arrivals at the loop head; no retry in this scenario (unwinding assertion); 10 covers the loops of the contract-instrumentation library",
 "functions": [
  "e2fsck/ea_refcount.c:ea_refcount_store",
  "e2fsck/ea_refcount.c:get_refcount_el",
  "e2fsck/ea_refcount.c:insert_refcount_el"
 ],
 "assumes": [
  "count <= 2^30 entries (the real code indexes with int and computes (low+high)/2; more entries = 16 GiB of list would overflow); size <= 2^31",
  "well_formed (strictly ascending keys) is a universally quantified precondition; it enters as INSTANCES: at the lower bounds of the operation key and of the ghost view key and their predecessors, at the ghost index and its predecessor, at the last entry, at the cursor, and at every index probed by the binary search (ghost statement VERIF_GHOST_GET_REFCOUNT_EL_PROBE = assume of the instance at mid; sound because the list has not been written since the state the invariant speaks about); the lower bounds are arbitrary ghost values constrained only by these instances",
  "the binary-search loop is closed by its invariant, applied by ghost statements at the top of the loop body exactly as a loop contract would be (assert on first arrival, continue from an arbitrary state of the invariant, assert invariant and strictly smaller window on the next arrival, stop): DFCC cannot attach a loop contract to a loop nested in the 'goto retry' loop, and plain unwinding of a binary search is exponential for SAT",
  "after el = get_refcount_el(..) a ghost statement asserts that el is the entry at the lower bound of the key and re-assigns el that same address in typed form (points-to precision only)",
  "needs the ghost anchors of hooks-pending/ds.diff in e2fsck/ea_refcount.c",
  "realloc / memmove of the list by ghost-index specifications (C standard semantics at the ghost index, rest of the object havocked)",
  "scenario 'grow': count == size on entry and refcount_collapse (replaced by its contract, see ea_collapse_B4) drops nothing; the complementary outcome ('shrink': an entry was dropped, the code jumps back to 'retry' and starts over on the collapsed list, which has room) exceeds the memory limit as one query; it is the composition of a lookup (frame: ea_refcount_fetch), the collapse contract and the 'room' scenario, and is exercised with the real code on small lists by ea_full_list_B3; the 'goto retry' back edge is then never taken (unwinding assertion)",
  "the contract of the operation is stated by the harness (ASSUME precondition, CHECK postconditions) \u2014 no frame (assigns) obligations in this unit: enforcing the frame on the insertion paths exceeds the memory limit; the frame of the lookup paths is checked by ea_refcount_fetch / ea_refcount_decrement"
 ],
 "native": false,
 "timeout": 900,
 "no_cross_check": true,
 "tier_after_hooks": "thorough"
}
*/
#include "ea_common.h"

/*
 * The public operations as operations of a map key -> count (absent = 0), for an ARBITRARY ghost key K:
 *   fetch(A)      returns view(A); nothing changes
 *   increment(A)  view(A) += 1 (mod 2^64, the value type), every other key unchanged; reports the new count;
 *                 may fail with EXT2_ET_NO_MEMORY, then no view changes
 *   decrement(A)  view(A) == 0: EXT2_ET_INVALID_ARGUMENT, nothing changes; otherwise view(A) -= 1, others unchanged
 *   store(A, v)   view(A) = v, others unchanged; may fail with EXT2_ET_NO_MEMORY only for v != 0, then nothing changes
 * Each REQUIRES well_formed (EA_PRE) and ENSURES well_formed (EA_POST_OK: at the arbitrary index ea_gI, for the arbitrary
 * key K) and the view of K.  The postconditions are macros so that the units that cannot afford the frame
 * instrumentation state the same contract through the harness (EA_PLAIN).
 */
#define FETCH_POST(rc, r, out) \
	((r) == 0 && EA_SAMECOUNT(rc) && EA_POST_OK(rc, EA_QK(rc), ea_gV) && (ea_gK != ea_gA || (out) == ea_gV))
#define INCREMENT_POST(rc, r, retp) \
	(((r) == 0 || (r) == EXT2_ET_NO_MEMORY) && \
	 ((r) == 0 ? (EA_SAMECOUNT(rc) || EA_ADDED(rc)) : EA_SAMECOUNT(rc)) && \
	 EA_POST_OK(rc, EA_QK(rc), ea_gV + (((r) == 0 && ea_gK == ea_gA) ? 1 : 0)) && \
	 (!((r) == 0 && (retp) != 0 && ea_gK == ea_gA) || *(retp) == ea_gV + 1))
#define DECREMENT_POST(rc, r, retp) \
	(((r) == 0 || (r) == EXT2_ET_INVALID_ARGUMENT) && EA_SAMECOUNT(rc) && \
	 (ea_gK != ea_gA || (((r) != 0) == (ea_gV == 0))) && \
	 EA_POST_OK(rc, EA_QK(rc), ea_gV - (((r) == 0 && ea_gK == ea_gA) ? 1 : 0)) && \
	 (!((r) == 0 && (retp) != 0 && ea_gK == ea_gA) || *(retp) == ea_gV - 1))
#define STORE_POST(rc, r, val) \
	(((r) == 0 || ((r) == EXT2_ET_NO_MEMORY && (val) != 0)) && \
	 (((r) == 0 && (val) != 0) ? (EA_SAMECOUNT(rc) || EA_ADDED(rc)) : EA_SAMECOUNT(rc)) && \
	 EA_POST_OK(rc, EA_QK(rc), ((r) == 0 && ea_gK == ea_gA) ? (val) : ea_gV))

#ifndef EA_PLAIN
errcode_t ea_refcount_fetch(ext2_refcount_t refcount, ea_key_t ea_key, ea_value_t *ret)
	REQUIRES(EA_PRE(refcount, ea_key))
	ASSIGNS(*ret, refcount->cursor, ea_dec)
	ENSURES(FETCH_POST(refcount, RET, *ret));

errcode_t ea_refcount_decrement(ext2_refcount_t refcount, ea_key_t ea_key, ea_value_t *ret)
	REQUIRES(EA_PRE(refcount, ea_key))
	ASSIGNS(ret != 0: *ret; refcount->cursor, __CPROVER_object_whole(refcount->list), ea_dec)
	ENSURES(DECREMENT_POST(refcount, RET, ret));

errcode_t ea_refcount_increment(ext2_refcount_t refcount, ea_key_t ea_key, ea_value_t *ret)
	REQUIRES(EA_PRE(refcount, ea_key) && refcount->count < EA_CAP)
	ASSIGNS(ret != 0: *ret; EA_MUTABLE(refcount))
	ENSURES(INCREMENT_POST(refcount, RET, ret));

errcode_t ea_refcount_store(ext2_refcount_t refcount, ea_key_t ea_key, ea_value_t ea_value)
	REQUIRES(EA_PRE(refcount, ea_key) && refcount->count < EA_CAP)
	ASSIGNS(EA_MUTABLE(refcount))
	ENSURES(STORE_POST(refcount, RET, ea_value));
#endif

static void build(void)
{
	LOAD_IN();
	ASSUME(IN.size >= 1 && IN.size <= 2 * EA_CAP && IN.count <= IN.size && IN.count <= EA_CAP);
	RC.list = malloc(IN.size * sizeof(struct ea_refcount_el));
	ASSUME(RC.list != 0);
	RC.count = IN.count;
	RC.size = IN.size;
	RC.cursor = IN.cursor;
	ea_gA = IN.a; ea_gPA = IN.pa;
	ea_gK = IN.k; ea_gPK = IN.pk;
	ea_gI = IN.i;
	ea_gV = IN.v0;
	ea_gCount0 = IN.count;
	ea_gExA = IN.exa;
	ea_gKeyI0 = IN.keyi; ea_gValI0 = IN.vali;
	ea_collapsed = 0;
	ea_gPA2 = ea_gPK2 = ea_gCount2 = 0;
	ea_dec = 0;
#if defined(EA_SCEN_ROOM)
	ASSUME(IN.count < IN.size);
#elif defined(EA_SCEN_SHRINK) || defined(EA_SCEN_GROW)
	ASSUME(IN.count == IN.size);
#endif
}

void h_ea_fetch(void)
{
	ea_value_t out;

	build();
	ea_refcount_fetch(&RC, IN.a, &out);
	if (IN.count > 2 && IN.cursor != IN.pa && IN.pa < IN.count && IN.k == IN.a && IN.v0 == 7)
		REACH("found by binary search");
	if (IN.count > 0 && IN.cursor == IN.pa)
		REACH("cursor position");
	if (IN.count == 0)
		REACH("empty");
	REACH("end");
}

void h_ea_decrement(void)
{
	ea_value_t out;

	build();
	ea_refcount_decrement(&RC, IN.a, IN.retnull ? (ea_value_t *) 0 : &out);
	if (IN.count > 2 && IN.pa < IN.count && IN.k == IN.a && IN.v0 == 7)
		REACH("present");
	if (IN.k == IN.a && IN.v0 == 0)
		REACH("underflow");
	REACH("end");
}

void h_ea_increment(void)
{
	ea_value_t out, *retp;
	errcode_t r;

	build();
	retp = IN.retnull ? (ea_value_t *) 0 : &out;
#ifdef EA_PLAIN
	ASSUME(EA_PRE(&RC, IN.a) && RC.count < EA_CAP);
#endif
	r = ea_refcount_increment(&RC, IN.a, retp);
#ifdef EA_PLAIN
	CHECK(INCREMENT_POST(&RC, r, retp), "increment: view(A) + 1, every other view unchanged, list well-formed; or ENOMEM and no view changed");
#endif
	if (IN.count > 2 && IN.pa > 0 && IN.pa < IN.count && IN.k > IN.a)
		REACH("insert or hit in the middle");
	if (IN.pa == IN.count)
		REACH("append");
#ifdef EA_SCEN_ROOM
	if (IN.count == 0)
		REACH("empty");
#endif
	REACH("end");
}

void h_ea_store(void)
{
	errcode_t r;

	build();
#ifdef EA_PLAIN
	ASSUME(EA_PRE(&RC, IN.a) && RC.count < EA_CAP);
#endif
	r = ea_refcount_store(&RC, IN.a, IN.v);
#ifdef EA_PLAIN
	CHECK(STORE_POST(&RC, r, IN.v), "store: view(A) = v, every other view unchanged, list well-formed; or ENOMEM (v != 0 only) and no view changed");
#endif
	if (IN.count > 2 && IN.pa > 0 && IN.pa < IN.count && IN.k > IN.a && IN.v != 0)
		REACH("insert or hit in the middle");
	if (IN.pa == IN.count && IN.v != 0)
		REACH("append");
	if (IN.v == 0)
		REACH("store zero");
	REACH("end");
}
