/* VERIF-UNIT
{
 "name": "bb_u32_list_find",
 "props": [
  "C02",
  "C06"
 ],
 "level": "U",
 "tier": "quick",
 "harness": "h_bb_find",
 "enforce": [
  "ext2fs_u32_list_find"
 ],
 "loop_contracts": true,
 "defines": [
  "EXT2_CUSTOM_MEMORY_ROUTINES"
 ],
 "unwind": 10,
 "unwind_reason": "no loop of the real code is unwound (in-place loop contract); 10 covers the loops of the contract-instrumentation library",
 "functions": [
  "lib/ext2fs/badblocks.c:ext2fs_u32_list_find",
  "lib/ext2fs/badblocks.c:ext2fs_u32_list_test"
 ],
 "assumes": [
  "num <= size <= 2^30 (int fields)",
  "well_formed (strictly ascending) is a universally quantified precondition; it enters as INSTANCES: at the first and the last entry, at the lower bound of the key (arbitrary ghost position constrained only by these instances) and at every entry the binary search probes (ghost statement VERIF_GHOST_U32_LIST_FIND_PROBE = assume of the instance at mid; the list is not written by the search)",
  "needs the loop anchors of hooks-pending/ds.diff in lib/ext2fs/badblocks.c"
 ],
 "native": false,
 "tier_after_hooks": "quick"
}
*/
/*
 * lib/ext2fs/badblocks.c:ext2fs_u32_list_find / _test — binary search (the variant that keeps list[low] < blk < list[high]
 * and stops when the window has no interior).
 *
 * Statement: on a well-formed list find returns the index of the key if the set contains it and -1 otherwise, and writes
 * nothing; test returns 1 / 0 accordingly; a handle with a wrong magic number: -1 / 0.
 */
#define VERIF_INV_U32_LIST_FIND \
	__CPROVER_assigns(low, high, mid) \
	__CPROVER_loop_invariant(0 <= low && low <= high && high < bb->num) \
	__CPROVER_loop_invariant(!BB_EX(bb, blk, bb_gPA) || ((unsigned long long) low < bb_gPA && bb_gPA < (unsigned long long) high)) \
	__CPROVER_decreases(high - low)
#include "bb_common.h"

static void build(void)
{
	LOAD_IN();
	ASSUME(IN.size >= 1 && IN.size <= BB_CAP && IN.num >= 0 && IN.num <= IN.size);
	BB.list = malloc((unsigned long) IN.size * sizeof(__u32));
	ASSUME(BB.list != 0);
	BB.magic = IN.magic_ok ? EXT2_ET_MAGIC_BADBLOCKS_LIST : EXT2_ET_MAGIC_BADBLOCKS_LIST + 1;
	BB.num = IN.num;
	BB.size = IN.size;
	BB.badblocks_flags = 0;
	bb_gA = IN.a; bb_gPA = IN.pa;
	bb_gK = IN.k; bb_gPK = IN.pk;
	bb_gG = IN.g;
	bb_oG = IN.og; bb_oGm1 = IN.ogm1; bb_oGp1 = IN.ogp1;
	bb_gNum0 = IN.num;
}

void h_bb_find(void)
{
	int r, t;

	build();
	if (IN.ogm1 & 1) {	/* one top-level call per run: find itself ... */
		r = ext2fs_u32_list_find(&BB, IN.a);
	} else {		/* ... or through test */
		t = ext2fs_u32_list_test(&BB, IN.a);
		CHECK(t == (IN.magic_ok && BB_EX(&BB, IN.a, bb_gPA)), "test: 1 iff the key is a member");
		REACH("test");
	}
	if (IN.magic_ok && IN.num > 4 && IN.pa > 1 && IN.pa < (unsigned) IN.num - 2)
		REACH("interior");
	if (IN.magic_ok && IN.num == 0)
		REACH("empty");
	if (!IN.magic_ok)
		REACH("bad magic");
	REACH("end");
}
