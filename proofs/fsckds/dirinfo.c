/* VERIF-UNIT
{
 "name": "dirinfo_get",
 "props": [
  "C01",
  "C02"
 ],
 "level": "U",
 "tier": "quick",
 "harness": "h_di_get",
 "enforce": [
  "e2fsck_get_dir_info"
 ],
 "loop_contracts": true,
 "includes": [
  "e2fsck",
  "lib/support"
 ],
 "defines": [
  "EXT2_CUSTOM_MEMORY_ROUTINES",
  "DI_GET"
 ],
 "unwind": 10,
 "unwind_reason": "no loop of the real code is unwound (in-place loop contract); 10 covers the loops of the contract-instrumentation library",
 "functions": [
  "e2fsck/dirinfo.c:e2fsck_get_dir_info"
 ],
 "assumes": [
  "in-memory array mode (tdb == NULL); 1 <= count <= size <= 2^30: the database exists only after the first e2fsck_add_dir_info, so count >= 1 (with count == 0 the real code would read array[0xffffffff])",
  "well_formed (strictly ascending inode numbers) enters as INSTANCES: first and last entry, lower bound of the inode number, last_lookup, and every entry the binary search probes (ghost statement VERIF_GHOST_GET_DIR_INFO_PROBE)",
  "needs the anchors of hooks-pending/ds.diff in e2fsck/dirinfo.c"
 ],
 "native": false,
 "tier_after_hooks": "quick"
}
*/
/* VERIF-UNIT
{
 "name": "dirinfo_accessors",
 "props": [
  "C01",
  "C02"
 ],
 "level": "U",
 "tier": "thorough",
 "harness": "h_di_acc",
 "loop_contracts": true,
 "includes": [
  "e2fsck",
  "lib/support"
 ],
 "defines": [
  "EXT2_CUSTOM_MEMORY_ROUTINES",
  "DI_ACC"
 ],
 "unwind": 10,
 "unwind_reason": "no loop of the real code is unwound (in-place loop contract in e2fsck_get_dir_info); 10 covers the loops of the contract-instrumentation library",
 "functions": [
  "e2fsck/dirinfo.c:e2fsck_dir_info_set_parent",
  "e2fsck/dirinfo.c:e2fsck_dir_info_set_dotdot",
  "e2fsck/dirinfo.c:e2fsck_dir_info_get_parent",
  "e2fsck/dirinfo.c:e2fsck_dir_info_get_dotdot",
  "e2fsck/dirinfo.c:e2fsck_get_dir_info"
 ],
 "assumes": [
  "as dirinfo_get; the contract of each accessor is stated by the harness (ASSUME precondition, CHECK postconditions), the real e2fsck_get_dir_info runs inside"
 ],
 "native": false,
 "timeout": 600,
 "tier_after_hooks": "thorough"
}
*/
/* VERIF-UNIT
{
 "name": "dirinfo_add_room",
 "props": [
  "C01",
  "C02"
 ],
 "level": "U",
 "tier": "thorough",
 "harness": "h_di_add",
 "enforce": [
  "e2fsck_add_dir_info"
 ],
 "loop_contracts": true,
 "includes": [
  "e2fsck",
  "lib/support"
 ],
 "defines": [
  "EXT2_CUSTOM_MEMORY_ROUTINES",
  "DI_ADD",
  "fprintf(...)=di_fprintf()",
  "DI_SCEN_ROOM"
 ],
 "unwind": 10,
 "unwind_reason": "no loop of the real code is unwound (in-place loop contracts on the backward scan and on the shift); 10 covers the loops of the contract-instrumentation library",
 "functions": [
  "e2fsck/dirinfo.c:e2fsck_add_dir_info"
 ],
 "assumes": [
  "in-memory array mode, the database exists (setup_db, the profile / tdb set-up, is outside this unit); count <= size <= 2^30",
  "well_formed enters as INSTANCES: last entry, lower bounds of the new inode number and of the ghost inode and their predecessors, the ghost index and its predecessor, and the entry in front of the position the backward scan stops at (ghost statement VERIF_GHOST_ADD_DIR_INFO_FOUND = assume of the instance at i-1; the array has not been written before, a realloc keeps the contents)",
  "fprintf is mapped to a fixed-arity stub (variadic calls cannot pass the frame instrumentation)",
  "scenario 'room': count < size (the resize is unreachable: obligation); count == size is dirinfo_add_grow"
 ],
 "native": false,
 "backend": "cadical",
 "timeout": 900,
 "no_cross_check": true,
 "tier_after_hooks": "thorough"
}
*/
/* VERIF-UNIT
{
 "name": "dirinfo_add_grow",
 "props": [
  "C01",
  "C02"
 ],
 "level": "U",
 "tier": "thorough",
 "harness": "h_di_add",
 "enforce": [
  "e2fsck_add_dir_info"
 ],
 "loop_contracts": true,
 "includes": [
  "e2fsck",
  "lib/support"
 ],
 "defines": [
  "EXT2_CUSTOM_MEMORY_ROUTINES",
  "DI_ADD",
  "fprintf(...)=di_fprintf()",
  "DI_SCEN_GROW"
 ],
 "unwind": 10,
 "unwind_reason": "no loop of the real code is unwound (in-place loop contracts on the backward scan and on the shift); 10 covers the loops of the contract-instrumentation library",
 "functions": [
  "e2fsck/dirinfo.c:e2fsck_add_dir_info"
 ],
 "assumes": [
  "in-memory array mode, the database exists (setup_db, the profile / tdb set-up, is outside this unit); count <= size <= 2^30",
  "well_formed enters as INSTANCES: last entry, lower bounds of the new inode number and of the ghost inode and their predecessors, the ghost index and its predecessor, and the entry in front of the position the backward scan stops at (ghost statement VERIF_GHOST_ADD_DIR_INFO_FOUND = assume of the instance at i-1; the array has not been written before, a realloc keeps the contents)",
  "realloc by a ghost-index specification (new or same object, contents kept at the ghost indices); when it fails the real code calls fatal_error, which does not return (stub: end of path)",
  "fprintf is mapped to a fixed-arity stub (variadic calls cannot pass the frame instrumentation)",
  "scenario 'grow': count == size (the array is resized by 10 entries); count < size is dirinfo_add_room"
 ],
 "native": false,
 "backend": "cadical",
 "timeout": 900,
 "no_cross_check": true,
 "tier_after_hooks": "thorough"
}
*/
/*
 * e2fsck/dirinfo.c, in-memory array — pass 1 records every directory (e2fsck_add_dir_info), pass 2 stores the inode
 * its '..' entry names (set_dotdot), pass 3 compares it with the parent found by the tree walk (get/set_parent,
 * get_dotdot) and reconnects or fixes '..' when they differ (C02 reachability, C01: a lost or invented entry makes pass 3
 * "repair" a healthy directory or skip a broken one).
 *
 * ABSTRACT VIEW: a map directory inode -> (parent, dotdot), observed at ONE arbitrary ghost inode K:
 *        present(K) = (P < count && array[P].ino == K), P = lower bound of K;  parent(K), dotdot(K) = fields of array[P]
 * well_formed: array != NULL, count <= size, array[0..count) strictly ascending in ino, last_lookup NULL or an entry.
 *   get_dir_info(A)            the entry of A, or NULL if A has none; writes nothing
 *   set_parent / set_dotdot    0 and the field of A updated, nothing else; 1 if A has no entry and nothing changes
 *   get_parent / get_dotdot    0 and the field of A; 1 if A has no entry
 *   add_dir_info(A, parent)    present'(K) = present(K) || K == A; parent'(A) = dotdot'(A) = parent (also when A already had
 *                              an entry); every other entry unchanged; count' = count + (A was absent); well-formed.
 */
#include "verif.h"
#include "fsckds_sorted.h"
struct in_di {
	unsigned int count, size;
	unsigned int a, k, x;
	unsigned long long pa, pk, i, ll;
	unsigned int m, vp, vd;			/* view of K: present, parent, dotdot */
	unsigned int oi[3], oim[3];		/* entries at I and I-1 in the pre-state: ino, dotdot, parent */
	unsigned char exa, has_ll, op, inplace;
};
struct in_di IN;
#include "verif_in.h"

#define _GNU_SOURCE 1
#include "config.h"
#include <string.h>
#include <stdlib.h>
#include <stdio.h>
long ext2fs_get_mem(unsigned long size, void *ptr);
long ext2fs_free_mem(void *ptr);
long ext2fs_resize_mem(unsigned long old_size, unsigned long size, void *ptr);
int di_fprintf(void);

unsigned long long di_gA, di_gPA, di_gK, di_gPK, di_gI, di_gLL;
unsigned int di_gM, di_gVP, di_gVD, di_gCount0;
unsigned int di_oI[3], di_oIm[3];
int di_gExA;
#define DI_CAP (1u << 30)
#define DI_NONE (~0ULL)
#define DI_ARR ctx->dir_info->array
#define DI_CNT ((unsigned long long) ctx->dir_info->count)

/* e2fsck_get_dir_info */
#define DI_EXA (di_gPA < DI_CNT && DI_ARR[di_gPA].ino == ino)
#define VERIF_INV_GET_DIR_INFO \
	__CPROVER_assigns(low, high, mid) \
	__CPROVER_loop_invariant(low <= high && high < ctx->dir_info->count) \
	__CPROVER_loop_invariant(!DI_EXA || ((unsigned long long) low < di_gPA && di_gPA < (unsigned long long) high)) \
	__CPROVER_decreases(high - low)
#define VERIF_GHOST_GET_DIR_INFO_PROBE \
	__CPROVER_assume(FSCKDS_PART(DI_ARR[mid].ino, (unsigned long long) mid, DI_CNT, (unsigned long long) ino, di_gPA));
#define VERIF_GHOST_DIR_INFO_P \
	if (p) { \
		__CPROVER_assert(di_gPA < DI_CNT && p == &DI_ARR[di_gPA], "e2fsck_get_dir_info returns the entry at the lower bound of the inode number"); \
		p = &DI_ARR[di_gPA]; \
	}
/* e2fsck_add_dir_info: backward scan — every entry from i on is >= ino (instantiated at the ghost index PA-1) */
#define VERIF_INV_ADD_DIR_INFO_SCAN \
	__CPROVER_assigns(i) \
	__CPROVER_loop_invariant(i < ctx->dir_info->count) \
	__CPROVER_loop_invariant(!(di_gPA >= 1 && di_gPA - 1 >= (unsigned long long) i && di_gPA - 1 < DI_CNT) || DI_ARR[di_gPA - 1].ino >= ino) \
	__CPROVER_decreases(i)
#define VERIF_GHOST_ADD_DIR_INFO_FOUND \
	if (i > 0) \
		__CPROVER_assume(FSCKDS_PART(DI_ARR[i - 1].ino, (unsigned long long) (i - 1), DI_CNT, (unsigned long long) ino, di_gPA)); \
	__CPROVER_assert((unsigned long long) i == di_gPA, "the backward scan stops at the lower bound of the inode number");
/* the slot of the new entry, in its typed form (dir is merged from two places and, after a realloc, over two objects) */
#define VERIF_GHOST_ADD_DIR_INFO_DIR \
	__CPROVER_assert(di_gPA < DI_CNT && dir == &DI_ARR[di_gPA], "the entry is written at the lower bound of the inode number"); \
	dir = &DI_ARR[di_gPA];
/* shift of the tail by one (count has already been incremented: the old count is di_gCount0) */
#define DI_EQ(e, o) ((e).ino == (o)[0] && (e).dotdot == (o)[1] && (e).parent == (o)[2])
#define VERIF_INV_ADD_DIR_INFO_SHIFT \
	__CPROVER_assigns(j, __CPROVER_object_whole(ctx->dir_info->array)) \
	__CPROVER_loop_invariant(i <= j && j <= di_gCount0 && ctx->dir_info->count == di_gCount0 + 1 && di_gCount0 < ctx->dir_info->size) \
	__CPROVER_loop_invariant(di_gI > (unsigned long long) di_gCount0 || \
		((di_gI > (unsigned long long) j) ? DI_EQ(DI_ARR[di_gI], di_oIm) : \
		 (di_gI >= (unsigned long long) di_gCount0 || DI_EQ(DI_ARR[di_gI], di_oI)))) \
	__CPROVER_loop_invariant(di_gI == 0 || di_gI - 1 > (unsigned long long) j || di_gI - 1 >= (unsigned long long) di_gCount0 || \
				 DI_EQ(DI_ARR[di_gI - 1], di_oIm)) \
	__CPROVER_decreases(j - i)

#include "e2fsck/dirinfo.c"

static struct e2fsck_struct CTX;
static struct dir_info_db DB;

long ext2fs_get_mem(unsigned long size, void *ptr) { (void) size; (void) ptr; return EXT2_ET_NO_MEMORY; }
long ext2fs_free_mem(void *ptr) { void **pp = (void **) ptr; free(*pp); *pp = 0; return 0; }
int di_fprintf(void) { return 0; }
void fatal_error(e2fsck_t ctx, const char *msg)
{
	(void) ctx; (void) msg;
	__CPROVER_assume(0);	/* exits */
}
/* ghost-index specification of realloc: contents kept at the ghost indices; moves the block or not; may fail */
#define DI_KEEP(n, IDX) unsigned long long idx##n = (IDX); int in##n = idx##n < nold && idx##n < nnew; struct dir_info keep##n; if (in##n) keep##n = old[idx##n]
#define DI_RESTORE(n) if (in##n) new[idx##n] = keep##n
long ext2fs_resize_mem(unsigned long old_size, unsigned long size, void *ptr)
{
	struct dir_info **pp = (struct dir_info **) ptr, *old = *pp, *new;
	unsigned long long nold = old_size / sizeof(*old), nnew = size / sizeof(*old);

#ifdef DI_SCEN_ROOM
	__CPROVER_assert(0, "scenario 'room': the array is never resized");
	__CPROVER_assume(0);
#endif
	__CPROVER_assert(__CPROVER_r_ok(old, old_size), "realloc: old_size bytes of the old array are allocated");
	__CPROVER_assert(size % sizeof(*old) == 0 && size >= old_size, "realloc: whole entries, the array only grows");
	DI_KEEP(0, di_gI); DI_KEEP(1, di_gI - 1); DI_KEEP(2, di_gPA); DI_KEEP(3, di_gPA - 1); DI_KEEP(4, di_gPK);
	DI_KEEP(5, (unsigned long long) di_gCount0 - 1);
	new = malloc(nnew * sizeof(struct dir_info));
	if (!new)
		return EXT2_ET_NO_MEMORY;
	DI_RESTORE(0); DI_RESTORE(1); DI_RESTORE(2); DI_RESTORE(3); DI_RESTORE(4); DI_RESTORE(5);
	free(old);
	*pp = new;
	return 0;
}

/* ---------------------------------------------------------------- spec functions (each entry read once) */
#define DI_PART2(k, i, n) (FSCKDS_PART(k, i, n, di_gA, di_gPA) && FSCKDS_PART(k, i, n, di_gK, di_gPK))
static int DI_PRE(const struct dir_info_db *db, ext2_ino_t ino, int need_one)
{
	unsigned long long n = db->count, i, k;
	int ok = 1;

	if (!(db->tdb == 0 && db->array != 0 && db->count <= db->size && db->size >= 1 && db->size <= DI_CAP))
		return 0;
	if (need_one && db->count < 1)
		return 0;
	if (!(ino == di_gA && db->count == di_gCount0 && di_gPA <= n && di_gPK <= n))
		return 0;
	if (di_gPA < n) {
		k = db->array[di_gPA].ino;
		ok = ok && DI_PART2(k, di_gPA, n) && (di_gExA != 0) == (k == di_gA);
	} else
		ok = ok && di_gExA == 0;
	if (di_gPA >= 1 && di_gPA - 1 < n) {
		k = db->array[di_gPA - 1].ino;
		ok = ok && DI_PART2(k, di_gPA - 1, n);
	}
	if (di_gPK < n) {
		k = db->array[di_gPK].ino;
		ok = ok && DI_PART2(k, di_gPK, n) && (di_gM != 0) == (k == di_gK);
		if (k == di_gK)
			ok = ok && db->array[di_gPK].parent == di_gVP && db->array[di_gPK].dotdot == di_gVD;
	} else
		ok = ok && di_gM == 0;
	i = di_gI;
	if (i < n) {
		k = db->array[i].ino;
		ok = ok && DI_PART2(k, i, n) && DI_EQ(db->array[i], di_oI);
	}
	i = di_gI - 1;
	if (di_gI >= 1 && i < n) {
		k = db->array[i].ino;
		ok = ok && DI_PART2(k, i, n) && DI_EQ(db->array[i], di_oIm);
	}
	if (n >= 1) {
		k = db->array[0].ino;
		ok = ok && DI_PART2(k, 0, n);
		i = n - 1;
		k = db->array[i].ino;
		ok = ok && DI_PART2(k, i, n);
	}
	if (di_gLL == DI_NONE)
		ok = ok && db->last_lookup == 0;
	else {
		ok = ok && di_gLL < n && db->last_lookup == &db->array[di_gLL];
		if (di_gLL < n) {
			k = db->array[di_gLL].ino;
			ok = ok && DI_PART2(k, di_gLL, n);
		}
	}
	return ok;
}
/* post-state at the arbitrary index I for the arbitrary inode K with lower bound QK; view of K: (M, VP, VD) */
static int DI_POST_OK(const struct dir_info_db *db, unsigned long long QK, unsigned int M, unsigned int VP, unsigned int VD)
{
	unsigned long long n = db->count, i = di_gI, k;

	if (!(db->array != 0 && db->count <= db->size && QK <= n))
		return 0;
	if (QK == n && M != 0)
		return 0;
	if (i < n) {
		k = db->array[i].ino;
		if (!FSCKDS_PART(k, i, n, di_gK, QK))
			return 0;
		if (i == QK) {
			if ((M != 0) != (k == di_gK))
				return 0;
			if (M != 0 && !(db->array[i].parent == VP && db->array[i].dotdot == VD))
				return 0;
		}
	}
	return 1;
}

#ifdef DI_GET
static struct dir_info *e2fsck_get_dir_info(e2fsck_t ctx, ext2_ino_t ino)
	REQUIRES(ctx->dir_info != 0 && DI_PRE(ctx->dir_info, ino, 1))
	ASSIGNS()
	ENSURES(RET == (DI_EXA ? &DI_ARR[di_gPA] : (struct dir_info *) 0));
#endif
#ifdef DI_ADD
#define DI_QK(ctx) (di_gPK + ((!di_gExA && di_gA < di_gK) ? 1 : 0))
void e2fsck_add_dir_info(e2fsck_t ctx, ext2_ino_t ino, ext2_ino_t parent)
	REQUIRES(ctx->dir_info != 0 && DI_PRE(ctx->dir_info, ino, 0))
	ASSIGNS(ctx->dir_info->count, ctx->dir_info->size, ctx->dir_info->array, ctx->dir_info->last_lookup,
		__CPROVER_object_whole(ctx->dir_info->array))
	__CPROVER_frees(ctx->dir_info->array)
	ENSURES(ctx->dir_info->count == di_gCount0 + (di_gExA ? 0 : 1))
	ENSURES(DI_POST_OK(ctx->dir_info, DI_QK(ctx), di_gM || di_gK == di_gA,
			   di_gK == di_gA ? parent : di_gVP, di_gK == di_gA ? parent : di_gVD))
	ENSURES(ctx->dir_info->last_lookup == 0 || __CPROVER_same_object(ctx->dir_info->last_lookup, ctx->dir_info->array));
#endif

static void build(void)
{
	LOAD_IN();
	ASSUME(IN.size >= 1 && IN.size <= DI_CAP && IN.count <= IN.size);
	memset(&CTX, 0, sizeof(CTX));
	memset(&DB, 0, sizeof(DB));
	CTX.dir_info = &DB;
	DB.array = malloc((unsigned long) IN.size * sizeof(struct dir_info));
	ASSUME(DB.array != 0);
	DB.count = IN.count;
	DB.size = IN.size;
	DB.tdb = 0;
	di_gLL = IN.has_ll ? IN.ll : DI_NONE;
	ASSUME(!IN.has_ll || IN.ll < IN.count);
	DB.last_lookup = IN.has_ll ? &DB.array[IN.ll] : 0;
	di_gA = IN.a; di_gPA = IN.pa;
	di_gK = IN.k; di_gPK = IN.pk;
	di_gI = IN.i;
	di_gM = IN.m; di_gVP = IN.vp; di_gVD = IN.vd;
	di_gExA = IN.exa;
	di_gCount0 = IN.count;
	di_oI[0] = IN.oi[0]; di_oI[1] = IN.oi[1]; di_oI[2] = IN.oi[2];
	di_oIm[0] = IN.oim[0]; di_oIm[1] = IN.oim[1]; di_oIm[2] = IN.oim[2];
#if defined(DI_SCEN_ROOM)
	ASSUME(IN.count < IN.size);
#elif defined(DI_SCEN_GROW)
	ASSUME(IN.count == IN.size);
#endif
}

void h_di_get(void)
{
#ifdef DI_GET
	build();
	e2fsck_get_dir_info(&CTX, IN.a);
	if (IN.count > 4 && IN.exa && IN.pa > 1 && IN.pa < IN.count - 2 && !IN.has_ll)
		REACH("interior, found");
	if (IN.count > 4 && !IN.exa)
		REACH("no entry");
	if (IN.count == 1)
		REACH("one entry");
	REACH("end");
#endif
}

void h_di_acc(void)
{
#ifdef DI_ACC
	ext2_ino_t out = 0x5a5a5a5a;
	int r;

	build();
	ASSUME(DI_PRE(&DB, IN.a, 1));
	switch (IN.op & 3) {
	case 0:
		r = e2fsck_dir_info_set_parent(&CTX, IN.a, IN.x);
		CHECK(r == (di_gExA ? 0 : 1), "set_parent: 0 iff the directory has an entry");
		CHECK(DB.count == di_gCount0 && DI_POST_OK(&DB, di_gPK, di_gM, (r == 0 && di_gK == di_gA) ? IN.x : di_gVP, di_gVD),
		      "set_parent: only the parent of that directory changes");
		break;
	case 1:
		r = e2fsck_dir_info_set_dotdot(&CTX, IN.a, IN.x);
		CHECK(r == (di_gExA ? 0 : 1), "set_dotdot: 0 iff the directory has an entry");
		CHECK(DB.count == di_gCount0 && DI_POST_OK(&DB, di_gPK, di_gM, di_gVP, (r == 0 && di_gK == di_gA) ? IN.x : di_gVD),
		      "set_dotdot: only the dotdot of that directory changes");
		break;
	case 2:
		r = e2fsck_dir_info_get_parent(&CTX, IN.a, &out);
		CHECK(r == (di_gExA ? 0 : 1), "get_parent: 0 iff the directory has an entry");
		CHECK(r != 0 || di_gK != di_gA || out == di_gVP, "get_parent reports the parent");
		CHECK(DB.count == di_gCount0 && DI_POST_OK(&DB, di_gPK, di_gM, di_gVP, di_gVD), "get_parent: nothing changes");
		break;
	default:
		r = e2fsck_dir_info_get_dotdot(&CTX, IN.a, &out);
		CHECK(r == (di_gExA ? 0 : 1), "get_dotdot: 0 iff the directory has an entry");
		CHECK(r != 0 || di_gK != di_gA || out == di_gVD, "get_dotdot reports the dotdot");
		CHECK(DB.count == di_gCount0 && DI_POST_OK(&DB, di_gPK, di_gM, di_gVP, di_gVD), "get_dotdot: nothing changes");
		break;
	}
	if (IN.count > 4 && IN.exa && IN.pa == 2 && IN.k == IN.a && IN.i == 2)
		REACH("entry in the middle, observed");
	if (!IN.exa)
		REACH("no entry");
	REACH("end");
#endif
}

void h_di_add(void)
{
#ifdef DI_ADD
	build();
	e2fsck_add_dir_info(&CTX, IN.a, IN.x);
	if (IN.count > 3 && !IN.exa && IN.pa == 1 && IN.i == 2 && IN.k > IN.a)
		REACH("out of order: insert in the middle");
	if (IN.count > 0 && IN.pa == IN.count)
		REACH("in order: append");
	if (IN.count > 3 && IN.exa && IN.pa == 2)
		REACH("entry exists");
#ifndef DI_SCEN_GROW
	if (IN.count == 0)
		REACH("first entry");
#endif
	REACH("end");
#endif
}
