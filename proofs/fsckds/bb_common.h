/*
 * Shared by the lib/ext2fs/badblocks.c units (the sorted __u32 list behind the bad-blocks list — pass 1 asks it whether a
 * block an inode claims is a known bad block — and behind e2fsck's casefold / encrypted-directory lists).
 * Includes the REAL lib/ext2fs/badblocks.c.
 *
 * ABSTRACT VIEW (specs/fsckds_sorted.h): a SET of __u32; member(K) = (P < num && list[P] == K), P = lower bound of K,
 * observed at ONE arbitrary ghost key bb_gK.
 * REPRESENTATION INVARIANT well_formed(bb): magic, list != NULL, 0 <= num <= size, list[0..num) strictly ascending.
 * "Strictly ascending" is universally quantified: as a precondition it enters through partition instances (BB_STATE_OK:
 * at the lower bounds of the operation key A and of K, at the ghost index G and its neighbours, at the first and the last
 * entry, and — ghost statements *_PROBE — at every entry a search loop looks at); as a postcondition it is proved at the
 * arbitrary index G for the arbitrary key K (BB_POST_OK), which is the quantified statement again.
 * GHOSTS (inputs): bb_gA / bb_gPA operation key and its lower bound, bb_gK / bb_gPK view key and its lower bound,
 * bb_gG arbitrary index, bb_oG / bb_oGm1 / bb_oGp1 the entries at G, G-1, G+1 in the pre-state, bb_gNum0 num on entry.
 */
#include "verif.h"
#include "fsckds_sorted.h"

#ifndef BB_IN_DECLARED
struct in_bb {
	int num, size;
	unsigned int a, k;
	unsigned long long pa, pk, g;
	unsigned int og, ogm1, ogp1;
	int magic_ok, exa, m;
};
struct in_bb IN;
#include "verif_in.h"
#endif

#include "config.h"
#include <string.h>
#include <stdlib.h>

#ifndef EXT2_CUSTOM_MEMORY_ROUTINES
#error "built with -DEXT2_CUSTOM_MEMORY_ROUTINES"
#endif
long ext2fs_get_mem(unsigned long size, void *ptr);
long ext2fs_get_array(unsigned long count, unsigned long size, void *ptr);
long ext2fs_free_mem(void *ptr);
long ext2fs_resize_mem(unsigned long old_size, unsigned long size, void *ptr);

unsigned long long bb_gA, bb_gPA, bb_gK, bb_gPK, bb_gG;
unsigned int bb_oG, bb_oGm1, bb_oGp1;
int bb_gNum0;
int bb_gExA;		/* input: A is a member in the pre-state */

#define BB_CAP (1 << 30)	/* num and size are int; size += 100 and the index arithmetic need head-room */

#define BB_EX(bb, K, P) ((P) < (unsigned long long) (bb)->num && (bb)->list[P] == (K))

/* instance of "strictly ascending" at the entry a search loop looks at (the list has not been written before) */
#ifndef VERIF_GHOST_U32_LIST_FIND_PROBE
#define VERIF_GHOST_U32_LIST_FIND_PROBE \
	__CPROVER_assume(FSCKDS_PART(bb->list[mid], (unsigned long long) mid, (unsigned long long) bb->num, (unsigned long long) blk, bb_gPA));
#endif
#ifndef VERIF_GHOST_U32_LIST_ADD_PROBE
#define VERIF_GHOST_U32_LIST_ADD_PROBE \
	__CPROVER_assume(FSCKDS_PART(bb->list[i], (unsigned long long) i, (unsigned long long) bb->num, (unsigned long long) blk, bb_gPA));
#endif

#include "lib/ext2fs/badblocks.c"

static struct ext2_struct_u32_list BB;	/* the list of the harness (on purpose not on the heap) */

long ext2fs_get_mem(unsigned long size, void *ptr)
{
	void *pp = malloc(size);
	if (!pp)
		return EXT2_ET_NO_MEMORY;
	*(void **) ptr = pp;
	return 0;
}
long ext2fs_get_array(unsigned long count, unsigned long size, void *ptr)
{
	if (count && (~0UL) / count < size)
		return EXT2_ET_NO_MEMORY;
	return ext2fs_get_mem(count * size, ptr);
}
long ext2fs_free_mem(void *ptr)
{
	void **pp = (void **) ptr;
	free(*pp);
	*pp = 0;
	return 0;
}
/*
 * realloc of the list by a GHOST-INDEX specification (C standard: the contents are kept up to the smaller size, the
 * rest is indeterminate): new typed object, the entries at the ghost indices G-1, G, G+1, PA, PK, 0 and num-1 carried
 * over — the only ones a specification looks at.  May fail.
 */
#define BB_KEEP(n, IDX) unsigned long long idx##n = (IDX); int in##n = idx##n < nold && idx##n < nnew; __u32 keep##n = in##n ? old[idx##n] : 0
#define BB_RESTORE(n) if (in##n) new[idx##n] = keep##n
long ext2fs_resize_mem(unsigned long old_size, unsigned long size, void *ptr)
{
	__u32 **pp = (__u32 **) ptr, *old = *pp, *new;
	unsigned long long nold = old_size / sizeof(__u32), nnew = size / sizeof(__u32);

	__CPROVER_assert(__CPROVER_r_ok(old, old_size), "realloc: old_size bytes of the old list are allocated");
	__CPROVER_assert(size % sizeof(__u32) == 0 && old_size % sizeof(__u32) == 0, "realloc: whole entries");
	/* no loops here: a loop without a contract confuses --apply-loop-contracts */
	BB_KEEP(0, bb_gG); BB_KEEP(1, bb_gG - 1); BB_KEEP(2, bb_gG + 1); BB_KEEP(3, bb_gPA); BB_KEEP(4, bb_gPK);
	BB_KEEP(5, 0); BB_KEEP(6, (unsigned long long) bb_gNum0 - 1);
	new = malloc(nnew * sizeof(__u32));
	if (!new)
		return EXT2_ET_NO_MEMORY;
	BB_RESTORE(0); BB_RESTORE(1); BB_RESTORE(2); BB_RESTORE(3); BB_RESTORE(4); BB_RESTORE(5); BB_RESTORE(6);
	free(old);
	*pp = new;
	return 0;
}

/* ------------------------------------------------------------------ spec functions */
static int BB_BASIC(const struct ext2_struct_u32_list *bb, int cap)
{
	return bb->magic == EXT2_ET_MAGIC_BADBLOCKS_LIST && bb->list != 0 && bb->num >= 0 && bb->num <= bb->size &&
	       bb->size >= 1 && bb->size <= cap;
}
#define BB_PART2(k, i, n, PA_, PK_) (FSCKDS_PART(k, i, n, bb_gA, PA_) && FSCKDS_PART(k, i, n, bb_gK, PK_))
/* well_formed as far as an operation relies on it; member(K) == M; the ghosts bb_oG.. record the entries around G */
static int BB_STATE_OK(const struct ext2_struct_u32_list *bb, unsigned long long PA_, unsigned long long PK_, int M)
{
	unsigned long long n, i;
	unsigned int k;
	int ok = 1;

	if (!BB_BASIC(bb, BB_CAP))
		return 0;
	n = (unsigned long long) bb->num;
	if (PA_ > n || PK_ > n)
		return 0;
	if (PA_ < n) {
		k = bb->list[PA_];
		ok = ok && BB_PART2(k, PA_, n, PA_, PK_) && (bb_gExA != 0) == (k == bb_gA);
	} else
		ok = ok && bb_gExA == 0;
	if (PK_ < n) {
		k = bb->list[PK_];
		ok = ok && BB_PART2(k, PK_, n, PA_, PK_) && (M != 0) == (k == bb_gK);
	} else
		ok = ok && M == 0;
	i = bb_gG;
	if (i < n) {
		k = bb->list[i];
		ok = ok && BB_PART2(k, i, n, PA_, PK_) && k == bb_oG;
	}
	i = bb_gG - 1;
	if (bb_gG >= 1 && i < n) {
		k = bb->list[i];
		ok = ok && BB_PART2(k, i, n, PA_, PK_) && k == bb_oGm1;
	}
	i = bb_gG + 1;
	if (i < n) {
		k = bb->list[i];
		ok = ok && BB_PART2(k, i, n, PA_, PK_) && k == bb_oGp1;
	}
	if (n >= 1) {
		k = bb->list[0];
		ok = ok && BB_PART2(k, 0, n, PA_, PK_);
		i = n - 1;
		k = bb->list[i];
		ok = ok && BB_PART2(k, i, n, PA_, PK_);
	}
	return ok;
}
/* post-state: well_formed at the arbitrary index G for the arbitrary key K with lower bound QK; member(K) == M */
static int BB_POST_OK(const struct ext2_struct_u32_list *bb, unsigned long long QK, int M)
{
	unsigned long long n, i = bb_gG;
	unsigned int k;

	if (!BB_BASIC(bb, BB_CAP + 100))	/* one growth step */
		return 0;
	n = (unsigned long long) bb->num;
	if (QK > n || (QK == n && M != 0))
		return 0;
	if (i < n) {
		k = bb->list[i];
		if (!FSCKDS_PART(k, i, n, bb_gK, QK))
			return 0;
		if (i == QK && (M != 0) != (k == bb_gK))
			return 0;
	}
	return 1;
}
#define BB_PRE(bb, key, M) ((key) == bb_gA && (bb)->num == bb_gNum0 && BB_STATE_OK(bb, bb_gPA, bb_gPK, M))

/*
 * ext2fs_u32_list_find: proved by unit bb_u32_list_find (enforced there), used as a callee contract by bb_u32_list_del.
 * A handle with a wrong magic number: -1.  Otherwise the index of the key, or -1 if it is not a member; nothing written.
 */
int ext2fs_u32_list_find(ext2_u32_list bb, __u32 blk)
	REQUIRES(bb->magic != EXT2_ET_MAGIC_BADBLOCKS_LIST || BB_PRE(bb, blk, BB_EX(bb, bb_gK, bb_gPK)))
	ASSIGNS()
	ENSURES(bb->magic != EXT2_ET_MAGIC_BADBLOCKS_LIST ==> RET == -1)
	ENSURES(bb->magic == EXT2_ET_MAGIC_BADBLOCKS_LIST ==> RET == (BB_EX(bb, blk, bb_gPA) ? (int) bb_gPA : -1));

