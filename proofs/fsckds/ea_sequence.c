/* VERIF-UNIT
{
 "name": "ea_sequence_B",
 "props": ["C01", "C02"],
 "level": "B(3 ops, capacity 1)",
 "tier": "wip",
 "harness": "h_ea_sequence",
 "includes": ["e2fsck", "lib/support"],
 "defines": ["EXT2_CUSTOM_MEMORY_ROUTINES", "EA_EXACT_LIBC"],
 "unwind": 6,
 "unwind_reason": "BOUNDED stand-in: a container created with capacity 1 and 3 arbitrary operations: at most 3 entries, so the binary search probes at most 2 times, the collapse loop, the entry-wise memmove and the harness's scans run at most 5 times; unwinding assertions on",
 "functions": ["e2fsck/ea_refcount.c:ea_refcount_create", "e2fsck/ea_refcount.c:get_refcount_el", "e2fsck/ea_refcount.c:insert_refcount_el", "e2fsck/ea_refcount.c:refcount_collapse", "e2fsck/ea_refcount.c:ea_refcount_increment", "e2fsck/ea_refcount.c:ea_refcount_decrement", "e2fsck/ea_refcount.c:ea_refcount_store", "e2fsck/ea_refcount.c:ea_refcount_fetch"],
 "assumes": ["bounded: exactly 3 operations (each any of increment / decrement / store / fetch, arbitrary 64-bit keys and values) on a container created by the real ea_refcount_create with capacity 1 — this reaches the paths 'full list, collapse makes room, retry' and 'full list, collapse drops nothing, realloc + 100'",
	     "everything is the real code (no callee contract, no ghost statement: the anchors expand to nothing); realloc is CBMC's libc model (may fail), memmove an exact entry-wise copy, calloc for ext2fs_get_memzero",
	     "well_formed is ESTABLISHED by the code here (start: create), not assumed; it is checked after every operation by a linear scan"],
 "native": false
}
*/
/*
 * e2fsck/ea_refcount.c — integration, bounded: the container against a counter model.
 *
 * For an arbitrary ghost key K the harness keeps the model m = view(K) (a plain counter) and replays what the map
 * semantics of the four operations says (ea_ops.c); after every operation: the error code and the reported value agree
 * with the model, the list is well-formed (count <= size, ALL adjacent keys ascending) and the view of K computed by a
 * linear scan equals m.  In particular a zero-valued entry and an absent key are indistinguishable, before and after
 * refcount_collapse removes the former.
 */
#define EA_IN_DECLARED
#define SEQ_N 3
struct in_ea {
	struct { unsigned char kind; unsigned long long key, val; } op[SEQ_N];
	unsigned long long k;
};
struct in_ea IN;
#include "verif.h"
#include "verif_in.h"

/* no ghost statements in this unit */
#define VERIF_GHOST_GET_REFCOUNT_EL_LOOP
#define VERIF_GHOST_GET_REFCOUNT_EL_PROBE
#define VERIF_GHOST_EA_REFCOUNT_EL
#define EA_OWN_COLLAPSE_CONTRACT
#include "ea_common.h"

#define SEQ_MAXCOUNT 4u

static void check_wf_and_view(ext2_refcount_t rc, unsigned long long K, unsigned long long m)
{
	unsigned long long x, v = 0;

	CHECK(rc->list != 0 && rc->count <= rc->size && rc->count <= SEQ_N, "count <= size, at most one entry per operation");
	for (x = 0; x < SEQ_MAXCOUNT; x++) {
		if (x + 1 < rc->count)
			CHECK(rc->list[x].ea_key < rc->list[x + 1].ea_key, "keys strictly ascending");
		if (x < rc->count && rc->list[x].ea_key == K)
			v = rc->list[x].ea_value;
	}
	CHECK(v == m, "view of the ghost key equals the counter model");
}

void h_ea_sequence(void)
{
	ext2_refcount_t rc = 0;
	unsigned long long K, m = 0, out;
	errcode_t r;
	unsigned n, collapsed_path = 0;

	LOAD_IN();
	K = IN.k;
	r = ea_refcount_create(1, &rc);
	ASSUME(r == 0);
	for (n = 0; n < SEQ_N; n++) {
		unsigned long long key = IN.op[n].key, val = IN.op[n].val;

		out = 0;
		switch (IN.op[n].kind & 3) {
		case 0:
			r = ea_refcount_increment(rc, key, &out);
			CHECK(r == 0 || r == EXT2_ET_NO_MEMORY, "increment: ok or ENOMEM");
			if (r == 0 && key == K) {
				m = m + 1;
				CHECK(out == m, "increment reports the new count");
			}
			break;
		case 1:
			r = ea_refcount_decrement(rc, key, &out);
			if (key == K) {
				CHECK((r != 0) == (m == 0), "decrement fails exactly on count 0");
				if (r == 0) {
					m = m - 1;
					CHECK(out == m, "decrement reports the new count");
				}
			}
			CHECK(r == 0 || r == EXT2_ET_INVALID_ARGUMENT, "decrement: ok or EINVAL");
			break;
		case 2:
			r = ea_refcount_store(rc, key, val);
			CHECK(r == 0 || (r == EXT2_ET_NO_MEMORY && val != 0), "store: ok, or ENOMEM for a non-zero value");
			if (r == 0 && key == K)
				m = val;
			break;
		default:
			r = ea_refcount_fetch(rc, key, &out);
			CHECK(r == 0, "fetch: ok");
			if (key == K)
				CHECK(out == m, "fetch reports the count");
			break;
		}
		check_wf_and_view(rc, K, m);
	}
	/* situations (over the inputs): a full list with a zero-valued entry that the 3rd operation has to get rid of; growth */
	if ((IN.op[0].kind & 3) == 2 && (IN.op[1].kind & 3) == 1 && (IN.op[2].kind & 3) == 0 &&
	    IN.op[0].key == 20 && IN.op[0].val == 1 && IN.op[1].key == 20 && IN.op[2].key == 15)
		REACH("full list, zero entry dropped, retry, insert");
	if ((IN.op[0].kind & 3) == 0 && (IN.op[1].kind & 3) == 0 && (IN.op[2].kind & 3) == 0 &&
	    IN.op[0].key == 30 && IN.op[1].key == 10 && IN.op[2].key == 20 && rc->size == 101)
		REACH("full list, nothing to drop, grown by 100, insert in the middle");
	REACH("end");
	ea_refcount_free(rc);
}
