/* VERIF-UNIT
{
 "name": "ea_full_list_B3",
 "props": [
  "C01",
  "C02"
 ],
 "level": "B(3)",
 "tier": "thorough",
 "harness": "h_ea_full",
 "includes": [
  "e2fsck",
  "lib/support"
 ],
 "defines": [
  "EXT2_CUSTOM_MEMORY_ROUTINES",
  "EA_EXACT_LIBC",
  "EA_SCEN_SHRINK"
 ],
 "unwind": 6,
 "unwind_reason": "BOUNDED stand-in: a FULL list (count == size) of 1..3 entries: the binary search probes at most 2 times, the 'goto retry' loop runs at most twice, the collapse loop, the entry-wise realloc copy / memmove and the harness's scans run at most 4 times; unwinding assertions on",
 "functions": [
  "e2fsck/ea_refcount.c:get_refcount_el",
  "e2fsck/ea_refcount.c:insert_refcount_el",
  "e2fsck/ea_refcount.c:refcount_collapse",
  "e2fsck/ea_refcount.c:ea_refcount_increment",
  "e2fsck/ea_refcount.c:ea_refcount_store"
 ],
 "assumes": [
  "bounded: a full list (count == size) of 1..3 entries with strictly ascending keys (assumed for ALL pairs), arbitrary counts of which at least one is zero (scenario 'collapse makes room'; the resize is then unreachable: obligation), arbitrary cursor; ONE operation (increment or store, arbitrary key and value)",
  "everything is the real code (no callee contract, no ghost statement: the anchors expand to nothing); memmove = exact entry-wise copy"
 ],
 "native": false,
 "timeout": 900,
 "no_cross_check": true
}
*/
/*
 * e2fsck/ea_refcount.c — the FULL-list paths of get_refcount_el with all of the real code, bounded.
 *
 * Complements the unbounded units of ea_ops.c, which cover count < size and "count == size, nothing to drop", and use
 * the contract of refcount_collapse: here the scenario "count == size and refcount_collapse drops an entry, the search is
 * retried" runs as one piece.  For an arbitrary ghost key K: the view computed by a linear scan changes as the map
 * semantics says, ALL adjacent keys stay ascending, count <= size.
 */
#define EA_IN_DECLARED
#define FL_N 3u
struct in_ea {
	unsigned long long count, cursor;
	unsigned long long keys[FL_N], vals[FL_N];
	unsigned long long a, v, k;
	unsigned char kind;
};
struct in_ea IN;
#include "verif.h"
#include "verif_in.h"

/* no ghost statements in this unit */
#define VERIF_GHOST_GET_REFCOUNT_EL_LOOP
#define VERIF_GHOST_GET_REFCOUNT_EL_PROBE
#define VERIF_GHOST_EA_REFCOUNT_EL
#define EA_OWN_COLLAPSE_CONTRACT
#include "ea_common.h"

#define FL_MAXCOUNT (FL_N + 1)

static unsigned long long scan_view(unsigned long long key)
{
	unsigned long long x, v = 0;

	for (x = 0; x < FL_MAXCOUNT; x++)
		if (x < RC.count && RC.list[x].ea_key == key)
			v = RC.list[x].ea_value;
	return v;
}

void h_ea_full(void)
{
	unsigned long long x, n, m, out = 0, zeros = 0;
	errcode_t r;

	LOAD_IN();
	n = IN.count;
	ASSUME(n >= 1 && n <= FL_N);
	RC.list = malloc(FL_N * sizeof(struct ea_refcount_el));	/* constant-size object; size says n */
	ASSUME(RC.list != 0);
	for (x = 0; x < FL_N; x++)
		if (x < n) {
			RC.list[x].ea_key = IN.keys[x];
			RC.list[x].ea_value = IN.vals[x];
			if (IN.vals[x] == 0)
				zeros++;
			ASSUME(x + 1 >= n || IN.keys[x] < IN.keys[x + 1]);
		}
	RC.count = n;
	RC.size = n;
	RC.cursor = IN.cursor;
	m = scan_view(IN.k);
	ASSUME(zeros > 0);	/* scenario 'shrink'; 'nothing to drop' is ea_refcount_*_grow (unbounded) */

	if (IN.kind & 1) {
		r = ea_refcount_increment(&RC, IN.a, &out);
		CHECK(r == 0 || r == EXT2_ET_NO_MEMORY, "increment: ok or ENOMEM");
		if (r == 0 && IN.a == IN.k) {
			m = m + 1;
			CHECK(out == m, "increment reports the new count");
		}
	} else {
		r = ea_refcount_store(&RC, IN.a, IN.v);
		CHECK(r == 0 || (r == EXT2_ET_NO_MEMORY && IN.v != 0), "store: ok, or ENOMEM for a non-zero value");
		if (r == 0 && IN.a == IN.k)
			m = IN.v;
	}
	CHECK(RC.list != 0 && RC.count <= RC.size && RC.count <= n + 1, "count <= size, at most one entry added");
	for (x = 0; x + 1 < FL_MAXCOUNT; x++)
		CHECK(x + 1 >= RC.count || RC.list[x].ea_key < RC.list[x + 1].ea_key, "all adjacent keys ascending");
	CHECK(scan_view(IN.k) == m, "view of the ghost key: changed as the map semantics says (linear scan)");
	if (zeros > 0 && n == 3 && IN.vals[0] == 0 && IN.a > IN.keys[1] && IN.a < IN.keys[2])
		REACH("zero entry dropped, retry, insert in the middle");
	if (zeros > 0 && n == 2 && IN.a > IN.keys[1])
		REACH("zero entry dropped, append");
	if (n == 3 && IN.vals[1] == 0 && IN.a == IN.keys[2] && IN.cursor == 0)
		REACH("zero entry dropped, retry, key found");
	REACH("end");
}
