/* VERIF-UNIT
{
 "name": "icount_fullmap",
 "props": [
  "C02",
  "C06"
 ],
 "level": "U",
 "tier": "quick",
 "harness": "h_ic_fullmap",
 "defines": [
  "EXT2_CUSTOM_MEMORY_ROUTINES"
 ],
 "unwind": 10,
 "unwind_reason": "loop-free (memset of the map is CBMC's array primitive); 10 covers the loops of the contract-instrumentation library",
 "functions": [
  "lib/ext2fs/icount.c:alloc_icount",
  "lib/ext2fs/icount.c:ext2fs_create_icount2",
  "lib/ext2fs/icount.c:ext2fs_icount_fetch",
  "lib/ext2fs/icount.c:ext2fs_icount_increment",
  "lib/ext2fs/icount.c:ext2fs_icount_decrement",
  "lib/ext2fs/icount.c:ext2fs_icount_store"
 ],
 "assumes": [
  "full-map mode (EXT2_ICOUNT_OPT_FULLMAP | EXT2_ICOUNT_OPT_INCREMENT, e2fsck -E inode_count_fullmap); s_inodes_count in 1..4096 (object-size cap for the zero-fill; the 32-bit wrap of 'unsigned sz' for >= 2^31 inodes is outside this cap)",
  "the container is built by the REAL ext2fs_create_icount2 / alloc_icount; ext2fs_get_mem as malloc (the case 'allocation fails, fall back to bitmaps' is cut off)",
  "FAILS ON THE PINNED TREE (genuine defect, findings/C02_ds_icount_fullmap_last_inode): the map has s_inodes_count entries but is indexed by inode numbers 1..s_inodes_count"
 ],
 "native": false
}
*/
/*
 * lib/ext2fs/icount.c, full-map mode: one __u16 per inode.  The real constructor, then ONE operation on an arbitrary
 * valid inode number A; the view is the map entry of an arbitrary ghost inode K.
 * Statement: no out-of-bounds access for any 1 <= A <= s_inodes_count; fetch reports the entry; increment adds one,
 * saturating at 65500; decrement refuses 0; store(c) stores xlate(c); the entry of every other inode is unchanged.
 */
#include "verif.h"
struct in_icf {
	unsigned int num_inodes, a, k;
	unsigned short v0, c;
	unsigned char op;
};
struct in_icf IN;
#include "verif_in.h"

#include "config.h"
#include <string.h>
#include <stdlib.h>
long ext2fs_get_mem(unsigned long size, void *ptr);
long ext2fs_get_array(unsigned long count, unsigned long size, void *ptr);
long ext2fs_free_mem(void *ptr);
long ext2fs_resize_mem(unsigned long old_size, unsigned long size, void *ptr);

#include "lib/ext2fs/icount.c"

long ext2fs_get_mem(unsigned long size, void *ptr)
{
	void *pp;

	/* same number of bytes; the map is allocated as an array of __u16 so that the verifier sees typed accesses */
	if (size == sizeof(struct ext2_icount))
		pp = malloc(sizeof(struct ext2_icount));
	else {
		__CPROVER_assert(size % sizeof(__u16) == 0, "the map is a whole number of __u16");
		pp = malloc((size / sizeof(__u16)) * sizeof(__u16));
	}
	if (!pp)
		return EXT2_ET_NO_MEMORY;
	*(void **) ptr = pp;
	return 0;
}
long ext2fs_get_array(unsigned long count, unsigned long size, void *ptr) { return ext2fs_get_mem(count * size, ptr); }
long ext2fs_free_mem(void *ptr) { void **pp = (void **) ptr; free(*pp); *pp = 0; return 0; }
long ext2fs_resize_mem(unsigned long old_size, unsigned long size, void *ptr) { (void) old_size; (void) size; (void) ptr; return EXT2_ET_NO_MEMORY; }
/* bitmap mode is not reached in this unit */
errcode_t ext2fs_allocate_inode_bitmap(ext2_filsys fs, const char *descr, ext2fs_inode_bitmap *ret)
{
	(void) fs; (void) descr; (void) ret;
	__CPROVER_assume(0);
	return 0;
}

#define XLATE16(c) ((c) > 65500u ? 65500u : (c))

void h_ic_fullmap(void)
{
	struct struct_ext2_filsys FS;
	struct ext2_super_block SB;
	ext2_icount_t ic = 0;
	__u16 out = 0;
	unsigned int v0, v1;
	errcode_t r;

	LOAD_IN();
	ASSUME(IN.num_inodes >= 1 && IN.num_inodes <= 4096);
	ASSUME(IN.a >= 1 && IN.a <= IN.num_inodes && IN.k >= 1 && IN.k <= IN.num_inodes);
	memset(&FS, 0, sizeof(FS));
	memset(&SB, 0, sizeof(SB));
	SB.s_inodes_count = IN.num_inodes;
	FS.super = &SB;
	r = ext2fs_create_icount2(&FS, EXT2_ICOUNT_OPT_FULLMAP | EXT2_ICOUNT_OPT_INCREMENT, 0, 0, &ic);
	ASSUME(r == 0);
	CHECK(ic != 0 && ic->fullmap != 0 && ic->num_inodes == IN.num_inodes, "full-map container created");
	/* a fresh map is all zero; put an arbitrary count on K through the interface */
	r = ext2fs_icount_store(ic, IN.k, IN.v0);
	CHECK(r == 0, "store on a valid inode number succeeds");
	v0 = XLATE16(IN.v0);
	switch (IN.op & 3) {
	case 0:
		r = ext2fs_icount_fetch(ic, IN.a, &out);
		CHECK(r == 0, "fetch: ok");
		if (IN.a == IN.k)
			CHECK(out == v0, "fetch reports the stored count (saturated)");
		break;
	case 1:
		r = ext2fs_icount_increment(ic, IN.a, &out);
		CHECK(r == 0, "increment: ok");
		if (IN.a == IN.k)
			CHECK(out == XLATE16(v0 + 1), "increment: + 1, saturating at 65500");
		break;
	case 2:
		r = ext2fs_icount_decrement(ic, IN.a, &out);
		if (IN.a == IN.k) {
			CHECK((r == 0) == (v0 != 0), "decrement refuses exactly the count 0");
			if (r == 0)
				CHECK(out == v0 - 1, "decrement: - 1");
		}
		break;
	default:
		r = ext2fs_icount_store(ic, IN.a, IN.c);
		CHECK(r == 0, "store: ok");
		break;
	}
	r = ext2fs_icount_fetch(ic, IN.k, &out);
	v1 = out;
	if (IN.a != IN.k)
		CHECK(v1 == v0, "the count of another inode is unchanged");
	if (IN.a == IN.num_inodes)
		REACH("the last inode of the filesystem");
	if (IN.a == 1)
		REACH("the first inode");
	REACH("end");
	ext2fs_free_icount(ic);
}
