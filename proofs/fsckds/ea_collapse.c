/* VERIF-UNIT
{
 "name": "ea_collapse_B4",
 "props": [
  "C01",
  "C02"
 ],
 "level": "B(4)",
 "tier": "quick",
 "harness": "h_ea_collapse_b4",
 "enforce": [
  "refcount_collapse"
 ],
 "includes": [
  "e2fsck",
  "lib/support"
 ],
 "defines": [
  "EXT2_CUSTOM_MEMORY_ROUTINES",
  "EA_COLLAPSE_B4"
 ],
 "unwind": 6,
 "unwind_reason": "BOUNDED stand-in: lists of 0..4 entries (every content, every pattern of zero counts); the collapse loop and the harness's own scans run at most 4 times; unwinding assertions on",
 "functions": [
  "e2fsck/ea_refcount.c:refcount_collapse"
 ],
 "assumes": [
  "bounded: a list of at most 4 entries, strictly ascending keys (assumed for ALL pairs here), arbitrary counts, arbitrary capacity 1..4, arbitrary cursor",
  "the ghost lower bounds / view / presence flag of the two arbitrary ghost keys are COMPUTED by the harness by linear scans (independent of the binary search of the real code)",
  "ghost statements in the loop body (hooks-pending/ds.diff) record where the lower bounds move; they write ghosts only"
 ],
 "native": false,
 "tier_after_hooks": "quick"
}
*/
/* VERIF-UNIT
{
 "name": "ea_collapse_safe",
 "props": [
  "C01",
  "C06"
 ],
 "level": "U",
 "tier": "quick",
 "harness": "h_ea_collapse_safe",
 "enforce": [
  "refcount_collapse"
 ],
 "loop_contracts": true,
 "includes": [
  "e2fsck",
  "lib/support"
 ],
 "defines": [
  "EXT2_CUSTOM_MEMORY_ROUTINES",
  "EA_COLLAPSE_SAFE"
 ],
 "unwind": 10,
 "unwind_reason": "no loop of the real code is unwound (in-place loop contract); 10 covers the loops of the contract-instrumentation library",
 "functions": [
  "e2fsck/ea_refcount.c:refcount_collapse"
 ],
 "assumes": [
  "count <= size <= 2^31 entries, count <= 2^30 (the loop counters of the real code are unsigned int)",
  "list of symbolic length, arbitrary content (no sortedness needed for this statement)"
 ],
 "native": false,
 "tier_after_hooks": "quick"
}
*/
/*
 * e2fsck/ea_refcount.c:refcount_collapse — drops the zero-valued entries in place.
 *
 * ea_collapse_B4 (bounded): the contract the operation units use (ea_common.h): the result is well-formed, not longer,
 *      has the same view for every key (ghost key K), A has an entry only if it had one, and the lower bounds of the ghost
 *      keys are where the ghosts say; plus, checked by the harness with its own scans: count' = count - #zero entries,
 *      ALL adjacent pairs ascending, no zero entry left, view(K) by linear scan unchanged.
 * ea_collapse_safe (unbounded, loop contract): memory safety, termination, count' <= count, and no zero-valued entry
 *      is left (at an arbitrary ghost index).
 */
#define EA_IN_DECLARED
struct in_ea {
	unsigned long long count, size, cursor;
	unsigned long long a, k, i;
	unsigned long long keys[4], vals[4];
};
struct in_ea IN;
#include "verif.h"
#include "verif_in.h"

#ifdef EA_COLLAPSE_B4
/* where do the lower bounds go: the number of surviving entries in front of them */
#define VERIF_GHOST_REFCOUNT_COLLAPSE_ITER \
	if (i == ea_gPA) ea_gPA2 = j; \
	if (i == ea_gPK) ea_gPK2 = j;
#define VERIF_GHOST_REFCOUNT_COLLAPSE_END \
	if (ea_gPA >= refcount->count) ea_gPA2 = j; \
	if (ea_gPK >= refcount->count) ea_gPK2 = j; \
	ea_gCount2 = j; \
	ea_collapsed = 1;
#endif
#ifdef EA_COLLAPSE_SAFE
#define EA_OWN_COLLAPSE_CONTRACT
#define VERIF_INV_REFCOUNT_COLLAPSE \
	__CPROVER_assigns(i, j, __CPROVER_object_whole(list)) \
	__CPROVER_loop_invariant(j <= i && i <= refcount->count) \
	__CPROVER_loop_invariant(ea_gI >= j || list[ea_gI].ea_value != 0) \
	__CPROVER_decreases(refcount->count - i)
#endif

#include "ea_common.h"

#ifdef EA_COLLAPSE_SAFE
static void refcount_collapse(ext2_refcount_t refcount)
	REQUIRES(refcount->list != 0 && refcount->count <= refcount->size && refcount->size <= 2 * EA_CAP && refcount->count <= EA_CAP)
	ASSIGNS(refcount->count, __CPROVER_object_whole(refcount->list))
	ENSURES(refcount->count <= OLD(refcount->count))
	ENSURES(ea_gI >= refcount->count || refcount->list[ea_gI].ea_value != 0);
#endif

#define EA_N 4u

/* textbook definitions by linear scan (harness only) */
static unsigned long long scan_lb(unsigned long long key)
{
	unsigned long long x, p = RC.count;

	for (x = 0; x < RC.count && x < EA_N; x++)
		if (RC.list[x].ea_key >= key && p == RC.count)
			p = x;
	return p;
}
static unsigned long long scan_view(unsigned long long key)
{
	unsigned long long x, v = 0;

	for (x = 0; x < RC.count && x < EA_N; x++)
		if (RC.list[x].ea_key == key && RC.list[x].ea_value != 0)
			v = RC.list[x].ea_value;
	return v;
}

void h_ea_collapse_b4(void)
{
#ifdef EA_COLLAPSE_B4
	unsigned long long x, zeros = 0, n;

	LOAD_IN();
	n = IN.count;
	ASSUME(n <= EA_N && IN.size >= 1 && IN.size <= EA_N && n <= IN.size);
	RC.list = malloc(EA_N * sizeof(struct ea_refcount_el));
	ASSUME(RC.list != 0);
	for (x = 0; x < EA_N; x++) {
		RC.list[x].ea_key = IN.keys[x];
		RC.list[x].ea_value = IN.vals[x];
		if (x < n && IN.vals[x] == 0)
			zeros++;
	}
	for (x = 0; x + 1 < EA_N; x++)
		ASSUME(x + 1 >= n || IN.keys[x] < IN.keys[x + 1]);	/* well_formed: ALL adjacent pairs */
	RC.count = n;
	RC.size = IN.size;
	RC.cursor = IN.cursor;
	ea_gA = IN.a;
	ea_gK = IN.k;
	ea_gI = IN.i;
	ea_gPA = scan_lb(ea_gA);
	ea_gPK = scan_lb(ea_gK);
	ea_gV = scan_view(ea_gK);
	ea_gExA = ea_gPA < n && RC.list[ea_gPA].ea_key == ea_gA;
	ea_gKeyI0 = ea_gI < n ? RC.list[ea_gI].ea_key : 0;
	ea_gValI0 = ea_gI < n ? RC.list[ea_gI].ea_value : 0;
	ea_gCount0 = n;
	ea_collapsed = 0;
	ea_gPA2 = ea_gPK2 = ea_gCount2 = 0;
	ea_dec = 0;
	/* the pre-state really is what the operation units call EA_PRE (so the contract is used there as proved here) */
	CHECK(EA_PRE(&RC, ea_gA), "the scanned lower bounds, view and flags satisfy the operations' precondition");

	refcount_collapse(&RC);

	CHECK(RC.count == n - zeros, "exactly the zero-valued entries are dropped");
	for (x = 0; x + 1 < EA_N; x++)
		CHECK(x + 1 >= RC.count || RC.list[x].ea_key < RC.list[x + 1].ea_key, "all adjacent pairs ascending");
	for (x = 0; x < EA_N; x++)
		CHECK(x >= RC.count || RC.list[x].ea_value != 0, "no zero-valued entry is left");
	CHECK(scan_view(ea_gK) == ea_gV, "the view of an arbitrary key is unchanged (linear scan)");
	CHECK(scan_lb(ea_gK) == ea_gPK2 && scan_lb(ea_gA) == ea_gPA2, "the ghosts report the new lower bounds (linear scan)");
	if (n == 4 && zeros == 2 && IN.vals[0] == 0 && IN.vals[2] == 0)
		REACH("two of four dropped");
	if (n == 0)
		REACH("empty");
	if (n == 3 && zeros == 0)
		REACH("nothing dropped");
	REACH("end");
#endif
}

void h_ea_collapse_safe(void)
{
#ifdef EA_COLLAPSE_SAFE
	LOAD_IN();
	ASSUME(IN.size >= 1 && IN.size <= 2 * EA_CAP && IN.count <= IN.size && IN.count <= EA_CAP);
	RC.list = malloc(IN.size * sizeof(struct ea_refcount_el));
	ASSUME(RC.list != 0);
	RC.count = IN.count;
	RC.size = IN.size;
	RC.cursor = IN.cursor;
	ea_gI = IN.i;
	refcount_collapse(&RC);
	if (IN.count > 3)
		REACH("several entries");
	REACH("end");
#endif
}
