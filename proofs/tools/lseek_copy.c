/* VERIF-UNIT
{
 "name": "try_lseek_copy",
 "props": ["C18"],
 "level": "U/iter",
 "tier": "quick",
 "tier_after_hooks": "quick",
 "harness": "h_try_lseek_copy",
 "replace": ["copy_file_chunk"],
 "loop_contracts": true,
 "allow_missing_classes": false,
 "includes": ["misc"],
 "unwind": 6,
 "unwind_reason": "the SEEK_DATA/SEEK_HOLE loop is cut by its in-place loop contract (hooks-pending/tools.diff); the bound only serves the DFCC library's write-set loops (unwinding assertions on)",
 "functions": ["misc/create_inode.c:try_lseek_copy"],
 "assumes": ["NEEDS the hook in hooks-pending/tools.diff (loop contract on the while loop of try_lseek_copy)",
             "no contract is ENFORCED on try_lseek_copy (no frame obligations): harness CHECKs + the protocol monitor in the lseek stub and in the preconditions of copy_file_chunk's contract",
             "lseek(2) is a stub: it returns -1 (errno = one positive code chosen by the harness; at most one call can fail in a run since every failure ends the loop) or an ARBITRARY position 0 <= p <= 2^62 (no ordering between the positions is assumed; results of different calls are independent: drawn from IN.choice[] at an index that the loop cut havocs); the upper limit keeps hole + blocksize - 1 and the 64 KiB stepping of copy_file_chunk inside off_t (host files smaller than 2^62 bytes)",
             "copy_file_chunk is replaced by a contract: arbitrary result, frame = the monitor registers; what it does with [start, end) is unit copy_file_chunk",
             "fs->blocksize is a power of two 1024..65536 (ext2fs_open2 / mke2fs)",
             "U/iter: the statement is proved for the iteration that starts in an arbitrary state satisfying the loop invariant (data >= 0, no extent pending, next SEEK_DATA starts at data, no failure so far), the invariant is proved inductive"],
 "native": false
}
*/
/*
 * C18 "byte content and length with holes kept as holes ... for every file size from 0 through multi-extent and sparse":
 * the sparse-file copy loop of mke2fs -d.
 *
 * Ghost monitor (generic registers, also named by the in-place loop contract):
 *   verif_g0  protocol state: 0 no extent pending (next event: SEEK_DATA), 1 data position reported (next: SEEK_HOLE),
 *             2 data and hole reported (next: copy_file_chunk for that extent)
 *   verif_g1  offset the next SEEK_DATA has to start from (0 at first, then the hole position of the extent just copied)
 *   verif_g2  data position most recently reported      verif_g3  hole position most recently reported
 *   verif_g4  number of lseek calls                     verif_g5  number of copy_file_chunk calls
 *   verif_g6  number of failed lseek calls              verif_g7  result of the last copy_file_chunk call
 *
 * Statement (independent of the code, in full 64-bit arithmetic, B = block size):
 *   for every extent [data, hole) the host reports, copy_file_chunk is called exactly once, before anything else
 *   happens, with  start = the largest multiple of B <= data  and  end = the smallest multiple of B >= hole;
 *   the search for the next extent starts exactly at `hole` (nothing between two extents is skipped, none is
 *   visited twice); the function reports success only if the search ran to st_size or the host said ENXIO
 *   (no data beyond this offset); any other lseek failure and any copy_file_chunk error makes it fail.
 */
#include "verif.h"

#define _LARGEFILE64_SOURCE 1
#define _GNU_SOURCE 1
#include "config.h"
#include <sys/stat.h>
#include <sys/types.h>
#include <unistd.h>
#include <errno.h>
#include <ext2fs/ext2fs.h>
#include "create_inode.h"

struct in_s {
	long long choice[8];	/* what lseek reports (negative: failure) */
	long long size;		/* st_size */
	unsigned int lg;	/* log2 of the block size */
	int fd, err;
	long chunk_ret;
};
struct in_s IN;
#include "verif_in.h"

unsigned long long verif_k;
int verif_old_bit;
unsigned long long verif_g0, verif_g1, verif_g2, verif_g3, verif_g4, verif_g5, verif_g6, verif_g7;
const unsigned char *verif_p0, *verif_p1, *verif_p2, *verif_p3;

static unsigned int g_lg;		/* log2(block size) */
static struct struct_ext2_filsys *g_fs;
static int g_fd;
static char g_file_obj, g_buf_obj, g_zero_obj;

#define SPEC_POS_MAX (1LL << 62)
/* x is a multiple of the block size (64-bit) */
#define SPEC_ALIGNED(x) (((((unsigned long long)(x)) >> g_lg) << g_lg) == (unsigned long long)(x))
#define SPEC_BS (1ULL << g_lg)

static errcode_t copy_file_chunk(ext2_filsys fs, int fd, ext2_file_t e2_file, off_t start, off_t end, char *buf, char *zerobuf)
	/* an extent is pending: SEEK_DATA and SEEK_HOLE both answered, and it has not been copied yet */
	REQUIRES(verif_g0 == 2)
	/* start: largest block multiple <= data; end: smallest block multiple >= hole; all 64 bits */
	REQUIRES(start >= 0 && SPEC_ALIGNED(start) && (unsigned long long)start <= verif_g2 && verif_g2 - (unsigned long long)start < SPEC_BS)
	REQUIRES(end >= 0 && SPEC_ALIGNED(end) && (unsigned long long)end >= verif_g3 && (unsigned long long)end - verif_g3 < SPEC_BS)
	/* same file, same buffers */
	REQUIRES(fs == g_fs && fd == g_fd && (char *)e2_file == &g_file_obj && buf == &g_buf_obj && zerobuf == &g_zero_obj)
	ENSURES(verif_g0 == 0 && verif_g1 == OLD(verif_g3) && verif_g5 == OLD(verif_g5) + 1 && verif_g7 == (unsigned long long)RET)
	ASSIGNS(verif_g0, verif_g1, verif_g5, verif_g7);

off_t lseek(int fd, off_t offset, int whence)
{
	long long v = IN.choice[verif_g4 & 7];
	verif_g4++;
	CHECK(fd == g_fd, "lseek: on the source file");
	CHECK(whence == SEEK_DATA || whence == SEEK_HOLE, "lseek: only SEEK_DATA / SEEK_HOLE");
	if (whence == SEEK_DATA) {
		CHECK(verif_g0 == 0, "SEEK_DATA: only when no reported extent is waiting to be copied");
		CHECK(offset >= 0 && (unsigned long long)offset == verif_g1, "SEEK_DATA: starts where the previous extent ended (0 at first): no extent skipped or revisited");
		if (v < 0) {
			verif_g6++;
			return -1;
		}
		ASSUME(v <= SPEC_POS_MAX);
		verif_g2 = v;
		verif_g0 = 1;
		return v;
	}
	CHECK(verif_g0 == 1, "SEEK_HOLE: right after a data position was reported");
	CHECK(offset >= 0 && (unsigned long long)offset == verif_g2, "SEEK_HOLE: from the data position just reported");
	if (v < 0) {
		verif_g6++;
		return -1;
	}
	ASSUME(v <= SPEC_POS_MAX);
	verif_g3 = v;
	verif_g0 = 2;
	return v;
}

#include "misc/create_inode.c"

void h_try_lseek_copy(void)
{
	LOAD_IN();
	struct struct_ext2_filsys *fs = malloc(sizeof(*fs));
	struct stat *st = malloc(sizeof(*st));
	ASSUME(fs && st);
	ASSUME(IN.lg >= 10 && IN.lg <= 16);
	ASSUME(IN.size >= 0);
	ASSUME(IN.err > 0);
	fs->blocksize = 1u << IN.lg;
	st->st_size = IN.size;
	g_lg = IN.lg; g_fs = fs; g_fd = IN.fd;
	errno = IN.err;		/* the code of the (only possible) failing lseek */
	verif_g0 = verif_g1 = verif_g2 = verif_g3 = verif_g4 = verif_g5 = verif_g6 = verif_g7 = 0;

	errcode_t r = try_lseek_copy(fs, IN.fd, st, (ext2_file_t)&g_file_obj, &g_buf_obj, &g_zero_obj);

	CHECK(verif_g6 <= 1, "a failing lseek ends the search");
	if (r == 0) {
		CHECK(verif_g0 == 0, "success: every extent the host reported has been handed to copy_file_chunk");
		CHECK(verif_g7 == 0, "success: the last copy_file_chunk succeeded");
		CHECK(verif_g6 == 0 ? verif_g1 >= (unsigned long long)IN.size : IN.err == ENXIO,
		      "success: the search reached st_size, or the host answered ENXIO (no data beyond) to SEEK_DATA");
		if (verif_g6 == 1) REACH("enxio");
		if (verif_g6 == 0) REACH("ran-to-size");
	} else {
		CHECK(verif_g6 == 1 || verif_g7 != 0, "failure only after a failed lseek or a failed copy_file_chunk");
		if (verif_g7 != 0) {
			CHECK((unsigned long long)r == verif_g7, "copy_file_chunk's error is passed on");
			REACH("chunk-error");
		}
		if (verif_g6 == 1 && verif_g0 == 1) REACH("seek-hole-failed");
	}
	/* an lseek failure that is not ENXIO-on-SEEK_DATA is never reported as success */
	CHECK(!(verif_g6 == 1 && (verif_g0 == 1 || IN.err != ENXIO)) || r != 0, "lseek errors other than ENXIO make the copy fail (caller falls back / reports)");
	CHECK(verif_g7 == 0 || r != 0, "a copy_file_chunk error is never swallowed");
	REACH("end");
}
