/* VERIF-UNIT
{
 "name": "raw_image_inode_loop",
 "props": ["C19"],
 "level": "U/iter",
 "tier": "quick",
 "tier_after_hooks": "quick",
 "harness": "h_raw_inodes",
 "loop_contracts": true,
 "replace": ["mark_table_blocks", "output_qcow2_meta_data_blocks", "output_meta_data_blocks"],
 "sources": ["lib/ext2fs/blknum.c", "lib/support/quotaio.c"],
 "includes": ["misc", "lib/support"],
 "unwind": 6,
 "unwindset": {"__CPROVER_contracts_write_set_check_assigns_clause_inclusion.0": 16},
 "cbmc_flags": ["--object-bits", "12"],
 "unwind_reason": "the inode loop of write_raw_image_file is cut by its in-place loop contract (hooks-pending/tools.diff); the backup-descriptor loop is not entered (superblock == 0: the default invocation); the bound serves the DFCC library loops (unwinding assertions on)",
 "functions": ["misc/e2image.c:write_raw_image_file"],
 "assumes": ["NEEDS the hook in hooks-pending/tools.diff (loop contract on the inode loop of write_raw_image_file)",
             "no contract enforced on write_raw_image_file (1750-line TU, no frame obligations): protocol monitor in the stubs + harness CHECKs",
             "ext2fs_get_next_inode is a stub delivering, independently for each call, an ARBITRARY result code, inode number and 128-byte inode; ext2fs_inode_has_valid_blocks2 is a stub with an ARBITRARY answer per inode (its definition is C09/C11 territory); ext2fs_block_iterate3 is a recording stub with an arbitrary result (which blocks the iterator visits is the residual named in DESIGN C19); ext2fs_mark_generic_bmap records; bitmap allocation / scan open / close are stubs",
             "mark_table_blocks (units mark_table_blocks_*), output_meta_data_blocks and output_qcow2_meta_data_blocks are replaced by counting contracts that do not touch the monitor",
             "ext2fs_file_acl_block and quota_type2inum are the REAL functions (blknum.c, quotaio.c); user/group quota inodes are the format's reserved inodes 3 and 4 (ext4 special-inode table), which is also what quota_type2inum answers - s_usr_quota_inum/s_grp_quota_inum are not consulted",
             "superblock argument 0 (e2image without -b), show_progress off; all_data, scramble flag, image type arbitrary",
             "exit(1) on an error ends the run (paths not followed further)",
             "U/iter: statement proved for the iteration starting in an arbitrary state satisfying the proved invariant (previous inode completely handled)"],
 "native": false
}
*/
/*
 * C19 "preserves all metadata": which blocks of an inode e2image puts into meta_block_map.
 *
 * Per inode delivered by the scan (independent statement; ext4 on-disk format):
 *   - not in use (i_links_count == 0), or scan reports a bad inode-table block: nothing is marked, nothing iterated;
 *   - in use: if it has an external xattr block - i_file_acl, with l_i_file_acl_high as bits 32..47 when the 64bit
 *     feature is on - exactly that block is marked in meta_block_map, WHETHER OR NOT the inode has data blocks of its
 *     own (fast symlinks, device nodes, fifos, sockets, inline-data files carry xattr blocks too);
 *   - in use with a valid block map: directories, symlinks, the journal, the quota files and the orphan file have
 *     all their blocks visited (process_dir_block: every block is metadata); other inodes that are extent-mapped or
 *     have an indirect/double/triple indirect block (or every inode under -a) have their blocks visited with
 *     process_file_block (which keeps the mapping blocks: blockcnt < 0); the iteration is read-only, for this inode,
 *     with pb.ino / pb.is_dir describing it;
 *   - the next inode is fetched only after all of this was done (nothing skipped).
 * process_dir_block / process_file_block themselves: harness h_process_block below.
 *
 * Monitor registers (named by the in-place loop contract): verif_g1 xattr block still to be marked (0: none),
 * verif_g2 iteration still due (0 none, 1 all blocks, 2 mapping blocks), verif_g3 validity answer for the current
 * inode, verif_g4 its number, verif_g5 stub draw counter, verif_g6 1 if an (unneeded) process_file_block iteration is
 * permitted, verif_p0 the caller's inode buffer.
 */
/* VERIF-UNIT
{
 "name": "process_block_callbacks",
 "props": ["C19"],
 "level": "U",
 "tier": "quick",
 "harness": "h_process_block",
 "includes": ["misc", "lib/support"],
 "unwind": 6,
 "unwind_reason": "loop-free; the bound serves the DFCC library loops",
 "functions": ["misc/e2image.c:process_dir_block", "misc/e2image.c:process_file_block"],
 "assumes": ["ext2fs_mark_generic_bmap is a recording stub; no contract enforced (harness CHECKs)"],
 "native": false
}
*/
#include "verif.h"

unsigned long long verif_k;
int verif_old_bit;
unsigned long long verif_g0, verif_g1, verif_g2, verif_g3, verif_g4, verif_g5, verif_g6, verif_g7;
const unsigned char *verif_p0, *verif_p1, *verif_p2, *verif_p3;

#include "config.h"
#include "ext2fs/ext2_fs.h"

struct in_s {
	long scan_ret[4];
	unsigned int scan_ino[4];
	struct ext2_inode scan_inode[4];
	int valid[4];
	long iter_ret[4];
	unsigned int feat_incompat, journal_inum, prj_inum, orphan_inum;
	int type, flags;
	char all_data, output_is_blk;
	/* process_block */
	unsigned long long blk;
	long long blockcnt;
	int is_dir, scramble, use_dir;
};
struct in_s IN;
#include "verif_in.h"

#include "misc/e2image.c"

static struct struct_ext2_filsys *g_fs;
static char g_meta_obj, g_scramble_obj, g_scan_obj;
static unsigned int g_bad;
static unsigned int g_marks_meta, g_marks_scramble, g_tables, g_outputs_raw, g_outputs_qcow, g_scan_closed;
static unsigned long long g_last_meta, g_last_scramble;

#define EXPECT(c) do { if (!(c)) g_bad = 1; } while (0)
#define DRAWI (verif_g5 & 3)

static void mark_table_blocks(ext2_filsys fs)
	REQUIRES(fs == g_fs && (char *)meta_block_map == &g_meta_obj)
	ENSURES(g_tables == OLD(g_tables) + 1)
	ASSIGNS(g_tables, meta_blocks_count);
static void output_meta_data_blocks(ext2_filsys fs, int fd, int flags)
	REQUIRES(fs == g_fs)
	ENSURES(g_outputs_raw == OLD(g_outputs_raw) + 1)
	ASSIGNS(g_outputs_raw);
static void output_qcow2_meta_data_blocks(ext2_filsys fs, int fd)
	REQUIRES(fs == g_fs)
	ENSURES(g_outputs_qcow == OLD(g_outputs_qcow) + 1)
	ASSIGNS(g_outputs_qcow);

/* format: location of the external xattr block of an inode */
static unsigned long long spec_acl_block(const struct ext2_inode *i)
{
	unsigned long long b = i->i_file_acl;
	if (IN.feat_incompat & 0x0080 /* INCOMPAT_64BIT */)
		b |= (unsigned long long)i->osd2.linux2.l_i_file_acl_high << 32;
	return b;
}
/* which inodes have nothing but metadata in their blocks */
static int spec_all_blocks_are_metadata(unsigned int ino, const struct ext2_inode *i)
{
	unsigned int fmt = i->i_mode & 0170000;
	return fmt == 0040000 /* directory */ || fmt == 0120000 /* symlink */ ||
	       ino == IN.journal_inum || ino == 3 /* user quota */ || ino == 4 /* group quota */ ||
	       ino == IN.prj_inum || ino == IN.orphan_inum;
}
static int spec_has_mapping_blocks(const struct ext2_inode *i)
{
	return (i->i_flags & 0x00080000 /* EXTENTS_FL */) || i->i_block[12] || i->i_block[13] || i->i_block[14];
}

errcode_t ext2fs_get_next_inode(ext2_inode_scan scan, ext2_ino_t *ino, struct ext2_inode *inode)
{
	const unsigned int d = DRAWI;
	verif_g5++;
	CHECK((char *)scan == &g_scan_obj, "scan: the scan opened for this file system");
	CHECK(verif_g1 == 0, "next inode only after the previous inode's xattr block was marked");
	CHECK(verif_g2 == 0, "next inode only after the previous inode's blocks were visited");
	*ino = IN.scan_ino[d];
	*inode = IN.scan_inode[d];
	verif_p0 = (const unsigned char *)inode;
	verif_g4 = IN.scan_ino[d];
	verif_g3 = IN.valid[d] != 0;
	verif_g1 = verif_g2 = verif_g6 = 0;
	if (IN.scan_ret[d] == 0 && IN.scan_ino[d] != 0 && IN.scan_inode[d].i_links_count != 0) {
		verif_g1 = spec_acl_block(&IN.scan_inode[d]);
		if (verif_g3) {
			if (spec_all_blocks_are_metadata(IN.scan_ino[d], &IN.scan_inode[d]))
				verif_g2 = 1;
			else if (spec_has_mapping_blocks(&IN.scan_inode[d]) || IN.all_data)
				verif_g2 = 2;
			else
				verif_g6 = 1;
		}
	}
	return IN.scan_ret[d];
}
int ext2fs_inode_has_valid_blocks2(ext2_filsys fs, struct ext2_inode *inode)
{
	CHECK(fs == g_fs && (const unsigned char *)inode == verif_p0, "validity is asked about the inode just delivered");
	return (int)verif_g3;
}
int ext2fs_mark_generic_bmap(ext2fs_generic_bitmap bitmap, __u64 arg)
{
	if ((char *)bitmap == &g_scramble_obj) {
		g_marks_scramble++;
		g_last_scramble = arg;
		return 0;
	}
	CHECK((char *)bitmap == &g_meta_obj, "mark: in meta_block_map");
	if (g_fs == 0) {		/* callback harness */
		g_marks_meta++;
		g_last_meta = arg;
		return 0;
	}
	CHECK(verif_g1 != 0 && arg == verif_g1, "mark: exactly the xattr block of an in-use inode, once (never for an unused inode)");
	verif_g1 = 0;
	return 0;
}
errcode_t ext2fs_block_iterate3(ext2_filsys fs, ext2_ino_t ino, int flags, char *block_buf,
				int (*func)(ext2_filsys fs, blk64_t *blocknr, e2_blkcnt_t blockcnt, blk64_t ref_blk, int ref_offset, void *priv_data),
				void *priv_data)
{
	const struct process_block_struct *p = priv_data;
	const unsigned int d = DRAWI;
	verif_g5++;
	CHECK(fs == g_fs && ino == verif_g4 && block_buf != 0, "iterate: this inode of this file system");
	CHECK((flags & BLOCK_FLAG_READ_ONLY) != 0, "iterate: read-only (the source is never modified)");
	CHECK(p->ino == verif_g4 && (p->is_dir != 0) == ((((const struct ext2_inode *)verif_p0)->i_mode & 0170000) == 0040000), "iterate: callback data describes this inode");
	CHECK(stashed_ino == verif_g4 && (const unsigned char *)stashed_inode == verif_p0, "iterate: the stashed inode is this inode");
	if (func == process_dir_block)
		CHECK(verif_g2 == 1, "every block kept: only for directories, symlinks, journal, quota and orphan files with a valid map");
	else {
		CHECK(func == process_file_block, "iterate: one of the two callbacks");
		CHECK(verif_g2 == 2 || verif_g6 == 1, "mapping blocks kept: only for other in-use inodes with a valid map");
	}
	verif_g2 = 0;
	verif_g6 = 0;
	return IN.iter_ret[d];
}
errcode_t ext2fs_allocate_block_bitmap(ext2_filsys fs, const char *descr, ext2fs_block_bitmap *ret)
{
	EXPECT(fs == g_fs);
	*ret = (ext2fs_block_bitmap)(ret == &meta_block_map ? &g_meta_obj : &g_scramble_obj);
	return 0;
}
errcode_t ext2fs_open_inode_scan(ext2_filsys fs, int buffer_blocks, ext2_inode_scan *ret_scan)
{
	EXPECT(fs == g_fs && g_tables == 1);
	*ret_scan = (ext2_inode_scan)&g_scan_obj;
	return 0;
}
void ext2fs_close_inode_scan(ext2_inode_scan scan) { g_scan_closed++; }
void ext2fs_free_block_bitmap(ext2fs_block_bitmap bitmap) { }
void com_err(const char *whoami, long code, const char *fmt, ...) { }
char *gettext(const char *msgid) { return (char *)msgid; }

void h_raw_inodes(void)
{
	LOAD_IN();
	struct struct_ext2_filsys *fs = malloc(sizeof(*fs));
	struct ext2_super_block *sb = malloc(sizeof(*sb));
	ASSUME(fs && sb);
	fs->super = sb;
	fs->blocksize = 1024;
	fs->desc_blocks = 1;
	fs->get_blocks = 0; fs->check_directory = 0; fs->read_inode = 0;
	sb->s_feature_incompat = IN.feat_incompat;
	sb->s_journal_inum = IN.journal_inum;
	sb->s_prj_quota_inum = IN.prj_inum;
	sb->s_orphan_file_inum = IN.orphan_inum;
	g_fs = fs;
	all_data = IN.all_data; output_is_blk = IN.output_is_blk; show_progress = 0;
	meta_block_map = 0; scramble_block_map = 0;
	g_bad = g_marks_meta = g_marks_scramble = g_tables = g_outputs_raw = g_outputs_qcow = g_scan_closed = 0;
	verif_g0 = verif_g1 = verif_g2 = verif_g3 = verif_g4 = verif_g5 = verif_g6 = verif_g7 = 0;
	verif_p0 = 0;

	write_raw_image_file(fs, 3, IN.type, IN.flags, 0);

	CHECK(!g_bad, "library calls on this file system / this inode");
	CHECK(verif_g1 == 0 && verif_g2 == 0, "at the end of the scan the last inode was completely handled");
	CHECK(verif_g4 == 0, "the scan ends only when the library reports inode 0 (end of the inode tables)");
	CHECK(g_tables == 1 && g_outputs_raw + g_outputs_qcow == 1 && g_outputs_qcow == ((IN.type & E2IMAGE_QCOW2) ? 1u : 0u), "table blocks marked once before the scan, image written once after it, in the requested format");
	CHECK(fs->get_blocks == 0 && fs->check_directory == 0 && fs->read_inode == 0, "the inode shortcuts (which hand out the stashed inode, a local of this function) are removed again");
	REACH("end");
}

void h_process_block(void)
{
	LOAD_IN();
	struct process_block_struct pb;
	blk64_t blk = IN.blk;
	g_fs = 0;
	meta_block_map = (ext2fs_block_bitmap)&g_meta_obj;
	scramble_block_map = IN.scramble ? (ext2fs_block_bitmap)&g_scramble_obj : 0;
	all_data = IN.all_data;
	meta_blocks_count = 0;
	g_marks_meta = g_marks_scramble = 0;
	pb.ino = 12; pb.is_dir = IN.is_dir;
	int r;
	if (IN.use_dir) {
		r = process_dir_block(0, &blk, IN.blockcnt, 0, 0, &pb);
		CHECK(r == 0 && g_marks_meta == 1 && g_last_meta == IN.blk && meta_blocks_count == 1, "every block of a directory / symlink / journal / quota / orphan file (data, extent-tree and indirect blocks alike) is metadata");
		CHECK(g_marks_scramble == ((IN.scramble && IN.is_dir && IN.blockcnt >= 0) ? 1u : 0u) && (g_marks_scramble == 0 || g_last_scramble == IN.blk), "scrambling: exactly the data blocks of directories");
		REACH("dir");
	} else {
		r = process_file_block(0, &blk, IN.blockcnt, 0, 0, &pb);
		CHECK(r == 0 && g_marks_meta == ((IN.blockcnt < 0 || IN.all_data) ? 1u : 0u) && (g_marks_meta == 0 || g_last_meta == IN.blk), "of other files the mapping blocks (blockcnt < 0: extent-tree and indirect blocks) are metadata; data blocks only under -a");
		CHECK(meta_blocks_count == g_marks_meta && g_marks_scramble == 0, "counted once; never scrambled");
		REACH("file");
	}
	CHECK(blk == IN.blk, "the block number is not changed (read-only iteration)");
	REACH("end");
}
