/* VERIF-UNIT
{
 "name": "set_inode_xattr",
 "props": ["C18"],
 "level": "U/iter",
 "tier": "quick",
 "tier_after_hooks": "quick",
 "harness": "h_set_inode_xattr",
 "loop_contracts": true,
 "replace": ["ext2fs_get_mem", "ext2fs_free_mem"],
 "includes": ["misc"],
 "unwind": 6,
 "unwindset": {"__CPROVER_contracts_write_set_check_assigns_clause_inclusion.0": 14},
 "unwind_reason": "the loop over the attribute names is cut by its in-place loop contract (hooks-pending/tools.diff); the bound only serves the DFCC library loops (unwinding assertions on)",
 "functions": ["misc/create_inode.c:set_inode_xattr"],
 "assumes": ["NEEDS the hook in hooks-pending/tools.diff (loop contract on the name loop of set_inode_xattr)",
             "no contract enforced (no frame obligations): harness CHECKs + protocol monitor in the stubs of llistxattr, lgetxattr, strlen, ext2fs_xattrs_open/read/close, ext2fs_xattr_set",
             "llistxattr answers -1 or an ARBITRARY size 0..65536 (XATTR_LIST_MAX) and on the second call a size 0..the buffer size; the list is a sequence of NUL-terminated names filling exactly that size, modelled through strlen's contract: strlen(&list[i]) is an arbitrary n with i + n < size (the stub never reads the bytes)",
             "lgetxattr answers -1 or an arbitrary size 0..65536 (XATTR_SIZE_MAX), on the fetch call 0..the buffer size; value bytes are not modelled (the buffer handed to ext2fs_xattr_set is checked to be the one lgetxattr filled, with the size lgetxattr reported)",
             "ext2fs_get_mem / ext2fs_free_mem (inline malloc/free wrappers of ext2fs.h) are replaced by contracts - DFCC forbids malloc/free inside a loop that carries a loop contract: get_mem fails with an arbitrary code or hands out a 64 KiB ghost pool buffer (its precondition size <= 65536 is checked at both call sites), free_mem clears the pointer; list and value buffers may therefore alias, which no stub depends on (contents are never read)",
             "a failing host call sets errno to one harness-chosen positive code (at most one call fails per run: every failure ends the copy)",
             "U/iter: the statement holds for the iteration starting in an arbitrary state that satisfies the proved loop invariant (0 <= i <= size, i at a name boundary, no error so far)"],
 "native": false
}
*/
/*
 * C18 "... and user extended attributes": mke2fs -d copies every extended attribute of the host file.
 *
 * Monitor registers:
 *   verif_g0  0 at a name boundary (next: size query for the name at g1, or end), 1 size known (next: fetch),
 *             2 value fetched (next: ext2fs_xattr_set), 3 set (next: strlen to step over the name)
 *   verif_g1  offset in the list of the name being processed     verif_g2  size answered by the query
 *   verif_g3  size answered by the fetch                         verif_g4  number of attributes set
 *   verif_g5  stub draw counter    verif_g7  error code a callee reported (what the caller must see)
 *   verif_p0  value buffer given to the fetch
 * Statement: for every name in the host's list, in list order, none skipped: the value is fetched into a buffer of
 * the size the host announced and ext2fs_xattr_set(handle, that name, that buffer, the size actually fetched) is
 * called; the first error stops the copy and is returned; the handle is closed whenever it was opened; success is
 * reported only if the list was walked to its end (or the host has no attributes / no xattr support / the image has
 * no xattr feature / copying was switched off).
 */
#include "verif.h"

unsigned long long verif_k;
int verif_old_bit;
unsigned long long verif_g0, verif_g1, verif_g2, verif_g3, verif_g4, verif_g5, verif_g6, verif_g7;
const unsigned char *verif_p0, *verif_p1, *verif_p2, *verif_p3;

#define _LARGEFILE64_SOURCE 1
#define _GNU_SOURCE 1
#include "config.h"
#include <sys/stat.h>
#include <sys/types.h>
#include <sys/xattr.h>
#include <string.h>
#include <errno.h>
#include <ext2fs/ext2fs.h>
#include "create_inode.h"

struct in_s {
	long list_ret[2];
	long get_ret[8];
	long set_ret[8];
	unsigned int len[8];
	long r_open, r_read, r_close;
	int err, no_copy;
	unsigned int ino;
};
struct in_s IN;
#include "verif_in.h"

int no_copy_xattrs;

static const char g_filename[] = "f";
static char *g_list;
static long g_size;			/* size of the list as finally delivered */
static unsigned int g_lists, g_opens, g_reads, g_closes, g_bad;
static struct ext2_xattr_handle *g_handle;
static char g_handle_obj;

static char *g_pool;

/* allocation by contract (see assumes) */
errcode_t ext2fs_get_mem(unsigned long size, void *ptr)
	REQUIRES(size <= 65536)
	ENSURES((RET == 0 && *(char **)ptr == g_pool && verif_g7 == OLD(verif_g7)) || (RET > 0 && verif_g7 == (unsigned long long)RET))
	ASSIGNS(*(char **)ptr, verif_g7);
errcode_t ext2fs_free_mem(void *ptr)
	ENSURES(RET == 0 && *(char **)ptr == 0)
	ASSIGNS(*(char **)ptr);

#define DRAW(arr) (IN.arr[verif_g5 & 7])
#define EXPECT(c) do { if (!(c)) g_bad = 1; } while (0)

ssize_t llistxattr(const char *path, char *list, size_t size)
{
	long v = IN.list_ret[g_lists & 1];
	EXPECT(path == g_filename && g_lists < 2);
	if (g_lists == 0)
		EXPECT(list == 0 && size == 0);
	else {
		EXPECT(list != 0 && size == (size_t)IN.list_ret[0] && g_opens == 1 && g_reads == 1);
		g_list = list;
	}
	g_lists++;
	if (v < 0) {
		verif_g7 = IN.err;
		return -1;
	}
	ASSUME(v <= 65536);
	if (g_lists == 2) {
		ASSUME((size_t)v <= size);
		g_size = v;
	}
	return v;
}

ssize_t lgetxattr(const char *path, const char *name, void *value, size_t size)
{
	long v = DRAW(get_ret);
	verif_g5++;
	EXPECT(path == g_filename);
	CHECK(name == g_list + verif_g1, "lgetxattr: for the name at the current list position");
	if (value == 0) {
		CHECK(verif_g0 == 0 && size == 0, "size query: at a name boundary");
		if (v < 0) {
			verif_g7 = IN.err;
			return -1;
		}
		ASSUME(v <= 65536);
		verif_g2 = v;
		verif_g0 = 1;
		return v;
	}
	CHECK(verif_g0 == 1 && size == verif_g2, "fetch: into a buffer of the size the host announced");
	verif_p0 = (const unsigned char *)value;
	if (v < 0) {
		verif_g7 = IN.err;
		return -1;
	}
	ASSUME((size_t)v <= size);
	verif_g3 = v;
	verif_g0 = 2;
	return v;
}

errcode_t ext2fs_xattr_set(struct ext2_xattr_handle *handle, const char *name, const void *value, size_t value_len)
{
	long e = DRAW(set_ret);
	verif_g5++;
	CHECK(handle == g_handle, "set: on the handle opened for this inode");
	CHECK(verif_g0 == 2 && name == g_list + verif_g1, "set: the name just fetched");
	CHECK(value == (const void *)verif_p0 && value_len == verif_g3, "set: the bytes lgetxattr delivered, all of them and no more");
	verif_g0 = 3;
	verif_g4++;
	if (e > 0) {
		verif_g7 = e;
		return e;
	}
	return 0;
}

size_t strlen(const char *s)
{
	unsigned int n = DRAW(len);
	verif_g5++;
	CHECK(verif_g0 == 3 && s == g_list + verif_g1, "step: over the name just set (nothing is skipped)");
	ASSUME(verif_g1 + n < (unsigned long long)g_size);	/* the list is NUL-terminated names: the name ends inside it */
	verif_g1 += n + 1;
	verif_g0 = 0;
	return n;
}

errcode_t ext2fs_xattrs_open(ext2_filsys fs, ext2_ino_t ino, struct ext2_xattr_handle **handle)
{
	g_opens++;
	EXPECT(ino == IN.ino && g_lists == 1);
	if (IN.r_open) return IN.r_open;
	*handle = g_handle = (struct ext2_xattr_handle *)&g_handle_obj;
	return 0;
}
errcode_t ext2fs_xattrs_read(struct ext2_xattr_handle *handle)
{
	g_reads++;
	EXPECT(handle == g_handle && g_opens == 1);
	return IN.r_read;
}
errcode_t ext2fs_xattrs_close(struct ext2_xattr_handle **handle)
{
	g_closes++;
	EXPECT(*handle == g_handle);
	return IN.r_close;
}
void com_err(const char *whoami, long code, const char *fmt, ...) { }
char *gettext(const char *msgid) { return (char *)msgid; }

#include "misc/create_inode.c"

void h_set_inode_xattr(void)
{
	LOAD_IN();
	struct struct_ext2_filsys *fs = malloc(sizeof(*fs));
	ASSUME(fs != 0);
	ASSUME(IN.err > 0 && IN.r_open >= 0 && IN.r_read >= 0 && IN.r_close >= 0);
	no_copy_xattrs = IN.no_copy;
	errno = IN.err;
	g_list = 0; g_size = 0; g_handle = 0;
	g_pool = malloc(65536);
	ASSUME(g_pool != 0);
	g_lists = g_opens = g_reads = g_closes = g_bad = 0;
	verif_g0 = verif_g1 = verif_g2 = verif_g3 = verif_g4 = verif_g5 = verif_g6 = verif_g7 = 0;
	verif_p0 = 0;

	errcode_t r = set_inode_xattr(fs, IN.ino, g_filename);

	CHECK(!g_bad, "host calls on this file, library calls on this inode's handle, in the order list-size / open / read / list");
	CHECK(g_closes == ((g_opens == 1 && IN.r_open == 0) ? 1u : 0u), "the handle is closed exactly when it was opened");
	if (IN.no_copy) {
		CHECK(r == 0 && g_lists == 0 && g_opens == 0, "copying switched off: nothing is touched");
		REACH("no-copy");
		return;
	}
	if (r == 0) {
		if (g_lists == 1) {
			CHECK((IN.list_ret[0] < 0 && IN.err == ENOTSUP) || IN.list_ret[0] == 0 || (g_opens == 1 && IN.r_open == EXT2_ET_MISSING_EA_FEATURE),
			      "success without a copy only if the host has no attributes / no xattr support, or the image lacks the feature");
			REACH("nothing-to-copy");
		} else {
			CHECK(g_lists == 2 && IN.r_read == 0 && IN.r_close == 0 && verif_g7 == 0, "success: every call succeeded");
			CHECK(verif_g0 == 0 && verif_g1 >= (unsigned long long)g_size, "success: the list was walked to its end, the last attribute completely set");
			if (verif_g4 > 0) REACH("copied");
		}
	} else {
		CHECK(verif_g7 != 0 || IN.r_open || IN.r_read || IN.r_close, "failure only if a call failed");
		if (verif_g7 != 0 && g_lists == 2 && IN.list_ret[1] >= 0) {
			CHECK((unsigned long long)r == verif_g7, "the error of lgetxattr (errno) / ext2fs_xattr_set is passed on");
			REACH("attr-error");
		}
	}
	CHECK(!(verif_g7 != 0 && !(g_lists == 1 && IN.err == ENOTSUP)) || r != 0, "no failure of a host or library call is swallowed (ENOTSUP on the first listing means: nothing to copy)");
	CHECK(!(g_opens == 1 && IN.r_open == 0 && (IN.r_read || IN.r_close)) || r != 0, "read/close errors of the handle are reported");
	REACH("end");
}
