/* VERIF-UNIT
{
 "name": "add_link",
 "props": ["C18"],
 "level": "P",
 "tier": "quick",
 "harness": "h_add_link",
 "includes": ["misc"],
 "unwind": 6,
 "unwind_reason": "add_link is loop-free; the bound serves the DFCC library loops (unwinding assertions on)",
 "functions": ["misc/create_inode.c:add_link", "misc/create_inode.c:ext2_file_type"],
 "assumes": ["no contract enforced (harness CHECKs + ghost monitor in the stubs); ext2fs_read_inode / ext2fs_write_inode work on one ghost inode and may fail; ext2fs_link and ext2fs_expand_dir are stubs with harness-chosen results; com_err a no-op, gettext the identity",
             "the inode has fewer than 65535 links before the call (i_links_count is 16 bits; the code does not test EXT2_LINK_MAX: unit add_link_link_max / findings/C18_add_link_count_wrap)"],
 "native": false
}
*/
/* VERIF-UNIT
{
 "name": "do_symlink_internal",
 "props": ["C18"],
 "level": "P",
 "tier": "quick",
 "harness": "h_do_symlink",
 "includes": ["misc"],
 "unwind": 10,
 "unwind_reason": "do_symlink_internal is loop-free; strrchr (CBMC's libc model) runs over the harness's 8-byte name buffer (at most 8 iterations), unwinding assertions on",
 "functions": ["misc/create_inode.c:do_symlink_internal"],
 "assumes": ["no contract enforced (harness CHECKs + ghost monitor in the stubs); ext2fs_namei, ext2fs_symlink, ext2fs_expand_dir are stubs with harness-chosen results (what ext2fs_symlink stores is unit ext2fs_symlink)",
             "the link path is an arbitrary C string in an 8-byte buffer (0..7 characters, any number of '/'): B(8) for the path length only"],
 "native": false
}
*/
/* VERIF-UNIT
{
 "name": "add_link_link_max",
 "props": ["C18"],
 "level": "P",
 "tier": "quick",
 "harness": "h_add_link_max",
 "includes": ["misc"],
 "unwind": 6,
 "unwind_reason": "as add_link",
 "functions": ["misc/create_inode.c:add_link"],
 "assumes": ["as add_link, WITHOUT the bound on the link count: FAILS on the pinned tree - genuine defect findings/C18_add_link_count_wrap (the 65536th link wraps i_links_count to 0, mke2fs -d exits 0 with an inconsistent image); passes with findings/C18_add_link_count_wrap/proposed-fix.patch"],
 "native": false
}
*/
/*
 * C18 "hard-link groups", "symlink targets": the two small creators of mke2fs -d / debugfs.
 *
 * add_link(fs, parent, ino, name): a further name for an existing inode.
 *   success  <=>  a directory entry (parent, name, ino) was created by a successful ext2fs_link whose file type is
 *   the directory-entry code of the inode's stored mode (format: ext4 "Directory Entries" file_type table), the
 *   stored link count is the old one + 1 and nothing else of the inode changed; a full directory is expanded once
 *   and the link retried once; on any failure the inode is not rewritten.
 * do_symlink_internal(fs, cwd, name, target, root): "dir/.../leaf" -> the parent is what ext2fs_namei finds for the
 *   text before the LAST '/', the link is called by the text after it; without '/' the parent is cwd; the target
 *   goes to ext2fs_symlink untouched, a new inode is asked for (ino 0); a full directory is expanded once and the
 *   call repeated with the same arguments.
 */
#include "verif.h"

unsigned long long verif_k;
int verif_old_bit;
unsigned long long verif_g0, verif_g1, verif_g2, verif_g3, verif_g4, verif_g5, verif_g6, verif_g7;
const unsigned char *verif_p0, *verif_p1, *verif_p2, *verif_p3;

#define _LARGEFILE64_SOURCE 1
#define _GNU_SOURCE 1
#include "config.h"
#include <sys/stat.h>
#include <sys/types.h>
#include <string.h>
#include <ext2fs/ext2fs.h>
#include "create_inode.h"

struct in_s {
	struct ext2_inode inode;
	unsigned int parent, ino, k;
	long r_read, r_link[2], r_expand, r_write;
	/* do_symlink_internal */
	char path[8];
	unsigned int cwd, root, found_parent;
	long r_namei, r_symlink[2];
};
struct in_s IN;
#include "verif_in.h"

/* format: directory-entry file type codes */
static int spec_file_type(unsigned int mode)
{
	switch (mode & 0170000) {
	case 0100000: return 1;
	case 0040000: return 2;
	case 0020000: return 3;
	case 0060000: return 4;
	case 0010000: return 5;
	case 0140000: return 6;
	case 0120000: return 7;
	}
	return 0;
}

static struct ext2_inode G_INODE;
static unsigned int g_reads, g_writes, g_links, g_expands, g_bad;
static int g_link_type[2];
static const char *g_name;
static char g_target_obj[4];

/* do_symlink_internal monitor */
static unsigned int g_namei, g_symlinks;
static char *g_path;
static int g_namei_prefix_ok;
static ext2_ino_t g_sym_parent[2];
static const char *g_sym_name[2];

#define EXPECT(c) do { if (!(c)) g_bad = 1; } while (0)

errcode_t ext2fs_read_inode(ext2_filsys fs, ext2_ino_t ino, struct ext2_inode *inode)
{
	g_reads++;
	EXPECT(ino == IN.ino && g_links == 0);
	if (IN.r_read) return IN.r_read;
	*inode = G_INODE;
	return 0;
}
errcode_t ext2fs_write_inode(ext2_filsys fs, ext2_ino_t ino, struct ext2_inode *inode)
{
	g_writes++;
	EXPECT(ino == IN.ino);
	if (IN.r_write) return IN.r_write;
	G_INODE = *inode;
	return 0;
}
errcode_t ext2fs_link(ext2_filsys fs, ext2_ino_t dir, const char *name, ext2_ino_t ino, int flags)
{
	EXPECT(g_links < 2 && dir == IN.parent && ino == IN.ino && name == g_name);
	g_link_type[g_links & 1] = flags;
	return IN.r_link[g_links++ & 1];
}
errcode_t ext2fs_expand_dir(ext2_filsys fs, ext2_ino_t dir)
{
	g_expands++;
	EXPECT(dir == (g_path ? g_sym_parent[0] : IN.parent));
	return IN.r_expand;
}
errcode_t ext2fs_namei(ext2_filsys fs, ext2_ino_t root, ext2_ino_t cwd, const char *name, ext2_ino_t *inode)
{
	g_namei++;
	/* the directory part is the text before the last '/'; "/name" (empty directory part) means the root directory: the
	 * parent is then looked up as "/" (not as "", which ext2fs_namei resolves to the cwd) */
	EXPECT(root == IN.root && cwd == IN.cwd && g_symlinks == 0 &&
	       (g_path[0] == 0 ? (name != g_path && name[0] == '/' && name[1] == 0) : name == g_path));
	if (IN.r_namei) return IN.r_namei;
	*inode = IN.found_parent;
	return 0;
}
errcode_t ext2fs_symlink(ext2_filsys fs, ext2_ino_t parent, ext2_ino_t ino, const char *name, const char *target)
{
	EXPECT(g_symlinks < 2 && ino == 0 && target == g_target_obj);
	g_sym_parent[g_symlinks & 1] = parent;
	g_sym_name[g_symlinks & 1] = name;
	return IN.r_symlink[g_symlinks++ & 1];
}
void com_err(const char *whoami, long code, const char *fmt, ...) { }
char *gettext(const char *msgid) { return (char *)msgid; }

#include "misc/create_inode.c"

void h_add_link(void)
{
	LOAD_IN();
	struct struct_ext2_filsys *fs = malloc(sizeof(*fs));
	ASSUME(fs != 0);
	ASSUME(IN.inode.i_links_count < 65535);
	ASSUME(IN.r_link[0] >= 0 && IN.r_link[1] >= 0);
	G_INODE = IN.inode;
	g_reads = g_writes = g_links = g_expands = g_bad = 0;
	g_path = 0;
	g_name = "nm";

	errcode_t r = add_link(fs, IN.parent, IN.ino, g_name);

	CHECK(!g_bad, "every callee was given this inode / parent / name");
	CHECK(g_reads == 1, "the inode is read once, first");
	const unsigned int last = g_links ? g_links - 1 : 0;
	if (r == 0) {
		CHECK(g_links >= 1 && g_links <= 2 && IN.r_link[last] == 0, "success: the last ext2fs_link succeeded");
		CHECK(g_link_type[last] == spec_file_type(IN.inode.i_mode), "the directory entry's file type is the format code of the inode's mode");
		CHECK(g_links == 1 || (IN.r_link[0] == EXT2_ET_DIR_NO_SPACE && g_expands == 1 && IN.r_expand == 0), "a second attempt only after a full directory was expanded");
		CHECK(g_writes == 1 && G_INODE.i_links_count == IN.inode.i_links_count + 1, "the stored link count is one more");
		unsigned int k = IN.k & 127;
		CHECK((k >= 26 && k < 28) || ((unsigned char *)&G_INODE)[k] == ((unsigned char *)&IN.inode)[k], "no other byte of the inode changes (arbitrary byte k; i_links_count is bytes 26-27)");
		if (g_links == 2) REACH("expanded");
		REACH("linked");
	} else {
		CHECK(g_writes == 0 || IN.r_write != 0, "failure: the inode is not rewritten (or the rewrite itself failed)");
		CHECK(((unsigned char *)&G_INODE)[IN.k & 127] == ((unsigned char *)&IN.inode)[IN.k & 127], "failure: the stored inode is unchanged");
		CHECK(g_links == 0 || IN.r_link[last] != 0 || IN.r_write != 0, "failure is never reported after a complete success");
		if (g_links == 1 && IN.r_link[0] != EXT2_ET_DIR_NO_SPACE && IN.r_link[0]) {
			CHECK(r == IN.r_link[0] && g_expands == 0, "other link errors are passed on without expanding");
			REACH("link-error");
		}
	}
	CHECK(g_expands <= 1 && g_links <= 2, "at most one expansion and one retry");
	REACH("end");
}

void h_do_symlink(void)
{
	LOAD_IN();
	struct struct_ext2_filsys *fs = malloc(sizeof(*fs));
	char *path = malloc(8);
	ASSUME(fs && path);
	int i, slash = -1;
	for (i = 0; i < 8; i++)
		path[i] = IN.path[i];
	path[7] = 0;
	/* independent reading of the path: index of the last '/' */
	for (i = 0; i < 8 && path[i]; i++)
		if (path[i] == '/')
			slash = i;
	ASSUME(IN.r_symlink[0] >= 0 && IN.r_symlink[1] >= 0);
	g_path = path;
	g_namei = g_symlinks = g_expands = g_bad = 0;
	g_sym_parent[0] = g_sym_parent[1] = 0;

	errcode_t r = do_symlink_internal(fs, IN.cwd, path, g_target_obj, IN.root);

	CHECK(!g_bad, "callees get the caller's root/cwd/target; ino 0 (allocate)");
	if (slash >= 0) {
		CHECK(g_namei == 1, "a path with a directory part: the parent is looked up once");
		CHECK(path[slash] == 0, "the directory part is everything before the LAST '/'");
		if (IN.r_namei) {
			CHECK(r == IN.r_namei && g_symlinks == 0, "lookup failure: passed on, nothing created");
			REACH("namei-failed");
			return;
		}
	} else
		CHECK(g_namei == 0, "no directory part: no lookup");
	if (path[slash + 1] == 0) {
		/* "dir/" or "": there is no name to create (an entry with an empty name is not a legal directory entry) */
		CHECK(r != 0 && g_symlinks == 0, "an empty name is refused, nothing is created");
		REACH("empty-name");
		return;
	}
	CHECK(g_symlinks >= 1 && g_symlinks <= 2, "one attempt, at most one retry");
	CHECK(g_sym_parent[0] == (slash >= 0 ? IN.found_parent : IN.cwd), "created in the directory found (or cwd)");
	CHECK(g_sym_name[0] == path + (slash + 1), "named by the text after the last '/'");
	if (g_symlinks == 2) {
		CHECK(IN.r_symlink[0] == EXT2_ET_DIR_NO_SPACE && g_expands == 1 && IN.r_expand == 0, "retry only after a full directory was expanded");
		CHECK(g_sym_parent[1] == g_sym_parent[0] && g_sym_name[1] == g_sym_name[0], "the retry repeats the same call");
		CHECK(r == IN.r_symlink[1], "result of the retry is passed on");
		REACH("retried");
	} else if (IN.r_symlink[0] == EXT2_ET_DIR_NO_SPACE) {
		CHECK(g_expands == 1 && IN.r_expand != 0 && r == IN.r_expand, "expansion failure is passed on");
	} else {
		CHECK(r == IN.r_symlink[0] && g_expands == 0, "result of ext2fs_symlink is passed on");
	}
	if (slash == 3) REACH("slash-3");
	REACH("end");
}

/* no bound on the existing link count: the stored count must never wrap (format: 16 bits, EXT2_LINK_MAX 65000) */
void h_add_link_max(void)
{
	LOAD_IN();
	struct struct_ext2_filsys *fs = malloc(sizeof(*fs));
	ASSUME(fs != 0);
	ASSUME(IN.r_link[0] >= 0 && IN.r_link[1] >= 0);
	G_INODE = IN.inode;
	g_reads = g_writes = g_links = g_expands = g_bad = 0;
	g_path = 0;
	g_name = "nm";
	errcode_t r = add_link(fs, IN.parent, IN.ino, g_name);
	CHECK(r != 0 || (unsigned int)G_INODE.i_links_count == (unsigned int)IN.inode.i_links_count + 1, "success: the stored link count is REALLY one more (no 16-bit wrap)");
	CHECK(r != 0 || G_INODE.i_links_count <= EXT2_LINK_MAX, "success: never more links than the format allows (EXT2_LINK_MAX)");
	CHECK(!(IN.inode.i_links_count >= EXT2_LINK_MAX) || (r != 0 && g_links == 0 && g_writes == 0), "an inode that already has the maximum number of links gets no further directory entry");
	REACH("end");
}
