/* VERIF-UNIT
{
 "name": "qcow2_write_raw_image",
 "props": ["C19"],
 "level": "U/iter",
 "tier": "quick",
 "tier_after_hooks": "quick",
 "harness": "h_qcow2_to_raw",
 "loop_contracts": true,
 "replace": ["ext2fs_get_memzero", "qcow2_copy_data"],
 "unwind": 6,
 "unwindset": {"__CPROVER_contracts_write_set_check_assigns_clause_inclusion.0": 10},
 "unwind_reason": "the L1 and L2 walks of qcow2_write_raw_image are cut by in-place loop contracts (hooks-pending/tools.diff); the bound serves the DFCC library loops (unwinding assertions on)",
 "functions": ["lib/ext2fs/qcow2.c:qcow2_write_raw_image", "lib/ext2fs/qcow2.c:qcow2_read_l1_table", "lib/ext2fs/qcow2.c:qcow2_read_l2_table"],
 "assumes": ["NEEDS the hooks in hooks-pending/tools.diff (loop contracts on the two table walks)",
             "no contract enforced on qcow2_write_raw_image: harness CHECKs, the callee contract of qcow2_copy_data (its precondition is the soundness half of the statement) and the loop invariants (completeness half, for one ARBITRARY table position (K1, K2): sound for every position)",
             "ext2fs_llseek, read(2), write(2) are stubs: seeks succeed or fail (harness-chosen, independently per call), read delivers the full count or fails; the L1 table read delivers ARBITRARY entries with the harness's arbitrary entry at K1, an L2 table read from the offset recorded at L1[K1] delivers arbitrary entries with the harness's arbitrary entry at K2 (tables read from other offsets are arbitrary)",
             "ext2fs_get_memzero (inline malloc+memset of ext2fs.h) is replaced by a contract returning a fresh object of the requested size with ARBITRARY contents (every table is overwritten by read before use) or failing; qcow2_copy_data is replaced by a contract with an arbitrary result (its own loop - retries, short writes - is not part of this unit)",
             "header: cluster_bits 9..30 (the function accepts 31 as well, but then evaluates 1 << 31 in int - undefined signed shift, excluded here and reported as an observation), l1_size <= 2^16 (harness object size) and l1_size * l2_size * cluster_size <= 2^64 (the L1 table describes at most 2^64 bytes of guest space: honest images have l1_size == ceil(size / bytes per L1 entry); the function itself only checks l1_size against a far more generous bound), no encryption",
             "the reader treats an L1 entry that is 0 or points beyond the guest size (hdr.size) as 'no table' and an L1 entry with the COMPRESSED bit as an error; since the fix: commits for findings/C19_qcow2_l1_beyond_size and C19_qcow2_raw_last_byte the statement is made for every non-zero L1 entry",
             "little-endian host; U/iter: steps proved from arbitrary states satisfying the proved invariants"],
 "native": false
}
*/
/* VERIF-UNIT
{
 "name": "qcow2_to_raw_table_beyond_size",
 "props": ["C19"],
 "level": "U/iter",
 "tier": "quick",
 "harness": "h_qcow2_to_raw",
 "loop_contracts": true,
 "replace": ["ext2fs_get_memzero", "qcow2_copy_data"],
 "unwind": 6,
 "unwindset": {"__CPROVER_contracts_write_set_check_assigns_clause_inclusion.0": 10},
 "unwind_reason": "as qcow2_write_raw_image",
 "functions": ["lib/ext2fs/qcow2.c:qcow2_write_raw_image"],
 "assumes": ["as qcow2_write_raw_image, but the statement is made for EVERY non-zero L1 entry (an L2 table may lie anywhere in the qcow2 file): FAILS on the pinned tree - genuine defect findings/C19_qcow2_l1_beyond_size (tables beyond the guest size are skipped, e2image -r of an e2image -Qa image of a nearly full file system silently loses file data); passes with that finding's proposed-fix.patch"],
 "native": false
}
*/
/* VERIF-UNIT
{
 "name": "qcow2_to_raw_last_byte",
 "props": ["C19"],
 "level": "U/iter",
 "tier": "quick",
 "harness": "h_qcow2_to_raw",
 "loop_contracts": true,
 "replace": ["ext2fs_get_memzero", "qcow2_copy_data"],
 "defines": ["SPEC_KEEP_COPIED_BYTES"],
 "unwind": 6,
 "unwindset": {"__CPROVER_contracts_write_set_check_assigns_clause_inclusion.0": 10},
 "unwind_reason": "as qcow2_write_raw_image",
 "functions": ["lib/ext2fs/qcow2.c:qcow2_write_raw_image"],
 "assumes": ["as qcow2_write_raw_image, plus: the final size-fixing write must not land inside a cluster that was copied: FAILS on the pinned tree - genuine defect findings/C19_qcow2_raw_last_byte (the last byte of the raw image is overwritten with 0 after the last cluster was copied); passes with that finding's proposed-fix.patch (lseek(SEEK_END) on the raw file is modelled as: at least the end of every copied cluster)"],
 "native": false
}
*/
/*
 * C19 "converting a qcow2 image back to raw equals the directly produced raw image" - reader half (e2image -r of a
 * qcow2 file, qcow2_write_raw_image).
 *
 * qcow2 format: guest cluster n = L1 * l2_size + L2 is stored at the host offset found in entry L2 of the L2 table
 * whose host offset is L1 entry L1 (both big-endian, COPIED bit 63 masked, 0 = unallocated); l2_size = cluster_size/8.
 * A raw image holds guest cluster n at byte n * cluster_size.
 *
 * Statement for one arbitrary position (K1, K2), K1 < l1_size, K2 < l2_size, success return:
 *   completeness: if L1[K1] is a usable table offset E1 and entry K2 of the table read from E1 is D != 0, then
 *                 qcow2_copy_data(qcow2_fd, raw_fd, D, (K1 * l2_size + K2) << cluster_bits, buf, cluster_size)
 *                 has been called;
 *   soundness:    every qcow2_copy_data call that writes to the raw offset of (K1, K2) copies from exactly that D, and
 *                 there is none if the position is unallocated; every call copies one whole cluster to a cluster-aligned
 *                 raw offset from the qcow2 descriptor to the raw descriptor.
 */
#include "verif.h"
#include "config.h"
#include "parsers_spec_le.h"

unsigned long long verif_k;
int verif_old_bit;
unsigned long long verif_g0, verif_g1, verif_g2, verif_g3, verif_g4, verif_g5, verif_g6, verif_g7;
const unsigned char *verif_p0, *verif_p1, *verif_p2, *verif_p3;

struct in_s {
	unsigned char hdr[104];
	unsigned int k1, k2;
	unsigned long long l1_entry, l2_entry;	/* as stored (big-endian bytes in host order) */
	int qfd, rawfd;
	long long seek_fail[8];
	long read_fail[8];
	long tail_write;
	long long raw_size;			/* answer to lseek(raw_fd, 0, SEEK_END), if asked */
	int err;
};
struct in_s IN;
#include "verif_in.h"

#include <errno.h>
#include "lib/ext2fs/qcow2.c"

#define SPEC_COPIED (1ULL << 63)
#define SPEC_COMPRESSED (1ULL << 62)

static unsigned int g_cb;			/* cluster_bits */
static unsigned long long g_raw, g_data;	/* raw offset / data offset of the ghost position */
static unsigned long long g_e1;			/* table offset recorded at L1[K1] */
static void *g_l1_buf;
static void *g_copy_buf;
static unsigned int g_allocs;
static long long g_raw_pos;			/* position of the raw descriptor after its latest absolute seek */

errcode_t ext2fs_get_memzero(unsigned long size, void *ptr)
	/* failure leaves the caller's pointer as it was */
	ENSURES((RET == 0 && FRESH(*(void **)ptr, size)) || (RET == EXT2_ET_NO_MEMORY && *(void **)ptr == OLD(*(void **)ptr)))
	ASSIGNS(*(void **)ptr);

static int qcow2_copy_data(int fdin, int fdout, __u64 off_in, __u64 off_out, void *buf, size_t count)
	REQUIRES(fdin == IN.qfd && fdout == IN.rawfd && buf != 0 && count == ((size_t)1 << g_cb))
	REQUIRES((off_out & (((__u64)1 << g_cb) - 1)) == 0 && off_in != 0)
	/* soundness at the ghost position: what lands at its raw offset is what the tables record for it */
	REQUIRES(off_out != g_raw || (verif_g3 == 1 && off_in == g_data))
	ENSURES(verif_g2 >= OLD(verif_g2) && (!(off_out == g_raw && off_in == g_data) || verif_g2 >= 1))
	ASSIGNS(verif_g2);

ext2_loff_t ext2fs_llseek(int fd, ext2_loff_t offset, int origin)
{
	long long f = IN.seek_fail[verif_g6 & 7];
	verif_g6++;
	if (origin == SEEK_END) {
		/* size of the raw file so far: at least the end of every cluster copied (here: of the ghost cluster) */
		__CPROVER_assert(fd == IN.rawfd && offset == 0, "CHECK:seek: SEEK_END only to ask for the size of the raw file");
		ASSUME(IN.raw_size >= 0 && (verif_g2 == 0 || (unsigned long long)IN.raw_size >= g_raw + ((__u64)1 << g_cb)));
		return IN.raw_size;
	}
	__CPROVER_assert(origin == SEEK_SET, "CHECK:seek: absolute");
	if (f < 0)
		return -1;
	if (fd == IN.qfd)
		verif_g5 = offset;
	else
		g_raw_pos = offset;
	return offset;
}
ssize_t read(int fd, void *buf, size_t count)
{
	long f = IN.read_fail[verif_g6 & 7];
	verif_g6++;
	__CPROVER_assert(fd == IN.qfd, "CHECK:read: from the qcow2 file");
	if (f < 0)
		return -1;
	if (g_l1_buf == 0) {
		/* the L1 table (first read): arbitrary entries, the ghost entry at K1 */
		g_l1_buf = buf;
		if ((size_t)IN.k1 * 8 + 8 <= count)
			((__u64 *)buf)[IN.k1] = IN.l1_entry;
	} else if (verif_g5 == g_e1 && (size_t)IN.k2 * 8 + 8 <= count) {
		/* an L2 table read from the offset the ghost L1 entry records: the ghost entry at K2 */
		((__u64 *)buf)[IN.k2] = IN.l2_entry;
	}
	return count;
}
ssize_t write(int fd, const void *buf, size_t count)
{
	__CPROVER_assert(fd == IN.rawfd && count == 1, "CHECK:write: the final size-fixing byte of the raw image");
#ifdef SPEC_KEEP_COPIED_BYTES
	__CPROVER_assert(!(verif_g2 >= 1 && g_raw <= (unsigned long long)g_raw_pos && (unsigned long long)g_raw_pos < g_raw + ((__u64)1 << g_cb)),
			 "CHECK:the size-fixing byte is not written into a cluster that was copied (arbitrary cluster)");
#endif
	return IN.tail_write;
}

void h_qcow2_to_raw(void)
{
	LOAD_IN();
	struct ext2_qcow2_hdr *hdr = malloc(sizeof(*hdr));
	ASSUME(hdr != 0);
	ASSUME(IN.err > 0);
	memcpy(hdr, IN.hdr, sizeof(*hdr));
	/* independent decoding of the header (qcow2 v2: big-endian fields at fixed byte offsets) */
	const unsigned int cb = PSPEC_BE32(IN.hdr, 20);
	const unsigned long long size = PSPEC_BE64(IN.hdr, 24);
	const unsigned int crypt = PSPEC_BE32(IN.hdr, 32);
	const unsigned int l1_size = PSPEC_BE32(IN.hdr, 36);
	ASSUME(l1_size <= 65536);
	ASSUME(cb != 31);	/* 1 << 31 in `int` (qcow2.c:199,217) is a signed-shift overflow: observation, see report */
	/* the L1 table describes at most 2^64 bytes of guest space (l1_size == ceil(size / bytes per L1 entry) in honest images) */
	ASSUME(cb < 9 || cb > 31 || (unsigned long long)l1_size <= (1ULL << (64 - (2 * cb - 3))));
	ASSUME(IN.qfd != IN.rawfd);
	errno = IN.err;
	g_cb = cb; g_l1_buf = 0; g_allocs = 0; g_raw_pos = -1;
	const unsigned long long e1 = PSPEC_BE64(&IN.l1_entry, 0) & ~SPEC_COPIED;
	const unsigned long long d = PSPEC_BE64(&IN.l2_entry, 0) & ~SPEC_COPIED;
	int req = 0;
	unsigned long long l2_size = 0;
	g_raw = ~0ULL; g_data = 0; g_e1 = 0;
	if (cb >= 9 && cb <= 31) {
		l2_size = 1ULL << (cb - 3);
		ASSUME((((unsigned long long)IN.k1 << (cb - 3)) + IN.k2) < (1ULL << (64 - cb)));
		if (IN.k1 < l1_size && IN.k2 < l2_size) {
			g_raw = (((unsigned long long)IN.k1 << (cb - 3)) + IN.k2) << cb;	/* guest cluster n at byte n * cluster_size */
			g_e1 = e1;
			g_data = d;
#ifdef SPEC_PINNED_TABLE_LIMIT
			req = e1 != 0 && e1 <= size && !(e1 & SPEC_COMPRESSED) && d != 0;	/* as far as the pinned reader goes, see assumes */
#else
			req = e1 != 0 && !(e1 & SPEC_COMPRESSED) && d != 0;			/* format: any non-zero L1 entry names a table */
#endif
		}
	}
	verif_g0 = IN.k1; verif_g1 = IN.k2; verif_g2 = 0; verif_g3 = req; verif_g4 = 0; verif_g5 = 0; verif_g6 = 0; verif_g7 = 0;

	int r = qcow2_write_raw_image(IN.qfd, IN.rawfd, hdr);

	if (crypt) {
		CHECK(r == -QCOW_ENCRYPTED, "encrypted images are refused");
		REACH("encrypted");
		return;
	}
	if (cb < 9 || cb > 31) {
		CHECK(r == -QCOW_CORRUPTED, "cluster_bits outside 9..31 is refused");
		return;
	}
	if (r == 0) {
		CHECK(!req || verif_g2 >= 1, "success: the cluster recorded at every (L1, L2) position has been copied to raw offset (L1 * l2_size + L2) * cluster_size (arbitrary position)");
		if (req) REACH("copied-ghost");
		if (req && IN.k1 > 0 && IN.k2 > 0) REACH("copied-inner");
		REACH("success");
	}
	REACH("end");
}
